/-
C01 — soundness of the keeper-level checker, money clauses (part A): on the model's own dumps of an
accepted message described by a `MoneyCtx`, the clauses `app_supply`, `app_bystander_changed` and
`app_collector_share` never fire.
-/
import PvProofs.C01AppBase
import Mathlib.Tactic.Linarith
namespace PvProofs.C01
open PvModel PvModel.Settle PvModel.Coins PvModel.Ledger PvProofs.Settle

/-! ### Ledger: total supply is the sum of the balances of any list of accounts covering the ledger -/

theorem moneyA_supply_split (L : Ledger) (a : Addr) (d : Denom) :
    supply L d = bal L a d + supply (L.filter (fun e => decide (e.addr ≠ a))) d := by
  induction L with
  | nil => simp
  | cons e t ih =>
    by_cases h : e.addr = a
    · simp only [List.filter_cons, h, ne_eq, not_true_eq_false, decide_false, Bool.false_eq_true, if_false,
        supply, bal, true_and, ih]
      omega
    · simp only [List.filter_cons, h, ne_eq, not_false_eq_true, decide_true, if_true, supply, bal, false_and,
        if_false, ih]
      omega

theorem moneyA_bal_filter_ne (L : Ledger) (a x : Addr) (d : Denom) (hx : x ≠ a) :
    bal (L.filter (fun e => decide (e.addr ≠ a))) x d = bal L x d := by
  induction L with
  | nil => simp
  | cons e t ih =>
    by_cases h : e.addr = a
    · have hne : ¬ e.addr = x := fun e' => hx (e'.symm.trans h)
      simp only [List.filter_cons, h, ne_eq, not_true_eq_false, decide_false, Bool.false_eq_true, if_false,
        ih]
      simp only [bal, hne, false_and, if_false]
      omega
    · simp only [List.filter_cons, h, ne_eq, not_false_eq_true, decide_true, if_true, bal, ih]

theorem moneyA_bal_filter_self (L : Ledger) (a : Addr) (d : Denom) :
    bal (L.filter (fun e => decide (e.addr ≠ a))) a d = 0 := by
  induction L with
  | nil => simp
  | cons e t ih =>
    by_cases h : e.addr = a
    · simp only [List.filter_cons, h, ne_eq, not_true_eq_false, decide_false, Bool.false_eq_true, if_false, ih]
    · simp only [List.filter_cons, h, ne_eq, not_false_eq_true, decide_true, if_true, bal, false_and, if_false,
        ih]
      omega

theorem moneyA_supply_zero_of_bal_zero (n : Nat) :
    ∀ (L : Ledger) (d : Denom), L.length ≤ n → (∀ x, bal L x d = 0) → supply L d = 0 := by
  induction n with
  | zero =>
    intro L d hl _
    have : L = [] := List.eq_nil_of_length_eq_zero (by omega)
    subst this; rfl
  | succ n ih =>
    intro L d hl h
    cases L with
    | nil => rfl
    | cons e t =>
      rw [moneyA_supply_split (e :: t) e.addr d, h e.addr, Int.zero_add]
      apply ih
      · have h1 : (List.filter (fun e' : Entry => decide (e'.addr ≠ e.addr)) (e :: t)) =
            List.filter (fun e' : Entry => decide (e'.addr ≠ e.addr)) t := by
          simp
        rw [h1]
        have h2 := List.length_filter_le (fun e' : Entry => decide (e'.addr ≠ e.addr)) t
        simp only [List.length_cons] at hl
        omega
      · intro x
        by_cases hx : x = e.addr
        · subst hx; exact moneyA_bal_filter_self _ _ _
        · rw [moneyA_bal_filter_ne _ _ _ _ hx]; exact h x

/-- **Supply = sum of the balances** of any duplicate-free list of accounts outside of which the ledger
holds nothing. -/
theorem supply_eq_sum_bal (L : Ledger) (xs : List Addr) (d : Denom) (hn : xs.Nodup)
    (hout : ∀ x, x ∉ xs → bal L x d = 0) : supply L d = (xs.map fun x => bal L x d).sum := by
  induction xs generalizing L with
  | nil =>
    simp only [List.map_nil, List.sum_nil]
    exact moneyA_supply_zero_of_bal_zero L.length L d (Nat.le_refl _) (fun x => hout x (by simp))
  | cons a t ih =>
    rw [List.nodup_cons] at hn
    have hout' : ∀ x, x ∉ t → bal (L.filter (fun e => decide (e.addr ≠ a))) x d = 0 := by
      intro x hx
      by_cases hxa : x = a
      · subst hxa; exact moneyA_bal_filter_self L x d
      · rw [moneyA_bal_filter_ne L a x d hxa]
        exact hout x (by simp [hxa, hx])
    have hmap : (t.map fun x => bal (L.filter (fun e => decide (e.addr ≠ a))) x d) = t.map fun x => bal L x d :=
      List.map_congr_left (fun x hx => moneyA_bal_filter_ne L a x d (fun e => hn.1 (e ▸ hx)))
    rw [moneyA_supply_split L a d, ih _ hn.2 hout', hmap]
    simp only [List.map_cons, List.sum_cons]

/-! ### What a `MoneyCtx` says about the account list -/

section
variable {accts : List Addr} {s s' : KState} {ratio : Option Ratio} {splitOf : Denom → Nat} {parts : List Order}

theorem moneyA_market_notin (ctx : MoneyCtx accts s s' ratio splitOf parts) : marketName ∉ accts := by
  intro h
  have := ctx.nodup
  rw [List.nodup_append] at this
  exact this.2.2 marketName h marketName (by simp) rfl

theorem moneyA_collector_notin (ctx : MoneyCtx accts s s' ratio splitOf parts) : collectorName ∉ accts := by
  intro h
  have := ctx.nodup
  rw [List.nodup_append] at this
  exact this.2.2 collectorName h collectorName (by simp) rfl

theorem moneyA_accts_nodup (ctx : MoneyCtx accts s s' ratio splitOf parts) : accts.Nodup := by
  have := ctx.nodup
  rw [List.nodup_append] at this
  exact this.1

theorem moneyA_market_ne_collector : marketName ≠ collectorName := by decide

/-- an account that owns no filled order and is neither the market nor the fee collector is not moved -/
theorem moneyA_bal_not_owner (ctx : MoneyCtx accts s s' ratio splitOf parts) (x : Addr) (d : Denom)
    (hown : ∀ f ∈ ctx.fos, f.order.owner ≠ x) (hm : x ≠ marketName) (hc : x ≠ collectorName) :
    bal ctx.L x d = 0 := by
  rw [ctx.bal, expectedDelta_not_owner _ _ _ hown, expectedFees_not_owner _ _ _ hown,
    if_neg (Ne.symm hm), if_neg (Ne.symm hc)]
  omega

/-- the appended ledger holds nothing outside the dumped accounts (derived, not assumed) -/
theorem money_closed (ctx : MoneyCtx accts s s' ratio splitOf parts) (x : Addr) (d : Denom)
    (hx : x ∉ accts ++ [marketName, collectorName]) : bal ctx.L x d = 0 := by
  have hx' : x ∉ accts ∧ x ≠ marketName ∧ x ≠ collectorName := by
    simpa [not_or] using hx
  exact moneyA_bal_not_owner ctx x d (fun f hf e => hx'.1 (e ▸ ctx.owners f hf)) hx'.2.1 hx'.2.2

/-- the dumped accounts' changes add up to the supply change of the appended ledger -/
theorem money_sum_delta_eq_supply (ctx : MoneyCtx accts s s' ratio splitOf parts) (d : Denom) :
    ((cAccts (dumpOf accts s)).map fun x => cDelta (dumpOf accts s) (dumpOf accts s') x d).sum
      = supply ctx.L d := by
  rw [cAccts_dumpOf]
  have e : ((accts ++ [marketName, collectorName]).map fun x => cDelta (dumpOf accts s) (dumpOf accts s') x d)
      = (accts ++ [marketName, collectorName]).map fun x => bal ctx.L x d :=
    List.map_congr_left (fun x hx => cDelta_dumpOf ctx.ledger x d hx)
  rw [e, ← supply_eq_sum_bal ctx.L _ d ctx.nodup (fun x hx => money_closed ctx x d hx)]

/-- **`app_supply` never fires** on the model's own dumps, when the appended ledger creates or destroys
nothing (e.g. it is a sequence of `move`s). -/
theorem money_clSupply (ctx : MoneyCtx accts s s' ratio splitOf parts) (hsupply : ∀ d, supply ctx.L d = 0) :
    clSupply (dumpOf accts s) (dumpOf accts s') = false := by
  unfold clSupply
  rw [List.any_eq_false]
  intro d _
  rw [money_sum_delta_eq_supply ctx d, hsupply d]
  simp

/-! ### the same from the message's conservation (`Σ_f f.delta d = 0`) -/

theorem moneyA_sum_ite_eq (xs : List Addr) (hn : xs.Nodup) (a : Addr) (v : Int) (ha : a ∈ xs) :
    (xs.map fun x => if a = x then v else 0).sum = v := by
  induction xs with
  | nil => simp at ha
  | cons b t ih =>
    rw [List.nodup_cons] at hn
    simp only [List.map_cons, List.sum_cons]
    by_cases hab : a = b
    · subst hab
      have : (t.map fun x => if a = x then v else 0) = t.map fun _ => (0 : Int) :=
        List.map_congr_left (fun x hx => if_neg (fun (e : a = x) => hn.1 (e ▸ hx)))
      rw [if_pos rfl, this]
      have h0 : (t.map fun _ => (0 : Int)).sum = 0 := by
        clear ih this hn ha
        induction t with
        | nil => rfl
        | cons _ _ ih' => simp only [List.map_cons, List.sum_cons, ih']; rfl
      rw [h0]; omega
    · have hat : a ∈ t := by
        rcases List.mem_cons.mp ha with h | h
        · exact absurd h hab
        · exact h
      rw [if_neg hab, ih hn.2 hat]; omega

theorem moneyA_sum_owner (g : FilledOrder → Int) (fos : List FilledOrder) (xs : List Addr) (hn : xs.Nodup)
    (hown : ∀ f ∈ fos, f.order.owner ∈ xs) :
    (xs.map fun x => (fos.map fun f => if f.order.owner = x then g f else 0).sum).sum = (fos.map g).sum := by
  induction fos with
  | nil =>
    simp only [List.map_nil, List.sum_nil]
    clear hn hown
    induction xs with
    | nil => rfl
    | cons _ _ ih => simp only [List.map_cons, List.sum_cons, ih]; rfl
  | cons f t ih =>
    simp only [List.map_cons, List.sum_cons]
    rw [sum_map_add xs (fun x => if f.order.owner = x then g f else 0)
      (fun x => (t.map fun f' => if f'.order.owner = x then g f' else 0).sum),
      moneyA_sum_ite_eq xs hn _ _ (hown f (by simp)), ih (fun f' hf' => hown f' (by simp [hf']))]

/-- the appended ledger's supply change is the sum of what the filled orders' owners gain and give -/
theorem money_supply_eq_delta (ctx : MoneyCtx accts s s' ratio splitOf parts) (d : Denom) :
    supply ctx.L d = (ctx.fos.map fun f => f.delta d).sum := by
  have hown : ∀ f ∈ ctx.fos, f.order.owner ∈ accts ++ [marketName, collectorName] :=
    fun f hf => List.mem_append_left _ (ctx.owners f hf)
  have hbal : ((accts ++ [marketName, collectorName]).map fun x => bal ctx.L x d) =
      (accts ++ [marketName, collectorName]).map fun x =>
        ((expectedDelta ctx.fos x d - expectedFees ctx.fos x d)
          + (if marketName = x then totalFees ctx.fos d - amountOf ctx.ex d else 0))
          + (if collectorName = x then amountOf ctx.ex d else 0) :=
    List.map_congr_left (fun x _ => ctx.bal x d)
  rw [supply_eq_sum_bal ctx.L _ d ctx.nodup (fun x hx => money_closed ctx x d hx), hbal,
    sum_map_add, sum_map_add, sum_map_sub,
    moneyA_sum_ite_eq _ ctx.nodup marketName _ (by simp),
    moneyA_sum_ite_eq _ ctx.nodup collectorName _ (by simp)]
  have h1 := moneyA_sum_owner (fun f => f.delta d) ctx.fos _ ctx.nodup hown
  have h2 := moneyA_sum_owner (fun f => amountOf f.actualFees d) ctx.fos _ ctx.nodup hown
  simp only [expectedDelta, expectedFees, totalFees] at *
  rw [h1, h2]
  omega

/-- **`app_supply` never fires**, from the message's own conservation: per denom what the owners of the
filled orders gain and give adds up to nothing. -/
theorem money_clSupply_of_cons (ctx : MoneyCtx accts s s' ratio splitOf parts)
    (hcons : ∀ d, (ctx.fos.map fun f => f.delta d).sum = 0) :
    clSupply (dumpOf accts s) (dumpOf accts s') = false :=
  money_clSupply ctx (fun d => by rw [money_supply_eq_delta ctx d, hcons d])

/-! ### bystanders -/

theorem moneyA_forall₂_right_mem {α β : Type} {R : α → β → Prop} {l₁ : List α} {l₂ : List β}
    (h : List.Forall₂ R l₁ l₂) : ∀ b ∈ l₂, ∃ a ∈ l₁, R a b := by
  induction h with
  | nil => intro b hb; simp at hb
  | cons hab _ ih =>
    intro b hb
    rcases List.mem_cons.mp hb with rfl | hb
    · exact ⟨_, by simp, hab⟩
    · obtain ⟨a, ha, r⟩ := ih b hb
      exact ⟨a, by simp [ha], r⟩

/-- **`app_bystander_changed` never fires** on the model's own dumps. -/
theorem money_clBystander {ids : List Nat} {virt : Option Order} (ctx : MoneyCtx accts s s' ratio splitOf parts)
    (hparts : cParts ids virt (dumpOf accts s) (dumpOf accts s') = parts) :
    clBystander ids virt (dumpOf accts s) (dumpOf accts s') = false := by
  unfold clBystander
  simp only [hparts]
  rw [List.any_eq_false]
  intro x hx
  have hxa : x ∈ accts := (mem_cUsers s (moneyA_market_notin ctx) (moneyA_collector_notin ctx) x).mp hx
  have hxm : x ≠ marketName := fun e => moneyA_market_notin ctx (e ▸ hxa)
  have hxc : x ≠ collectorName := fun e => moneyA_collector_notin ctx (e ▸ hxa)
  intro hfire
  rw [Bool.and_eq_true, List.all_eq_true, List.any_eq_true] at hfire
  obtain ⟨hall, d, _, hd⟩ := hfire
  have hown : ∀ f ∈ ctx.fos, f.order.owner ≠ x := by
    intro f hf
    obtain ⟨q, hq, hqf⟩ := moneyA_forall₂_right_mem ctx.parts f hf
    have := hall q hq
    rw [← hqf.1]
    simpa using this
  have h0 : cDelta (dumpOf accts s) (dumpOf accts s') x d = 0 := by
    rw [cDelta_dumpOf ctx.ledger x d (by simp [hxa])]
    exact moneyA_bal_not_owner ctx x d hown hxm hxc
  simp [h0] at hd

/-! ### the fee collector's share -/

theorem moneyA_totalFees_nonneg (fos : List FilledOrder) (d : Denom)
    (h : ∀ f ∈ fos, 0 ≤ amountOf f.actualFees d) : 0 ≤ totalFees fos d := by
  induction fos with
  | nil => simp [totalFees]
  | cons f t ih =>
    have h1 := h f (by simp)
    have h2 := ih (fun f' hf' => h f' (by simp [hf']))
    simp only [totalFees, List.map_cons, List.sum_cons] at *
    omega

theorem moneyA_delta_market (ctx : MoneyCtx accts s s' ratio splitOf parts) (d : Denom) :
    cDelta (dumpOf accts s) (dumpOf accts s') marketName d = totalFees ctx.fos d - amountOf ctx.ex d := by
  have hown : ∀ f ∈ ctx.fos, f.order.owner ≠ marketName :=
    fun f hf e => moneyA_market_notin ctx (e ▸ ctx.owners f hf)
  rw [cDelta_dumpOf ctx.ledger _ d (by simp), ctx.bal, expectedDelta_not_owner _ _ _ hown,
    expectedFees_not_owner _ _ _ hown, if_pos rfl, if_neg (Ne.symm moneyA_market_ne_collector)]
  omega

theorem moneyA_delta_collector (ctx : MoneyCtx accts s s' ratio splitOf parts) (d : Denom) :
    cDelta (dumpOf accts s) (dumpOf accts s') collectorName d = amountOf ctx.ex d := by
  have hown : ∀ f ∈ ctx.fos, f.order.owner ≠ collectorName :=
    fun f hf e => moneyA_collector_notin ctx (e ▸ ctx.owners f hf)
  rw [cDelta_dumpOf ctx.ledger _ d (by simp), ctx.bal, expectedDelta_not_owner _ _ _ hown,
    expectedFees_not_owner _ _ _ hown, if_neg moneyA_market_ne_collector, if_pos rfl]
  omega

/-- **`app_collector_share` never fires** on the model's own dumps. -/
theorem money_clCollector (ctx : MoneyCtx accts s s' ratio splitOf parts) :
    clCollector splitOf (dumpOf accts s) (dumpOf accts s') = false := by
  unfold clCollector
  rw [List.any_eq_false]
  intro d _
  simp only [moneyA_delta_market ctx d, moneyA_delta_collector ctx d]
  have hT : totalFees ctx.fos d - amountOf ctx.ex d + amountOf ctx.ex d = totalFees ctx.fos d := by omega
  rw [hT]
  have hnn : 0 ≤ totalFees ctx.fos d := moneyA_totalFees_nonneg _ d (fun f hf => ctx.feesNonneg f hf d)
  obtain ⟨sh0, shpos⟩ := ctx.share d
  simp only [Bool.or_eq_true, decide_eq_true_eq, not_or, Int.not_lt, ne_eq, Decidable.not_not]
  refine ⟨hnn, ?_⟩
  by_cases hz : totalFees ctx.fos d = 0 ∨ splitOf d = 0
  · rw [if_pos hz]; exact sh0 hz
  · rw [if_neg hz]
    have h1 : 0 < totalFees ctx.fos d := by omega
    have h2 : 0 < splitOf d := by omega
    exact PvProofs.isCeilDiv_unique (by decide) (shpos h1 h2).1 (PvProofs.ceilDiv_isCeil _ (by decide))

end

end PvProofs.C01
