/-
C13 — Exchange records and their lookups stay consistent, and listings are complete.

Property theorems only (helper lemmas live in `PvProofs/Lemmas/Exrec*`).  The model
(`PvModel.Exrec`) is the byte-level KV store of x/exchange with the real key layout; a history
is any list of messages (`Op`), rejected messages leave the state unchanged.

* Part A: the index invariant `IndexInv` (order present ⇔ exactly its market / owner / asset
  (/ external-id) index entries, no dangling entries; payments listed under their current
  target only) holds after EVERY history; order ids strictly increase; external ids are unique
  per market; payments are unique per (source, external id); market ids are never reused.
  Accounts have two valid text spellings (lower / upper case bech32); records keep the string as sent,
  keys go by account bytes: a payment stays listed under its target through a re-spelling target change
  (`setPayment_lists_current_target`, `respelled_target_stays_listed`).
* Part B: what the prefix scans behind the lookups return.  By market, by owner and by asset:
  exactly the open orders of that market / owner / asset denom, each once (`byAsset_exact` is
  unconditional since commit bdda88322 — an index entry counts only if exactly the 8 order-id
  bytes follow the prefix).  History: `byAsset_lists_prefix_denoms_before_fix` /
  `byAsset_not_exact_before_fix` are about the pre-fix definitions (`…PreFix`): the scan for
  `apple` returned `apples` orders because the asset index key has no terminator (keys.go:765).
  A governance closure leaves no order of the market in the records or in any lookup, whether or
  not the market was paused before (`closeMarket_leaves_no_orders`, `closeMarket_byMarket_empty`,
  `closeMarket_byExternalId_none`, `closeMarket_disables_creation`).
* Part C: paging.  For every strictly sorted entry list, limit ≥ 1, hit filter, after-order
  bound and direction, following `next_key` — or advancing `offset` — through
  `filteredPaginateAfterOrder` returns every matching entry exactly once, in order, and stops.
  The after-order bound is characterised for EVERY `after_order_id` (`after_bound`,
  `after_bound_exact`): since commit 9462d3706 the reverse branch has the same overflow guard as
  the forward one (at MaxUint64 the iterator starts AT key MaxUint64);
  `after_max_reverse_lists_all_before_fix` is the historical witness.  One clause still fails on
  the code and is proved false on a witness: reverse paging through a source's payments drops
  the payment with the empty external id (`paysrc_reverse_paging_skips_empty_external_id`).

Further property theorems live in sibling modules (same namespace): `PvProofs.C13Paged` (paged order
listings end to end = `specOrders`, all three index lookups and GetAllOrders, key and offset mode,
limit 0 included), `PvProofs.C13Pay` (payment prefix scans = `specPayments`, `getPayment_iff`,
`getPaymentsForTargetAndSource_exact`), `PvProofs.C13Check` (`checkInv` sound / exact w.r.t. `IndexInv`
on well-formed dumps), `PvProofs.C13Frames` (frames of cancel, settle, set-external-id, payment
retarget / accept / reject).

The only hypothesis carried by Part A is that fewer than 2^64 orders are created (the uint64
counter does not wrap).
-/
import PvProofs.Lemmas.ExrecAux
import PvProofs.Lemmas.ExrecClose
import PvProofs.Lemmas.ExrecPaging
import PvProofs.Lemmas.ExrecScan
import Mathlib.Data.List.Perm.Subperm
import Mathlib.Data.List.Nodup

namespace PvProofs.C13
open PvModel.Exrec PvProofs.Exrec

/-! ## Part A — invariants over all histories -/

theorem inv_init : Inv init := by
  have hg : ∀ k, init.kv.get k = if k = keyLastOrderID then some (.u64 0)
      else if k = keyLastMarketID then some (.u32 0) else none := by
    intro k
    simp only [init, get_cons, get_nil]
    by_cases h1 : keyLastOrderID = k
    · simp [h1]
    · by_cases h2 : keyLastMarketID = k
      · subst h2
        simp [keyLastOrderID, keyLastMarketID]
      · have h1' : ¬ k = keyLastOrderID := fun e => h1 e.symm
        have h2' : ¬ k = keyLastMarketID := fun e => h2 e.symm
        simp [h1, h2, h1', h2']
  refine ⟨⟨?_, ?_, ?_, ?_, ?_, ?_⟩, ?_, ⟨?_, ?_⟩⟩
  · intro r v h; rw [hg] at h; simp [keyLastOrderID, keyLastMarketID] at h
  · intro id o h; rw [hg] at h; simp [keyLastOrderID, keyLastMarketID, keyOrder] at h
  · intro k v hk h; rw [hg] at h
    split_ifs at h with h1 h2
    · subst h1; simp [isOrderIndexKey, keyLastOrderID] at hk
    · subst h2; simp [isOrderIndexKey, keyLastMarketID] at hk
  · intro r v h; rw [hg] at h; simp [keyLastOrderID, keyLastMarketID] at h
  · intro p h; rw [hg] at h; simp [keyLastOrderID, keyLastMarketID, keyPayment] at h
  · intro r v h; rw [hg] at h; simp [keyLastOrderID, keyLastMarketID] at h
  · intro id v h; rw [hg] at h; simp [keyLastOrderID, keyLastMarketID, keyOrder] at h
  · intro m
    have hk : isMarketKnown init.kv m = false := by
      unfold isMarketKnown
      rw [has_false_iff, hg]
      simp [keyKnownMarketID, keyLastOrderID, keyLastMarketID]
    rw [hk]; simp [init]
  · simp [init]

/-- **IndexInv after every history** (from any state satisfying the invariant, as long as the order
counter cannot wrap). -/
theorem inv_run : ∀ (ops : List Op) (st : State), Inv st →
    (getLastOrderID st.kv).toNat + ops.length < 2 ^ 64 → Inv (run st ops)
  | [], st, h, _ => h
  | op :: ops, st, h, hb => by
    simp only [List.length_cons] at hb
    obtain ⟨h1, h2, _⟩ := inv_step (op := op) h (by omega)
    show Inv (run (step st op) ops)
    exact inv_run ops (step st op) h1 (by omega)

/-- Every open order has exactly its market / owner / asset (/ external-id) index entries, no index
entry dangles, every payment is listed under its current target only — after ANY sequence of
creations, partial fills, settlements, cancellations, external-id and target changes, commitments
and market closures. -/
theorem indexInv_all_histories (ops : List Op) (h : ops.length < 2 ^ 64) : IndexInv (run init ops).kv :=
  (inv_run ops init inv_init (by rw [lastOrderID_init]; simpa using h)).idx

/-- non-vacuity: a concrete history with a partial fill (6 → 4 assets left), an external-id change
and a retargeted payment (listed under the new target only) -/
example :
    let s := (run init [.mkMarket 0 "m",
      .create ⟨0, false, 1, [65], [97, 112, 112], 6, [117], 12, [120], true, false⟩,
      .create ⟨0, true, 1, [66], [97, 112, 112], 2, [117], 6, [121], true, false⟩,
      .settle 1 1 2 true admin, .setExt 1 1 [122] admin,
      .pay ⟨[65], 3, [66], 0, [], false, false⟩, .payTarget [65] [] [67]]).kv
    getOrderFromStore s 1 = some ⟨1, false, 1, [65], [97, 112, 112], 4, [117], 8, [122], true, false⟩ ∧
    getOrderFromStore s 2 = none ∧ s.has (idxTargetToPayment [67] [65] []) = true ∧
    s.has (idxTargetToPayment [66] [65] []) = false := by decide

/-- a rejected message changes nothing -/
theorem rejected_changes_nothing {st : State} {op : Op} (h : apply st op = none) : step st op = st := by
  unfold step; rw [h]

/-- **Order ids are strictly increasing along every history, hence never reused**: the ids handed
out are strictly ascending and all greater than the counter at the start. -/
theorem orderIds_strictly_increasing : ∀ (ops : List Op) (st : State), Inv st →
    (getLastOrderID st.kv).toNat + ops.length < 2 ^ 64 →
    (createdOrderIds st ops).Pairwise (· < ·) ∧ ∀ id ∈ createdOrderIds st ops, getLastOrderID st.kv < id
  | [], _, _, _ => by simp [createdOrderIds]
  | op :: ops, st, hinv, hb => by
    simp only [List.length_cons] at hb
    have h1 : (getLastOrderID st.kv + 1).toNat = (getLastOrderID st.kv).toNat + 1 := by
      rw [UInt64.toNat_add]
      have : (1 : UInt64).toNat = 1 := rfl
      rw [this]; omega
    unfold createdOrderIds
    cases h : apply st op with
    | none => exact orderIds_strictly_increasing ops st hinv (by omega)
    | some pr =>
      obtain ⟨st', r⟩ := pr
      obtain ⟨hi, hr⟩ := apply_inv hinv (by omega) h
      cases r with
      | orderId id =>
        obtain ⟨rfl, h2⟩ := hr
        obtain ⟨ih1, ih2⟩ := orderIds_strictly_increasing ops st' hi (by rw [h2, h1]; omega)
        simp only
        refine ⟨List.pairwise_cons.mpr ⟨fun a ha => ?_, ih1⟩, fun a ha => ?_⟩
        · have := ih2 a ha; rw [h2] at this; exact this
        · rcases List.mem_cons.mp ha with rfl | ha
          · rw [UInt64.lt_iff_toNat_lt, h1]; omega
          · have := ih2 a ha
            rw [h2, UInt64.lt_iff_toNat_lt] at this
            rw [UInt64.lt_iff_toNat_lt]; omega
      | none =>
        simp only [ResOK] at hr
        obtain ⟨ih1, ih2⟩ := orderIds_strictly_increasing ops st' hi (by rw [hr]; omega)
        exact ⟨ih1, fun a ha => by rw [← hr]; exact ih2 a ha⟩
      | marketId m =>
        simp only [ResOK] at hr
        obtain ⟨ih1, ih2⟩ := orderIds_strictly_increasing ops st' hi (by rw [hr]; omega)
        exact ⟨ih1, fun a ha => by rw [← hr]; exact ih2 a ha⟩

theorem orderIds_never_reused (ops : List Op) (h : ops.length < 2 ^ 64) : (createdOrderIds init ops).Nodup := by
  have := (orderIds_strictly_increasing ops init inv_init (by rw [lastOrderID_init]; simpa using h)).1
  exact this.imp (fun hlt => UInt64.ne_of_lt hlt)

example : createdOrderIds init [.mkMarket 0 "m",
    .create ⟨0, false, 1, [65], [97, 112, 112], 6, [117], 12, [], true, false⟩, .cancel 1 [65] false,
    .create ⟨0, true, 1, [66], [97, 112, 112], 2, [117], 6, [], true, false⟩] = [1, 2] := by decide

/-- every order in the store was handed out by the counter: its id is between 1 and the last id -/
theorem order_ids_bounded (ops : List Op) (h : ops.length < 2 ^ 64) : CounterInv (run init ops).kv :=
  (inv_run ops init inv_init (by rw [lastOrderID_init]; simpa using h)).ctr

/-- **External ids are unique within a market**: two open orders of one market with the same
non-empty external id are the same order. -/
theorem externalId_unique_per_market {s : Store} (hinv : IndexInv s) {i i' : UInt64} {o o' : Order}
    (ho : s.get (keyOrder i) = some (.order o)) (ho' : s.get (keyOrder i') = some (.order o'))
    (hm : o.market = o'.market) (hx : o.ext = o'.ext) (hne : o.ext ≠ []) : i = i' := by
  have hh := (indexInvF_iff.mp hinv).1
  refine hh.live_disjoint ho ho'
    (mem_orderIndexEntries.mpr (Or.inr (Or.inr (Or.inr ⟨hne, rfl⟩))))
    (mem_orderIndexEntries.mpr (Or.inr (Or.inr (Or.inr ⟨hx ▸ hne, rfl⟩)))) ?_
  simp [hm, hx]

/-- **Lookup by external id** finds exactly the open order of that market carrying that id. -/
theorem getOrderByExternalID_iff {s : Store} (hinv : IndexInv s) (m : UInt32) (x : Bytes) (hx : x ≠ [])
    (hlen : x.length ≤ 100) (o : Order) :
    getOrderByExternalID s m x = some o ↔
      s.get (keyOrder o.id) = some (.order o) ∧ o.market = m ∧ o.ext = x := by
  have hh := (indexInvF_iff.mp hinv).1
  unfold getOrderByExternalID
  have hc : ¬ (x = [] ∨ x.length > 100) := fun h => h.elim hx (by omega)
  rw [if_neg hc]
  constructor
  · intro h
    split at h
    · next id hv =>
      obtain ⟨hrec, hid⟩ := getOrderFromStore_eq hh h
      subst hid
      obtain ⟨id2, o2, ho2, hmem⟩ := hh.no_dangling _ _ rfl hv
      have hid2 := hh.record_id ho2
      rcases mem_orderIndexEntries.mp hmem with hq | hq | hq | ⟨_, hq⟩ <;>
        simp [idxMarketToOrder, idxAddressToOrder, idxAssetToOrder, idxMarketExternalIDToOrder] at hq
      obtain ⟨hk, hidd⟩ := hq
      have := u32_append_inj hk
      rw [hid2] at hidd; subst hidd
      rw [hrec] at ho2; cases ho2
      exact ⟨hrec, this.1.symm, this.2.symm⟩
    · cases h
  · rintro ⟨hrec, rfl, rfl⟩
    have := hh.indexed o.id o hrec _ (mem_orderIndexEntries.mpr (Or.inr (Or.inr (Or.inr ⟨hx, rfl⟩))))
    simp only at this
    rw [this]
    exact getOrderFromStore_of_get hrec rfl

/-- **Payments are unique per (source, external id)**: the record under a payment key is the payment
with that source and id … -/
theorem payment_unique {s : Store} (hinv : IndexInv s) {src e : Bytes} {p : Payment}
    (hp : s.get (keyPayment src e) = some (.payment p)) : p.source = src ∧ p.ext = e :=
  (indexInvF_iff.mp hinv).2.record_key hp

/-- … and creating a second payment with the same source and external id is refused. -/
theorem createPayment_refuses_duplicate {s : Store} {p q : Payment}
    (hq : s.get (keyPayment p.source p.ext) = some (.payment q)) : createPayment s p = none := by
  unfold createPayment
  have : s.has (keyPayment p.source p.ext) = true := (has_iff _ _).mpr ⟨_, hq⟩
  simp [this]

/-- **An accepted payment creation adds one record and touches no other**: the key was free, it now
holds the new payment, every other payment record and every order record is what it was (the
checker's `create_overwrote_record` / `create_not_one_record` on the implementation's dumps). -/
theorem createPayment_frame {s s' : Store} (hinv : IndexInv s) {p : Payment} (h : createPayment s p = some s') :
    s.get (keyPayment p.source p.ext) = none ∧
    s'.get (keyPayment p.source p.ext) = some (.payment p) ∧
    (∀ src e, keyPayment src e ≠ keyPayment p.source p.ext →
      s'.get (keyPayment src e) = s.get (keyPayment src e)) ∧
    (∀ id, s'.get (keyOrder id) = s.get (keyOrder id)) := by
  have hp := (indexInvF_iff.mp hinv).2
  have ht := (pay_createPayment hp h).2
  unfold createPayment at h
  split_ifs at h with h1 h2
  cases h
  have hfree : s.get (keyPayment p.source p.ext) = none := by
    rw [← has_false_iff]; simpa using h2
  have hnone : getPaymentFromStore s p.source p.ext = none := by
    unfold getPaymentFromStore; rw [hfree]
  refine ⟨hfree, ?_, fun src e hne => ?_, fun id => ht.eq_of_head (head_keyOrder id) (by simp [payHeads])⟩
  · rw [get_setPaymentInStore hp, if_pos rfl]
  · rw [get_setPaymentInStore hp, if_neg hne, hnone]
    have hk : keyPayment src e ∉ (paymentIndexEntries p).map (·.1) := by
      intro hm
      have := (mem_payKeys.mp hm).2
      simp [keyPayment, idxTargetToPayment] at this
    simp [hk]

/-- non-vacuity, with the EMPTY external id (a valid id): the first creation is accepted, a second one
by the same source is refused whatever its target and amounts, and the first payment stays. -/
example :
    let s := (run init [.pay ⟨[65], 3, [66], 0, [], false, false⟩]).kv
    getPaymentFromStore s [65] [] = some ⟨[65], 3, [66], 0, [], false, false⟩ ∧
    createPayment s ⟨[65], 1, [67], 2, [], false, false⟩ = none ∧
    (run init [.pay ⟨[65], 3, [66], 0, [], false, false⟩, .pay ⟨[65], 1, [67], 2, [], false, false⟩]).kv = s := by decide

/-- **An accepted order creation adds one record and touches no other**: the new id had no record,
it now holds the new order, every other order record and every payment record is what it was. -/
theorem createOrder_frame {s s' : Store} {o : Order} {id : UInt64} (hinv : IndexInv s) (hctr : CounterInv s)
    (hb : (getLastOrderID s).toNat + 1 < 2 ^ 64) (h : createOrder s o = some (s', id)) :
    s.get (keyOrder id) = none ∧
    s'.get (keyOrder id) = some (.order { o with id := id }) ∧
    (∀ id', id' ≠ id → s'.get (keyOrder id') = s.get (keyOrder id')) ∧
    (∀ src e, s'.get (keyPayment src e) = s.get (keyPayment src e)) := by
  have hid := (createOrder_spec hinv hctr hb h).2.2.1
  unfold createOrder at h
  split_ifs at h
  simp only [nextOrderID] at h
  split at h
  · cases h
  · next s2 hset =>
    simp only [Option.some.injEq, Prod.mk.injEq] at h
    obtain ⟨rfl, hidd⟩ := h
    have hnid : (getLastOrderID s + 1).toNat = (getLastOrderID s).toNat + 1 := by
      rw [UInt64.toNat_add]
      have : (1 : UInt64).toNat = 1 := rfl
      rw [this]; omega
    have t1 : Touches s (s.set keyLastOrderID (.u64 (getLastOrderID s + 1))) [8] :=
      Touches.set s _ _ head_keyLastOrderID
    have hfree : s.get (keyOrder (getLastOrderID s + 1)) = none := by
      cases hv : s.get (keyOrder (getLastOrderID s + 1)) with
      | none => rfl
      | some v => have := (hctr _ v hv).2; omega
    have hnew : (s.set keyLastOrderID (.u64 (getLastOrderID s + 1))).get (keyOrder (getLastOrderID s + 1)) = none := by
      rw [t1.eq_of_head (head_keyOrder _) (by simp)]; exact hfree
    obtain ⟨_, hg⟩ := setOrderInStore_new (o := { o with id := getLastOrderID s + 1 }) hnew hset
    have t2 := touches_setOrderInStore hset
    subst hid
    refine ⟨hfree, ?_, fun id' hne => ?_, fun src e => ?_⟩
    · rw [hg, if_pos rfl]
    · rw [hg, if_neg (by simpa using hne)]
      cases hev : entryVal { o with id := getLastOrderID s + 1 } (keyOrder id') with
      | some v' => exact absurd rfl (index_ne_keyOrder (isOrderIndexKey_of_mem (entryVal_some hev)) id')
      | none => exact t1.eq_of_head (head_keyOrder _) (by simp)
    · rw [t2.eq_of_head (head_keyPayment src e) (by simp [orderHeads]),
        t1.eq_of_head (head_keyPayment src e) (by simp)]

/-- **A creation carrying an external id that an open order of the market already has is refused**
(the checker's `externalId_not_unique` on an accepted `ask` / `bid`). -/
theorem createOrder_refuses_used_externalId {s : Store} (hinv : IndexInv s) (hctr : CounterInv s)
    (hb : (getLastOrderID s).toNat + 1 < 2 ^ 64) {o o' : Order} {i : UInt64}
    (ho' : s.get (keyOrder i) = some (.order o')) (hm : o'.market = o.market) (hx : o'.ext = o.ext)
    (hne : o.ext ≠ []) : createOrder s o = none := by
  cases hc : createOrder s o with
  | none => rfl
  | some r =>
    obtain ⟨s', id⟩ := r
    exfalso
    obtain ⟨hfree, hrec, hoth, _⟩ := createOrder_frame hinv hctr hb hc
    have hinv' := (createOrder_spec hinv hctr hb hc).1
    have hii : i ≠ id := by
      intro e; subst e; rw [hfree] at ho'; cases ho'
    have ho'' : s'.get (keyOrder i) = some (.order o') := by rw [hoth i hii]; exact ho'
    exact hii (externalId_unique_per_market hinv' ho'' hrec hm hx (hx ▸ hne))

/-- **Only external ids within the length limit are accepted** (100 bytes, `MaxExternalIDLength`):
by order creation, by an external-id change and by payment creation — and a lookup by an id of
EXACTLY the limit is an ordinary lookup (`getOrderByExternalID_iff` has `x.length ≤ 100`). -/
theorem accepted_externalId_within_limit {st st' : State} {res : Res} :
    (∀ o, apply st (.create o) = some (st', res) → o.ext.length ≤ 100) ∧
    (∀ m id x signer, apply st (.setExt m id x signer) = some (st', res) → x.length ≤ 100) ∧
    (∀ p, apply st (.pay p) = some (st', res) → p.ext.length ≤ 100) := by
  refine ⟨fun o h => ?_, fun m id x signer h => ?_, fun p h => ?_⟩
  · simp only [apply, Option.map_eq_some_iff] at h
    obtain ⟨⟨kv, i⟩, hc, _⟩ := h
    unfold createOrder at hc
    split_ifs at hc with hv
    simp only [orderValid, Bool.and_eq_true, decide_eq_true_eq] at hv
    exact hv.2
  · simp only [apply, withKv, Option.map_eq_some_iff] at h
    obtain ⟨kv, hc, _⟩ := h
    unfold setOrderExternalID at hc
    split_ifs at hc with hv
    omega
  · simp only [apply, withKv, Option.map_eq_some_iff] at h
    obtain ⟨kv, hc, _⟩ := h
    unfold createPayment at hc
    split_ifs at hc with hv
    simp only [paymentValid, Bool.and_eq_true, decide_eq_true_eq] at hv
    exact hv.2

/-- non-vacuity at the limit: an order whose external id has exactly 100 bytes is created, found by
that id, and not found by the 99- and 101-byte ids. -/
example :
    let x100 := List.replicate 100 121
    let s := (run init [.mkMarket 0 "m",
      .create ⟨0, false, 1, [65], [97, 112, 112], 6, [117], 12, x100, true, false⟩]).kv
    (getOrderByExternalID s 1 x100).map (·.id) = some 1 ∧
    getOrderByExternalID s 1 (List.replicate 99 121) = none ∧
    getOrderByExternalID s 1 (List.replicate 101 121) = none := by decide

/-- **A payment is listed under its current target and under no other**: a target-index entry
`(t, source, id)` exists iff the payment `(source, id)` is stored and has target `t`. -/
theorem payment_listed_under_current_target_only {s : Store} (hinv : IndexInv s) (t src e : Bytes) :
    (∃ v, s.get (idxTargetToPayment t src e) = some v) ↔
      ∃ p, s.get (keyPayment src e) = some (.payment p) ∧ p.target = t ∧ t ≠ [] := by
  have hh := (indexInvF_iff.mp hinv).2
  constructor
  · rintro ⟨v, hv⟩
    obtain ⟨p, hp, hm⟩ := hh.pay_no_dangling _ v hv
    obtain ⟨ht, he⟩ := mem_paymentIndexEntries.mp hm
    simp only [Prod.mk.injEq] at he
    have := idxTargetToPayment_inj.mp he.1
    rw [← this.2.1, ← this.2.2] at hp
    exact ⟨p, hp, this.1.symm, this.1 ▸ ht⟩
  · rintro ⟨p, hp, rfl, ht⟩
    obtain ⟨hs, he⟩ := hh.record_key hp
    subst hs he
    exact ⟨_, hh.pay_indexed p hp _ (mem_paymentIndexEntries.mpr ⟨ht, rfl⟩)⟩

/-- **Writing a payment lists it under its target, whatever was stored before** — another target, no
target, the same target, or the same ACCOUNT written in the other bech32 spelling (then the index entry to
delete and the one to write are the same key; `setPaymentInStore` deletes first and writes last). -/
theorem setPayment_lists_current_target {s : Store} (hinv : IndexInv s) (p : Payment) (ht : p.target ≠ []) :
    (setPaymentInStore s p).get (idxTargetToPayment p.target p.source p.ext) = some .empty := by
  rw [get_setPaymentInStore (indexInvF_iff.mp hinv).2,
    if_neg (by simp [idxTargetToPayment, keyPayment]), if_pos (mem_payKeys.mpr ⟨ht, rfl⟩)]

/-- **A target change to the account the payment already has, re-spelled, keeps the payment listed**: when
the stored target is the upper-case spelling of account `t`, `MsgChangePaymentTarget` to `t` is accepted
(the "already has target" guard compares strings), the record now carries the canonical spelling, and the
payment is still listed under `t` (the checker's `payment_missing_target_index` /
`payments_by_target_missing` on the implementation's dump and listings). -/
theorem respelled_target_stays_listed {s : Store} (hinv : IndexInv s) {src e t : Bytes} {p : Payment}
    (hp : s.get (keyPayment src e) = some (.payment p)) (htgt : p.target = t) (hup : p.targetUp = true)
    (ht : t ≠ []) (hsrc : src ≠ []) (hlen : e.length ≤ 100) :
    ∃ s', updatePaymentTarget s src e t = some s' ∧
      s'.get (keyPayment src e) = some (.payment { p with targetUp := false }) ∧
      s'.get (idxTargetToPayment t src e) = some .empty ∧ IndexInv s' := by
  have hh := indexInvF_iff.mp hinv
  obtain ⟨hs, he⟩ := hh.2.record_key hp
  have hget : getPaymentFromStore s src e = some p := by unfold getPaymentFromStore; rw [hp]
  have hu : updatePaymentTarget s src e t =
      some (setPaymentInStore s { p with target := t, targetUp := false }) := by
    unfold updatePaymentTarget
    rw [if_neg (by rintro (h | h); exact hsrc h; omega), hget]
    simp [hup]
  have hq : ({ p with target := t, targetUp := false } : Payment) = { p with targetUp := false } := by
    subst htgt; rfl
  refine ⟨_, hu, ?_, ?_, ?_⟩
  · rw [get_setPaymentInStore hh.2, hq]
    simp only [hs, he, ↓reduceIte]
  · have := setPayment_lists_current_target hinv { p with target := t, targetUp := false } ht
    simpa [hs, he] using this
  · exact indexInvF_iff.mpr ⟨hh.1.of_touches (touches_setPaymentInStore hh.2 _) (by simp [payHeads]),
      payInv_setPaymentInStore hh.2 _⟩

/-- non-vacuity, through the messages: a payment created with its target `[66]` in the upper-case spelling;
the target is "changed" to the same account; a plain repeat of that change is then refused; the payment
is listed under `[66]` throughout, and the by-target scan finds it. -/
example :
    let s0 := (run init [.pay ⟨[65], 3, [66], 0, [120], false, true⟩]).kv
    let s1 := (run init [.pay ⟨[65], 3, [66], 0, [120], false, true⟩, .payTarget [65] [120] [66]]).kv
    s0.has (idxTargetToPayment [66] [65] [120]) = true ∧
    getPaymentFromStore s1 [65] [120] = some ⟨[65], 3, [66], 0, [120], false, false⟩ ∧
    s1.has (idxTargetToPayment [66] [65] [120]) = true ∧
    (getPaymentsForTargetAndSource s1 [66] [65]).length = 1 ∧
    updatePaymentTarget s1 [65] [120] [66] = none ∧
    rejectPayment s0 [66] [65] [120] = none ∧ (rejectPayment s1 [66] [65] [120]).isSome = true := by decide

/-- **A market id identifies at most one market**: after every history the known-market entries and
the market accounts are the same ids, each once … -/
theorem marketInv_all_histories (ops : List Op) (h : ops.length < 2 ^ 64) : MarketInv (run init ops) :=
  (inv_run ops init inv_init (by rw [lastOrderID_init]; simpa using h)).mkt

/-- … and the ids of the markets created along a history are pairwise different and different from
every market that existed before. -/
theorem marketIds_never_reused : ∀ (ops : List Op) (st : State), Inv st →
    (getLastOrderID st.kv).toNat + ops.length < 2 ^ 64 →
    (createdMarketIds st ops).Nodup ∧ ∀ m ∈ createdMarketIds st ops, m ∉ st.accts.map Prod.fst
  | [], _, _, _ => by simp [createdMarketIds]
  | op :: ops, st, hinv, hb => by
    simp only [List.length_cons] at hb
    unfold createdMarketIds
    cases h : apply st op with
    | none => exact marketIds_never_reused ops st hinv (by omega)
    | some pr =>
      obtain ⟨st', r⟩ := pr
      obtain ⟨hi, hr⟩ := apply_inv hinv (by omega) h
      have hgrow : (getLastOrderID st'.kv).toNat ≤ (getLastOrderID st.kv).toNat + 1 := by
        have := (inv_step (op := op) hinv (by omega)).2.1
        unfold step at this; rw [h] at this; exact this
      obtain ⟨ih1, ih2⟩ := marketIds_never_reused ops st' hi (by omega)
      -- accounts only grow
      have hacc : ∀ m, m ∈ st.accts.map Prod.fst → m ∈ st'.accts.map Prod.fst := by
        intro m hm
        by_cases hmk : ∃ i n, op = .mkMarket i n
        · obtain ⟨i, n, rfl⟩ := hmk
          simp only [apply] at h
          cases hcm : createMarket st i n with
          | none => rw [hcm] at h; cases h
          | some pr2 =>
            obtain ⟨st2, mid⟩ := pr2
            rw [hcm] at h
            simp only [Option.map_some, Option.some.injEq, Prod.mk.injEq] at h
            obtain ⟨rfl, _⟩ := h
            rw [(createMarket_spec hcm).2.1]
            simp only [List.map_cons, List.mem_cons]
            exact Or.inr hm
        · by_cases hco : ∃ o, op = .create o
          · obtain ⟨o, rfl⟩ := hco
            simp only [apply] at h
            cases hc2 : createOrder st.kv o with
            | none => rw [hc2] at h; cases h
            | some pr2 =>
              rw [hc2] at h
              simp only [Option.map_some, Option.some.injEq, Prod.mk.injEq] at h
              obtain ⟨rfl, _⟩ := h
              exact hm
          · have := (opOK_apply hinv.idx h (fun o e => hco ⟨o, e⟩) (fun i n e => hmk ⟨i, n, e⟩)).2
            rw [this]; exact hm
      cases r with
      | marketId mid =>
        simp only
        -- the message was a market creation: `mid` is new and recorded
        have hmk : ∃ i n, op = .mkMarket i n := by
          cases op <;> simp [apply, withKv] at h <;> first | exact ⟨_, _, rfl⟩ | skip
          all_goals (try (obtain ⟨_, _, hh⟩ := h; cases hh))
          all_goals (try (obtain ⟨_, hh⟩ := h; cases hh))
        obtain ⟨i, n, rfl⟩ := hmk
        simp only [apply] at h
        cases hcm : createMarket st i n with
        | none => rw [hcm] at h; cases h
        | some pr2 =>
          obtain ⟨st2, mid2⟩ := pr2
          rw [hcm] at h
          simp only [Option.map_some, Option.some.injEq, Prod.mk.injEq, Res.marketId.injEq] at h
          obtain ⟨rfl, rfl⟩ := h
          obtain ⟨hnot, haccts, _, _⟩ := createMarket_spec hcm
          refine ⟨List.nodup_cons.mpr ⟨fun hmem => ?_, ih1⟩, fun m hm => ?_⟩
          · exact ih2 _ hmem (by rw [haccts]; simp)
          · rcases List.mem_cons.mp hm with rfl | hm
            · exact hnot
            · exact fun hm2 => ih2 m hm (hacc m hm2)
      | none => exact ⟨ih1, fun m hm hm2 => ih2 m hm (hacc m hm2)⟩
      | orderId id => exact ⟨ih1, fun m hm hm2 => ih2 m hm (hacc m hm2)⟩

example : createdMarketIds init [.mkMarket 2 "a", .mkMarket 0 "b", .mkMarket 0 "c", .mkMarket 2 "d"] = [2, 1, 3] := by
  decide



/-! ## Part B — what the lookups' prefix scans return -/

/-- **By-market lookup: exactly the open orders of the market** … -/
theorem byMarket_exact {s : Store} (hinv : IndexInv s) (m : UInt32) (id : UInt64) :
    id ∈ (iterateOrderIndex s (prefixMarketToOrder m)).map (·.1) ↔
      ∃ o, s.get (keyOrder id) = some (.order o) ∧ o.market = m := by
  have hh := (indexInvF_iff.mp hinv).1
  constructor
  · intro h
    obtain ⟨⟨id', b⟩, hmem, rfl⟩ := List.mem_map.mp h
    obtain ⟨e, he, _, hv, hp⟩ := mem_iterateOrderIndex.mp hmem
    obtain ⟨o, ho, hm⟩ := scan_entry_live hinv he rfl
    rcases mem_orderIndexEntries.mp hm with hq | hq | hq | ⟨_, hq⟩ <;>
      simp [prefixMarketToOrder, idxMarketToOrder, idxAddressToOrder, idxAssetToOrder, idxMarketExternalIDToOrder] at hq
    obtain ⟨hk, _⟩ := hq
    have := u32_append_inj hk
    rw [this.2, parseIndexKeySuffixOrderID_u64Bz] at hp
    cases hp
    exact ⟨o, ho, this.1.symm⟩
  · rintro ⟨o, ho, rfl⟩
    have hid := hh.record_id ho
    subst hid
    have := hh.indexed o.id o ho _ (mem_orderIndexEntries.mpr (Or.inl rfl))
    refine List.mem_map.mpr ⟨(o.id, o.tb), mem_iterateOrderIndex.mpr ⟨(u64Bz o.id, .tbyte o.tb), ?_, rfl, rfl,
      parseIndexKeySuffixOrderID_u64Bz _⟩, rfl⟩
    rw [mem_prefixStore]
    exact this

/-- **By-owner lookup: exactly the open orders of the owner.** -/
theorem byOwner_exact {s : Store} (hinv : IndexInv s) (a : Bytes) (id : UInt64) :
    id ∈ (iterateOrderIndex s (prefixAddressToOrder a)).map (·.1) ↔
      ∃ o, s.get (keyOrder id) = some (.order o) ∧ o.owner = a := by
  have hh := (indexInvF_iff.mp hinv).1
  constructor
  · intro h
    obtain ⟨⟨id', b⟩, hmem, rfl⟩ := List.mem_map.mp h
    obtain ⟨e, he, _, hv, hp⟩ := mem_iterateOrderIndex.mp hmem
    obtain ⟨o, ho, hm⟩ := scan_entry_live hinv he rfl
    rcases mem_orderIndexEntries.mp hm with hq | hq | hq | ⟨_, hq⟩ <;>
      simp [prefixAddressToOrder, idxMarketToOrder, idxAddressToOrder, idxAssetToOrder, idxMarketExternalIDToOrder] at hq
    obtain ⟨hk, _⟩ := hq
    have := lengthPrefix_append_inj hk
    rw [this.2, parseIndexKeySuffixOrderID_u64Bz] at hp
    cases hp
    exact ⟨o, ho, this.1.symm⟩
  · rintro ⟨o, ho, rfl⟩
    have hid := hh.record_id ho
    subst hid
    have := hh.indexed o.id o ho _ (mem_orderIndexEntries.mpr (Or.inr (Or.inl rfl)))
    refine List.mem_map.mpr ⟨(o.id, o.tb), mem_iterateOrderIndex.mpr ⟨(u64Bz o.id, .tbyte o.tb), ?_, rfl, rfl,
      parseIndexKeySuffixOrderID_u64Bz _⟩, rfl⟩
    rw [mem_prefixStore]
    exact this

/-- **By-asset lookup: exactly the open orders with that asset denom** (unconditional since commit
bdda88322: an index entry counts only if exactly the 8 order-id bytes follow the prefix, so the
entries of a longer denom sharing the prefix are skipped). -/
theorem byAsset_exact {s : Store} (hinv : IndexInv s) (d : Bytes) (id : UInt64) :
    id ∈ (iterateOrderIndex s (prefixAssetToOrder d)).map (·.1) ↔
      ∃ o, s.get (keyOrder id) = some (.order o) ∧ o.assetDenom = d := by
  have hh := (indexInvF_iff.mp hinv).1
  constructor
  · intro h
    obtain ⟨⟨id', b⟩, hmem, rfl⟩ := List.mem_map.mp h
    obtain ⟨e, he, h8, hv, hp⟩ := mem_iterateOrderIndex.mp hmem
    obtain ⟨o, ho, hm⟩ := scan_entry_live hinv he rfl
    rcases mem_orderIndexEntries.mp hm with hq | hq | hq | ⟨_, hq⟩ <;>
      simp [prefixAssetToOrder, idxMarketToOrder, idxAddressToOrder, idxAssetToOrder, idxMarketExternalIDToOrder] at hq
    obtain ⟨hk, _⟩ := hq
    have := List.append_inj' hk (by rw [h8, u64Bz_length])
    rw [this.2, parseIndexKeySuffixOrderID_u64Bz] at hp
    cases hp
    exact ⟨o, ho, this.1.symm⟩
  · rintro ⟨o, ho, rfl⟩
    have hid := hh.record_id ho
    subst hid
    have := hh.indexed o.id o ho _ (mem_orderIndexEntries.mpr (Or.inr (Or.inr (Or.inl rfl))))
    refine List.mem_map.mpr ⟨(o.id, o.tb), mem_iterateOrderIndex.mpr ⟨(u64Bz o.id, .tbyte o.tb), ?_, rfl, rfl,
      parseIndexKeySuffixOrderID_u64Bz _⟩, rfl⟩
    rw [mem_prefixStore]; exact this

/-! #### history: the by-asset lookup before commit bdda88322 -/

/-- BEFORE THE FIX (commit bdda88322, `iterateOrderIndexPreFix` / `indexHitPreFix`): the by-asset scan
returned the open orders whose asset denom STARTS WITH the queried denom (the index key is
`0x05 | denom | id` with no terminator and the id was read from the last 8 bytes of any suffix). -/
theorem byAsset_lists_prefix_denoms_before_fix {s : Store} (hinv : IndexInv s) (d : Bytes) (id : UInt64) :
    id ∈ (iterateOrderIndexPreFix s (prefixAssetToOrder d)).map (·.1) ↔
      ∃ o, s.get (keyOrder id) = some (.order o) ∧ d <+: o.assetDenom := by
  have hh := (indexInvF_iff.mp hinv).1
  constructor
  · intro h
    obtain ⟨⟨id', b⟩, hmem, rfl⟩ := List.mem_map.mp h
    obtain ⟨e, he, hv, hp⟩ := mem_iterateOrderIndexPreFix.mp hmem
    obtain ⟨o, ho, hm⟩ := scan_entry_live hinv he rfl
    have hlen : 8 ≤ e.1.length := by
      unfold parseIndexKeySuffixOrderID at hp
      split_ifs at hp with h8
      omega
    rcases mem_orderIndexEntries.mp hm with hq | hq | hq | ⟨_, hq⟩ <;>
      simp [prefixAssetToOrder, idxMarketToOrder, idxAddressToOrder, idxAssetToOrder, idxMarketExternalIDToOrder] at hq
    obtain ⟨hk, _⟩ := hq
    -- d ++ e.1 = denom ++ id bytes, with at least 8 bytes in e.1: d is a prefix of the denom
    rcases List.append_eq_append_iff.mp hk with ⟨t, hden, he1⟩ | ⟨c, hd, hid⟩
    · rw [he1, parseIndexKeySuffixOrderID_append] at hp
      cases hp
      exact ⟨o, ho, ⟨t, hden.symm⟩⟩
    · have hc : c = [] := by
        have := congrArg List.length hid
        simp only [u64Bz_length, List.length_append] at this
        exact List.eq_nil_of_length_eq_zero (by omega)
      subst hc
      simp only [List.nil_append, List.append_nil] at hid hd
      rw [← hid, parseIndexKeySuffixOrderID_u64Bz] at hp
      cases hp
      exact ⟨o, ho, ⟨[], by simp [hd]⟩⟩
  · rintro ⟨o, ho, ⟨t, hden⟩⟩
    have hid := hh.record_id ho
    subst hid
    have := hh.indexed o.id o ho _ (mem_orderIndexEntries.mpr (Or.inr (Or.inr (Or.inl rfl))))
    refine List.mem_map.mpr ⟨(o.id, o.tb), mem_iterateOrderIndexPreFix.mpr ⟨(t ++ u64Bz o.id, .tbyte o.tb), ?_, rfl,
      parseIndexKeySuffixOrderID_append _ _⟩, rfl⟩
    rw [mem_prefixStore]
    simp only [prefixAssetToOrder, idxAssetToOrder, ← hden, List.cons_append, List.append_assoc] at this ⊢
    exact this

/-- the history of the witness: one market, an ask for `apple` (order 1), an ask for `apples` (order 2) -/
def appleHistory : List Op :=
  [.mkMarket 0 "m",
   .create ⟨0, false, 1, [65], [97, 112, 112, 108, 101], 5, [117, 115, 100], 10, [], true, false⟩,
   .create ⟨0, false, 1, [65], [97, 112, 112, 108, 101, 115], 5, [117, 115, 100], 10, [], true, false⟩]

/-- BEFORE THE FIX (commit bdda88322) the by-asset lookup was NOT exact: after `appleHistory` the
historical scan for asset `apple` lists order 2, whose asset denom is `apples` (finding
C13-asset-prefix, now fixed; the witness history stays in corpus/C13 and must pass). -/
theorem byAsset_not_exact_before_fix :
    ¬ ∀ (ops : List Op) (d : Bytes) (id : UInt64),
      id ∈ (iterateOrderIndexPreFix (run init ops).kv (prefixAssetToOrder d)).map (·.1) →
      ∃ o, getOrderFromStore (run init ops).kv id = some o ∧ o.assetDenom = d := by
  intro h
  have h2 := h appleHistory [97, 112, 112, 108, 101] 2 (by decide)
  revert h2
  decide

/-- on the witness history the current scan for `apple` lists order 1 only; the historical one listed 1 and 2 -/
example : iterateOrderIndex (run init appleHistory).kv (prefixAssetToOrder [97, 112, 112, 108, 101]) = [(1, 0)] ∧
    iterateOrderIndexPreFix (run init appleHistory).kv (prefixAssetToOrder [97, 112, 112, 108, 101]) = [(1, 0), (2, 0)] := by
  decide

/-- each of the three lookups lists an open order at most once -/
theorem byMarket_once {s : Store} (hinv : IndexInv s) (m : UInt32) :
    ((iterateOrderIndex s (prefixMarketToOrder m)).map (·.1)).Nodup :=
  lookup_ids_nodup hinv _ (fun _ => rfl) (by simp [prefixMarketToOrder])

theorem byOwner_once {s : Store} (hinv : IndexInv s) (a : Bytes) :
    ((iterateOrderIndex s (prefixAddressToOrder a)).map (·.1)).Nodup :=
  lookup_ids_nodup hinv _ (fun _ => rfl) (by simp [prefixAddressToOrder])

theorem byAsset_once {s : Store} (hinv : IndexInv s) (d : Bytes) :
    ((iterateOrderIndex s (prefixAssetToOrder d)).map (·.1)).Nodup :=
  lookup_ids_nodup hinv _ (fun _ => rfl) (by simp [prefixAssetToOrder])

/-- `GetOrder`: an order is fetched by id iff its record is stored -/
theorem getOrder_iff {s : Store} (hinv : IndexInv s) (id : UInt64) (o : Order) :
    getOrderFromStore s id = some o ↔ s.get (keyOrder id) = some (.order o) :=
  ⟨fun h => (getOrderFromStore_eq (indexInvF_iff.mp hinv).1 h).1,
   fun h => getOrderFromStore_of_get h ((indexInvF_iff.mp hinv).1.record_id h)⟩

/-! ### governance closure -/

/-- **A closed market has no orders left**: after `MsgGovCloseMarket` no order record of that market
remains — whether or not order creation had been switched off before (the flag updates inside
`CloseMarket` may fail; their result is discarded and the orders are cancelled in any case).  With
`IndexInv` after the closure (`closeMarket_keeps_inv`) no lookup lists such an order either
(`closeMarket_byMarket_empty`; the checker's `closed_market_has_orders` / `closed_market_lists_orders`). -/
theorem closeMarket_leaves_no_orders {s : Store} (hinv : IndexInv s) (m : UInt32) (id : UInt64) (o : Order)
    (h : (closeMarket s m).get (keyOrder id) = some (.order o)) : o.market ≠ m := by
  intro hm
  rw [closeMarket_eq, (touches_releaseAll _ m).eq_of_head (head_keyOrder id) (by simp),
    cancelAllOrdersForMarket_eq] at h
  have hinv2 : IndexInv (closeFlags s m) := IndexInv.of_touches hinv (touches_closeFlags s m) (by simp)
  obtain ⟨_, hsub, hnone⟩ := cancelFold_spec (iterateOrderIndex (closeFlags s m) (prefixMarketToOrder m)) _ hinv2
  have hrec := hsub id _ h
  have hmem : id ∈ (iterateOrderIndex (closeFlags s m) (prefixMarketToOrder m)).map (·.1) :=
    (byMarket_exact hinv2 m id).mpr ⟨o, hrec, hm⟩
  obtain ⟨e, he, rfl⟩ := List.mem_map.mp hmem
  rw [hnone e he] at h
  cases h

theorem closeMarket_keeps_inv {s : Store} (hinv : IndexInv s) (m : UInt32) : IndexInv (closeMarket s m) :=
  (opOK_closeMarket s m).inv hinv

/-- … so the by-market lookup of a closed market is empty … -/
theorem closeMarket_byMarket_empty {s : Store} (hinv : IndexInv s) (m : UInt32) :
    iterateOrderIndex (closeMarket s m) (prefixMarketToOrder m) = [] := by
  cases hl : iterateOrderIndex (closeMarket s m) (prefixMarketToOrder m) with
  | nil => rfl
  | cons e r =>
    exfalso
    have hmem : e.1 ∈ (iterateOrderIndex (closeMarket s m) (prefixMarketToOrder m)).map (·.1) := by
      rw [hl]; simp
    obtain ⟨o, ho, hm⟩ := (byMarket_exact (closeMarket_keeps_inv hinv m) m e.1).mp hmem
    exact closeMarket_leaves_no_orders hinv m e.1 o ho hm

/-- … no order of the market is found by an external id … -/
theorem closeMarket_byExternalId_none {s : Store} (hinv : IndexInv s) (m : UInt32) (x : Bytes) :
    getOrderByExternalID (closeMarket s m) m x = none := by
  cases hg : getOrderByExternalID (closeMarket s m) m x with
  | none => rfl
  | some o =>
    exfalso
    have hx : x ≠ [] ∧ x.length ≤ 100 := by
      unfold getOrderByExternalID at hg
      split_ifs at hg with hc
      exact ⟨fun h => hc (Or.inl h), by have := fun h => hc (Or.inr h); omega⟩
    obtain ⟨ho, hm, _⟩ := (getOrderByExternalID_iff (closeMarket_keeps_inv hinv m) m x hx.1 hx.2 o).mp hg
    exact closeMarket_leaves_no_orders hinv m o.id o ho hm

/-- … and order and commitment creation are off afterwards, whatever the flags were before. -/
theorem closeMarket_disables_creation (s : Store) (m : UInt32) :
    isMarketAcceptingOrders (closeMarket s m) m = false ∧ isMarketAcceptingCommitments (closeMarket s m) m = false := by
  obtain ⟨h1, h2⟩ := closeFlags_off s m
  have t : Touches (closeFlags s m) (closeMarket s m) (orderHeads ++ [99]) := by
    rw [closeMarket_eq]
    exact ((cancelAll_good _ m authority).2.1.mono (fun b hb => List.mem_append_left _ hb)).trans
      ((touches_releaseAll _ m).mono (fun b hb => List.mem_append_right _ hb))
  constructor
  · unfold isMarketAcceptingOrders Store.has at h1 ⊢
    rw [t.eq_of_head (head_keyNotAccepting m) (by simp [orderHeads])]; exact h1
  · unfold isMarketAcceptingCommitments Store.has at h2 ⊢
    rw [t.eq_of_head (head_keyAcceptingCommitments m) (by simp [orderHeads])]; exact h2

/-- non-vacuity, the paused market: two orders, order creation switched off by the admin, then the
governance closure — both orders are gone from the records and from every lookup; a market closed while
still accepting orders (market 2) likewise. -/
example :
    let ops : List Op := [.mkMarket 0 "a", .mkMarket 0 "b",
      .create ⟨0, false, 1, [65], [97, 112, 112], 6, [117], 12, [120], true, false⟩,
      .create ⟨0, true, 1, [66], [97, 112, 112], 2, [117], 6, [], true, true⟩,
      .create ⟨0, false, 2, [65], [97, 112, 112], 6, [117], 12, [120], true, false⟩]
    let s0 := (run init ops).kv
    let s := (run init (ops ++ [.setAccepting 1 false admin, .closeMarket 1, .closeMarket 2])).kv
    (iterateOrderIndex s0 (prefixMarketToOrder 1)).length = 2 ∧
    isMarketAcceptingOrders (run init (ops ++ [.setAccepting 1 false admin])).kv 1 = false ∧
    orderRecords s = [] ∧ iterateOrderIndex s (prefixMarketToOrder 1) = [] ∧
    iterateOrderIndex s (prefixAddressToOrder [65]) = [] ∧ getOrderByExternalID s 1 [120] = none ∧
    getOrderByExternalID s 2 [120] = none := by decide

/-! ## Part C — paging through a listing -/

/-- **pages_partition, key mode.**  `ps`: any strictly sorted prefix-store content; `limit ≥ 1`; any hit
filter (order type, parsable id); any after-order bound; either direction.  Requesting the first page
without a key and then following `next_key` until it is empty returns the concatenation
`(firstIter ps rev after).filter hit`: every matching entry of the iteration range exactly once, in
iteration order — and it stops within `length + 1` requests (no panic, no error).  The hypothesis
`hne` (a hit never has the empty key) holds for every order index because a hit needs 8 id bytes
(`indexHit_key_ne_nil`). -/
theorem pages_partition_key (ps : List Entry) (hs : Sorted ps) (limit : Nat) (hl : 1 ≤ limit) (rev : Bool)
    (after : UInt64) (hit : Entry → Bool) (hne : ∀ e ∈ ps, hit e = true → e.1 ≠ []) :
    collectByKey ps limit rev after hit (ps.length + 1) none = .ok ((firstIter ps rev after).filter hit) := by
  unfold collectByKey
  have hp := page_without_key hit ps 0 limit false rev after hl
  simp only [Bool.false_eq_true, ↓reduceIte, Nat.zero_add, List.drop_zero] at hp
  rw [show ({ key := none, limit := limit, reverse := rev } : PageReq) =
    { offset := 0, limit := limit, countTotal := false, reverse := rev } from rfl, hp]
  simp only
  cases hd : ((firstIter ps rev after).filter hit).drop limit with
  | nil =>
    simp only [List.head?_nil, Option.map_none]
    rw [List.take_of_length_le (List.drop_eq_nil_iff.mp hd)]
  | cons h' rest =>
    simp only [List.head?_cons, Option.map_some]
    obtain ⟨pre, post, hL, hp', hh', hpost⟩ := split_at_hit hit _ limit h' rest hd
    have hsub : ∀ e ∈ firstIter ps rev after, e ∈ ps := by
      intro e he
      unfold firstIter iter at he
      split_ifs at he
      · exact (List.mem_filter.mp (List.mem_reverse.mp he)).1
      · exact (List.mem_filter.mp he).1
    have hk' : h'.1 ≠ [] := hne h' (hsub h' (by rw [hL]; simp)) hh'
    obtain ⟨b, r, hbr⟩ : ∃ b r, h'.1 = b :: r := by
      cases hh2 : h'.1 with
      | nil => exact absurd hh2 hk'
      | cons b r => exact ⟨b, r, rfl⟩
    have hpre : pre ≠ [] := by
      intro e
      subst e
      have hlen2 := congrArg List.length hd
      have := congrArg List.length hp'
      simp only [List.filter_nil, List.length_nil, List.length_take, List.length_drop, List.length_cons] at this hlen2
      omega
    have hlen : (h' :: post).length ≤ ps.length := by
      have h1 := firstIter_length_le ps rev after
      have h2 := congrArg List.length hL
      have h3 : pre.length ≥ 1 := List.length_pos_iff.mpr hpre
      simp only [List.length_append, List.length_cons] at h2 ⊢
      omega
    have := collectByKey_suffix hit ps hs limit hl rev after hne ps.length pre post h' hL hh' (fun _ => hpre) hlen
    rw [hbr] at this ⊢
    simp only
    rw [this]
    simp only [Except.ok.injEq]
    have hf : (h' :: post).filter hit = ((firstIter ps rev after).filter hit).drop limit := by
      rw [hd, List.filter_cons, hh', if_pos rfl, hpost]
    rw [hf, List.take_append_drop]

/-- **pages_partition, offset mode.**  Requesting offsets `0, limit, 2·limit, …` while a `next_key` is
reported returns the same listing: every matching entry exactly once, in order. -/
theorem pages_partition_offset (ps : List Entry) (limit : Nat) (hl : 1 ≤ limit) (rev : Bool)
    (after : UInt64) (hit : Entry → Bool) (hne : ∀ e ∈ firstIter ps rev after, hit e = true → e.1 ≠ []) :
    collectByOffset ps limit rev after hit (((firstIter ps rev after).filter hit).length + 1) 0 =
      .ok ((firstIter ps rev after).filter hit) := by
  have := collectByOffset_from hit ps limit hl rev after hne (((firstIter ps rev after).filter hit).length + 1) 0
    (by simp)
  simpa using this

/-- every single request: at most `limit` entries — exactly hits number `offset … offset+limit-1` —, a
`next_key` iff there is a further hit, and (when asked) the number of all hits as total -/
theorem page_contents (ps : List Entry) (offset limit : Nat) (ct rev : Bool) (after : UInt64) (hit : Entry → Bool)
    (hl : 1 ≤ limit) :
    filteredPaginateAfterOrder ps { offset := offset, limit := limit, countTotal := ct, reverse := rev } after hit =
      .ok ((((firstIter ps rev after).filter hit).drop offset).take limit,
        { nextKey := ((((firstIter ps rev after).filter hit).drop (offset + limit)).head?).map (·.1),
          total := if ct then ((firstIter ps rev after).filter hit).length else 0 }) :=
  page_without_key hit ps offset limit ct rev after hl

/-- the hit filter of the order indexes never accepts an empty key (it needs the 8 id bytes) -/
theorem indexHit_key_ne_nil (filter : Option Nat) (e : Entry) (h : indexHit filter e = true) : e.1 ≠ [] := by
  intro hk
  unfold indexHit at h
  simp [hk] at h

/-- the iteration range is ordered: ascending keys forward, descending keys in reverse -/
theorem firstIter_sorted (ps : List Entry) (hs : Sorted ps) (after : UInt64) :
    Sorted (firstIter ps false after) ∧ Sorted (firstIter ps true after).reverse := by
  unfold firstIter iter
  simp only [Bool.false_eq_true, ↓reduceIte, List.reverse_reverse]
  exact ⟨hs.filter _, hs.filter _⟩

/-- what "after `after`" means for an id: no bound for 0; strictly greater; and — mirroring both
branches of `getOrderIterator`, which start AT key MaxUint64 when `after = MaxUint64` instead of
overflowing — the id MaxUint64 itself when `after = MaxUint64` -/
def AfterOK (after id : UInt64) : Prop :=
  after = 0 ∨ after < id ∨ (after = 18446744073709551615 ∧ id = 18446744073709551615)

/-- **What the after-order bound selects, for every `after_order_id` and both directions**: an entry keyed by
the 8 id bytes is in the iteration range iff `AfterOK after id`. -/
theorem after_bound (ps : List Entry) (rev : Bool) (after : UInt64) (e : Entry) (id : UInt64)
    (hk : e.1 = u64Bz id) : e ∈ firstIter ps rev after ↔ e ∈ ps ∧ AfterOK after id := by
  have hin : inRange (lowerBound after) none e.1 = true ↔ AfterOK after id := by
    unfold lowerBound AfterOK
    by_cases h0 : after = 0
    · simp [h0, inRange]
    · by_cases hmax : after = 18446744073709551615
      · subst hmax
        simp only [ne_eq, h0, not_false_eq_true, ↓reduceIte, not_true_eq_false, inRange_some_none, hk, u64Bz_le_iff,
          false_or, true_and]
        have := UInt64.toNat_lt id
        rw [UInt64.le_iff_toNat_le, UInt64.lt_iff_toNat_lt]
        constructor
        · intro h; right; apply UInt64.toNat_inj.mp; have : (18446744073709551615 : UInt64).toNat = 18446744073709551615 := rfl; omega
        · rintro (h | rfl)
          · have : (18446744073709551615 : UInt64).toNat = 18446744073709551615 := rfl; omega
          · exact Nat.le_refl _
      · have hadd : (after + 1).toNat = after.toNat + 1 := by
          have h1 := UInt64.toNat_lt after
          have h2 : after.toNat ≠ 18446744073709551615 := fun h => hmax (UInt64.toNat_inj.mp h)
          rw [UInt64.toNat_add]
          have : (1 : UInt64).toNat = 1 := rfl
          rw [this]; omega
        simp only [ne_eq, h0, not_false_eq_true, ↓reduceIte, hmax, inRange_some_none, hk, u64Bz_le_iff, false_or,
          false_and, or_false]
        rw [UInt64.le_iff_toNat_le, UInt64.lt_iff_toNat_lt, hadd]
        omega
  unfold firstIter iter
  cases rev
  · simp only [Bool.false_eq_true, ↓reduceIte, List.mem_filter, hin]
  · simp only [↓reduceIte, List.mem_reverse, List.mem_filter, hin]

/-- **The after-order bound is exact** — for every `after_order_id` including MaxUint64, both directions —
on entries whose id is not MaxUint64 (an order with id MaxUint64 would need 2^64 − 1 creations): in the
iteration range iff the id is greater than `after` (`after = 0`: no bound). -/
theorem after_bound_exact (ps : List Entry) (rev : Bool) (after : UInt64) (e : Entry) (id : UInt64)
    (hk : e.1 = u64Bz id) (hid : id ≠ 18446744073709551615) :
    e ∈ firstIter ps rev after ↔ e ∈ ps ∧ (after = 0 ∨ after < id) := by
  rw [after_bound ps rev after e id hk]
  unfold AfterOK
  constructor
  · rintro ⟨h, h1 | h1 | ⟨_, h1⟩⟩
    · exact ⟨h, Or.inl h1⟩
    · exact ⟨h, Or.inr h1⟩
    · exact absurd h1 hid
  · rintro ⟨h, h1 | h1⟩
    · exact ⟨h, Or.inl h1⟩
    · exact ⟨h, Or.inr (Or.inl h1)⟩

/-- `after_order_id = MaxUint64` now lists nothing (no order has id MaxUint64 here), in both directions -/
example : firstIter [(u64Bz 1, .tbyte 0), (u64Bz 2, .tbyte 1)] true 18446744073709551615 = [] ∧
    firstIter [(u64Bz 1, .tbyte 0), (u64Bz 2, .tbyte 1)] false 18446744073709551615 = [] := by decide

/-- BEFORE THE FIX (commit 9462d3706, `getOrderIteratorPreFix`): in reverse `afterOrderID + 1` wrapped to 0
for `after_order_id = MaxUint64`, so the reverse listing "after the greatest id" returned every order
while the forward one returned none (finding C13-after-max-reverse, now fixed). -/
theorem after_max_reverse_lists_all_before_fix :
    (getOrderIteratorPreFix [(u64Bz 1, .tbyte 0), (u64Bz 2, .tbyte 1)] none true 18446744073709551615).toOption =
      some [(u64Bz 2, .tbyte 1), (u64Bz 1, .tbyte 0)] ∧
    (getOrderIteratorPreFix [(u64Bz 1, .tbyte 0), (u64Bz 2, .tbyte 1)] none false 18446744073709551615).toOption =
      some [] ∧
    (getOrderIterator [(u64Bz 1, .tbyte 0), (u64Bz 2, .tbyte 1)] none true 18446744073709551615).toOption =
      some [] := by
  decide

/-- non-vacuity of the paging theorems: three entries, limit 1 and 2, both directions, type filter -/
example : (collectByKey [(u64Bz 1, .tbyte 0), (u64Bz 2, .tbyte 1), (u64Bz 5, .tbyte 0)] 1 true 1
    (indexHit (some 0)) 4 none).toOption = some [(u64Bz 5, .tbyte 0)] := by decide
example : (collectByOffset [(u64Bz 1, .tbyte 0), (u64Bz 2, .tbyte 1), (u64Bz 5, .tbyte 0)] 2 false 0
    (indexHit none) 4 0).toOption = some [(u64Bz 1, .tbyte 0), (u64Bz 2, .tbyte 1), (u64Bz 5, .tbyte 0)] := by decide


/-- **The paged by-market lookup, end to end**: on a store satisfying the invariant, for every limit ≥ 1,
order-type filter, after-order bound and direction, following `next_key` through the
market index returns entries `L` with: an entry is in `L` iff it is the market-index entry of an open
order of that market with the requested type and an id above the bound (`AfterOK`) — each once (`L` has pairwise
different keys), ascending by id or descending. -/
theorem byMarket_paged_exact {s : Store} (hinv : IndexInv s) (m : UInt32) (limit : Nat) (hl : 1 ≤ limit)
    (rev : Bool) (after : UInt64) (filter : Option Nat) :
    ∃ L, collectByKey (prefixStore s (prefixMarketToOrder m)) limit rev after (indexHit filter)
        ((prefixStore s (prefixMarketToOrder m)).length + 1) none = .ok L ∧
      L.Pairwise (fun a b => a.1 ≠ b.1) ∧
      ∀ e, e ∈ L ↔ ∃ o, s.get (keyOrder o.id) = some (.order o) ∧ o.market = m ∧
        e = (u64Bz o.id, .tbyte o.tb) ∧ (∀ b, filter = some b → o.tb = b) ∧ AfterOK after o.id := by
  have hh := (indexInvF_iff.mp hinv).1
  have hs := sorted_prefixStore s (prefixMarketToOrder m)
  refine ⟨_, pages_partition_key _ hs limit hl rev after (indexHit filter)
    (fun e _ h => indexHit_key_ne_nil filter e h), ?_, fun e => ?_⟩
  · -- pairwise different keys: a sublist (or reversed sublist) of a strictly sorted list
    have hne : ∀ {l : List Entry}, Sorted l → l.Pairwise (fun a b => a.1 ≠ b.1) :=
      fun h => h.imp (fun hlt e => by rw [e, bytesLt_irrefl] at hlt; cases hlt)
    obtain ⟨h1, h2⟩ := firstIter_sorted _ hs after
    cases rev
    · exact (hne h1).filter _
    · have := (hne h2)
      rw [List.pairwise_reverse] at this
      exact (this.imp (fun h => Ne.symm h)).filter _
  · rw [List.mem_filter]
    constructor
    · rintro ⟨hmem, hhit⟩
      have hps : e ∈ prefixStore s (prefixMarketToOrder m) := by
        unfold firstIter iter at hmem
        split_ifs at hmem
        · exact (List.mem_filter.mp (List.mem_reverse.mp hmem)).1
        · exact (List.mem_filter.mp hmem).1
      obtain ⟨o, ho, hm⟩ := scan_entry_live hinv hps rfl
      rcases mem_orderIndexEntries.mp hm with hq | hq | hq | ⟨_, hq⟩ <;>
        simp [prefixMarketToOrder, idxMarketToOrder, idxAddressToOrder, idxAssetToOrder, idxMarketExternalIDToOrder] at hq
      obtain ⟨hk, hv⟩ := hq
      have hkk := u32_append_inj hk
      have he : e = (u64Bz o.id, .tbyte o.tb) := Prod.ext hkk.2 hv
      refine ⟨o, ho, hkk.1.symm, he, ?_, ?_⟩
      · intro b hb
        subst hb he
        have : o.tb = b ∧ (parseIndexKeySuffixOrderID (u64Bz o.id)).isSome = true := by
          simpa [indexHit, indexHitPreFix, u64Bz_length] using hhit
        exact this.1
      · exact ((after_bound _ rev after e o.id hkk.2).mp hmem).2
    · rintro ⟨o, ho, rfl, rfl, hf, ha⟩
      have hps : (u64Bz o.id, Val.tbyte o.tb) ∈ prefixStore s (prefixMarketToOrder o.market) := by
        rw [mem_prefixStore]
        exact hh.indexed o.id o ho _ (mem_orderIndexEntries.mpr (Or.inl rfl))
      refine ⟨(after_bound _ rev after _ o.id rfl).mpr ⟨hps, ha⟩, ?_⟩
      unfold indexHit indexHitPreFix
      simp only [parseIndexKeySuffixOrderID_u64Bz, Option.isSome_some, Bool.and_true, u64Bz_length, decide_true,
        Bool.true_and]
      cases filter with
      | none => rfl
      | some b => simp [hf b rfl]

/-! ### the SDK's `FilteredPaginate` / `Paginate` (GetAllOrders, payments, commitments) -/

/-- With no filter, the SDK's `FilteredPaginate` (and `Paginate`, the same loops) is
`filteredPaginateAfterOrder` without an after-order bound — so `pages_partition_key` /
`pages_partition_offset` apply to GetAllOrders and to the payment and commitment listings as long as
no listed key is empty. -/
theorem sdkFilteredPaginate_all_eq (ps : List Entry) (req : PageReq) (hk : req.key ≠ some []) :
    sdkFilteredPaginate ps req (fun _ => true) = filteredPaginateAfterOrder ps req 0 (fun _ => true) := by
  unfold sdkFilteredPaginate filteredPaginateAfterOrder sdkGetIterator getOrderIterator
  have hkey : (match req.key with | some [] => none | k => k) = req.key := by
    split
    · next h => exact absurd h hk
    · rfl
  simp only [hkey]
  cases hkk : req.key with
  | none => cases req.reverse <;> simp [reverseEnd]
  | some k =>
    have hne : k ≠ [] := fun e => hk (by rw [hkk, e])
    have h1 : ¬ (some k = none ∨ some k = some []) := by
      rintro (h | h)
      · cases h
      · exact hne (Option.some.inj h)
    have hm : (match some k with | some [] => none | x => x) = some k := by
      split
      · next h => exact absurd (Option.some.inj h) hne
      · rfl
    cases req.reverse
    · simp [hne, sdkKeyLoop_all]
    · simp only [hne, sdkKeyLoop_all, ↓reduceIte, Option.some.injEq, reduceCtorEq, false_or, ne_eq,
        not_false_eq_true, and_true, not_true_eq_false, and_false]

/-- Full statement that the code does NOT satisfy: following `next_key` through any payment listing
returns every payment once.  FALSE for `GetPaymentsWithSource` in reverse: the key of a payment with the
EMPTY external id is the empty suffix of the `0x70 | len | source` prefix store, so when it is the next
entry the response's `next_key` is empty — "no more pages".  Witness: payments `""`, `"a"`, `"b"` of
one source, reverse, limit 2: the client receives `b, a` and stops.  Replayed on the implementation
(known finding C13-paysrc-empty-extid). -/
theorem paysrc_reverse_paging_skips_empty_external_id :
    let ps : List Entry := [([], .empty), ([97], .empty), ([98], .empty)]
    (collectByKey ps 2 true 0 (fun _ => true) 4 none).toOption = some [([98], .empty), ([97], .empty)] ∧
    (collectByKey ps 2 false 0 (fun _ => true) 4 none).toOption = some ps := by
  decide

/-- **sdk_pages_partition_partial**: the payment / commitment / all-orders listings page correctly when no
listed key is empty (true of every listing except a source's payments when one has the empty external
id). -/
theorem sdk_pages_partition_partial (ps : List Entry) (hs : Sorted ps) (limit : Nat) (hl : 1 ≤ limit) (rev : Bool)
    (hne : ∀ e ∈ ps, e.1 ≠ []) :
    collectByKey ps limit rev 0 (fun _ => true) (ps.length + 1) none = .ok (if rev then ps.reverse else ps) := by
  have := pages_partition_key ps hs limit hl rev 0 (fun _ => true) (fun e he _ => hne e he)
  rw [this]
  unfold firstIter lowerBound iter
  cases rev <;> simp [inRange]


/-! ### `nextMarketID` terminates with an unused id -/

/-- **`nextMarketID` (market.go:37) terminates and returns an id that is not in use**, as long as fewer than
2^32 markets exist: `knownMarketCount + 1` iterations of the (unbounded in Go) loop always suffice. -/
theorem nextMarketID_unused (s : Store) (hc : knownMarketCount s < 2 ^ 32) :
    isMarketKnown s (nextMarketID s).2 = false := by
  unfold nextMarketID isMarketKnown
  simp only
  rcases nextMarketIDLoop_spec s (knownMarketCount s + 1) (getLastAutoMarketID s + 1) with h | h
  · exact h
  · exfalso
    -- knownMarketCount + 1 different known ids among knownMarketCount entries
    let m := getLastAutoMarketID s + 1
    let L := (List.range (knownMarketCount s + 1)).map (fun i => keyKnownMarketID (m + UInt32.ofNat i))
    let K := (Store.entries (s.filter (fun e => prefixKnownMarket.isPrefixOf e.1))).map Prod.fst
    have hnd : L.Nodup := by
      refine List.Nodup.map_on ?_ List.nodup_range
      intro i hi j hj e
      have hi' := List.mem_range.mp hi
      have hj' := List.mem_range.mp hj
      have e2 := keyKnownMarketID_inj.mp e
      have := congrArg UInt32.toNat e2
      simp only [UInt32.toNat_add, UInt32.toNat_ofNat'] at this
      omega
    have hsub : L ⊆ K := by
      intro k hk
      obtain ⟨i, hi, rfl⟩ := List.mem_map.mp hk
      obtain ⟨v, hv⟩ := (has_iff _ _).mp (h i (List.mem_range.mp hi))
      exact List.mem_map.mpr ⟨(_, v), (mem_entries_filter (fun k => prefixKnownMarket.isPrefixOf k) s _ _).mpr
        ⟨by simp [prefixKnownMarket, keyKnownMarketID, List.isPrefixOf], hv⟩, rfl⟩
    have hlen := List.Nodup.length_le_of_subset hnd hsub
    simp only [L, K, List.length_map, List.length_range] at hlen
    unfold knownMarketCount at hlen hc
    omega

example : (nextMarketID (run init [.mkMarket 1 "a", .mkMarket 2 "b"]).kv).2 = 3 := by decide

end PvProofs.C13
