/-
C13 — Exchange records and their lookups stay consistent, and listings are complete.

Property theorems only (helper lemmas live in `PvProofs/Lemmas/Exrec*`).  The model
(`PvModel.Exrec`) is the byte-level KV store of x/exchange with the real key layout; a history
is any list of messages (`Op`), rejected messages leave the state unchanged.

* Part A: the index invariant `IndexInv` (order present ⇔ exactly its market / owner / asset
  (/ external-id) index entries, no dangling entries; payments listed under their current
  target only) holds after EVERY history; order ids strictly increase; external ids are unique
  per market; payments are unique per (source, external id); market ids are never reused.
* Part B: what the prefix scans behind the lookups return.  By market and by owner: exactly the
  open orders of that market / owner, each once.  By asset: NOT exact — `byAsset_not_exact` is a
  concrete history in which the scan for `apple` returns an `apples` order (the asset index
  key has no terminator, keys.go:765); `byAsset_exact_partial` is the exact statement under
  the hypothesis that no listed asset denom is a proper prefix of another.
* Part C: paging.  For every strictly sorted entry list, limit ≥ 1, hit filter, after-order
  bound and direction, following `next_key` — or advancing `offset` — through
  `filteredPaginateAfterOrder` returns every matching entry exactly once, in order, and stops.
  Two clauses fail on the code and are proved false on witnesses: `after_order_id = MaxUint64`
  with `reverse` lists everything (`after_max_reverse_lists_all`), and reverse paging through a
  source's payments drops the payment with the empty external id
  (`paysrc_reverse_paging_skips_empty_external_id`).

The only hypothesis carried by Part A is that fewer than 2^64 orders are created (the uint64
counter does not wrap).
-/
import PvProofs.Lemmas.ExrecRun
import PvProofs.Lemmas.ExrecPaging

namespace PvProofs.C13
open PvModel.Exrec PvProofs.Exrec

/-! ## Part A — invariants over all histories -/

theorem inv_init : Inv init := by
  have hg : ∀ k, init.kv.get k = if k = keyLastOrderID then some (.u64 0)
      else if k = keyLastMarketID then some (.u32 0) else none := by
    intro k
    simp only [init, get_cons, get_nil]
    by_cases h1 : keyLastOrderID = k
    · simp [h1]
    · by_cases h2 : keyLastMarketID = k
      · subst h2
        simp [keyLastOrderID, keyLastMarketID]
      · have h1' : ¬ k = keyLastOrderID := fun e => h1 e.symm
        have h2' : ¬ k = keyLastMarketID := fun e => h2 e.symm
        simp [h1, h2, h1', h2']
  refine ⟨⟨?_, ?_, ?_, ?_, ?_, ?_⟩, ?_, ⟨?_, ?_⟩⟩
  · intro r v h; rw [hg] at h; simp [keyLastOrderID, keyLastMarketID] at h
  · intro id o h; rw [hg] at h; simp [keyLastOrderID, keyLastMarketID, keyOrder] at h
  · intro k v hk h; rw [hg] at h
    split_ifs at h with h1 h2
    · subst h1; simp [isOrderIndexKey, keyLastOrderID] at hk
    · subst h2; simp [isOrderIndexKey, keyLastMarketID] at hk
  · intro r v h; rw [hg] at h; simp [keyLastOrderID, keyLastMarketID] at h
  · intro p h; rw [hg] at h; simp [keyLastOrderID, keyLastMarketID, keyPayment] at h
  · intro r v h; rw [hg] at h; simp [keyLastOrderID, keyLastMarketID] at h
  · intro id v h; rw [hg] at h; simp [keyLastOrderID, keyLastMarketID, keyOrder] at h
  · intro m
    have hk : isMarketKnown init.kv m = false := by
      unfold isMarketKnown
      rw [has_false_iff, hg]
      simp [keyKnownMarketID, keyLastOrderID, keyLastMarketID]
    rw [hk]; simp [init]
  · simp [init]

/-- one step of a history: invariant kept, counter grows by at most one -/
theorem inv_step {st : State} {op : Op} (hinv : Inv st) (hb : (getLastOrderID st.kv).toNat + 1 < 2 ^ 64) :
    Inv (step st op) ∧ (getLastOrderID (step st op).kv).toNat ≤ (getLastOrderID st.kv).toNat + 1 ∧
      (getLastOrderID st.kv).toNat ≤ (getLastOrderID (step st op).kv).toNat := by
  unfold step
  cases h : apply st op with
  | none => exact ⟨hinv, Nat.le_succ _, Nat.le_refl _⟩
  | some pr =>
    obtain ⟨st', r⟩ := pr
    obtain ⟨hi, hr⟩ := apply_inv hinv hb h
    show Inv st' ∧ (getLastOrderID st'.kv).toNat ≤ (getLastOrderID st.kv).toNat + 1 ∧
      (getLastOrderID st.kv).toNat ≤ (getLastOrderID st'.kv).toNat
    refine ⟨hi, ?_⟩
    have h1 : (getLastOrderID st.kv + 1).toNat = (getLastOrderID st.kv).toNat + 1 := by
      rw [UInt64.toNat_add]
      have : (1 : UInt64).toNat = 1 := rfl
      rw [this]; omega
    cases r with
    | orderId id =>
      obtain ⟨rfl, h2⟩ := hr
      rw [h2, h1]; omega
    | none => simp only [ResOK] at hr; rw [hr]; omega
    | marketId m => simp only [ResOK] at hr; rw [hr]; omega

/-- **IndexInv after every history** (from any state satisfying the invariant, as long as the order
counter cannot wrap). -/
theorem inv_run : ∀ (ops : List Op) (st : State), Inv st →
    (getLastOrderID st.kv).toNat + ops.length < 2 ^ 64 → Inv (run st ops)
  | [], st, h, _ => h
  | op :: ops, st, h, hb => by
    simp only [List.length_cons] at hb
    obtain ⟨h1, h2, _⟩ := inv_step (op := op) h (by omega)
    show Inv (run (step st op) ops)
    exact inv_run ops (step st op) h1 (by omega)

theorem lastOrderID_init : getLastOrderID init.kv = 0 := rfl

/-- Every open order has exactly its market / owner / asset (/ external-id) index entries, no index
entry dangles, every payment is listed under its current target only — after ANY sequence of
creations, partial fills, settlements, cancellations, external-id and target changes, commitments
and market closures. -/
theorem indexInv_all_histories (ops : List Op) (h : ops.length < 2 ^ 64) : IndexInv (run init ops).kv :=
  (inv_run ops init inv_init (by rw [lastOrderID_init]; simpa using h)).idx

/-- non-vacuity: a concrete history with a partial fill (6 → 4 assets left), an external-id change
and a retargeted payment (listed under the new target only) -/
example :
    let s := (run init [.mkMarket 0 "m",
      .create ⟨0, false, 1, [65], [97, 112, 112], 6, [117], 12, [120], true⟩,
      .create ⟨0, true, 1, [66], [97, 112, 112], 2, [117], 6, [121], true⟩,
      .settle 1 1 2 true admin, .setExt 1 1 [122] admin,
      .pay ⟨[65], 3, [66], 0, []⟩, .payTarget [65] [] [67]]).kv
    getOrderFromStore s 1 = some ⟨1, false, 1, [65], [97, 112, 112], 4, [117], 8, [122], true⟩ ∧
    getOrderFromStore s 2 = none ∧ s.has (idxTargetToPayment [67] [65] []) = true ∧
    s.has (idxTargetToPayment [66] [65] []) = false := by decide

/-- a rejected message changes nothing -/
theorem rejected_changes_nothing {st : State} {op : Op} (h : apply st op = none) : step st op = st := by
  unfold step; rw [h]

/-- **Order ids are strictly increasing along every history, hence never reused**: the ids handed
out are strictly ascending and all greater than the counter at the start. -/
theorem orderIds_strictly_increasing : ∀ (ops : List Op) (st : State), Inv st →
    (getLastOrderID st.kv).toNat + ops.length < 2 ^ 64 →
    (createdOrderIds st ops).Pairwise (· < ·) ∧ ∀ id ∈ createdOrderIds st ops, getLastOrderID st.kv < id
  | [], _, _, _ => by simp [createdOrderIds]
  | op :: ops, st, hinv, hb => by
    simp only [List.length_cons] at hb
    have h1 : (getLastOrderID st.kv + 1).toNat = (getLastOrderID st.kv).toNat + 1 := by
      rw [UInt64.toNat_add]
      have : (1 : UInt64).toNat = 1 := rfl
      rw [this]; omega
    unfold createdOrderIds
    cases h : apply st op with
    | none => exact orderIds_strictly_increasing ops st hinv (by omega)
    | some pr =>
      obtain ⟨st', r⟩ := pr
      obtain ⟨hi, hr⟩ := apply_inv hinv (by omega) h
      cases r with
      | orderId id =>
        obtain ⟨rfl, h2⟩ := hr
        obtain ⟨ih1, ih2⟩ := orderIds_strictly_increasing ops st' hi (by rw [h2, h1]; omega)
        simp only
        refine ⟨List.pairwise_cons.mpr ⟨fun a ha => ?_, ih1⟩, fun a ha => ?_⟩
        · have := ih2 a ha; rw [h2] at this; exact this
        · rcases List.mem_cons.mp ha with rfl | ha
          · rw [UInt64.lt_iff_toNat_lt, h1]; omega
          · have := ih2 a ha
            rw [h2, UInt64.lt_iff_toNat_lt] at this
            rw [UInt64.lt_iff_toNat_lt]; omega
      | none =>
        simp only [ResOK] at hr
        obtain ⟨ih1, ih2⟩ := orderIds_strictly_increasing ops st' hi (by rw [hr]; omega)
        exact ⟨ih1, fun a ha => by rw [← hr]; exact ih2 a ha⟩
      | marketId m =>
        simp only [ResOK] at hr
        obtain ⟨ih1, ih2⟩ := orderIds_strictly_increasing ops st' hi (by rw [hr]; omega)
        exact ⟨ih1, fun a ha => by rw [← hr]; exact ih2 a ha⟩

theorem orderIds_never_reused (ops : List Op) (h : ops.length < 2 ^ 64) : (createdOrderIds init ops).Nodup := by
  have := (orderIds_strictly_increasing ops init inv_init (by rw [lastOrderID_init]; simpa using h)).1
  exact this.imp (fun hlt => UInt64.ne_of_lt hlt)

example : createdOrderIds init [.mkMarket 0 "m",
    .create ⟨0, false, 1, [65], [97, 112, 112], 6, [117], 12, [], true⟩, .cancel 1 [65],
    .create ⟨0, true, 1, [66], [97, 112, 112], 2, [117], 6, [], true⟩] = [1, 2] := by decide

/-- every order in the store was handed out by the counter: its id is between 1 and the last id -/
theorem order_ids_bounded (ops : List Op) (h : ops.length < 2 ^ 64) : CounterInv (run init ops).kv :=
  (inv_run ops init inv_init (by rw [lastOrderID_init]; simpa using h)).ctr

/-- **External ids are unique within a market**: two open orders of one market with the same
non-empty external id are the same order. -/
theorem externalId_unique_per_market {s : Store} (hinv : IndexInv s) {i i' : UInt64} {o o' : Order}
    (ho : s.get (keyOrder i) = some (.order o)) (ho' : s.get (keyOrder i') = some (.order o'))
    (hm : o.market = o'.market) (hx : o.ext = o'.ext) (hne : o.ext ≠ []) : i = i' := by
  have hh := (indexInvF_iff.mp hinv).1
  refine hh.live_disjoint ho ho'
    (mem_orderIndexEntries.mpr (Or.inr (Or.inr (Or.inr ⟨hne, rfl⟩))))
    (mem_orderIndexEntries.mpr (Or.inr (Or.inr (Or.inr ⟨hx ▸ hne, rfl⟩)))) ?_
  simp [hm, hx]

/-- **Lookup by external id** finds exactly the open order of that market carrying that id. -/
theorem getOrderByExternalID_iff {s : Store} (hinv : IndexInv s) (m : UInt32) (x : Bytes) (hx : x ≠ [])
    (hlen : x.length ≤ 100) (o : Order) :
    getOrderByExternalID s m x = some o ↔
      s.get (keyOrder o.id) = some (.order o) ∧ o.market = m ∧ o.ext = x := by
  have hh := (indexInvF_iff.mp hinv).1
  unfold getOrderByExternalID
  have hc : ¬ (x = [] ∨ x.length > 100) := fun h => h.elim hx (by omega)
  rw [if_neg hc]
  constructor
  · intro h
    split at h
    · next id hv =>
      obtain ⟨hrec, hid⟩ := getOrderFromStore_eq hh h
      subst hid
      obtain ⟨id2, o2, ho2, hmem⟩ := hh.no_dangling _ _ rfl hv
      have hid2 := hh.record_id ho2
      rcases mem_orderIndexEntries.mp hmem with hq | hq | hq | ⟨_, hq⟩ <;>
        simp [idxMarketToOrder, idxAddressToOrder, idxAssetToOrder, idxMarketExternalIDToOrder] at hq
      obtain ⟨hk, hidd⟩ := hq
      have := u32_append_inj hk
      rw [hid2] at hidd; subst hidd
      rw [hrec] at ho2; cases ho2
      exact ⟨hrec, this.1.symm, this.2.symm⟩
    · cases h
  · rintro ⟨hrec, rfl, rfl⟩
    have := hh.indexed o.id o hrec _ (mem_orderIndexEntries.mpr (Or.inr (Or.inr (Or.inr ⟨hx, rfl⟩))))
    simp only at this
    rw [this]
    exact getOrderFromStore_of_get hrec rfl

/-- **Payments are unique per (source, external id)**: the record under a payment key is the payment
with that source and id … -/
theorem payment_unique {s : Store} (hinv : IndexInv s) {src e : Bytes} {p : Payment}
    (hp : s.get (keyPayment src e) = some (.payment p)) : p.source = src ∧ p.ext = e :=
  (indexInvF_iff.mp hinv).2.record_key hp

/-- … and creating a second payment with the same source and external id is refused. -/
theorem createPayment_refuses_duplicate {s : Store} {p q : Payment}
    (hq : s.get (keyPayment p.source p.ext) = some (.payment q)) : createPayment s p = none := by
  unfold createPayment
  have : s.has (keyPayment p.source p.ext) = true := (has_iff _ _).mpr ⟨_, hq⟩
  simp [this]

/-- **A payment is listed under its current target and under no other**: a target-index entry
`(t, source, id)` exists iff the payment `(source, id)` is stored and has target `t`. -/
theorem payment_listed_under_current_target_only {s : Store} (hinv : IndexInv s) (t src e : Bytes) :
    (∃ v, s.get (idxTargetToPayment t src e) = some v) ↔
      ∃ p, s.get (keyPayment src e) = some (.payment p) ∧ p.target = t ∧ t ≠ [] := by
  have hh := (indexInvF_iff.mp hinv).2
  constructor
  · rintro ⟨v, hv⟩
    obtain ⟨p, hp, hm⟩ := hh.pay_no_dangling _ v hv
    obtain ⟨ht, he⟩ := mem_paymentIndexEntries.mp hm
    simp only [Prod.mk.injEq] at he
    have := idxTargetToPayment_inj.mp he.1
    rw [← this.2.1, ← this.2.2] at hp
    exact ⟨p, hp, this.1.symm, this.1 ▸ ht⟩
  · rintro ⟨p, hp, rfl, ht⟩
    obtain ⟨hs, he⟩ := hh.record_key hp
    subst hs he
    exact ⟨_, hh.pay_indexed p hp _ (mem_paymentIndexEntries.mpr ⟨ht, rfl⟩)⟩

/-- **A market id identifies at most one market**: after every history the known-market entries and
the market accounts are the same ids, each once … -/
theorem marketInv_all_histories (ops : List Op) (h : ops.length < 2 ^ 64) : MarketInv (run init ops) :=
  (inv_run ops init inv_init (by rw [lastOrderID_init]; simpa using h)).mkt

/-- … and the ids of the markets created along a history are pairwise different and different from
every market that existed before. -/
theorem marketIds_never_reused : ∀ (ops : List Op) (st : State), Inv st →
    (getLastOrderID st.kv).toNat + ops.length < 2 ^ 64 →
    (createdMarketIds st ops).Nodup ∧ ∀ m ∈ createdMarketIds st ops, m ∉ st.accts.map Prod.fst
  | [], _, _, _ => by simp [createdMarketIds]
  | op :: ops, st, hinv, hb => by
    simp only [List.length_cons] at hb
    unfold createdMarketIds
    cases h : apply st op with
    | none => exact marketIds_never_reused ops st hinv (by omega)
    | some pr =>
      obtain ⟨st', r⟩ := pr
      obtain ⟨hi, hr⟩ := apply_inv hinv (by omega) h
      have hgrow : (getLastOrderID st'.kv).toNat ≤ (getLastOrderID st.kv).toNat + 1 := by
        have := (inv_step (op := op) hinv (by omega)).2.1
        unfold step at this; rw [h] at this; exact this
      obtain ⟨ih1, ih2⟩ := marketIds_never_reused ops st' hi (by omega)
      -- accounts only grow
      have hacc : ∀ m, m ∈ st.accts.map Prod.fst → m ∈ st'.accts.map Prod.fst := by
        intro m hm
        by_cases hmk : ∃ i n, op = .mkMarket i n
        · obtain ⟨i, n, rfl⟩ := hmk
          simp only [apply] at h
          cases hcm : createMarket st i n with
          | none => rw [hcm] at h; cases h
          | some pr2 =>
            obtain ⟨st2, mid⟩ := pr2
            rw [hcm] at h
            simp only [Option.map_some, Option.some.injEq, Prod.mk.injEq] at h
            obtain ⟨rfl, _⟩ := h
            rw [(createMarket_spec hcm).2.1]
            simp only [List.map_cons, List.mem_cons]
            exact Or.inr hm
        · by_cases hco : ∃ o, op = .create o
          · obtain ⟨o, rfl⟩ := hco
            simp only [apply] at h
            cases hc2 : createOrder st.kv o with
            | none => rw [hc2] at h; cases h
            | some pr2 =>
              rw [hc2] at h
              simp only [Option.map_some, Option.some.injEq, Prod.mk.injEq] at h
              obtain ⟨rfl, _⟩ := h
              exact hm
          · have := (opOK_apply hinv.idx h (fun o e => hco ⟨o, e⟩) (fun i n e => hmk ⟨i, n, e⟩)).2
            rw [this]; exact hm
      cases r with
      | marketId mid =>
        simp only
        -- the message was a market creation: `mid` is new and recorded
        have hmk : ∃ i n, op = .mkMarket i n := by
          cases op <;> simp [apply, withKv] at h <;> first | exact ⟨_, _, rfl⟩ | skip
          all_goals (try (obtain ⟨_, _, hh⟩ := h; cases hh))
          all_goals (try (obtain ⟨_, hh⟩ := h; cases hh))
        obtain ⟨i, n, rfl⟩ := hmk
        simp only [apply] at h
        cases hcm : createMarket st i n with
        | none => rw [hcm] at h; cases h
        | some pr2 =>
          obtain ⟨st2, mid2⟩ := pr2
          rw [hcm] at h
          simp only [Option.map_some, Option.some.injEq, Prod.mk.injEq, Res.marketId.injEq] at h
          obtain ⟨rfl, rfl⟩ := h
          obtain ⟨hnot, haccts, _, _⟩ := createMarket_spec hcm
          refine ⟨List.nodup_cons.mpr ⟨fun hmem => ?_, ih1⟩, fun m hm => ?_⟩
          · exact ih2 _ hmem (by rw [haccts]; simp)
          · rcases List.mem_cons.mp hm with rfl | hm
            · exact hnot
            · exact fun hm2 => ih2 m hm (hacc m hm2)
      | none => exact ⟨ih1, fun m hm hm2 => ih2 m hm (hacc m hm2)⟩
      | orderId id => exact ⟨ih1, fun m hm hm2 => ih2 m hm (hacc m hm2)⟩

example : createdMarketIds init [.mkMarket 2 "a", .mkMarket 0 "b", .mkMarket 0 "c", .mkMarket 2 "d"] = [2, 1, 3] := by
  decide

end PvProofs.C13
