/-
C12 — fact theorems: what the Go source of x/marker says today (regenerated on every run by
tools/extract/markerguards.go into `Generated.MarkerGuards`) against hand-written tables from
the documentation. If a handler changes the right it checks, gains or loses a governance path,
a new handler appears, or `Accept` changes what it returns as the updated grant, the generated
file changes and these stop type-checking.
-/
import PvModel.MkraccSpec
import Generated.MarkerGuards

namespace PvProofs.C12
open PvModel PvModel.Mkracc PvModel.Mkracc.Spec

section Facts
open PvProofs.Facts

def lookupFn (recv name : String) : Option MarkerFn :=
  Generated.markerFns.find? fun f => f.recv == recv && f.name == name

/-- the access checks of a `Keeper` method of marker.go and of the marker.go methods it calls -/
def deepChecks : Nat → String → List (String × String)
  | 0, _ => []
  | n + 1, name =>
    match lookupFn "Keeper" name with
    | none => []
    | some f => f.checks ++ (f.calls.filter (· != name)).flatMap (deepChecks n)

/-- every access check a message handler reaches (own body, then through marker.go) -/
def handlerChecks (h : String) : List (String × String) :=
  match lookupFn "msgServer" h with
  | none => [("missing", h)]
  | some f => f.checks ++ f.calls.flatMap (deepChecks 4)

/-- Hand-written from accessgrant.proto / 12_transfers.md: the `types.Access_*` constant(s)
each marker message checks, with the method used, in order. Governance-only messages and
marker creation check no access right. -/
def expectedHandlerChecks : List (String × List (String × String)) := [
  ("Mint", [("ValidateAddressHasAccess", "Mint")]),
  ("Burn", [("ValidateAddressHasAccess", "Burn")]),
  ("Withdraw", [("ValidateAddressHasAccess", "Withdraw"), ("ValidateAddressHasAccess", "Deposit")]),
  ("Cancel", [("ValidateAddressHasAccess", "Delete"), ("ValidateAddressHasAccess", "Delete")]),
  ("Delete", [("ValidateAddressHasAccess", "Delete")]),
  ("AddAccess", [("AddressHasAccess", "Admin")]),
  ("DeleteAccess", [("AddressHasAccess", "Admin")]),
  ("Finalize", []),
  ("Activate", []),
  ("SetDenomMetadata", [("ValidateAddressHasAccess", "Admin")]),
  ("GrantAllowance", [("ValidateAddressHasAccess", "Admin")]),
  ("UpdateRequiredAttributes", [("AddressHasAccess", "Transfer")]),
  ("UpdateForcedTransfer", []),
  ("SetAccountData", [("ValidateHasAccess", "Deposit")]),
  ("UpdateSendDenyList", [("ValidateHasAccess", "Transfer")]),
  ("AddNetAssetValues", []),
  ("Transfer", [("AddressHasAccess", "ForceTransfer"), ("ValidateAddressHasAccess", "Transfer"),
                ("ValidateAddressHasAccess", "Deposit")]),
  ("IbcTransfer", [("ValidateAddressHasAccess", "Transfer"), ("AddressHasAccess", "Transfer")]),
  ("AddMarker", []), ("AddFinalizeActivateMarker", []),
  ("SupplyIncreaseProposal", []), ("SupplyDecreaseProposal", []), ("SetAdministratorProposal", []),
  ("RemoveAdministratorProposal", []), ("ChangeStatusProposal", []), ("WithdrawEscrowProposal", []),
  ("SetDenomMetadataProposal", []), ("UpdateParams", [])]

/-- **Every marker message checks exactly the documented `types.Access_*` constants**
(read from the Go source on this run). -/
theorem marker_handlers_check_documented_rights :
    expectedHandlerChecks.all (fun e => handlerChecks e.1 == e.2) = true := by decide

/-- No marker message handler is outside the table: a handler added later must be classified. -/
theorem every_marker_handler_classified :
    (Generated.markerFns.filter (·.recv == "msgServer")).all
      (fun f => expectedHandlerChecks.any (·.1 == f.name)) = true := by decide

def accessOfConst : String → Option Access
  | "Mint" => some .mint | "Burn" => some .burn | "Deposit" => some .deposit
  | "Withdraw" => some .withdraw | "Delete" => some .delete | "Admin" => some .admin
  | "Transfer" => some .transfer | "ForceTransfer" => some .forceTransfer | _ => none

/-- the rights the handler of `op` checks in the source -/
def checkedRights (op : Op) : List Access := (handlerChecks op.name).filterMap (accessOfConst ·.2)

def sameSet (a b : List Access) : Bool := a.all b.contains && b.all a.contains

/-- **The model's table and the source agree on which rights an operation consults**: for every
modelled operation the constants its handler checks are the rights `Spec.relevant` names
(plus `deposit` on the destination of a withdrawal); `AddNetAssetValues` checks no constant
but any grant (`GrantsForAddress`). -/
theorem spec_rights_are_the_checked_constants :
    Op.all.all (fun op =>
      if op == .addNetAssetValues then
        checkedRights op == [] && ((lookupFn "msgServer" op.name).map (·.anyGrants)) == some true
      else sameSet (checkedRights op) (relevant op ++ (if op == .withdraw then [.deposit] else []))) = true := by
  decide

/-- (authority mentioned, governance-control flag consulted, any-grant alternative) -/
def govShape (h : String) : Option (Bool × Bool × Bool) :=
  (lookupFn "msgServer" h).map fun f => (f.authority, f.govEnabled, f.anyGrants)

/-- **Governance alternatives are where the documentation puts them**: the five messages that
governance may sign consult the marker's `allow_governance_control`; the governance-only
messages mention the authority; no other marker message has a governance path. -/
theorem governance_paths_as_documented :
    (["UpdateRequiredAttributes", "UpdateForcedTransfer", "SetAccountData", "UpdateSendDenyList"].all
        (fun h => govShape h == some (true, true, false)))
    && govShape "AddNetAssetValues" == some (true, true, true)
    && (["AddMarker", "SupplyIncreaseProposal", "SupplyDecreaseProposal", "SetAdministratorProposal",
         "RemoveAdministratorProposal", "ChangeStatusProposal", "WithdrawEscrowProposal",
         "SetDenomMetadataProposal", "UpdateParams"].all (fun h => govShape h == some (true, false, false)))
    && (["Mint", "Burn", "Withdraw", "Cancel", "Delete", "AddAccess", "DeleteAccess", "Finalize", "Activate",
         "SetDenomMetadata", "GrantAllowance", "Transfer", "IbcTransfer", "AddFinalizeActivateMarker"].all
        (fun h => govShape h == some (false, false, false))) = true := by decide

def keeperStatuses (name : String) : Option (List String) := (lookupFn "Keeper" name).map (·.statuses)

/-- The status constants each keeper function distinguishes are those of the model. -/
theorem keeper_status_cases_as_modelled :
    keeperStatuses "MintCoin" = some ["Proposed", "Finalized", "Active"]
    ∧ keeperStatuses "BurnCoin" = some ["Proposed", "Finalized", "Active"]
    ∧ keeperStatuses "WithdrawCoins" = some ["Active"]
    ∧ keeperStatuses "AddAccess" = some ["Finalized", "Active", "Proposed"]
    ∧ keeperStatuses "RemoveAccess" = some ["Finalized", "Active", "Proposed"]
    ∧ keeperStatuses "FinalizeMarker" = some ["Proposed", "Finalized"]
    ∧ keeperStatuses "ActivateMarker" = some ["Finalized", "Active"]
    ∧ keeperStatuses "CancelMarker" = some ["Finalized", "Active", "Proposed", "Cancelled"]
    ∧ keeperStatuses "DeleteMarker" = some ["Cancelled", "Destroyed"]
    ∧ keeperStatuses "TransferCoin" = some ["Active"] := by decide

/-- `TransferCoin` reaches the deposit check, the authz handler and the forced-transfer guard;
`IbcTransferCoin` reaches the authz handler; the access-list functions consult
`accountControlsAllSupply`. -/
theorem transfer_wiring :
    (lookupFn "Keeper" "TransferCoin").map (·.calls)
      = some ["GetMarkerByDenom", "validateSendToMarker", "authzHandler", "canForceTransferFrom"]
    ∧ (lookupFn "Keeper" "IbcTransferCoin").map (·.calls) = some ["GetMarkerByDenom", "authzHandler"]
    ∧ (lookupFn "Keeper" "WithdrawCoins").map (·.calls) = some ["GetMarkerByDenom", "validateSendToMarker"]
    ∧ (lookupFn "Keeper" "AddAccess").map (·.calls) = some ["GetMarkerByDenom", "accountControlsAllSupply"]
    ∧ (lookupFn "Keeper" "RemoveAccess").map (·.calls) = some ["GetMarkerByDenom", "accountControlsAllSupply"] := by
  decide

/-- **The switch follows the source**: the `Updated` authorization that `Accept` returns sets
`AllowList` exactly when the model keeps the allow list. (As found: only `TransferLimit`.) -/
theorem accept_updated_fields_match_model :
    Generated.acceptUpdatedFields
      = if keepAllowListOnUpdate then ["TransferLimit", "AllowList"] else ["TransferLimit"] := by decide

/-- **The second switch follows the source**: `accountControlsAllSupply` reads the marker's
recorded supply (`m.GetSupply`) exactly when the model compares with the record, and the bank
supply (`k.bankKeeper.GetSupply`) exactly when the model compares with the coins in existence. -/
theorem supply_control_source_matches_model :
    Generated.supplyControlCalls.contains "k.bankKeeper.GetBalance" = true
    ∧ Generated.supplyControlCalls.contains "m.GetSupply" = !supplyControlViaBank
    ∧ Generated.supplyControlCalls.contains "k.bankKeeper.GetSupply" = supplyControlViaBank := by decide

end Facts

end PvProofs.C12
