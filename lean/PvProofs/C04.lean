/-
C04 — Restricted coins move through the bank only as the marker transfer rules allow.

Property theorems only (helper lemmas: `PvProofs/Lemmas/MkrSend.lean`, `MkrSendRefine.lean`).
Model: `PvModel.MkrSend` (`decide = Keeper.SendRestrictionFn`, function by function);
rules: `PvModel.MkrSend.Spec` (the four flowcharts of x/marker/spec/12_transfers.md, node by node).
Every theorem is for ALL configurations: any sender / receiver (plain, marker with any type, status and
access list, bypass account, module account, fee collector), any list of transfer agents, any account
store (any number of markers, grants, required attributes incl. wildcards, deny entries), any
attribute store, any bypass set, any coin list.  Where a hypothesis appears it is

* `Spec.DenomsAscending amt` — denoms strictly ascending (what `sdk.Coins.Validate` guarantees and the
  bank keeper enforces before moving anything).  It is needed only because `sdk.Coins.Find` is a binary
  search; `restricted_never_reaches_feeCollector`, `leaving_marker_needs_withdraw_or_feegrant`,
  `deposit_into_restricted_needs_deposit`, `forceTransfer_right_irrelevant` hold for arbitrary lists.

HISTORY (finding C04-denom-address-squat, fixed by ed45788f3).  Before that commit "permitted exactly
when the documented rules permit" was FALSE of the code in one case: if the address a marker for denom D
*would* have held an ordinary account (anybody can create one by sending a coin there) and D had no
marker, the rules said "Is there a marker for Denom? — no → allowed" but `validateSendDenom` (and the
fee-collector loop of the bypass path) returned GetMarker's error.  The model of that code is kept as
`decidePreFix`; `squatted_denom_denied_but_rules_allow_before_fix` is the witness and
`preFix_agrees_outside_squat` says that was the only difference.  The model of the current code
(`decide`) equals the specification without that exception: `decide_eq_spec`.
-/
import PvProofs.Lemmas.MkrSendRefine
import Mathlib.Tactic.SplitIfs

namespace PvProofs.C04
open PvModel PvModel.MkrSend PvProofs.MkrSendLemmas

/-- **decide = spec**: on valid (denom-ascending) coins the code's decision — including *which* check
refuses — is the documented flowchart's, for every configuration: any number of denoms, agents,
grants, required attributes, any contents of the account and attribute stores. -/
theorem decide_eq_spec (cfg : Cfg) (amt : Coins) (hs : Spec.DenomsAscending amt) :
    Spec.decisionFlow (decide cfg amt) = Spec.sendRestrictionFn cfg amt := by
  unfold MkrSend.decide sendRestrictionFn Spec.sendRestrictionFn
  rw [onBypassPath_eq]
  by_cases hq : Spec.qhasbp cfg = true
  · simp only [hq, if_true, Spec.qfc]
    by_cases hfc : cfg.toAddr = cfg.feeCollectorAddr
    · simp only [hfc, if_true, decide_true]
      exact bypassLoop_eq_spec cfg amt
    · simp [hfc, Spec.decisionFlow, allow]
  · simp only [hq, Bool.false_eq_true, if_false]
    rw [← checkFromMarker_eq_spec cfg amt hs, ← checkToMarker_eq_spec cfg]
    cases h1 : checkFromMarker cfg amt with
    | error e => simp [Spec.decisionFlow]
    | ok u =>
      cases h2 : checkToMarker cfg (getMarkerIgnoreErr cfg cfg.toAddr) with
      | error e => simp [Spec.decisionFlow]
      | ok v =>
        simp only [Spec.decisionFlow]
        exact forCoins_flow cfg _ amt fun c _ => validateSendDenom_eq_spec cfg c.1

/-- The property in its own words: a movement of valid coins is permitted by the code **exactly when**
the documented rules permit it. -/
theorem permitted_iff_rules_permit (cfg : Cfg) (amt : Coins) (hs : Spec.DenomsAscending amt) :
    decide cfg amt = allow ↔ Spec.permitted cfg amt = true := by
  unfold Spec.permitted
  rw [← decide_eq_spec cfg amt hs]
  cases decide cfg amt <;> simp [Spec.decisionFlow, Spec.Flow.isOk, allow]

/-! ### The clauses the property names -/

/-- **A restricted coin never reaches the fee collector** — on every path (context bypass, marker
module / ibc sender, transfer agents, fee grant), for every coin list (valid or not), whatever the
marker's status, grants, attributes. -/
theorem restricted_never_reaches_feeCollector (cfg : Cfg) (amt : Coins) (c : Denom × Int) (hc : c ∈ amt)
    (hto : cfg.toAddr = cfg.feeCollectorAddr) (hr : Spec.isRestrictedCoin cfg c.1 = true) :
    decide cfg amt ≠ allow := by
  intro ha
  -- the account at the coin's marker address is a restricted marker
  obtain ⟨m, hacct, hm⟩ : ∃ m, cfg.acct (cfg.markerAddr c.1) = Acct.marker m ∧ m.mtype = MType.restricted := by
    unfold Spec.isRestrictedCoin Spec.markerOf Spec.markerAt at hr
    cases hacct : cfg.acct (cfg.markerAddr c.1) with
    | none => simp [hacct] at hr
    | other => simp [hacct] at hr
    | marker m => exact ⟨m, rfl, by simpa [hacct] using hr⟩
  by_cases hb : onBypassPath cfg = true
  · unfold MkrSend.decide sendRestrictionFn at ha
    simp only [hb, if_true, hto] at ha
    have := (forCoins_allow_iff _ _).mp ha c hc
    rw [(bypassDenom_marker hacct).1] at this
    simp [hm, allow, deny] at this
  · have hb' : onBypassPath cfg = false := by simpa using hb
    have := ((nonBypass_allow_iff cfg amt hb').mp ha).2.2
    have := (forCoins_allow_iff _ _).mp this c hc
    exact (validateSendDenom_restricted_allow hacct hm this).2.1 hto

/-- **Coins never leave a marker account without withdraw authority (or a fee grant in use).**
The bypass path is the marker module's own business (its Withdraw endpoint checks the right itself
before moving coins with the context bypass). -/
theorem leaving_marker_needs_withdraw_or_feegrant (cfg : Cfg) (amt : Coins) (m : Marker)
    (hm : cfg.acct cfg.fromAddr = Acct.marker m) (hb : onBypassPath cfg = false)
    (ha : decide cfg amt = allow) :
    cfg.feeGrant = true ∨ ∃ a ∈ cfg.agents, Spec.hasAccess m a .withdraw = true := by
  have h1 := ((nonBypass_allow_iff cfg amt hb).mp ha).1
  unfold checkFromMarker getMarkerIgnoreErr getMarker at h1
  simp only [hm] at h1
  cases hw : checkWithdraw cfg m with
  | error e => simp [hw, allow] at h1
  | ok u =>
    unfold checkWithdraw at hw
    by_cases hfg : cfg.feeGrant = true
    · exact Or.inl hfg
    · right
      simp only [hfg, Bool.not_false, if_true, validateAtLeastOne_eq] at hw
      by_cases hl : cfg.agents.length = 0
      · simp [hl, deny] at hw
      · by_cases hany : (cfg.agents.any fun a => Spec.hasAccess m a Access.withdraw) = true
        · obtain ⟨a, h1, h2⟩ := List.any_eq_true.mp hany
          exact ⟨a, h1, h2⟩
        · simp [hl, hany, deny] at hw

/-- … and while the marker is not active, the coins of its own denom do not leave it at all. -/
theorem inactive_marker_keeps_own_coins (cfg : Cfg) (amt : Coins) (m : Marker)
    (hm : cfg.acct cfg.fromAddr = Acct.marker m) (hb : onBypassPath cfg = false)
    (hs : Spec.DenomsAscending amt) (hown : Coins.amountOf amt m.denom ≠ 0)
    (ha : decide cfg amt = allow) : m.status = MStatus.active := by
  have h1 := ((nonBypass_allow_iff cfg amt hb).mp ha).1
  unfold checkFromMarker getMarkerIgnoreErr getMarker at h1
  simp only [hm] at h1
  cases hw : checkWithdraw cfg m with
  | error e => simp [hw, allow] at h1
  | ok u =>
    simp only [hw] at h1
    have h2 := checkOwnDenom_eq_spec m amt hs
    rw [h1] at h2
    by_cases hst : m.status = MStatus.active
    · exact hst
    · simp [hst, Spec.decisionFlow, Spec.csm_isasm, Spec.csm_issma] at h2
      exact absurd h2 hown

/-- **Deposits into a restricted marker need deposit authority**: of the sender when there is no
transfer agent, of one of the agents otherwise. -/
theorem deposit_into_restricted_needs_deposit (cfg : Cfg) (amt : Coins) (m : Marker)
    (hm : cfg.acct cfg.toAddr = Acct.marker m) (hr : m.mtype = MType.restricted)
    (hb : onBypassPath cfg = false) (ha : decide cfg amt = allow) :
    (cfg.agents = [] ∧ Spec.hasAccess m cfg.fromAddr .deposit = true) ∨
    (∃ a ∈ cfg.agents, Spec.hasAccess m a .deposit = true) := by
  have h2 := ((nonBypass_allow_iff cfg amt hb).mp ha).2.1
  unfold checkToMarker getMarkerIgnoreErr getMarker at h2
  simp only [hm, hr, if_true, validateAtLeastOne_eq, hasAccess_eq] at h2
  by_cases hag : cfg.agents = []
  · left
    refine ⟨hag, ?_⟩
    by_cases hd : Spec.hasAccess m cfg.fromAddr Access.deposit = true
    · exact hd
    · simp [hag, hd, allow, deny] at h2
  · right
    have hlen : cfg.agents.length > 0 := List.length_pos_iff.mpr hag
    by_cases hd : (cfg.agents.any fun a => Spec.hasAccess m a Access.deposit) = true
    · obtain ⟨a, h1, h2⟩ := List.any_eq_true.mp hd
      exact ⟨a, h1, h2⟩
    · simp [hlen, hd, allow, deny] at h2

/-- A restricted coin enters a marker account (restricted or not) only on transfer authority:
required attributes and bypass accounts do not help. -/
theorem restricted_coin_into_marker_needs_transfer (cfg : Cfg) (amt : Coins) (tm mc : Marker)
    (c : Denom × Int) (hc : c ∈ amt)
    (htm : cfg.acct cfg.toAddr = Acct.marker tm)
    (hmc : cfg.acct (cfg.markerAddr c.1) = Acct.marker mc) (hr : mc.mtype = MType.restricted)
    (hb : onBypassPath cfg = false) (ha : decide cfg amt = allow) :
    (∃ a ∈ cfg.agents, Spec.hasAccess mc a .transfer = true) ∨
    (cfg.fromAddr ∉ mc.deny ∧ Spec.hasAccess mc cfg.fromAddr .transfer = true) := by
  have h3 := ((nonBypass_allow_iff cfg amt hb).mp ha).2.2
  have h3 := (forCoins_allow_iff _ _).mp h3 c hc
  have hto : getMarkerIgnoreErr cfg cfg.toAddr = some tm := by
    simp [getMarkerIgnoreErr, getMarker, htm]
  rw [hto] at h3
  rcases (validateSendDenom_restricted_allow hmc hr h3).2.2 with h | ⟨hd, h | ⟨hn, _⟩⟩
  · exact Or.inl h
  · exact Or.inr ⟨hd, h⟩
  · cases hn

/-! ### Each denom is judged on its own -/

/-- **Each denom in a multi-denom transfer is judged on its own**: a movement of valid coins is
allowed exactly when the checks that do not look at the amount (sender may withdraw, receiver accepts
the deposit — i.e. the empty movement is allowed) pass and every coin would be allowed alone. -/
theorem per_denom_independent (cfg : Cfg) (amt : Coins) (hs : Spec.DenomsAscending amt) :
    decide cfg amt = allow ↔ decide cfg [] = allow ∧ ∀ c ∈ amt, decide cfg [c] = allow := by
  by_cases hb : onBypassPath cfg = true
  · unfold MkrSend.decide sendRestrictionFn
    simp only [hb, if_true]
    by_cases hfc : cfg.toAddr = cfg.feeCollectorAddr
    · simp only [hfc, if_true, forCoins_allow_iff]
      simp
    · simp [hfc]
  · have hb' : onBypassPath cfg = false := by simpa using hb
    simp only [nonBypass_allow_iff cfg _ hb', forCoins_allow_iff]
    rw [checkFromMarker_split cfg amt hs]
    constructor
    · rintro ⟨⟨h0, h1⟩, h2, h3⟩
      refine ⟨⟨h0, h2, by simp⟩, fun c hc => ⟨h1 c hc, h2, ?_⟩⟩
      intro c' hc'
      rw [List.mem_singleton.mp hc']
      exact h3 c hc
    · rintro ⟨⟨h0, h2, _⟩, h⟩
      exact ⟨⟨h0, fun c hc => (h c hc).1⟩, h2, fun c hc => (h c hc).2.2 c (by simp)⟩

/-- The same for two halves of a transfer: splitting a valid coin list changes nothing. -/
theorem split_transfer_independent (cfg : Cfg) (c₁ c₂ : Coins) (hs : Spec.DenomsAscending (c₁ ++ c₂)) :
    decide cfg (c₁ ++ c₂) = allow ↔ decide cfg c₁ = allow ∧ decide cfg c₂ = allow := by
  have hs' := hs
  unfold Spec.DenomsAscending at hs'
  rw [List.pairwise_append] at hs'
  rw [per_denom_independent cfg _ hs, per_denom_independent cfg c₁ hs'.1, per_denom_independent cfg c₂ hs'.2.1]
  simp only [List.mem_append]
  constructor
  · rintro ⟨h0, h⟩
    exact ⟨⟨h0, fun c hc => h c (Or.inl hc)⟩, h0, fun c hc => h c (Or.inr hc)⟩
  · rintro ⟨⟨h0, h1⟩, _, h2⟩
    exact ⟨h0, fun c hc => hc.elim (h1 c) (h2 c)⟩

/-! ### Only deposit, withdraw and transfer rights are looked at (force-transfer is not) -/

/-- **Only deposit, withdraw and transfer rights matter**: rewriting the permission lists of any
grants of any markers in a way that keeps those three rights leaves every decision unchanged. -/
theorem only_deposit_withdraw_transfer_matter {f} (hf : KeepsRelevant f) (cfg : Cfg) (amt : Coins) :
    decide (mapPermsCfg f cfg) amt = decide cfg amt := by
  unfold MkrSend.decide sendRestrictionFn
  have hbp : onBypassPath (mapPermsCfg f cfg) = onBypassPath cfg := rfl
  have hto : (mapPermsCfg f cfg).toAddr = cfg.toAddr := rfl
  have hfc : (mapPermsCfg f cfg).feeCollectorAddr = cfg.feeCollectorAddr := rfl
  rw [hbp, hto, hfc, checkFromMarker_mapPerms hf, getMarkerIgnoreErr_mapPerms]
  have h1 : bypassFeeCollectorDenom (mapPermsCfg f cfg) = bypassFeeCollectorDenom cfg :=
    funext (bypassDenom_mapPerms f cfg)
  have h2 : validateSendDenom (mapPermsCfg f cfg) ((getMarkerIgnoreErr cfg cfg.toAddr).map (mapPermsMarker f))
      = validateSendDenom cfg (getMarkerIgnoreErr cfg cfg.toAddr) :=
    funext (validateSendDenom_mapPerms hf cfg _)
  simp only [checkToMarker_mapPerms hf, h1, h2]

/-- **The force-transfer right is irrelevant to the send restriction**: granting it to everybody or
revoking it from everybody changes no decision ("`force_transfer` access is not considered at all in
the `SendRestrictionFn`"). -/
theorem forceTransfer_right_irrelevant (cfg : Cfg) (amt : Coins) :
    decide (mapPermsCfg (fun _ _ l => Access.forceTransfer :: l) cfg) amt = decide cfg amt ∧
    decide (mapPermsCfg (fun _ _ l => l.filter (· ≠ Access.forceTransfer)) cfg) amt = decide cfg amt := by
  constructor
  · apply only_deposit_withdraw_transfer_matter
    intro d a l r hr
    rcases hr with rfl | rfl | rfl <;> simp
  · apply only_deposit_withdraw_transfer_matter
    intro d a l r hr
    rcases hr with rfl | rfl | rfl <;> simp

/-- `sdk.Coins.Find` (a binary search) is a plain lookup on valid coins — the only place where the
restriction depends on the order of the coin list. -/
theorem coinsFind_is_lookup_on_valid_coins (cs : Coins) (h : Spec.DenomsAscending cs) (d : Denom) :
    find cs d = cs.lookup d := find_eq_lookup _ cs rfl h d

/-! ### Required-attribute matching -/

/-- **Wildcard**: `*.x` is matched by exactly the names `p ++ ".x"`. -/
theorem matchAttribute_wildcard (x a : Name) :
    matchAttribute ('*' :: '.' :: x) a = true ↔ ∃ p, a = p ++ '.' :: x := by
  rw [matchAttribute_eq]
  simp only [Spec.satisfies, List.isSuffixOf_iff_suffix]
  constructor
  · rintro ⟨p, hp⟩; exact ⟨p, hp.symm⟩
  · rintro ⟨p, hp⟩; exact ⟨p, hp.symm⟩

/-- For a name that does not itself start with a dot (every normalised name), the matched prefix `p`
is non-empty: `*.x` matches `p.x` with `p ≠ ""`, and does not match `x` itself. -/
theorem matchAttribute_wildcard_proper (x a : Name) (ha : a.head? ≠ some '.') :
    matchAttribute ('*' :: '.' :: x) a = true ↔ ∃ p, p ≠ [] ∧ a = p ++ '.' :: x := by
  rw [matchAttribute_wildcard]
  constructor
  · rintro ⟨p, hp⟩
    refine ⟨p, ?_, hp⟩
    rintro rfl
    rw [hp] at ha; simp at ha
  · rintro ⟨p, _, hp⟩; exact ⟨p, hp⟩

/-- **Exact**: a required name that is not of the form `*.…` is matched by that very name only;
the empty requirement by nothing. -/
theorem matchAttribute_exact (r a : Name) (hr : r ≠ []) (hw : ∀ x, r ≠ '*' :: '.' :: x) :
    matchAttribute r a = true ↔ r = a := by
  rw [matchAttribute_eq]
  unfold Spec.satisfies
  split
  · exact absurd rfl hr
  · rename_i rest; exact absurd rfl (hw rest)
  · simp

theorem matchAttribute_empty (a : Name) : matchAttribute [] a = false := by
  simp [matchAttribute]

/-- The receiver passes the attribute check exactly when every required name is matched by one of
its attributes. -/
theorem findMissing_nil_iff (required attributes : List Name) :
    findMissingAttributes required attributes = [] ↔
      ∀ r ∈ required, ∃ a ∈ attributes, matchAttribute r a = true := by
  unfold findMissingAttributes
  rw [List.filter_eq_nil_iff]
  simp

/-- Which requirements are missing depends only on WHICH names the receiver holds, not on how many
attribute records it holds under a name (several values under one name, any order): two attribute lists
with the same members leave the same requirements unsatisfied. -/
theorem findMissing_depends_on_names_held_only (required as bs : List Name)
    (h : ∀ a, a ∈ as ↔ a ∈ bs) :
    findMissingAttributes required as = findMissingAttributes required bs := by
  unfold findMissingAttributes
  congr 1
  funext req
  congr 1
  rw [Bool.eq_iff_iff, List.any_eq_true, List.any_eq_true]
  constructor
  · rintro ⟨a, ha, hm⟩; exact ⟨a, (h a).1 ha, hm⟩
  · rintro ⟨a, ha, hm⟩; exact ⟨a, (h a).2 ha, hm⟩

/-- Holding one name several times satisfies one requirement, not several: a further record under a
name the receiver already holds changes nothing. -/
theorem repeated_attribute_record_counts_once (required attrs : List Name) (a : Name) (ha : a ∈ attrs) :
    findMissingAttributes required (a :: attrs) = findMissingAttributes required attrs :=
  findMissing_depends_on_names_held_only required _ _ (fun b => by
    constructor
    · intro hb
      rcases List.mem_cons.1 hb with rfl | hb
      · exact ha
      · exact hb
    · exact fun hb => List.mem_cons_of_mem _ hb)

example : findMissingAttributes ["kyc.pb".toList, "*.acme.pb".toList] ["kyc.pb".toList, "kyc.pb".toList]
    = ["*.acme.pb".toList] := by decide

/-! ### The everyday cases, spelled out -/

/-- An ordinary send (no bypass, no transfer agents, neither end a marker account) of one coin of an
active restricted marker is allowed exactly when the receiver is not the fee collector, the sender is
not on the deny list, and: the sender has transfer, or — no required attributes — the sender is a
bypass account, or — required attributes — the receiver is a bypass account or holds them all. -/
theorem ordinary_restricted_send_iff (cfg : Cfg) (d : Denom) (a : Int) (m : Marker)
    (hb : onBypassPath cfg = false) (hnoag : cfg.agents = [])
    (hfrom : Spec.markerAt cfg cfg.fromAddr = none) (hto : Spec.markerAt cfg cfg.toAddr = none)
    (hm : cfg.acct (cfg.markerAddr d) = Acct.marker m)
    (hr : m.mtype = MType.restricted) (hact : m.status = MStatus.active) :
    decide cfg [(d, a)] = allow ↔
      cfg.toAddr ≠ cfg.feeCollectorAddr ∧ cfg.fromAddr ∉ m.deny ∧
      (Spec.hasAccess m cfg.fromAddr .transfer = true ∨
       (m.reqAttrs = [] ∧ cfg.fromAddr ∈ cfg.reqAttrBypass) ∨
       (m.reqAttrs ≠ [] ∧ (cfg.toAddr ∈ cfg.reqAttrBypass ∨
          Spec.hasRequiredAttributes cfg m cfg.toAddr = true))) := by
  rw [permitted_iff_rules_permit cfg _ (ascending_singleton _)]
  have hq : Spec.qhasbp cfg = false := by rw [← onBypassPath_eq]; exact hb
  have hmo : Spec.markerOf cfg d = some m := by simp [Spec.markerOf, Spec.markerAt, hm]
  simp only [Spec.permitted, Spec.sendRestrictionFn, hq, Spec.checkSenderMarker, Spec.csm_issm, hfrom,
    Spec.checkReceiverMarker, Spec.crm_issm, hto, Spec.denomLoop, Spec.validateSendDenom, Spec.vsd_isdm, hmo,
    Spec.vsd_isma, hact, Spec.vsd_qisrc, hr, Spec.vsd_qistofc, Spec.vsd_ista, hnoag, Spec.vsd_qisdeny,
    Spec.vsd_qhastrans, Spec.vsd_qisdep, Spec.vsd_qmhasattr, Spec.vsd_qissbp, Spec.vsd_qisrbp,
    Spec.vsd_qrhasattr]
  by_cases h3 : cfg.toAddr = cfg.feeCollectorAddr
  · simp [h3, Spec.Flow.isOk]
  by_cases h5 : cfg.fromAddr ∈ m.deny
  · simp [h3, h5, Spec.Flow.isOk]
  by_cases h6 : Spec.hasAccess m cfg.fromAddr Access.transfer = true
  · simp [h3, h5, h6, Spec.Flow.isOk]
  by_cases h8 : m.reqAttrs = []
  · by_cases h9 : cfg.fromAddr ∈ cfg.reqAttrBypass <;> simp [h3, h5, h6, h8, h9, Spec.Flow.isOk]
  by_cases h10 : cfg.toAddr ∈ cfg.reqAttrBypass
  · simp [h3, h5, h6, h8, h10, Spec.Flow.isOk]
  by_cases h11 : Spec.hasRequiredAttributes cfg m cfg.toAddr = true
  · simp [h3, h5, h6, h8, h10, h11, Spec.Flow.isOk]
  · simp [h3, h5, h6, h8, h10, h11, Spec.Flow.isOk]

/-- Coins without a marker (an ordinary account at the denom's marker address does not make one), or of
an active unrestricted marker, move freely between accounts that are not markers — whatever the flags,
agents, attributes, deny lists. -/
theorem unrestricted_coins_move_freely (cfg : Cfg) (amt : Coins)
    (hfrom : Spec.markerAt cfg cfg.fromAddr = none) (hto : Spec.markerAt cfg cfg.toAddr = none)
    (hcoins : ∀ c ∈ amt, cfg.acct (cfg.markerAddr c.1) = Acct.none ∨
      cfg.acct (cfg.markerAddr c.1) = Acct.other ∨
      ∃ m, cfg.acct (cfg.markerAddr c.1) = Acct.marker m ∧ m.mtype = MType.coin ∧ m.status = MStatus.active) :
    decide cfg amt = allow := by
  by_cases hb : onBypassPath cfg = true
  · unfold MkrSend.decide sendRestrictionFn
    simp only [hb, if_true]
    by_cases hfc : cfg.toAddr = cfg.feeCollectorAddr
    · simp only [hfc, if_true]
      rw [forCoins_allow_iff]
      intro c hc
      rcases hcoins c hc with h | h | ⟨m, h, hty, _⟩
      · exact (bypassDenom_none h).1
      · exact (bypassDenom_other h).1
      · rw [(bypassDenom_marker h).1]; simp [hty]
    · simp [hfc]
  · have hb' : onBypassPath cfg = false := by simpa using hb
    rw [nonBypass_allow_iff cfg amt hb']
    have h1 : getMarkerIgnoreErr cfg cfg.fromAddr = none := by rw [getMarkerIgnoreErr_eq]; exact hfrom
    have h2 : getMarkerIgnoreErr cfg cfg.toAddr = none := by rw [getMarkerIgnoreErr_eq]; exact hto
    refine ⟨by simp [checkFromMarker, h1], by simp [checkToMarker, h2], ?_⟩
    rw [forCoins_allow_iff]
    intro c hc
    rcases hcoins c hc with h | h | ⟨m, h, hty, hst⟩
    · exact validateSendDenom_none h
    · exact validateSendDenom_other h
    · simp [validateSendDenom, validateSendDenomMarker, getMarkerIgnoreErr, getMarker, h, hty, hst]

/-- The bypass path (context bypass, or the marker module / ibc transfer account as sender) lets
everything through, except towards the fee collector, where every coin must be free of a
restricted marker. -/
theorem bypass_path_allow_iff (cfg : Cfg) (amt : Coins) (hb : onBypassPath cfg = true) :
    decide cfg amt = allow ↔
      (cfg.toAddr = cfg.feeCollectorAddr →
        ∀ c ∈ amt, Spec.isRestrictedCoin cfg c.1 = false) := by
  unfold MkrSend.decide sendRestrictionFn
  simp only [hb, if_true]
  by_cases hfc : cfg.toAddr = cfg.feeCollectorAddr
  · simp only [hfc, if_true, forCoins_allow_iff, true_implies]
    refine forall_congr' fun c => forall_congr' fun _ => ?_
    rcases hacct : cfg.acct (cfg.markerAddr c.1) with _ | _ | m
    · simp [(bypassDenom_none hacct).1, (bypassDenom_none hacct).2]
    · simp [(bypassDenom_other hacct).1, (bypassDenom_other hacct).2]
    · rw [(bypassDenom_marker hacct).1, (bypassDenom_marker hacct).2]
      by_cases hr : m.mtype = MType.restricted <;> simp [hr, allow, deny]
  · simp [hfc]

/-! ### History: a foreign account at a denom's marker address (fixed by ed45788f3) -/

/-- A plain send of a denom that has no marker, between two ordinary accounts, while somebody has
put an ordinary account at the address a marker for that denom would have. -/
def squatCfg : Cfg :=
  { bypass := false, feeGrant := false, fromAddr := "A", toAddr := "B", agents := [],
    acct := fun a => if a = "mk:dna" then .other else .none,
    markerAddr := fun d => "mk:" ++ d, attrs := fun _ => [],
    markerModuleAddr := "mod:marker", ibcTransferModuleAddr := "mod:transfer", feeCollectorAddr := "fc",
    reqAttrBypass := Spec.bypassAccounts }

/-- The witness of finding `C04-denom-address-squat` (kept in corpus/C04 and replayed on every run):
the rules permit the movement ("Is there a marker for Denom? — no → allowed"); the code **before
ed45788f3** (`decidePreFix`) refused it, so for that code `decide_eq_spec` was false; the current code
allows it. -/
theorem squatted_denom_denied_but_rules_allow_before_fix :
    Spec.DenomsAscending [("dna", (5 : Int))] ∧
    Spec.permitted squatCfg [("dna", 5)] = true ∧
    decidePreFix squatCfg [("dna", 5)] = deny .notMarker ∧
    Spec.decisionFlow (decidePreFix squatCfg [("dna", 5)]) ≠ Spec.sendRestrictionFn squatCfg [("dna", 5)] ∧
    decide squatCfg [("dna", 5)] = allow :=
  ⟨by decide, by decide, by rfl, by decide, by rfl⟩

/-- That was the only difference: wherever no coin's marker address holds a foreign account, the code
before ed45788f3 decided exactly as the current code does. -/
theorem preFix_agrees_outside_squat (cfg : Cfg) (amt : Coins)
    (hn : Spec.NoForeignAccountAtDenomAddr cfg amt) : decidePreFix cfg amt = decide cfg amt := by
  unfold decidePreFix sendRestrictionFnPreFix MkrSend.decide sendRestrictionFn
  have h1 := forCoins_congr (bypassFeeCollectorDenomPreFix cfg) (bypassFeeCollectorDenom cfg) amt
    fun c hc => bypassDenomPreFix_eq (hn c hc)
  have h2 := forCoins_congr (validateSendDenomPreFix cfg (getMarkerIgnoreErr cfg cfg.toAddr))
    (validateSendDenom cfg (getMarkerIgnoreErr cfg cfg.toAddr)) amt
    fun c hc => validateSendDenomPreFix_eq (hn c hc)
  simp only [h1, h2]

/-! ### Non-vacuity: concrete configurations meeting the hypotheses above -/

def exAcct (a : Addr) : Acct :=
  if a = "mk:rs" then
    .marker { denom := "rs", mtype := .restricted, status := .active,
              access := [⟨"A", [.transfer, .deposit]⟩, ⟨"G", [.withdraw, .deposit, .forceTransfer]⟩],
              reqAttrs := [['*', '.', 'k']], deny := ["D"] }
  else if a = "mk:cn" then
    .marker { denom := "cn", mtype := .coin, status := .active, access := [⟨"G", [.withdraw]⟩],
              reqAttrs := [], deny := [] }
  else .none

def exCfg (from_ to : Addr) (agents : List Addr) (toAttrs : List Name) : Cfg :=
  { bypass := false, feeGrant := false, fromAddr := from_, toAddr := to, agents := agents,
    acct := exAcct, markerAddr := fun d => "mk:" ++ d, attrs := fun a => if a = to then toAttrs else [],
    markerModuleAddr := "mod:marker", ibcTransferModuleAddr := "mod:transfer", feeCollectorAddr := "fc",
    reqAttrBypass := Spec.bypassAccounts }

/-- decide_eq_spec / per_denom_independent: two denoms (one restricted, one without marker), sender with transfer. -/
example : Spec.DenomsAscending [("rs", (1 : Int)), ("usd", 2)] ∧
    decide (exCfg "A" "B" [] []) [("rs", 1), ("usd", 2)] = allow :=
  ⟨by decide, by rfl⟩

/-- leaving_marker_needs_withdraw_or_feegrant: an agent with withdraw takes unrelated coins out of a marker. -/
example : (∃ m, (exCfg "mk:cn" "B" ["G"] []).acct (exCfg "mk:cn" "B" ["G"] []).fromAddr = Acct.marker m) ∧
    onBypassPath (exCfg "mk:cn" "B" ["G"] []) = false ∧
    decide (exCfg "mk:cn" "B" ["G"] []) [("cn", 3), ("usd", 2)] = allow :=
  ⟨⟨_, rfl⟩, by decide, by rfl⟩

/-- … and without the agent the same movement is refused. -/
example : decide (exCfg "mk:cn" "B" [] []) [("usd", 2)] = deny .withdrawNoAgent := by rfl

/-- deposit_into_restricted_needs_deposit: the sender holds deposit (and transfer) on the restricted marker. -/
example : decide (exCfg "A" "mk:rs" [] []) [("rs", 1), ("usd", 2)] = allow ∧
    decide (exCfg "C" "mk:rs" [] []) [("usd", 2)] = deny .depositSender :=
  ⟨by rfl, by rfl⟩

/-- restricted_never_reaches_feeCollector: the hypotheses are met by a sender that has transfer. -/
example : Spec.isRestrictedCoin (exCfg "A" "fc" [] []) "rs" = true ∧
    decide (exCfg "A" "fc" [] []) [("rs", 1)] = deny .fc ∧
    decide { exCfg "A" "fc" [] [] with bypass := true } [("rs", 1)] = deny .fcBypass :=
  ⟨by decide, by rfl, by rfl⟩

/-- ordinary_restricted_send_iff / wildcard attributes: receiver `B` holds `x.k`, which satisfies `*.k`;
holding just `k` does not. -/
example : decide (exCfg "C" "B" [] [['x', '.', 'k']]) [("rs", 1)] = allow ∧
    decide (exCfg "C" "B" [] [['k']]) [("rs", 1)] = deny .attrs ∧
    decide (exCfg "D" "B" [] [['x', '.', 'k']]) [("rs", 1)] = deny .denyList :=
  ⟨by rfl, by rfl, by rfl⟩

/-! ### What the bypass path suspends, and what it does not (all senders, all flags) -/

/-- **On the bypass path** (context bypass, or the marker module / ibc transfer account as sender)
**exactly one rule stays in force — the fee collector rule**; every other rule (withdraw authority,
inactive marker keeps its own coins, deposit authority, transfer authority, deny list, required
attributes, marker status) is suspended: any movement not addressed to the fee collector is allowed, and
one addressed to it is allowed exactly when no coin is restricted. -/
theorem bypass_suspends_all_but_feeCollector_rule (cfg : Cfg) (amt : Coins) (hb : onBypassPath cfg = true) :
    (cfg.toAddr ≠ cfg.feeCollectorAddr → decide cfg amt = allow) ∧
    (cfg.toAddr = cfg.feeCollectorAddr →
      (decide cfg amt = allow ↔ ∀ c ∈ amt, Spec.isRestrictedCoin cfg c.1 = false)) := by
  have h := bypass_path_allow_iff cfg amt hb
  exact ⟨fun hne => h.mpr fun he => absurd he hne, fun he => by rw [h]; simp [he]⟩

/-- The withdraw rule for EVERY sender kind and flag combination: coins leave a marker account only on
the bypass path, with a fee grant in use, or with a transfer agent holding withdraw. -/
theorem leaving_marker_rule_all_paths (cfg : Cfg) (amt : Coins) (m : Marker)
    (hm : cfg.acct cfg.fromAddr = Acct.marker m) (ha : decide cfg amt = allow) :
    onBypassPath cfg = true ∨ cfg.feeGrant = true ∨ ∃ a ∈ cfg.agents, Spec.hasAccess m a .withdraw = true := by
  by_cases hb : onBypassPath cfg = true
  · exact Or.inl hb
  · exact Or.inr (leaving_marker_needs_withdraw_or_feegrant cfg amt m hm (by simpa using hb) ha)

/-- The deposit rule for every sender kind and flag combination. -/
theorem deposit_rule_all_paths (cfg : Cfg) (amt : Coins) (m : Marker)
    (hm : cfg.acct cfg.toAddr = Acct.marker m) (hr : m.mtype = MType.restricted)
    (ha : decide cfg amt = allow) :
    onBypassPath cfg = true ∨
    (cfg.agents = [] ∧ Spec.hasAccess m cfg.fromAddr .deposit = true) ∨
    (∃ a ∈ cfg.agents, Spec.hasAccess m a .deposit = true) := by
  by_cases hb : onBypassPath cfg = true
  · exact Or.inl hb
  · exact Or.inr (deposit_into_restricted_needs_deposit cfg amt m hm hr (by simpa using hb) ha)

/-- The transfer-into-a-marker rule for every sender kind and flag combination. -/
theorem restricted_coin_into_marker_rule_all_paths (cfg : Cfg) (amt : Coins) (tm mc : Marker)
    (c : Denom × Int) (hc : c ∈ amt)
    (htm : cfg.acct cfg.toAddr = Acct.marker tm)
    (hmc : cfg.acct (cfg.markerAddr c.1) = Acct.marker mc) (hr : mc.mtype = MType.restricted)
    (ha : decide cfg amt = allow) :
    onBypassPath cfg = true ∨
    (∃ a ∈ cfg.agents, Spec.hasAccess mc a .transfer = true) ∨
    (cfg.fromAddr ∉ mc.deny ∧ Spec.hasAccess mc cfg.fromAddr .transfer = true) := by
  by_cases hb : onBypassPath cfg = true
  · exact Or.inl hb
  · exact Or.inr (restricted_coin_into_marker_needs_transfer cfg amt tm mc c hc htm hmc hr (by simpa using hb) ha)

/-- The bypass disjunct above is not an artefact: on the bypass path all three rules ARE suspended at
once — a restricted coin leaves a marker account nobody may withdraw from (no agent, no fee grant) and
enters a restricted marker account where the sender has neither deposit nor transfer rights; with the
context flag as well as with the marker module or the ibc transfer account as the sender (then the
sender is not a marker; deposit and transfer rules are suspended).  The callers of the bypass (marker
module Withdraw / Transfer / IBC) check authority themselves — outside this model. -/
theorem bypass_really_suspends_withdraw_deposit_transfer_rules :
    let cfg : Cfg := { exCfg "mk:cn" "mk:rs" [] [] with bypass := true }
    (∃ m, cfg.acct cfg.fromAddr = Acct.marker m ∧ ∀ a, Spec.hasAccess m a .withdraw = true → a = "G") ∧
    cfg.feeGrant = false ∧ cfg.agents = [] ∧
    (∃ tm, cfg.acct cfg.toAddr = Acct.marker tm ∧ tm.mtype = .restricted ∧
      Spec.hasAccess tm cfg.fromAddr .deposit = false ∧ Spec.hasAccess tm cfg.fromAddr .transfer = false) ∧
    decide cfg [("rs", 1)] = allow ∧
    decide (exCfg "mod:marker" "mk:rs" [] []) [("rs", 1)] = allow ∧
    decide (exCfg "mod:transfer" "mk:rs" [] []) [("rs", 1)] = allow ∧
    decide (exCfg "mk:cn" "mk:rs" [] []) [("rs", 1)] = deny .withdrawNoAgent := by
  refine ⟨⟨_, rfl, ?_⟩, rfl, rfl, ⟨_, rfl, rfl, by decide, by decide⟩, by rfl, by rfl, by rfl, by rfl⟩
  intro a h
  simp [Spec.hasAccess] at h
  exact h.2.symm

/-! ### The bypass accounts are the fixed set -/

/-- The configuration the app runs with: `k.reqAttrBypassAddrs` is the fixed list of app/app.go:564-571
(fee collector, quarantine, gov, distribution, bonded and not-bonded pools).  The correspondence driver
builds every configuration with it (`parseCase_uses_fixed_bypass_set`) and the `bypasslist` op compares
the set the real app hands to the marker keeper with it on every run. -/
def AppBypassSet (cfg : Cfg) : Prop := cfg.reqAttrBypass = Spec.bypassAccounts

theorem bypassAddr_iff_fixed_account (cfg : Cfg) (h : AppBypassSet cfg) (a : Addr) :
    isReqAttrBypassAddr cfg a = true ↔
      a = "fc" ∨ a = "bp:quarantine" ∨ a = "bp:gov" ∨ a = "bp:distribution" ∨ a = "bp:bonded" ∨
      a = "bp:notbonded" := by
  unfold isReqAttrBypassAddr
  rw [h]
  simp only [Spec.bypassAccounts, List.contains_iff_mem, List.mem_cons, List.not_mem_nil, or_false]
  constructor
  · rintro (h | h | h | h | h | h) <;> simp [h]
  · rintro (h | h | h | h | h | h) <;> simp [h]

/-- With the app's bypass set the attribute-bypass privilege belongs to the six fixed module accounts
and nobody else: an ordinary send of an active restricted coin by a sender WITHOUT transfer rights is
allowed exactly when the sender is not on the deny list, the receiver is not the fee collector, and —
no required attributes — the sender is one of the six, or — required attributes — the receiver is one of
the six (the fee collector being excluded above) or holds them all. -/
theorem attribute_bypass_only_for_the_fixed_accounts (cfg : Cfg) (happ : AppBypassSet cfg)
    (d : Denom) (a : Int) (m : Marker)
    (hb : onBypassPath cfg = false) (hnoag : cfg.agents = [])
    (hfrom : Spec.markerAt cfg cfg.fromAddr = none) (hto : Spec.markerAt cfg cfg.toAddr = none)
    (hm : cfg.acct (cfg.markerAddr d) = Acct.marker m)
    (hr : m.mtype = MType.restricted) (hact : m.status = MStatus.active)
    (hnt : Spec.hasAccess m cfg.fromAddr .transfer = false) :
    decide cfg [(d, a)] = allow ↔
      cfg.toAddr ≠ cfg.feeCollectorAddr ∧ cfg.fromAddr ∉ m.deny ∧
      ((m.reqAttrs = [] ∧ cfg.fromAddr ∈ Spec.bypassAccounts) ∨
       (m.reqAttrs ≠ [] ∧ (cfg.toAddr ∈ Spec.bypassAccounts ∨
          Spec.hasRequiredAttributes cfg m cfg.toAddr = true))) := by
  rw [ordinary_restricted_send_iff cfg d a m hb hnoag hfrom hto hm hr hact, happ]
  simp [hnt]

/-- Every configuration the correspondence driver evaluates carries the fixed bypass set. -/
example : AppBypassSet (exCfg "bp:gov" "B" [] []) ∧
    decide (exCfg "bp:gov" "B" [] []) [("rs", 1)] = deny .attrs ∧
    decide (exCfg "C" "bp:gov" [] []) [("rs", 1)] = allow :=
  ⟨rfl, by rfl, by rfl⟩

end PvProofs.C04
