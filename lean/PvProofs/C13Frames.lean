/-
C13 — frames: what an accepted cancel / settle / set-external-id / payment retarget / payment
accept / payment reject does to the RECORDS.  Each theorem is for every store satisfying the index
invariant and every argument of the handler: the record(s) the message is about change as stated,
every other order record, every payment record and every commitment record is what it was.

One clause asked of `settle_frame` does not follow from `IndexInv` alone (the part of an order left
by a partial fill is strictly smaller only if the order that was filled has a non-zero amount — which
`IndexInv` does not say).  `settle_frame_partial` is what holds for every `IndexInv` store, with the
EXACT amounts of the part left; `settle_frame` carries the extra hypothesis `AmtPos` (every stored order
has a non-zero asset amount), which holds after every history (`amtPos_all_histories`);
`settle_left_not_smaller_without_amtPos` is the counter-example without it.
-/
import PvProofs.C13

namespace PvProofs.C13
open PvModel.Exrec PvProofs.Exrec

/-! ### cancel -/

/-- **An accepted cancellation removes one order record and touches no other record.** -/
theorem cancelOrder_frame {s s' : Store} (hinv : IndexInv s) {id : UInt64} {signer : Bytes} {up : Bool}
    (h : cancelOrder s id signer up = some s') :
    (∃ o, s.get (keyOrder id) = some (.order o)) ∧
    s'.get (keyOrder id) = none ∧
    (∀ id', id' ≠ id → s'.get (keyOrder id') = s.get (keyOrder id')) ∧
    (∀ src e, s'.get (keyPayment src e) = s.get (keyPayment src e)) ∧
    (∀ m a, s'.get (keyCommitment m a) = s.get (keyCommitment m a)) := by
  have hh := (indexInvF_iff.mp hinv).1
  have ht := touches_cancelOrder h
  obtain ⟨o, ho, rfl⟩ := cancelOrder_eq h
  obtain ⟨hrec, hid⟩ := getOrderFromStore_eq hh ho
  subst hid
  refine ⟨⟨o, hrec⟩, ?_, fun id' hne => get_keyOrder_delete_ne hne,
    fun src e => ht.eq_of_head (head_keyPayment src e) (by simp [orderHeads]),
    fun m a => ht.eq_of_head (head_keyCommitment m a) (by simp [orderHeads])⟩
  rw [get_deleteAndDeIndexOrder, if_pos (Or.inl rfl)]

/-- non-vacuity: two orders, a payment and a commitment; the owner cancels order 1 -/
example :
    let s := (run init [.mkMarket 0 "m",
      .create ⟨0, false, 1, [65], [97, 112, 112], 6, [117], 12, [120], true, false⟩,
      .create ⟨0, true, 1, [66], [97, 112, 112], 2, [117], 6, [121], true, false⟩,
      .pay ⟨[65], 3, [66], 0, [], false, false⟩, .commit 1 [65] 5]).kv
    (cancelOrder s 1 [65] false).isSome = true ∧ (cancelOrder s 2 admin false).isSome = true ∧
    (getOrderFromStore s 1).isSome = true ∧ (getPaymentFromStore s [65] []).isSome = true ∧
    getCommitmentAmount s 1 [65] = 5 := by decide

/-! ### external id change -/

/-- **An accepted external-id change rewrites the `ext` field of one order record and touches no other
record.** -/
theorem setOrderExternalID_frame {s s' : Store} (hinv : IndexInv s) {m : UInt32} {id : UInt64} {x signer : Bytes}
    (h : setOrderExternalID s m id x signer = some s') :
    (∃ o, s.get (keyOrder id) = some (.order o) ∧ o.market = m ∧ o.ext ≠ x ∧
      s'.get (keyOrder id) = some (.order { o with ext := x })) ∧
    (∀ id', id' ≠ id → s'.get (keyOrder id') = s.get (keyOrder id')) ∧
    (∀ src e, s'.get (keyPayment src e) = s.get (keyPayment src e)) ∧
    (∀ m' a, s'.get (keyCommitment m' a) = s.get (keyCommitment m' a)) := by
  have hh := (indexInvF_iff.mp hinv).1
  have ht := touches_setOrderExternalID h
  have hmk : ∀ o, getOrderFromStore s id = some o → o.market = m := by
    intro o ho
    unfold setOrderExternalID at h
    split_ifs at h
    rw [ho] at h
    simp only at h
    split_ifs at h with h1 <;> exact (not_not.mp h1).symm
  obtain ⟨o, ho, hx, hset⟩ := setOrderExternalID_eq h
  have hm := hmk o ho
  obtain ⟨hrec, hid⟩ := getOrderFromStore_eq hh ho
  subst hid
  have hs1 : ∀ k, k.head? ≠ some 9 →
      (if o.ext ≠ [] then s.del (idxMarketExternalIDToOrder o.market o.ext) else s).get k = s.get k := by
    intro k hk
    split_ifs with he
    · rw [get_del, if_neg]
      rintro rfl; exact hk rfl
    · rfl
  have hrec1 : (if o.ext ≠ [] then s.del (idxMarketExternalIDToOrder o.market o.ext) else s).get (keyOrder o.id) =
      some (.order o) := by rw [hs1 (keyOrder o.id) (by simp)]; exact hrec
  obtain ⟨_, hg⟩ := setOrderInStore_update (o := { o with ext := x }) hrec1 hset
  have hgo : ∀ i, s'.get (keyOrder i) =
      if i = o.id then some (.order { o with ext := x }) else s.get (keyOrder i) := by
    intro i
    rw [hg, if_neg (by rintro ⟨_, hk⟩; simp [keyOrder, idxMarketExternalIDToOrder] at hk)]
    by_cases hi : i = o.id
    · rw [if_pos (by rw [hi]), if_pos hi]
    · rw [if_neg (by simpa using hi), if_neg hi]
      exact hs1 (keyOrder i) (by simp)
  refine ⟨⟨o, hrec, hm, hx, ?_⟩, fun id' hne => ?_,
    fun src e => ht.eq_of_head (head_keyPayment src e) (by simp [orderHeads]),
    fun m' a => ht.eq_of_head (head_keyCommitment m' a) (by simp [orderHeads])⟩
  · rw [hgo, if_pos rfl]
  · rw [hgo, if_neg hne]

/-- non-vacuity: the external id of order 1 goes from `x` to `z`, and from `y` to none for order 2 -/
example :
    let s := (run init [.mkMarket 0 "m",
      .create ⟨0, false, 1, [65], [97, 112, 112], 6, [117], 12, [120], true, false⟩,
      .create ⟨0, true, 1, [66], [97, 112, 112], 2, [117], 6, [121], true, false⟩,
      .pay ⟨[65], 3, [66], 0, [], false, false⟩, .commit 1 [65] 5]).kv
    (setOrderExternalID s 1 1 [122] admin).isSome = true ∧ (setOrderExternalID s 1 2 [] admin).isSome = true ∧
    setOrderExternalID s 1 1 [121] admin = none := by decide

/-! ### settlement -/

/-- the guards of an accepted settlement and its two shapes -/
theorem settle_shape {s s' : Store} {m : UInt32} {a b : UInt64} {ep : Bool} {signer : Bytes}
    (h : settle s m a b ep signer = some s') :
    a ≠ b ∧ ∃ oa ob, getOrderFromStore s a = some oa ∧ getOrderFromStore s b = some ob ∧
      oa.isBid = false ∧ ob.isBid = true ∧ oa.market = m ∧ ob.market = m ∧
      ((settleDecide oa ob ep = some none ∧ s' = deleteAndDeIndexOrder (deleteAndDeIndexOrder s oa) ob) ∨
       (∃ l f, settleDecide oa ob ep = some (some (l, f)) ∧ settlePartial s l f = some s')) := by
  unfold settle at h
  split_ifs at h with h0 h1 h2
  have hab : a ≠ b := fun e => h0 (Or.inr (Or.inr (Or.inr e)))
  refine ⟨hab, ?_⟩
  split at h
  · next oa ob hoa hob =>
    split_ifs at h with h3
    have hg : oa.isBid = false ∧ ob.isBid = true ∧ oa.market = m ∧ ob.market = m := by
      refine ⟨?_, ?_, ?_, ?_⟩
      · cases hb : oa.isBid with
        | false => rfl
        | true => exact absurd (Or.inl hb) h3
      · cases hb : ob.isBid with
        | true => rfl
        | false => exact absurd (Or.inr (Or.inl (by simp [hb]))) h3
      · by_contra hc; exact h3 (Or.inr (Or.inr (Or.inl hc)))
      · by_contra hc; exact h3 (Or.inr (Or.inr (Or.inr hc)))
    refine ⟨oa, ob, hoa, hob, hg.1, hg.2.1, hg.2.2.1, hg.2.2.2, ?_⟩
    split at h
    · cases h
    · next hd => cases h; exact Or.inl ⟨hd, rfl⟩
    · next l f hd => exact Or.inr ⟨l, f, hd, h⟩
  · cases h

/-- the part left by a partial fill, exactly: the larger order minus the amount of the smaller one -/
theorem settleDecide_left {a b l f : Order} {ep : Bool} (h : settleDecide a b ep = some (some (l, f))) :
    (f = b ∧ b.assetAmt < a.assetAmt ∧
      l = { a with assetAmt := a.assetAmt - b.assetAmt,
                   priceAmt := a.priceAmt - a.priceAmt * b.assetAmt / a.assetAmt }) ∨
    (f = a ∧ a.assetAmt < b.assetAmt ∧
      l = { b with assetAmt := b.assetAmt - a.assetAmt,
                   priceAmt := b.priceAmt - b.priceAmt * a.assetAmt / b.assetAmt }) := by
  unfold settleDecide at h
  dsimp only at h
  split_ifs at h with h1 h2 h3 h4 h5 h6 h7 <;>
    simp only [Option.some.injEq, Prod.mk.injEq, reduceCtorEq] at h
  · obtain ⟨rfl, rfl⟩ := h
    have hmin : min a.assetAmt b.assetAmt = b.assetAmt := by omega
    rw [hmin] at h2 ⊢
    exact Or.inl ⟨rfl, h2, rfl⟩
  · obtain ⟨rfl, rfl⟩ := h
    have hmin : min a.assetAmt b.assetAmt = a.assetAmt := by omega
    rw [hmin] at h5 ⊢
    exact Or.inr ⟨rfl, h5, rfl⟩

/-- **An accepted settlement of one ask with one bid** leaves every other order record, every payment
record and every commitment record as it was; of the two orders either both records are removed, or the
smaller one is removed and the larger one's record is rewritten with the amounts left — everything but
`assetAmt` and `priceAmt` is kept, `assetAmt` is the difference of the two amounts.

This is the frame at full strength for every store satisfying `IndexInv`.  What is NOT provable from
`IndexInv` alone is that the part left is STRICTLY smaller than the order it replaces: it is smaller by
the amount of the order that was filled, and `IndexInv` does not say that a stored order has a non-zero
amount.  Counter-example (a store that satisfies `IndexInv` but is not reachable through the messages,
which refuse a zero amount): an ask `1` of 6 and a bid `2` of 0 (price 0), both allowing partial fills;
`settle s m 1 2 true admin` is accepted, removes bid 2 and rewrites ask 1 with amount `6 - 0 = 6`
(theorem `settle_left_not_smaller_without_amtPos`).  `settle_frame` adds the hypothesis `AmtPos`. -/
theorem settle_frame_partial {s s' : Store} (hinv : IndexInv s) {m : UInt32} {a b : UInt64} {ep : Bool}
    {signer : Bytes} (h : settle s m a b ep signer = some s') :
    (∀ id', id' ≠ a → id' ≠ b → s'.get (keyOrder id') = s.get (keyOrder id')) ∧
    (∀ src e, s'.get (keyPayment src e) = s.get (keyPayment src e)) ∧
    (∀ m' c, s'.get (keyCommitment m' c) = s.get (keyCommitment m' c)) ∧
    ∃ oa ob, s.get (keyOrder a) = some (.order oa) ∧ s.get (keyOrder b) = some (.order ob) ∧
      oa.isBid = false ∧ ob.isBid = true ∧ oa.market = m ∧ ob.market = m ∧
      ((s'.get (keyOrder a) = none ∧ s'.get (keyOrder b) = none) ∨
       (s'.get (keyOrder b) = none ∧ ob.assetAmt < oa.assetAmt ∧
        s'.get (keyOrder a) = some (.order { oa with
          assetAmt := oa.assetAmt - ob.assetAmt,
          priceAmt := oa.priceAmt - oa.priceAmt * ob.assetAmt / oa.assetAmt })) ∨
       (s'.get (keyOrder a) = none ∧ oa.assetAmt < ob.assetAmt ∧
        s'.get (keyOrder b) = some (.order { ob with
          assetAmt := ob.assetAmt - oa.assetAmt,
          priceAmt := ob.priceAmt - ob.priceAmt * oa.assetAmt / ob.assetAmt }))) := by
  have hh := (indexInvF_iff.mp hinv).1
  have ht := touches_settle h
  obtain ⟨hab, oa, ob, hoa, hob, hba, hbb, hma, hmb, hc⟩ := settle_shape h
  obtain ⟨hra, hida⟩ := getOrderFromStore_eq hh hoa
  obtain ⟨hrb, hidb⟩ := getOrderFromStore_eq hh hob
  subst hida hidb
  have hgone : ∀ (t : Store) (o : Order), (deleteAndDeIndexOrder t o).get (keyOrder o.id) = none := by
    intro t o; rw [get_deleteAndDeIndexOrder, if_pos (Or.inl rfl)]
  refine ⟨?_, fun src e => ht.eq_of_head (head_keyPayment src e) (by simp [orderHeads]),
    fun m' c => ht.eq_of_head (head_keyCommitment m' c) (by simp [orderHeads]),
    oa, ob, hra, hrb, hba, hbb, hma, hmb, ?_⟩
  · -- the other orders
    intro i hia hib
    rcases hc with ⟨_, rfl⟩ | ⟨l, f, hd, hp⟩
    · rw [get_keyOrder_delete_ne hib, get_keyOrder_delete_ne hia]
    · obtain ⟨s1, hset, rfl⟩ := settlePartial_eq hp
      rcases settleDecide_left hd with ⟨rfl, _, rfl⟩ | ⟨rfl, _, rfl⟩
      · rw [get_keyOrder_delete_ne hib, update_get hinv hra (by rfl) (by rfl) (by rfl) hset,
          if_neg (by simpa using hia)]
      · rw [get_keyOrder_delete_ne hia, update_get hinv hrb (by rfl) (by rfl) (by rfl) hset,
          if_neg (by simpa using hib)]
  · rcases hc with ⟨_, rfl⟩ | ⟨l, f, hd, hp⟩
    · refine Or.inl ⟨?_, hgone _ _⟩
      rw [get_keyOrder_delete_ne hab, hgone]
    · obtain ⟨s1, hset, rfl⟩ := settlePartial_eq hp
      rcases settleDecide_left hd with ⟨rfl, hlt, rfl⟩ | ⟨rfl, hlt, rfl⟩
      · refine Or.inr (Or.inl ⟨hgone _ _, hlt, ?_⟩)
        rw [get_keyOrder_delete_ne hab, update_get hinv hra (by rfl) (by rfl) (by rfl) hset, if_pos rfl]
      · refine Or.inr (Or.inr ⟨hgone _ _, hlt, ?_⟩)
        rw [get_keyOrder_delete_ne (Ne.symm hab), update_get hinv hrb (by rfl) (by rfl) (by rfl) hset, if_pos rfl]

/-- every stored order has a non-zero asset amount (order creation refuses a zero amount,
`orderValid`; a partial fill leaves a non-zero amount) -/
def AmtPos (s : Store) : Prop := ∀ id o, s.get (keyOrder id) = some (.order o) → 0 < o.assetAmt

/-- **Frame of an accepted settlement**, in the form: both records gone, or exactly one gone and the
other one rewritten to a strictly smaller order with the same id, market, owner, side, denoms and
external id.  The hypothesis `AmtPos` is needed for "strictly" (see `settle_frame_partial`); it holds
after every history (`amtPos_all_histories`). -/
theorem settle_frame {s s' : Store} (hinv : IndexInv s) (hpos : AmtPos s) {m : UInt32} {a b : UInt64} {ep : Bool}
    {signer : Bytes} (h : settle s m a b ep signer = some s') :
    (∀ id', id' ≠ a → id' ≠ b → s'.get (keyOrder id') = s.get (keyOrder id')) ∧
    (∀ src e, s'.get (keyPayment src e) = s.get (keyPayment src e)) ∧
    (∀ m' c, s'.get (keyCommitment m' c) = s.get (keyCommitment m' c)) ∧
    ∃ oa ob, s.get (keyOrder a) = some (.order oa) ∧ s.get (keyOrder b) = some (.order ob) ∧
      oa.isBid = false ∧ ob.isBid = true ∧ oa.market = m ∧ ob.market = m ∧
      ((s'.get (keyOrder a) = none ∧ s'.get (keyOrder b) = none) ∨
       (s'.get (keyOrder b) = none ∧ ∃ left, s'.get (keyOrder a) = some (.order left) ∧
          left.id = oa.id ∧ left.market = oa.market ∧ left.owner = oa.owner ∧ left.isBid = oa.isBid ∧
          left.assetDenom = oa.assetDenom ∧ left.priceDenom = oa.priceDenom ∧ left.ext = oa.ext ∧
          left.allowPartial = oa.allowPartial ∧ left.ownerUp = oa.ownerUp ∧
          0 < left.assetAmt ∧ left.assetAmt < oa.assetAmt ∧ left.priceAmt ≤ oa.priceAmt) ∨
       (s'.get (keyOrder a) = none ∧ ∃ left, s'.get (keyOrder b) = some (.order left) ∧
          left.id = ob.id ∧ left.market = ob.market ∧ left.owner = ob.owner ∧ left.isBid = ob.isBid ∧
          left.assetDenom = ob.assetDenom ∧ left.priceDenom = ob.priceDenom ∧ left.ext = ob.ext ∧
          left.allowPartial = ob.allowPartial ∧ left.ownerUp = ob.ownerUp ∧
          0 < left.assetAmt ∧ left.assetAmt < ob.assetAmt ∧ left.priceAmt ≤ ob.priceAmt)) := by
  obtain ⟨h1, h2, h3, oa, ob, hra, hrb, hba, hbb, hma, hmb, hc⟩ := settle_frame_partial hinv h
  have hpa := hpos a oa hra
  have hpb := hpos b ob hrb
  refine ⟨h1, h2, h3, oa, ob, hra, hrb, hba, hbb, hma, hmb, ?_⟩
  rcases hc with hc | ⟨hg, hlt, hl⟩ | ⟨hg, hlt, hl⟩
  · exact Or.inl hc
  · exact Or.inr (Or.inl ⟨hg, _, hl, rfl, rfl, rfl, rfl, rfl, rfl, rfl, rfl, rfl,
      by simp only; omega, by simp only; omega, Nat.sub_le _ _⟩)
  · exact Or.inr (Or.inr ⟨hg, _, hl, rfl, rfl, rfl, rfl, rfl, rfl, rfl, rfl, rfl,
      by simp only; omega, by simp only; omega, Nat.sub_le _ _⟩)

/-- non-vacuity: a partial fill (ask 1 of 6, bid 2 of 2: the ask is left with 4), then a full fill
(ask 1 of 4 with bid 3 of 4) -/
example :
    let s := (run init [.mkMarket 0 "m",
      .create ⟨0, false, 1, [65], [97, 112, 112], 6, [117], 12, [120], true, false⟩,
      .create ⟨0, true, 1, [66], [97, 112, 112], 2, [117], 6, [121], true, false⟩,
      .create ⟨0, true, 1, [66], [97, 112, 112], 4, [117], 9, [], false, false⟩,
      .pay ⟨[65], 3, [66], 0, [], false, false⟩, .commit 1 [65] 5]).kv
    (settle s 1 1 2 true admin).isSome = true ∧
    ((settle s 1 1 2 true admin).bind fun s1 => getOrderFromStore s1 1) =
      some ⟨1, false, 1, [65], [97, 112, 112], 4, [117], 8, [120], true, false⟩ ∧
    ((settle s 1 1 2 true admin).bind fun s1 => settle s1 1 1 3 false admin).isSome = true := by decide

/-! ### payment retarget -/

/-- **An accepted target change rewrites the `target` of one payment record and touches no other
record**; afterwards the payment is listed in the target index under the new target and under no
other (and under none when the new target is empty), and no other payment's index entry changed. -/
theorem updatePaymentTarget_frame {s s' : Store} (hinv : IndexInv s) {src e t : Bytes}
    (h : updatePaymentTarget s src e t = some s') :
    (∃ p, s.get (keyPayment src e) = some (.payment p) ∧
      s'.get (keyPayment src e) = some (.payment { p with target := t, targetUp := false })) ∧
    (∀ src' e', keyPayment src' e' ≠ keyPayment src e →
      s'.get (keyPayment src' e') = s.get (keyPayment src' e')) ∧
    (∀ id, s'.get (keyOrder id) = s.get (keyOrder id)) ∧
    (∀ m a, s'.get (keyCommitment m a) = s.get (keyCommitment m a)) ∧
    (∀ t', (∃ v, s'.get (idxTargetToPayment t' src e) = some v) ↔ (t' = t ∧ t ≠ [])) ∧
    (∀ t' src' e', ¬ (src' = src ∧ e' = e) →
      s'.get (idxTargetToPayment t' src' e') = s.get (idxTargetToPayment t' src' e')) := by
  have hh := indexInvF_iff.mp hinv
  obtain ⟨hp', ht⟩ := pay_updatePaymentTarget hh.2 h
  have hinv' : IndexInv s' := indexInvF_iff.mpr ⟨hh.1.of_touches ht (by simp [payHeads]), hp'⟩
  unfold updatePaymentTarget at h
  split_ifs at h
  split at h
  · cases h
  · next p hget =>
    split_ifs at h
    cases h
    have hrec := getPaymentFromStore_eq hget
    obtain ⟨hs, he⟩ := hh.2.record_key hrec
    subst hs he
    have hnew : (setPaymentInStore s { p with target := t, targetUp := false }).get (keyPayment p.source p.ext) =
        some (.payment { p with target := t, targetUp := false }) := by
      rw [get_setPaymentInStore hh.2, if_pos rfl]
    refine ⟨⟨p, hrec, hnew⟩, fun src' e' hne => ?_,
      fun id => ht.eq_of_head (head_keyOrder id) (by simp [payHeads]),
      fun m a => ht.eq_of_head (head_keyCommitment m a) (by simp [payHeads]), fun t' => ?_,
      fun t' src' e' hne => ?_⟩
    · rw [get_setPaymentInStore hh.2, if_neg hne, if_neg, if_neg]
      · rintro ⟨q, _, hq⟩
        have := (mem_payKeys.mp hq).2
        simp [keyPayment, idxTargetToPayment] at this
      · intro hm
        have := (mem_payKeys.mp hm).2
        simp [keyPayment, idxTargetToPayment] at this
    · rw [payment_listed_under_current_target_only hinv' t' p.source p.ext]
      constructor
      · rintro ⟨q, hq, hqt, hne⟩
        rw [hnew] at hq
        cases hq
        have hqt' : t = t' := hqt
        subst hqt'
        exact ⟨rfl, hne⟩
      · rintro ⟨rfl, hne⟩
        exact ⟨_, hnew, rfl, hne⟩
    · rw [get_setPaymentInStore hh.2, if_neg (by simp [keyPayment, idxTargetToPayment]), if_neg, if_neg]
      · rintro ⟨q, hq, hm⟩
        simp only at hq
        rw [hget] at hq
        cases hq
        have := idxTargetToPayment_inj.mp (mem_payKeys.mp hm).2
        exact hne ⟨this.2.1, this.2.2⟩
      · intro hm
        have := idxTargetToPayment_inj.mp (mem_payKeys.mp hm).2
        exact hne ⟨this.2.1, this.2.2⟩

/-- non-vacuity: a retarget to another account, to no target, and of a payment without target; a second
payment of the same source stays listed under its own target -/
example :
    let s := (run init [.mkMarket 0 "m",
      .create ⟨0, false, 1, [65], [97, 112, 112], 6, [117], 12, [120], true, false⟩,
      .pay ⟨[65], 3, [66], 0, [], false, false⟩, .pay ⟨[65], 3, [66], 1, [120], false, false⟩,
      .pay ⟨[67], 3, [], 1, [120], false, false⟩, .commit 1 [65] 5]).kv
    (updatePaymentTarget s [65] [] [67]).isSome = true ∧ (updatePaymentTarget s [65] [] []).isSome = true ∧
    (updatePaymentTarget s [67] [120] [65]).isSome = true ∧ updatePaymentTarget s [65] [] [66] = none ∧
    ((updatePaymentTarget s [65] [] [67]).map fun s1 =>
      (s1.has (idxTargetToPayment [67] [65] []), s1.has (idxTargetToPayment [66] [65] []),
       s1.has (idxTargetToPayment [66] [65] [120]))) = some (true, false, true) := by decide

/-! ### payment accepted / rejected -/

/-- what deleting a stored payment does to the records and to the target index -/
theorem deletePayment_frame {s : Store} (hinv : IndexInv s) {p : Payment}
    (hrec : s.get (keyPayment p.source p.ext) = some (.payment p)) :
    (deletePaymentFromStore s p).get (keyPayment p.source p.ext) = none ∧
    (∀ t', (deletePaymentFromStore s p).get (idxTargetToPayment t' p.source p.ext) = none) ∧
    (∀ src' e', keyPayment src' e' ≠ keyPayment p.source p.ext →
      (deletePaymentFromStore s p).get (keyPayment src' e') = s.get (keyPayment src' e')) ∧
    (∀ t' src' e', ¬ (src' = p.source ∧ e' = p.ext) →
      (deletePaymentFromStore s p).get (idxTargetToPayment t' src' e') = s.get (idxTargetToPayment t' src' e')) ∧
    (∀ id, (deletePaymentFromStore s p).get (keyOrder id) = s.get (keyOrder id)) ∧
    (∀ m a, (deletePaymentFromStore s p).get (keyCommitment m a) = s.get (keyCommitment m a)) := by
  have ht := touches_deletePaymentFromStore s p
  refine ⟨?_, fun t' => ?_, fun src' e' hne => ?_, fun t' src' e' hne => ?_,
    fun id => ht.eq_of_head (head_keyOrder id) (by simp [payHeads]),
    fun m a => ht.eq_of_head (head_keyCommitment m a) (by simp [payHeads])⟩
  · rw [get_deletePaymentFromStore, if_pos (Or.inl rfl)]
  · rw [get_deletePaymentFromStore]
    split_ifs with hc
    · rfl
    · -- not the payment's own entry: then there is no entry at all (listed under the current target only)
      cases hv : s.get (idxTargetToPayment t' p.source p.ext) with
      | none => rfl
      | some v =>
        exfalso
        obtain ⟨q, hq, hqt, hne⟩ := (payment_listed_under_current_target_only hinv t' p.source p.ext).mp ⟨v, hv⟩
        rw [hrec] at hq
        cases hq
        exact hc (Or.inr (mem_payKeys.mpr ⟨hqt ▸ hne, by rw [hqt]⟩))
  · rw [get_deletePaymentFromStore, if_neg]
    rintro (hk | hk)
    · exact hne hk
    · have := (mem_payKeys.mp hk).2
      simp [keyPayment, idxTargetToPayment] at this
  · rw [get_deletePaymentFromStore, if_neg]
    rintro (hk | hk)
    · simp [keyPayment, idxTargetToPayment] at hk
    · have := idxTargetToPayment_inj.mp (mem_payKeys.mp hk).2
      exact hne ⟨this.2.1, this.2.2⟩

/-- **An accepted `MsgAcceptPayment` removes the payment record and its target-index entry and touches no
other record.** -/
theorem acceptPayment_frame {s s' : Store} (hinv : IndexInv s) {src e t : Bytes} {su tu : Bool}
    (h : acceptPayment s src e t su tu = some s') :
    (∃ p, s.get (keyPayment src e) = some (.payment p) ∧ p.target = t ∧ t ≠ [] ∧
      p.sourceUp = su ∧ p.targetUp = tu) ∧
    s'.get (keyPayment src e) = none ∧
    (∀ t', s'.get (idxTargetToPayment t' src e) = none) ∧
    (∀ src' e', keyPayment src' e' ≠ keyPayment src e →
      s'.get (keyPayment src' e') = s.get (keyPayment src' e')) ∧
    (∀ t' src' e', ¬ (src' = src ∧ e' = e) →
      s'.get (idxTargetToPayment t' src' e') = s.get (idxTargetToPayment t' src' e')) ∧
    (∀ id, s'.get (keyOrder id) = s.get (keyOrder id)) ∧
    (∀ m a, s'.get (keyCommitment m a) = s.get (keyCommitment m a)) := by
  have hh := indexInvF_iff.mp hinv
  unfold acceptPayment at h
  split_ifs at h with h0
  split at h
  · cases h
  · next p hget =>
    split_ifs at h with h1
    cases h
    have hrec := getPaymentFromStore_eq hget
    obtain ⟨hs, he⟩ := hh.2.record_key hrec
    subst hs he
    have hg : t = p.target ∧ su = p.sourceUp ∧ tu = p.targetUp := by
      refine ⟨?_, ?_, ?_⟩ <;> by_contra hc
      · exact h1 (Or.inr (Or.inl hc))
      · exact h1 (Or.inl hc)
      · exact h1 (Or.inr (Or.inr hc))
    obtain ⟨d1, d2, d3, d4, d5, d6⟩ := deletePayment_frame hinv hrec
    exact ⟨⟨p, hrec, hg.1.symm, fun ht => h0 (Or.inr (Or.inl ht)), hg.2.1.symm, hg.2.2.symm⟩,
      d1, d2, d3, d4, d5, d6⟩

/-- **An accepted `MsgRejectPayment` removes the payment record and its target-index entry and touches no
other record.** -/
theorem rejectPayment_frame {s s' : Store} (hinv : IndexInv s) {src e t : Bytes}
    (h : rejectPayment s t src e = some s') :
    (∃ p, s.get (keyPayment src e) = some (.payment p) ∧ p.target = t ∧ t ≠ [] ∧ p.targetUp = false) ∧
    s'.get (keyPayment src e) = none ∧
    (∀ t', s'.get (idxTargetToPayment t' src e) = none) ∧
    (∀ src' e', keyPayment src' e' ≠ keyPayment src e →
      s'.get (keyPayment src' e') = s.get (keyPayment src' e')) ∧
    (∀ t' src' e', ¬ (src' = src ∧ e' = e) →
      s'.get (idxTargetToPayment t' src' e') = s.get (idxTargetToPayment t' src' e')) ∧
    (∀ id, s'.get (keyOrder id) = s.get (keyOrder id)) ∧
    (∀ m a, s'.get (keyCommitment m a) = s.get (keyCommitment m a)) := by
  have hh := indexInvF_iff.mp hinv
  unfold rejectPayment at h
  split_ifs at h with h0
  split at h
  · cases h
  · next p hget =>
    split_ifs at h with h1
    cases h
    have hrec := getPaymentFromStore_eq hget
    obtain ⟨hs, he⟩ := hh.2.record_key hrec
    subst hs he
    have hg : p.target = t ∧ p.targetUp = false := by
      refine ⟨?_, ?_⟩
      · by_contra hc; exact h1 (Or.inr (Or.inl hc))
      · cases hb : p.targetUp with
        | false => rfl
        | true => exact absurd (Or.inr (Or.inr hb)) h1
    obtain ⟨d1, d2, d3, d4, d5, d6⟩ := deletePayment_frame hinv hrec
    exact ⟨⟨p, hrec, hg.1, fun ht => h0 (Or.inl ht), hg.2⟩, d1, d2, d3, d4, d5, d6⟩

/-- non-vacuity: one payment accepted, the other of the same source rejected -/
example :
    let s := (run init [.mkMarket 0 "m",
      .create ⟨0, false, 1, [65], [97, 112, 112], 6, [117], 12, [120], true, false⟩,
      .pay ⟨[65], 3, [66], 0, [], false, false⟩, .pay ⟨[65], 3, [66], 1, [120], true, false⟩,
      .commit 1 [65] 5]).kv
    (acceptPayment s [65] [] [66] false false).isSome = true ∧
    (acceptPayment s [65] [120] [66] true false).isSome = true ∧
    acceptPayment s [65] [120] [66] false false = none ∧
    (rejectPayment s [66] [65] [120]).isSome = true ∧ rejectPayment s [67] [65] [120] = none := by decide

/-! ### the hypothesis `AmtPos` of `settle_frame`: needed, and kept by every message -/

/-- writing the record of a new order (with all its index entries free) keeps the index invariant -/
theorem inv_setOrderInStore_new {s s' : Store} {o : Order} (hinv : IndexInv s)
    (hnew : s.get (keyOrder o.id) = none)
    (hext : o.ext ≠ [] → s.get (idxMarketExternalIDToOrder o.market o.ext) = none)
    (h : setOrderInStore s o = some s') : IndexInv s' := by
  have hh := indexInvF_iff.mp hinv
  exact indexInvF_iff.mpr ⟨hh.1.insert hnew hext (setOrderInStore_new hnew h).2,
    hh.2.of_touches (touches_setOrderInStore h) (by simp [orderHeads])⟩

/-- **Why `settle_frame` needs `AmtPos`.**  A store that satisfies `IndexInv` and holds an ask of 6 and a bid
of 0: the settlement "in part" is accepted, removes the bid, and rewrites the ask to ITSELF — the part
left is not strictly smaller.  (Such a store is not reachable through the messages, see
`amtPos_all_histories`.) -/
theorem settle_left_not_smaller_without_amtPos :
    ∃ s s' : Store, IndexInv s ∧ settle s 1 1 2 true admin = some s' ∧
      s.get (keyOrder 1) = some (.order ⟨1, false, 1, [65], [97, 112, 112], 6, [117], 12, [120], true, false⟩) ∧
      s'.get (keyOrder 1) = s.get (keyOrder 1) ∧ s'.get (keyOrder 2) = none := by
  let s0 : Store := (run init [.mkMarket 0 "m",
    .create ⟨0, false, 1, [65], [97, 112, 112], 6, [117], 12, [120], true, false⟩]).kv
  let bid0 : Order := ⟨2, true, 1, [66], [97, 112, 112], 0, [117], 0, [], true, false⟩
  have h0 : IndexInv s0 := indexInv_all_histories _ (by decide)
  have hs : (setOrderInStore s0 bid0).isSome = true := by decide
  obtain ⟨s, hset⟩ := Option.isSome_iff_exists.mp hs
  have hinv : IndexInv s := inv_setOrderInStore_new (o := bid0) h0 (by decide) (fun hx => absurd rfl hx) hset
  have hs' : ((setOrderInStore s0 bid0).bind fun s => settle s 1 1 2 true admin).isSome = true := by decide
  rw [hset] at hs'
  obtain ⟨s', hst⟩ := Option.isSome_iff_exists.mp hs'
  have hst' : settle s 1 1 2 true admin = some s' := hst
  have hall : ((setOrderInStore s0 bid0).bind fun s => (settle s 1 1 2 true admin).map fun s' =>
      (s.get (keyOrder 1), s'.get (keyOrder 1), s'.get (keyOrder 2))) =
      some (some (.order ⟨1, false, 1, [65], [97, 112, 112], 6, [117], 12, [120], true, false⟩),
        some (.order ⟨1, false, 1, [65], [97, 112, 112], 6, [117], 12, [120], true, false⟩), none) := by decide
  rw [hset] at hall
  simp only [Option.bind_some, hst', Option.map_some, Option.some.injEq, Prod.mk.injEq] at hall
  exact ⟨s, s', hinv, hst', hall.1, by rw [hall.2.1, hall.1], hall.2.2⟩

theorem AmtPos.of_sub {s s' : Store} (h : AmtPos s)
    (hsub : ∀ i v, s'.get (keyOrder i) = some v → s.get (keyOrder i) = some v) : AmtPos s' :=
  fun id o ho => h id o (hsub id _ ho)

theorem AmtPos.of_touches {s s' : Store} {hs : List Nat} (h : AmtPos s) (ht : Touches s s' hs) (h2 : 2 ∉ hs) :
    AmtPos s' :=
  h.of_sub fun i v hv => by rw [← ht.eq_of_head (head_keyOrder i) h2]; exact hv

theorem amtPos_init : AmtPos init.kv := by
  intro id o h
  simp [init, get_cons, keyOrder, keyLastOrderID, keyLastMarketID] at h

/-- every accepted message keeps `AmtPos`: a creation is refused for a zero amount, a partial fill leaves a
non-zero amount, nothing else writes an amount -/
theorem amtPos_apply {st st' : State} {op : Op} {r : Res} (hinv : Inv st)
    (hb : (getLastOrderID st.kv).toNat + 1 < 2 ^ 64) (hpos : AmtPos st.kv)
    (h : apply st op = some (st', r)) : AmtPos st'.kv := by
  have wk : ∀ {x : Option Store}, withKv st x = some (st', r) → ∃ kv, x = some kv ∧ st'.kv = kv := by
    intro x hr
    unfold withKv at hr
    cases x with
    | none => cases hr
    | some kv => simp at hr; exact ⟨kv, rfl, by rw [← hr.1]⟩
  have hpay : ∀ {s' : Store}, (PayInvF st.kv.get → PayInvF s'.get ∧ Touches st.kv s' payHeads) → AmtPos s' :=
    fun hp => hpos.of_touches (hp (indexInvF_iff.mp hinv.idx).2).2 (by simp [payHeads])
  cases op with
  | mkMarket i n =>
    simp only [apply, Option.map_eq_some_iff] at h
    obtain ⟨⟨st2, mid⟩, hc, heq⟩ := h
    simp only [Prod.mk.injEq] at heq
    obtain ⟨rfl, _⟩ := heq
    exact hpos.of_touches (createMarket_spec hc).2.2.1 (by simp)
  | closeMarket m =>
    simp only [apply] at h
    split_ifs at h
    simp only [Option.some.injEq, Prod.mk.injEq] at h
    obtain ⟨rfl, _⟩ := h
    show AmtPos (closeMarket st.kv m)
    rw [closeMarket_eq]
    refine AmtPos.of_touches ?_ (touches_releaseAll _ m) (by simp)
    rw [cancelAllOrdersForMarket_eq]
    have hinv2 : IndexInv (closeFlags st.kv m) := IndexInv.of_touches hinv.idx (touches_closeFlags _ m) (by simp)
    exact (hpos.of_touches (touches_closeFlags _ m) (by simp)).of_sub (cancelFold_spec _ _ hinv2).2.1
  | setAccepting m a signer =>
    obtain ⟨kv, hc, hk⟩ := wk h
    rw [hk]
    unfold updateAcceptingOrders at hc
    split_ifs at hc <;> cases hc
    · exact hpos.of_touches (Touches.del _ _ (head_keyNotAccepting m)) (by simp)
    · exact hpos.of_touches (Touches.set _ _ _ (head_keyNotAccepting m)) (by simp)
  | setAcceptingCommitments m a signer =>
    obtain ⟨kv, hc, hk⟩ := wk h
    rw [hk]
    unfold updateAcceptingCommitments at hc
    split_ifs at hc <;> cases hc
    · exact hpos.of_touches (Touches.set _ _ _ (head_keyAcceptingCommitments m)) (by simp)
    · exact hpos.of_touches (Touches.del _ _ (head_keyAcceptingCommitments m)) (by simp)
  | create o =>
    simp only [apply, Option.map_eq_some_iff] at h
    obtain ⟨⟨kv, id⟩, hc, heq⟩ := h
    simp only [Prod.mk.injEq] at heq
    obtain ⟨rfl, _⟩ := heq
    obtain ⟨_, hrec, hoth, _⟩ := createOrder_frame hinv.idx hinv.ctr hb hc
    have hv : o.assetAmt ≠ 0 := by
      unfold createOrder at hc
      split_ifs at hc with hv
      simp only [orderValid, Bool.and_eq_true, decide_eq_true_eq] at hv
      exact hv.1.1.2
    intro i o' ho'
    show 0 < o'.assetAmt
    by_cases hi : i = id
    · subst hi
      rw [show ({ st with kv := kv } : State).kv = kv from rfl, hrec] at ho'
      cases ho'
      exact Nat.pos_of_ne_zero hv
    · exact hpos i o' (by rw [← hoth i hi]; exact ho')
  | cancel id signer up =>
    simp only [apply] at h
    split_ifs at h
    obtain ⟨kv, hc, hk⟩ := wk h
    rw [hk]
    obtain ⟨_, hgone, hoth, _⟩ := cancelOrder_frame hinv.idx hc
    refine hpos.of_sub fun i v hv => ?_
    by_cases hi : i = id
    · subst hi; rw [hgone] at hv; cases hv
    · rw [← hoth i hi]; exact hv
  | setExt m id x signer =>
    obtain ⟨kv, hc, hk⟩ := wk h
    rw [hk]
    obtain ⟨⟨o, ho, _, _, hnew⟩, hoth, _⟩ := setOrderExternalID_frame hinv.idx hc
    intro i o' ho'
    by_cases hi : i = id
    · subst hi
      rw [hnew] at ho'
      cases ho'
      exact hpos i o ho
    · exact hpos i o' (by rw [← hoth i hi]; exact ho')
  | settle m a b p signer =>
    obtain ⟨kv, hc, hk⟩ := wk h
    rw [hk]
    obtain ⟨hoth, _, _, oa, ob, hra, hrb, _, _, _, _, hcs⟩ := settle_frame_partial hinv.idx hc
    intro i o' ho'
    by_cases hia : i = a
    · subst hia
      rcases hcs with ⟨hg, _⟩ | ⟨_, hlt, hl⟩ | ⟨hg, _⟩
      · rw [hg] at ho'; cases ho'
      · rw [hl] at ho'; cases ho'; show 0 < oa.assetAmt - ob.assetAmt; omega
      · rw [hg] at ho'; cases ho'
    · by_cases hib : i = b
      · subst hib
        rcases hcs with ⟨_, hg⟩ | ⟨hg, _⟩ | ⟨_, hlt, hl⟩
        · rw [hg] at ho'; cases ho'
        · rw [hg] at ho'; cases ho'
        · rw [hl] at ho'; cases ho'; show 0 < ob.assetAmt - oa.assetAmt; omega
      · exact hpos i o' (by rw [← hoth i hia hib]; exact ho')
  | fill m wb f fu ids total =>
    obtain ⟨kv, hc, hk⟩ := wk h
    rw [hk]
    obtain ⟨_, _, os, _, _, rfl⟩ := fillOrders_eq hc
    exact hpos.of_sub fun i v hv => fillFold_get_sub os _ _ v hv
  | commit m a amt =>
    obtain ⟨kv, hc, hk⟩ := wk h
    rw [hk]
    unfold commitFunds at hc
    split_ifs at hc
    cases hc
    exact hpos.of_touches (touches_setCommitmentAmount _ _ _ _) (by simp)
  | release m a amt signer =>
    obtain ⟨kv, hc, hk⟩ := wk h
    rw [hk]
    unfold marketReleaseCommitment at hc
    split_ifs at hc
    exact hpos.of_touches (touches_releaseCommitment hc) (by simp)
  | pay p =>
    obtain ⟨kv, hc, hk⟩ := wk h
    rw [hk]; exact hpay fun hp => pay_createPayment hp hc
  | payAccept s e t su tu =>
    obtain ⟨kv, hc, hk⟩ := wk h
    rw [hk]; exact hpay fun hp => pay_acceptPayment hp hc
  | payReject t s e =>
    obtain ⟨kv, hc, hk⟩ := wk h
    rw [hk]; exact hpay fun hp => pay_rejectPayment hp hc
  | payRejectAll t ss =>
    obtain ⟨kv, hc, hk⟩ := wk h
    rw [hk]; exact hpay fun hp => pay_rejectPayments hp hc
  | payCancel s es =>
    obtain ⟨kv, hc, hk⟩ := wk h
    rw [hk]; exact hpay fun hp => pay_cancelPayments hp hc
  | payTarget s e t =>
    obtain ⟨kv, hc, hk⟩ := wk h
    rw [hk]; exact hpay fun hp => pay_updatePaymentTarget hp hc

theorem amtPos_step {st : State} {op : Op} (hinv : Inv st) (hb : (getLastOrderID st.kv).toNat + 1 < 2 ^ 64)
    (hpos : AmtPos st.kv) : AmtPos (step st op).kv := by
  unfold step
  cases h : apply st op with
  | none => exact hpos
  | some pr => obtain ⟨st', r⟩ := pr; exact amtPos_apply hinv hb hpos h

theorem amtPos_run : ∀ (ops : List Op) (st : State), Inv st → AmtPos st.kv →
    (getLastOrderID st.kv).toNat + ops.length < 2 ^ 64 → AmtPos (run st ops).kv
  | [], _, _, hp, _ => hp
  | op :: ops, st, h, hp, hb => by
    simp only [List.length_cons] at hb
    obtain ⟨h1, h2, _⟩ := inv_step (op := op) h (by omega)
    show AmtPos (run (step st op) ops).kv
    exact amtPos_run ops (step st op) h1 (amtPos_step h (by omega) hp) (by omega)

/-- **After every history every stored order has a non-zero asset amount** — so `settle_frame` applies to
every reachable store. -/
theorem amtPos_all_histories (ops : List Op) (h : ops.length < 2 ^ 64) : AmtPos (run init ops).kv :=
  amtPos_run ops init inv_init amtPos_init (by rw [lastOrderID_init]; simpa using h)

/-- `settle_frame` along histories: no hypothesis but the length bound -/
theorem settle_frame_all_histories (ops : List Op) (hl : ops.length < 2 ^ 64) {s' : Store} {m : UInt32}
    {a b : UInt64} {ep : Bool} {signer : Bytes} (h : settle (run init ops).kv m a b ep signer = some s') :
    ∃ oa ob, (run init ops).kv.get (keyOrder a) = some (.order oa) ∧
      (run init ops).kv.get (keyOrder b) = some (.order ob) ∧
      ((s'.get (keyOrder a) = none ∧ s'.get (keyOrder b) = none) ∨
       (s'.get (keyOrder b) = none ∧ ∃ left, s'.get (keyOrder a) = some (.order left) ∧
          left.assetAmt < oa.assetAmt) ∨
       (s'.get (keyOrder a) = none ∧ ∃ left, s'.get (keyOrder b) = some (.order left) ∧
          left.assetAmt < ob.assetAmt)) := by
  obtain ⟨_, _, _, oa, ob, hra, hrb, _, _, _, _, hc⟩ :=
    settle_frame (indexInv_all_histories ops hl) (amtPos_all_histories ops hl) h
  refine ⟨oa, ob, hra, hrb, ?_⟩
  rcases hc with hc | ⟨hg, l, hl', hrest⟩ | ⟨hg, l, hl', hrest⟩
  · exact Or.inl hc
  · exact Or.inr (Or.inl ⟨hg, l, hl', hrest.2.2.2.2.2.2.2.2.2.2.1⟩)
  · exact Or.inr (Or.inr ⟨hg, l, hl', hrest.2.2.2.2.2.2.2.2.2.2.1⟩)

/-! ### user settlements: `FillBids` / `FillAsks` -/

/-- **Frame of an accepted user settlement** (`MsgFillBids`: `wb = true`, `MsgFillAsks`: `wb = false`): every
listed id was an open order of the wanted type in the market, not the filler's own; afterwards NONE of them
has a record — whatever their asset denoms: a seller may fill bids for several asset denoms with one
message —, every other order record, every payment record and every commitment record is what it was, and
the index invariant holds again (so no lookup — by market, owner, asset or external id — lists a filled
order any more: `byMarket_exact` / `byOwner_exact` / `byAsset_exact` / `getOrderByExternalID_iff`). -/
theorem fillOrders_frame {s s' : Store} (hinv : IndexInv s) {m : UInt32} {wb : Bool} {f : Bytes} {fu : Bool}
    {ids : List UInt64} {total : List (Bytes × Nat)} (h : fillOrders s m wb f fu ids total = some s') :
    (∀ id ∈ ids, ∃ o, s.get (keyOrder id) = some (.order o) ∧ o.isBid = wb ∧ o.market = m ∧
      ¬ (o.owner = f ∧ o.ownerUp = fu)) ∧
    (∀ id ∈ ids, s'.get (keyOrder id) = none) ∧
    (∀ id, id ∉ ids → s'.get (keyOrder id) = s.get (keyOrder id)) ∧
    (∀ src e, s'.get (keyPayment src e) = s.get (keyPayment src e)) ∧
    (∀ m' a, s'.get (keyCommitment m' a) = s.get (keyCommitment m' a)) ∧
    IndexInv s' := by
  have hh := (indexInvF_iff.mp hinv).1
  have ht := touches_fillOrders h
  have hi' := inv_fillOrders hinv h
  obtain ⟨_, _, os, hos, _, rfl⟩ := fillOrders_eq h
  obtain ⟨hm, hall⟩ := getOrdersToFill_spec hos
  refine ⟨fun id hid => ?_, fun id hid => fillFold_get_listed os s id (by rw [hm]; exact hid),
    fun id hid => fillFold_get_other os s id (by rw [hm]; exact hid),
    fun src e => ht.eq_of_head (head_keyPayment src e) (by simp [orderHeads]),
    fun m' a => ht.eq_of_head (head_keyCommitment m' a) (by simp [orderHeads]), hi'⟩
  rw [← hm] at hid
  obtain ⟨o, ho, rfl⟩ := List.mem_map.mp hid
  obtain ⟨hg, hb, hmk, hne⟩ := hall o ho
  exact ⟨o, (getOrderFromStore_eq hh hg).1, hb, hmk, hne⟩

/-- after an accepted user settlement the by-asset lookup of EVERY denom lists none of the filled orders -/
theorem fillOrders_byAsset_clean {s s' : Store} (hinv : IndexInv s) {m : UInt32} {wb : Bool} {f : Bytes} {fu : Bool}
    {ids : List UInt64} {total : List (Bytes × Nat)} (h : fillOrders s m wb f fu ids total = some s')
    (d : Bytes) (id : UInt64) (hid : id ∈ ids) : id ∉ (iterateOrderIndex s' (prefixAssetToOrder d)).map (·.1) := by
  obtain ⟨_, hgone, _, _, _, hinv'⟩ := fillOrders_frame hinv h
  intro hb
  obtain ⟨o, ho, _⟩ := (byAsset_exact hinv' d id).mp hb
  rw [hgone id hid] at ho
  cases ho

/-- non-vacuity: seller `C` fills two bids for DIFFERENT asset denoms (`app`, `pea`) with one message;
buyer `C` fills an ask; the owner may not fill its own order -/
example :
    let s := (run init [.mkMarket 0 "m",
      .create ⟨0, true, 1, [65], [97, 112, 112], 6, [117], 12, [120], true, false⟩,
      .create ⟨0, true, 1, [66], [112, 101, 97], 2, [117], 6, [121], true, false⟩,
      .create ⟨0, false, 1, [66], [112, 101, 97], 2, [117], 6, [], true, false⟩,
      .pay ⟨[65], 3, [66], 0, [], false, false⟩, .commit 1 [65] 5]).kv
    (fillOrders s 1 true [67] false [1, 2] [([97, 112, 112], 6), ([112, 101, 97], 2)]).isSome = true ∧
    (fillOrders s 1 false [67] false [3] [([117], 6)]).isSome = true ∧
    fillOrders s 1 true [65] false [1, 2] [([97, 112, 112], 6), ([112, 101, 97], 2)] = none ∧
    fillOrders s 1 true [67] false [1, 2] [([97, 112, 112], 8)] = none := by decide

end PvProofs.C13
