/-
C01 — "at most one order (**the last of its list**, and only if it allows it) is partially filled", for
**every ordering of the ids in the request**, at the keeper level; and soundness of the checker clause
that judges it on the implementation's dumps (`partialLastViolation`, `PvModel/SettleAppSpec.lean`).

* `settle_partial_is_last_of_request`: after an accepted `MsgMarketSettle` (through its `ValidateBasic`,
  in every state satisfying the store invariant, whatever the order of the ids) an order that the
  request names and that is still open is the LAST id of the request's ask list or of its bid list —
  the lists as the request gave them, not sorted, not as loaded.
* `fill_leaves_no_named_order`: an accepted `MsgFillBids` / `MsgFillAsks` leaves no named order open.
* `settle_partial_last_sound`, `fillBids_partial_last_sound`, `fillAsks_partial_last_sound`: on the
  model's own dumps `partialLastViolation` never fires (evaluated as the driver does: `[asks, bids]` /
  `[ids]`).
-/
import PvProofs.C01AppDefs

namespace PvProofs.C01
open PvModel PvModel.Settle PvModel.Coins PvModel.Ledger PvProofs.Settle

/-- **The order left partially filled is the last of its list as the request gives it**, for every
ordering of the ids: after an accepted `MsgMarketSettle`, a named order that is still in the store is
the last id of `a` or the last id of `b`. -/
theorem settle_partial_is_last_of_request {s s' : KState} {m c : Addr} {a b : List Nat} {ep : Bool}
    (hI : StoreInv s) (h : s.msgMarketSettle m c a b ep = .ok s') :
    ∀ id ∈ a ++ b, (∃ o ∈ s'.orders, o.id = id) → a.getLast? = some id ∨ b.getLast? = some id := by
  obtain ⟨asks, bids, st, ha, hb, _, hstore, _, hl⟩ := settle_store_post hI h
  intro id hid ⟨o', ho', ho'id⟩
  rw [hstore] at ho'
  unfold storeAfter at ho'
  cases hpl : st.partialLeft with
  | none =>
    rw [hpl] at ho'
    simp only [List.mem_filter, Bool.not_eq_true', List.contains_eq_mem, decide_eq_false_iff_not] at ho'
    exact absurd (ho'id ▸ hid) ho'.2
  | some l =>
    rw [hpl] at ho'
    simp only [List.mem_map, List.mem_filter] at ho'
    obtain ⟨o, ⟨_, hcond⟩, rfl⟩ := ho'
    by_cases he : o.id = l.id
    · rw [if_pos he] at ho'id
      obtain ⟨o2, f, amt, _, hid2, _, hlast, _, _⟩ := hl l hpl
      have hmap : ∀ (os : List Order), os.getLast? = some o2 → (os.map (·.id)).getLast? = some id := by
        intro os hos
        rw [List.getLast?_map, hos]
        simp [hid2, ho'id]
      rcases hlast with h1 | h1
      · left; rw [← getOrders_ids ha]; exact hmap asks h1
      · right; rw [← getOrders_ids hb]; exact hmap bids h1
    · rw [if_neg he] at ho'id
      simp only [Bool.or_eq_true, Bool.not_eq_true', List.contains_eq_mem, decide_eq_false_iff_not,
        beq_iff_eq, he, or_false] at hcond
      exact absurd (ho'id ▸ hid) hcond

/-- non-vacuity: the example settlement of `C01Examples` given with its bids in another order
(`[12, 11, 13]`, `[13, 11, 12]` …) is accepted whenever bid 13 — the one that allows a partial fill —
comes last, and what is left open of the request is bid 13 -/
example :
    (match exState.msgMarketSettle "mkt" "feecol" [2, 1] [12, 11, 13] true with
      | .ok s' => (s'.orders.filter (fun o => [2, 1, 12, 11, 13].contains o.id)).map (·.id)
      | .error _ => []) = [13] := by decide

/-- an accepted user fill leaves none of the orders it names in the store -/
theorem fill_leaves_no_named_order {s s' : KState} {m c x : Addr} {ids : List Nat} :
    (∀ {ta flat : Coins}, s.msgFillBids m c x ids ta flat = .ok s' → ∀ o ∈ s'.orders, o.id ∉ ids) ∧
    (∀ {tp : Denom × Int} {fees : Coins}, s.msgFillAsks m c x ids tp fees = .ok s' → ∀ o ∈ s'.orders, o.id ∉ ids) :=
  ⟨fun h => (msgFillBids_once h).2.choose_spec.2.2, fun h => (msgFillAsks_once h).2.choose_spec.2.2⟩

/-- the clause does not fire when every named order that is open before and after is the last of a list -/
theorem partialLastViolation_none_of {lists : List (List Nat)} {before after : Dump}
    (h : ∀ l ∈ lists, ∀ id ∈ l, (∃ o ∈ before.orders, o.id = id) → (∃ o ∈ after.orders, o.id = id) →
      ∃ l' ∈ lists, l'.getLast? = some id) :
    partialLastViolation lists before after = none := by
  unfold partialLastViolation
  rw [if_neg]
  intro hf
  simp only [List.any_eq_true, Bool.and_eq_true, Bool.not_eq_true', decide_eq_true_eq] at hf
  obtain ⟨l, hl, id, hid, ⟨⟨ob, hob, hobid⟩, ⟨oa, hoa, hoaid⟩⟩, hnot⟩ := hf
  obtain ⟨l', hl', hlast⟩ := h l hl id hid ⟨ob, hob, hobid⟩ ⟨oa, hoa, hoaid⟩
  have : (lists.any fun l' => decide (l'.getLast? = some id)) = true :=
    List.any_eq_true.mpr ⟨l', hl', by simpa using hlast⟩
  rw [this] at hnot
  cases hnot

/-- **`partialLastViolation` is sound for every accepted `MsgMarketSettle`** of every state satisfying
the store invariant, evaluated as the driver does (the request's ask list and bid list, the model's own
dumps before and after): it never fires, in whatever order the request names the orders. -/
theorem settle_partial_last_sound {s s' : KState} {accts : List Addr} {a b : List Nat} {ep : Bool}
    (hI : StoreInv s) (h : s.msgMarketSettle marketName collectorName a b ep = .ok s') :
    partialLastViolation [a, b] (dumpOf accts s) (dumpOf accts s') = none := by
  apply partialLastViolation_none_of
  intro l hl id hid _ hafter
  have hmem : id ∈ a ++ b := by
    simp only [List.mem_cons, List.not_mem_nil, or_false] at hl
    rcases hl with rfl | rfl
    · exact List.mem_append_left _ hid
    · exact List.mem_append_right _ hid
  rcases settle_partial_is_last_of_request hI h id hmem hafter with h1 | h1
  · exact ⟨a, by simp, h1⟩
  · exact ⟨b, by simp, h1⟩

/-- **`partialLastViolation` is sound for every accepted `MsgFillBids`** (no named order stays open) -/
theorem fillBids_partial_last_sound {s s' : KState} {accts : List Addr} {seller : Addr} {ids : List Nat}
    {ta flat : Coins} (h : s.msgFillBids marketName collectorName seller ids ta flat = .ok s') :
    partialLastViolation [ids] (dumpOf accts s) (dumpOf accts s') = none := by
  apply partialLastViolation_none_of
  intro l hl id hid _ ⟨o, ho, hoid⟩
  simp only [List.mem_cons, List.not_mem_nil, or_false] at hl
  subst hl
  exact absurd (hoid ▸ hid) (fill_leaves_no_named_order.1 h o ho)

/-- **`partialLastViolation` is sound for every accepted `MsgFillAsks`** (no named order stays open) -/
theorem fillAsks_partial_last_sound {s s' : KState} {accts : List Addr} {buyer : Addr} {ids : List Nat}
    {tp : Denom × Int} {fees : Coins} (h : s.msgFillAsks marketName collectorName buyer ids tp fees = .ok s') :
    partialLastViolation [ids] (dumpOf accts s) (dumpOf accts s') = none := by
  apply partialLastViolation_none_of
  intro l hl id hid _ ⟨o, ho, hoid⟩
  simp only [List.mem_cons, List.not_mem_nil, or_false] at hl
  subst hl
  exact absurd (hoid ▸ hid) (fill_leaves_no_named_order.2 h o ho)

end PvProofs.C01
