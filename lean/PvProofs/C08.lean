/-
C08 — A transaction pays its declared fee on success, only the base fee on failure.

Property theorems only (helper lemmas live in `PvProofs/Lemmas/Txfee*.lean`).  Every statement
is for ALL message-fee schedules, floor gas prices, declared fees, gas limits, balances, fee
grants and transaction bodies: a body is an arbitrary list of `Step`s — routed messages
(top-level or dispatched by authz `MsgExec`, flattened in the order the router sees them),
handler-level fee consumption (exchange payment fees) and handler effects, which are ARBITRARY
functions `Ledger → Except Err Ledger`.

PARTIAL (label in checks/C08.json): gas metering (`Tx.oog*`), signature verification
(`Tx.sigOk`), the mempool and CometBFT are observed inputs, not modelled; what a handler does to
balances is an arbitrary function here and a concrete one (bank send, authz grant check, payment
creation) only in the correspondence driver.  The bank is reduced to plain accounts ("balance
covers the amount"): send restrictions (markers, quarantine, sanctions) and vesting locks on
the fee payer / recipients are outside the model.

Histories: every theorem here is for an ARBITRARY state `s` — in particular the state any
sequence of earlier transactions left; the mempool theorems take independent admission /
recheck / execution states.  `PvProofs.C08Seq` composes them over sequences of transactions
(`runTxs`), several of one payer included.

Reading guide (R = `deliverTx cfg tx s`, the model of `runTx` in a block):
* `R.outcome = .rejected e` — the ante handler failed, nothing is written;
* `R.outcome = .failed e`   — messages or the end-of-tx sweep failed, only the ante branch is written;
* `R.outcome = .ok`         — everything is written.
`R.afterAnte` is the state after the ante handler, `R.afterMsgs` the ledger the handlers
produced from it, `R.final` the state after the sweep (`MsgFeeInvoker.Invoke`).
-/
import PvProofs.Lemmas.TxfeeRun
import PvProofs.Lemmas.TxfeeGov
import PvProofs.Lemmas.TxfeeForest

namespace PvProofs.C08
open PvModel PvModel.Txfee PvModel.Fees PvProofs.TxfeeL

/-! ### What the stages are -/

/-- A successful delivery is: ante handler, then all steps, then the sweep, each succeeding. -/
theorem success_stages (cfg : Cfg) (tx : Tx) (s : St) (h : (deliverTx cfg tx s).outcome = .ok) :
    ∃ m m2, anteHandle cfg tx false s = .ok ((deliverTx cfg tx s).afterAnte, m) ∧
      runSteps cfg tx tx.steps ((deliverTx cfg tx s).afterAnte.ledger, m) = .ok ((deliverTx cfg tx s).afterMsgs, m2) ∧
      invoke cfg tx m2 ⟨(deliverTx cfg tx s).afterMsgs, (deliverTx cfg tx s).afterAnte.allow,
          (deliverTx cfg tx s).afterAnte.seq⟩ = .ok (deliverTx cfg tx s).final := by
  unfold deliverTx at h ⊢
  cases hA : anteHandle cfg tx false s with
  | error e => simp [hA] at h
  | ok p =>
    obtain ⟨s1, m⟩ := p
    simp only [hA] at h ⊢
    by_cases ho : tx.oogMsgs = true
    · simp [ho] at h
    · simp only [ho, Bool.false_eq_true, if_false] at h ⊢
      cases hR : runSteps cfg tx tx.steps (s1.ledger, m) with
      | error e => simp [hR] at h
      | ok q =>
        obtain ⟨l2, m2⟩ := q
        simp only [hR] at h ⊢
        cases hI : invoke cfg tx m2 { s1 with ledger := l2 } with
        | error e => simp [hI] at h
        | ok s3 => exact ⟨m, m2, rfl, by simp [hR], by simp [hI]⟩

/-! ### Failure: exactly the base fee, nothing else -/

/-- **fail_charges_base_only.**  If the transaction passes the ante handler and then fails (a
message fails, an additional fee is not covered, gas runs out, or the end-of-tx sweep fails),
then every balance is what it was before, except that the paying account (fee granter if one is
used, else the payer) lost exactly `floor gas price × gas limit` and the fee collector gained
exactly that; total supply is unchanged; the payer's sequence went up by one; the fee allowance
(if used) was charged exactly the base fee. Nothing any handler did survives. -/
theorem failed_tx_charges_base_fee_only (cfg : Cfg) (tx : Tx) (s : St) (e : Err)
    (h : (deliverTx cfg tx s).outcome = .failed e) :
    (∀ a d, (deliverTx cfg tx s).final.ledger.bal a d =
        s.ledger.bal a d + feeDeltaOnFailure cfg.collector tx.from (baseFee cfg.floor tx.gas) a d) ∧
    (∀ d, (deliverTx cfg tx s).final.ledger.supply d = s.ledger.supply d) ∧
    (deliverTx cfg tx s).final.seq = s.seq + 1 ∧
    getFeePayerUsingFeeGrant tx s.allow (baseFee cfg.floor tx.gas) = .ok (tx.from, (deliverTx cfg tx s).final.allow) := by
  unfold deliverTx at h ⊢
  cases hA : anteHandle cfg tx false s with
  | error e' => simp [hA] at h
  | ok p =>
    obtain ⟨s1, m⟩ := p
    obtain ⟨_, _, h3, h4, h5, h6⟩ := ante_spec hA
    simp only [hA] at h ⊢
    by_cases ho : tx.oogMsgs = true
    · simp only [ho, if_true]; exact ⟨h4, h5, h3, h6⟩
    · simp only [ho, Bool.false_eq_true, if_false] at h ⊢
      cases hR : runSteps cfg tx tx.steps (s1.ledger, m) with
      | error e' => simp only [hR]; exact ⟨h4, h5, h3, h6⟩
      | ok q =>
        obtain ⟨l2, m2⟩ := q
        simp only [hR] at h ⊢
        cases hI : invoke cfg tx m2 { s1 with ledger := l2 } with
        | error e' => simp only [hI]; exact ⟨h4, h5, h3, h6⟩
        | ok s3 => simp [hI] at h

/-- The base fee is the floor gas price times the gas limit, in the floor price's denom. -/
theorem baseFee_amount (floor : Coin) (gas : Nat) (d : Denom) :
    Coins.amountOf (baseFee floor gas) d = if floor.1 = d then floor.2 * gas else 0 := by
  unfold baseFee
  by_cases hz : floor.2 * gas = 0
  · simp [hz]
  · simp [hz]

/-- A transaction the ante handler rejects in the block changes nothing at all.  (One call: the
model of `runTx` returns the state it was given.  Over the whole chain state — every account's
sequence, every allowance — and inside any sequence: `PvProofs.C08Seq.seq_rejected_tx_changes_nothing`.) -/
theorem rejected_tx_changes_nothing (cfg : Cfg) (tx : Tx) (s : St) (e : Err)
    (h : (deliverTx cfg tx s).outcome = .rejected e) :
    (deliverTx cfg tx s).final.ledger = s.ledger ∧ (deliverTx cfg tx s).final.seq = s.seq := by
  unfold deliverTx at h ⊢
  cases hA : anteHandle cfg tx false s with
  | error e' => simp [hA]
  | ok p =>
    obtain ⟨s1, m⟩ := p
    simp only [hA] at h
    split_ifs at h
    split at h
    · simp at h
    · split at h <;> simp at h

/-! ### Success: exactly the declared fee, distributed exactly -/

/-- **success_charges_declared + distribution_exact.**  If the transaction succeeds, then for
EVERY account `a` and denom `d`, the fee-related balance change (ante-handler change plus sweep
change; the handlers' own changes lie between `afterAnte` and `afterMsgs`) is exactly:
`− declared` for the paying account, `+ Σ ⌊fee·bips/10000⌋` over the fees incurred with `a` as
recipient, and for the fee collector `+ declared − Σ recipients' shares`. In particular the
paying account is never charged more than the declared fee, and the unconsumed remainder of the
declared fee goes to the collector. -/
theorem successful_tx_charges_declared_fee (cfg : Cfg) (tx : Tx) (s : St)
    (hc : cfg.collector ≠ "") (hwf : StepsWf tx.steps)
    (h : (deliverTx cfg tx s).outcome = .ok) (a : Addr) (d : Denom) :
    ((deliverTx cfg tx s).afterAnte.ledger.bal a d - s.ledger.bal a d) +
      ((deliverTx cfg tx s).final.ledger.bal a d - (deliverTx cfg tx s).afterMsgs.bal a d) =
    feeDeltaOnSuccess cfg.collector tx.from tx.fee (stepsIncurred cfg tx.steps) a d := by
  obtain ⟨m, m2, hA, hR, hI⟩ := success_stages cfg tx s h
  obtain ⟨a1, a2, _, a4, _, _⟩ := ante_spec hA
  have hacct : Acct m.used [] := by rw [a1]; exact acct_nil
  obtain ⟨hb, hA2⟩ := runSteps_acct tx.steps hwf hacct hR
  simp only [List.nil_append] at hA2
  obtain ⟨i1, _, _, _, _⟩ := invoke_spec hc hA2 hI
  have e1 := i1 a d
  have e2 := a4 a d
  rw [hb, a2 d] at e1
  dsimp only at e1
  unfold feeDeltaOnFailure at e2
  unfold feeDeltaOnSuccess
  rw [ite_eq_comm a tx.from] at e2
  rw [ite_eq_comm a tx.from]
  split_ifs at e1 e2 ⊢ <;> omega

/-- The payer's side of the previous theorem, in plain words: a paying account that is neither a
fee recipient nor the collector is debited exactly the declared fee — never more. -/
theorem success_debit_is_declared_fee (cfg : Cfg) (tx : Tx) (s : St)
    (hc : cfg.collector ≠ "") (hwf : StepsWf tx.steps) (h : (deliverTx cfg tx s).outcome = .ok)
    (hsrc : tx.from ≠ cfg.collector) (d : Denom) (hnr : owedTo tx.from d (stepsIncurred cfg tx.steps) = 0) :
    ((deliverTx cfg tx s).afterAnte.ledger.bal tx.from d - s.ledger.bal tx.from d) +
      ((deliverTx cfg tx s).final.ledger.bal tx.from d - (deliverTx cfg tx s).afterMsgs.bal tx.from d) =
    - Coins.amountOf tx.fee d := by
  rw [successful_tx_charges_declared_fee cfg tx s hc hwf h]
  unfold feeDeltaOnSuccess
  simp [hsrc, hnr]

/-- **distribution_exact** for a recipient: an account that is neither paying nor the collector
receives exactly what it is owed: the sum over the incurred fees naming it of `⌊amt·bips/10000⌋`. -/
theorem recipient_gets_exact_share (cfg : Cfg) (tx : Tx) (s : St)
    (hc : cfg.collector ≠ "") (hwf : StepsWf tx.steps) (h : (deliverTx cfg tx s).outcome = .ok)
    (a : Addr) (ha : a ≠ "") (h1 : a ≠ tx.from) (h2 : a ≠ cfg.collector) (d : Denom) :
    ((deliverTx cfg tx s).afterAnte.ledger.bal a d - s.ledger.bal a d) +
      ((deliverTx cfg tx s).final.ledger.bal a d - (deliverTx cfg tx s).afterMsgs.bal a d) =
    owedTo a d (stepsIncurred cfg tx.steps) := by
  rw [successful_tx_charges_declared_fee cfg tx s hc hwf h]
  unfold feeDeltaOnSuccess
  simp [ha, h1, h2]

/-- The collector (when it is not the paying account) gets the declared fee minus the recipients'
shares: the module part of every incurred fee plus the unconsumed remainder. -/
theorem collector_gets_the_rest (cfg : Cfg) (tx : Tx) (s : St)
    (hc : cfg.collector ≠ "") (hwf : StepsWf tx.steps) (h : (deliverTx cfg tx s).outcome = .ok)
    (hsrc : tx.from ≠ cfg.collector) (d : Denom) :
    ((deliverTx cfg tx s).afterAnte.ledger.bal cfg.collector d - s.ledger.bal cfg.collector d) +
      ((deliverTx cfg tx s).final.ledger.bal cfg.collector d - (deliverTx cfg tx s).afterMsgs.bal cfg.collector d) =
    owedTo cfg.collector d (stepsIncurred cfg tx.steps) +
      (Coins.amountOf tx.fee d - owedRecipients d (stepsIncurred cfg tx.steps)) := by
  rw [successful_tx_charges_declared_fee cfg tx s hc hwf h]
  unfold feeDeltaOnSuccess
  have : ¬ cfg.collector = tx.from := fun e => hsrc e.symm
  simp [hc, this]

/-- What a recipient is owed per incurred fee is the floor of `amt·bips/10000`, between 0 and the
fee (the arithmetic of `SplitCoinByBips`, C19). -/
theorem share_is_floor (i : Incurred) (hr : i.recipient ≠ "") (ha : 0 ≤ i.amt) (hb : i.bips ≤ 10000) :
    IsFloorDiv (i.amt * i.bips) 10000 i.share ∧ 0 ≤ i.share ∧ i.share ≤ i.amt := by
  have hfl : IsFloorDiv (i.amt * i.bips) 10000 i.share := by
    unfold Incurred.share; simp only [hr, if_false]; exact floorDiv_isFloor _ (by decide)
  obtain ⟨r, m, _, hfl', hsum, h0, hm⟩ := PvProofs.C19.splitByBips_floor_and_adds_up ha hb
  have : i.share = r := isFloorDiv_unique (by decide) hfl hfl'
  exact ⟨hfl, by omega, by omega⟩

/-- **nothing lost**: neither the ante handler nor the sweep creates or destroys coins. -/
theorem fees_conserve_supply (cfg : Cfg) (tx : Tx) (s : St)
    (hc : cfg.collector ≠ "") (hwf : StepsWf tx.steps) (h : (deliverTx cfg tx s).outcome = .ok) (d : Denom) :
    (deliverTx cfg tx s).afterAnte.ledger.supply d = s.ledger.supply d ∧
    (deliverTx cfg tx s).final.ledger.supply d = (deliverTx cfg tx s).afterMsgs.supply d ∧
    (deliverTx cfg tx s).final.seq = s.seq + 1 := by
  obtain ⟨m, m2, hA, hR, hI⟩ := success_stages cfg tx s h
  obtain ⟨a1, _, a3, _, a5, _⟩ := ante_spec hA
  have hacct : Acct m.used [] := by rw [a1]; exact acct_nil
  obtain ⟨_, hA2⟩ := runSteps_acct tx.steps hwf hacct hR
  simp only [List.nil_append] at hA2
  obtain ⟨_, _, i3, i4, _⟩ := invoke_spec hc hA2 hI
  exact ⟨a5 d, i3 d, by rw [i4]; exact a3⟩

/-! ### Every additional fee is covered by the declared fee, or the transaction fails -/

/-- **additional_fees_covered_or_fail.**  If the transaction succeeds then, per denom, the base
fee plus EVERY additional fee incurred — by top-level messages, by messages dispatched inside
authz `MsgExec` (any nesting depth), by custom assessed fees and by handler-level fees — is at
most the declared fee. -/
theorem additional_fees_covered_or_fail (cfg : Cfg) (tx : Tx) (s : St)
    (hc : cfg.collector ≠ "") (hwf : StepsWf tx.steps) (h : (deliverTx cfg tx s).outcome = .ok) (d : Denom) :
    Coins.amountOf (baseFee cfg.floor tx.gas) d + totalIncurred d (stepsIncurred cfg tx.steps) ≤
      Coins.amountOf tx.fee d := by
  obtain ⟨m, m2, hA, hR, hI⟩ := success_stages cfg tx s h
  obtain ⟨a1, a2, _, _, _, _⟩ := ante_spec hA
  have hacct : Acct m.used [] := by rw [a1]; exact acct_nil
  obtain ⟨hb, hA2⟩ := runSteps_acct tx.steps hwf hacct hR
  simp only [List.nil_append] at hA2
  obtain ⟨_, i2, _, _, _⟩ := invoke_spec hc hA2 hI
  have := i2 d
  rw [hb, a2 d] at this
  omega

/-- Contrapositive: an uncovered additional fee makes the transaction fail (or be rejected). -/
theorem uncovered_fee_never_succeeds (cfg : Cfg) (tx : Tx) (s : St)
    (hc : cfg.collector ≠ "") (hwf : StepsWf tx.steps) (d : Denom)
    (hun : Coins.amountOf tx.fee d <
      Coins.amountOf (baseFee cfg.floor tx.gas) d + totalIncurred d (stepsIncurred cfg tx.steps)) :
    (deliverTx cfg tx s).outcome ≠ .ok := by
  intro h
  have := additional_fees_covered_or_fail cfg tx s hc hwf h d
  omega

/-- A routed message incurs its fees wherever it sits in the step list — in particular when it
was dispatched from inside a `MsgExec` (the router sees it like any other).  (Additivity of the
sum only; what the step list of a NESTED body is, and that its fees are those of the tree's
messages, is `flatten_routes_exactly_the_tree` / `flattened_fees_are_the_tree_fees` /
`tree_tx_nested_fees_covered_or_fail` below.) -/
theorem nested_message_fees_are_incurred (cfg : Cfg) (pre post : List Step) (m : RMsg) (d : Denom) :
    totalIncurred d (stepsIncurred cfg (pre ++ .route m :: post)) =
      totalIncurred d (stepsIncurred cfg pre) + totalIncurred d (incurredOf cfg m) +
      totalIncurred d (stepsIncurred cfg post) := by
  induction pre with
  | nil => simp [stepsIncurred, stepIncurred, totalIncurred_append, totalIncurred]
  | cons s rest ih => simp only [List.cons_append, stepsIncurred, totalIncurred_append, ih]; omega

/-! ### Nested messages: the body as a tree

The step lists above are what the router sees.  A transaction body is a `Forest` of messages
(authz `MsgExec` dispatching inner messages, to any depth, through the same router);
`Forest.flatten` is the order in which the router and the handlers act on it (fees of a message
consumed BEFORE its handler runs: `PvProofs.C08Facts.router_consumes_fees_before_handler`), and
the correspondence driver builds `tx.steps` / `tx.top` as `flatten` / `roots` of the parsed body.
`forestIncurred` says, over the TREE, what is owed: the fees of ALL its messages plus the
handler-level ones. -/

/-- The router routes exactly the messages of the tree — every one of them, nested ones
included, once, in pre-order — and nothing else. -/
theorem flatten_routes_exactly_the_tree (f : Forest) (hwf : f.wf = true) :
    routed f.flatten = f.allMsgs := flatten_routed f hwf

/-- **The fee list of a nested body is the flattening of the tree's messages.**  What the
flattened run incurs is, per denom, the fees of the ROOT messages (all the mempool check sees)
plus the fees of every NESTED message at any depth plus the handler-level fees; and every
recipient — and the recipients as a whole — is owed exactly what the tree says. -/
theorem flattened_fees_are_the_tree_fees (cfg : Cfg) (f : Forest) (a : Addr) (d : Denom) :
    totalIncurred d (stepsIncurred cfg f.flatten) =
      totalIncurred d (topIncurred cfg f.roots) + totalIncurred d (topIncurred cfg f.nested) +
        totalIncurred d (stepsIncurred cfg f.handlerSteps) ∧
    owedTo a d (stepsIncurred cfg f.flatten) = owedTo a d (forestIncurred cfg f) ∧
    owedRecipients d (stepsIncurred cfg f.flatten) = owedRecipients d (forestIncurred cfg f) := by
  refine ⟨?_, forest_sum _ (owedTo_append a d) cfg f, forest_sum _ (owedRecipients_append d) cfg f⟩
  rw [forest_sum _ (totalIncurred_append d) cfg f]
  unfold forestIncurred
  rw [totalIncurred_append, sum_roots_nested _ (by rfl) (totalIncurred_append d) cfg f]

/-- **Nested fees are covered by the declared fee or the transaction fails.**  A transaction
whose body is the tree `f` and that succeeds declared, per denom, at least floor × gas + the fees
of its root messages + the fees of EVERY nested message + the handler-level fees. -/
theorem tree_tx_nested_fees_covered_or_fail (cfg : Cfg) (tx : Tx) (s : St) (f : Forest)
    (hs : tx.steps = f.flatten) (hc : cfg.collector ≠ "") (hwf : StepsWf tx.steps)
    (h : (deliverTx cfg tx s).outcome = .ok) (d : Denom) :
    Coins.amountOf (baseFee cfg.floor tx.gas) d +
      (totalIncurred d (topIncurred cfg f.roots) + totalIncurred d (topIncurred cfg f.nested) +
        totalIncurred d (stepsIncurred cfg f.handlerSteps)) ≤ Coins.amountOf tx.fee d := by
  have := additional_fees_covered_or_fail cfg tx s hc hwf h d
  rw [hs, (flattened_fees_are_the_tree_fees cfg f "" d).1] at this
  exact this

/-- … in particular the fees of each single message of the tree, however deeply nested, on top
of the base fee. -/
theorem tree_tx_every_message_covered_or_fail (cfg : Cfg) (tx : Tx) (s : St) (f : Forest)
    (hs : tx.steps = f.flatten) (hf : f.wf = true) (hc : cfg.collector ≠ "") (hwf : StepsWf tx.steps)
    (h : (deliverTx cfg tx s).outcome = .ok) (m : RMsg) (hm : m ∈ f.allMsgs) (d : Denom) :
    Coins.amountOf (baseFee cfg.floor tx.gas) d + totalIncurred d (incurredOf cfg m) ≤
      Coins.amountOf tx.fee d := by
  have h1 := additional_fees_covered_or_fail cfg tx s hc hwf h d
  have h2 := routed_message_fee_le_total cfg tx.steps hwf m
    (by rw [hs, flatten_routes_exactly_the_tree f hf]; exact hm) d
  omega

/-- **… and is paid to its configured recipient and the collector, nothing lost**: on success the
fee-related change of every account is the one the TREE prescribes — the declared fee from the
paying account, to each recipient `⌊fee·bips/10000⌋` for every message of the tree (nested
included) naming it, the rest to the collector. -/
theorem tree_tx_success_distribution (cfg : Cfg) (tx : Tx) (s : St) (f : Forest)
    (hs : tx.steps = f.flatten) (hc : cfg.collector ≠ "") (hwf : StepsWf tx.steps)
    (h : (deliverTx cfg tx s).outcome = .ok) (a : Addr) (d : Denom) :
    ((deliverTx cfg tx s).afterAnte.ledger.bal a d - s.ledger.bal a d) +
      ((deliverTx cfg tx s).final.ledger.bal a d - (deliverTx cfg tx s).afterMsgs.bal a d) =
    feeDeltaOnSuccess cfg.collector tx.from tx.fee (forestIncurred cfg f) a d := by
  rw [successful_tx_charges_declared_fee cfg tx s hc hwf h a d, hs]
  unfold feeDeltaOnSuccess
  rw [(flattened_fees_are_the_tree_fees cfg f a d).2.1, (flattened_fees_are_the_tree_fees cfg f a d).2.2]

/-! ### Mempool admission -/

/-- **rejected_by_mempool_never_charged.**  A transaction `CheckTx` rejects leaves the mempool
state untouched (no balance, allowance or sequence change).  (One call: `checkTx` returns the
state it was given.  WHICH transactions are refused: `under_declared_fee_is_rejected`,
`fee_rejection_iff`; over a history of arrivals on the mempool's whole state:
`PvProofs.C08Seq.mempool_charges_only_admitted_txs`.) -/
theorem mempool_reject_never_charged (cfg : Cfg) (tx : Tx) (s : St) (e : Err)
    (h : (checkTx cfg tx s).2 = some e) : (checkTx cfg tx s).1 = s := by
  unfold checkTx at h ⊢
  split
  · rfl
  · rename_i s1 m hA; simp [hA] at h

/-- A transaction admitted by `CheckTx` passes the ante handler when delivered on the same state
(unless the ante handler runs out of gas there — observed), so it is never executed for free:
it is charged the base fee (failure) or the declared fee (success). -/
theorem admitted_tx_is_charged (cfg : Cfg) (tx : Tx) (s : St)
    (h : (checkTx cfg tx s).2 = none) (hg : tx.oogAnte = false) :
    ∀ e, (deliverTx cfg tx s).outcome ≠ .rejected e := by
  unfold checkTx at h
  cases hC : anteHandle cfg tx true s with
  | error e' => simp [hC] at h
  | ok p =>
    obtain ⟨q, hq⟩ := ante_check_ok_imp_deliver_ok hC hg
    exact not_rejected_of_ante_ok hq

/-- The recheck case: a transaction that SURVIVED THE RECHECK under the configuration `cfg'` then
in force (not the one it was admitted under) passes the ante handler when delivered under `cfg'`
on the rechecked state: it is charged the base fee of `cfg'` (failure) or its declared fee
(success), never executed for free. -/
theorem rechecked_tx_is_charged (cfg' : Cfg) (tx : Tx) (s : St)
    (h : (recheckTx cfg' tx s).2 = none) (hg : tx.oogAnte = false) :
    ∀ e, (deliverTx cfg' tx s).outcome ≠ .rejected e := by
  unfold recheckTx checkTx at h
  cases hC : anteHandle cfg' { tx with oogCheck := tx.oogRecheck } true s with
  | error e' => simp [hC] at h
  | ok p =>
    obtain ⟨q, hq⟩ := ante_check_ok_imp_deliver_ok hC hg
    have hq' : anteHandle cfg' tx false s = .ok q := hq
    exact not_rejected_of_ante_ok hq'

/-- Admission is, among other things, the fee sufficiency test of `MsgFeesDecorator` — a
function of the configuration and the transaction ALONE (it never reads the state). -/
theorem admitted_passes_fee_check (cfg : Cfg) (tx : Tx) (s0 : St)
    (h : (checkTx cfg tx s0).2 = none) : msgFeesDecorator cfg tx = true := by
  unfold checkTx at h
  cases hC : anteHandle cfg tx true s0 with
  | error e' => simp [hC] at h
  | ok p =>
    by_contra hne
    simp only [anteHandle, if_true, true_and, hne, not_false_eq_true] at hC
    split_ifs at hC

/-- … and the recheck is the same test under the configuration then in force. -/
theorem rechecked_passes_fee_check (cfg' : Cfg) (tx : Tx) (s1 : St)
    (h : (recheckTx cfg' tx s1).2 = none) : msgFeesDecorator cfg' tx = true :=
  admitted_passes_fee_check cfg' { tx with oogCheck := tx.oogRecheck } s1 h

/-- What the fee sufficiency test guarantees, with no state in sight: the declared fee (a valid,
non-negative coin set) covers, per denom, the base fee plus the additional fees of all TOP-LEVEL
messages. -/
theorem fee_check_covers_base_and_top_level (cfg : Cfg) (tx : Tx)
    (hfee : ∀ d, 0 ≤ Coins.amountOf tx.fee d) (hm : msgFeesDecorator cfg tx = true) (d : Denom) :
    Coins.amountOf (baseFee cfg.floor tx.gas) d + totalIncurred d (topIncurred cfg tx.top) ≤
      Coins.amountOf tx.fee d := by
  unfold msgFeesDecorator at hm
  split at hm
  · cases hm
  · rename_i D hD
    have hacc := calc_list_acct tx.top dacct_empty hD
    simp only [List.nil_append] at hacc
    unfold ensureSufficientFloorAndMsgFees at hm
    simp only [Bool.or_eq_true] at hm
    unfold topIncurred
    rw [← hacc.total d]
    rcases hm with hz | hcov
    · have := isZero_iff.mp hz d
      simp only [Coins.amountOf_append] at this
      have := hfee d; omega
    · have := covers_all hfee hcov d
      simpa using this

/-- What the mempool check guarantees: the declared fee (a valid, non-negative coin set) covers,
per denom, the base fee plus the additional fees of all TOP-LEVEL messages — whatever the state
`s` it was admitted on. Hence a failed admitted transaction (charged the base fee) is never
charged more than it declared. -/
theorem admitted_fee_covers_base_and_top_level (cfg : Cfg) (tx : Tx) (s : St)
    (hfee : ∀ d, 0 ≤ Coins.amountOf tx.fee d)
    (h : (checkTx cfg tx s).2 = none) (d : Denom) :
    Coins.amountOf (baseFee cfg.floor tx.gas) d + totalIncurred d (tx.top.flatMap (incurredOf cfg)) ≤
      Coins.amountOf tx.fee d :=
  fee_check_covers_base_and_top_level cfg tx hfee (admitted_passes_fee_check cfg tx s h) d

/-- The mempool check sees the ROOTS of the tree only: admission (on any state) guarantees floor ×
gas + the root messages' fees; the nested messages' fees are enforced at execution
(`tree_tx_nested_fees_covered_or_fail`) — an under-declaring nested transaction is admitted, fails
and pays the base fee (`Examples`). -/
theorem tree_tx_mempool_sees_roots_only (cfg : Cfg) (tx : Tx) (s0 : St) (f : Forest)
    (ht : tx.top = f.roots) (hfee : ∀ d, 0 ≤ Coins.amountOf tx.fee d)
    (h : (checkTx cfg tx s0).2 = none) (d : Denom) :
    Coins.amountOf (baseFee cfg.floor tx.gas) d + totalIncurred d (topIncurred cfg f.roots) ≤
      Coins.amountOf tx.fee d := by
  rw [← ht]
  exact fee_check_covers_base_and_top_level cfg tx hfee (admitted_passes_fee_check cfg tx s0 h) d

/-- … in particular the base fee alone never exceeds the declared fee of an admitted transaction. -/
theorem admitted_base_fee_le_declared (cfg : Cfg) (tx : Tx) (s : St)
    (hfee : ∀ d, 0 ≤ Coins.amountOf tx.fee d)
    (h : (checkTx cfg tx s).2 = none) (d : Denom) :
    Coins.amountOf (baseFee cfg.floor tx.gas) d ≤ Coins.amountOf tx.fee d := by
  have h1 := admitted_fee_covers_base_and_top_level cfg tx s hfee h d
  have hnn : ∀ (is : List Incurred), (∀ i ∈ is, 0 < i.amt) → 0 ≤ totalIncurred d is := by
    intro is
    induction is with
    | nil => intro _; simp [totalIncurred]
    | cons x t ih =>
      intro hp
      have := hp x (by simp)
      have := ih (fun i hi => hp i (by simp [hi]))
      simp only [totalIncurred]; split_ifs <;> omega
  have := hnn (tx.top.flatMap (incurredOf cfg)) (by
    intro i hi
    simp only [List.mem_flatMap] at hi
    obtain ⟨m, _, hm⟩ := hi
    exact incurredOf_pos cfg m i hm)
  omega

/-- The mempool state of an admitted transaction is charged exactly the base fee (what a later
failure would cost) and the sequence advances — nothing else. -/
theorem admitted_mempool_state_charged_base (cfg : Cfg) (tx : Tx) (s : St)
    (h : (checkTx cfg tx s).2 = none) :
    (∀ a d, (checkTx cfg tx s).1.ledger.bal a d =
        s.ledger.bal a d + feeDeltaOnFailure cfg.collector tx.from (baseFee cfg.floor tx.gas) a d) ∧
    (checkTx cfg tx s).1.seq = s.seq + 1 := by
  unfold checkTx at h ⊢
  cases hC : anteHandle cfg tx true s with
  | error e' => simp [hC] at h
  | ok p =>
    obtain ⟨s1, m⟩ := p
    obtain ⟨_, _, h3, h4, _, _⟩ := ante_spec hC
    exact ⟨h4, h3⟩

/-- The mempool check answers "insufficient fee" exactly when the fee sufficiency test fails
(and the gas observations / gas limit let it be reached) — a condition on the configuration and
the transaction only. -/
theorem fee_rejection_iff (cfg : Cfg) (tx : Tx) (s : St) :
    (checkTx cfg tx s).2 = some .fee ↔
      (tx.oogCheck = false ∧ tx.gas ≤ gasTxLimit ∧ msgFeesDecorator cfg tx = false) := by
  unfold checkTx anteHandle
  simp only [if_true, true_and]
  by_cases h1 : tx.oogCheck = true
  · simp [h1]
  · by_cases h2 : tx.gas > gasTxLimit
    · simp [h1, h2]
    · by_cases h3 : msgFeesDecorator cfg tx = true
      · simp only [h1, h2, h3, not_true_eq_false, if_false, Bool.false_eq_true]
        cases hcd : checkDeductBaseFee cfg tx s with
        | error e =>
          have := checkDeduct_err_ne_fee hcd
          simp [this]
        | ok p =>
          simp only []
          split_ifs <;> simp
      · simp [h1, h2, h3]; omega

/-- **The fee verdict of the mempool check does not depend on the state.**  Whether `CheckTx`
answers "insufficient fee" is the same on every state: on the mempool state when the transaction
arrives, on the state committed before a recheck, on the state of the block that executes it.
(What DOES depend on the state — funds for the base fee, the allowance, the sequence — is checked
again by the ante handler in the block.) -/
theorem fee_rejection_is_state_independent (cfg : Cfg) (tx : Tx) (s0 s : St) :
    (checkTx cfg tx s0).2 = some .fee ↔ (checkTx cfg tx s).2 = some .fee := by
  rw [fee_rejection_iff, fee_rejection_iff]

/-- **never more than declared**, failure side, ACROSS STATES: a transaction admitted by the
mempool check on ANY state `s0` (the mempool state when it arrived) that is executed on ANY state
`s` (whatever the transactions and blocks in between did to balances, allowances and sequences)
and fails costs the paying account (when it is not the collector itself) at most its declared
fee.  The fee test reads the configuration and the transaction only, so nothing relates `s0` to `s`. -/
theorem failed_admitted_tx_never_overcharged (cfg : Cfg) (tx : Tx) (s0 s : St) (e : Err)
    (hfee : ∀ d, 0 ≤ Coins.amountOf tx.fee d) (hadm : (checkTx cfg tx s0).2 = none)
    (h : (deliverTx cfg tx s).outcome = .failed e) (hsrc : tx.from ≠ cfg.collector) (d : Denom) :
    s.ledger.bal tx.from d - Coins.amountOf tx.fee d ≤ (deliverTx cfg tx s).final.ledger.bal tx.from d := by
  obtain ⟨h1, _, _, _⟩ := failed_tx_charges_base_fee_only cfg tx s e h
  rw [h1 tx.from d]
  unfold feeDeltaOnFailure
  have := admitted_base_fee_le_declared cfg tx s0 hfee hadm d
  simp [hsrc]
  omega

/-- … the recheck variant: the transaction survived `CheckTx(Recheck)` under `cfg'` on ANY
committed state `s1` and is executed under `cfg'` on ANY state `s`. -/
theorem failed_rechecked_tx_never_overcharged (cfg' : Cfg) (tx : Tx) (s1 s : St) (e : Err)
    (hfee : ∀ d, 0 ≤ Coins.amountOf tx.fee d) (hre : (recheckTx cfg' tx s1).2 = none)
    (h : (deliverTx cfg' tx s).outcome = .failed e) (hsrc : tx.from ≠ cfg'.collector) (d : Denom) :
    s.ledger.bal tx.from d - Coins.amountOf tx.fee d ≤ (deliverTx cfg' tx s).final.ledger.bal tx.from d := by
  obtain ⟨h1, _, _, _⟩ := failed_tx_charges_base_fee_only cfg' tx s e h
  rw [h1 tx.from d]
  unfold feeDeltaOnFailure
  have := admitted_base_fee_le_declared cfg' { tx with oogCheck := tx.oogRecheck } s1 hfee hre d
  simp [hsrc]
  simp at this
  omega

/-! ### The mempool recheck: a change of the fee schedule between admission and execution

CometBFT re-runs the mempool check (`CheckTx(Recheck)`) on every transaction still in its mempool
after each commit.  `recheckTx` models it, `life` the whole history: admission under `cfg`, a
committed block setting `cfg'`, recheck on the committed state, execution under `cfg'` if the
transaction is still in the mempool. -/

/-- A transaction the recheck evicts leaves the mempool state untouched: never charged.  (One
call, as `mempool_reject_never_charged`; the substance is in `under_declared_fee_is_rejected`,
`evicted_tx_never_executed` and `PvProofs.C08Seq.mempool_charges_only_admitted_txs`.) -/
theorem recheck_reject_never_charged (cfg : Cfg) (tx : Tx) (s : St) (e : Err)
    (h : (recheckTx cfg tx s).2 = some e) : (recheckTx cfg tx s).1 = s :=
  mempool_reject_never_charged cfg _ s e h

/-- What surviving a recheck guarantees: the declared fee covers, per denom, the base fee and the
top-level messages' additional fees under the configuration in force AT THE RECHECK (not the one
the transaction was first admitted under). -/
theorem rechecked_fee_covers_base_and_top_level (cfg' : Cfg) (tx : Tx) (s : St)
    (hfee : ∀ d, 0 ≤ Coins.amountOf tx.fee d)
    (h : (recheckTx cfg' tx s).2 = none) (d : Denom) :
    Coins.amountOf (baseFee cfg'.floor tx.gas) d + totalIncurred d (topIncurred cfg' tx.top) ≤
      Coins.amountOf tx.fee d :=
  admitted_fee_covers_base_and_top_level cfg' { tx with oogCheck := tx.oogRecheck } s hfee h d

/-- **those the mempool check rejects must be rejected and never charged.**  A declared fee that
is not `admissible` (in some denom below floor × gas + the top-level messages' fees) is refused
both on arrival and on any recheck, against whatever configuration is then in force, and the
mempool state is not touched. -/
theorem under_declared_fee_is_rejected (cfg : Cfg) (tx : Tx) (s : St)
    (hfee : ∀ d, 0 ≤ Coins.amountOf tx.fee d) (ds : List Denom)
    (h : admissible cfg tx.fee tx.gas tx.top ds = false) :
    ((checkTx cfg tx s).2 ≠ none ∧ (checkTx cfg tx s).1 = s) ∧
    ((recheckTx cfg tx s).2 ≠ none ∧ (recheckTx cfg tx s).1 = s) := by
  have key : ∀ tx' : Tx, tx'.fee = tx.fee → tx'.gas = tx.gas → tx'.top = tx.top →
      (checkTx cfg tx' s).2 ≠ none ∧ (checkTx cfg tx' s).1 = s := by
    intro tx' h1 h2 h3
    have hne : (checkTx cfg tx' s).2 ≠ none := by
      intro hadm
      have hcov : admissible cfg tx.fee tx.gas tx.top ds = true := by
        unfold admissible covered
        rw [List.all_eq_true]
        intro d _
        have := admitted_fee_covers_base_and_top_level cfg tx' s (by rw [h1]; exact hfee) hadm d
        rw [h1, h2, h3] at this
        simp only [topIncurred]
        exact decide_eq_true this
      rw [hcov] at h; cases h
    refine ⟨hne, ?_⟩
    cases he : (checkTx cfg tx' s).2 with
    | none => exact absurd he hne
    | some e => exact mempool_reject_never_charged cfg tx' s e he
  exact ⟨key tx rfl rfl rfl, key { tx with oogCheck := tx.oogRecheck } rfl rfl rfl⟩

/-- What "executed from the mempool" means in `life` (no forced inclusion), for INDEPENDENT
admission state `s0`, recheck state `s1` and execution state `s`: the run is the delivery on `s`
under the configuration in force at execution, and the transaction passed every mempool check it
went through — each on its own state.  (Unfolds the definition; the substance is in the theorems
that use it: `evicted_tx_never_executed`, `mempool_tx_never_charged_more_than_declared`,
`mempool_tx_failure_cost`.) -/
theorem life_run_spec (cfg cfg' : Cfg) (re : Bool) (tx : Tx) (s0 s1 s : St) (r : Run)
    (hr : (life cfg cfg' re false tx s0 s1 s).run = some r) :
    (checkTx cfg tx s0).2 = none ∧
    ((re = false ∧ r = deliverTx cfg tx s) ∨
     (re = true ∧ r = deliverTx cfg' tx s ∧ (recheckTx cfg' tx s1).2 = none)) := by
  unfold life at hr
  cases hc : (checkTx cfg tx s0) with
  | mk cs cerr =>
    simp only [hc] at hr
    cases cerr with
    | some e => simp at hr
    | none =>
      refine ⟨rfl, ?_⟩
      cases re with
      | false => simp at hr; exact Or.inl ⟨rfl, hr.symm⟩
      | true =>
        cases hrc : (recheckTx cfg' tx s1) with
        | mk rs rerr =>
          simp only [hrc, if_true] at hr
          cases rerr with
          | some e => simp at hr
          | none => simp at hr; exact Or.inr ⟨rfl, hr.symm, rfl⟩

/-- A transaction evicted by the recheck is not executed — on whatever state a block would have
run it — and the recheck charged nothing. -/
theorem evicted_tx_never_executed (cfg cfg' : Cfg) (tx : Tx) (s0 s1 s : St) (e : Err)
    (hadm : (checkTx cfg tx s0).2 = none) (hev : (recheckTx cfg' tx s1).2 = some e) :
    (life cfg cfg' true false tx s0 s1 s).run = none ∧ (life cfg cfg' true false tx s0 s1 s).inMempool = false ∧
    (life cfg cfg' true false tx s0 s1 s).recheckSt = s1 := by
  have hst := recheck_reject_never_charged cfg' tx s1 e hev
  unfold life
  cases hc : (checkTx cfg tx s0) with
  | mk cs cerr =>
    rw [hc] at hadm
    simp only at hadm
    subst hadm
    cases hrc : (recheckTx cfg' tx s1) with
    | mk rs rerr =>
      rw [hrc] at hev hst
      simp only at hev hst
      subst hev
      simp [hst]

/-- **never more than declared**, over the whole mempool history: admitted on ANY mempool state
`s0` under `cfg`, (optionally) rechecked on ANY committed state `s1` under whatever `cfg'` a
committed block changed the configuration to, executed on ANY state `s` — a transaction executed
from the mempool that fails costs the paying account at most its declared fee (it costs exactly
floor × gas under the configuration in force at execution, by `failed_tx_charges_base_fee_only`;
on success exactly the declared fee, by `successful_tx_charges_declared_fee`). -/
theorem mempool_tx_never_charged_more_than_declared (cfg cfg' : Cfg) (re : Bool) (tx : Tx) (s0 s1 s : St)
    (r : Run) (e : Err) (hfee : ∀ d, 0 ≤ Coins.amountOf tx.fee d)
    (hsrc : tx.from ≠ cfg.collector) (hsrc' : tx.from ≠ cfg'.collector)
    (hr : (life cfg cfg' re false tx s0 s1 s).run = some r) (hf : r.outcome = .failed e) (d : Denom) :
    s.ledger.bal tx.from d - Coins.amountOf tx.fee d ≤ r.final.ledger.bal tx.from d := by
  obtain ⟨hadm, h | h⟩ := life_run_spec cfg cfg' re tx s0 s1 s r hr
  · obtain ⟨_, rfl⟩ := h
    exact failed_admitted_tx_never_overcharged cfg tx s0 s e hfee hadm hf hsrc d
  · obtain ⟨_, rfl, hre⟩ := h
    exact failed_rechecked_tx_never_overcharged cfg' tx s1 s e hfee hre hf hsrc' d

/-- The exact cost of a failure over the mempool history: whatever the admission and recheck
states were, the execution state `s` changes by exactly the base fee of the configuration IN
FORCE AT EXECUTION moving from the paying account to the collector, plus the payer's sequence;
and that base fee is at most the declared fee in every denom. -/
theorem mempool_tx_failure_cost (cfg cfg' : Cfg) (re : Bool) (tx : Tx) (s0 s1 s : St)
    (r : Run) (e : Err) (hfee : ∀ d, 0 ≤ Coins.amountOf tx.fee d)
    (hr : (life cfg cfg' re false tx s0 s1 s).run = some r) (hf : r.outcome = .failed e) :
    ∃ cx : Cfg, (cx = if re then cfg' else cfg) ∧
      (∀ a d, r.final.ledger.bal a d =
        s.ledger.bal a d + feeDeltaOnFailure cx.collector tx.from (baseFee cx.floor tx.gas) a d) ∧
      r.final.seq = s.seq + 1 ∧
      (∀ d, Coins.amountOf (baseFee cx.floor tx.gas) d ≤ Coins.amountOf tx.fee d) := by
  obtain ⟨hadm, h | h⟩ := life_run_spec cfg cfg' re tx s0 s1 s r hr
  · obtain ⟨hre, rfl⟩ := h
    obtain ⟨h1, _, h3, _⟩ := failed_tx_charges_base_fee_only cfg tx s e hf
    exact ⟨cfg, by simp [hre], h1, h3, admitted_base_fee_le_declared cfg tx s0 hfee hadm⟩
  · obtain ⟨hre, rfl, hrc⟩ := h
    obtain ⟨h1, _, h3, _⟩ := failed_tx_charges_base_fee_only cfg' tx s e hf
    refine ⟨cfg', by simp [hre], h1, h3, fun d => ?_⟩
    have := admitted_base_fee_le_declared cfg' { tx with oogCheck := tx.oogRecheck } s1 hfee hrc d
    simpa using this

/-! ### Fee grants -/

/-- A limited `BasicAllowance` is charged exactly the fee it is used for, never overdrawn, and is
removed exactly when it is used up. -/
theorem allowance_charged_exactly (l fee : Coins) (a' : Allow) (h : useGrantedFees (.lim l) fee = .ok a') :
    (∀ d, 0 ≤ Coins.amountOf fee d ∧ Coins.amountOf fee d ≤ Coins.amountOf l d) ∧
    (match a' with
     | .lim l' => ∀ d, Coins.amountOf l' d = Coins.amountOf l d - Coins.amountOf fee d
     | .none => ∀ d, Coins.amountOf l d = Coins.amountOf fee d
     | .unl => False) := by
  unfold useGrantedFees at h
  simp only at h
  split_ifs at h with h1 h2 h3
  · have hf := nonneg_iff.mp (by simpa using h1)
    have hl := nonneg_iff.mp (by simpa using h2)
    have hz := isZero_iff.mp h3
    cases h
    refine ⟨fun d => ⟨hf d, ?_⟩, ?_⟩
    · have := hl d; simp only [Coins.amountOf_sub] at this; omega
    · intro d; have := hz d; simp only [Coins.amountOf_sub] at this; omega
  · have hf := nonneg_iff.mp (by simpa using h1)
    have hl := nonneg_iff.mp (by simpa using h2)
    cases h
    refine ⟨fun d => ⟨hf d, ?_⟩, ?_⟩
    · have := hl d; simp only [Coins.amountOf_sub] at this; omega
    · intro d; simp

/-- On success the fee grant is used twice: for the base fee in the ante handler and for
declared − base in the sweep; both uses succeed and name the granter as the paying account. -/
theorem successful_tx_uses_grant_for_declared_fee (cfg : Cfg) (tx : Tx) (s : St)
    (hc : cfg.collector ≠ "") (hwf : StepsWf tx.steps) (h : (deliverTx cfg tx s).outcome = .ok) :
    getFeePayerUsingFeeGrant tx s.allow (baseFee cfg.floor tx.gas) = .ok (tx.from, (deliverTx cfg tx s).afterAnte.allow) ∧
    ∃ rest : Coins, (∀ d, Coins.amountOf rest d = Coins.amountOf tx.fee d - Coins.amountOf (baseFee cfg.floor tx.gas) d) ∧
      getFeePayerUsingFeeGrant tx (deliverTx cfg tx s).afterAnte.allow rest = .ok (tx.from, (deliverTx cfg tx s).final.allow) := by
  obtain ⟨m, m2, hA, hR, hI⟩ := success_stages cfg tx s h
  obtain ⟨a1, a2, _, _, _, a6⟩ := ante_spec hA
  have hacct : Acct m.used [] := by rw [a1]; exact acct_nil
  obtain ⟨hb, hA2⟩ := runSteps_acct tx.steps hwf hacct hR
  simp only [List.nil_append] at hA2
  obtain ⟨_, _, _, _, i5⟩ := invoke_spec hc hA2 hI
  refine ⟨a6, Coins.sub tx.fee m2.base, ?_, i5⟩
  intro d; simp [hb, a2 d]

/-! ### The configuration in force: genesis params changed by governance messages only

"The floor gas price" a failed transaction pays, and "the configured recipient and basis-point
split", are those of the configuration in force.  That configuration is what the chain was set
up with, changed by passed governance proposals through the five x/msgfees messages
(`govHandle`, `execProposal`, `passProposal`, `applyGov`: the keeper's handlers and gov's
all-or-nothing execution).  The reference (`govSays`, `refProposal`, `refGov` in TxfeeSpec) says
what each message NAMES.  All theorems above hold for every configuration, hence for
`(applyGov cfg ps).1`; the theorems below say what that configuration is. -/

/-- One message handler leaves the floor gas price (and the fee collector) alone. -/
theorem govHandle_keeps_floor {cfg cfg' : Cfg} {m : GovMsg} (h : govHandle cfg m = .ok cfg') :
    cfg'.floor = cfg.floor ∧ cfg'.collector = cfg.collector := by
  cases m with
  | rate n => simp only [govHandle, updateNhashPerUsdMilParam] at h; cases h; exact ⟨rfl, rfl⟩
  | denom d => simp only [govHandle, updateConversionFeeDenomParam] at h; cases h; exact ⟨rfl, rfl⟩
  | add t f r b =>
    simp only [govHandle, addMsgFee] at h
    split_ifs at h
    split at h
    · cases h
    · split at h
      · cases h
      · cases h; exact ⟨rfl, rfl⟩
  | upd t f r b =>
    simp only [govHandle, updateMsgFee] at h
    split_ifs at h
    split at h
    · cases h
    · split at h
      · cases h
      · cases h; exact ⟨rfl, rfl⟩
  | rm t =>
    simp only [govHandle, removeMsgFee] at h
    split at h
    · cases h
    · cases h; exact ⟨rfl, rfl⟩

theorem execProposal_keeps_floor {cfg cfg' : Cfg} {p : List GovMsg} (h : execProposal cfg p = .ok cfg') :
    cfg'.floor = cfg.floor ∧ cfg'.collector = cfg.collector := by
  induction p generalizing cfg with
  | nil => simp only [execProposal] at h; cases h; exact ⟨rfl, rfl⟩
  | cons m ms ih =>
    simp only [execProposal] at h
    cases hm : govHandle cfg m with
    | error e => simp [hm] at h
    | ok c =>
      simp only [hm] at h
      obtain ⟨h1, h2⟩ := govHandle_keeps_floor hm
      obtain ⟨h3, h4⟩ := ih h
      exact ⟨h3.trans h1, h4.trans h2⟩

/-- **No governance proposal changes the floor gas price**: whatever sequence of proposals
(usd-rate updates, conversion-denom updates, message fees added / updated / removed, passing or
failing) is executed, the floor gas price in force is still the one the chain was set up with. -/
theorem governance_never_changes_floor_price (cfg : Cfg) (ps : List (List GovMsg)) :
    (applyGov cfg ps).1.floor = cfg.floor ∧ (applyGov cfg ps).1.collector = cfg.collector := by
  induction ps generalizing cfg with
  | nil => exact ⟨rfl, rfl⟩
  | cons p ps ih =>
    simp only [applyGov]
    have hp : (passProposal cfg p).1.floor = cfg.floor ∧ (passProposal cfg p).1.collector = cfg.collector := by
      unfold passProposal
      cases he : execProposal cfg p with
      | error e => exact ⟨rfl, rfl⟩
      | ok c => exact execProposal_keeps_floor he
    obtain ⟨h1, h2⟩ := ih (passProposal cfg p).1
    exact ⟨h1.trans hp.1, h2.trans hp.2⟩

/-- A proposal is all or nothing: when one of its messages is refused, nothing any earlier
message of it did stays. -/
theorem failed_proposal_changes_nothing (cfg : Cfg) (p : List GovMsg)
    (h : (passProposal cfg p).2 = false) : (passProposal cfg p).1 = cfg := by
  unfold passProposal at h ⊢
  cases he : execProposal cfg p with
  | error e => rfl
  | ok c => simp [he] at h

/-- **A governance message changes what it names and nothing else**: after a handler succeeded,
the configuration charges exactly like the one the message describes — usd rate, conversion
denom, or ONE entry of the schedule (with `DetermineBips`' defaults); every other param and every
other message type's fee are as before.  Stated up to `Cfg.same` on both sides so that it chains. -/
theorem gov_message_changes_only_what_it_names {cfg ref cfg' : Cfg} {m : GovMsg}
    (hs : Cfg.same cfg ref) (h : govHandle cfg m = .ok cfg') : Cfg.same cfg' (govSays ref m) := by
  obtain ⟨s1, s2, s3, s4, s5⟩ := hs
  have s5' : ∀ t, lk cfg.sched t = lk ref.sched t := fun t => by
    rw [← lookupFee_eq, ← lookupFee_eq]; exact s5 t
  cases m with
  | rate n =>
    simp only [govHandle, updateNhashPerUsdMilParam] at h; cases h
    exact ⟨s1, s2, rfl, s4, s5⟩
  | denom d =>
    simp only [govHandle, updateConversionFeeDenomParam] at h; cases h
    exact ⟨s1, rfl, s3, s4, s5⟩
  | add t f r b =>
    simp only [govHandle, addMsgFee] at h
    split_ifs at h
    split at h
    · cases h
    · split at h
      · cases h
      · rename_i n hb
        cases h
        refine ⟨s1, s2, s3, s4, fun t' => ?_⟩
        simp only [lookupFee_eq, govSays]
        rw [lk_setMsgFee, lk_says_set, s5' t', determineBips_ok r b n hb]
  | upd t f r b =>
    simp only [govHandle, updateMsgFee] at h
    split_ifs at h
    split at h
    · cases h
    · split at h
      · cases h
      · rename_i n hb
        cases h
        refine ⟨s1, s2, s3, s4, fun t' => ?_⟩
        simp only [lookupFee_eq, govSays]
        rw [lk_setMsgFee, lk_says_set, s5' t', determineBips_ok r b n hb]
  | rm t =>
    simp only [govHandle, removeMsgFee] at h
    split at h
    · cases h
    · cases h
      refine ⟨s1, s2, s3, s4, fun t' => ?_⟩
      simp only [lookupFee_eq, govSays]
      rw [lk_filter, lk_filter, s5' t']

theorem execProposal_refines {cfg ref cfg' : Cfg} {p : List GovMsg}
    (hs : Cfg.same cfg ref) (h : execProposal cfg p = .ok cfg') : Cfg.same cfg' (p.foldl govSays ref) := by
  induction p generalizing cfg ref with
  | nil => simp only [execProposal] at h; cases h; exact hs
  | cons m ms ih =>
    simp only [execProposal] at h
    cases hm : govHandle cfg m with
    | error e => simp [hm] at h
    | ok c =>
      simp only [hm] at h
      exact ih (gov_message_changes_only_what_it_names hs hm) h

/-- **The keeper's handlers implement the reference**: the configuration the msgfees handlers
produce from any sequence of proposals charges exactly like the reference configuration — the
set-up configuration changed in what the PASSED proposals' messages name, in order, and in
nothing else (a failed proposal contributes nothing). -/
theorem governance_refines_reference (cfg ref : Cfg) (ps : List (List GovMsg)) (hs : Cfg.same cfg ref) :
    Cfg.same (applyGov cfg ps).1 (refGov ref ps (applyGov cfg ps).2) := by
  induction ps generalizing cfg ref with
  | nil => exact hs
  | cons p ps ih =>
    simp only [applyGov, refGov]
    apply ih
    unfold passProposal refProposal
    cases he : execProposal cfg p with
    | error e => simpa using hs
    | ok c => simpa using execProposal_refines hs he

/-- The reference itself never moves the floor price either. -/
theorem reference_floor_is_configured_floor (cfg : Cfg) (ps : List (List GovMsg)) (bs : List Bool) :
    (refGov cfg ps bs).floor = cfg.floor := by
  have hsays : ∀ (p : List GovMsg) (c : Cfg), (p.foldl govSays c).floor = c.floor := by
    intro p
    induction p with
    | nil => intro c; rfl
    | cons m ms ih => intro c; simp only [List.foldl_cons]; rw [ih]; cases m <;> rfl
  have prop : ∀ (p : List GovMsg) (c : Cfg) (b : Bool), (refProposal c p b).floor = c.floor := by
    intro p c b; unfold refProposal; cases b <;> simp [hsays]
  induction ps generalizing cfg bs with
  | nil => rfl
  | cons p ps ih =>
    cases bs with
    | nil => simp only [refGov]; rw [ih, prop]
    | cons b bs => simp only [refGov]; rw [ih, prop]

/-- **A failed transaction after any governance history pays the CONFIGURED floor price.**  The
chain was set up with `cfg0`; proposals `ps` were executed (usd-rate updates included); a
transaction that then passes the ante handler and fails is debited exactly
`cfg0.floor × gas limit`, to the fee collector, and nothing else changes. -/
theorem failed_tx_after_governance_pays_configured_floor (cfg0 : Cfg) (ps : List (List GovMsg))
    (tx : Tx) (s : St) (e : Err)
    (h : (deliverTx (applyGov cfg0 ps).1 tx s).outcome = .failed e) (a : Addr) (d : Denom) :
    (deliverTx (applyGov cfg0 ps).1 tx s).final.ledger.bal a d =
      s.ledger.bal a d + feeDeltaOnFailure cfg0.collector tx.from (baseFee cfg0.floor tx.gas) a d := by
  obtain ⟨hf, hc⟩ := governance_never_changes_floor_price cfg0 ps
  have := (failed_tx_charges_base_fee_only (applyGov cfg0 ps).1 tx s e h).1 a d
  rw [hf, hc] at this
  exact this

/-- … and the mempool check after any governance history demands the CONFIGURED floor price: a
declared fee below `cfg0.floor × gas` + the top-level message fees of the schedule then in force
is rejected on arrival and on recheck, uncharged. -/
theorem under_declared_fee_after_governance_is_rejected (cfg0 : Cfg) (ps : List (List GovMsg))
    (tx : Tx) (s : St) (hfee : ∀ d, 0 ≤ Coins.amountOf tx.fee d) (ds : List Denom)
    (h : covered tx.fee (baseFee cfg0.floor tx.gas) (topIncurred (applyGov cfg0 ps).1 tx.top) ds = false) :
    ((checkTx (applyGov cfg0 ps).1 tx s).2 ≠ none ∧ (checkTx (applyGov cfg0 ps).1 tx s).1 = s) ∧
    ((recheckTx (applyGov cfg0 ps).1 tx s).2 ≠ none ∧ (recheckTx (applyGov cfg0 ps).1 tx s).1 = s) := by
  apply under_declared_fee_is_rejected _ tx s hfee ds
  unfold admissible
  rw [(governance_never_changes_floor_price cfg0 ps).1]
  exact h

/-! ### Non-vacuity: concrete transactions that meet the hypotheses -/

section Examples

def exCfg : Cfg :=
  { floor := ("nhash", 2), convDenom := "nhash", nhashPerUsdMil := 25,
    sched := [("send", { fee := ("hotdog", 10), recipient := "R1", bips := 2500 }),
              ("exec", { fee := ("nhash", 7), recipient := "", bips := 0 })] }

def exSend (f t : Addr) (cs : Coins) : Step :=
  .effect fun l => match sendCoins l f t cs with
    | some l' => .ok l'
    | none => .error .funds

/-- `MsgExec[ MsgSend X→Q 5nhash ]` then `MsgAssessCustomMsgFee 3usd → R2 (50%)` then a payment
with a 4nhash handler-level fee; declared fee covers everything plus 1 spare nhash. -/
def exTx : Tx :=
  { fee := [("hotdog", 10), ("nhash", 200 + 7 + 75 + 4 + 1)], gas := 100, payer := "P", granter := none,
    top := [{ typ := "exec" }, { typ := "assess", assess := some ⟨("usd", 3), "R2", some 5000⟩ }, { typ := "pay" }],
    steps := [.route { typ := "exec" }, .route { typ := "send" }, exSend "X" "Q" [("nhash", 5)],
              .route { typ := "assess", assess := some ⟨("usd", 3), "R2", some 5000⟩ },
              .route { typ := "pay" }, .consume "pay" [("nhash", 4)]] }

def exSt : St :=
  { ledger := Ledger.entries "P" [("nhash", 1000), ("hotdog", 10)] ++ Ledger.entries "X" [("nhash", 5)], allow := .none }

example : exCfg.collector ≠ "" := by decide
example : StepsWf exTx.steps := by simp [exTx, StepsWf, exSend]; intro d; split_ifs <;> omega
example : (checkTx exCfg exTx exSt).2.isNone = true := by decide
example : (deliverTx exCfg exTx exSt).outcome.isOk = true := by decide
-- R1 gets ⌊10·2500/10000⌋ = 2 hotdog, R2 gets ⌊75·5000/10000⌋ = 37 nhash, P pays the whole declared fee
example : (deliverTx exCfg exTx exSt).final.ledger.bal "R1" "hotdog" = 2 ∧
    (deliverTx exCfg exTx exSt).final.ledger.bal "R2" "nhash" = 37 ∧
    (deliverTx exCfg exTx exSt).final.ledger.bal "P" "nhash" = 1000 - 287 ∧
    (deliverTx exCfg exTx exSt).final.ledger.bal "C" "nhash" = 287 - 37 := by decide
-- one nhash less declared: admitted by the mempool check (it sees only the top-level messages'
-- fees: 7 + 75) but the transaction fails and pays the base fee only
example : (checkTx exCfg { exTx with fee := [("hotdog", 10), ("nhash", 285)] } exSt).2.isNone = true ∧
    (deliverTx exCfg { exTx with fee := [("hotdog", 10), ("nhash", 285)] } exSt).outcome.isFailed = true ∧
    (deliverTx exCfg { exTx with fee := [("hotdog", 10), ("nhash", 285)] } exSt).final.ledger.bal "P" "nhash" = 800 := by
  decide

-- fee grant: a limited allowance is charged exactly, and is removed when used up
example : (match useGrantedFees (.lim [("nhash", 10)]) [("nhash", 4)] with
    | .ok (.lim l) => Coins.amountOf l "nhash" | _ => -1) = 6 := by decide
example : (match useGrantedFees (.lim [("nhash", 10)]) [("nhash", 10)] with | .ok .none => true | _ => false) = true := by
  decide
-- the same transaction paid by a granter whose allowance equals the declared fee: succeeds, the
-- granter pays everything, the payer nothing, the allowance is gone
def exStG : St :=
  { ledger := Ledger.entries "G" [("nhash", 1000), ("hotdog", 10)] ++ Ledger.entries "X" [("nhash", 5)],
    allow := .lim [("hotdog", 10), ("nhash", 287)] }
example : (deliverTx exCfg { exTx with granter := some "G" } exStG).outcome.isOk = true ∧
    (deliverTx exCfg { exTx with granter := some "G" } exStG).final.ledger.bal "G" "nhash" = 1000 - 287 ∧
    (deliverTx exCfg { exTx with granter := some "G" } exStG).final.ledger.bal "P" "nhash" = 0 ∧
    (match (deliverTx exCfg { exTx with granter := some "G" } exStG).final.allow with | .none => true | _ => false) = true := by
  decide

-- the mempool history: admitted with the fee exactly at what `exCfg` requires; a committed block
-- raises the floor price from 2 to 3: the recheck evicts it, it is not executed, never charged
def exCfgUp : Cfg := { exCfg with floor := ("nhash", 3) }
example : (life exCfg exCfgUp true false exTx exSt exSt exSt).check.isNone = true ∧
    (life exCfg exCfgUp true false exTx exSt exSt exSt).recheck = some (some .fee) ∧
    (life exCfg exCfgUp true false exTx exSt exSt exSt).inMempool = false ∧
    (life exCfg exCfgUp true false exTx exSt exSt exSt).run.isNone = true := by decide
example : admissible exCfgUp exTx.fee exTx.gas exTx.top ["nhash", "hotdog"] = false := by decide
-- … lowering it instead keeps it in the mempool and it is executed under the new configuration
def exCfgDown : Cfg := { exCfg with floor := ("nhash", 1) }
example : (life exCfg exCfgDown true false exTx exSt exSt exSt).inMempool = true ∧
    ((life exCfg exCfgDown true false exTx exSt exSt exSt).run.map (·.outcome.isOk)) = some true := by decide
example : ∀ d, 0 ≤ Coins.amountOf exTx.fee d := by
  intro d; simp only [exTx, Coins.amountOf]; split_ifs <;> omega


-- ACROSS STATES: admitted on the mempool state `exSt`; by the time a block executes it other
-- transactions have run (P has 400 nhash left and sequence 3, X's funds are gone): the inner send
-- fails, P pays exactly the base fee 200 — on the state of THAT block — and its sequence goes to 4
def exStLater : St := { ledger := Ledger.entries "P" [("nhash", 400), ("hotdog", 10)], allow := .none, seq := 3 }
example : (checkTx exCfg exTx exSt).2 = none ∧ (deliverTx exCfg exTx exStLater).outcome.isFailed = true ∧
    (deliverTx exCfg exTx exStLater).final.ledger.bal "P" "nhash" = 400 - 200 ∧
    (deliverTx exCfg exTx exStLater).final.seq = 4 := by decide
-- … the whole history on three different states: admitted on `exSt` under `exCfg`, rechecked on
-- `exStMid` under `exCfgDown` (floor price 1), executed on `exStLater`: fails, costs 1 × 100
def exStMid : St := { ledger := Ledger.entries "P" [("nhash", 700), ("hotdog", 10)], allow := .none, seq := 1 }
example : (recheckTx exCfgDown exTx exStMid).2 = none ∧
    ((life exCfg exCfgDown true false exTx exSt exStMid exStLater).run.map (·.outcome.isFailed)) = some true ∧
    ((life exCfg exCfgDown true false exTx exSt exStMid exStLater).run.map (·.final.ledger.bal "P" "nhash")) = some 300 := by
  decide
-- the fee verdict is the same on every state (here: "insufficient fee" on two unrelated states)
example : (checkTx exCfgUp exTx exSt).2 = some .fee ∧ (checkTx exCfgUp exTx exStLater).2 = some .fee := by decide
example : exTx.from ≠ exCfg.collector ∧ exTx.from ≠ exCfgDown.collector := by decide
example : exTx.oogAnte = false := rfl

-- the body of `exTx` as a tree: MsgExec[ MsgSend ] ; MsgAssessCustomMsgFee ; payment
def exForest : Forest :=
  .node [] { typ := "exec" } []
    (.node [] { typ := "send" } [exSend "X" "Q" [("nhash", 5)]] .nil .nil)
    (.node [] { typ := "assess", assess := some ⟨("usd", 3), "R2", some 5000⟩ } [] .nil
      (.node [] { typ := "pay" } [.consume "pay" [("nhash", 4)]] .nil .nil))
example : exForest.wf = true := by decide
example : exTx.top = exForest.roots := rfl
example : exTx.steps = exForest.flatten := rfl
example : exForest.nested.map (·.typ) = ["send"] ∧ exForest.allMsgs.map (·.typ) = ["exec", "send", "assess", "pay"] := by
  decide

-- governance: a usd-rate update, a refused removal, an added fee; the floor price stays 2nhash
def exGov : List (List GovMsg) :=
  [[.rate 30], [.add "pay" ("nhash", 3) "Q" none, .rm "nosuchtype"], [.upd "send" ("hotdog", 12) "R2" (some 0)]]
example : (applyGov exCfg exGov).2 = [true, false, true] := by decide
example : (applyGov exCfg exGov).1.floor = ("nhash", 2) ∧ (applyGov exCfg exGov).1.nhashPerUsdMil = 30 ∧
    (lookupFee (applyGov exCfg exGov).1 "pay").isNone = true ∧
    ((lookupFee (applyGov exCfg exGov).1 "send").map (·.bips)) = some 0 := by decide
example : govHandle exCfg (.rate 30) = .ok { exCfg with nhashPerUsdMil := 30 } := rfl
example : (passProposal exCfg [.add "pay" ("nhash", 3) "Q" none, .rm "nosuchtype"]).2 = false := by decide
example : (deliverTx (applyGov exCfg exGov).1 { exTx with fee := [("hotdog", 12), ("nhash", 407)], steps := [.route { typ := "send" }, .effect (fun _ => .error .funds)] } exSt).outcome.isFailed = true := by decide

end Examples

/-! ### Observation outside the property's quantifier

The fee floor is enforced only by the mempool check (`MsgFeesDecorator` runs in CheckTx only;
PrepareProposal/ProcessProposal contexts are not CheckTx contexts).  A transaction that the
mempool check REJECTS but that a proposer includes in a block anyway is still charged
`floor × gas` by `checkDeductBaseFee`, which never looks at the declared fee — i.e. MORE than
it declared — and then fails in the sweep.  Reproduced on the real app by the last two lines of
corpus/C08/txfee.basic.ops (declared `1nhash` resp. nothing, charged `200000nhash` resp.
`7620000000nhash`).  The property quantifies over admitted transactions only, so this is not a
violation of C08; it is recorded because "never more than declared" stops at the mempool.
The same holds for a transaction the RECHECK evicted after the floor price was raised and that a
proposer includes anyway (corpus/C08/txfee.recheck.ops line 2: declared `200000nhash`, charged
`600000nhash`). -/
theorem unadmitted_tx_is_charged_more_than_declared :
    ∃ (cfg : Cfg) (tx : Tx) (s : St),
      (match (checkTx cfg tx s).2 with | some .fee => true | _ => false) = true ∧
      (deliverTx cfg tx s).outcome.isFailed = true ∧
      Coins.amountOf tx.fee "nhash" = 1 ∧
      (deliverTx cfg tx s).final.ledger.bal "P" "nhash" = s.ledger.bal "P" "nhash" - 200000 :=
  ⟨{ floor := ("nhash", 1), convDenom := "nhash", nhashPerUsdMil := 25, sched := [] },
   { fee := [("nhash", 1)], gas := 200000, payer := "P", granter := none, top := [{ typ := "send" }],
     steps := [.route { typ := "send" }] },
   { ledger := Ledger.entries "P" [("nhash", 1000000)], allow := .none }, by decide⟩

end PvProofs.C08
