/-
C12 — "…holding the access right documented for it IN THE MARKER'S CURRENT STATUS", over histories.

`PvProofs.C12.op_succeeds_iff` decides one message on a configuration that is an INPUT. Here the
configuration is what a history of real messages has made of the marker: `MsgAddMarker` (proposed,
under its manager) or `MsgAddFinalizeActivateMarker`, then `MsgFinalize` / `MsgActivate` /
`MsgCancel` / `MsgAddAccess` / `MsgDeleteAccess` / `MsgMint` / `MsgBurn` / `MsgWithdraw` by any
accounts, in any order, accepted or refused (`scenRunWith`, driven against the real msg server in
the `mkraccapp` stream: `sprop` / `sfin` / `sact` / `scan` / `sadd` / `sdel` / …).

* `access_change_needs_credential_now`: an accepted `AddAccess` / `DeleteAccess` was signed by an
  account holding, in the state and status the marker had THEN, the documented credential.
* `right_has_provenance`: every right an account holds after any history was there at the start,
  or was given by an accepted `AddAccess` whose signer held that credential at that moment, or by
  the creation of the marker.
* `right_loss_has_provenance`: the analogue for rights that disappear (`DeleteAccess`).
* `manager_is_nobody_after_activation`: once `MsgActivate` succeeded, for the rest of any history
  the marker has no manager; every accepted access change is signed by an `admin` or the holder of
  all coins, `Finalize` / `Activate` are refused to everybody.
* `cancel_of_cancelled_marker_is_identity`: the one success that needs no credential writes nothing.
-/
import PvModel.MkraccSpec
import PvProofs.C12

namespace PvProofs.C12
open PvModel PvModel.Mkracc PvModel.Mkracc.Spec

/-! ### Access-list lookups -/

/-- `MState.rightsOf` on the bare access list -/
def rightsIn (rs : List (String × List Access)) (a : String) : List Access :=
  match rs.find? (·.1 == a) with
  | some r => r.2
  | none => []

theorem rightsOf_eq (s : MState) (a : String) : s.rightsOf a = rightsIn s.rights a := rfl

theorem find_filter_self (rs : List (String × List Access)) (a : String) :
    (rs.filter (·.1 != a)).find? (·.1 == a) = none := by
  rw [List.find?_eq_none]
  intro x hx
  have := (List.mem_filter.mp hx).2
  simpa using this

theorem find_filter_other (rs : List (String × List Access)) {a a' : String} (h : a' ≠ a) :
    (rs.filter (·.1 != a)).find? (·.1 == a') = rs.find? (·.1 == a') := by
  rw [List.find?_filter]
  congr 1
  funext x
  by_cases hx : x.1 = a'
  · simp [hx, h]
  · simp [hx]

theorem find_singleton (a : String) (Y : List Access) :
    List.find? (fun x : String × List Access => x.1 == a) [(a, Y)] = some (a, Y) := by
  simp [List.find?]

theorem rightsIn_grant_self (rs : List (String × List Access)) (a : String) (new : List Access) :
    rightsIn (grantAccess rs a new) a = new ++ (rightsIn rs a).filter (fun x => !new.contains x) := by
  unfold rightsIn grantAccess
  rw [List.find?_append, find_filter_self, find_singleton]
  rfl

theorem rightsIn_grant_other (rs : List (String × List Access)) {a a' : String} (h : a' ≠ a)
    (new : List Access) : rightsIn (grantAccess rs a new) a' = rightsIn rs a' := by
  have hb : (a == a') = false := by simpa using fun h' : a = a' => h h'.symm
  unfold rightsIn grantAccess
  rw [List.find?_append, find_filter_other rs h]
  cases rs.find? (·.1 == a') <;> simp [List.find?, hb]

theorem rightsIn_revoke_self (rs : List (String × List Access)) (a : String) :
    rightsIn (revokeAccess rs a) a = [] := by
  unfold rightsIn revokeAccess
  rw [find_filter_self]

theorem rightsIn_revoke_other (rs : List (String × List Access)) {a a' : String} (h : a' ≠ a) :
    rightsIn (revokeAccess rs a) a' = rightsIn rs a' := by
  unfold rightsIn revokeAccess
  rw [find_filter_other rs h]

/-- `GrantAccess` never takes a right away. -/
theorem mem_rightsIn_grant_of_mem {rs : List (String × List Access)} {a a' : String} {new : List Access}
    {r : Access} (h : r ∈ rightsIn rs a') : r ∈ rightsIn (grantAccess rs a new) a' := by
  by_cases ha : a' = a
  · subst ha
    rw [rightsIn_grant_self]
    by_cases hr : r ∈ new
    · exact List.mem_append_left _ hr
    · exact List.mem_append_right _ (List.mem_filter.mpr ⟨h, by simpa using hr⟩)
  · rw [rightsIn_grant_other rs ha]; exact h

/-- …and gives only the rights of the grant, to the grantee only. -/
theorem mem_rightsIn_grant_inv {rs : List (String × List Access)} {a a' : String} {new : List Access}
    {r : Access} (h : r ∈ rightsIn (grantAccess rs a new) a') :
    r ∈ rightsIn rs a' ∨ (a' = a ∧ r ∈ new) := by
  by_cases ha : a' = a
  · subst ha
    rw [rightsIn_grant_self] at h
    rcases List.mem_append.mp h with h | h
    · exact Or.inr ⟨rfl, h⟩
    · exact Or.inl (List.mem_filter.mp h).1
  · rw [rightsIn_grant_other rs ha] at h; exact Or.inl h

/-- `RevokeAccess` gives nothing and touches only the revoked address. -/
theorem mem_rightsIn_revoke_inv {rs : List (String × List Access)} {w a' : String} {r : Access}
    (h : r ∈ rightsIn (revokeAccess rs w) a') : r ∈ rightsIn rs a' ∧ a' ≠ w := by
  by_cases ha : a' = w
  · subst ha; rw [rightsIn_revoke_self] at h; cases h
  · rw [rightsIn_revoke_other rs ha] at h; exact ⟨h, ha⟩

/-! ### What one accepted message does to access list, manager and status -/

/-- **Frame**: the access list changes only through `AddAccess` / `DeleteAccess` (and the creation
of the marker), the manager only through creation and activation, the status only through the
life-cycle messages — whatever the variant, state and caller. (Replaces and extends
`only_access_messages_change_rights`.) -/
theorem step_frame {v : Bool} {s s' : MState} {op : SOp} (h : scenStepWith v s op = .ok s') :
    match (generalizing := false) op with
    | .create _ _ _ acc => s'.rights = [("A", acc)] ∧ s'.manager = none ∧ s'.status = .active
    | .propose _ _ _ acc => s'.rights = [("A", acc)] ∧ s'.manager = some "A" ∧ s'.status = .proposed
    | .finalize _ => s'.rights = s.rights ∧ s'.manager = s.manager ∧ s'.status = .finalized
    | .activate _ => s'.rights = s.rights ∧ s'.manager = none ∧ s'.status = .active
    | .cancel _ => s'.rights = s.rights ∧ s'.manager = s.manager ∧ s'.status = .cancelled
    | .add _ a rs => s'.rights = grantAccess s.rights a rs ∧ s'.manager = s.manager ∧ s'.status = s.status
    | .del _ w => s'.rights = revokeAccess s.rights w ∧ s'.manager = s.manager ∧ s'.status = s.status
    | .mint _ _ | .burn _ _ | .withdraw _ _ _ =>
      s'.rights = s.rights ∧ s'.manager = s.manager ∧ s'.status = s.status := by
  cases op <;> simp only [scenStepWith, MState.checked] at h <;> (repeat' (split at h)) <;>
    cases h <;> simp [MState.setBal]

/-- Mint, burn and withdraw never touch the access list (audited name kept). -/
theorem only_access_messages_change_rights (viaBank : Bool) (s s' : MState) (op : SOp)
    (h : scenStepWith viaBank s op = .ok s')
    (hop : ∀ b t r, op ≠ .add b t r) (hdel : ∀ b w, op ≠ .del b w)
    (hcr : ∀ a f t r, op ≠ .create a f t r) (hpr : ∀ a f t r, op ≠ .propose a f t r) :
    s'.rights = s.rights := by
  have hf := step_frame h
  cases op with
  | create a f t r => exact absurd rfl (hcr a f t r)
  | propose a f t r => exact absurd rfl (hpr a f t r)
  | add b t r => exact absurd rfl (hop b t r)
  | del b w => exact absurd rfl (hdel b w)
  | finalize b => exact hf.1
  | activate b => exact hf.1
  | cancel b => exact hf.1
  | mint b a => exact hf.1
  | burn b a => exact hf.1
  | withdraw b t a => exact hf.1

/-! ### The credential, in the status the marker has when the message runs -/

/-- `accessCred` is the row of the documented table for the marker's current status, read on the
handler's view of the state (with the whole-supply credential in its documented meaning). -/
theorem accessCred_eq_table (s : MState) (b : String) :
    accessCred s b = (available .addAccess (s.cfgWith true b) && authorised .addAccess (s.cfgWith true b))
    ∧ accessCred s b = (available .deleteAccess (s.cfgWith true b) && authorised .deleteAccess (s.cfgWith true b)) := by
  constructor <;>
  · simp only [accessCred, available, authorised, MState.cfgWith, accountControlsAllSupplyWith, holdsWholeSupply]
    cases s.status <;> simp [creds, restrictedOnly, Cred.holds, Bool.or_assoc]

theorem accessChange_ok_iff (s : MState) (b : String) :
    accessChange (s.cfgWith true b) = .ok () ↔ accessCred s b = true := by
  cases hs : s.status <;>
    simp [accessChange, accessCred, MState.cfgWith, accountControlsAllSupplyWith, holdsWholeSupply, Cfg.has, hs] <;>
    (by_cases h1 : s.manager = some b <;> by_cases h2 : Access.admin ∈ s.rightsOf b <;> simp [h1, h2])

/-- **An access-list change succeeds only for a signer holding the documented credential in the
marker's CURRENT status** — in every state any history can reach, for `AddAccess` and
`DeleteAccess`: the manager of a proposed marker; manager, `admin` or holder of every coin of a
finalized one; `admin` or holder of every coin of an active one; nobody afterwards. -/
theorem access_change_needs_credential_now {s s' : MState} {b : String} :
    (∀ {a rs}, scenStepWith true s (.add b a rs) = .ok s' → accessCred s b = true)
    ∧ (∀ {w}, scenStepWith true s (.del b w) = .ok s' → accessCred s b = true) := by
  constructor
  · intro a rs h
    simp only [scenStepWith, addAccess] at h
    split at h
    · cases h
    · rename_i hc; exact (accessChange_ok_iff s b).mp hc
  · intro w h
    simp only [scenStepWith, removeAccess] at h
    split at h
    · cases h
    · rename_i hc; exact (accessChange_ok_iff s b).mp hc

/-- the audited per-step statement for an active marker, now a corollary -/
theorem access_change_needs_real_credential_when_repaired (s : MState) (by_ to : String)
    (rights : List Access) (s' : MState) (hact : s.status = .active)
    (h : scenStepWith true s (.add by_ to rights) = .ok s') :
    (s.rightsOf by_).contains .admin = true ∨ holdsWholeSupply (s.balOf by_) s.circulating = true := by
  have := access_change_needs_credential_now.1 h
  simpa [accessCred, hact] using this

/-- a finalized marker under manager `A`; `D` is an administrator, `B` holds all 4 coins that exist -/
def exFinalized : MState :=
  { live := true, rights := [("A", [.mint]), ("D", [.admin])], record := 4, escrow := 0, bals := [("B", 4)],
    status := .finalized, manager := some "A" }

-- non-vacuity: each of the three credentials of a finalized marker works, a bystander is refused;
-- after activation the manager is refused, the administrator and the holder of all coins are not
example :
    (scenStepWith true exFinalized (.add "A" "E" [.burn])).toOption.isSome = true
    ∧ (scenStepWith true exFinalized (.add "D" "E" [.burn])).toOption.isSome = true
    ∧ (scenStepWith true exFinalized (.add "B" "E" [.burn])).toOption.isSome = true
    ∧ scenStepWith true exFinalized (.add "E" "E" [.burn]) = .error .perm
    ∧ scenStepWith true (scenRunWith true exFinalized [.activate "A"]) (.add "A" "E" [.burn]) = .error .perm
    ∧ (scenStepWith true (scenRunWith true exFinalized [.activate "A"]) (.del "D" "A")).toOption.isSome = true
    ∧ (scenStepWith true (scenRunWith true exFinalized [.activate "A"]) (.add "B" "B" [.admin])).toOption.isSome = true := by
  decide

/-! ### Histories -/

/-- `op` was accepted at some point of the history `ops` started in `s`, in the state `sᵢ` the
marker had then. -/
def AcceptedAt (v : Bool) (s : MState) (ops : List SOp) (sᵢ : MState) (op : SOp) : Prop :=
  ∃ pre post s', ops = pre ++ op :: post ∧ sᵢ = scenRunWith v s pre ∧ scenStepWith v sᵢ op = .ok s'

theorem AcceptedAt.head {v : Bool} {s s' : MState} {op : SOp} (rest : List SOp)
    (h : scenStepWith v s op = .ok s') : AcceptedAt v s (op :: rest) s op :=
  ⟨[], rest, s', rfl, rfl, h⟩

theorem AcceptedAt.cons_ok {v : Bool} {s s₁ sᵢ : MState} {op o : SOp} {rest : List SOp}
    (h : scenStepWith v s op = .ok s₁) (ha : AcceptedAt v s₁ rest sᵢ o) :
    AcceptedAt v s (op :: rest) sᵢ o := by
  obtain ⟨pre, post, s', he, hs, hst⟩ := ha
  exact ⟨op :: pre, post, s', by simp [he], by simp [scenRunWith, h, hs], hst⟩

theorem AcceptedAt.cons_err {v : Bool} {s sᵢ : MState} {op o : SOp} {rest : List SOp} {e : Err}
    (h : scenStepWith v s op = .error e) (ha : AcceptedAt v s rest sᵢ o) :
    AcceptedAt v s (op :: rest) sᵢ o := by
  obtain ⟨pre, post, s', he, hs, hst⟩ := ha
  exact ⟨op :: pre, post, s', by simp [he], by simp [scenRunWith, h, hs], hst⟩

/-- the marker was (re)created by this message, giving `"A"` the rights `acc` -/
def IsCreation (op : SOp) (acc : List Access) : Prop :=
  ∃ amt f ty, op = .create amt f ty acc ∨ op = .propose amt f ty acc

/-- one accepted message: where a right that is there afterwards comes from -/
theorem step_right_provenance {s s' : MState} {op : SOp} {a : String} {r : Access}
    (h : scenStepWith true s op = .ok s') (hr : r ∈ s'.rightsOf a) :
    r ∈ s.rightsOf a
    ∨ (∃ b rs, op = .add b a rs ∧ r ∈ rs ∧ accessCred s b = true)
    ∨ (a = "A" ∧ ∃ acc, IsCreation op acc ∧ r ∈ acc) := by
  have hf := step_frame h
  rw [rightsOf_eq] at hr ⊢
  cases op with
  | create amt f ty acc =>
    right; right
    rw [hf.1] at hr
    by_cases ha : a = "A"
    · subst ha; exact ⟨rfl, acc, ⟨amt, f, ty, Or.inl rfl⟩, by simpa [rightsIn, List.find?] using hr⟩
    · have : ("A" == a) = false := by simpa using fun h' => ha h'.symm
      simp [rightsIn, List.find?, this] at hr
  | propose amt f ty acc =>
    right; right
    rw [hf.1] at hr
    by_cases ha : a = "A"
    · subst ha; exact ⟨rfl, acc, ⟨amt, f, ty, Or.inr rfl⟩, by simpa [rightsIn, List.find?] using hr⟩
    · have : ("A" == a) = false := by simpa using fun h' => ha h'.symm
      simp [rightsIn, List.find?, this] at hr
  | add b t rs =>
    rw [hf.1] at hr
    rcases mem_rightsIn_grant_inv hr with h1 | ⟨rfl, h2⟩
    · exact Or.inl h1
    · exact Or.inr (Or.inl ⟨b, rs, rfl, h2, access_change_needs_credential_now.1 h⟩)
  | del b w => rw [hf.1] at hr; exact Or.inl (mem_rightsIn_revoke_inv hr).1
  | finalize b => rw [hf.1] at hr; exact Or.inl hr
  | activate b => rw [hf.1] at hr; exact Or.inl hr
  | cancel b => rw [hf.1] at hr; exact Or.inl hr
  | mint b x => rw [hf.1] at hr; exact Or.inl hr
  | burn b x => rw [hf.1] at hr; exact Or.inl hr
  | withdraw b t x => rw [hf.1] at hr; exact Or.inl hr

/-- **Every right has a documented origin, over any history.** Whatever messages — of any kind, by
any accounts, accepted or refused, across proposal, finalization, activation and cancellation —
have been sent to the marker: a right `r` that account `a` holds afterwards was there at the
start, or was given by an ACCEPTED `AddAccess` to `a` whose grant carries `r` and whose signer held,
in the state and status the marker had at that moment, the credential documented for changing the
access list (manager / `admin` / every existing coin, as the status allows), or by the message that
created the marker. -/
theorem right_has_provenance (s : MState) (ops : List SOp) (a : String) (r : Access)
    (h : r ∈ (scenRunWith true s ops).rightsOf a) :
    r ∈ s.rightsOf a
    ∨ (∃ sᵢ b rs, AcceptedAt true s ops sᵢ (.add b a rs) ∧ r ∈ rs ∧ accessCred sᵢ b = true)
    ∨ (a = "A" ∧ ∃ sᵢ op acc, AcceptedAt true s ops sᵢ op ∧ IsCreation op acc ∧ r ∈ acc) := by
  induction ops generalizing s with
  | nil => exact Or.inl h
  | cons op rest ih =>
    simp only [scenRunWith] at h
    cases hs : scenStepWith true s op with
    | error e =>
      rw [hs] at h
      rcases ih s h with h1 | ⟨sᵢ, b, rs, ha, hr, hc⟩ | ⟨hA, sᵢ, o, acc, ha, hcr, hr⟩
      · exact Or.inl h1
      · exact Or.inr (Or.inl ⟨sᵢ, b, rs, ha.cons_err hs, hr, hc⟩)
      · exact Or.inr (Or.inr ⟨hA, sᵢ, o, acc, ha.cons_err hs, hcr, hr⟩)
    | ok s₁ =>
      rw [hs] at h
      rcases ih s₁ h with h1 | ⟨sᵢ, b, rs, ha, hr, hc⟩ | ⟨hA, sᵢ, o, acc, ha, hcr, hr⟩
      · rcases step_right_provenance hs h1 with h2 | ⟨b, rs, rfl, hr, hc⟩ | ⟨hA, acc, hcr, hr⟩
        · exact Or.inl h2
        · exact Or.inr (Or.inl ⟨s, b, rs, AcceptedAt.head rest hs, hr, hc⟩)
        · exact Or.inr (Or.inr ⟨hA, s, op, acc, AcceptedAt.head rest hs, hcr, hr⟩)
      · exact Or.inr (Or.inl ⟨sᵢ, b, rs, ha.cons_ok hs, hr, hc⟩)
      · exact Or.inr (Or.inr ⟨hA, sᵢ, o, acc, ha.cons_ok hs, hcr, hr⟩)

/-- one accepted message: why a right that was there is gone -/
theorem step_right_loss {s s' : MState} {op : SOp} {a : String} {r : Access}
    (h : scenStepWith true s op = .ok s') (h0 : r ∈ s.rightsOf a) (h1 : r ∉ s'.rightsOf a) :
    (∃ b, op = .del b a ∧ accessCred s b = true) ∨ (∃ acc, IsCreation op acc) := by
  have hf := step_frame h
  rw [rightsOf_eq] at h0 h1
  cases op with
  | create amt f ty acc => exact Or.inr ⟨acc, amt, f, ty, Or.inl rfl⟩
  | propose amt f ty acc => exact Or.inr ⟨acc, amt, f, ty, Or.inr rfl⟩
  | add b t rs => rw [hf.1] at h1; exact absurd (mem_rightsIn_grant_of_mem h0) h1
  | del b w =>
    rw [hf.1] at h1
    by_cases ha : a = w
    · subst ha; exact Or.inl ⟨b, rfl, access_change_needs_credential_now.2 h⟩
    · rw [rightsIn_revoke_other _ ha] at h1; exact absurd h0 h1
  | finalize b => rw [hf.1] at h1; exact absurd h0 h1
  | activate b => rw [hf.1] at h1; exact absurd h0 h1
  | cancel b => rw [hf.1] at h1; exact absurd h0 h1
  | mint b x => rw [hf.1] at h1; exact absurd h0 h1
  | burn b x => rw [hf.1] at h1; exact absurd h0 h1
  | withdraw b t x => rw [hf.1] at h1; exact absurd h0 h1

/-- **A right disappears only through an accepted `DeleteAccess` of its holder signed by an account
with the documented credential at that moment** (or because the marker was created anew) — over
any history. `AddAccess` never removes a right, nor does any other message. -/
theorem right_loss_has_provenance (s : MState) (ops : List SOp) (a : String) (r : Access)
    (h0 : r ∈ s.rightsOf a) (h1 : r ∉ (scenRunWith true s ops).rightsOf a) :
    (∃ sᵢ b, AcceptedAt true s ops sᵢ (.del b a) ∧ accessCred sᵢ b = true)
    ∨ (∃ sᵢ op acc, AcceptedAt true s ops sᵢ op ∧ IsCreation op acc) := by
  induction ops generalizing s with
  | nil => exact absurd h0 h1
  | cons op rest ih =>
    simp only [scenRunWith] at h1
    cases hs : scenStepWith true s op with
    | error e =>
      rw [hs] at h1
      rcases ih s h0 h1 with ⟨sᵢ, b, ha, hc⟩ | ⟨sᵢ, o, acc, ha, hcr⟩
      · exact Or.inl ⟨sᵢ, b, ha.cons_err hs, hc⟩
      · exact Or.inr ⟨sᵢ, o, acc, ha.cons_err hs, hcr⟩
    | ok s₁ =>
      rw [hs] at h1
      by_cases hm : r ∈ s₁.rightsOf a
      · rcases ih s₁ hm h1 with ⟨sᵢ, b, ha, hc⟩ | ⟨sᵢ, o, acc, ha, hcr⟩
        · exact Or.inl ⟨sᵢ, b, ha.cons_ok hs, hc⟩
        · exact Or.inr ⟨sᵢ, o, acc, ha.cons_ok hs, hcr⟩
      · rcases step_right_loss hs h0 hm with ⟨b, rfl, hc⟩ | ⟨acc, hcr⟩
        · exact Or.inl ⟨s, b, AcceptedAt.head rest hs, hc⟩
        · exact Or.inr ⟨s, op, acc, AcceptedAt.head rest hs, hcr⟩

-- non-vacuity: a history through the whole life cycle in which `E` ends up with `burn` (given by
-- the manager while the marker was proposed) and `A` loses `mint` (taken by administrator `D`
-- after activation); the bystander's and the ex-manager's attempts are refused
example :
    let ops : List SOp := [.propose 7 true .coin [.mint, .delete], .add "B" "B" [.admin], .add "A" "E" [.burn],
      .add "A" "D" [.admin], .finalize "A", .activate "A", .add "A" "A" [.admin], .del "D" "A", .finalize "A"]
    let s := scenRunWith true {} ops
    s.rightsOf "E" = [.burn] ∧ s.rightsOf "A" = [] ∧ s.rightsOf "B" = []
    ∧ s.status = .active ∧ s.manager = none := by decide

/-! ### The manager loses its power with activation -/

/-- no `MsgAddMarker` in the rest of the history (the marker exists already) -/
def NoPropose (ops : List SOp) : Prop := ∀ amt f ty acc, SOp.propose amt f ty acc ∉ ops

/-- an activated marker: no manager, and never pending again -/
def Activated (s : MState) : Prop := s.manager = none ∧ (s.status = .active ∨ s.status = .cancelled)

theorem activated_step {v : Bool} {s s' : MState} {op : SOp} (hA : Activated s)
    (hnp : ∀ amt f ty acc, op ≠ .propose amt f ty acc) (h : scenStepWith v s op = .ok s') :
    Activated s' := by
  have hf := step_frame h
  obtain ⟨hm, hst⟩ := hA
  cases op with
  | propose amt f ty acc => exact absurd rfl (hnp amt f ty acc)
  | create amt f ty acc => exact ⟨hf.2.1, Or.inl hf.2.2⟩
  | finalize b =>
    -- refused: only the manager finalizes, and there is none
    simp [scenStepWith, finalizeMarker, MState.cfgWith, hm] at h
  | activate b => exact ⟨hf.2.1, Or.inl hf.2.2⟩
  | cancel b => exact ⟨hf.2.1.trans hm, Or.inr hf.2.2⟩
  | add b t rs => exact ⟨hf.2.1.trans hm, by rw [hf.2.2]; exact hst⟩
  | del b w => exact ⟨hf.2.1.trans hm, by rw [hf.2.2]; exact hst⟩
  | mint b x => exact ⟨hf.2.1.trans hm, by rw [hf.2.2]; exact hst⟩
  | burn b x => exact ⟨hf.2.1.trans hm, by rw [hf.2.2]; exact hst⟩
  | withdraw b t x => exact ⟨hf.2.1.trans hm, by rw [hf.2.2]; exact hst⟩

theorem activated_run {v : Bool} (ops : List SOp) {s : MState} (hA : Activated s) (hnp : NoPropose ops) :
    Activated (scenRunWith v s ops) := by
  induction ops generalizing s with
  | nil => exact hA
  | cons op rest ih =>
    have hnp' : NoPropose rest := fun a f t r hm => hnp a f t r (List.mem_cons_of_mem _ hm)
    simp only [scenRunWith]
    cases hs : scenStepWith v s op with
    | error e => exact ih hA hnp'
    | ok s₁ =>
      exact ih (activated_step hA (fun a f t r he => hnp a f t r (he ▸ List.mem_cons_self ..)) hs) hnp'

/-- `MsgActivate` succeeds only for the manager of a finalized marker, and leaves none. -/
theorem activate_inv {v : Bool} {s s' : MState} {b : String} (h : scenStepWith v s (.activate b) = .ok s') :
    s.manager = some b ∧ s.status = .finalized ∧ Activated s' := by
  have hf := step_frame h
  have hg : activateMarker (s.cfgWith v b) = .ok () := by
    simp only [scenStepWith] at h
    split at h
    · cases h
    · assumption
  simp only [activateMarker, MState.cfgWith] at hg
  by_cases hm : s.manager = some b <;> by_cases hst : s.status = .finalized <;> simp [hm, hst] at hg
  exact ⟨hm, hst, hf.2.1, Or.inl hf.2.2⟩

/-- **The manager loses its power with activation.** After an accepted `MsgActivate` (which only
the manager of the finalized marker can send), for the rest of ANY history on that marker: the
marker has no manager and is never pending again; every accepted `AddAccess` / `DeleteAccess` is
signed by an account with `admin` or holding every existing coin — having been the manager counts
for nothing; and `Finalize` / `Activate` are refused to everybody. -/
theorem manager_is_nobody_after_activation {s s₁ : MState} {b : String}
    (hact : scenStepWith true s (.activate b) = .ok s₁) (ops : List SOp) (hnp : NoPropose ops) :
    s.manager = some b
    ∧ (scenRunWith true s₁ ops).manager = none
    ∧ (∀ sᵢ c op, AcceptedAt true s₁ ops sᵢ op → (∃ a rs, op = .add c a rs) ∨ (∃ w, op = .del c w) →
        sᵢ.status = .active
        ∧ ((sᵢ.rightsOf c).contains .admin = true ∨ holdsWholeSupply (sᵢ.balOf c) sᵢ.circulating = true))
    ∧ (∀ sᵢ c, ¬ AcceptedAt true s₁ ops sᵢ (.finalize c) ∧ ¬ AcceptedAt true s₁ ops sᵢ (.activate c)) := by
  obtain ⟨hmgr, _, hA⟩ := activate_inv hact
  have hpre : ∀ {sᵢ op}, AcceptedAt true s₁ ops sᵢ op → Activated sᵢ := by
    rintro sᵢ op ⟨pre, post, s', he, hs, _⟩
    rw [hs]
    exact activated_run pre hA (fun a f t r hm => hnp a f t r (by rw [he]; exact List.mem_append_left _ hm))
  refine ⟨hmgr, (activated_run ops hA hnp).1, ?_, ?_⟩
  · intro sᵢ c op hacc hop
    obtain ⟨hm, hst⟩ := hpre hacc
    obtain ⟨_, _, s', _, _, hstep⟩ := hacc
    have hc : accessCred sᵢ c = true := by
      rcases hop with ⟨a, rs, rfl⟩ | ⟨w, rfl⟩
      · exact access_change_needs_credential_now.1 hstep
      · exact access_change_needs_credential_now.2 hstep
    rcases hst with hst | hst
    · exact ⟨hst, by simpa [accessCred, hst] using hc⟩
    · simp [accessCred, hst] at hc
  · intro sᵢ c
    constructor
    · intro hacc
      obtain ⟨hm, _⟩ := hpre hacc
      obtain ⟨_, _, s', _, _, hstep⟩ := hacc
      simp [scenStepWith, finalizeMarker, MState.cfgWith, hm] at hstep
    · intro hacc
      obtain ⟨hm, _⟩ := hpre hacc
      obtain ⟨_, _, s', _, _, hstep⟩ := hacc
      simp [scenStepWith, activateMarker, MState.cfgWith, hm] at hstep

-- non-vacuity: the hypothesis is met (the manager activates `exFinalized`), and in the history that
-- follows an access change by the administrator is accepted while the ex-manager's is not
example : (scenStepWith true exFinalized (.activate "A")).toOption.isSome = true
    ∧ NoPropose [.add "A" "A" [.admin], .add "D" "E" [.burn], .activate "A"]
    ∧ (scenRunWith true (scenRunWith true exFinalized [.activate "A"])
        [.add "A" "A" [.admin], .add "D" "E" [.burn], .activate "A"]).rights
      = [("A", [.mint]), ("D", [.admin]), ("E", [.burn])] := by
  refine ⟨by decide, ?_, by decide⟩
  intro a f t r hm
  simp at hm

/-! ### The success that needs no credential writes nothing -/

/-- **`Cancel` of a cancelled marker is the identity**: it is accepted from anybody (the one
success without a credential: `success_without_credential_is_cancel_of_cancelled`) and the marker
afterwards IS the marker before — every field, for every state, caller and variant. -/
theorem cancel_of_cancelled_marker_is_identity (v : Bool) (s : MState) (b : String)
    (h : s.status = .cancelled) : scenStepWith v s (.cancel b) = .ok s := by
  simp only [scenStepWith, cancelMarker, MState.cfgWith, h]
  cases s
  simp_all

/-- …whereas every other accepted `Cancel` needs `delete` (or, on a proposed marker, the manager)
and, off a proposed marker, every coin back in escrow. -/
theorem cancel_needs_credential {v : Bool} {s s' : MState} {b : String}
    (h : scenStepWith v s (.cancel b) = .ok s') (hnc : s.status ≠ .cancelled) :
    ((s.rightsOf b).contains .delete = true ∨ (s.status = .proposed ∧ s.manager = some b))
    ∧ (s.status ≠ .proposed → s.circulating ≤ s.escrow)
    ∧ s'.status = .cancelled := by
  have hf := step_frame h
  have hg : cancelMarker (s.cfgWith v b) (decide (0 < s.circulating - s.escrow)) = .ok () := by
    simp only [scenStepWith] at h
    split at h
    · cases h
    · assumption
  simp only [cancelMarker, MState.cfgWith, Cfg.has] at hg
  refine ⟨?_, ?_, hf.2.2⟩
  · cases hs : s.status <;> simp [hs] at hg hnc ⊢
    · by_cases hd : Access.delete ∈ s.rightsOf b
      · exact Or.inl hd
      · exact Or.inr (hg hd)
    all_goals
      by_cases hd : Access.delete ∈ s.rightsOf b
      · exact hd
      · simp [hd] at hg
  · intro hnp
    cases hs : s.status <;> simp [hs] at hg hnc hnp ⊢
    all_goals
      by_cases hd : Access.delete ∈ s.rightsOf b <;> by_cases he : s.escrow < s.circulating <;>
        simp [hd, he] at hg
      omega

example : scenStepWith true { exFinalized with status := .cancelled } (.cancel "E")
      = .ok { exFinalized with status := .cancelled }
    ∧ scenStepWith true exFinalized (.cancel "E") = .error (.noaccess .delete) := by decide

end PvProofs.C12
