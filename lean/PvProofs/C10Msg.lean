/-
C10, part 3 — the owner endpoints of the MESSAGE SERVER (`msgServer.AddScopeOwner`,
`msgServer.DeleteScopeOwner`, x/metadata/keeper/msg_server.go:148-217).

These two endpoints do not receive the proposed scope: they compute it from the STORED scope
(`proposed := existing; proposed.AddOwners(msg.Owners)` / `proposed.RemoveOwners(msg.Owners)`)
and then ask `ValidateUpdateScopeOwners(existing, proposed, msg)`.  The theorems say that the
signatures demanded are those of the stored scope AS IT WAS — an owner that the message removes
is still one of the parties that must sign —, that the scope that gets stored is the stored
scope with exactly the asked-for change, and (no smart-contract signer) that nothing else is
demanded.

(The other endpoints of the message server look the stored entry up and hand it to the
`Validate…` function whose theorems are in `C10Callers.lean`; the correspondence harness sends
all of them END TO END through the real message server on stored state.)
-/
import PvProofs.C10Callers

namespace PvProofs.C10
open PvModel.Signers PvProofs.Lemmas.Signers PvProofs.Lemmas.SignersCallers

/-! ### the list edits -/

/-- `Scope.RemoveOwners`: every named address is an owner's, and the result is the owner list
without the entries of the named addresses — a function of the old list, which stays as it was. -/
theorem removeOwners_some_iff (owners : List Party) (addrs : List Addr) (r : List Party) :
    removeOwners owners addrs = some r ↔
      (∀ a ∈ addrs, a ∈ Spec.addresses owners) ∧ r = Spec.ownersAfterRemove owners addrs := by
  unfold removeOwners Spec.ownersAfterRemove Spec.addresses
  by_cases he : addrs = []
  · subst he
    simp [eq_comm]
  · have hne : addrs.isEmpty = false := by cases addrs <;> simp_all
    simp only [hne, Bool.false_eq_true, ↓reduceIte]
    by_cases hall : ∀ a ∈ addrs, a ∈ owners.map (·.address)
    · have : (addrs.any fun a => !owners.any fun o => o.address == a) = false := by
        rw [List.any_eq_false]
        intro a ha
        have := hall a ha
        simp only [List.mem_map] at this
        obtain ⟨o, ho, rfl⟩ := this
        simp only [Bool.not_eq_true, Bool.not_eq_false', List.any_eq_true, beq_iff_eq]
        exact ⟨o, ho, rfl⟩
      simp only [this, Bool.false_eq_true, ↓reduceIte, Option.some.injEq]
      constructor
      · intro h; exact ⟨hall, h.symm⟩
      · rintro ⟨_, h⟩; exact h.symm
    · have : (addrs.any fun a => !owners.any fun o => o.address == a) = true := by
        rw [List.any_eq_true]
        push Not at hall
        obtain ⟨a, ha, hno⟩ := hall
        refine ⟨a, ha, ?_⟩
        simp only [Bool.not_eq_true', List.any_eq_false, beq_iff_eq]
        intro o ho heq
        exact hno (List.mem_map.mpr ⟨o, ho, heq⟩)
      simp only [this, ↓reduceIte]
      constructor
      · intro h; cases h
      · rintro ⟨h, _⟩; exact absurd h hall

/-- `Scope.AddOwners`: no new owner repeats a stored one (address and role), and the result is
the stored list followed by the new owners. -/
theorem addOwners_some_iff (owners new : List Party) (r : List Party) :
    addOwners owners new = some r ↔
      (∀ n ∈ new, ∀ o ∈ owners, ¬(o.address = n.address ∧ o.role = n.role))
        ∧ r = Spec.ownersAfterAdd owners new := by
  unfold addOwners Spec.ownersAfterAdd
  by_cases he : new = []
  · subst he
    simp [eq_comm]
  · have hne : new.isEmpty = false := by cases new <;> simp_all
    simp only [hne, Bool.false_eq_true, ↓reduceIte]
    by_cases hany : (new.any fun n => owners.any fun o => n.address == o.address && n.role == o.role) = true
    · simp only [hany, ↓reduceIte]
      constructor
      · intro h; cases h
      · rintro ⟨hall, _⟩
        simp only [List.any_eq_true, Bool.and_eq_true, beq_iff_eq] at hany
        obtain ⟨n, hn, o, ho, h1, h2⟩ := hany
        exact absurd (And.intro h1.symm h2.symm) (hall n hn o ho)
    · simp only [hany, Bool.false_eq_true, ↓reduceIte, Option.some.injEq]
      have hall : ∀ n ∈ new, ∀ o ∈ owners, ¬(o.address = n.address ∧ o.role = n.role) := by
        intro n hn o ho hh
        apply hany
        simp only [List.any_eq_true, Bool.and_eq_true, beq_iff_eq]
        exact ⟨n, hn, o, ho, hh.1.symm, hh.2.symm⟩
      constructor
      · intro h; exact ⟨hall, h.symm⟩
      · rintro ⟨_, h⟩; exact h.symm

/-- `ValidatePartiesAreUnique` is "no two entries with the same address and role". -/
theorem partiesUnique_iff (ps : List Party) : partiesUnique ps = true ↔ Spec.noRepeats ps = true := by
  unfold Spec.noRepeats
  rw [decide_eq_true_iff]
  induction ps with
  | nil => simp [partiesUnique]
  | cons p rest ih =>
    simp only [partiesUnique, Bool.and_eq_true, Bool.not_eq_true', List.any_eq_false, beq_iff_eq,
      List.pairwise_cons, ih]

/-! ### `DeleteScopeOwner` -/

/-- What an accepted `DeleteScopeOwner` message established, for ALL inputs (smart-contract
signers included): the message is well-formed for the stored scope; the stored result is the
stored scope without the owners of the named addresses; the remaining owners satisfy the
specification's roles and the PROVENANCE rule; and the signature requirement of the STORED
scope (`scopeUpdateReq`: without rollup all its owners, with rollup all its `optional = false`
owners and a covered owner per required role) is met. -/
theorem msgDeleteScopeOwner_only_when (env : Env) (hv : env.valid "" = false) (stored : Option Scope)
    (addrs : List Addr) (roles : List Role) (signers : List Addr) (after : Scope)
    (h : msgDeleteScopeOwner env stored addrs roles signers = .ok after) :
    ∃ ex, stored = some ex
      ∧ Spec.removeOwnersWellFormed env stored addrs signers = true
      ∧ after = { ex with owners := Spec.ownersAfterRemove ex.owners addrs }
      ∧ (ex.rollup = false → ∀ p ∈ after.owners, p.optional = false)
      ∧ Spec.rolesPresent after.owners roles = true ∧ Spec.provenanceRoleOk env after.owners = true
      ∧ (Spec.scopeUpdateReq ex roles).ok env "DeleteScopeOwner" signers = true := by
  unfold msgDeleteScopeOwner at h
  split_ifs at h with hb
  cases stored with
  | none => simp at h
  | some ex =>
    simp only at h
    cases hr : removeOwners ex.owners addrs with
    | none => simp [hr] at h
    | some owners =>
      simp only [hr] at h
      split_ifs at h with he
      cases hu : validateUpdateScopeOwners env "DeleteScopeOwner" ex owners roles signers with
      | error e => simp [hu] at h
      | ok u =>
        simp only [hu, Except.ok.injEq] at h
        obtain ⟨hmem, rfl⟩ := (removeOwners_some_iff _ _ _).mp hr
        have := updateScopeOwners_only_when env hv _ ex _ roles signers hu
        subst h
        refine ⟨ex, rfl, ?_, rfl, this.1, this.2.1, this.2.2.1, this.2.2.2⟩
        have hb' := Bool.eq_false_iff.mpr hb
        simp only [Bool.or_eq_false_iff] at hb'
        obtain ⟨⟨hne, hval⟩, hs⟩ := hb'
        rw [List.any_eq_false] at hval
        have he' := Bool.eq_false_iff.mpr he
        simp only [Spec.removeOwnersWellFormed, Bool.and_eq_true, Bool.not_eq_true', List.all_eq_true,
          List.contains_iff_mem]
        refine ⟨⟨⟨hne, ?_⟩, hs⟩, fun a ha => hmem a ha, he'⟩
        intro a ha
        simpa using hval a ha

/-- THE clause: an accepted `DeleteScopeOwner` carries the signature (or authz grant to a signer)
of every stored owner that the rules make mandatory — without rollup every owner, with rollup
every `optional = false` owner — whether or not the message removes that owner. -/
theorem removed_owner_must_sign (env : Env) (hv : env.valid "" = false) (ex : Scope)
    (addrs : List Addr) (roles : List Role) (signers : List Addr) (after : Scope)
    (h : msgDeleteScopeOwner env (some ex) addrs roles signers = .ok after)
    (p : Party) (hp : p ∈ ex.owners) (hreq : ex.rollup = false ∨ p.optional = false) :
    Spec.covered env "DeleteScopeOwner" signers p.address = true := by
  obtain ⟨ex', hex, _, _, _, _, _, hreqok⟩ := msgDeleteScopeOwner_only_when env hv _ _ _ _ _ h
  cases hex
  unfold Spec.scopeUpdateReq at hreqok
  by_cases hr : ex.rollup = true
  · simp only [hr, ↓reduceIte, Spec.Req.ok, Bool.and_eq_true, Spec.requiredCovered, List.all_eq_true,
      Bool.or_eq_true] at hreqok
    rcases hreq with h0 | h0
    · simp [hr] at h0
    · rcases hreqok.1 p hp with h1 | h1
      · simp [h0] at h1
      · exact h1
  · simp only [hr, Bool.false_eq_true, ↓reduceIte, Spec.Req.ok, Spec.withoutPartiesOk, List.all_eq_true,
      Spec.addresses] at hreqok
    exact hreqok p.address (List.mem_map.mpr ⟨p, hp, rfl⟩)

/-- No smart-contract signer: `DeleteScopeOwner` is accepted exactly when the message is
well-formed for the stored scope and the documented requirements hold; and then it stores the
stored scope without the owners of the named addresses. -/
theorem msgDeleteScopeOwner_iff (env : Env) (hv : env.valid "" = false) (ex : Scope)
    (addrs : List Addr) (roles : List Role) (signers : List Addr) (hnc : NoContracts env signers)
    (after : Scope) :
    msgDeleteScopeOwner env (some ex) addrs roles signers = .ok after ↔
      Spec.removeOwnersWellFormed env (some ex) addrs signers = true
        ∧ after = { ex with owners := Spec.ownersAfterRemove ex.owners addrs }
        ∧ (ex.rollup = false → ∀ p ∈ after.owners, p.optional = false)
        ∧ Spec.rolesPresent after.owners roles = true ∧ Spec.provenanceRoleOk env after.owners = true
        ∧ (Spec.scopeUpdateReq ex roles).ok env "DeleteScopeOwner" signers = true := by
  constructor
  · intro h
    obtain ⟨ex', hex, h1, h2, h3⟩ := msgDeleteScopeOwner_only_when env hv _ _ _ _ _ h
    cases hex
    exact ⟨h1, h2, h3⟩
  · rintro ⟨hw, rfl, h0, h1, h2, h3⟩
    simp only [Spec.removeOwnersWellFormed, Bool.and_eq_true, Bool.not_eq_true', List.all_eq_true,
      List.contains_iff_mem] at hw
    obtain ⟨⟨⟨hne, hvalid⟩, hs⟩, hmem, hstay⟩ := hw
    have hr : removeOwners ex.owners addrs = some (Spec.ownersAfterRemove ex.owners addrs) :=
      (removeOwners_some_iff _ _ _).mpr ⟨fun a ha => by simpa using hmem a ha, rfl⟩
    have hu := (updateScopeOwners_iff env hv "DeleteScopeOwner" ex (Spec.ownersAfterRemove ex.owners addrs)
      roles signers hnc).mpr ⟨h0, h1, h2, h3⟩
    have hb : (addrs.isEmpty || addrs.any (fun a => !env.valid a) || signers.isEmpty) = false := by
      simp only [Bool.or_eq_false_iff, hne, hs, and_true, true_and, List.any_eq_false, Bool.not_eq_true',
        Bool.not_eq_false]
      exact hvalid
    unfold msgDeleteScopeOwner
    simp [hb, hr, hstay, hu]

/-! ### `AddScopeOwner` -/

theorem validatePartiesBasic_iff (env : Env) (ps : List Party) :
    validatePartiesBasic env ps = true ↔
      ps.isEmpty = false ∧ (∀ p ∈ ps, env.valid p.address = true ∧ p.role ≠ roleUNSPECIFIED)
        ∧ Spec.noRepeats ps = true := by
  unfold validatePartiesBasic partyBasicOk
  simp only [Bool.and_eq_true, Bool.not_eq_true', List.all_eq_true, partiesUnique_iff, bne_iff_ne, ne_eq,
    and_assoc]

/-- What an accepted `AddScopeOwner` message established, for ALL inputs: the message is
well-formed for the stored scope; the stored result is the stored scope followed by the new
owners; the new owner list satisfies the specification's roles, the PROVENANCE rule and (without
rollup) has no optional party; and the signature requirement of the STORED scope is met. -/
theorem msgAddScopeOwner_only_when (env : Env) (hv : env.valid "" = false) (stored : Option Scope)
    (new : List Party) (roles : List Role) (signers : List Addr) (after : Scope)
    (h : msgAddScopeOwner env stored new roles signers = .ok after) :
    ∃ ex, stored = some ex
      ∧ Spec.addOwnersWellFormed env stored new signers = true
      ∧ after = { ex with owners := Spec.ownersAfterAdd ex.owners new }
      ∧ (ex.rollup = false → ∀ p ∈ after.owners, p.optional = false)
      ∧ Spec.rolesPresent after.owners roles = true ∧ Spec.provenanceRoleOk env after.owners = true
      ∧ (Spec.scopeUpdateReq ex roles).ok env "AddScopeOwner" signers = true := by
  unfold msgAddScopeOwner at h
  split_ifs at h with hb
  cases stored with
  | none => simp at h
  | some ex =>
    simp only at h
    cases hr : addOwners ex.owners new with
    | none => simp [hr] at h
    | some owners =>
      simp only [hr] at h
      cases hu : validateUpdateScopeOwners env "AddScopeOwner" ex owners roles signers with
      | error e => simp [hu] at h
      | ok u =>
        simp only [hu, Except.ok.injEq] at h
        obtain ⟨hnew, rfl⟩ := (addOwners_some_iff _ _ _).mp hr
        have := updateScopeOwners_only_when env hv _ ex _ roles signers hu
        subst h
        refine ⟨ex, rfl, ?_, rfl, this.1, this.2.1, this.2.2.1, this.2.2.2⟩
        have hb' := Bool.eq_false_iff.mpr hb
        simp only [Bool.or_eq_false_iff, Bool.not_eq_false'] at hb'
        obtain ⟨hbasic, hs⟩ := hb'
        obtain ⟨hne, hall, hrep⟩ := (validatePartiesBasic_iff env new).mp hbasic
        simp only [Spec.addOwnersWellFormed, Bool.and_eq_true, Bool.not_eq_true', List.all_eq_true,
          bne_iff_ne, ne_eq, List.any_eq_false, beq_iff_eq, not_and]
        refine ⟨⟨⟨⟨hne, hall⟩, hrep⟩, hs⟩, ?_⟩
        intro n hn o ho h1 h2
        exact hnew n hn o ho ⟨h1, h2⟩

/-- No smart-contract signer: `AddScopeOwner` is accepted exactly when the message is
well-formed for the stored scope and the documented requirements hold; and then it stores the
stored owners followed by the new ones. -/
theorem msgAddScopeOwner_iff (env : Env) (hv : env.valid "" = false) (ex : Scope)
    (new : List Party) (roles : List Role) (signers : List Addr) (hnc : NoContracts env signers)
    (after : Scope) :
    msgAddScopeOwner env (some ex) new roles signers = .ok after ↔
      Spec.addOwnersWellFormed env (some ex) new signers = true
        ∧ after = { ex with owners := Spec.ownersAfterAdd ex.owners new }
        ∧ (ex.rollup = false → ∀ p ∈ after.owners, p.optional = false)
        ∧ Spec.rolesPresent after.owners roles = true ∧ Spec.provenanceRoleOk env after.owners = true
        ∧ (Spec.scopeUpdateReq ex roles).ok env "AddScopeOwner" signers = true := by
  constructor
  · intro h
    obtain ⟨ex', hex, h1, h2, h3⟩ := msgAddScopeOwner_only_when env hv _ _ _ _ _ h
    cases hex
    exact ⟨h1, h2, h3⟩
  · rintro ⟨hw, rfl, h0, h1, h2, h3⟩
    simp only [Spec.addOwnersWellFormed, Bool.and_eq_true, Bool.not_eq_true', List.all_eq_true,
      bne_iff_ne, ne_eq, List.any_eq_false, beq_iff_eq, not_and] at hw
    obtain ⟨⟨⟨⟨hne, hall⟩, hrep⟩, hs⟩, hnew⟩ := hw
    have hr : addOwners ex.owners new = some (Spec.ownersAfterAdd ex.owners new) :=
      (addOwners_some_iff _ _ _).mpr ⟨fun n hn o ho hh => hnew n hn o ho hh.1 hh.2, rfl⟩
    have hu := (updateScopeOwners_iff env hv "AddScopeOwner" ex (Spec.ownersAfterAdd ex.owners new)
      roles signers hnc).mpr ⟨h0, h1, h2, h3⟩
    have hbasic := (validatePartiesBasic_iff env new).mpr ⟨hne, hall, hrep⟩
    unfold msgAddScopeOwner
    simp [hbasic, hs, hr, hu]

/-! ### concrete instances (hypotheses are satisfiable; the removed owner's position does not matter) -/

def msgScope : Scope := { owners := [⟨"A", 5, false⟩, ⟨"B", 2, false⟩, ⟨"C", 1, false⟩], rollup := false }
def msgRollup : Scope := { owners := [⟨"A", 5, false⟩, ⟨"B", 2, true⟩, ⟨"C", 1, false⟩], rollup := true }

-- the owner being removed (first, middle, last position) has to sign as well
example : msgDeleteScopeOwner exEnv (some msgScope) ["A"] [] ["B", "C"] = .error (.invalid (.missingSig [("A", 0)])) := by
  decide
example : msgDeleteScopeOwner exEnv (some msgScope) ["B"] [] ["A", "C"] = .error (.invalid (.missingSig [("B", 0)])) := by
  decide
example : msgDeleteScopeOwner exEnv (some msgScope) ["C"] [] ["A", "B"] = .error (.invalid (.missingSig [("C", 0)])) := by
  decide
example : msgDeleteScopeOwner exEnv (some msgScope) ["A"] [] ["A", "B", "C"]
    = .ok { msgScope with owners := [⟨"B", 2, false⟩, ⟨"C", 1, false⟩] } := by decide
example : msgDeleteScopeOwner exEnv (some msgRollup) ["A"] [2] ["B", "C"]
    = .error (.invalid (.missingSig [("A", 5)])) := by decide
example : msgDeleteScopeOwner exEnv (some msgRollup) ["B"] [5] ["A", "C"]
    = .ok { msgRollup with owners := [⟨"A", 5, false⟩, ⟨"C", 1, false⟩] } := by decide
example : msgAddScopeOwner exEnv (some msgRollup) [⟨"D", 2, true⟩] [5] ["A", "C"]
    = .ok { msgRollup with owners := msgRollup.owners ++ [⟨"D", 2, true⟩] } := by decide
example : msgAddScopeOwner exEnv (some msgRollup) [⟨"B", 2, false⟩] [5] ["A", "C"] = .error .ownerExists := by decide
example : Spec.removeOwnersWellFormed exEnv (some msgScope) ["A"] ["B", "C"] = true := by decide
example : NoContracts exEnv ["B", "C"] := by
  intro s hs; simp at hs; rcases hs with rfl | rfl <;> decide

end PvProofs.C10
