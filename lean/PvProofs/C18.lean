/-
C18 — State is deterministic, restart-safe and survives genesis export and import.

What a theorem can carry here (DESIGN §4 C18, §9):
* the genesis round trip of the store shape every module uses (`importStore (exportStore s) = s`
  for every well-formed store, any size), its validation, and the lift to a module made of
  several stores and scalars;
* `determinism_sources_benign`: over facts REGENERATED from the Go source on every run
  (tools/extract/determinism.go, go/types): in the state-machine code there is no goroutine,
  select, clock read (other than telemetry), randomness, and every `range` over a map either
  only feeds a sort, only accumulates commutatively, or is on the short reviewed list below;
  floats occur only at the reviewed sites.  A newly introduced unsorted map iteration (say in
  fee distribution) changes the generated file and this stops type-checking at once — where
  two runs might agree by luck.
"Byte-identical across runs and restarts" itself is a statement about the Go runtime and the
database; it is exercised by the `genesis` stream (two runs + stop/reopen run + export/import
run per seeded multi-module history) and recorded as supporting runs, not proof.
-/
import PvModel.Store
import Generated.Determinism
import Generated.KeeperState

namespace PvProofs.C18
open PvModel.Store PvProofs.Facts

/-! ## Genesis round trip of a key-ordered store -/

theorem sorted_tail {a : Nat × String} {s : KV} (h : Sorted (a :: s)) : Sorted s := by
  cases s with
  | nil => trivial
  | cons b t => obtain ⟨_, _⟩ := a; obtain ⟨_, _⟩ := b; exact h.2

/-- every key of a sorted store is above a key below its head -/
theorem set_above (s : KV) (k : Nat) (v : String) (hs : Sorted s) (hk : ∀ p ∈ s, p.1 < k) :
    put s k v = s ++ [(k, v)] := by
  induction s with
  | nil => rfl
  | cons a t ih =>
    obtain ⟨k', v'⟩ := a
    have hlt : k' < k := hk (k', v') (List.mem_cons_self ..)
    have h1 : ¬ k < k' := by omega
    have h2 : ¬ k = k' := by omega
    simp only [put, h1, h2, if_false, List.cons_append]
    rw [ih (sorted_tail hs) (fun p hp => hk p (List.mem_cons_of_mem _ hp))]

theorem sorted_head_lt {k : Nat} {v : String} {s : KV} (h : Sorted ((k, v) :: s)) :
    ∀ p ∈ s, k < p.1 := by
  induction s generalizing k v with
  | nil => intro p hp; cases hp
  | cons b t ih =>
    obtain ⟨k₂, v₂⟩ := b
    intro p hp
    have h12 : k < k₂ := h.1
    rcases List.mem_cons.mp hp with rfl | hp
    · exact h12
    · have := ih h.2 p hp; omega

/-- replaying a sorted record list onto a store whose keys are all smaller appends it -/
theorem foldl_set_sorted (acc recs : KV) (hacc : Sorted acc) (hrecs : Sorted recs)
    (hlt : ∀ p ∈ acc, ∀ q ∈ recs, p.1 < q.1) (hsorted_app : Sorted (acc ++ recs)) :
    recs.foldl (fun s (kv : Nat × String) => put s kv.1 kv.2) acc = acc ++ recs := by
  induction recs generalizing acc with
  | nil => simp
  | cons a t ih =>
    obtain ⟨k, v⟩ := a
    simp only [List.foldl_cons]
    have hstep : put acc k v = acc ++ [(k, v)] :=
      set_above acc k v hacc (fun p hp => hlt p hp (k, v) (List.mem_cons_self ..))
    rw [hstep]
    have happ : acc ++ (k, v) :: t = (acc ++ [(k, v)]) ++ t := by simp
    rw [happ]
    have hsorted' : Sorted ((acc ++ [(k, v)]) ++ t) := by rw [← happ]; exact hsorted_app
    apply ih
    · -- Sorted (acc ++ [(k,v)]) : a prefix of a sorted list
      clear ih hstep
      have : ∀ (l r : KV), Sorted (l ++ r) → Sorted l := by
        intro l
        induction l with
        | nil => intro _ _; trivial
        | cons x xs ihx =>
          intro r hr
          cases xs with
          | nil => trivial
          | cons y ys =>
            obtain ⟨_, _⟩ := x; obtain ⟨_, _⟩ := y
            exact ⟨hr.1, ihx r hr.2⟩
      exact this _ t hsorted'
    · exact sorted_tail hrecs
    · intro p hp q hq
      rcases List.mem_append.mp hp with hp | hp
      · exact hlt p hp q (List.mem_cons_of_mem _ hq)
      · simp only [List.mem_singleton] at hp
        subst hp
        exact sorted_head_lt hrecs q hq
    · exact hsorted'

/-- **Round trip**: initialising an empty store from the export of any well-formed store
reproduces that store exactly (any number of records). -/
theorem import_export (s : KV) (hs : Sorted s) : importStore (exportStore s) = s := by
  unfold importStore exportStore
  have := foldl_set_sorted [] s trivial hs (fun p hp => by cases hp) (by simpa using hs)
  simpa using this

theorem sorted_noDup (s : KV) (hs : Sorted s) : noDupKeys s = true := by
  induction s with
  | nil => rfl
  | cons a t ih =>
    obtain ⟨k, v⟩ := a
    simp only [noDupKeys, Bool.and_eq_true, Bool.not_eq_true', List.any_eq_false, beq_iff_eq]
    refine ⟨?_, ih (sorted_tail hs)⟩
    intro p hp
    have := sorted_head_lt hs p hp
    simp; omega

/-- the re-initialised chain accepts its own export -/
theorem export_validates (s : KV) (hs : Sorted s) : noDupKeys (exportStore s) = true :=
  sorted_noDup s hs

/-- `put` keeps a store well-formed, so every reachable store is (induction over writes). -/
theorem set_sorted (s : KV) (k : Nat) (v : String) (hs : Sorted s) : Sorted (put s k v) := by
  induction s with
  | nil => trivial
  | cons a t ih =>
    obtain ⟨k', v'⟩ := a
    simp only [put]
    split
    · exact ⟨by assumption, hs⟩
    · split
      · rename_i h1 h2
        subst h2
        cases t with
        | nil => trivial
        | cons b t' => obtain ⟨_, _⟩ := b; exact ⟨hs.1, hs.2⟩
      · rename_i h1 h2
        have hlt : k' < k := by omega
        have iht := ih (sorted_tail hs)
        cases t with
        | nil => exact ⟨hlt, trivial⟩
        | cons b t' =>
          obtain ⟨k₂, v₂⟩ := b
          simp only [put] at iht ⊢
          split
          · exact ⟨hlt, by assumption, hs.2⟩
          · split
            · rename_i h3 h4; subst h4
              simp only [put, h3, if_false, if_true] at iht
              exact ⟨hs.1, iht⟩
            · rename_i h3 h4
              simp only [put, h3, h4, if_false] at iht
              exact ⟨hs.1, iht⟩

theorem delete_sorted (s : KV) (k : Nat) (hs : Sorted s) : Sorted (del s k) := by
  induction s with
  | nil => trivial
  | cons a t ih =>
    obtain ⟨k', v'⟩ := a
    simp only [del]
    split
    · exact sorted_tail hs
    · have iht := ih (sorted_tail hs)
      cases t with
      | nil => trivial
      | cons b t' =>
        obtain ⟨k₂, v₂⟩ := b
        simp only [del] at iht ⊢
        split
        · cases t' with
          | nil => trivial
          | cons c t'' =>
            obtain ⟨k₃, v₃⟩ := c
            exact ⟨by have := hs.2.1; have := hs.1; omega, hs.2.2⟩
        · rename_i h3
          simp only [del, h3, if_false] at iht
          exact ⟨hs.1, iht⟩

/-- Every store reachable by writes and deletes from the empty store round-trips. -/
inductive WOp where
  | put (k : Nat) (v : String)
  | del (k : Nat)

def applyW (s : KV) : WOp → KV
  | .put k v => put s k v
  | .del k => del s k

theorem reachable_sorted (ops : List WOp) : Sorted (ops.foldl applyW []) := by
  suffices h : ∀ s, Sorted s → Sorted (ops.foldl applyW s) from h [] trivial
  induction ops with
  | nil => intro s hs; exact hs
  | cons op rest ih =>
    intro s hs
    simp only [List.foldl_cons]
    apply ih
    cases op with
    | put k v => exact set_sorted s k v hs
    | del k => exact delete_sorted s k hs

theorem reachable_roundtrip (ops : List WOp) :
    importStore (exportStore (ops.foldl applyW [])) = ops.foldl applyW [] ∧
    noDupKeys (exportStore (ops.foldl applyW [])) = true :=
  ⟨import_export _ (reachable_sorted ops), export_validates _ (reachable_sorted ops)⟩

/-- A module (several stores + scalar fields) round-trips and its export validates. -/
theorem module_roundtrip (s : ModuleState) (hs : ∀ st ∈ s.stores, Sorted st) :
    importModule (exportModule s) = s ∧ validateModule (exportModule s) = true := by
  constructor
  · cases s with
    | mk stores scalars =>
      simp only [importModule, exportModule, List.map_map, ModuleState.mk.injEq, and_true]
      have : ∀ (l : List KV), (∀ st ∈ l, Sorted st) → l.map (importStore ∘ exportStore) = l := by
        intro l
        induction l with
        | nil => intro _; rfl
        | cons a t ih =>
          intro h
          simp only [List.map_cons, Function.comp]
          rw [import_export a (h a (List.mem_cons_self ..))]
          rw [ih (fun st hst => h st (List.mem_cons_of_mem _ hst))]
      exact this stores hs
  · simp only [validateModule, exportModule, List.all_map, List.all_eq_true, Function.comp]
    intro st hst
    exact export_validates st (hs st hst)

example : importStore (exportStore (([WOp.put 5 "a", .put 2 "b", .put 9 "c", .del 5, .put 2 "d"]).foldl applyW []))
    = [(2, "d"), (9, "c")] := by decide

/-! ## Determinism facts regenerated from the Go source -/

/-- `range` over a map that neither sorts nor accumulates commutatively, each reviewed by hand:
why order cannot reach state, results or events. -/
def reviewedUnordered : List (String × String × String) := [
  ("app/app.go", "App.GetStoreKeys", "app.keys"),                       -- test helper (not called by the app)
  ("app/app.go", "App.AutoCliOpts", "app.mm.Modules"),                  -- CLI wiring only
  ("app/app.go", "New", "maccPerms"),                                   -- builds the unsanctionable list, used as a put
  ("app/upgrades.go", "InstallCustomUpgradeHandlers", "upgrades"),      -- registers one handler per name
  ("internal/antewrapper/fee_gas_meter.go", "FeeGasMeter.GasConsumed", "g.used"),  -- log text only
  ("x/marker/types/si.go", "init", "SIPrefix_name")]                    -- fills lookup maps at start-up

/-- Floating point: telemetry counters, a client-side gas estimate, and the staking
concentration cap (a float32 product of configuration constants and the validator count,
truncated to an integer percentage — no fused operation, same on every architecture). -/
def reviewedFloats : List (String × String) := [
  ("internal/antewrapper/fee_gas_meter.go", "FeeGasMeter.ConsumeGas"),
  ("internal/handlers/staking_restrictions_hooks.go", "StakingRestrictionHooks.AfterDelegationModified"),
  ("x/marker/keeper/msg_server.go", "msgServer.Burn"),
  ("x/marker/keeper/msg_server.go", "msgServer.IbcTransfer"),
  ("x/marker/keeper/msg_server.go", "msgServer.Mint"),
  ("x/marker/keeper/msg_server.go", "msgServer.Transfer"),
  ("x/marker/keeper/msg_server.go", "msgServer.Withdraw"),
  ("x/msgfees/keeper/query_server.go", "Keeper.CalculateTxFees")]

/-! ### Why the two benign classes cannot leak the visiting order

Go visits the entries of a map in an unspecified order: two runs (or two nodes) see two
*permutations* of the same entries. The extractor classifies a loop as `sorted` when its body only
collects the keys/entries into a slice that is sorted before any use, and as `commutative` when
its body only folds the entries into an accumulator with steps that commute (coin sums, set
insertions, independent per-key store writes). For both shapes the result is a function of the
*set* of entries, for every pair of visiting orders: -/

/-- `sorted`: whatever order the keys were collected in, the sorted slice is the same. -/
theorem sorted_iteration_order_independent (visit₁ visit₂ : List String) (h : visit₁.Perm visit₂) :
    visit₁.mergeSort (fun a b => decide (a ≤ b)) = visit₂.mergeSort (fun a b => decide (a ≤ b)) := by
  apply List.Perm.eq_of_pairwise (le := fun a b => (decide (a ≤ b)) = true)
  · intro a b _ _ hab hba
    simp at hab hba
    exact String.le_antisymm hab hba
  · apply List.pairwise_mergeSort
    · intro a b c; simp; exact String.le_trans
    · intro a b; simp; exact String.le_total a b
  · apply List.pairwise_mergeSort
    · intro a b c; simp; exact String.le_trans
    · intro a b; simp; exact String.le_total a b
  · exact ((List.mergeSort_perm visit₁ _).trans h).trans (List.mergeSort_perm visit₂ _).symm

/-- `commutative`: a fold whose steps commute gives the same accumulator for every visiting order. -/
theorem commutative_iteration_order_independent {σ κ : Type} (body : σ → κ → σ)
    (hcomm : ∀ s a b, body (body s a) b = body (body s b) a)
    (visit₁ visit₂ : List κ) (h : visit₁.Perm visit₂) (init : σ) :
    visit₁.foldl body init = visit₂.foldl body init :=
  List.Perm.foldl_eq' h (fun a _ b _ s => hcomm s a b) init

/-- instance used most often in the code: summing amounts per key into a total -/
example (visit₁ visit₂ : List (String × Int)) (h : visit₁.Perm visit₂) :
    visit₁.foldl (fun acc e => acc + e.2) 0 = visit₂.foldl (fun acc e => acc + e.2) 0 :=
  commutative_iteration_order_independent _ (fun s a b => by omega) _ _ h 0

def benign (f : DetFact) : Bool :=
  if f.kind == "range-map" then
    f.cls == "sorted" || f.cls == "commutative" || reviewedUnordered.contains (f.file, f.func, f.detail)
  else if f.kind == "float" then reviewedFloats.contains (f.file, f.func)
  else if f.kind == "clock" then f.cls == "telemetry"
  else false   -- go-stmt, select, random: none allowed in state-machine code

set_option maxRecDepth 100000 in
/-- Every language-level source of run-to-run difference in the state-machine code is absent
or order-insensitive. -/
theorem determinism_sources_benign : Generated.determinism.all benign = true := by decide

/-- The fact list is not empty and contains the known sorted iterations (the extractor sees
the code it is supposed to see). -/
theorem determinism_facts_nonvacuous :
    (Generated.determinism.any fun f => f.func == "sortedKeys" && f.cls == "sorted") = true ∧
    (Generated.determinism.any fun f => f.file == "internal/antewrapper/fee_gas_meter.go" && f.kind == "range-map") = true := by
  decide

/-! ## No in-memory state in keepers that could make behaviour depend on process start -/

/-- Functions that fill a keeper-level map once while the app is being wired (before any block). -/
def startupRegistration : List String := [
  "PioMsgServiceRouter.registerHybridHandler", "PioMsgServiceRouter.registerMsgServiceHandler"]

def keeperFieldOk (f : KeeperField) : Bool := f.mutatedIn.all fun fn => startupRegistration.contains fn

/-- Every map / slice / channel field of every keeper and app-level handler struct is written
only by constructors or start-up registration: nothing a running node accumulates in memory
(caches, counters) can differ from a freshly restarted one. A newly added in-memory cache that
is filled while blocks execute changes the regenerated list and breaks this theorem. -/
theorem keeper_state_constant : Generated.keeperState.all keeperFieldOk = true := by decide

end PvProofs.C18
