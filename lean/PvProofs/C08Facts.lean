/-
C08 — facts regenerated from the Go source on every run (tools/extract/feewiring.go →
`Generated.FeeWiring`) that the `txfee` model takes for granted about the WIRING of the fee
code.  Each theorem is closed by `decide`; when the source changes the wiring, the regenerated
definitions change and the theorem stops checking.
-/
import Generated.FeeWiring

namespace PvProofs.C08Facts
open Generated.FeeWiring

/-- The decorators `PvModel.Txfee.anteHandle` mirrors, in the order it mirrors them. -/
def modelledDecorators : List String :=
  ["cosmosante.NewSetUpContextDecorator", "NewFeeMeterContextDecorator", "NewTxGasLimitDecorator",
   "NewMinGasPricesDecorator", "NewMsgFeesDecorator", "NewProvenanceDeductFeeDecorator",
   "cosmosante.NewSigVerificationDecorator", "cosmosante.NewIncrementSequenceDecorator"]

/-- `NewAnteHandler` (internal/antewrapper/handler.go) chains the modelled decorators in the
modelled order: gas meter → fee gas meter → gas limit → (mempool) min gas price → (mempool) msg
fees → base-fee deduction → signature verification → sequence increment.  In particular the fee
is deducted BEFORE signatures are checked (so a bad signature must be — and is, by `runTx`'s
branch — rolled back), and the fee gas meter exists before anything consumes fees. -/
theorem ante_decorator_order :
    anteDecorators.filter (fun d => modelledDecorators.contains d) = modelledDecorators := by decide

/-- Every provenance-specific decorator (constructed by the antewrapper package itself) is one
the model knows: a new fee-related decorator cannot appear unnoticed. -/
theorem no_unmodelled_provenance_decorator :
    localDecorators.all (fun d => modelledDecorators.contains d) = true := by decide

/-- The router's per-message closure consumes the message fees first, then validates, then calls
the module's handler (`Step.route` before `Step.effect` in the model's flattening). -/
theorem router_consumes_fees_before_handler :
    routerCalls.head? = some "msr.consumeMsgFees" ∧ routerCalls.getLast? = some "methodHandler" ∧
    (routerCalls.filter (· = "msr.consumeMsgFees")).length = 1 := by decide

/-- app/app.go installs the fee-aware router (with the msgfees keeper), the provenance ante
handler and the fee handler built from `MsgFeeInvoker`. -/
theorem app_installs_fee_machinery :
    ["New:bApp.SetMsgServiceRouter", "New:piohandlers.NewPioMsgServiceRouter",
     "New:pioMsgFeesRouter.SetMsgFeesKeeper", "New:app.setAnteHandler", "New:app.setFeeHandler",
     "setAnteHandler:antewrapper.NewAnteHandler", "setAnteHandler:app.SetAnteHandler",
     "setFeeHandler:piohandlers.NewAdditionalMsgFeeHandler", "setFeeHandler:app.SetFeeHandler"].all
      (fun c => appFeeCalls.contains c) = true ∧
    feeHandlerCalls = ["NewMsgFeeInvoker"] := by decide

/-- `MsgFeeInvoker.Invoke` reads the consumed fees and the base fee already paid, subtracts the
latter from the declared fee, resolves the paying account through the fee grant and hands the
remainder and the per-recipient distributions to `DeductFeesDistributions` — the call sequence
`PvModel.Txfee.invoke` mirrors. -/
theorem invoke_call_sequence :
    invokeCalls = ["feeGasMeter.FeeConsumed", "feeGasMeter.BaseFeeConsumed", "feeTx.GetFee().SafeSub",
      "antewrapper.GetFeePayerUsingFeeGrant", "afd.msgFeeKeeper.DeductFeesDistributions",
      "feeGasMeter.FeeConsumedDistributions"] := by decide

/-- `checkDeductBaseFee` computes the base fee and the additional fees, resolves the paying
account, deducts the base fee and records it on the meter, in that order. -/
theorem deduct_call_sequence :
    deductCalls = ["CalculateBaseFee", "dfd.msgFeeKeeper.CalculateAdditionalFeesToBePaid",
      "GetFeePayerUsingFeeGrant", "DeductFees", "feeGasMeter.ConsumeBaseFee"] := by decide

/-- No function of the ante / router packages reads the mempool RECHECK flag: on a recheck the
whole mempool check — the fee sufficiency test of `MsgFeesDecorator` included — runs again,
against the parameters and schedule then in force (`PvModel.Txfee.recheckTx` is `checkTx`). -/
theorem fee_code_ignores_recheck_mode : recheckReaders = [] := by decide

end PvProofs.C08Facts
