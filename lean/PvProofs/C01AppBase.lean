/-
C01 — soundness of the keeper-level checker: what the model's own dumps say (balances = the ledger,
accounts = the involved accounts + market + fee collector), and the abstract description of an
accepted message's coin movements (`MoneyCtx`) from which the money clauses are derived once for all
three messages.
-/
import PvProofs.C01AppDefs

namespace PvProofs.C01
open PvModel PvModel.Settle PvModel.Coins PvModel.Ledger PvProofs.Settle

theorem amountOf_balances (L : Ledger) (a : Addr) (d : Denom) : amountOf (Ledger.balances L a) d = bal L a d := by
  unfold Ledger.balances
  rw [amountOf_canon]
  induction L with
  | nil => rfl
  | cons e t ih =>
    by_cases h : e.addr = a
    · simp only [List.filter_cons, h, decide_true, if_true, List.map_cons, amountOf_cons, bal, true_and, ih]
    · simp only [List.filter_cons, h, decide_false, Bool.false_eq_true, if_false, bal, false_and, ih]
      omega

theorem cAccts_dumpOf (accts : List Addr) (k : KState) :
    cAccts (dumpOf accts k) = accts ++ [marketName, collectorName] := by
  simp [cAccts, dumpOf, List.map_map, Function.comp_def]

theorem find?_map_key (l : List Addr) (g : Addr → Coins) (x : Addr) (hx : x ∈ l) :
    (l.map fun a => (a, g a)).find? (·.1 = x) = some (x, g x) := by
  induction l with
  | nil => simp at hx
  | cons a t ih =>
    by_cases h : a = x
    · subst h; simp
    · have : x ∈ t := by
        rcases List.mem_cons.mp hx with h' | h'
        · exact absurd h'.symm h
        · exact h'
      simp [List.find?_cons, h, ih this]

theorem dump_bal (accts : List Addr) (k : KState) (x : Addr) (d : Denom)
    (hx : x ∈ accts ++ [marketName, collectorName]) : (dumpOf accts k).bal x d = bal k.ledger x d := by
  unfold Dump.bal dumpOf
  simp only
  rw [find?_map_key _ (fun a => Ledger.balances k.ledger a) x hx]
  exact amountOf_balances _ _ _

theorem dump_hold (accts : List Addr) (k : KState) (x : Addr) (d : Denom) (hx : x ∈ accts) :
    (dumpOf accts k).hold x d = amountOf (k.holdsOf x) d := by
  unfold Dump.hold dumpOf
  simp only
  rw [find?_map_key _ (fun a => k.holdsOf a) x hx]

theorem cDelta_dumpOf {accts : List Addr} {s s' : KState} {L : Ledger} (hL : s'.ledger = s.ledger ++ L)
    (x : Addr) (d : Denom) (hx : x ∈ accts ++ [marketName, collectorName]) :
    cDelta (dumpOf accts s) (dumpOf accts s') x d = bal L x d := by
  unfold cDelta
  rw [dump_bal _ _ _ _ hx, dump_bal _ _ _ _ hx, hL, bal_append]
  omega

theorem mem_cUsers {accts : List Addr} (k : KState) (hm : marketName ∉ accts) (hc : collectorName ∉ accts) (x : Addr) :
    x ∈ cUsers (dumpOf accts k) ↔ x ∈ accts := by
  unfold cUsers
  rw [cAccts_dumpOf]
  simp only [List.mem_filter, List.mem_append, List.mem_cons, List.not_mem_nil, or_false, decide_eq_true_eq]
  constructor
  · rintro ⟨h | h | h, h1, h2⟩
    · exact h
    · exact absurd h h1
    · exact absurd h h2
  · intro h
    exact ⟨Or.inl h, fun e => hm (e ▸ h), fun e => hc (e ▸ h)⟩

/-- `q` (a part as the checker reconstructs it from the dumps: a named order, what was filled of the
partially filled one, or the sender of a user fill as the order it stands for) describes the filled
order `f` (what the model moved for it): same owner, side, denoms and assets; a buyer pays exactly its
price, a seller receives at least its price; the fees paid are the part's own fees plus — for a seller,
in the price denom — the ratio fee `⌈received·fee/price⌉`. -/
def PartOf (ratio : Option Ratio) (q : Order) (f : FilledOrder) : Prop :=
  q.owner = f.order.owner ∧ q.isAsk = f.order.isAsk ∧ q.assetsDenom = f.order.assetsDenom ∧
  q.priceDenom = f.order.priceDenom ∧ q.assets = f.order.assets ∧
  (if q.isAsk then q.price ≤ f.actualPrice else f.actualPrice = q.price) ∧
  ∀ d, amountOf f.actualFees d = amountOf q.fees d +
    (if q.isAsk = true ∧ d = q.priceDenom then ratioCeil ratio f.actualPrice else 0)

/-- the market's seller ratio as `MsgGovManageFees`/`ValidateSellerFeeRatios` accept it: positive price
amount, fee amount between 0 and the price amount (the fee denom equal to the price denom is used where
`PartOf` is established) -/
def RatioOk (ratio : Option Ratio) : Prop :=
  ∀ r, ratio = some r → 0 < r.priceAmt ∧ 0 ≤ r.feeAmt ∧ r.feeAmt ≤ r.priceAmt

/-- What the model did for an accepted message, abstractly: it appended `L` to the ledger; `L` changes
every account by what the filled orders `fos` say minus their fees, the market account by all fees minus
the exchange's share `ex`, the fee collector by that share; the checker's `parts` describe `fos`. -/
structure MoneyCtx (accts : List Addr) (s s' : KState) (ratio : Option Ratio) (splitOf : Denom → Nat)
    (parts : List Order) where
  L : Ledger
  fos : List FilledOrder
  ex : Coins
  nodup : (accts ++ [marketName, collectorName]).Nodup
  ledger : s'.ledger = s.ledger ++ L
  bal : ∀ x d, Ledger.bal L x d = expectedDelta fos x d - expectedFees fos x d
      + (if marketName = x then totalFees fos d - amountOf ex d else 0)
      + (if collectorName = x then amountOf ex d else 0)
  share : ∀ d, IsExchangeShare (totalFees fos d) (splitOf d) (amountOf ex d)
  owners : ∀ f ∈ fos, f.order.owner ∈ accts
  feesNonneg : ∀ f ∈ fos, ∀ d, 0 ≤ amountOf f.actualFees d
  ratioOk : RatioOk ratio
  parts : List.Forall₂ (PartOf ratio) parts fos

end PvProofs.C01
