/-
C01 — soundness of the keeper-level checker: the coin movements of an accepted `MsgMarketSettle` in the
abstract form `MoneyCtx` (what `closeSettlement_deltas` proves, re-expressed over the parts the checker
reconstructs from the two dumps: the named orders, the partially filled one as `filledPart`).
-/
import PvProofs.C01AppMsgBase
import Mathlib.Tactic.Linarith

namespace PvProofs.C01
open PvModel PvModel.Settle PvModel.Coins PvModel.Ledger PvProofs.Settle

/-- the checker's part for a named order: the order itself, or — for the one order of which `left` is
left — what was filled of it -/
def settlePart (left : Option Order) (o : Order) : Order :=
  match left with
  | some l => if l.id = o.id then filledPart o (some l) else o
  | none => o

theorem st_lookup_some_denom {s : KState} {d : Denom} {r : Ratio} (h : s.lookup d = .ok (some r)) :
    r.priceDenom = d := by
  unfold KState.lookup at h
  split at h
  · simp at h
  · rename_i r' _
    split at h
    · rename_i hd
      simp only [Except.ok.injEq, Option.some.injEq] at h
      subst h; exact hd
    · simp at h

theorem st_amountOf_nonneg {c : Coins} (h : NonnegFees c) (d : Denom) : 0 ≤ amountOf c d := by
  induction c with
  | nil => simp
  | cons x t ih =>
    obtain ⟨d', v⟩ := x
    have hv : 0 ≤ v := h (d', v) (by simp)
    have := ih (fun y hy => h y (by simp [hy]))
    simp only [amountOf_cons]
    split <;> omega

theorem st_ratioCeil_nonneg {ratio : Option Ratio} (hr : SellerRatioOk ratio) {P : Int} (hP : 0 ≤ P) :
    0 ≤ ratioCeil ratio P := by
  unfold ratioCeil
  cases ratio with
  | none => simp
  | some r =>
    obtain ⟨_, hb, hf, _⟩ := hr r rfl
    exact isCeilDiv_nonneg hb (Int.mul_nonneg hP hf) (ceilDiv_isCeil _ hb)

theorem st_mid_ne {A B : List Order} {o : Order} (h : ((A ++ [o] ++ B).map (·.id)).Nodup) :
    ∀ x ∈ A ++ B, x.id ≠ o.id := by
  simp only [List.map_append, List.map_cons, List.map_nil] at h
  rw [List.nodup_append] at h
  obtain ⟨h1, _, h3⟩ := h
  rw [List.nodup_append] at h1
  obtain ⟨_, _, h4⟩ := h1
  intro x hx
  rcases List.mem_append.mp hx with hx | hx
  · exact h4 x.id (List.mem_map_of_mem hx) o.id (by simp)
  · intro e
    exact h3 o.id (by simp) x.id (List.mem_map_of_mem hx) e.symm

/-- replacing the partially filled order: the checker's parts (over the requested orders) are the model's
filled orders, the split one read as `filledPart` -/
theorem st_parts_eq {A B : List Order} {o f0 u : Order} {fos : List FilledOrder}
    (hfo : fos.map (·.order) = A ++ [f0] ++ B) (hnd : ((A ++ [o] ++ B).map (·.id)).Nodup)
    (hu : u.id = o.id) (hf : f0.id = o.id) :
    (A ++ [o] ++ B).map (settlePart (some u))
      = fos.map (fun f => if u.id = f.order.id then filledPart o (some u) else f.order) := by
  have hne := st_mid_ne hnd
  have e : fos.map (fun f => if u.id = f.order.id then filledPart o (some u) else f.order)
      = (fos.map (·.order)).map (fun x => if u.id = x.id then filledPart o (some u) else x) := by
    rw [List.map_map]; rfl
  rw [e, hfo]
  simp only [List.map_append, List.map_cons, List.map_nil]
  have hA : A.map (settlePart (some u)) = A.map (fun x => if u.id = x.id then filledPart o (some u) else x) := by
    apply List.map_congr_left
    intro x hx
    have := hne x (by simp [hx])
    have hux : ¬ u.id = x.id := fun e => this (e.symm.trans hu)
    simp [settlePart, hux]
  have hB : B.map (settlePart (some u)) = B.map (fun x => if u.id = x.id then filledPart o (some u) else x) := by
    apply List.map_congr_left
    intro x hx
    have := hne x (by simp [hx])
    have hux : ¬ u.id = x.id := fun e => this (e.symm.trans hu)
    simp [settlePart, hux]
  rw [hA, hB]
  simp [settlePart, hu, hf]

/-- **The coin movements of an accepted `MsgMarketSettle`, as the checker sees them.**  In a state
satisfying the store invariant, with the market's seller ratio as the exchange admits it, and a dump
that covers every order owner: the ledger entries the message appended change every account by what the
model's filled orders say (`closeSettlement_deltas`), those filled orders are described one by one, in
the requested order (asks then bids), by the parts the checker reconstructs from the dumps
(`settlePart`: the named order, or `filledPart` of the one left partially filled), and supply is
unchanged. -/
theorem settle_moneyCtx {s s' : KState} {accts : List Addr} {a b : List Nat} {ep : Bool}
    (hI : StoreInv s) (h : s.msgMarketSettle marketName collectorName a b ep = .ok s')
    (hn : (accts ++ [marketName, collectorName]).Nodup) (hown : ∀ o ∈ s.orders, o.owner ∈ accts)
    (hr : SellerRatioOk s.ratio) :
    ∃ asks bids st, s.getOrders true a "" = .ok asks ∧ s.getOrders false b "" = .ok bids ∧
      buildSettlement asks bids s.lookup = .ok st ∧
      ∃ ctx : MoneyCtx accts s s' s.ratio s.splitOf ((asks ++ bids).map (settlePart st.partialLeft)),
        ∀ d, supply ctx.L d = 0 := by
  obtain ⟨asks, bids, st, L, ha, hb, hst, _, hL, hled, hv, hid⟩ := msgMarketSettle_covered hI h
  obtain ⟨p, hp, hs⟩ := buildSettlement_eq.mp hst
  obtain ⟨ex, hshare, hbal, hsup⟩ := closeSettlement_deltas hp hs hid hL
  obtain ⟨hnf, hperm, hpf, hpl⟩ := sound_ctx hp hs hid
  obtain ⟨ad, pd, W⟩ := plan_wf hp
  obtain ⟨_, ratio, hlk, _⟩ := fee_formula hp
  have hrr := lookup_ok hlk
  subst hrr
  obtain ⟨c1, c2, c3, c4⟩ := cl_elementwise hp hs hid hv hlk (fun r hr' => ⟨(hr r hr').2.1, (hr r hr').2.2.1⟩)
  obtain ⟨left1, _, _, _, h3, h4, _, _, _, _⟩ := plan_unfold hp
  obtain ⟨posA, _⟩ := splitOrderFulfillments_pos h3 (fun o ho => hv o (by simp [ho]))
  obtain ⟨posB, _⟩ := splitOrderFulfillments_pos h4 (fun o ho => hv o (by simp [ho]))
  have hfo := filledOrders_orders hp
  -- the orders of the plan: denoms, positivity
  have hordmem : ∀ f ∈ Plan.filledOrders p, f.order ∈ p.asks ++ p.bids := by
    intro f hf
    rw [← hfo]; exact List.mem_map_of_mem hf
  have hpd : ∀ f ∈ Plan.filledOrders p, f.order.priceDenom = pd ∧ OrderPos f.order := by
    intro f hf
    rcases List.mem_append.mp (hordmem f hf) with h' | h'
    · exact ⟨(W.uA _ h').2.1, posA _ h'⟩
    · exact ⟨(W.uB _ h').2.1, posB _ h'⟩
  have hheadpd : (p.asks.headD default).priceDenom = pd := by
    cases hpa : p.asks with
    | nil => have := W.posA; rw [hpa] at this; simp at this
    | cons x t => simp only [List.headD_cons]; exact (W.uA x (by rw [hpa]; simp)).2.1
  -- element-wise: every filled order is described by its own order
  have hself : ∀ f ∈ Plan.filledOrders p, PartOf s.ratio f.order f := by
    intro f hf
    have hf' : f ∈ st.filled := hperm.mem_iff.mpr hf
    have b1 := List.all_eq_true.mp c1 f hf'
    have b2 := List.all_eq_true.mp c2 f hf'
    have b3 := List.all_eq_true.mp c3 f hf'
    have b4 := List.all_eq_true.mp c4 f hf'
    apply partOf_self
    · cases hk : f.order.isAsk with
      | true => simpa [hk] using b2
      | false => simpa [hk] using b1
    · intro d
      cases hk : f.order.isAsk with
      | false =>
        simp only [hk, Bool.false_or] at b3
        have := coinsEq_iff.mp b3 d
        simp [this]
      | true =>
        simp only [hk, Bool.not_true, Bool.false_or] at b4
        cases hrat : s.ratio with
        | none =>
          rw [hrat] at b4
          simp only [askFeesOk] at b4
          have := coinsEq_iff.mp b4 d
          simp [this, ratioCeil]
        | some r =>
          rw [hrat] at b4 hlk
          obtain ⟨hfd, hb, hfa, _⟩ := hr r hrat
          have hrp : r.priceDenom = pd := by rw [← hheadpd]; exact st_lookup_some_denom hlk
          have hfpd := (hpd f hf).1
          simp only [askFeesOk, List.all_eq_true] at b4
          by_cases hmem : d ∈ r.feeDenom :: denoms f.actualFees ++ denoms f.order.fees
          · have := b4 d hmem
            by_cases hd : d = r.feeDenom
            · simp only [hd, if_true, decide_eq_true_eq] at this
              have e := ratioCeil_of_isCeil hb this
              have hdp : r.feeDenom = f.order.priceDenom := by rw [hfd, hrp, hfpd]
              simp only [hd, hdp, and_self, if_true]
              rw [← hdp, ← e]; omega
            · simp only [hd, if_false, decide_eq_true_eq] at this
              have hdp : ¬ d = f.order.priceDenom := by rw [hfpd, ← hrp, ← hfd]; exact hd
              simp only [hdp, and_false, if_false]; omega
          · have hd : ¬ d = r.feeDenom := fun e => hmem (by simp [e])
            have m1 : d ∉ denoms f.actualFees := fun e => hmem (by simp [e])
            have m2 : d ∉ denoms f.order.fees := fun e => hmem (by simp [e])
            have hdp : ¬ d = f.order.priceDenom := by rw [hfpd, ← hrp, ← hfd]; exact hd
            rw [amountOf_not_mem m1, amountOf_not_mem m2]
            simp [hdp]
  -- the parts describe the filled orders, in order
  have hparts : List.Forall₂ (PartOf s.ratio) ((asks ++ bids).map (settlePart st.partialLeft)) (Plan.filledOrders p) := by
    rw [hpl]
    have replace : ∀ (A B : List Order) (o f0 u : Order) (amt : Int),
        asks ++ bids = A ++ [o] ++ B → p.asks ++ p.bids = A ++ [f0] ++ B → o.split amt = .ok (f0, u) →
        List.Forall₂ (PartOf s.ratio) ((asks ++ bids).map (settlePart (some u))) (Plan.filledOrders p) := by
      intro A B o f0 u amt e1 e2 hsplit
      obtain ⟨_, _, _, hfp, hup, _, hsum, hps, _, _, hfee⟩ := split_exact hsplit
      have hfid : f0.id = o.id := hfp.1
      have huid : u.id = o.id := hup.1
      have hnd : ((A ++ [o] ++ B).map (·.id)).Nodup := by rw [← e1]; exact hid
      rw [e1, st_parts_eq (hfo.trans e2) hnd huid hfid]
      apply forall₂_map_left_of
      intro f hf
      by_cases hc : u.id = f.order.id
      · simp only [hc, if_true]
        -- f.order is the filled half
        have hmem : f.order ∈ A ++ [f0] ++ B := by rw [← e2]; exact hordmem f hf
        have hfeq : f.order = f0 := by
          simp only [List.mem_append, List.mem_singleton] at hmem
          rcases hmem with (hm | hm) | hm
          · exact absurd (hc.symm.trans huid) (st_mid_ne hnd _ (by simp [hm]))
          · exact hm
          · exact absurd (hc.symm.trans huid) (st_mid_ne hnd _ (by simp [hm]))
        obtain ⟨_, p2, p3, p4, p5, _⟩ := hfp
        refine partOf_congr ?_ ?_ ?_ ?_ ?_ ?_ ?_ (hself f hf)
        · rw [hfeq]; exact p3.symm
        · rw [hfeq]; exact p2.symm
        · rw [hfeq]; exact p4.symm
        · rw [hfeq]; exact p5.symm
        · rw [hfeq]; show o.assets - u.assets = f0.assets; omega
        · rw [hfeq]; show o.price - u.price = f0.price; omega
        · intro d
          rw [hfeq]
          show amountOf (canon (o.fees ++ Coins.neg u.fees)) d = amountOf f0.fees d
          rw [amountOf_canon, amountOf_append, amountOf_neg]
          have := (hfee d).1; omega
      · simp only [hc, if_false]
        exact hself f hf
    rcases at_most_one_partial hp with ⟨a1, a2, a3⟩ | ⟨init, o, f0, u, a1, a2, a3, a4, _, a6⟩ | ⟨init, o, f0, u, a1, a2, a3, a4, _, a6⟩
    · rw [a3]
      have : (asks ++ bids).map (settlePart none) = (Plan.filledOrders p).map (·.order) := by
        rw [hfo, a1, a2]
        have hid' : settlePart none = id := by funext o; rfl
        rw [hid']; simp
      rw [this]
      exact forall₂_map_left_of _ _ hself
    · rw [a4]
      exact replace init bids o f0 u _ (by rw [a1]) (by rw [a2, a3]) a6
    · rw [a4]
      exact replace (asks ++ init) [] o f0 u _ (by rw [a1]; simp) (by rw [a2, a3]; simp) a6
  -- totals over `st.filled` are totals over the plan's filled orders
  have htot : ∀ d, totalFees st.filled d = totalFees (Plan.filledOrders p) d := by
    intro d
    have := populateFilled_sum _ _ _ _ hpf hnf (fun f => amountOf f.actualFees d)
    simpa only [totalFees, Settlement.filled] using this
  refine ⟨asks, bids, st, ha, hb, hst, ?_⟩
  refine ⟨{ L := L, fos := Plan.filledOrders p, ex := ex, nodup := hn, ledger := hled,
            bal := ?_, share := ?_, owners := ?_, feesNonneg := ?_, ratioOk := hr.ratioOk, parts := hparts }, hsup⟩
  · intro x d
    obtain ⟨e1, e2⟩ := filled_is_reordering hs hnf x d
    rw [hbal x d, e1, e2, htot d]
  · intro d
    rw [← htot d]; exact hshare d
  · intro f hf
    have : f.order.owner ∈ (Plan.filledOrders p).map (·.order.owner) := List.mem_map_of_mem hf
    rw [(filled_ids hp).2] at this
    obtain ⟨o, ho, he⟩ := List.mem_map.mp this
    rw [← he]
    rcases List.mem_append.mp ho with h' | h'
    · exact hown o (getOrders_mem ha o h').1
    · exact hown o (getOrders_mem hb o h').1
  · intro f hf d
    obtain ⟨_, _, _, _, _, hprice, hfees⟩ := hself f hf
    rw [hfees d]
    have hpos := (hpd f hf).2
    have h0 := st_amountOf_nonneg hpos.fees d
    split
    · rename_i hc
      have hP : 0 ≤ f.actualPrice := by
        simp only [hc.1, if_true] at hprice
        have := hpos.price; omega
      have := st_ratioCeil_nonneg hr hP
      omega
    · omega

end PvProofs.C01
