/-
C01 — deepening round: the seller's ratio fee of a user fill spelled out as one ceiling, and the
order-store post-condition of the three messages (what `s'.orders` is).
-/
import PvProofs.C01Checker
import PvProofs.C01Examples

namespace PvProofs.C01
open PvModel PvModel.Settle PvModel.Coins PvModel.Ledger PvProofs.Settle

/-! ## 7. The seller's ratio fee of `FillBids` is one ceiling -/

theorem forall₂_left {α β : Type} {R : α → β → Prop} {l : List α} {r : List β} (h : List.Forall₂ R l r) :
    ∀ a ∈ l, ∃ b, R a b := by
  induction h with
  | nil => intro a ha; simp at ha
  | cons hab _ ih =>
    intro a ha
    simp only [List.mem_cons] at ha
    rcases ha with rfl | ha
    · exact ⟨_, hab⟩
    · exact ih a ha

theorem le_sum_of_mem_nonneg {α : Type} (g : α → Int) (l : List α) (hg : ∀ a ∈ l, 0 ≤ g a) :
    0 ≤ (l.map g).sum ∧ ∀ a ∈ l, g a ≤ (l.map g).sum := by
  induction l with
  | nil => exact ⟨by simp, by intro a ha; simp at ha⟩
  | cons x t ih =>
    obtain ⟨h0, h1⟩ := ih (fun a ha => hg a (by simp [ha]))
    have hx := hg x (by simp)
    simp only [List.map_cons, List.sum_cons]
    refine ⟨by omega, ?_⟩
    intro a ha
    simp only [List.mem_cons] at ha
    rcases ha with rfl | ha
    · omega
    · have := h1 a ha; omega

/-- **The seller's ratio fee of a user fill, spelled out.**  In a market with a (valid) seller ratio
`price : fee`, for the non-empty list of stored bids a `FillBids` fills (positive prices), the ratio fees
that `fillBids_deltas` constrains by `IsRatioFeeOf` are: every bid is priced in the ratio's price denom,
and the seller pays — besides the flat fee of the request — exactly ONE coin in the ratio's fee denom,
`⌈(Σ bid prices)·fee/price⌉`: the ceiling is taken once, on the total (not per order). -/
theorem fillBids_seller_fee_ceil {s : KState} {r : Ratio} {orders : List Order} {ratioFees : List Coins}
    (hr : s.ratio = some r) (hrp : 0 < r.priceAmt) (hrf : 0 ≤ r.feeAmt)
    (hne : orders ≠ []) (hpos : ∀ o ∈ orders, 0 < o.price)
    (h : List.Forall₂ (IsRatioFeeOf s) (sumCoins (orders.map fun o => [(o.priceDenom, o.price)])) ratioFees) :
    (∀ o ∈ orders, o.priceDenom = r.priceDenom) ∧
    ∃ amt, ratioFees.flatten = [(r.feeDenom, amt)] ∧
      Fees.IsCeilDiv ((orders.map (·.price)).sum * r.feeAmt) r.priceAmt amt := by
  have hden : ∀ c ∈ sumCoins (orders.map fun o => [(o.priceDenom, o.price)]), c.1 = r.priceDenom := by
    intro c hc
    obtain ⟨b, hb⟩ := forall₂_left h c hc
    unfold IsRatioFeeOf at hb
    rw [hr] at hb
    exact hb.1.symm
  have hall : ∀ o ∈ orders, o.priceDenom = r.priceDenom := by
    intro o ho
    have hamt : amountOf (sumCoins (orders.map fun o => [(o.priceDenom, o.price)])) o.priceDenom
        = (orders.map fun o' => if o'.priceDenom = o.priceDenom then o'.price else 0).sum := by
      rw [amountOf_sumCoins, List.map_map]; congr 1; apply List.map_congr_left; intro o' _; simp
    have hge := (le_sum_of_mem_nonneg (fun o' : Order => if o'.priceDenom = o.priceDenom then o'.price else 0) orders
      (fun a ha => by
        have := hpos a ha
        show 0 ≤ (if a.priceDenom = o.priceDenom then a.price else 0)
        split <;> omega)).2 o ho
    have hge : o.price ≤ (orders.map fun o' => if o'.priceDenom = o.priceDenom then o'.price else 0).sum := by
      simpa using hge
    have hp := hpos o ho
    have hmem : o.priceDenom ∈ denoms (sumCoins (orders.map fun o => [(o.priceDenom, o.price)])) := by
      by_contra hn
      have := amountOf_not_mem hn
      rw [hamt] at this
      omega
    obtain ⟨c, hc, hcd⟩ := List.mem_map.mp hmem
    rw [← hcd]; exact hden c hc
  have hflat : ∀ c ∈ (orders.map fun o => [(o.priceDenom, o.price)]).flatten, c.1 = r.priceDenom := by
    intro c hc
    obtain ⟨l, hl, hcl⟩ := List.mem_flatten.mp hc
    obtain ⟨o, ho, rfl⟩ := List.mem_map.mp hl
    simp only [List.mem_singleton] at hcl
    subst hcl
    exact hall o ho
  have hsum : ((orders.map fun o => [(o.priceDenom, o.price)]).flatten.map (·.2)).sum = (orders.map (·.price)).sum := by
    clear hflat hall hden h hpos hne
    induction orders with
    | nil => rfl
    | cons o t ih => simp only [List.map_cons, List.flatten_cons, List.map_append, List.sum_append, ih]; simp
  have hP : 0 < (orders.map (·.price)).sum := by
    cases orders with
    | nil => exact absurd rfl hne
    | cons o t =>
      have h0 := (le_sum_of_mem_nonneg (·.price) t (fun a ha => by have := hpos a (by simp [ha]); omega)).1
      have := hpos o (by simp)
      simp only [List.map_cons, List.sum_cons]; omega
  have hcanon : sumCoins (orders.map fun o => [(o.priceDenom, o.price)]) = [(r.priceDenom, (orders.map (·.price)).sum)] := by
    unfold sumCoins
    rw [canon_single r.priceDenom _ hflat (by
      cases orders with
      | nil => exact absurd rfl hne
      | cons o t => simp) (by rw [hsum]; omega), hsum]
  refine ⟨hall, ?_⟩
  rw [hcanon] at h
  cases h with
  | cons hab htl =>
    cases htl
    unfold IsRatioFeeOf at hab
    rw [hr] at hab
    obtain ⟨_, amt, hf, hceil⟩ := hab
    refine ⟨amt, by simp [hf], hceil (by simp only; omega) hrp hrf⟩

/-- non-vacuity: the example state's bids 11 and 12 (prices 66 + 48 usd, ratio 1000:3 usd) — the
seller's ratio fee is the one coin `⌈114·3/1000⌉ = 1 usd` -/
example :
    let s : KState := { ratio := some ⟨"usd", 1000, "usd", 3⟩ }
    let orders : List Order := [⟨11, false, "B1", "apple", 6, "usd", 66, [("fig", 3)], false⟩,
      ⟨12, false, "X1", "apple", 4, "usd", 48, [], false⟩]
    (sumCoins (orders.map fun o => [(o.priceDenom, o.price)])).mapM s.ratioFeeOf = .ok [[("usd", 1)]] ∧
    orders ≠ [] ∧ (∀ o ∈ orders, 0 < o.price) := by decide

/-! ## 8. The order store after an accepted message

`storeAfter orders ids left` is what the property says the store is after a message naming `ids`:
every order the message does not name is kept as it is and where it is, every named order is deleted —
except the one left partially filled (`left`), which stays, under its id and in its place, as `left`;
nothing is added. -/

def storeAfter (orders : List Order) (ids : List Nat) (left : Option Order) : List Order :=
  match left with
  | none => orders.filter (fun o => !ids.contains o.id)
  | some l => (orders.filter (fun o => !ids.contains o.id || o.id == l.id)).map (fun o => if o.id = l.id then l else o)

/-- the ids of `FullyFilledOrders` are the requested ids without the partially filled one -/
theorem fullyFilled_ids {asks bids : List Order} {lookup : Denom → Except Err (Option Ratio)} {p : Plan} {st : Settlement}
    (hp : plan asks bids lookup = .ok p) (hs : p.settlement = .ok st) (x : Nat) :
    x ∈ st.fullyFilled.map (·.order.id) ↔
      x ∈ (asks ++ bids).map (·.id) ∧ ∀ l, st.partialLeft = some l → x ≠ l.id := by
  obtain ⟨_, _, _, _, _, _, _, _, hpf, hpl⟩ := settlement_unfold hs
  have hpf' : (st.fullyFilled, st.partialFilled) = populateFilled (Plan.filledOrders p) p.partialLeft := hpf
  rw [← (filled_ids hp).1, hpl]
  unfold populateFilled at hpf'
  cases hl : p.partialLeft with
  | none =>
    rw [hl] at hpf'
    simp only [Prod.mk.injEq] at hpf'
    rw [hpf'.1]
    simp
  | some l =>
    rw [hl] at hpf'
    simp only [Prod.mk.injEq] at hpf'
    rw [hpf'.1]
    simp only [List.mem_map, List.mem_filter, Option.some.injEq, forall_eq']
    constructor
    · rintro ⟨f, ⟨hf, hne⟩, rfl⟩
      exact ⟨⟨f, hf, rfl⟩, by simpa using hne⟩
    · rintro ⟨⟨f, hf, rfl⟩, hne⟩
      exact ⟨f, ⟨hf, by simpa using hne⟩, rfl⟩

/-- **Store post-condition of an accepted `MsgMarketSettle`** (every reachable state, `StoreInv`).
The store afterwards is *exactly* `storeAfter`: the orders the request does not name are untouched and
in place, the named ones are deleted, no order is added — except that the one order left partially
filled stays under its id as `PartialOrderLeft`; and that order is the remainder of a stored, named
order `o` that is the last of its list, `o.split` of the filled amount (so `split_exact`: it allows
partial fills, assets/price/every fee of the remainder keep the original proportions exactly);
`ExpectPartial` says whether there is one. -/
theorem settle_store_post {s s' : KState} {m c : Addr} {a b : List Nat} {ep : Bool}
    (hI : StoreInv s) (h : s.msgMarketSettle m c a b ep = .ok s') :
    ∃ asks bids st, s.getOrders true a "" = .ok asks ∧ s.getOrders false b "" = .ok bids ∧
      buildSettlement asks bids s.lookup = .ok st ∧
      s'.orders = storeAfter s.orders (a ++ b) st.partialLeft ∧
      ep = st.partialLeft.isSome ∧
      ∀ l, st.partialLeft = some l →
        ∃ o f amt, o ∈ s.orders ∧ o.id = l.id ∧ o.id ∈ a ++ b ∧
          (asks.getLast? = some o ∨ bids.getLast? = some o) ∧ o.split amt = .ok (f, l) ∧ l ∈ s'.orders := by
  obtain ⟨asks, bids, st, L, ha, hb, hst, hep, _, _, hv, hid⟩ := msgMarketSettle_covered hI h
  obtain ⟨p, hp, hs⟩ := buildSettlement_eq.mp hst
  have hidsEq : (asks ++ bids).map (·.id) = a ++ b := by
    rw [List.map_append, getOrders_ids ha, getOrders_ids hb]
  have hff := fullyFilled_ids hp hs
  simp only [hidsEq] at hff
  -- the store after `close`
  have hclose : s.close m c st = .ok s' := by
    unfold KState.msgMarketSettle at h
    split at h; · simp at h
    unfold KState.settleOrders at h
    rw [ha, hb] at h
    simp only [hst] at h
    split at h; · simp at h
    exact h
  obtain ⟨_, ho⟩ := close_orders hclose
  have hstore : s'.orders = storeAfter s.orders (a ++ b) st.partialLeft := by
    rw [ho]
    unfold storeAfter
    cases hl : st.partialLeft with
    | none =>
      simp only
      apply List.filter_congr
      intro o _
      have := hff o.id
      have this' : o.id ∈ st.fullyFilled.map (·.order.id) ↔ o.id ∈ a ++ b := by rw [this, hl]; simp
      rw [Bool.eq_iff_iff]
      simp only [Bool.not_eq_true', List.contains_eq_mem, decide_eq_false_iff_not, this']
    | some l =>
      simp only
      congr 1
      apply List.filter_congr
      intro o _
      have := hff o.id
      simp only [hl, Option.some.injEq, forall_eq'] at this
      rw [Bool.eq_iff_iff]
      simp only [Bool.not_eq_true', Bool.or_eq_true, List.contains_eq_mem, decide_eq_false_iff_not, beq_iff_eq, this]
      by_cases hc : o.id ∈ a ++ b <;> by_cases he : o.id = l.id <;> simp [hc, he]
  obtain ⟨_, _, _, _, _, _, _, _, hpf, hpl⟩ := settlement_unfold hs
  have hpf' : (st.fullyFilled, st.partialFilled) = populateFilled (Plan.filledOrders p) p.partialLeft := hpf
  refine ⟨asks, bids, st, ha, hb, hst, hstore, ?_, ?_⟩
  · -- ExpectPartial
    rw [hep]
    obtain ⟨a1, a2, _, _, _⟩ := cl_ids_partial hp hs hid hv
    simp only [clPartialPair, beq_iff_eq] at a2
    exact a2.symm
  · intro l hl
    rw [hpl] at hl
    rcases partial_facts hp with ⟨hnone, _⟩ | ⟨l', o, f, amt, hsome, homem, hlast, _, _, hlid, hsplit, _⟩
    · rw [hnone] at hl; cases hl
    · rw [hsome] at hl; cases hl
      have hos : o ∈ s.orders := by
        rcases List.mem_append.mp homem with h' | h'
        · exact (getOrders_mem ha o h').1
        · exact (getOrders_mem hb o h').1
      have hoid : o.id ∈ a ++ b := by rw [← hidsEq]; exact List.mem_map_of_mem homem
      refine ⟨o, f, amt, hos, hlid.symm, hoid, hlast, hsplit, ?_⟩
      rw [hstore, hpl, hsome]
      unfold storeAfter
      simp only
      refine List.mem_map.mpr ⟨o, List.mem_filter.mpr ⟨hos, by simp [hlid]⟩, by simp [hlid]⟩

/-- **Store post-condition of an accepted `MsgFillBids`**: exactly the named bids are deleted; every
other order is untouched and in place; no order is added or left partially filled. -/
theorem fillBids_store_post {s s' : KState} {m c seller : Addr} {ids : List Nat} {ta flat : Coins}
    (h : s.msgFillBids m c seller ids ta flat = .ok s') :
    s'.orders = storeAfter s.orders ids none := by
  obtain ⟨h, _⟩ := msgFillBids_once h
  unfold KState.fillBids at h
  split at h; · simp at h
  rename_i orders hor
  simp only at h
  split at h; · simp at h
  split at h; · simp at h
  obtain ⟨_, ho⟩ := close_orders h
  simp only [List.map_map] at ho
  have e : orders.map ((fun f : FilledOrder => f.order.id) ∘ fun o => (⟨o, o.price, o.fees⟩ : FilledOrder)) = ids := by
    rw [← getOrders_ids hor]; apply List.map_congr_left; intro o _; rfl
  rw [e] at ho
  exact ho

/-- **Store post-condition of an accepted `MsgFillAsks`**: exactly the named asks are deleted. -/
theorem fillAsks_store_post {s s' : KState} {m c buyer : Addr} {ids : List Nat} {tp : Denom × Int} {fees : Coins}
    (h : s.msgFillAsks m c buyer ids tp fees = .ok s') :
    s'.orders = storeAfter s.orders ids none := by
  obtain ⟨h, _⟩ := msgFillAsks_once h
  unfold KState.fillAsks at h
  split at h; · simp at h
  rename_i orders hor
  simp only at h
  split at h; · simp at h
  split at h; · simp at h
  rename_i ratioFees hrf
  obtain ⟨_, ho⟩ := close_orders h
  simp only [List.map_map] at ho
  have e : (orders.zip ratioFees).map ((fun f : FilledOrder => f.order.id) ∘
      fun p => (⟨p.1, p.1.price, p.1.fees ++ p.2⟩ : FilledOrder)) = ids := by
    rw [← getOrders_ids hor, ← map_fst_zip_fun (·.id) orders ratioFees (mapM_ok_length _ _ _ hrf)]
    apply List.map_congr_left; intro o _; rfl
  rw [e] at ho
  exact ho

/-- what `storeAfter` means order by order: nothing new, unnamed orders untouched, named ones gone or
replaced by the remainder -/
theorem storeAfter_spec (orders : List Order) (ids : List Nat) (left : Option Order) :
    ((storeAfter orders ids left).map (·.id)).Sublist (orders.map (·.id)) ∧
    (∀ o, o.id ∉ ids → (∀ l, left = some l → l.id ∈ ids) → (o ∈ storeAfter orders ids left ↔ o ∈ orders)) ∧
    (∀ o ∈ storeAfter orders ids left, o.id ∈ ids → left = some o) := by
  unfold storeAfter
  cases left with
  | none =>
    refine ⟨(List.filter_sublist).map _, ?_, ?_⟩
    · intro o hn _
      simp [List.mem_filter, hn]
    · intro o ho hin
      have := (List.mem_filter.mp ho).2
      simp [hin] at this
  | some l =>
    simp only
    refine ⟨?_, ?_, ?_⟩
    · have hids : ∀ l' : List Order, (l'.map (fun o => if o.id = l.id then l else o)).map (·.id) = l'.map (·.id) := by
        intro l'
        rw [List.map_map]
        apply List.map_congr_left
        intro o _
        simp only [Function.comp]
        split
        · rename_i h; exact h.symm
        · rfl
      rw [hids]
      exact (List.filter_sublist).map _
    · intro o hn hl
      have hne : o.id ≠ l.id := fun he => hn (he ▸ hl l rfl)
      constructor
      · intro ho
        obtain ⟨o', ho', heq⟩ := List.mem_map.mp ho
        split at heq
        · subst heq; exact absurd rfl hne
        · subst heq; exact (List.mem_filter.mp ho').1
      · intro ho
        exact List.mem_map.mpr ⟨o, List.mem_filter.mpr ⟨ho, by simp [hn]⟩, by simp [hne]⟩
    · intro o ho hin
      obtain ⟨o', ho', heq⟩ := List.mem_map.mp ho
      split at heq
      · rw [heq]
      · subst heq
        rename_i hne
        have := (List.mem_filter.mp ho').2
        simp [hin, hne] at this

/-- non-vacuity of `settle_store_post` / `fillBids_store_post`: the example state of `C01Examples`
satisfies `StoreInv`; the accepted settlement leaves exactly the remainder of bid 13, the accepted fill
exactly the orders it does not name -/
example :
    (match exState.msgMarketSettle "mkt" "feecol" [1, 2] [11, 12, 13] true with
      | .ok s' => s'.orders == [⟨13, false, "B2", "apple", 5, "usd", 60, [("fig", 5), ("usd", 10)], true⟩]
      | .error _ => false) = true ∧
    (match exState.msgFillBids "mkt" "feecol" "S9" [11, 12] [("apple", 10)] [("usd", 2)] with
      | .ok s' => s'.orders.map (·.id) == [1, 2, 13]
      | .error _ => false) = true := by decide

/-! ## 9. A rejected message moves nothing — because it ran on a cache

`closeSettlement` issues its bank sends one after the other; the bank refuses a send whose sender cannot
cover it (`canSend`: balance minus what is on hold).  The keeper collects such errors, **goes on** with the
remaining transfers and `CollectFees`, and returns the errors at the end (keeper/fulfillment.go:284-298) —
so when it fails, coins have already moved in the store it was writing to.  The model states this
explicitly: `runSends` writes every accepted send to the message's cache, `KState.closeCached` returns that
cache together with the error, and `KState.close` — the only place where the cache meets the state —
keeps it on success and drops it on error.  The `settleapp` stream exercises it on the real code with
fillers that cannot cover the first transfer, the second transfer, or only the fees. -/

/-- **The writes are incremental.**  Whatever `closeSettlement` returns, the cache it leaves is the old
ledger plus the entries of the sends that went through (a sub-sequence `sent` of its sends, in order);
it returns no error exactly when all of them did. -/
theorem runSends_incremental (locked : Addr → Coins) (L : Ledger) (ts : List Transfer) :
    ∃ sent : List Transfer, sent.Sublist ts ∧ (runSends locked L ts).1 = L ++ sent.flatMap Transfer.ledger ∧
      ((runSends locked L ts).2 = true → sent = ts) := by
  induction ts generalizing L with
  | nil => exact ⟨[], .slnil, by simp [runSends], fun _ => rfl⟩
  | cons t rest ih =>
    unfold runSends
    split
    · obtain ⟨done, h1, h2, h3⟩ := ih (L ++ t.ledger)
      exact ⟨t :: done, h1.cons_cons t, by rw [h2]; simp [List.append_assoc], fun h => by rw [h3 h]⟩
    · obtain ⟨done, h1, h2, _⟩ := ih L
      exact ⟨done, h1.cons t, h2, fun h => by simp at h⟩

/-- **Every send of an accepted message was covered when it was issued**: `runSends` succeeds iff each
send's inputs are spendable on the ledger as the sends before it left it — in particular a fee may be
paid out of what the same message has just transferred to the payer, and may not be paid out of what it
has just taken from it. -/
theorem runSends_ok_iff (locked : Addr → Coins) (L : Ledger) (ts : List Transfer) :
    (runSends locked L ts).2 = true ↔
      ∀ (i : Nat) (t : Transfer), ts[i]? = some t → t.inputs.all (canSend locked (L ++ (ts.take i).flatMap Transfer.ledger)) = true := by
  induction ts generalizing L with
  | nil => simp [runSends]
  | cons t rest ih =>
    unfold runSends
    split
    · rename_i hc
      rw [ih]
      constructor
      · intro h i t' hi
        cases i with
        | zero => simp only [List.getElem?_cons_zero, Option.some.injEq] at hi; subst hi; simpa using hc
        | succ i =>
          have := h i t' (by simpa using hi)
          simpa [List.append_assoc] using this
      · intro h i t' hi
        have := h (i + 1) t' (by simpa using hi)
        simpa [List.append_assoc] using this
    · rename_i hc
      simp only [Bool.false_eq_true, false_iff]
      intro h
      have := h 0 t (by simp)
      simp only [List.take_zero, List.flatMap_nil, List.append_nil] at this
      exact hc this

/-- **A failed `closeSettlement` moves nothing — because its cache is dropped.**  If the keeper function
returns an error `e` with the cache `cache`, then (1) the message's result is that error and nothing of
the cache is kept: `KState.apply` returns the state unchanged (balances, orders, holds); although (2) the
cache does contain the entries of every send that went through before and after the failing one (`sent`),
so the unchanged state is due to the cache being discarded, not to nothing having been written. -/
theorem failed_close_is_discarded {s cache : KState} {m c : Addr} {st : Settlement} {e : KErr}
    (h : s.closeCached m c st = (cache, some e)) :
    s.close m c st = .error e ∧
    ∃ (ex : Coins) (sent : List Transfer), sent.Sublist (closeSends m c st ex) ∧
      cache.ledger = s.ledger ++ sent.flatMap Transfer.ledger := by
  refine ⟨by unfold KState.close; rw [h], ?_⟩
  unfold KState.closeCached at h
  split at h
  · simp only [Prod.mk.injEq] at h
    exact ⟨[], [], List.nil_sublist _, by rw [← h.1]; simp⟩
  · rename_i ex hex
    obtain ⟨done, h1, h2, _⟩ := runSends_incremental (lockedOf (s.keptOrders st)) s.ledger (closeSends m c st ex)
    refine ⟨ex, done, h1, ?_⟩
    by_cases hr : (runSends (lockedOf (s.keptOrders st)) s.ledger (closeSends m c st ex)).2 = true
    · simp [hr] at h
    · simp only [hr, Bool.false_eq_true, if_false, Prod.mk.injEq] at h
      rw [← h.1]; exact h2

/-- **A rejected message moves nothing**, at the level of a history: whatever the message and whatever the
point at which it fails — `ValidateBasic`, fetching the orders, `BuildSettlement`, the totals, or a bank
send refused in the middle of `closeSettlement` (`failed_close_is_discarded`) — the next state of the
history is the old state; an accepted message's next state is the cache it wrote. -/
theorem rejected_moves_nothing (m c : Addr) (s : KState) (op : KOp) :
    let r := match op with
      | .create o => s.createOrder o
      | .settle a b ep => s.msgMarketSettle m c a b ep
      | .fillBids seller ids ta flat => s.msgFillBids m c seller ids ta flat
      | .fillAsks buyer ids tp fees => s.msgFillAsks m c buyer ids tp fees
    (∀ e, r = .error e → s.apply m c op = s) ∧ (∀ s', r = .ok s' → s.apply m c op = s') := by
  intro r
  constructor
  · intro e he
    unfold KState.apply
    cases op <;> simp only [r] at he <;> simp only [he]
  · intro s' he
    unfold KState.apply
    cases op <;> simp only [r] at he <;> simp only [he]

/-- the example state with buyer `B1` owning no `fig` (its settlement fee is 3 fig) -/
def exPoorFunds : Ledger :=
  ["S1", "X1", "B2"].foldl (fun L a => Ledger.credit L a [("apple", 1000), ("usd", 1000), ("fig", 1000)])
    (Ledger.credit [] "B1" [("apple", 1000), ("usd", 1000)])
def exPoor : KState := { exState with ledger := exPoorFunds }

/-- non-vacuity of `failed_close_is_discarded`: settling the example request in `exPoor`, every transfer
goes through on the cache (seller `S1` has received its 116 usd there, the store still has all orders),
`CollectFees` is refused (`B1` has no fig), the keeper returns `funds` — and the message leaves `exPoor`
exactly as it was, while the same message is accepted in the fully funded `exState` -/
example :
    (match buildSettlement exAsks exBids exPoor.lookup with
      | .ok st =>
        let r := exPoor.closeCached "mkt" "feecol" st
        r.2 == some KErr.funds && bal r.1.ledger "S1" "usd" == 1000 + 116 && bal exPoor.ledger "S1" "usd" == 1000
          && bal r.1.ledger "mkt" "fig" == 0
      | .error _ => false) = true ∧
    exPoor.msgMarketSettle "mkt" "feecol" [1, 2] [11, 12, 13] true = .error .funds ∧
    exPoor.apply "mkt" "feecol" (.settle [1, 2] [11, 12, 13] true) = exPoor ∧
    exState.apply "mkt" "feecol" (.settle [1, 2] [11, 12, 13] true) ≠ exState := by decide

/-- bidders funded, seller `S9` owns 10 apples and nothing else -/
def exApplesOnly : Ledger :=
  Ledger.credit (["X1", "B1"].foldl (fun L a => Ledger.credit L a [("apple", 1000), ("usd", 1000), ("fig", 1000)]) [])
    "S9" [("apple", 10)]

/-- a fee is paid out of what the same message has just transferred to the payer: seller `S9` fills bids 11
and 12 (114 usd) owning apples only — its 2 usd flat fee and 1 usd ratio fee come out of the price; the
same fill with a 2 fig flat fee is refused after both transfers ran, and moves nothing -/
example :
    let s : KState := { exState with ledger := exApplesOnly }
    (match s.msgFillBids "mkt" "feecol" "S9" [11, 12] [("apple", 10)] [("usd", 2)] with
      | .ok s' => bal s'.ledger "S9" "usd" == 114 - 3 && bal s'.ledger "S9" "apple" == 0
      | .error _ => false) = true ∧
    s.msgFillBids "mkt" "feecol" "S9" [11, 12] [("apple", 10)] [("fig", 2)] = .error .funds ∧
    s.apply "mkt" "feecol" (.fillBids "S9" [11, 12] [("apple", 10)] [("fig", 2)]) = s := by decide

end PvProofs.C01
