/-
C11 — Privileged endpoints reject callers without the specific authority.

Two kinds of theorem:
* about the *model* (`PvModel.Perms`): for all states, endpoints, callers, permission updates
  and operation histories;
* about the *regenerated facts* (`Generated.Handlers`, re-extracted from /repo's Go source on
  every run): every market endpoint is dominated by the `Can*` guard of the documented
  permission, every `Can*` helper passes the documented `Permission_*` constant, every
  governance-only handler of every module starts with the authority comparison.  If the
  source changes a guard the generated file changes and these stop type-checking.
-/
import PvModel.Perms
import PvModel.PermsDriver
import Generated.Handlers
import Mathlib.Tactic.Tauto
import Mathlib.Tactic.ByContra

namespace PvProofs.C11
open PvModel.Perms PvProofs.Facts

/-! ## Model theorems -/

/-- An endpoint lets a caller through iff the caller is the authority or holds exactly the
endpoint's permission on exactly that market. -/
theorem endpoint_allowed_iff (s : State) (e : Endpoint) (m : Nat) (c : String) :
    endpointAllowed s e m c = true ↔ c = s.authority ∨ (m, c, e.required) ∈ s.grants := by
  simp [endpointAllowed, hasPermission, storeHas]

/-- No other permission, and no permission on another market, helps. -/
theorem endpoint_needs_its_perm (s : State) (e : Endpoint) (m : Nat) (c : String)
    (hc : c ≠ s.authority) (hg : (m, c, e.required) ∉ s.grants) :
    endpointAllowed s e m c = false := by
  cases h : endpointAllowed s e m c
  · rfl
  · rcases (endpoint_allowed_iff s e m c).mp h with h1 | h1
    · exact absurd h1 hc
    · exact absurd h1 hg

/-- Permissions held by other accounts / on other markets / of other kinds are irrelevant:
two states that agree on the one triple give the same answer. -/
theorem endpoint_depends_only_on_its_triple (s₁ s₂ : State) (e : Endpoint) (m : Nat) (c : String)
    (ha : s₁.authority = s₂.authority)
    (h : (m, c, e.required) ∈ s₁.grants ↔ (m, c, e.required) ∈ s₂.grants) :
    endpointAllowed s₁ e m c = endpointAllowed s₂ e m c := by
  have h1 := endpoint_allowed_iff s₁ e m c
  have h2 := endpoint_allowed_iff s₂ e m c
  rw [ha, h] at h1
  cases hx : endpointAllowed s₁ e m c <;> cases hy : endpointAllowed s₂ e m c <;> simp_all

example : endpointAllowed { grants := [(1, "A", .settle)] } .MarketSettle 1 "A" = true ∧
    endpointAllowed { grants := [(1, "A", .settle)] } .MarketSettle 2 "A" = false ∧
    endpointAllowed { grants := [(1, "A", .settle)] } .MarketWithdraw 1 "A" = false ∧
    endpointAllowed { grants := [(1, "A", .settle)] } .MarketWithdraw 1 "GOV" = true := by decide

/-! ### Granting and revoking: exact effect and frame -/

theorem mem_revokeAllPass {m : Nat} {as : List String} {gs gs' : List Grant}
    (h : revokeAllPass m as gs = some gs') (g : Grant) :
    g ∈ gs' ↔ g ∈ gs ∧ ¬ (g.1 = m ∧ g.2.1 ∈ as) := by
  induction as generalizing gs with
  | nil => simp [revokeAllPass] at h; subst h; simp
  | cons a rest ih =>
    simp only [revokeAllPass] at h
    split at h
    · rw [ih h]
      simp only [List.mem_filter, List.mem_cons]
      constructor
      · rintro ⟨⟨hg, hf⟩, hn⟩
        refine ⟨hg, ?_⟩
        rintro ⟨hm, ha | ha⟩
        · simp [hm, ha] at hf
        · exact hn ⟨hm, ha⟩
      · rintro ⟨hg, hn⟩
        refine ⟨⟨hg, ?_⟩, fun ⟨hm, ha⟩ => hn ⟨hm, Or.inr ha⟩⟩
        simp only [Bool.not_eq_eq_eq_not, Bool.not_true, Bool.and_eq_false_imp, beq_iff_eq,
          beq_eq_false_iff_ne, ne_eq]
        intro hm ha
        exact hn ⟨hm, Or.inl ha⟩
    · cases h

theorem mem_revokePass {m : Nat} {ags : List (String × List Perm)} {gs gs' : List Grant}
    (h : revokePass m ags gs = some gs') (g : Grant) :
    g ∈ gs' ↔ g ∈ gs ∧ ¬ (g.1 = m ∧ ∃ ag ∈ ags, ag.1 = g.2.1 ∧ g.2.2 ∈ ag.2) := by
  induction ags generalizing gs with
  | nil => simp [revokePass] at h; subst h; simp
  | cons ag rest ih =>
    obtain ⟨a, ps⟩ := ag
    simp only [revokePass] at h
    split at h
    · rw [ih h]
      simp only [List.mem_filter, List.mem_cons, exists_eq_or_imp]
      constructor
      · rintro ⟨⟨hg, hf⟩, hn⟩
        refine ⟨hg, ?_⟩
        rintro ⟨hm, ⟨ha, hp⟩ | hex⟩
        · simp [hm, ← ha, hp] at hf
        · exact hn ⟨hm, hex⟩
      · rintro ⟨hg, hn⟩
        refine ⟨⟨hg, ?_⟩, fun ⟨hm, hex⟩ => hn ⟨hm, Or.inr hex⟩⟩
        simp only [Bool.not_eq_eq_eq_not, Bool.not_true, Bool.and_eq_false_imp, beq_iff_eq,
          List.contains_eq_mem, decide_eq_false_iff_not]
        intro hm ha
        simp only [Bool.and_eq_true, beq_iff_eq] at hm
        exact hn ⟨hm.1, Or.inl ⟨hm.2.symm, ha⟩⟩
    · cases h

theorem mem_grantPass {m : Nat} {ags : List (String × List Perm)} {gs gs' : List Grant}
    (h : grantPass m ags gs = some gs') (g : Grant) :
    g ∈ gs' ↔ g ∈ gs ∨ (g.1 = m ∧ ∃ ag ∈ ags, ag.1 = g.2.1 ∧ g.2.2 ∈ ag.2) := by
  induction ags generalizing gs with
  | nil => simp [grantPass] at h; subst h; simp
  | cons ag rest ih =>
    obtain ⟨a, ps⟩ := ag
    simp only [grantPass] at h
    split at h
    · rw [ih h]
      simp only [List.mem_append, List.mem_map, List.mem_cons, exists_eq_or_imp]
      constructor
      · rintro ((hg | ⟨p, hp, rfl⟩) | hr)
        · exact Or.inl hg
        · exact Or.inr ⟨rfl, Or.inl ⟨rfl, hp⟩⟩
        · exact Or.inr ⟨hr.1, Or.inr hr.2⟩
      · rintro (hg | ⟨hm, ⟨ha, hp⟩ | hex⟩)
        · exact Or.inl (Or.inl hg)
        · refine Or.inl (Or.inr ⟨g.2.2, hp, ?_⟩)
          obtain ⟨g1, g2, g3⟩ := g
          simp_all
        · exact Or.inr ⟨hm, hex⟩
    · cases h

/-- Whether `(address, perm)` is named by an access-grant list. -/
def Named (ags : List (String × List Perm)) (a : String) (p : Perm) : Prop :=
  ∃ ag ∈ ags, ag.1 = a ∧ p ∈ ag.2

/-- **Exact effect** of a successful `UpdatePermissions` on market `m`. -/
theorem updatePermissions_effect {s s' : State} {m : Nat} {u : PermUpdate}
    (h : updatePermissions s m u = .ok s') (g : Grant) :
    g ∈ s'.grants ↔
      (g ∈ s.grants ∧ ¬ (g.1 = m ∧ g.2.1 ∈ u.revokeAll) ∧ ¬ (g.1 = m ∧ Named u.toRevoke g.2.1 g.2.2))
      ∨ (g.1 = m ∧ Named u.toGrant g.2.1 g.2.2) := by
  unfold updatePermissions at h
  split at h
  · rename_i gs hgs
    cases h
    simp only [Option.bind_eq_bind] at hgs
    obtain ⟨g2, hg2, h3⟩ := Option.bind_eq_some_iff.mp hgs
    obtain ⟨g1, h1, h2⟩ := Option.bind_eq_some_iff.mp hg2
    simp only [mem_grantPass h3 g, mem_revokePass h2 g, mem_revokeAllPass h1 g, Named, and_assoc]
  · cases h

/-- **Frame**: granting or revoking changes nothing for any other market … -/
theorem updatePermissions_other_market {s s' : State} {m : Nat} {u : PermUpdate}
    (h : updatePermissions s m u = .ok s') (g : Grant) (hm : g.1 ≠ m) :
    g ∈ s'.grants ↔ g ∈ s.grants := by
  rw [updatePermissions_effect h g]; simp [hm]

/-- … any other account … -/
theorem updatePermissions_other_account {s s' : State} {m : Nat} {u : PermUpdate}
    (h : updatePermissions s m u = .ok s') (g : Grant)
    (h1 : g.2.1 ∉ u.revokeAll) (h2 : ∀ ag ∈ u.toRevoke, ag.1 ≠ g.2.1) (h3 : ∀ ag ∈ u.toGrant, ag.1 ≠ g.2.1) :
    g ∈ s'.grants ↔ g ∈ s.grants := by
  rw [updatePermissions_effect h g]
  have n2 : ¬ Named u.toRevoke g.2.1 g.2.2 := fun ⟨ag, hag, ha, _⟩ => h2 ag hag ha
  have n3 : ¬ Named u.toGrant g.2.1 g.2.2 := fun ⟨ag, hag, ha, _⟩ => h3 ag hag ha
  simp [h1, n2, n3]

/-- … or any other permission of a named account (unless it is revoked wholesale). -/
theorem updatePermissions_other_perm {s s' : State} {m : Nat} {u : PermUpdate}
    (h : updatePermissions s m u = .ok s') (g : Grant)
    (h1 : g.2.1 ∉ u.revokeAll) (h2 : ¬ Named u.toRevoke g.2.1 g.2.2) (h3 : ¬ Named u.toGrant g.2.1 g.2.2) :
    g ∈ s'.grants ↔ g ∈ s.grants := by
  rw [updatePermissions_effect h g]; simp [h1, h2, h3]

/-- The rest of the state is untouched, and a failed update changes nothing (`applyOp`). -/
theorem updatePermissions_rest {s s' : State} {m : Nat} {u : PermUpdate}
    (h : updatePermissions s m u = .ok s') :
    s'.authority = s.authority ∧ s'.orders = s.orders ∧ s'.payments = s.payments := by
  unfold updatePermissions at h
  split at h <;> cases h <;> simp

example : ∃ s', updatePermissions { grants := [(1, "A", .settle), (2, "A", .settle), (1, "B", .update)] } 1
    { revokeAll := ["B"], toRevoke := [("A", [.settle])], toGrant := [("C", [.cancel, .withdraw])] } = .ok s'
    ∧ s'.grants = [(2, "A", .settle), (1, "C", .cancel), (1, "C", .withdraw)] := ⟨_, rfl, by decide⟩

/-! ### Histories: permissions change only through a permitted `MarketManagePermissions` -/

theorem opResult_fst (r : Except String State) (s : State) :
    (opResult r s).1 = (match r with | .ok s' => s' | .error _ => s) := by
  cases r <;> rfl

/-- Order and payment operations never touch permissions or the authority. -/
theorem cancelOrder_keeps {s s' : State} {id : Nat} {sg : String} (h : cancelOrder s id sg = .ok s') :
    s'.grants = s.grants ∧ s'.authority = s.authority := by
  unfold cancelOrder at h
  split at h
  · cases h
  · split at h <;> cases h; exact ⟨rfl, rfl⟩

theorem createPayment_keeps {s s' : State} {a b c : String} (h : createPayment s a b c = .ok s') :
    s'.grants = s.grants ∧ s'.authority = s.authority := by
  unfold createPayment at h
  split at h <;> cases h; exact ⟨rfl, rfl⟩

theorem acceptPayment_keeps {s s' : State} {a b c : String} (h : acceptPayment s a b c = .ok s') :
    s'.grants = s.grants ∧ s'.authority = s.authority := by
  unfold acceptPayment at h
  split at h
  · cases h
  · split at h
    · cases h
    · split at h <;> cases h; exact ⟨rfl, rfl⟩

theorem rejectPayment_keeps {s s' : State} {a b c : String} (h : rejectPayment s a b c = .ok s') :
    s'.grants = s.grants ∧ s'.authority = s.authority := by
  unfold rejectPayment at h
  split at h
  · cases h
  · split at h
    · cases h
    · split at h <;> cases h; exact ⟨rfl, rfl⟩

theorem cancelPayment_keeps {s s' : State} {a b : String} (h : cancelPayment s a b = .ok s') :
    s'.grants = s.grants ∧ s'.authority = s.authority := by
  unfold cancelPayment at h
  split at h <;> cases h; exact ⟨rfl, rfl⟩

theorem changeTarget_keeps {s s' : State} {a b c : String} (h : changeTarget s a b c = .ok s') :
    s'.grants = s.grants ∧ s'.authority = s.authority := by
  unfold changeTarget at h
  split at h
  · cases h
  · split at h <;> cases h; exact ⟨rfl, rfl⟩

theorem opResult_keeps {r : Except String State} {s : State}
    (h : ∀ s', r = .ok s' → s'.grants = s.grants ∧ s'.authority = s.authority) :
    (opResult r s).1.grants = s.grants ∧ (opResult r s).1.authority = s.authority := by
  cases r with
  | error e => exact ⟨rfl, rfl⟩
  | ok s' => exact h s' rfl

/-- Every op other than a *permitted, successful* permissions update leaves all grants as they
were; a permissions update by a caller without the `permissions` right (and not the
authority) is rejected and changes nothing. -/
theorem grants_change_only_by_permitted_update (s : State) (op : Op) :
    (applyOp s op).1.grants = s.grants ∨
    ∃ admin m u, op = .perms admin m u ∧ endpointAllowed s .MarketManagePermissions m admin = true ∧
      updatePermissions s m u = .ok (applyOp s op).1 := by
  cases op with
  | perms admin m u =>
    simp only [applyOp]
    by_cases ha : endpointAllowed s .MarketManagePermissions m admin = true
    · simp only [ha, Bool.not_true, Bool.false_eq_true, if_false]
      cases hu : updatePermissions s m u with
      | error e => left; rfl
      | ok s' => right; exact ⟨admin, m, u, rfl, ha, by rw [hu]; rfl⟩
    · left; simp [ha]
  | call e m c => left; rfl
  | order id m o => left; rfl
  | cancel id sg => left; exact (opResult_keeps fun s' h => cancelOrder_keeps h).1
  | pay a b c => left; exact (opResult_keeps fun s' h => createPayment_keeps h).1
  | accept a b c => left; exact (opResult_keeps fun s' h => acceptPayment_keeps h).1
  | reject a b c => left; exact (opResult_keeps fun s' h => rejectPayment_keeps h).1
  | cancelpay a b => left; exact (opResult_keeps fun s' h => cancelPayment_keeps h).1
  | retarget a b c => left; exact (opResult_keeps fun s' h => changeTarget_keeps h).1
  | gov n c p => left; rfl

theorem applyOp_authority (s : State) (op : Op) : (applyOp s op).1.authority = s.authority := by
  cases op with
  | perms admin m u =>
    simp only [applyOp]
    split
    · rfl
    · cases hu : updatePermissions s m u with
      | error e => rfl
      | ok s' => exact (updatePermissions_rest hu).1
  | call e m c => rfl
  | order id m o => rfl
  | cancel id sg => exact (opResult_keeps fun s' h => cancelOrder_keeps h).2
  | pay a b c => exact (opResult_keeps fun s' h => createPayment_keeps h).2
  | accept a b c => exact (opResult_keeps fun s' h => acceptPayment_keeps h).2
  | reject a b c => exact (opResult_keeps fun s' h => rejectPayment_keeps h).2
  | cancelpay a b => exact (opResult_keeps fun s' h => cancelPayment_keeps h).2
  | retarget a b c => exact (opResult_keeps fun s' h => changeTarget_keeps h).2
  | gov n c p => rfl

/-- The authority never changes, over any history. -/
theorem authority_constant (s : State) (ops : List Op) : (run s ops).authority = s.authority := by
  induction ops generalizing s with
  | nil => rfl
  | cons op rest ih =>
    simp only [run, List.foldl_cons] at *
    rw [ih, applyOp_authority]

/-- Over any history: a caller who is not the authority and whom no permitted update ever
granted the endpoint's permission is rejected at the end — stated as an invariant:
if a set of triples `P` contains the initial grants and is closed under every successful
permitted update of the history, all grants stay inside `P`. -/
theorem grants_within (P : Grant → Prop) (s : State) (ops : List Op)
    (h0 : ∀ g ∈ s.grants, P g)
    (hstep : ∀ (t : State) admin m u t', (∀ g ∈ t.grants, P g) →
      endpointAllowed t .MarketManagePermissions m admin = true →
      updatePermissions t m u = .ok t' → ∀ g ∈ t'.grants, P g) :
    ∀ g ∈ (run s ops).grants, P g := by
  induction ops generalizing s with
  | nil => exact h0
  | cons op rest ih =>
    simp only [run, List.foldl_cons]
    apply ih
    rcases grants_change_only_by_permitted_update s op with h | ⟨admin, m, u, _, ha, hu⟩
    · rw [h]; exact h0
    · exact hstep s admin m u _ h0 ha hu

/-! ### Orders and payments -/

/-- Users can cancel only their own orders (or hold the market's `cancel` permission / be
the authority). -/
theorem cancel_own_or_perm {s s' : State} {id : Nat} {signer : String}
    (h : cancelOrder s id signer = .ok s') :
    ∃ o ∈ s.orders, o.id = id ∧
      (signer = o.owner ∨ signer = s.authority ∨ (o.market, signer, Perm.cancel) ∈ s.grants) := by
  unfold cancelOrder at h
  split at h
  · cases h
  · rename_i o ho
    have hmem := List.mem_of_find?_eq_some ho
    have hid : o.id = id := by simpa using List.find?_some ho
    split at h
    · cases h
    · rename_i hn
      refine ⟨o, hmem, hid, ?_⟩
      by_cases hso : signer = o.owner
      · exact Or.inl hso
      · right
        have : hasPermission s o.market signer .cancel = true := by
          by_contra hc; exact hn ⟨hso, by simpa using hc⟩
        simpa [hasPermission, storeHas] using this

/-- A payment is accepted / rejected only by its current target … -/
theorem accept_only_by_target {s s' : State} {source ext signer : String}
    (h : acceptPayment s source ext signer = .ok s') :
    ∃ p ∈ s.payments, p.source = source ∧ p.extId = ext ∧ p.target = signer := by
  unfold acceptPayment at h
  split at h
  · cases h
  · split at h
    · cases h
    · rename_i p hp
      split at h
      · cases h
      · rename_i ht
        have hm := List.mem_of_find?_eq_some hp
        have hf := List.find?_some hp
        simp only [decide_eq_true_eq] at hf
        exact ⟨p, hm, hf.1, hf.2, by simpa using ht⟩

theorem reject_only_by_target {s s' : State} {source ext signer : String}
    (h : rejectPayment s source ext signer = .ok s') :
    ∃ p ∈ s.payments, p.source = source ∧ p.extId = ext ∧ p.target = signer := by
  unfold rejectPayment at h
  split at h
  · cases h
  · rename_i p hp
    split at h
    · cases h
    · split at h
      · cases h
      · rename_i ht
        have hm := List.mem_of_find?_eq_some hp
        have hf := List.find?_some hp
        simp only [decide_eq_true_eq] at hf
        exact ⟨p, hm, hf.1, hf.2, by simpa using ht⟩

/-- … and cancelled / retargeted only by its source. -/
theorem cancelpay_only_by_source {s s' : State} {signer ext : String}
    (h : cancelPayment s signer ext = .ok s') :
    ∃ p ∈ s.payments, p.source = signer ∧ p.extId = ext := by
  unfold cancelPayment at h
  split at h
  · cases h
  · rename_i p hp
    have hf := List.find?_some hp
    simp only [decide_eq_true_eq] at hf
    exact ⟨p, List.mem_of_find?_eq_some hp, hf.1, hf.2⟩

theorem retarget_only_by_source {s s' : State} {signer ext nt : String}
    (h : changeTarget s signer ext nt = .ok s') :
    ∃ p ∈ s.payments, p.source = signer ∧ p.extId = ext := by
  unfold changeTarget at h
  split at h
  · cases h
  · rename_i p hp
    have hf := List.find?_some hp
    simp only [decide_eq_true_eq] at hf
    exact ⟨p, List.mem_of_find?_eq_some hp, hf.1, hf.2⟩

/-- Acting on one payment never touches another account's payments. -/
theorem cancelPayment_frame {s s' : State} {signer ext : String} (q : Payment) (hq : q.source ≠ signer)
    (h : cancelPayment s signer ext = .ok s') : q ∈ s'.payments ↔ q ∈ s.payments := by
  unfold cancelPayment at h
  split at h
  · cases h
  · rename_i p hp
    have hf := List.find?_some hp
    simp only [decide_eq_true_eq] at hf
    cases h
    simp only [removePayment, List.mem_filter]
    constructor
    · exact fun h => h.1
    · intro hm
      refine ⟨hm, ?_⟩
      have : ¬ (q.source = p.source ∧ q.extId = p.extId) := fun hc => hq (hc.1.trans hf.1)
      simp [this]

theorem changeTarget_frame {s s' : State} {signer ext nt : String} (q : Payment) (hq : q.source ≠ signer)
    (h : changeTarget s signer ext nt = .ok s') : q ∈ s'.payments ↔ q ∈ s.payments := by
  unfold changeTarget at h
  split at h
  · cases h
  · split at h
    · cases h
    · cases h
      simp only [List.mem_map]
      constructor
      · rintro ⟨x, hx, hxq⟩
        by_cases hc : x.source = signer ∧ x.extId = ext
        · simp only [hc, and_self, if_true] at hxq
          exact absurd (by rw [← hxq]) hq
        · simp only [hc, if_false] at hxq
          rw [← hxq]; exact hx
      · intro hm
        refine ⟨q, hm, ?_⟩
        have : ¬ (q.source = signer ∧ q.extId = ext) := fun hc => hq hc.1
        simp [this]

/-- A governance-only endpoint lets exactly the authority through. -/
theorem gov_only_authority (s : State) (c : String) : govAllowed s c = true ↔ c = s.authority := by
  simp [govAllowed]

/-- Whatever a governance-only request names — any market, any subject account (the caller
itself included), any denom, any kind of name — and whatever the caller holds (any grants, on
any market, any orders, any payments): a caller other than the authority is turned away and
nothing changes; the authority is let through. -/
theorem gov_result_ignores_payload_and_standing (s : State) (n c : String) (p : GovPayload) :
    applyOp s (.gov n c p) = (s, if c = s.authority then "pass" else "err:authority") := by
  by_cases h : c = s.authority <;> simp [applyOp, govAllowed, h]

theorem gov_rejects_every_non_authority (s : State) (n c : String) (p : GovPayload)
    (h : c ≠ s.authority) : applyOp s (.gov n c p) = (s, "err:authority") := by
  rw [gov_result_ignores_payload_and_standing]; simp [h]

example : (applyOp { grants := Perm.all.map fun p => (1, "A", p) } (.gov "exchange.MsgGovCloseMarketRequest" "A"
    { market := 1, subject := "A" })).2 = "err:authority" := by decide

private theorem long_prefix_ne_ok (pre n : String) (h : 2 < pre.length) : pre ++ n ≠ "ok" := by
  intro e
  have h1 := congrArg String.length e
  have h2 : "ok".length = 2 := by decide
  rw [String.length_append, h2] at h1
  omega

/-- The checker's governance clause is exact on the observed result: an executed request
(`pass #ok`) is reported iff the caller is not the authority; a caller that was turned away
(`err:authority`) is reported iff it IS the authority; whatever the payload and the state. -/
theorem gov_checker_exact (s : State) (n c : String) (p : GovPayload) :
    (verdict s (.gov n c p) "pass" "#ok" = "ok" ↔ c = s.authority) ∧
    (verdict s (.gov n c p) "err:authority" "" = "ok" ↔ c ≠ s.authority) := by
  have e1 : ("fail:gov_rejects_authority:" : String).length = 27 := by decide
  have e2 : ("fail:gov_endpoint_open:" : String).length = 23 := by decide
  have n1 := long_prefix_ne_ok "fail:gov_rejects_authority:" n (by omega)
  have n2 := long_prefix_ne_ok "fail:gov_endpoint_open:" n (by omega)
  by_cases h : c = s.authority <;> simp [verdict, govAllowed, h, toString] <;> assumption

/-- The frame checker accepts exactly the canonical rendering of the model's own grants. -/
theorem dump_checker_accepts_exact_effect (s : State) :
    dumpVerdict s (dump s) = "ok" := by
  simp [dumpVerdict]

/-! ## Facts regenerated from the Go source -/

def lookup (xs : List (String × String)) (k : String) : Option String := (xs.find? (·.1 = k)).map (·.2)

/-- Every market endpoint's handler is `ctx := Unwrap…` followed at once by the `Can*` guard
of that endpoint, applied to the message's own market id and admin. -/
def endpointGuarded (e : Endpoint) : Bool :=
  Generated.handlers.any fun h =>
    h.module == "exchange" && h.method == e.name && h.pre == ["unwrap"] &&
    h.guard == "perm:" ++ e.canFn ++ "(ctx,msg.MarketId,msg.Admin)"

theorem exchange_endpoints_guarded : Endpoint.all.all endpointGuarded = true := by decide

/-- Every `Can*` helper passes the documented permission constant to `HasPermission`. -/
def canFnDocumented (e : Endpoint) : Bool :=
  lookup Generated.guardBodies ("exchange.Keeper." ++ e.canFn) ==
    some ("{ return k.HasPermission(ctx, marketID, admin, exchange.Permission_" ++ e.required.toString ++ ") }")

theorem can_fns_check_documented_permission : Endpoint.all.all canFnDocumented = true := by decide

set_option maxRecDepth 100000 in
/-- `HasPermission` = authority ∨ store has the key, `IsAuthority` compares with the keeper's
authority: the source of the two helpers the model's `hasPermission` mirrors. -/
theorem hasPermission_source :
    lookup Generated.guardBodies "exchange.Keeper.HasPermission" =
      some "{ if k.IsAuthority(address) { return true } addr, err := sdk.AccAddressFromBech32(address) if err != nil { return false } return storeHasPermission(k.getStore(ctx), marketID, addr, permission) }"
    ∧ lookup Generated.guardBodies "exchange.Keeper.IsAuthority" =
      some "{ return strings.EqualFold(k.authority, addr) }" := by decide

/-- No market endpoint is missing from the model: every exchange handler whose request has an
`Admin` field is one of the twelve (or the deprecated one that rejects everything). -/
def adminHandlerKnown (h : Handler) : Bool :=
  !(h.module == "exchange" && h.hasAdminField) ||
    (Endpoint.all.any (fun e => e.name == h.method) || h.guard == "rejectall")

theorem every_admin_endpoint_modelled : Generated.handlers.all adminHandlerKnown = true := by decide

/-- Handlers whose request carries an `Authority` field but which are documented as NOT
governance-only (the owner / a permitted account may call them). -/
def nonGovAuthority : List (String × String) := [
  ("marker", "MsgUpdateSendDenyListRequest"),   -- transfer access or gov
  ("name", "MsgModifyNameRequest"),             -- name owner or gov
  ("oracle", "MsgSendQueryOracleRequest"),      -- any account
  ("trigger", "MsgDestroyTriggerRequest")]      -- trigger owner

def validateAuthorityOk (m : String) : Bool :=
  match lookup Generated.guardBodies (m ++ ".Keeper.ValidateAuthority") with
  | none => true
  | some b =>
    b == "{ if !k.IsAuthority(addr) { return govtypes.ErrInvalidSigner.Wrapf(\"expected %q got %q\", k.GetAuthority(), addr) } return nil }"
      && lookup Generated.guardBodies (m ++ ".Keeper.IsAuthority") == some "{ return strings.EqualFold(k.authority, addr) }"
    || b == "{ if k.authority != addr { return govtypes.ErrInvalidSigner.Wrapf(\"expected %q got %q\", k.authority, addr) } return nil }"

/-- **Every** handler of **every** module whose request is signed by `authority` starts (after
at most the context unwrap) with the authority comparison, or rejects everything, or is on
the documented exception list — including handlers added later: the handler list itself is
regenerated. -/
def govHandlerOk (h : Handler) : Bool :=
  !h.hasAuthorityField ||
    ((h.guard == "authority" && h.pre.all (· == "unwrap") && validateAuthorityOk h.module)
      || h.guard == "rejectall" || nonGovAuthority.contains (h.module, h.req))

set_option maxRecDepth 100000 in
theorem gov_handlers_guarded : Generated.handlers.all govHandlerOk = true := by decide

/-- The documented governance-only messages (proto `cosmos.msg.v1.signer = "authority"` +
module specs), written by hand. -/
def expectedGovOnly : List (String × String) := [
  ("attribute", "MsgUpdateParamsRequest"),
  ("exchange", "MsgGovCreateMarketRequest"), ("exchange", "MsgGovManageFeesRequest"),
  ("exchange", "MsgGovCloseMarketRequest"), ("exchange", "MsgUpdateParamsRequest"),
  ("ibchooks", "MsgUpdateParamsRequest"), ("ibcratelimit", "MsgUpdateParamsRequest"),
  ("marker", "MsgSupplyIncreaseProposalRequest"), ("marker", "MsgSupplyDecreaseProposalRequest"),
  ("marker", "MsgUpdateForcedTransferRequest"), ("marker", "MsgSetAdministratorProposalRequest"),
  ("marker", "MsgRemoveAdministratorProposalRequest"), ("marker", "MsgChangeStatusProposalRequest"),
  ("marker", "MsgWithdrawEscrowProposalRequest"), ("marker", "MsgSetDenomMetadataProposalRequest"),
  ("marker", "MsgUpdateParamsRequest"),
  ("msgfees", "MsgAddMsgFeeProposalRequest"), ("msgfees", "MsgUpdateMsgFeeProposalRequest"),
  ("msgfees", "MsgRemoveMsgFeeProposalRequest"), ("msgfees", "MsgUpdateNhashPerUsdMilProposalRequest"),
  ("msgfees", "MsgUpdateConversionFeeDenomProposalRequest"),
  ("name", "MsgCreateRootNameRequest"), ("name", "MsgUpdateParamsRequest"),
  ("oracle", "MsgUpdateOracleRequest"),
  ("sanction", "MsgSanction"), ("sanction", "MsgUnsanction"), ("sanction", "MsgUpdateParams")]

def expectedPresent (e : String × String) : Bool :=
  Generated.handlers.any fun h => h.module == e.1 && h.req == e.2 && h.guard == "authority" && h.pre.all (· == "unwrap")

set_option maxRecDepth 100000 in
theorem expected_gov_only_all_guarded : expectedGovOnly.all expectedPresent = true := by decide

end PvProofs.C11
