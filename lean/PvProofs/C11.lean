/-
C11 — Privileged endpoints reject callers without the specific authority.

Two kinds of theorem:
* about the *model* (`PvModel.Perms`): for all states, endpoints, callers (address TEXTS: an
  account under its lower-case, upper-case or a mixed-case spelling), permission updates and
  operation histories;
* about the *regenerated facts* (`Generated.Handlers`, re-extracted from /repo's Go source on
  every run): every market endpoint is dominated by the `Can*` guard of the documented
  permission, every `Can*` helper passes the documented `Permission_*` constant, every
  governance-only handler of every module starts with the authority comparison.  If the
  source changes a guard the generated file changes and these stop type-checking.
-/
import PvModel.Perms
import PvModel.PermsDriver
import Generated.Handlers
import Mathlib.Tactic.Tauto
import Mathlib.Tactic.ByContra

namespace PvProofs.C11
open PvModel.Perms PvProofs.Facts

/-! ## Model theorems -/

/-- `Keeper.HasPermission` on the TEXT `a` of an address field: true iff the letters of `a` are
the authority's (whatever their case — `strings.EqualFold`) or `a` decodes
(`sdk.AccAddressFromBech32`) to an account holding exactly `(m, account, p)`. -/
theorem hasPermission_iff (s : State) (m : Nat) (a : Text) (p : Perm) :
    hasPermission s m a p = true ↔
      a.fold = s.authority ∨ ∃ x, a.decode = some x ∧ (m, x, p) ∈ s.grants := by
  unfold hasPermission isAuthority storeHas
  cases h : a.decode <;> simp

/-- An endpoint lets a caller through iff the caller's text spells the authority or decodes to an
account that holds exactly the endpoint's permission on exactly that market. -/
theorem endpoint_allowed_iff (s : State) (e : Endpoint) (m : Nat) (c : Text) :
    endpointAllowed s e m c = true ↔
      c.fold = s.authority ∨ ∃ x, c.decode = some x ∧ (m, x, e.required) ∈ s.grants :=
  hasPermission_iff s m c e.required

/-- For the two spellings under which a transaction can be signed (lower-case and all-upper-case
bech32 text of the same account) the answer is the same: authority or exactly the triple. -/
theorem endpoint_allowed_iff_account (s : State) (e : Endpoint) (m : Nat) (a : String) (sp : Spelling)
    (hsp : sp ≠ .mixed) :
    endpointAllowed s e m { acc := a, sp := sp } = true ↔ a = s.authority ∨ (m, a, e.required) ∈ s.grants := by
  rw [endpoint_allowed_iff]
  cases sp <;> simp_all [Text.fold, Text.decode]

/-- The upper-case spelling of an account opens exactly what its usual spelling opens. -/
theorem endpoint_spelling_irrelevant (s : State) (e : Endpoint) (m : Nat) (a : String) :
    endpointAllowed s e m { acc := a, sp := .upper } = endpointAllowed s e m { acc := a, sp := .lower } := by
  rw [Bool.eq_iff_iff, endpoint_allowed_iff_account s e m a .upper (by decide),
    endpoint_allowed_iff_account s e m a .lower (by decide)]

/-- A mixed-case text passes only as a spelling of the authority: no grant helps it. -/
theorem endpoint_mixed_case_only_authority (s : State) (e : Endpoint) (m : Nat) (a : String) :
    endpointAllowed s e m { acc := a, sp := .mixed } = true ↔ a = s.authority := by
  rw [endpoint_allowed_iff]; simp [Text.fold, Text.decode]

/-- No other permission, and no permission on another market, helps. -/
theorem endpoint_needs_its_perm (s : State) (e : Endpoint) (m : Nat) (c : Text)
    (hc : c.fold ≠ s.authority) (hg : (m, c.acc, e.required) ∉ s.grants) :
    endpointAllowed s e m c = false := by
  cases h : endpointAllowed s e m c
  · rfl
  · rcases (endpoint_allowed_iff s e m c).mp h with h1 | ⟨x, hx, h1⟩
    · exact absurd h1 hc
    · have : x = c.acc := by
        unfold Text.decode at hx; split at hx <;> simp_all
      exact absurd (this ▸ h1) hg

/-- Permissions held by other accounts / on other markets / of other kinds are irrelevant:
two states that agree on the one triple give the same answer. -/
theorem endpoint_depends_only_on_its_triple (s₁ s₂ : State) (e : Endpoint) (m : Nat) (c : Text)
    (ha : s₁.authority = s₂.authority)
    (h : (m, c.acc, e.required) ∈ s₁.grants ↔ (m, c.acc, e.required) ∈ s₂.grants) :
    endpointAllowed s₁ e m c = endpointAllowed s₂ e m c := by
  rw [Bool.eq_iff_iff, endpoint_allowed_iff, endpoint_allowed_iff, ha]
  cases hd : c.decode with
  | none => simp
  | some x =>
    have : x = c.acc := by
      unfold Text.decode at hd; split at hd <;> simp_all
    subst this; simp [h]

example : endpointAllowed { grants := [(1, "A", .settle)] } .MarketSettle 1 ⟨"A", .lower⟩ = true ∧
    endpointAllowed { grants := [(1, "A", .settle)] } .MarketSettle 1 ⟨"A", .upper⟩ = true ∧
    endpointAllowed { grants := [(1, "A", .settle)] } .MarketSettle 1 ⟨"A", .mixed⟩ = false ∧
    endpointAllowed { grants := [(1, "A", .settle)] } .MarketSettle 2 ⟨"A", .lower⟩ = false ∧
    endpointAllowed { grants := [(1, "A", .settle)] } .MarketWithdraw 1 ⟨"A", .upper⟩ = false ∧
    endpointAllowed { grants := [(1, "A", .settle)] } .MarketWithdraw 1 ⟨"GOV", .lower⟩ = true ∧
    endpointAllowed { grants := [(1, "A", .settle)] } .MarketWithdraw 1 ⟨"GOV", .upper⟩ = true ∧
    endpointAllowed { grants := [(1, "A", .settle)] } .MarketWithdraw 1 ⟨"GOV", .mixed⟩ = true := by decide

/-! ### Granting and revoking: exact effect and frame -/

theorem mem_revokeAllPass {m : Nat} {as : List String} {gs gs' : List Grant}
    (h : revokeAllPass m as gs = some gs') (g : Grant) :
    g ∈ gs' ↔ g ∈ gs ∧ ¬ (g.1 = m ∧ g.2.1 ∈ as) := by
  induction as generalizing gs with
  | nil => simp [revokeAllPass] at h; subst h; simp
  | cons a rest ih =>
    simp only [revokeAllPass] at h
    split at h
    · rw [ih h]
      simp only [List.mem_filter, List.mem_cons]
      constructor
      · rintro ⟨⟨hg, hf⟩, hn⟩
        refine ⟨hg, ?_⟩
        rintro ⟨hm, ha | ha⟩
        · simp [hm, ha] at hf
        · exact hn ⟨hm, ha⟩
      · rintro ⟨hg, hn⟩
        refine ⟨⟨hg, ?_⟩, fun ⟨hm, ha⟩ => hn ⟨hm, Or.inr ha⟩⟩
        simp only [Bool.not_eq_eq_eq_not, Bool.not_true, Bool.and_eq_false_imp, beq_iff_eq,
          beq_eq_false_iff_ne, ne_eq]
        intro hm ha
        exact hn ⟨hm, Or.inl ha⟩
    · cases h

theorem mem_revokePass {m : Nat} {ags : List (String × List Perm)} {gs gs' : List Grant}
    (h : revokePass m ags gs = some gs') (g : Grant) :
    g ∈ gs' ↔ g ∈ gs ∧ ¬ (g.1 = m ∧ ∃ ag ∈ ags, ag.1 = g.2.1 ∧ g.2.2 ∈ ag.2) := by
  induction ags generalizing gs with
  | nil => simp [revokePass] at h; subst h; simp
  | cons ag rest ih =>
    obtain ⟨a, ps⟩ := ag
    simp only [revokePass] at h
    split at h
    · rw [ih h]
      simp only [List.mem_filter, List.mem_cons, exists_eq_or_imp]
      constructor
      · rintro ⟨⟨hg, hf⟩, hn⟩
        refine ⟨hg, ?_⟩
        rintro ⟨hm, ⟨ha, hp⟩ | hex⟩
        · simp [hm, ← ha, hp] at hf
        · exact hn ⟨hm, hex⟩
      · rintro ⟨hg, hn⟩
        refine ⟨⟨hg, ?_⟩, fun ⟨hm, hex⟩ => hn ⟨hm, Or.inr hex⟩⟩
        simp only [Bool.not_eq_eq_eq_not, Bool.not_true, Bool.and_eq_false_imp, beq_iff_eq,
          List.contains_eq_mem, decide_eq_false_iff_not]
        intro hm ha
        simp only [Bool.and_eq_true, beq_iff_eq] at hm
        exact hn ⟨hm.1, Or.inl ⟨hm.2.symm, ha⟩⟩
    · cases h

theorem mem_grantPass {m : Nat} {ags : List (String × List Perm)} {gs gs' : List Grant}
    (h : grantPass m ags gs = some gs') (g : Grant) :
    g ∈ gs' ↔ g ∈ gs ∨ (g.1 = m ∧ ∃ ag ∈ ags, ag.1 = g.2.1 ∧ g.2.2 ∈ ag.2) := by
  induction ags generalizing gs with
  | nil => simp [grantPass] at h; subst h; simp
  | cons ag rest ih =>
    obtain ⟨a, ps⟩ := ag
    simp only [grantPass] at h
    split at h
    · rw [ih h]
      simp only [List.mem_append, List.mem_map, List.mem_cons, exists_eq_or_imp]
      constructor
      · rintro ((hg | ⟨p, hp, rfl⟩) | hr)
        · exact Or.inl hg
        · exact Or.inr ⟨rfl, Or.inl ⟨rfl, hp⟩⟩
        · exact Or.inr ⟨hr.1, Or.inr hr.2⟩
      · rintro (hg | ⟨hm, ⟨ha, hp⟩ | hex⟩)
        · exact Or.inl (Or.inl hg)
        · refine Or.inl (Or.inr ⟨g.2.2, hp, ?_⟩)
          obtain ⟨g1, g2, g3⟩ := g
          simp_all
        · exact Or.inr ⟨hm, hex⟩
    · cases h

/-- Whether `(address, perm)` is named by an access-grant list. -/
def Named (ags : List (String × List Perm)) (a : String) (p : Perm) : Prop :=
  ∃ ag ∈ ags, ag.1 = a ∧ p ∈ ag.2

/-- **Exact effect** of a successful `UpdatePermissions` on market `m`. -/
theorem updatePermissions_effect {s s' : State} {m : Nat} {u : PermUpdate}
    (h : updatePermissions s m u = .ok s') (g : Grant) :
    g ∈ s'.grants ↔
      (g ∈ s.grants ∧ ¬ (g.1 = m ∧ g.2.1 ∈ u.revokeAll) ∧ ¬ (g.1 = m ∧ Named u.toRevoke g.2.1 g.2.2))
      ∨ (g.1 = m ∧ Named u.toGrant g.2.1 g.2.2) := by
  unfold updatePermissions at h
  split at h
  · rename_i gs hgs
    cases h
    simp only [Option.bind_eq_bind] at hgs
    obtain ⟨g2, hg2, h3⟩ := Option.bind_eq_some_iff.mp hgs
    obtain ⟨g1, h1, h2⟩ := Option.bind_eq_some_iff.mp hg2
    simp only [mem_grantPass h3 g, mem_revokePass h2 g, mem_revokeAllPass h1 g, Named, and_assoc]
  · cases h

/-- **Frame**: granting or revoking changes nothing for any other market … -/
theorem updatePermissions_other_market {s s' : State} {m : Nat} {u : PermUpdate}
    (h : updatePermissions s m u = .ok s') (g : Grant) (hm : g.1 ≠ m) :
    g ∈ s'.grants ↔ g ∈ s.grants := by
  rw [updatePermissions_effect h g]; simp [hm]

/-- … any other account … -/
theorem updatePermissions_other_account {s s' : State} {m : Nat} {u : PermUpdate}
    (h : updatePermissions s m u = .ok s') (g : Grant)
    (h1 : g.2.1 ∉ u.revokeAll) (h2 : ∀ ag ∈ u.toRevoke, ag.1 ≠ g.2.1) (h3 : ∀ ag ∈ u.toGrant, ag.1 ≠ g.2.1) :
    g ∈ s'.grants ↔ g ∈ s.grants := by
  rw [updatePermissions_effect h g]
  have n2 : ¬ Named u.toRevoke g.2.1 g.2.2 := fun ⟨ag, hag, ha, _⟩ => h2 ag hag ha
  have n3 : ¬ Named u.toGrant g.2.1 g.2.2 := fun ⟨ag, hag, ha, _⟩ => h3 ag hag ha
  simp [h1, n2, n3]

/-- … or any other permission of a named account (unless it is revoked wholesale). -/
theorem updatePermissions_other_perm {s s' : State} {m : Nat} {u : PermUpdate}
    (h : updatePermissions s m u = .ok s') (g : Grant)
    (h1 : g.2.1 ∉ u.revokeAll) (h2 : ¬ Named u.toRevoke g.2.1 g.2.2) (h3 : ¬ Named u.toGrant g.2.1 g.2.2) :
    g ∈ s'.grants ↔ g ∈ s.grants := by
  rw [updatePermissions_effect h g]; simp [h1, h2, h3]

/-- The rest of the state is untouched, and a failed update changes nothing (`applyOp`). -/
theorem updatePermissions_rest {s s' : State} {m : Nat} {u : PermUpdate}
    (h : updatePermissions s m u = .ok s') :
    s'.authority = s.authority ∧ s'.orders = s.orders ∧ s'.payments = s.payments ∧
      s'.commits = s.commits := by
  unfold updatePermissions at h
  split at h <;> cases h <;> simp

example : ∃ s', updatePermissions { grants := [(1, "A", .settle), (2, "A", .settle), (1, "B", .update)] } 1
    { revokeAll := ["B"], toRevoke := [("A", [.settle])], toGrant := [("C", [.cancel, .withdraw])] } = .ok s'
    ∧ s'.grants = [(2, "A", .settle), (1, "C", .cancel), (1, "C", .withdraw)] := ⟨_, rfl, by decide⟩

/-! ### Histories: permissions change only through a permitted `MarketManagePermissions` -/

theorem opResult_fst (r : Except String State) (s : State) :
    (opResult r s).1 = (match r with | .ok s' => s' | .error _ => s) := by
  cases r <;> rfl

/-- Order and payment operations never touch permissions or the authority. -/
theorem cancelOrder_keeps {s s' : State} {id : Nat} {sg : Text} (h : cancelOrder s id sg = .ok s') :
    s'.grants = s.grants ∧ s'.authority = s.authority := by
  unfold cancelOrder at h
  split at h
  · cases h
  · split at h <;> cases h; exact ⟨rfl, rfl⟩

theorem createPayment_keeps {s s' : State} {a b c : String} (h : createPayment s a b c = .ok s') :
    s'.grants = s.grants ∧ s'.authority = s.authority := by
  unfold createPayment at h
  split at h <;> cases h; exact ⟨rfl, rfl⟩

theorem acceptPayment_keeps {s s' : State} {a b c : String} (h : acceptPayment s a b c = .ok s') :
    s'.grants = s.grants ∧ s'.authority = s.authority := by
  unfold acceptPayment at h
  split at h
  · cases h
  · split at h
    · cases h
    · split at h <;> cases h; exact ⟨rfl, rfl⟩

theorem rejectPayment_keeps {s s' : State} {a b c : String} (h : rejectPayment s a b c = .ok s') :
    s'.grants = s.grants ∧ s'.authority = s.authority := by
  unfold rejectPayment at h
  split at h
  · cases h
  · split at h
    · cases h
    · split at h <;> cases h; exact ⟨rfl, rfl⟩

theorem cancelPayment_keeps {s s' : State} {a b : String} (h : cancelPayment s a b = .ok s') :
    s'.grants = s.grants ∧ s'.authority = s.authority := by
  unfold cancelPayment at h
  split at h <;> cases h; exact ⟨rfl, rfl⟩

theorem changeTarget_keeps {s s' : State} {a b c : String} (h : changeTarget s a b c = .ok s') :
    s'.grants = s.grants ∧ s'.authority = s.authority := by
  unfold changeTarget at h
  split at h
  · cases h
  · split at h <;> cases h; exact ⟨rfl, rfl⟩

theorem setOrderExternalID_keeps {s s' : State} {m id : Nat} {ext : String}
    (h : setOrderExternalID s m id ext = .ok s') :
    s'.grants = s.grants ∧ s'.authority = s.authority := by
  unfold setOrderExternalID at h
  split at h
  · cases h
  · split at h
    · cases h
    · split at h
      · cases h
      · split at h <;> cases h; exact ⟨rfl, rfl⟩

theorem releaseCommitments_keeps {s s' : State} {m : Nat} {as : List String}
    (h : releaseCommitments s m as = .ok s') :
    s'.grants = s.grants ∧ s'.authority = s.authority := by
  unfold releaseCommitments at h
  split at h <;> cases h; exact ⟨rfl, rfl⟩

theorem opResult_keeps {r : Except String State} {s : State}
    (h : ∀ s', r = .ok s' → s'.grants = s.grants ∧ s'.authority = s.authority) :
    (opResult r s).1.grants = s.grants ∧ (opResult r s).1.authority = s.authority := by
  cases r with
  | error e => exact ⟨rfl, rfl⟩
  | ok s' => exact h s' rfl

/-- Every op other than a *permitted, successful* permissions update leaves all grants as they
were; a permissions update by a caller without the `permissions` right (and not the
authority) is rejected and changes nothing.  A permitted successful update is answered `ok`. -/
theorem grants_change_only_by_permitted_update (s : State) (op : Op) :
    (applyOp s op).1.grants = s.grants ∨
    ∃ admin m u, op = .perms admin m u ∧ endpointAllowed s .MarketManagePermissions m admin = true ∧
      updatePermissions s m u = .ok (applyOp s op).1 ∧ (applyOp s op).2 = "ok" := by
  cases op with
  | perms admin m u =>
    simp only [applyOp]
    by_cases ha : endpointAllowed s .MarketManagePermissions m admin = true
    · simp only [ha, Bool.not_true, Bool.false_eq_true, if_false]
      cases hu : updatePermissions s m u with
      | error e => left; rfl
      | ok s' => right; exact ⟨admin, m, u, rfl, ha, by rw [hu]; rfl, rfl⟩
    · left; simp [ha]
  | call e m c => left; rfl
  | hasperm m a p => left; rfl
  | order id m o => left; rfl
  | cancel id sg => left; exact (opResult_keeps fun s' h => cancelOrder_keeps h).1
  | pay a b c => left; exact (opResult_keeps fun s' h => createPayment_keeps h).1
  | accept a b c => left; exact (opResult_keeps fun s' h => acceptPayment_keeps h).1
  | reject a b c => left; exact (opResult_keeps fun s' h => rejectPayment_keeps h).1
  | cancelpay a b => left; exact (opResult_keeps fun s' h => cancelPayment_keeps h).1
  | retarget a b c => left; exact (opResult_keeps fun s' h => changeTarget_keeps h).1
  | gov n c p => left; rfl
  | setid m id c x =>
    left; simp only [applyOp]; split
    · rfl
    · exact (opResult_keeps fun s' h => setOrderExternalID_keeps h).1
  | commit m a => left; rfl
  | settle m a b c => left; rfl
  | release m c as =>
    left; simp only [applyOp]; split
    · rfl
    · exact (opResult_keeps fun s' h => releaseCommitments_keeps h).1

theorem applyOp_authority (s : State) (op : Op) : (applyOp s op).1.authority = s.authority := by
  cases op with
  | perms admin m u =>
    simp only [applyOp]
    split
    · rfl
    · cases hu : updatePermissions s m u with
      | error e => rfl
      | ok s' => exact (updatePermissions_rest hu).1
  | call e m c => rfl
  | hasperm m a p => rfl
  | order id m o => rfl
  | cancel id sg => exact (opResult_keeps fun s' h => cancelOrder_keeps h).2
  | pay a b c => exact (opResult_keeps fun s' h => createPayment_keeps h).2
  | accept a b c => exact (opResult_keeps fun s' h => acceptPayment_keeps h).2
  | reject a b c => exact (opResult_keeps fun s' h => rejectPayment_keeps h).2
  | cancelpay a b => exact (opResult_keeps fun s' h => cancelPayment_keeps h).2
  | retarget a b c => exact (opResult_keeps fun s' h => changeTarget_keeps h).2
  | gov n c p => rfl
  | setid m id c x =>
    simp only [applyOp]; split
    · rfl
    · exact (opResult_keeps fun s' h => setOrderExternalID_keeps h).2
  | commit m a => rfl
  | settle m a b c => rfl
  | release m c as =>
    simp only [applyOp]; split
    · rfl
    · exact (opResult_keeps fun s' h => releaseCommitments_keeps h).2

/-- The authority never changes, over any history. -/
theorem authority_constant (s : State) (ops : List Op) : (run s ops).authority = s.authority := by
  induction ops generalizing s with
  | nil => rfl
  | cons op rest ih =>
    simp only [run, List.foldl_cons] at *
    rw [ih, applyOp_authority]

theorem run_cons (s : State) (op : Op) (rest : List Op) :
    run s (op :: rest) = run (applyOp s op).1 rest := rfl

/-- Invariant schema: if a set of triples `P` contains the initial grants and is closed under
every successful permitted update of the history, all grants stay inside `P`.  Instantiated
below (`never_granted_stays_out`, `never_granted_is_rejected`). -/
theorem grants_within (P : Grant → Prop) (s : State) (ops : List Op)
    (h0 : ∀ g ∈ s.grants, P g)
    (hstep : ∀ (t : State) admin m u t', (∀ g ∈ t.grants, P g) →
      endpointAllowed t .MarketManagePermissions m admin = true →
      updatePermissions t m u = .ok t' → ∀ g ∈ t'.grants, P g) :
    ∀ g ∈ (run s ops).grants, P g := by
  induction ops generalizing s with
  | nil => exact h0
  | cons op rest ih =>
    simp only [run, List.foldl_cons]
    apply ih
    rcases grants_change_only_by_permitted_update s op with h | ⟨admin, m, u, _, ha, hu, _⟩
    · rw [h]; exact h0
    · exact hstep s admin m u _ h0 ha hu

/-- "An ACCEPTED permissions request of the history names `(x, p)` as a grant on market `m`":
the history splits as `pre ++ perms admin m u :: post`, that request is answered `ok` in the
state `pre` leads to, and its `ToGrant` list names the account with the permission. -/
def GrantedIn (s : State) (ops : List Op) (m : Nat) (x : String) (p : Perm) : Prop :=
  ∃ pre admin u post, ops = pre ++ Op.perms admin m u :: post ∧
    (applyOp (run s pre) (.perms admin m u)).2 = "ok" ∧ Named u.toGrant x p

/-- **Over every history**: a triple that is not granted at the start and that no accepted
permissions request of the history names as a grant is not granted at the end — whatever else
happens (grants to other accounts, of other permissions, on other markets, rejected requests
naming it, order and payment traffic, governance requests). -/
theorem never_granted_stays_out (s : State) (ops : List Op) (m : Nat) (x : String) (p : Perm)
    (h0 : (m, x, p) ∉ s.grants) (hno : ¬ GrantedIn s ops m x p) :
    (m, x, p) ∉ (run s ops).grants := by
  induction ops generalizing s with
  | nil => exact h0
  | cons op rest ih =>
    rw [run_cons]
    apply ih
    · rcases grants_change_only_by_permitted_update s op with h | ⟨admin, m', u, hop, _, hu, hok⟩
      · rw [h]; exact h0
      · intro hmem
        rcases (updatePermissions_effect hu (m, x, p)).mp hmem with h1 | ⟨hm, hn⟩
        · exact h0 h1.1
        · simp only at hm hn
          subst hm
          exact hno ⟨[], admin, u, rest, by rw [hop]; rfl, by rw [← hop]; exact hok, hn⟩
    · rintro ⟨pre, admin, u, post, hsplit, hok, hn⟩
      exact hno ⟨op :: pre, admin, u, post, by rw [hsplit]; rfl, by rw [run_cons]; exact hok, hn⟩

/-- Target form: over every history, a caller that is not the authority, whose account does not
hold `(m, account, e.required)` at the start and is never named with that permission on that
market by an accepted permissions request, is rejected by endpoint `e` at the end — under every
spelling of its address. -/
theorem never_granted_is_rejected (s : State) (ops : List Op) (e : Endpoint) (m : Nat) (c : Text)
    (hc : c.fold ≠ s.authority) (h0 : (m, c.acc, e.required) ∉ s.grants)
    (hno : ¬ GrantedIn s ops m c.acc e.required) :
    endpointAllowed (run s ops) e m c = false :=
  endpoint_needs_its_perm _ e m c (by rw [authority_constant]; exact hc)
    (never_granted_stays_out s ops m c.acc e.required h0 hno)

/-- The hypotheses are satisfiable on a history in which the caller IS granted other things:
`A` gets `settle` on market 1 and `withdraw` on market 2, `B` gets `withdraw` on market 1, a
request by `A` (who lacks `permissions`) naming `A:withdraw` on market 1 is rejected — and `A`
is still turned away from `MarketWithdraw` on market 1. -/
def exampleHistory : List Op := [
  .perms ⟨"GOV", .upper⟩ 1 { revokeAll := [], toRevoke := [], toGrant := [("A", [.settle]), ("B", [.withdraw, .permissions])] },
  .perms ⟨"GOV", .lower⟩ 2 { revokeAll := [], toRevoke := [], toGrant := [("A", [.withdraw])] },
  .perms ⟨"A", .lower⟩ 1 { revokeAll := [], toRevoke := [], toGrant := [("A", [.withdraw])] },
  .call .MarketSettle 1 ⟨"A", .upper⟩]

example : ((exampleHistory.foldl (fun (acc : State × List String) op =>
      ((applyOp acc.1 op).1, acc.2 ++ [(applyOp acc.1 op).2])) ({}, [])).2
      = ["ok", "ok", "err:perm", "pass"]) ∧
    endpointAllowed (run {} exampleHistory) .MarketWithdraw 1 ⟨"A", .upper⟩ = false ∧
    endpointAllowed (run {} exampleHistory) .MarketWithdraw 2 ⟨"A", .upper⟩ = true := by decide

/-- … and the converse, so that the hypothesis is the right one: right after an accepted request
naming `(x, p)` on `m` the triple IS granted. -/
theorem accepted_grant_takes_effect (s : State) (admin : Text) (m : Nat) (u : PermUpdate) (x : String) (p : Perm)
    (hok : (applyOp s (.perms admin m u)).2 = "ok") (hn : Named u.toGrant x p) :
    (m, x, p) ∈ (applyOp s (.perms admin m u)).1.grants := by
  simp only [applyOp] at hok ⊢
  split at hok
  · exact absurd hok (by simp)
  · rename_i ha
    simp only [ha]
    cases hu : updatePermissions s m u with
    | error e =>
      rw [hu] at hok
      simp only [opResult] at hok
      have := congrArg String.length hok
      rw [String.length_append] at this
      have h4 : ("err:" : String).length = 4 := by decide
      have h2 : ("ok" : String).length = 2 := by decide
      omega
    | ok s' =>
      simp only [opResult]
      exact (updatePermissions_effect hu (m, x, p)).mpr (Or.inr ⟨rfl, hn⟩)

/-! ### Orders and payments -/

/-- Users can cancel only their own orders (or hold the market's `cancel` permission / be
the authority). -/
theorem cancel_own_or_perm {s s' : State} {id : Nat} {signer : Text}
    (h : cancelOrder s id signer = .ok s') :
    ∃ o ∈ s.orders, o.id = id ∧
      (signer = o.owner ∨ signer.fold = s.authority ∨
        ∃ x, signer.decode = some x ∧ (o.market, x, Perm.cancel) ∈ s.grants) := by
  unfold cancelOrder at h
  split at h
  · cases h
  · rename_i o ho
    have hmem := List.mem_of_find?_eq_some ho
    have hid : o.id = id := by simpa using List.find?_some ho
    split at h
    · cases h
    · rename_i hn
      refine ⟨o, hmem, hid, ?_⟩
      by_cases hso : signer = o.owner
      · exact Or.inl hso
      · right
        have : hasPermission s o.market signer .cancel = true := by
          by_contra hc; exact hn ⟨hso, by simpa using hc⟩
        exact (hasPermission_iff s o.market signer .cancel).mp this

/-- A payment is accepted / rejected only by its current target … -/
theorem accept_only_by_target {s s' : State} {source ext signer : String}
    (h : acceptPayment s source ext signer = .ok s') :
    ∃ p ∈ s.payments, p.source = source ∧ p.extId = ext ∧ p.target = signer := by
  unfold acceptPayment at h
  split at h
  · cases h
  · split at h
    · cases h
    · rename_i p hp
      split at h
      · cases h
      · rename_i ht
        have hm := List.mem_of_find?_eq_some hp
        have hf := List.find?_some hp
        simp only [decide_eq_true_eq] at hf
        exact ⟨p, hm, hf.1, hf.2, by simpa using ht⟩

theorem reject_only_by_target {s s' : State} {source ext signer : String}
    (h : rejectPayment s source ext signer = .ok s') :
    ∃ p ∈ s.payments, p.source = source ∧ p.extId = ext ∧ p.target = signer := by
  unfold rejectPayment at h
  split at h
  · cases h
  · rename_i p hp
    split at h
    · cases h
    · split at h
      · cases h
      · rename_i ht
        have hm := List.mem_of_find?_eq_some hp
        have hf := List.find?_some hp
        simp only [decide_eq_true_eq] at hf
        exact ⟨p, hm, hf.1, hf.2, by simpa using ht⟩

/-- … and cancelled / retargeted only by its source. -/
theorem cancelpay_only_by_source {s s' : State} {signer ext : String}
    (h : cancelPayment s signer ext = .ok s') :
    ∃ p ∈ s.payments, p.source = signer ∧ p.extId = ext := by
  unfold cancelPayment at h
  split at h
  · cases h
  · rename_i p hp
    have hf := List.find?_some hp
    simp only [decide_eq_true_eq] at hf
    exact ⟨p, List.mem_of_find?_eq_some hp, hf.1, hf.2⟩

theorem retarget_only_by_source {s s' : State} {signer ext nt : String}
    (h : changeTarget s signer ext nt = .ok s') :
    ∃ p ∈ s.payments, p.source = signer ∧ p.extId = ext := by
  unfold changeTarget at h
  split at h
  · cases h
  · rename_i p hp
    have hf := List.find?_some hp
    simp only [decide_eq_true_eq] at hf
    exact ⟨p, List.mem_of_find?_eq_some hp, hf.1, hf.2⟩

/-- Acting on one payment never touches another account's payments. -/
theorem cancelPayment_frame {s s' : State} {signer ext : String} (q : Payment) (hq : q.source ≠ signer)
    (h : cancelPayment s signer ext = .ok s') : q ∈ s'.payments ↔ q ∈ s.payments := by
  unfold cancelPayment at h
  split at h
  · cases h
  · rename_i p hp
    have hf := List.find?_some hp
    simp only [decide_eq_true_eq] at hf
    cases h
    simp only [removePayment, List.mem_filter]
    constructor
    · exact fun h => h.1
    · intro hm
      refine ⟨hm, ?_⟩
      have : ¬ (q.source = p.source ∧ q.extId = p.extId) := fun hc => hq (hc.1.trans hf.1)
      simp [this]

theorem changeTarget_frame {s s' : State} {signer ext nt : String} (q : Payment) (hq : q.source ≠ signer)
    (h : changeTarget s signer ext nt = .ok s') : q ∈ s'.payments ↔ q ∈ s.payments := by
  unfold changeTarget at h
  split at h
  · cases h
  · split at h
    · cases h
    · cases h
      simp only [List.mem_map]
      constructor
      · rintro ⟨x, hx, hxq⟩
        by_cases hc : x.source = signer ∧ x.extId = ext
        · simp only [hc, and_self, if_true] at hxq
          exact absurd (by rw [← hxq]) hq
        · simp only [hc, if_false] at hxq
          rw [← hxq]; exact hx
      · intro hm
        refine ⟨q, hm, ?_⟩
        have : ¬ (q.source = signer ∧ q.extId = ext) := fun hc => hq hc.1
        simp [this]

/-! ### Exact effect of the order and payment operations (what is removed, what is untouched) -/

theorem findPayment_some {s : State} {a b : String} {p : Payment} (h : findPayment s a b = some p) :
    p ∈ s.payments ∧ p.source = a ∧ p.extId = b := by
  unfold findPayment at h
  have hf := List.find?_some h
  simp only [decide_eq_true_eq] at hf
  exact ⟨List.mem_of_find?_eq_some h, hf.1, hf.2⟩

theorem mem_removePayment (s : State) (p q : Payment) :
    q ∈ (removePayment s p).payments ↔ q ∈ s.payments ∧ ¬ (q.source = p.source ∧ q.extId = p.extId) := by
  simp only [removePayment, List.mem_filter, Bool.not_eq_eq_eq_not, Bool.not_true,
    decide_eq_false_iff_not]

theorem removePayment_rest (s : State) (p : Payment) :
    (removePayment s p).orders = s.orders ∧ (removePayment s p).grants = s.grants ∧
      (removePayment s p).authority = s.authority ∧ (removePayment s p).commits = s.commits :=
  ⟨rfl, rfl, rfl, rfl⟩

/-- **Cancel, both directions and exact effect**: a cancel succeeds iff the order exists and the
signer's text is the stored owner text or passes the `cancel` guard of the order's market; then
exactly the orders with that id are gone and nothing else changes (no other order, no grant, no
payment). -/
theorem cancelOrder_ok_iff (s s' : State) (id : Nat) (signer : Text) :
    cancelOrder s id signer = .ok s' ↔
      ∃ o, s.orders.find? (·.id = id) = some o ∧
        (signer = o.owner ∨ hasPermission s o.market signer .cancel = true) ∧
        s' = { s with orders := s.orders.filter (·.id ≠ id) } := by
  unfold cancelOrder
  cases hf : s.orders.find? (·.id = id) with
  | none => simp
  | some o =>
    simp only [Option.some.injEq, exists_eq_left']
    by_cases he : signer = o.owner ∨ hasPermission s o.market signer .cancel = true
    · have hn : ¬ (signer ≠ o.owner ∧ (!hasPermission s o.market signer .cancel) = true) := by
        rintro ⟨h1, h2⟩
        rcases he with he | he
        · exact h1 he
        · simp [he] at h2
      rw [if_neg hn]
      constructor
      · intro h; cases h; exact ⟨he, rfl⟩
      · rintro ⟨_, h⟩; rw [h]
    · have hn : signer ≠ o.owner ∧ (!hasPermission s o.market signer .cancel) = true := by
        refine ⟨fun h => he (Or.inl h), ?_⟩
        cases hp : hasPermission s o.market signer .cancel
        · rfl
        · exact absurd (Or.inr hp) he
      rw [if_pos hn]
      constructor
      · intro h; cases h
      · rintro ⟨h, _⟩; exact absurd h he

/-- The converse the checker's `fail:cancel_rejects_entitled` clause evaluates: an entitled signer
is never answered `err:perm` — the cancel succeeds. -/
theorem cancel_entitled_succeeds (s : State) (id : Nat) (signer : Text) (o : Order)
    (ho : s.orders.find? (·.id = id) = some o)
    (he : signer = o.owner ∨ hasPermission s o.market signer .cancel = true) :
    cancelOrder s id signer = .ok { s with orders := s.orders.filter (·.id ≠ id) } :=
  (cancelOrder_ok_iff s _ id signer).mpr ⟨o, ho, he, rfl⟩

example : cancelOrder { orders := [⟨7, 1, ⟨"A", .lower⟩, ""⟩, ⟨8, 1, ⟨"B", .lower⟩, ""⟩], grants := [(1, "C", .cancel)] } 7 ⟨"C", .upper⟩
    = .ok { orders := [⟨8, 1, ⟨"B", .lower⟩, ""⟩], grants := [(1, "C", .cancel)] } := by rfl

/-- Frame of a cancel: every other order stays, grants / payments / authority are untouched. -/
theorem cancelOrder_frame {s s' : State} {id : Nat} {signer : Text} (h : cancelOrder s id signer = .ok s') :
    (∀ o, o ∈ s'.orders ↔ o ∈ s.orders ∧ o.id ≠ id) ∧
      s'.payments = s.payments ∧ s'.grants = s.grants ∧ s'.authority = s.authority ∧
      s'.commits = s.commits := by
  obtain ⟨o, _, _, rfl⟩ := (cancelOrder_ok_iff s s' id signer).mp h
  refine ⟨fun o => ?_, rfl, rfl, rfl, rfl⟩
  simp [List.mem_filter]

/-- The owner comparison of `CancelOrder` is on the TEXTS (`signer != orderOwner`): an order
stored under the upper-case text of its owner's address cannot be cancelled by the SAME account
signing under its usual lower-case text (and vice versa), unless it holds `cancel`.  So the
account-level converse "the owner can always cancel his order" is FALSE in the model — and in
the implementation (corpus/C11/perm.spelling.ops replays this on the real keeper). -/
theorem cancel_owner_other_spelling_rejected :
    cancelOrder { orders := [⟨7, 1, ⟨"A", .upper⟩, ""⟩] } 7 ⟨"A", .lower⟩ = .error "perm" ∧
    cancelOrder { orders := [⟨7, 1, ⟨"A", .lower⟩, ""⟩] } 7 ⟨"A", .upper⟩ = .error "perm" ∧
    (∃ s', cancelOrder { orders := [⟨7, 1, ⟨"A", .upper⟩, ""⟩] } 7 ⟨"A", .upper⟩ = .ok s') := by
  refine ⟨by rfl, by rfl, _, rfl⟩

/-- **Accept**: succeeds only for the current target, removes exactly the payment `(source, ext)`
— every other payment, of the same source under another external id included, stays as it is —
and touches nothing else. -/
theorem acceptPayment_effect {s s' : State} {source ext signer : String}
    (h : acceptPayment s source ext signer = .ok s') :
    (∀ q, q ∈ s'.payments ↔ q ∈ s.payments ∧ ¬ (q.source = source ∧ q.extId = ext)) ∧
      s'.orders = s.orders ∧ s'.grants = s.grants ∧ s'.authority = s.authority ∧
      s'.commits = s.commits := by
  unfold acceptPayment at h
  split at h
  · cases h
  · split at h
    · cases h
    · rename_i p hp
      obtain ⟨_, h1, h2⟩ := findPayment_some hp
      split at h
      · cases h
      · cases h
        exact ⟨fun q => by rw [mem_removePayment, h1, h2], removePayment_rest s p⟩

/-- **Reject**: the same exact effect. -/
theorem rejectPayment_effect {s s' : State} {source ext signer : String}
    (h : rejectPayment s source ext signer = .ok s') :
    (∀ q, q ∈ s'.payments ↔ q ∈ s.payments ∧ ¬ (q.source = source ∧ q.extId = ext)) ∧
      s'.orders = s.orders ∧ s'.grants = s.grants ∧ s'.authority = s.authority ∧
      s'.commits = s.commits := by
  unfold rejectPayment at h
  split at h
  · cases h
  · rename_i p hp
    obtain ⟨_, h1, h2⟩ := findPayment_some hp
    split at h
    · cases h
    · split at h
      · cases h
      · cases h
        exact ⟨fun q => by rw [mem_removePayment, h1, h2], removePayment_rest s p⟩

/-- **Cancel payment**: removes exactly `(signer, ext)`; the signer's payments under other
external ids and every other source's payments stay (strengthens `cancelPayment_frame`). -/
theorem cancelPayment_effect {s s' : State} {signer ext : String}
    (h : cancelPayment s signer ext = .ok s') :
    (∀ q, q ∈ s'.payments ↔ q ∈ s.payments ∧ ¬ (q.source = signer ∧ q.extId = ext)) ∧
      s'.orders = s.orders ∧ s'.grants = s.grants ∧ s'.authority = s.authority ∧
      s'.commits = s.commits := by
  unfold cancelPayment at h
  split at h
  · cases h
  · rename_i p hp
    obtain ⟨_, h1, h2⟩ := findPayment_some hp
    cases h
    exact ⟨fun q => by rw [mem_removePayment, h1, h2], removePayment_rest s p⟩

/-- **Retarget**: every payment other than `(signer, ext)` — the signer's other external ids
included — is untouched; the payments `(signer, ext)` keep everything but the target, which
becomes the new one (strengthens `changeTarget_frame`). -/
theorem changeTarget_effect {s s' : State} {signer ext nt : String}
    (h : changeTarget s signer ext nt = .ok s') :
    (∀ q, ¬ (q.source = signer ∧ q.extId = ext) → (q ∈ s'.payments ↔ q ∈ s.payments)) ∧
    (∀ q, q.source = signer ∧ q.extId = ext →
      (q ∈ s'.payments ↔ q.target = nt ∧ ∃ q0 ∈ s.payments, q0.source = signer ∧ q0.extId = ext)) ∧
      s'.orders = s.orders ∧ s'.grants = s.grants ∧ s'.authority = s.authority ∧
      s'.commits = s.commits := by
  unfold changeTarget at h
  split at h
  · cases h
  · split at h
    · cases h
    · cases h
      refine ⟨fun q hq => ?_, fun q hq => ?_, rfl, rfl, rfl, rfl⟩
      · simp only [List.mem_map]
        constructor
        · rintro ⟨x, hx, hxq⟩
          by_cases hc : x.source = signer ∧ x.extId = ext
          · simp only [hc, and_self, if_true] at hxq
            exact absurd (by rw [← hxq]; exact ⟨rfl, rfl⟩) hq
          · simp only [hc, if_false] at hxq
            rw [← hxq]; exact hx
        · intro hm
          exact ⟨q, hm, by simp [hq]⟩
      · simp only [List.mem_map]
        constructor
        · rintro ⟨x, hx, hxq⟩
          by_cases hc : x.source = signer ∧ x.extId = ext
          · simp only [hc, and_self, if_true] at hxq
            exact ⟨by rw [← hxq], x, hx, hc⟩
          · simp only [hc, if_false] at hxq
            exact absurd (hxq ▸ hq) hc
        · rintro ⟨ht, q0, hq0, hc⟩
          refine ⟨q0, hq0, ?_⟩
          simp only [hc, and_self, if_true]
          obtain ⟨a, b, c⟩ := q
          obtain ⟨a0, b0, c0⟩ := q0
          simp_all

example : ∃ s', acceptPayment { payments := [⟨"A", "x0", "B"⟩, ⟨"A", "x1", "B"⟩, ⟨"C", "x0", "B"⟩] } "A" "x0" "B" = .ok s' ∧
    s'.payments = [⟨"A", "x1", "B"⟩, ⟨"C", "x0", "B"⟩] := ⟨_, rfl, by decide⟩

example : ∃ s', changeTarget { payments := [⟨"A", "x0", "B"⟩, ⟨"A", "x1", "B"⟩, ⟨"C", "x0", "B"⟩] } "A" "x0" "D" = .ok s' ∧
    s'.payments = [⟨"A", "x0", "D"⟩, ⟨"A", "x1", "B"⟩, ⟨"C", "x0", "B"⟩] := ⟨_, rfl, by decide⟩

/-! ### Governance-only endpoints -/

/-- A governance-only endpoint lets a caller through iff its text spells the authority's address
and — in the handlers that compare the two strings with `!=` instead of `strings.EqualFold` — is
the usual lower-case text. -/
theorem gov_allowed_iff (s : State) (n k : String) (c : Text) :
    govAllowed s n k c = true ↔
      c.fold = s.authority ∧ (govFoldMsgs.contains (n, k) = true ∨ c.sp = .lower) := by
  obtain ⟨a, sp⟩ := c
  unfold govAllowed
  by_cases hf : govFoldMsgs.contains (n, k) = true
  · simp only [hf, if_true, true_or, and_true]; simp [Text.fold]
  · simp only [hf, Bool.false_eq_true, if_false, false_or]
    simp [Text.of, Text.fold]

/-- Only the authority gets through (whatever the module, whatever the spelling) … -/
theorem gov_only_authority (s : State) (n k : String) (c : Text) (h : govAllowed s n k c = true) :
    c.fold = s.authority := ((gov_allowed_iff s n k c).mp h).1

/-- … and the authority, under the text the keeper itself holds, always does. -/
theorem gov_authority_passes (s : State) (n k : String) : govAllowed s n k (Text.of s.authority) = true :=
  (gov_allowed_iff s n k _).mpr ⟨rfl, Or.inr rfl⟩

/-- Whatever a governance-only request names — any market, any subject account (the caller
itself included), any denom, any kind of name — and whatever the caller holds (any grants, on
any market, any orders, any payments): the answer depends on the caller's text and the
authority only, and nothing changes. -/
theorem gov_result_ignores_payload_and_standing (s : State) (n k : String) (c : Text) (p : GovPayload) :
    applyOp s (.gov n k c p) =
      (s, if c.fold = s.authority ∧ (govFoldMsgs.contains (n, k) = true ∨ c.sp = .lower)
          then "pass" else "err:authority") := by
  have h := gov_allowed_iff s n k c
  by_cases hg : govAllowed s n k c = true
  · simp only [applyOp, hg, if_true, h.mp hg, and_self]
  · have : ¬ (c.fold = s.authority ∧ (govFoldMsgs.contains (n, k) = true ∨ c.sp = .lower)) :=
      fun hc => hg (h.mpr hc)
    simp only [applyOp, hg, Bool.false_eq_true, if_false, this]

/-- A caller other than the authority — under every spelling — is turned away and nothing changes. -/
theorem gov_rejects_every_non_authority (s : State) (n k : String) (c : Text) (p : GovPayload)
    (h : c.fold ≠ s.authority) : applyOp s (.gov n k c p) = (s, "err:authority") := by
  rw [gov_result_ignores_payload_and_standing]; simp [h]

example : (applyOp { grants := Perm.all.map fun p => (1, "A", p) } (.gov "exchange" "MsgGovCloseMarketRequest" ⟨"A", .upper⟩
    { market := 1, subject := "A" })).2 = "err:authority" ∧
    (applyOp {} (.gov "exchange" "MsgGovCloseMarketRequest" ⟨"GOV", .upper⟩ { market := 1 })).2 = "pass" ∧
    (applyOp {} (.gov "sanction" "MsgSanction" ⟨"GOV", .upper⟩ {})).2 = "err:authority" ∧
    (applyOp {} (.gov "sanction" "MsgSanction" ⟨"GOV", .lower⟩ {})).2 = "pass" := by decide

private theorem long_prefix_ne_ok (pre n : String) (h : 2 < pre.length) : pre ++ n ≠ "ok" := by
  intro e
  have h1 := congrArg String.length e
  have h2 : "ok".length = 2 := by decide
  rw [String.length_append, h2] at h1
  omega

/-- The checker's governance clause is exact on the observed result: an executed request
(`pass #ok`) is reported iff the model's guard rejects the caller (by `gov_only_authority`: in
particular whenever the caller is not the authority); a caller that was turned away
(`err:authority`) is reported iff the guard lets it through; whatever the payload and the state. -/
theorem gov_checker_exact (s : State) (n k : String) (c : Text) (p : GovPayload) :
    (verdict s (.gov n k c p) "pass" "#ok" = "ok" ↔ govAllowed s n k c = true) ∧
    (verdict s (.gov n k c p) "err:authority" "" = "ok" ↔ govAllowed s n k c = false) := by
  have e1 : ("fail:gov_rejects_authority:" : String).length = 27 := by decide
  have e2 : ("fail:gov_endpoint_open:" : String).length = 23 := by decide
  have n1 := long_prefix_ne_ok "fail:gov_rejects_authority:" (n ++ "." ++ k) (by omega)
  have n2 := long_prefix_ne_ok "fail:gov_endpoint_open:" (n ++ "." ++ k) (by omega)
  cases h : govAllowed s n k c <;> simp [verdict, h, toString] <;> assumption

/-- Hence: an executed governance request of a caller who is not the authority is always reported. -/
theorem gov_checker_reports_non_authority (s : State) (n k : String) (c : Text) (p : GovPayload)
    (h : c.fold ≠ s.authority) : verdict s (.gov n k c p) "pass" "#ok" ≠ "ok" :=
  fun hv => h (gov_only_authority s n k c ((gov_checker_exact s n k c p).1.mp hv))

/-- The frame checker accepts exactly the canonical rendering of the model's own grants. -/
theorem dump_checker_accepts_exact_effect (s : State) :
    dumpVerdict s (dump s) = "ok" := by
  simp [dumpVerdict]

/-! ### Items that live in another market; owners of committed funds -/

private theorem opResult_ok {r : Except String State} {s : State} (h : (opResult r s).2 = "ok") :
    ∃ s', r = .ok s' ∧ (opResult r s).1 = s' := by
  cases r with
  | error e => exact absurd h (long_prefix_ne_ok "err:" e (by decide))
  | ok s' => exact ⟨s', rfl, rfl⟩

/-- **Set an order's external id, "in the market of the item acted on"**: the request succeeds
only if the order exists, lives in the very market the request names, and the caller passes the
`set_ids` guard of THAT market (the order's) — so `set_ids` in one market never reaches an order
of another market, whichever market the request names. -/
theorem setid_only_with_perm_in_order_market (s : State) (m id : Nat) (c : Text) (x : String)
    (h : (applyOp s (.setid m id c x)).2 = "ok") :
    ∃ o, s.orders.find? (·.id = id) = some o ∧ o.market = m ∧
      endpointAllowed s .MarketSetOrderExternalID o.market c = true := by
  simp only [applyOp] at h
  split at h
  · exact absurd (show ("err:perm" : String) = "ok" from h) (by decide)
  · rename_i ha
    obtain ⟨s', hs, _⟩ := opResult_ok h
    unfold setOrderExternalID at hs
    split at hs
    · cases hs
    · rename_i o ho
      split at hs
      · cases hs
      · rename_i hm
        have hm' : o.market = m := by simpa using hm
        refine ⟨o, ho, hm', ?_⟩
        rw [hm']
        simpa using ha

/-- Contrapositive, in the checker's terms: a caller that is not the authority and does not hold
`set_ids` in the market the order lives in is never answered `ok`, whatever market it names. -/
theorem setid_other_market_rejected (s : State) (m id : Nat) (c : Text) (x : String) (o : Order)
    (ho : s.orders.find? (·.id = id) = some o)
    (hn : endpointAllowed s .MarketSetOrderExternalID o.market c = false) :
    (applyOp s (.setid m id c x)).2 ≠ "ok" := by
  intro h
  obtain ⟨o', ho', _, ha⟩ := setid_only_with_perm_in_order_market s m id c x h
  rw [ho] at ho'
  cases ho'
  rw [hn] at ha
  cases ha

/-- Exact effect of an accepted request: the orders with that id get the new external id and keep
everything else (market, owner); every other order, all grants, payments, commitments and the
authority are untouched.  A rejected one changes nothing (`applyOp`). -/
theorem setid_effect {s s' : State} {m id : Nat} {x : String}
    (h : setOrderExternalID s m id x = .ok s') :
    s'.orders = s.orders.map (fun q => if q.id = id then { q with ext := x } else q) ∧
      (∀ q ∈ s.orders, q.id ≠ id → q ∈ s'.orders) ∧
      s'.grants = s.grants ∧ s'.payments = s.payments ∧ s'.commits = s.commits ∧
      s'.authority = s.authority := by
  unfold setOrderExternalID at h
  split at h
  · cases h
  · split at h
    · cases h
    · split at h
      · cases h
      · split at h
        · cases h
        · cases h
          refine ⟨rfl, fun q hq hne => ?_, rfl, rfl, rfl, rfl⟩
          exact List.mem_map.mpr ⟨q, hq, by simp [hne]⟩

example : (applyOp { orders := [⟨7, 2, ⟨"A", .lower⟩, ""⟩], grants := [(1, "B", .set_ids)] }
      (.setid 1 7 ⟨"B", .lower⟩ "e1")).2 = "err:invalid" ∧
    (applyOp { orders := [⟨7, 2, ⟨"A", .lower⟩, ""⟩], grants := [(1, "B", .set_ids)] }
      (.setid 2 7 ⟨"B", .lower⟩ "e1")).2 = "err:perm" ∧
    (applyOp { orders := [⟨7, 2, ⟨"A", .lower⟩, ""⟩], grants := [(2, "B", .set_ids)] }
      (.setid 2 7 ⟨"B", .upper⟩ "e1")).2 = "ok" := by decide

theorem mem_releasePass {m : Nat} {as : List String} {cs cs' : List (Nat × String)}
    (h : releasePass m as cs = some cs') (c : Nat × String) :
    c ∈ cs' ↔ c ∈ cs ∧ ¬ (c.1 = m ∧ c.2 ∈ as) := by
  induction as generalizing cs with
  | nil => simp only [releasePass, Option.some.injEq] at h; subst h; simp
  | cons a rest ih =>
    simp only [releasePass] at h
    split at h
    · rw [ih h]
      simp only [List.mem_filter, Bool.not_eq_eq_eq_not, Bool.not_true, Bool.and_eq_false_imp,
        beq_iff_eq, List.mem_cons]
      constructor
      · rintro ⟨⟨hc, hna⟩, hr⟩
        refine ⟨hc, ?_⟩
        rintro ⟨h1, h2 | h2⟩
        · exact absurd h2 (by simpa using hna h1)
        · exact hr ⟨h1, h2⟩
      · rintro ⟨hc, hn⟩
        refine ⟨⟨hc, fun h1 => ?_⟩, fun ⟨h1, h2⟩ => hn ⟨h1, Or.inr h2⟩⟩
        simpa using fun h2 => hn ⟨h1, Or.inl h2⟩
    · cases h

/-- **Release of committed funds**: the request succeeds only for the authority or a holder of
`cancel` in that market — being the owner of the funds (or of all the funds named) gives nothing,
whatever the market's state — and then exactly the named accounts' commitments to that market
are gone: other accounts, other markets, orders, payments, grants untouched. -/
theorem release_only_with_perm (s : State) (m : Nat) (c : Text) (as : List String)
    (h : (applyOp s (.release m c as)).2 = "ok") :
    endpointAllowed s .MarketReleaseCommitments m c = true ∧
    (∀ k, k ∈ (applyOp s (.release m c as)).1.commits ↔ k ∈ s.commits ∧ ¬ (k.1 = m ∧ k.2 ∈ as)) ∧
    (applyOp s (.release m c as)).1.orders = s.orders ∧
    (applyOp s (.release m c as)).1.payments = s.payments ∧
    (applyOp s (.release m c as)).1.grants = s.grants := by
  simp only [applyOp] at h ⊢
  split at h
  · exact absurd (show ("err:perm" : String) = "ok" from h) (by decide)
  · rename_i ha
    simp only [ha]
    obtain ⟨s', hs, hs'⟩ := opResult_ok h
    refine ⟨by simpa using ha, ?_⟩
    simp only [Bool.false_eq_true, if_false] at hs' ⊢
    rw [hs']
    unfold releaseCommitments at hs
    split at hs
    · rename_i cs hcs
      cases hs
      exact ⟨fun k => mem_releasePass hcs k, rfl, rfl, rfl⟩
    · cases hs

/-- The owner of the funds, holding no `cancel` permission in the market and not being the
authority, is turned away — for its own funds too. -/
theorem release_owner_without_perm_rejected (s : State) (m : Nat) (c : Text) (as : List String)
    (hc : c.fold ≠ s.authority) (hn : (m, c.acc, Perm.cancel) ∉ s.grants) :
    applyOp s (.release m c as) = (s, "err:perm") := by
  have := endpoint_needs_its_perm s .MarketReleaseCommitments m c hc hn
  simp [applyOp, this]

example : applyOp { commits := [(1, "B"), (1, "C"), (2, "B")], grants := [(2, "B", .cancel), (1, "B", .update)] }
      (.release 1 ⟨"B", .lower⟩ ["B"]) =
      ({ commits := [(1, "B"), (1, "C"), (2, "B")], grants := [(2, "B", .cancel), (1, "B", .update)] }, "err:perm") ∧
    (applyOp { commits := [(1, "B"), (1, "C"), (2, "B")], grants := [(1, "A", .cancel)] }
      (.release 1 ⟨"A", .upper⟩ ["B"])).1.commits = [(1, "C"), (2, "B")] := by
  constructor
  · exact release_owner_without_perm_rejected _ 1 ⟨"B", .lower⟩ ["B"] (by decide) (by decide)
  · decide

private theorem setOrderExternalID_err {s : State} {m id : Nat} {x e : String}
    (h : setOrderExternalID s m id x = .error e) : e = "notfound" ∨ e = "invalid" := by
  unfold setOrderExternalID at h
  split at h
  · cases h; exact Or.inl rfl
  · split at h
    · cases h; exact Or.inr rfl
    · split at h
      · cases h; exact Or.inr rfl
      · split at h <;> cases h; exact Or.inr rfl

private theorem releaseCommitments_err {s : State} {m : Nat} {as : List String} {e : String}
    (h : releaseCommitments s m as = .error e) : e = "invalid" := by
  unfold releaseCommitments at h
  split at h <;> cases h; rfl

/-- The checker's clauses for the two requests accept the model's own answers (so a `fail:` on
them is always a departure of the observed result from the guard). -/
theorem item_checker_accepts_model (s : State) :
    (∀ m id c x, verdict s (.setid m id c x) (applyOp s (.setid m id c x)).2 = "ok") ∧
    (∀ m c as, verdict s (.release m c as) (applyOp s (.release m c as)).2 = "ok") := by
  constructor
  · intro m id c x
    by_cases hok : (applyOp s (.setid m id c x)).2 = "ok"
    · obtain ⟨o, ho, hm, ha⟩ := setid_only_with_perm_in_order_market s m id c x hok
      have ha' : endpointAllowed s .MarketSetOrderExternalID m c = true := hm ▸ ha
      simp only [verdict, hok, if_true, ho, ha, ha', Bool.not_true, Bool.false_eq_true, if_false]
    · simp only [verdict, hok, if_false]
      split
      · rename_i h
        exfalso
        have h1 := h.1
        simp only [applyOp, h.2, Bool.not_true, Bool.false_eq_true, if_false] at h1
        cases hr : setOrderExternalID s m id x with
        | ok s' => rw [hr] at h1; exact absurd (show ("ok" : String) = "err:perm" from h1) (by decide)
        | error e =>
          rw [hr] at h1
          rcases setOrderExternalID_err hr with rfl | rfl
          · exact absurd (show ("err:" ++ "notfound" : String) = "err:perm" from h1) (by decide)
          · exact absurd (show ("err:" ++ "invalid" : String) = "err:perm" from h1) (by decide)
      · rfl
  · intro m c as
    cases ha : endpointAllowed s .MarketReleaseCommitments m c with
    | false => simp [verdict, applyOp, ha]
    | true =>
      simp only [verdict, applyOp, ha, Bool.not_true, Bool.false_eq_true, if_false, and_false, and_true]
      cases hr : releaseCommitments s m as with
      | ok s' => simp [opResult]
      | error e => rw [releaseCommitments_err hr]; simp [opResult]

/-! ## Facts regenerated from the Go source -/

def lookup (xs : List (String × String)) (k : String) : Option String := (xs.find? (·.1 = k)).map (·.2)

/-- Every market endpoint's handler is `ctx := Unwrap…` followed at once by the `Can*` guard
of that endpoint, applied to the message's own market id and admin. -/
def endpointGuarded (e : Endpoint) : Bool :=
  Generated.handlers.any fun h =>
    h.module == "exchange" && h.method == e.name && h.pre == ["unwrap"] &&
    h.guard == "perm:" ++ e.canFn ++ "(ctx,msg.MarketId,msg.Admin)"

theorem exchange_endpoints_guarded : Endpoint.all.all endpointGuarded = true := by decide

/-- Every `Can*` helper passes the documented permission constant to `HasPermission`. -/
def canFnDocumented (e : Endpoint) : Bool :=
  lookup Generated.guardBodies ("exchange.Keeper." ++ e.canFn) ==
    some ("{ return k.HasPermission(ctx, marketID, admin, exchange.Permission_" ++ e.required.toString ++ ") }")

theorem can_fns_check_documented_permission : Endpoint.all.all canFnDocumented = true := by decide

def lookupCalls (xs : List (String × List String)) (k : String) : Option (List String) :=
  (xs.find? (·.1 = k)).map (·.2)

set_option maxRecDepth 100000 in
/-- `HasPermission` depends on exactly the authority test, the bech32 decoding of the address and
the store look-up, and `IsAuthority` is the case-insensitive comparison with the keeper's
authority. `HasPermission` is pinned by the SET of functions it calls (robust against harmless
re-arrangements of its body; a new dependency — a bypass, another way to qualify — changes the set);
what it computes from them is tied by the correspondence stream's `hasperm` op, which calls the real
`Keeper.HasPermission` with granted / ungranted accounts in every spelling. -/
theorem hasPermission_source :
    lookupCalls Generated.guardCalls "exchange.Keeper.HasPermission" =
      some ["k.IsAuthority", "k.getStore", "sdk.AccAddressFromBech32", "storeHasPermission"]
    ∧ lookup Generated.guardBodies "exchange.Keeper.IsAuthority" =
      some "{ return strings.EqualFold(k.authority, addr) }" := by decide

/-- No market endpoint is missing from the model: every exchange handler whose request has an
`Admin` field is one of the twelve (or the deprecated one that rejects everything). -/
def adminHandlerKnown (h : Handler) : Bool :=
  !(h.module == "exchange" && h.hasAdminField) ||
    (Endpoint.all.any (fun e => e.name == h.method) || h.guard == "rejectall")

theorem every_admin_endpoint_modelled : Generated.handlers.all adminHandlerKnown = true := by decide

/-- Handlers whose request carries an `Authority` field but which are documented as NOT
governance-only (the owner / a permitted account may call them). -/
def nonGovAuthority : List (String × String) := [
  ("marker", "MsgUpdateSendDenyListRequest"),   -- transfer access or gov
  ("name", "MsgModifyNameRequest"),             -- name owner or gov
  ("oracle", "MsgSendQueryOracleRequest"),      -- any account
  ("trigger", "MsgDestroyTriggerRequest")]      -- trigger owner

/-- the two bodies of a `Keeper.ValidateAuthority` that are understood -/
def validateAuthorityFoldBody : String :=
  "{ if !k.IsAuthority(addr) { return govtypes.ErrInvalidSigner.Wrapf(\"expected %q got %q\", k.GetAuthority(), addr) } return nil }"
def validateAuthorityExactBody : String :=
  "{ if k.authority != addr { return govtypes.ErrInvalidSigner.Wrapf(\"expected %q got %q\", k.authority, addr) } return nil }"
def isAuthorityFoldBody : String := "{ return strings.EqualFold(k.authority, addr) }"

/-- How the authority guard of a handler compares the keeper's authority with `msg.Authority`,
read off the source: `some false` = exactly (`!=` in the handler itself, guard form
`authority:cmp`, or a `ValidateAuthority` whose body is the `!=` one), `some true` = up to case
(`ValidateAuthority` → `IsAuthority` → `strings.EqualFold`), `none` = NOT UNDERSTOOD — in
particular a handler calling `ValidateAuthority` in a module for which no such body was found
(no silent acceptance: the modules without a `ValidateAuthority` — msgfees, oracle, sanction, and
most handlers of marker and name — are accepted only because their handlers carry the `!=`
comparison themselves). -/
def authorityCompare (h : Handler) : Option Bool :=
  if h.guard == "authority:cmp" then some false
  else if h.guard == "authority:ValidateAuthority" then
    match lookup Generated.guardBodies (h.module ++ ".Keeper.ValidateAuthority") with
    | none => none
    | some b =>
      if b == validateAuthorityFoldBody then
        (if lookup Generated.guardBodies (h.module ++ ".Keeper.IsAuthority") == some isAuthorityFoldBody
          then some true else none)
      else if b == validateAuthorityExactBody then some false
      else none
  else none

/-- **Every** handler of **every** module whose request is signed by `authority` starts (after
at most the context unwrap) with an authority comparison that is understood AND is the one the
model's `govAllowed` uses for that message (case-folding iff listed in `govFoldMsgs`), or
rejects everything, or is on the documented exception list — including handlers added later: the
handler list itself is regenerated. -/
def govHandlerOk (h : Handler) : Bool :=
  !h.hasAuthorityField ||
    ((authorityCompare h == some (govFoldMsgs.contains (h.module, h.req)) && h.pre.all (· == "unwrap"))
      || h.guard == "rejectall" || nonGovAuthority.contains (h.module, h.req))

set_option maxRecDepth 100000 in
theorem gov_handlers_guarded : Generated.handlers.all govHandlerOk = true := by decide

/-- What guard the handlers of each module use, spelled out: the handlers guarded by a direct
`!=` comparison, those going through `ValidateAuthority`, and — for the latter — that the
module does have a `ValidateAuthority` whose body is one of the two understood ones. -/
def modulesComparingInHandler : List String :=
  (Generated.handlers.filter (·.guard == "authority:cmp")).map (·.module) |>.eraseDups
def modulesUsingValidateAuthority : List String :=
  (Generated.handlers.filter (·.guard == "authority:ValidateAuthority")).map (·.module) |>.eraseDups

set_option maxRecDepth 100000 in
theorem gov_guard_forms :
    modulesComparingInHandler = ["marker", "msgfees", "name", "oracle", "sanction"] ∧
    modulesUsingValidateAuthority = ["attribute", "exchange", "ibchooks", "ibcratelimit", "marker", "name"] ∧
    (modulesUsingValidateAuthority.all fun m =>
      let b := lookup Generated.guardBodies (m ++ ".Keeper.ValidateAuthority")
      b == some validateAuthorityFoldBody || b == some validateAuthorityExactBody) = true := by
  decide

/-- The model's table of case-folding governance handlers is exactly what the source says:
a handler folds case iff it is listed. -/
def foldingHandlers : List (String × String) :=
  (Generated.handlers.filter fun h => h.hasAuthorityField && authorityCompare h == some true).map fun h => (h.module, h.req)

set_option maxRecDepth 100000 in
theorem gov_compare_kind_matches_source : foldingHandlers = govFoldMsgs := by decide

/-- The documented governance-only messages (proto `cosmos.msg.v1.signer = "authority"` +
module specs), written by hand. -/
def expectedGovOnly : List (String × String) := [
  ("attribute", "MsgUpdateParamsRequest"),
  ("exchange", "MsgGovCreateMarketRequest"), ("exchange", "MsgGovManageFeesRequest"),
  ("exchange", "MsgGovCloseMarketRequest"), ("exchange", "MsgUpdateParamsRequest"),
  ("ibchooks", "MsgUpdateParamsRequest"), ("ibcratelimit", "MsgUpdateParamsRequest"),
  ("marker", "MsgSupplyIncreaseProposalRequest"), ("marker", "MsgSupplyDecreaseProposalRequest"),
  ("marker", "MsgUpdateForcedTransferRequest"), ("marker", "MsgSetAdministratorProposalRequest"),
  ("marker", "MsgRemoveAdministratorProposalRequest"), ("marker", "MsgChangeStatusProposalRequest"),
  ("marker", "MsgWithdrawEscrowProposalRequest"), ("marker", "MsgSetDenomMetadataProposalRequest"),
  ("marker", "MsgUpdateParamsRequest"),
  ("msgfees", "MsgAddMsgFeeProposalRequest"), ("msgfees", "MsgUpdateMsgFeeProposalRequest"),
  ("msgfees", "MsgRemoveMsgFeeProposalRequest"), ("msgfees", "MsgUpdateNhashPerUsdMilProposalRequest"),
  ("msgfees", "MsgUpdateConversionFeeDenomProposalRequest"),
  ("name", "MsgCreateRootNameRequest"), ("name", "MsgUpdateParamsRequest"),
  ("oracle", "MsgUpdateOracleRequest"),
  ("sanction", "MsgSanction"), ("sanction", "MsgUnsanction"), ("sanction", "MsgUpdateParams")]

def expectedPresent (e : String × String) : Bool :=
  Generated.handlers.any fun h => h.module == e.1 && h.req == e.2 && (authorityCompare h).isSome && h.pre.all (· == "unwrap")

set_option maxRecDepth 100000 in
theorem expected_gov_only_all_guarded : expectedGovOnly.all expectedPresent = true := by decide

end PvProofs.C11
