/-
C19 — `MsgFeesDistribution.Increase`: the parts of a transaction's additional-fee distribution
always add up to the whole, for every sequence of calls (induction over the call list).
-/
import PvProofs.C19

namespace PvProofs.C19Dist
open PvModel PvModel.Fees PvProofs PvProofs.C19

/-- per denom: total = module part + sum over all recipients -/
def AddsUp (s : FeeDist) : Prop :=
  ∀ d, Coins.amountOf s.total d = Coins.amountOf s.module d + Ledger.supply s.recips d

/-- nothing negative anywhere in the distribution -/
def NonNeg (s : FeeDist) : Prop :=
  (∀ d, 0 ≤ Coins.amountOf s.module d) ∧ (∀ r d, 0 ≤ Ledger.bal s.recips r d)

theorem addsUp_empty : AddsUp {} := by intro d; simp
theorem nonNeg_empty : NonNeg {} := by constructor <;> intros <;> simp

/-- The exact failing set of one call: it is refused iff there is something to split (positive
amount, a recipient) and more than 10000 basis points are named. -/
theorem increase_fails_iff (s : FeeDist) (den : Denom) (amt : Int) (bips : Nat) (rcpt : String) :
    (∃ e, distIncrease s den amt bips rcpt = .error e) ↔ (0 < amt ∧ rcpt ≠ "" ∧ 10000 < bips) := by
  unfold distIncrease
  by_cases ha : amt ≤ 0
  · simp [ha]
  · by_cases hr : rcpt = ""
    · simp [ha, hr]
    · by_cases hb : 10000 < bips
      · rw [splitCoinByBips_rejects hb]; simp [ha, hr, hb]; omega
      · obtain ⟨r, m, hok, _⟩ := splitCoinByBips_never_fails amt (by omega : bips ≤ 10000)
        rw [hok]; simp [ha, hr, hb]

/-- One call keeps the distribution adding up and non-negative, adds exactly the coin to the
total, and gives the recipient exactly the floor of `amount·bips/10000`. -/
theorem increase_step (s s' : FeeDist) (den : Denom) (amt : Int) (bips : Nat) (rcpt : String)
    (hs : AddsUp s) (hn : NonNeg s) (h : distIncrease s den amt bips rcpt = .ok s') :
    AddsUp s' ∧ NonNeg s' ∧
    (∀ d, Coins.amountOf s'.total d = Coins.amountOf s.total d + (if 0 < amt ∧ den = d then amt else 0)) ∧
    (0 < amt → rcpt ≠ "" → ∃ r, IsFloorDiv (amt * bips) 10000 r ∧
      ∀ d, Ledger.bal s'.recips rcpt d = Ledger.bal s.recips rcpt d + (if den = d then r else 0)) := by
  unfold distIncrease at h
  by_cases ha : amt ≤ 0
  · simp [ha] at h; subst h
    refine ⟨hs, hn, ?_, ?_⟩
    · intro d; have : ¬ (0 < amt) := by omega
      simp [this]
    · intro h0; omega
  · have hpos : 0 < amt := by omega
    by_cases hr : rcpt = ""
    · simp [ha, hr] at h; subst h
      refine ⟨?_, ?_, ?_, ?_⟩
      · intro d; have := hs d; simp; omega
      · refine ⟨?_, hn.2⟩
        intro d; have := hn.1 d; simp; split <;> omega
      · intro d; simp [hpos]
      · intro _ h2; exact absurd hr h2
    · by_cases hb : 10000 < bips
      · rw [splitCoinByBips_rejects hb] at h; simp [ha, hr] at h
      · obtain ⟨r, m, hok, hfl, hsum, hr0, hm0⟩ :=
          splitByBips_floor_and_adds_up (by omega : 0 ≤ amt) (by omega : bips ≤ 10000)
        rw [hok] at h; simp [ha, hr] at h; subst h
        refine ⟨?_, ?_, ?_, ?_⟩
        · intro d; have := hs d
          by_cases hm : m = 0
          · simp [hm]; split <;> omega
          · simp [hm]; split <;> omega
        · refine ⟨?_, ?_⟩
          · intro d; have := hn.1 d
            by_cases hm : m = 0
            · simp [hm]; exact this
            · simp [hm]; split <;> omega
          · intro r' d; have := hn.2 r' d
            simp; split <;> (try split) <;> omega
        · intro d; simp [hpos]
        · intro _ _
          refine ⟨r, hfl, ?_⟩
          intro d; simp

/-- [all call sequences] starting from the empty distribution, every accepted sequence of
`Increase` calls leaves a distribution whose parts add up to the whole and are non-negative. -/
theorem increaseAll_adds_up (cs : List FeeDistCall) (s s' : FeeDist)
    (hs : AddsUp s) (hn : NonNeg s) (h : distIncreaseAll s cs = .ok s') : AddsUp s' ∧ NonNeg s' := by
  induction cs generalizing s with
  | nil => simp [distIncreaseAll] at h; subst h; exact ⟨hs, hn⟩
  | cons c rest ih =>
    obtain ⟨den, amt, bips, rcpt⟩ := c
    simp only [distIncreaseAll] at h
    cases h1 : distIncrease s den amt bips rcpt with
    | error e => rw [h1] at h; cases h
    | ok s1 =>
      rw [h1] at h
      obtain ⟨a, b, _, _⟩ := increase_step s s1 den amt bips rcpt hs hn h1
      exact ih s1 a b h

theorem distribution_adds_up (cs : List FeeDistCall) (s' : FeeDist) (h : distIncreaseAll {} cs = .ok s') :
    AddsUp s' ∧ NonNeg s' := increaseAll_adds_up cs {} s' addsUp_empty nonNeg_empty h

/-- a sequence of valid calls (basis points ≤ 10000) never fails, whatever the amounts -/
theorem increaseAll_never_fails (cs : List FeeDistCall) (s : FeeDist)
    (hb : ∀ c ∈ cs, c.2.2.1 ≤ 10000) : ∃ s', distIncreaseAll s cs = .ok s' := by
  induction cs generalizing s with
  | nil => exact ⟨s, rfl⟩
  | cons c rest ih =>
    obtain ⟨den, amt, bips, rcpt⟩ := c
    have hb1 : bips ≤ 10000 := hb (den, amt, bips, rcpt) (by simp)
    cases h1 : distIncrease s den amt bips rcpt with
    | error e =>
      have := (increase_fails_iff s den amt bips rcpt).mp ⟨e, h1⟩
      omega
    | ok s1 =>
      obtain ⟨s', hs'⟩ := ih s1 (fun c hc => hb c (by simp [hc]))
      exact ⟨s', by simp [distIncreaseAll, h1, hs']⟩

/-- non-vacuity: two recipients and the module, amounts beyond 2^64 -/
example : ∃ s', distIncreaseAll {} [("nhash", 2 ^ 70 + 3, 2500, "r1"), ("nhash", 10001, 9999, "r2"),
    ("usd", 5, 0, ""), ("nhash", 7, 10000, "r1")] = .ok s' ∧
    Coins.amountOf s'.total "nhash" = 2 ^ 70 + 3 + 10001 + 7 ∧
    Ledger.bal s'.recips "r2" "nhash" = 9999 := by
  refine ⟨_, rfl, ?_, ?_⟩ <;> decide

end PvProofs.C19Dist
