/-
C13 — the executable checker `checkInv` (what the driver judges the implementation's raw dump with)
decides the declarative invariant.

On a well-formed dump (`DumpWF`: each key once, each order record carries the id read from its key):

* `checkInv_sound`    : `checkInv s = none → IndexInv s ∧ CounterInv s`   (no further hypothesis)
* `checkInv_complete` : `IndexInv s → CounterInv s → (payments have a source) → checkInv s = none`
* `checkInv_iff`      : the two together
* `checkInv_exact`    : with NO side condition, `checkInv s = none ↔ IndexInv s ∧ CounterInv s ∧
                        TargetedSourcesNonempty s`
* `checkInv_complete_needs_nonempty_source` : the side condition of completeness cannot be dropped (a
  payment with the empty source and a target: `IndexInv`, `CounterInv`, `DumpWF` hold, the checker says
  `dangling_target_index`).  The checker errs on the strict side only.

`entryCheck` is the body of `checkInv`'s loop (`checkInv_eq` is `rfl`).
-/
import PvProofs.C13
import PvProofs.Lemmas.ExrecDump

namespace PvProofs.C13
open PvModel.Exrec PvProofs.Exrec

/-- what `checkInv` computes for ONE raw entry of the dump (the body of its loop, verbatim) -/
def entryCheck (s : Store) (e : Entry) : Option String :=
  let last := getLastOrderID s
  match e.1, e.2 with
    | 2 :: r, v =>
      (match u64FromBz r, v with
       | some id, .order o =>
         if r ≠ u64Bz id then some "order_key_malformed"
         else if id = 0 ∨ last < id then some "order_id_above_counter"
         else
           (orderIndexEntries { o with id := id }).findSome? fun ie =>
             if s.get ie.1 = some ie.2 then none
             else some s!"order_missing_index:{familyName (ie.1.headD 0)}"
       | _, _ => some "order_key_malformed")
    | 3 :: _, v | 4 :: _, v | 5 :: _, v =>
      (match (parseIndexKeySuffixOrderID e.1).bind (getOrderFromStore s) with
       | some o => if (e.1, v) ∈ orderIndexEntries o then none
                   else some s!"dangling_index:{familyName (e.1.headD 0)}"
       | none => some s!"dangling_index:{familyName (e.1.headD 0)}")
    | 9 :: _, .u64 id =>
      (match getOrderFromStore s id with
       | some o => if (e.1, Val.u64 id) ∈ orderIndexEntries o then none else some "dangling_index:ext"
       | none => some "dangling_index:ext")
    | 9 :: _, _ => some "dangling_index:ext"
    | 112 :: _, .payment p =>
      if e.1 ≠ keyPayment p.source p.ext then some "payment_key_mismatch"
      else (paymentIndexEntries p).findSome? fun ie =>
        if s.get ie.1 = some ie.2 then none else some "payment_missing_target_index"
    | 112 :: _, _ => some "payment_key_mismatch"
    | 16 :: r, v =>
      (match parseLengthPrefixedAddr r with
       | some (_t, rest) =>
         (match parseLengthPrefixedAddr rest with
          | some (src, ext) =>
            (match getPaymentFromStore s src ext with
             | some p => if (e.1, v) ∈ paymentIndexEntries p then none else some "dangling_target_index"
             | none => some "dangling_target_index")
          | none => some "dangling_target_index")
       | none => some "dangling_target_index")
    | _, _ => none

theorem checkInv_eq (s : Store) : checkInv s = s.findSome? (entryCheck s) := rfl

theorem checkInv_none_iff (s : Store) : checkInv s = none ↔ ∀ e ∈ s, entryCheck s e = none := by
  rw [checkInv_eq, List.findSome?_eq_none_iff]

theorem entryCheck_2 (s : Store) (r : Bytes) (v : Val) : entryCheck s (2 :: r, v) =
    (match u64FromBz r, v with
       | some id, .order o =>
         if r ≠ u64Bz id then some "order_key_malformed"
         else if id = 0 ∨ getLastOrderID s < id then some "order_id_above_counter"
         else
           (orderIndexEntries { o with id := id }).findSome? fun ie =>
             if s.get ie.1 = some ie.2 then none
             else some s!"order_missing_index:{familyName (ie.1.headD 0)}"
       | _, _ => some "order_key_malformed") := rfl

theorem entryCheck_345 (s : Store) (b : Nat) (hb : b = 3 ∨ b = 4 ∨ b = 5) (r : Bytes) (v : Val) :
    entryCheck s (b :: r, v) =
      (match (parseIndexKeySuffixOrderID (b :: r)).bind (getOrderFromStore s) with
       | some o => if (b :: r, v) ∈ orderIndexEntries o then none
                   else some s!"dangling_index:{familyName b}"
       | none => some s!"dangling_index:{familyName b}") := by
  rcases hb with rfl | rfl | rfl <;> rfl

theorem entryCheck_9_u64 (s : Store) (r : Bytes) (id : UInt64) : entryCheck s (9 :: r, .u64 id) =
      (match getOrderFromStore s id with
       | some o => if (9 :: r, Val.u64 id) ∈ orderIndexEntries o then none else some "dangling_index:ext"
       | none => some "dangling_index:ext") := rfl

theorem entryCheck_9_other (s : Store) (r : Bytes) (v : Val) (hv : ∀ id, v ≠ .u64 id) :
    entryCheck s (9 :: r, v) = some "dangling_index:ext" := by
  cases v <;> first | rfl | exact absurd rfl (hv _)

theorem entryCheck_112_payment (s : Store) (r : Bytes) (p : Payment) : entryCheck s (112 :: r, .payment p) =
      (if 112 :: r ≠ keyPayment p.source p.ext then some "payment_key_mismatch"
      else (paymentIndexEntries p).findSome? fun ie =>
        if s.get ie.1 = some ie.2 then none else some "payment_missing_target_index") := rfl

theorem entryCheck_112_other (s : Store) (r : Bytes) (v : Val) (hv : ∀ p, v ≠ .payment p) :
    entryCheck s (112 :: r, v) = some "payment_key_mismatch" := by
  cases v <;> first | rfl | exact absurd rfl (hv _)

theorem entryCheck_16 (s : Store) (r : Bytes) (v : Val) : entryCheck s (16 :: r, v) =
      (match parseLengthPrefixedAddr r with
       | some (_t, rest) =>
         (match parseLengthPrefixedAddr rest with
          | some (src, ext) =>
            (match getPaymentFromStore s src ext with
             | some p => if (16 :: r, v) ∈ paymentIndexEntries p then none else some "dangling_target_index"
             | none => some "dangling_target_index")
          | none => some "dangling_target_index")
       | none => some "dangling_target_index") := rfl

theorem entryCheck_nil (s : Store) (v : Val) : entryCheck s ([], v) = none := rfl

theorem entryCheck_other (s : Store) (b : Nat) (r : Bytes) (v : Val)
    (hb : b ≠ 2 ∧ b ≠ 3 ∧ b ≠ 4 ∧ b ≠ 5 ∧ b ≠ 9 ∧ b ≠ 112 ∧ b ≠ 16) : entryCheck s (b :: r, v) = none := by
  unfold entryCheck
  split <;> simp_all

/-! ### soundness: the checker accepts ⇒ the invariant holds on the dump -/

private theorem u64FromBz_u64Bz' (id : UInt64) : u64FromBz (u64Bz id) = some id := by
  have := u64FromBz_u64Bz id []
  simpa using this

/-- on a well-formed dump `getOrderFromStore` returns the stored record itself -/
theorem getOrderFromStore_dump {s : Store} (hwf : DumpWF s) {id : UInt64} {o : Order}
    (h : getOrderFromStore s id = some o) : s.get (keyOrder id) = some (.order o) ∧ o.id = id := by
  unfold getOrderFromStore at h
  split at h
  · next o' hv =>
    have hid := hwf.ids (u64Bz id) o' (mem_of_get hv)
    rw [u64FromBz_u64Bz'] at hid
    simp only [Option.getD_some] at hid
    cases h
    subst hid
    exact ⟨hv, rfl⟩
  · cases h

/-- what an accepted order record satisfies -/
theorem entryCheck_order_ok {s : Store} (hwf : DumpWF s) {r : Bytes} {v : Val} (hv : s.get (2 :: r) = some v)
    (hc : entryCheck s (2 :: r, v) = none) :
    ∃ id o, r = u64Bz id ∧ v = .order o ∧ o.id = id ∧ id ≠ 0 ∧ ¬ getLastOrderID s < id ∧
      ∀ ie ∈ orderIndexEntries o, s.get ie.1 = some ie.2 := by
  rw [entryCheck_2] at hc
  split at hc
  · next id o hu =>
    split_ifs at hc with h1 h2
    have hid : o.id = id := by
      have := hwf.ids r o (mem_of_get hv)
      rw [hu] at this
      exact this
    have ho : { o with id := id } = o := by subst hid; rfl
    rw [ho, List.findSome?_eq_none_iff] at hc
    refine ⟨id, o, not_not.mp h1, rfl, hid, fun e => h2 (Or.inl e), fun e => h2 (Or.inr e), ?_⟩
    intro ie hie
    have := hc ie hie
    split_ifs at this with h3
    exact h3
  · cases hc

theorem checkInv_sound {s : Store} (hwf : DumpWF s) (h : checkInv s = none) : IndexInv s ∧ CounterInv s := by
  rw [checkInv_none_iff] at h
  have hget : ∀ {k : Bytes} {v : Val}, s.get k = some v → entryCheck s (k, v) = none :=
    fun hk => h _ (mem_of_get hk)
  have hpk : ∀ r v, s.get (112 :: r) = some v → ∃ p, v = .payment p ∧ 112 :: r = keyPayment p.source p.ext := by
    intro r v hv
    have hc := hget hv
    cases v with
    | payment p =>
      rw [entryCheck_112_payment] at hc
      split_ifs at hc with h1
      exact ⟨p, rfl, not_not.mp h1⟩
    | _ => rw [entryCheck_112_other _ _ _ (by intro p; simp)] at hc; cases hc
  refine ⟨⟨?_, ?_, ?_, hpk, ?_, ?_⟩, ?_⟩
  · -- order_key
    intro r v hv
    obtain ⟨id, o, h1, h2, h3, _⟩ := entryCheck_order_ok hwf hv (hget hv)
    exact ⟨id, o, h1, h2, h3⟩
  · -- indexed
    intro id o hv
    obtain ⟨id', o', _, h2, _, _, _, h6⟩ := entryCheck_order_ok hwf hv (hget hv)
    cases h2
    exact h6
  · -- no_dangling
    intro k v hk hv
    have hc := hget hv
    cases k with
    | nil => simp [isOrderIndexKey] at hk
    | cons b r =>
      simp only [isOrderIndexKey, Bool.or_eq_true, decide_eq_true_eq] at hk
      by_cases h9 : b = 9
      · subst h9
        cases v with
        | u64 id =>
          rw [entryCheck_9_u64] at hc
          split at hc
          · next o ho =>
            split_ifs at hc with hm
            exact ⟨id, o, (getOrderFromStore_dump hwf ho).1, hm⟩
          · cases hc
        | _ => rw [entryCheck_9_other _ _ _ (by intro p; simp)] at hc; cases hc
      · have hb : b = 3 ∨ b = 4 ∨ b = 5 := by omega
        rw [entryCheck_345 s b hb] at hc
        split at hc
        · next o ho =>
          split_ifs at hc with hm
          obtain ⟨id, _, hg⟩ := Option.bind_eq_some_iff.mp ho
          exact ⟨id, o, (getOrderFromStore_dump hwf hg).1, hm⟩
        · cases hc
  · -- pay_indexed
    intro p hv
    have hc := hget hv
    rw [show keyPayment p.source p.ext = 112 :: (lengthPrefix p.source ++ p.ext) from rfl,
      entryCheck_112_payment] at hc
    split_ifs at hc with h1
    rw [List.findSome?_eq_none_iff] at hc
    intro ie hie
    have := hc ie hie
    split_ifs at this with h3
    exact h3
  · -- pay_no_dangling
    intro r v hv
    have hc := hget hv
    rw [entryCheck_16] at hc
    split at hc
    · next t rest _ =>
      split at hc
      · next src ext _ =>
        split at hc
        · next p hp =>
          split_ifs at hc with hm
          have hg := getPaymentFromStore_eq hp
          obtain ⟨p', hp', hk⟩ := hpk _ _ hg
          cases hp'
          have := keyPayment_inj.mp hk
          rw [this.1, this.2] at hg
          exact ⟨p, hg, hm⟩
        · cases hc
      · cases hc
    · cases hc
  · -- CounterInv
    intro id v hv
    obtain ⟨id', o, h1, _, _, h4, h5, _⟩ := entryCheck_order_ok hwf hv (hget hv)
    have : id = id' := u64Bz_inj h1
    subst this
    refine ⟨?_, ?_⟩
    · have : id.toNat ≠ 0 := fun e => h4 (UInt64.toNat_inj.mp (by simpa using e))
      omega
    · rw [UInt64.lt_iff_toNat_lt] at h5
      omega

/-! ### completeness: the invariant holds on the dump ⇒ the checker accepts

The `0x10 | len t | t | len src | src | ext` branch parses the index key back with
`parseLengthPrefixedAddr`, which refuses a zero length byte: a payment with the EMPTY source (and a
target) has a target-index key that does not parse back, although `IndexInv` holds for it
(`checkInv_complete_needs_nonempty_source`).  `paymentValid` (payments.go `Payment.Validate`) refuses an
empty source at creation, so reachable stores satisfy `hsrc`. -/

private theorem parseLPA {a : Bytes} (ha : a ≠ []) (x : Bytes) :
    parseLengthPrefixedAddr (lengthPrefix a ++ x) = some (a, x) := by
  have h0 : a.length ≠ 0 := fun h => ha (List.length_eq_zero_iff.mp h)
  have h1 : ¬ (a ++ x).length < a.length := by rw [List.length_append]; omega
  simp only [lengthPrefix, List.cons_append, parseLengthPrefixedAddr]
  rw [if_neg h0, if_neg h1, List.take_left' rfl, List.drop_left' rfl]

/-- every stored payment that HAS a target has a non-empty source: exactly what the checker demands on top
of `IndexInv ∧ CounterInv` (`checkInv_exact`) -/
def TargetedSourcesNonempty (s : Store) : Prop :=
  ∀ p, s.get (keyPayment p.source p.ext) = some (.payment p) → p.target ≠ [] → p.source ≠ []

theorem checkInv_complete_of_targeted {s : Store} (hwf : DumpWF s) (hinv : IndexInv s) (hctr : CounterInv s)
    (hsrc : TargetedSourcesNonempty s) : checkInv s = none := by
  rw [checkInv_none_iff]
  rintro ⟨k, v⟩ he
  have hv := get_of_mem hwf.nodup he
  cases k with
  | nil => rfl
  | cons b r =>
    by_cases h2 : b = 2
    · -- an order record
      subst h2
      obtain ⟨id, o, rfl, rfl, hid⟩ := hinv.order_key r v hv
      have hc := hctr id _ hv
      have h0 : ¬ (id = 0 ∨ getLastOrderID s < id) := by
        rintro (e | e)
        · subst e; simp at hc
        · rw [UInt64.lt_iff_toNat_lt] at e; omega
      have ho : { o with id := id } = o := by subst hid; rfl
      rw [entryCheck_2, u64FromBz_u64Bz']
      simp only []
      rw [if_neg (by simp), if_neg h0, ho, List.findSome?_eq_none_iff]
      intro ie hie
      rw [if_pos (hinv.indexed id o hv ie hie)]
    by_cases h345 : b = 3 ∨ b = 4 ∨ b = 5
    · -- a market / owner / asset index entry
      obtain ⟨id, o, ho, hm⟩ := hinv.no_dangling (b :: r) v
        (by rcases h345 with rfl | rfl | rfl <;> rfl) hv
      have hid : o.id = id := (indexInvF_iff.mp hinv).1.record_id ho
      have hparse : parseIndexKeySuffixOrderID (b :: r) = some id := by
        rcases mem_orderIndexEntries.mp hm with e | e | e | ⟨_, e⟩
        · rw [(Prod.mk.inj e).1, idxMarketToOrder, ← List.cons_append, hid]
          exact parseIndexKeySuffixOrderID_append _ _
        · rw [(Prod.mk.inj e).1, idxAddressToOrder, ← List.cons_append, hid]
          exact parseIndexKeySuffixOrderID_append _ _
        · rw [(Prod.mk.inj e).1, idxAssetToOrder, ← List.cons_append, hid]
          exact parseIndexKeySuffixOrderID_append _ _
        · have := (Prod.mk.inj e).1
          simp only [idxMarketExternalIDToOrder, List.cons.injEq] at this
          omega
      rw [entryCheck_345 s b h345, hparse, Option.bind_some, getOrderFromStore_of_get ho hid]
      simp only []
      rw [if_pos hm]
    by_cases h9 : b = 9
    · -- an external-id index entry
      subst h9
      obtain ⟨id, o, ho, hm⟩ := hinv.no_dangling (9 :: r) v rfl hv
      have hid : o.id = id := (indexInvF_iff.mp hinv).1.record_id ho
      rcases mem_orderIndexEntries.mp hm with e | e | e | ⟨_, e⟩
      · have := (Prod.mk.inj e).1; simp [idxMarketToOrder] at this
      · have := (Prod.mk.inj e).1; simp [idxAddressToOrder] at this
      · have := (Prod.mk.inj e).1; simp [idxAssetToOrder] at this
      · have hvv : v = .u64 id := by rw [(Prod.mk.inj e).2, hid]
        subst hvv
        rw [entryCheck_9_u64, getOrderFromStore_of_get ho hid]
        simp only []
        rw [if_pos hm]
    by_cases h112 : b = 112
    · -- a payment record
      subst h112
      obtain ⟨p, rfl, hk⟩ := hinv.pay_key r v hv
      rw [entryCheck_112_payment, if_neg (not_not.mpr hk), List.findSome?_eq_none_iff]
      intro ie hie
      rw [hk] at hv
      rw [if_pos (hinv.pay_indexed p hv ie hie)]
    by_cases h16 : b = 16
    · -- a target-index entry
      subst h16
      obtain ⟨p, hp, hm⟩ := hinv.pay_no_dangling r v hv
      obtain ⟨ht, e⟩ := mem_paymentIndexEntries.mp hm
      have hr : r = lengthPrefix p.target ++ (lengthPrefix p.source ++ p.ext) := by
        have := (Prod.mk.inj e).1
        simpa [idxTargetToPayment] using this
      have hg : getPaymentFromStore s p.source p.ext = some p := by
        unfold getPaymentFromStore; rw [hp]
      rw [entryCheck_16]
      conv => lhs; rw [hr, parseLPA ht]
      simp only []
      rw [parseLPA (hsrc p hp ht)]
      simp only []
      rw [hg]
      simp only []
      rw [← hr, if_pos hm]
    · exact entryCheck_other s b r v ⟨h2, by omega, by omega, by omega, h9, h112, h16⟩

/-- **completeness** on well-formed dumps whose payments have a source (`paymentValid` enforces it at
creation) -/
theorem checkInv_complete {s : Store} (hwf : DumpWF s) (hinv : IndexInv s) (hctr : CounterInv s)
    (hsrc : ∀ src e p, s.get (keyPayment src e) = some (.payment p) → p.source ≠ []) :
    checkInv s = none :=
  checkInv_complete_of_targeted hwf hinv hctr (fun p hp _ => hsrc _ _ p hp)

/-- an accepted dump has no targeted payment with an empty source (its index key would not parse back) -/
theorem checkInv_sound_sources {s : Store} (hwf : DumpWF s) (h : checkInv s = none) :
    TargetedSourcesNonempty s := by
  intro p hp ht hs
  have hinv := (checkInv_sound hwf h).1
  have hidx := hinv.pay_indexed p hp _ (mem_paymentIndexEntries.mpr ⟨ht, rfl⟩)
  have hc := (checkInv_none_iff s).mp h _ (mem_of_get hidx)
  rw [show idxTargetToPayment p.target p.source p.ext =
    16 :: (lengthPrefix p.target ++ (lengthPrefix p.source ++ p.ext)) from rfl, entryCheck_16, parseLPA ht] at hc
  simp only [] at hc
  rw [hs] at hc
  simp [lengthPrefix, parseLengthPrefixedAddr] at hc

/-- **exactly what the checker decides** on a well-formed dump, with no side condition -/
theorem checkInv_exact {s : Store} (hwf : DumpWF s) :
    checkInv s = none ↔ IndexInv s ∧ CounterInv s ∧ TargetedSourcesNonempty s :=
  ⟨fun h => ⟨(checkInv_sound hwf h).1, (checkInv_sound hwf h).2, checkInv_sound_sources hwf h⟩,
   fun h => checkInv_complete_of_targeted hwf h.1 h.2.1 h.2.2⟩

theorem checkInv_iff {s : Store} (hwf : DumpWF s)
    (hsrc : ∀ src e p, s.get (keyPayment src e) = some (.payment p) → p.source ≠ []) :
    checkInv s = none ↔ IndexInv s ∧ CounterInv s :=
  ⟨checkInv_sound hwf, fun h => checkInv_complete hwf h.1 h.2 hsrc⟩

/-! ### `hsrc` cannot be dropped from completeness -/

/-- a hand-made dump (never reachable: `paymentValid` refuses an empty source) holding one payment with the
EMPTY source and its target-index entry (the same store as `emptySourceStore` of `C13Pay`) -/
def emptySourceDump : Store :=
  [(keyPayment [] [120], .payment ⟨[], 1, [66], 0, [120], false, false⟩),
   (idxTargetToPayment [66] [] [120], .empty)]

/-- `emptySourceDump` is a well-formed dump satisfying `IndexInv` and `CounterInv`, yet `checkInv` rejects
it (`dangling_target_index`): the index key `0x10 | 1 | 66 | 0 | 120` does not parse back because of the
zero length byte.  So the checker is STRICTER than `IndexInv ∧ CounterInv` exactly on payments with an
empty source — a false alarm is possible there, a missed violation is not (`checkInv_sound`). -/
theorem checkInv_complete_needs_nonempty_source :
    DumpWF emptySourceDump ∧ IndexInv emptySourceDump ∧ CounterInv emptySourceDump ∧
    checkInv emptySourceDump = some "dangling_target_index" := by
  have hget : ∀ k, emptySourceDump.get k =
      if k = [112, 0, 120] then some (.payment ⟨[], 1, [66], 0, [120], false, false⟩)
      else if k = [16, 1, 66, 0, 120] then some .empty else none := by
    intro k
    simp only [emptySourceDump, get_cons, get_nil, keyPayment, idxTargetToPayment, lengthPrefix,
      List.length_nil, List.length_cons, List.nil_append, List.cons_append, eq_comm (b := k)]
  refine ⟨⟨by unfold KeysNodup; decide, ?_⟩, indexInvF_iff.mpr ⟨⟨?_, ?_, ?_⟩, ⟨?_, ?_, ?_⟩⟩, ?_, by decide⟩
  · intro r o h
    simp [emptySourceDump, keyPayment, idxTargetToPayment] at h
  · intro r v h
    rw [hget] at h
    split_ifs at h with h1 h2 <;> simp_all
  · intro id o h
    rw [hget] at h
    split_ifs at h with h1 h2 <;> simp_all [keyOrder]
  · intro k v hk h
    rw [hget] at h
    split_ifs at h with h1 h2 <;> simp_all [isOrderIndexKey]
  · intro r v h
    rw [hget] at h
    split_ifs at h with h1 h2
    · cases h
      exact ⟨_, rfl, h1⟩
    · simp at h2
  · intro p h e he
    rw [hget] at h
    split_ifs at h with h1 h2
    · cases h
      obtain ⟨_, rfl⟩ := mem_paymentIndexEntries.mp he
      rw [hget]
      decide
    · simp [keyPayment] at h2
  · intro r v h
    rw [hget] at h
    split_ifs at h with h1 h2
    · simp at h1
    · cases h
      refine ⟨⟨[], 1, [66], 0, [120], false, false⟩, by rw [hget]; decide, ?_⟩
      rw [h2]
      decide
  · intro id v h
    rw [hget] at h
    split_ifs at h with h1 h2 <;> simp_all [keyOrder]

/-! ### the checker on concrete stores -/

/-- a reachable store: one market, one ask order with an external id, one payment with a target -/
def demoStore : Store :=
  (run init [.mkMarket 0 "m", .create ⟨0, false, 1, [65], [97, 112, 112], 6, [117], 12, [120], true, false⟩,
    .pay ⟨[65], 3, [66], 0, [], false, false⟩]).kv

example : checkInv demoStore = none := by decide
example : checkInv (demoStore.del (idxAddressToOrder [65] 1)) = some "order_missing_index:owner" := by decide
example : checkInv (demoStore.del (idxMarketExternalIDToOrder 1 [120])) = some "order_missing_index:ext" := by decide
example : checkInv (demoStore.del (keyOrder 1)) = some "dangling_index:ext" := by decide
example : checkInv (demoStore.del (idxTargetToPayment [66] [65] [])) = some "payment_missing_target_index" := by
  decide
example : checkInv (demoStore.del (keyPayment [65] [])) = some "dangling_target_index" := by decide
example : checkInv (demoStore.set keyLastOrderID (.u64 0)) = some "order_id_above_counter" := by decide
/-- key bytes are unbounded `Nat`s: `[256, 0, …, 1]` decodes (`u64FromBz`) to an id but is not `u64Bz` of it -/
example : checkInv (demoStore.set (2 :: 256 :: (u64Bz 1).tail)
    (.order ⟨1, false, 1, [65], [97, 112, 112], 6, [117], 12, [], true, false⟩)) = some "order_key_malformed" := by
  decide

end PvProofs.C13
