/-
Type of the C10 facts regenerated from x/metadata/keeper/{scope,session,record}.go by
tools/extract/signercalls.go: one entry per call of a signer-validation function or a
specification look-up (arguments without `ctx` / `msg`), or per statement that builds a
required-party list (`callee = "set:<variable>"`), in source order within each function.
-/
namespace PvProofs.Facts

structure SignerCall where
  fn : String
  callee : String
  args : List String
  deriving DecidableEq, Repr

end PvProofs.Facts
