/-
Type of the C07 fact regenerated from the whole repository by tools/extract/quarbypass.go.
-/
namespace PvProofs.Facts

/-- one call of `quarantine.WithBypass(…)` -/
structure BypassSite where
  /-- repo-relative file -/
  file : String
  /-- enclosing function -/
  fn : String
  /-- condition of the innermost enclosing `if` (`""` = unconditional) -/
  cond : String
  /-- the distinct `<recv>.bankKeeper.<Method>` calls of that function, in source order -/
  bank : List String
  deriving DecidableEq, Repr

end PvProofs.Facts
