/-
Type of the determinism facts regenerated from the Go source by tools/extract/determinism.go.
-/
namespace PvProofs.Facts

/-- One language-level source of run-to-run difference in state-machine code. -/
structure DetFact where
  file : String
  func : String
  kind : String     -- range-map | go-stmt | select | clock | random | float
  cls : String      -- sorted | commutative | unordered | telemetry | clock | random | concurrency | float
  detail : String
  deriving DecidableEq, Repr

/-- A keeper (or app-level handler) struct field that can hold mutable in-memory data, with the
functions other than constructors that mutate it. -/
structure KeeperField where
  pkg : String
  type : String
  field : String
  kind : String          -- map | slice | chan
  mutatedIn : List String
  deriving DecidableEq, Repr

end PvProofs.Facts
