/-
Types of the C03 facts regenerated from the Go source by tools/extract/lock.go
(DESIGN §2.3 (b)).  Hand-written; `Generated/LockFacts.lean` only contains values.
-/
namespace PvProofs.Facts

/-- one call site: what is called, the file (relative to the module root; `sdk:` prefix for the
forked SDK), the enclosing function, the argument expressions, and whether the file is a
`_test.go` file -/
structure CallSite where
  callee : String
  file : String
  func : String
  args : List String
  isTest : Bool
  deriving DecidableEq, Repr

/-- a keeper constructor call in `app/app.go`: the assigned field, the callee and the arguments -/
structure Wiring where
  target : String
  callee : String
  args : List String
  deriving DecidableEq, Repr

end PvProofs.Facts
