/-
Types of the facts regenerated from the repository source by tools/extract (DESIGN §2.3 (b)).
Hand-written; the generated files only contain values of these types.
-/
namespace PvProofs.Facts

/-- One msg-server method: the statements (classified) before its first guard, and the guard. -/
structure Handler where
  module : String
  method : String
  req : String
  pre : List String
  guard : String
  hasAuthorityField : Bool
  hasAdminField : Bool
  deriving DecidableEq, Repr

end PvProofs.Facts
