/-
Types of the C12 facts regenerated from x/marker by tools/extract/markerguards.go.
Hand-written; the generated file only contains values of these types.
-/
namespace PvProofs.Facts

/-- One method of x/marker/keeper's `msgServer` or of `Keeper` in marker.go. -/
structure MarkerFn where
  file : String
  recv : String
  name : String
  /-- `(method, right)` for each access check with a constant `types.Access_<right>`, in source order -/
  checks : List (String × String)
  /-- the marker.go `Keeper` methods it calls on its receiver, in order of first use -/
  calls : List String
  /-- the `types.Status<S>` constants it mentions, in order of first use -/
  statuses : List String
  authority : Bool
  govEnabled : Bool
  anyGrants : Bool
  deriving DecidableEq, Repr

end PvProofs.Facts
