/-
Types of the C09 facts regenerated from x/metadata/keeper by tools/extract/scopetoken.go.
-/
namespace PvProofs.Facts

/-- one `<recv>.bankKeeper.<method>(…)` call -/
structure BankCall where
  file : String
  fn : String
  method : String
  deriving DecidableEq, Repr

/-- one call of SetScope / RemoveScope / SetScopeValueOwner / SetScopeValueOwners -/
structure SetterCall where
  file : String
  fn : String
  callee : String
  /-- the slice spread into `markertypes.WithTransferAgents(ctx, X...)`; `""` = plain context -/
  agents : String
  /-- the keeper method whose first result `agents` was assigned from -/
  agentsFrom : String
  /-- for SetScope: where the scope argument comes from (`msg`, `GetScope`, `param`, `other`) -/
  scopeFrom : String
  deriving DecidableEq, Repr

end PvProofs.Facts
