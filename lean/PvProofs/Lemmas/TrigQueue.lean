/-
Helper lemmas for C17: the store-backed queue (`qItems`, `qStart`, `qLen`) refines a list.
-/
import PvModel.TrigSpec

namespace PvProofs.Lemmas.Trig
open PvModel.Trig

theorem qFrom_succ_some (f : Nat → Option QItem) (i n : Nat) (q : QItem) (h : f i = some q) :
    qFrom f i (n + 1) = q :: qFrom f (i + 1) n := by
  simp [qFrom, h]

theorem qFrom_congr (f g : Nat → Option QItem) : ∀ (n i : Nat),
    (∀ k, i ≤ k → k < i + n → f k = g k) → qFrom f i n = qFrom g i n
  | 0, _, _ => rfl
  | n + 1, i, h => by
    have h0 : f i = g i := h i (Nat.le_refl _) (by omega)
    simp only [qFrom, h0]
    cases g i with
    | none => rfl
    | some q =>
      simp only
      rw [qFrom_congr f g n (i + 1) (fun k hk1 hk2 => h k (by omega) (by omega))]

theorem qFrom_length_le (f : Nat → Option QItem) : ∀ (n i : Nat), (qFrom f i n).length ≤ n
  | 0, _ => by simp [qFrom]
  | n + 1, i => by
    simp only [qFrom]
    cases f i with
    | none => simp
    | some q => simp only [List.length_cons]; have := qFrom_length_le f n (i + 1); omega

/-- the list is complete iff every slot of the window is occupied -/
theorem qFrom_full_iff (f : Nat → Option QItem) : ∀ (n i : Nat),
    (qFrom f i n).length = n ↔ ∀ k, k < n → f (i + k) ≠ none
  | 0, _ => by simp [qFrom]
  | n + 1, i => by
    simp only [qFrom]
    cases hfi : f i with
    | none =>
      simp only [List.length_nil]
      constructor
      · intro h; omega
      · intro h; exact absurd (by simpa using hfi) (h 0 (by omega))
    | some q =>
      simp only [List.length_cons, Nat.add_right_cancel_iff]
      rw [qFrom_full_iff f n (i + 1)]
      constructor
      · intro h k hk
        cases k with
        | zero => simp [hfi]
        | succ k => have := h k (by omega); rwa [show i + (k + 1) = i + 1 + k by omega]
      · intro h k hk
        have := h (k + 1) (by omega); rwa [show i + (k + 1) = i + 1 + k by omega] at this

theorem qFrom_mem (f : Nat → Option QItem) : ∀ (n i : Nat) (q : QItem),
    q ∈ qFrom f i n → ∃ k, k < n ∧ f (i + k) = some q
  | 0, _, _, h => by simp [qFrom] at h
  | n + 1, i, q, h => by
    simp only [qFrom] at h
    cases hfi : f i with
    | none => simp [hfi] at h
    | some q0 =>
      simp only [hfi, List.mem_cons] at h
      rcases h with h | h
      · exact ⟨0, by omega, by simp [hfi, h]⟩
      · obtain ⟨k, hk, hq⟩ := qFrom_mem f n (i + 1) q h
        exact ⟨k + 1, by omega, by rwa [show i + (k + 1) = i + 1 + k by omega]⟩

/-- appending at the first free slot of a complete window -/
theorem qFrom_snoc (f : Nat → Option QItem) (q : QItem) : ∀ (n i : Nat),
    (qFrom f i n).length = n →
    qFrom (fun k => if k = i + n then some q else f k) i (n + 1) = qFrom f i n ++ [q]
  | 0, i, _ => by simp [qFrom]
  | n + 1, i, h => by
    have hfull := (qFrom_full_iff f (n + 1) i).1 h
    cases hfi : f i with
    | none => exact absurd hfi (by simpa using hfull 0 (by omega))
    | some q0 =>
      have hlen : (qFrom f (i + 1) n).length = n := by
        have := h; simp only [qFrom, hfi, List.length_cons] at this; omega
      have ih := qFrom_snoc f q n (i + 1) hlen
      have e : i + 1 + n = i + (n + 1) := by omega
      rw [e] at ih
      rw [qFrom_succ_some _ i (n + 1) q0 (by simp [hfi]),
        qFrom_succ_some f i n q0 hfi, ih]; rfl

/-- removing the first slot -/
theorem qFrom_tail (f : Nat → Option QItem) (n i : Nat) :
    qFrom (fun k => if k = i then none else f k) (i + 1) n = qFrom f (i + 1) n :=
  qFrom_congr _ _ n (i + 1) (fun k hk _ => by simp [show ¬ k = i by omega])

theorem qList_enqueue (s : State) (q : QItem) (h : (qList s).length = s.qLen) :
    qList (enqueue s q) = qList s ++ [q] := by
  unfold qList enqueue
  exact qFrom_snoc s.qItems q s.qLen s.qStart h

theorem qList_dequeue (s : State) (q : QItem) (hq : s.qItems s.qStart = some q) (hn : s.qLen ≠ 0) :
    qList s = q :: qList (dequeue s) := by
  unfold qList dequeue
  obtain ⟨n, hn'⟩ : ∃ n, s.qLen = n + 1 := ⟨s.qLen - 1, by omega⟩
  simp only [hn', Nat.add_sub_cancel]
  rw [qFrom_succ_some _ _ _ q hq, qFrom_tail]

/-- `QueuePeek` returns the head of the list view. -/
theorem qList_head (s : State) (h : (qList s).length = s.qLen) (hn : s.qLen ≠ 0) :
    ∃ q, s.qItems s.qStart = some q ∧ (qList s).head? = some q := by
  have hfull := (qFrom_full_iff s.qItems s.qLen s.qStart).1 h 0 (by omega)
  cases hq : s.qItems s.qStart with
  | none => simp [hq] at hfull
  | some q =>
    refine ⟨q, rfl, ?_⟩
    rw [qList_dequeue s q hq hn]; rfl

end PvProofs.Lemmas.Trig
