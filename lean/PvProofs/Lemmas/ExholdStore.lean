/-
Helper lemmas for C02: how the record stores (orders, commitments, payments) change the
obligation sums.
-/
import PvProofs.Lemmas.ExholdCoins

namespace PvProofs.Exhold
open PvModel PvModel.Exhold

/-- what one order obliges account `a` to keep reserved in `d` -/
def contrib (o : Order) (a : Addr) (d : Denom) : Int :=
  if o.owner = a then Coins.amountOf (holdAmt o) d else 0

/-- what one payment obliges -/
def pcontrib (p : Payment) (a : Addr) (d : Denom) : Int :=
  if p.source = a then Coins.amountOf p.sourceAmt d else 0

theorem ordersObl_cons (o : Order) (rest : List Order) (a : Addr) (d : Denom) :
    ordersObl (o :: rest) a d = contrib o a d + ordersObl rest a d := rfl

theorem paysObl_cons (p : Payment) (rest : List Payment) (a : Addr) (d : Denom) :
    paysObl (p :: rest) a d = pcontrib p a d + paysObl rest a d := rfl

@[simp] theorem ordersObl_nil (a : Addr) (d : Denom) : ordersObl [] a d = 0 := rfl
@[simp] theorem commitsObl_nil (a : Addr) (d : Denom) : commitsObl [] a d = 0 := rfl
@[simp] theorem paysObl_nil (a : Addr) (d : Denom) : paysObl [] a d = 0 := rfl

theorem ordersObl_append (l₁ l₂ : List Order) (a : Addr) (d : Denom) :
    ordersObl (l₁ ++ l₂) a d = ordersObl l₁ a d + ordersObl l₂ a d := by
  induction l₁ with
  | nil => simp
  | cons o t ih => simp only [List.cons_append, ordersObl_cons, ih]; omega

/-! ### orders -/

theorem getOrder_some_id {os : List Order} {id : Nat} {o : Order} (h : getOrder os id = some o) : o.id = id := by
  induction os with
  | nil => simp [getOrder] at h
  | cons x t ih =>
    simp only [getOrder] at h
    split at h
    · rename_i hx; injection h with h; subst h; exact hx
    · exact ih h

theorem getOrder_mem {os : List Order} {id : Nat} {o : Order} (h : getOrder os id = some o) : o ∈ os := by
  induction os with
  | nil => simp [getOrder] at h
  | cons x t ih =>
    simp only [getOrder] at h
    split at h
    · injection h with h; subst h; simp
    · exact List.mem_cons_of_mem _ (ih h)

theorem ordersObl_deleteOrder {os : List Order} {id : Nat} {o : Order} (h : getOrder os id = some o)
    (a : Addr) (d : Denom) : ordersObl (deleteOrder os id) a d = ordersObl os a d - contrib o a d := by
  induction os with
  | nil => simp [getOrder] at h
  | cons x t ih =>
    simp only [getOrder] at h
    simp only [deleteOrder]
    split at h
    · rename_i hx
      injection h with h; subst h
      simp only [hx, ↓reduceIte, ordersObl_cons]; omega
    · rename_i hx
      simp only [hx, ↓reduceIte, ordersObl_cons, ih h]; omega

theorem getOrder_deleteOrder_ne (os : List Order) {id id' : Nat} (hne : id' ≠ id) :
    getOrder (deleteOrder os id) id' = getOrder os id' := by
  induction os with
  | nil => simp [deleteOrder]
  | cons x t ih =>
    simp only [deleteOrder]
    split
    · rename_i hx
      have : x.id ≠ id' := by omega
      simp [getOrder, this]
    · simp only [getOrder, ih]

theorem mem_deleteOrder {os : List Order} {id : Nat} {o : Order} (h : o ∈ deleteOrder os id) : o ∈ os := by
  induction os with
  | nil => simp [deleteOrder] at h
  | cons x t ih =>
    simp only [deleteOrder] at h
    split at h
    · exact List.mem_cons_of_mem _ h
    · rcases List.mem_cons.mp h with rfl | h'
      · simp
      · exact List.mem_cons_of_mem _ (ih h')

theorem deleteOrder_sublist (os : List Order) (id : Nat) : (deleteOrder os id).Sublist os := by
  induction os with
  | nil => simp [deleteOrder]
  | cons x t ih =>
    simp only [deleteOrder]
    split
    · exact List.sublist_cons_self x t
    · exact ih.cons_cons x

theorem deleteAll_sublist (os : List Order) (ids : List Nat) : (deleteAll os ids).Sublist os := by
  induction ids generalizing os with
  | nil => simp [deleteAll]
  | cons id t ih =>
    simp only [deleteAll, List.foldl_cons]
    exact (ih (deleteOrder os id)).trans (deleteOrder_sublist os id)

theorem getOrder_of_mem_nodup {os : List Order} (h : (os.map (·.id)).Nodup) {o : Order} (ho : o ∈ os) :
    getOrder os o.id = some o := by
  induction os with
  | nil => simp at ho
  | cons x t ih =>
    simp only [List.map_cons, List.nodup_cons] at h
    simp only [getOrder]
    rcases List.mem_cons.mp ho with rfl | ho'
    · simp
    · split
      · rename_i hx
        exfalso
        apply h.1
        exact List.mem_map.mpr ⟨o, ho', hx.symm⟩
      · exact ih h.2 ho'

theorem getOrder_none_not_mem {os : List Order} {id : Nat} (h : getOrder os id = none) : id ∉ os.map (·.id) := by
  induction os with
  | nil => simp
  | cons x t ih =>
    simp only [getOrder] at h
    split at h
    · simp at h
    · rename_i hx
      simp only [List.map_cons, List.mem_cons, not_or]
      exact ⟨fun heq => hx heq.symm, ih h⟩

theorem getOrder_none_of_not_mem {os : List Order} {id : Nat} (h : id ∉ os.map (·.id)) : getOrder os id = none := by
  induction os with
  | nil => rfl
  | cons x t ih =>
    simp only [List.map_cons, List.mem_cons, not_or] at h
    simp only [getOrder]
    split
    · rename_i hx; exact absurd hx.symm h.1
    · exact ih h.2

/-- with distinct ids, deleting an id leaves no order with that id -/
theorem getOrder_deleteOrder_self {os : List Order} (hn : (os.map (·.id)).Nodup) (id : Nat) :
    getOrder (deleteOrder os id) id = none := by
  induction os with
  | nil => simp [deleteOrder, getOrder]
  | cons x t ih =>
    simp only [List.map_cons, List.nodup_cons] at hn
    simp only [deleteOrder]
    split
    · rename_i hx
      rw [← hx]
      exact getOrder_none_of_not_mem hn.1
    · rename_i hx
      simp only [getOrder, hx, ↓reduceIte]
      exact ih hn.2

theorem ids_setOrder_some {os : List Order} {n o : Order} (h : getOrder os n.id = some o) :
    (setOrder os n).map (·.id) = os.map (·.id) := by
  induction os with
  | nil => simp [getOrder] at h
  | cons x t ih =>
    simp only [getOrder] at h
    simp only [setOrder]
    split
    · rename_i hx; simp [hx]
    · rename_i hx
      simp only [hx, ↓reduceIte] at h
      simp [ih h]

theorem ids_setOrder_none {os : List Order} {n : Order} (h : getOrder os n.id = none) :
    (setOrder os n).map (·.id) = os.map (·.id) ++ [n.id] := by
  induction os with
  | nil => simp [setOrder]
  | cons x t ih =>
    simp only [getOrder] at h
    simp only [setOrder]
    split
    · rename_i hx; simp [hx] at h
    · rename_i hx
      simp only [hx, ↓reduceIte] at h
      simp [ih h]

/-- contribution of the stored order with id `id` (0 when there is none) -/
def storedContrib (os : List Order) (id : Nat) (a : Addr) (d : Denom) : Int :=
  match getOrder os id with
  | some o => contrib o a d
  | none => 0

theorem ordersObl_setOrder (os : List Order) (n : Order) (a : Addr) (d : Denom) :
    ordersObl (setOrder os n) a d = ordersObl os a d - storedContrib os n.id a d + contrib n a d := by
  induction os with
  | nil => simp [setOrder, storedContrib, getOrder, ordersObl_cons]
  | cons x t ih =>
    simp only [setOrder, storedContrib, getOrder]
    split
    · simp only [ordersObl_cons]; omega
    · simp only [ordersObl_cons, ih, storedContrib]; omega

theorem getOrder_setOrder_ne (os : List Order) (n : Order) {id : Nat} (hne : id ≠ n.id) :
    getOrder (setOrder os n) id = getOrder os id := by
  induction os with
  | nil =>
    have : n.id ≠ id := fun h => hne h.symm
    simp [setOrder, getOrder, this]
  | cons x t ih =>
    simp only [setOrder]
    split
    · rename_i hx
      have h1 : n.id ≠ id := fun h => hne h.symm
      have h2 : x.id ≠ id := by omega
      simp [getOrder, h1, h2]
    · simp only [getOrder, ih]

theorem getOrder_setOrder_self (os : List Order) (n : Order) : getOrder (setOrder os n) n.id = some n := by
  induction os with
  | nil => simp [setOrder, getOrder]
  | cons x t ih =>
    simp only [setOrder]
    split
    · simp [getOrder]
    · rename_i hx
      simp [getOrder, hx, ih]

theorem mem_setOrder {os : List Order} {n o : Order} (h : o ∈ setOrder os n) : o = n ∨ o ∈ os := by
  induction os with
  | nil => simp [setOrder] at h; exact Or.inl h
  | cons x t ih =>
    simp only [setOrder] at h
    split at h
    · rcases List.mem_cons.mp h with rfl | h'
      · exact Or.inl rfl
      · exact Or.inr (List.mem_cons_of_mem _ h')
    · rcases List.mem_cons.mp h with rfl | h'
      · exact Or.inr (by simp)
      · rcases ih h' with h'' | h''
        · exact Or.inl h''
        · exact Or.inr (List.mem_cons_of_mem _ h'')

theorem mem_deleteAll {os : List Order} {ids : List Nat} {o : Order} (h : o ∈ deleteAll os ids) : o ∈ os := by
  induction ids generalizing os with
  | nil => simpa [deleteAll] using h
  | cons id t ih =>
    simp only [deleteAll, List.foldl_cons] at h
    exact mem_deleteOrder (ih h)

/-- deleting a list of looked-up orders with distinct ids removes exactly their contributions -/
theorem ordersObl_deleteAll (os : List Order) (full : List Order) (hn : (full.map (·.id)).Nodup)
    (hg : ∀ o ∈ full, getOrder os o.id = some o) (a : Addr) (d : Denom) :
    ordersObl (deleteAll os (full.map (·.id))) a d = ordersObl os a d - ordersObl full a d := by
  induction full generalizing os with
  | nil => simp [deleteAll]
  | cons o t ih =>
    simp only [List.map_cons, List.nodup_cons, List.mem_map, not_exists, not_and] at hn
    simp only [deleteAll, List.map_cons, List.foldl_cons]
    have h1 := ordersObl_deleteOrder (hg o (by simp)) a d
    have := ih (deleteOrder os o.id) hn.2 (by
      intro o' ho'
      rw [getOrder_deleteOrder_ne]
      · exact hg o' (by simp [ho'])
      · intro heq
        exact hn.1 o' ho' heq)
    simp only [deleteAll] at this
    rw [this, h1, ordersObl_cons]; omega

/-! ### commitments -/

theorem commitsObl_cons (c : Commitment) (rest : List Commitment) (a : Addr) (d : Denom) :
    commitsObl (c :: rest) a d = (if c.account = a then Coins.amountOf c.amount d else 0) + commitsObl rest a d := rfl

theorem commitsObl_deleteCommitment (cs : List Commitment) (m : Nat) (a b : Addr) (e : Denom) :
    commitsObl (deleteCommitment cs m a) b e =
      commitsObl cs b e - (if a = b then Coins.amountOf (getCommitment cs m a) e else 0) := by
  induction cs with
  | nil => simp [deleteCommitment, getCommitment]
  | cons c t ih =>
    simp only [deleteCommitment, getCommitment]
    split
    · rename_i hc
      simp only [commitsObl_cons, hc.2]; omega
    · simp only [commitsObl_cons, ih]; omega

theorem commitsObl_putCommitment (cs : List Commitment) (m : Nat) (a : Addr) (amt : Coins) (b : Addr) (e : Denom) :
    commitsObl (putCommitment cs ⟨m, a, amt⟩) b e =
      commitsObl cs b e - (if a = b then Coins.amountOf (getCommitment cs m a) e else 0)
        + (if a = b then Coins.amountOf amt e else 0) := by
  induction cs with
  | nil => simp [putCommitment, getCommitment, commitsObl_cons]
  | cons c t ih =>
    simp only [putCommitment, getCommitment]
    split
    · rename_i hc
      simp only [commitsObl_cons, hc.2]; omega
    · simp only [commitsObl_cons, ih]; omega

theorem commitsObl_setCommitment (cs : List Commitment) (m : Nat) (a : Addr) (amt : Coins) (b : Addr) (e : Denom) :
    commitsObl (setCommitment cs m a amt) b e =
      commitsObl cs b e - (if a = b then Coins.amountOf (getCommitment cs m a) e else 0)
        + (if a = b then Coins.amountOf amt e else 0) := by
  unfold setCommitment
  split
  · rename_i hz
    rw [commitsObl_deleteCommitment, allZero_amountOf hz]; simp
  · exact commitsObl_putCommitment cs m a amt b e

theorem mem_deleteCommitment {cs : List Commitment} {m : Nat} {a : Addr} {c : Commitment}
    (h : c ∈ deleteCommitment cs m a) : c ∈ cs := by
  induction cs with
  | nil => simp [deleteCommitment] at h
  | cons x t ih =>
    simp only [deleteCommitment] at h
    split at h
    · exact List.mem_cons_of_mem _ h
    · rcases List.mem_cons.mp h with rfl | h'
      · simp
      · exact List.mem_cons_of_mem _ (ih h')

theorem mem_putCommitment {cs : List Commitment} {n c : Commitment} (h : c ∈ putCommitment cs n) : c = n ∨ c ∈ cs := by
  induction cs with
  | nil => simp [putCommitment] at h; exact Or.inl h
  | cons x t ih =>
    simp only [putCommitment] at h
    split at h
    · rcases List.mem_cons.mp h with rfl | h'
      · exact Or.inl rfl
      · exact Or.inr (List.mem_cons_of_mem _ h')
    · rcases List.mem_cons.mp h with rfl | h'
      · exact Or.inr (by simp)
      · rcases ih h' with h'' | h''
        · exact Or.inl h''
        · exact Or.inr (List.mem_cons_of_mem _ h'')

theorem mem_setCommitment {cs : List Commitment} {m : Nat} {a : Addr} {amt : Coins} {c : Commitment}
    (h : c ∈ setCommitment cs m a amt) : c = ⟨m, a, amt⟩ ∨ c ∈ cs := by
  unfold setCommitment at h
  split at h
  · exact Or.inr (mem_deleteCommitment h)
  · exact mem_putCommitment h

def commitKey (c : Commitment) : Nat × Addr := (c.market, c.account)

theorem deleteCommitment_sublist (cs : List Commitment) (m : Nat) (a : Addr) :
    (deleteCommitment cs m a).Sublist cs := by
  induction cs with
  | nil => simp [deleteCommitment]
  | cons x t ih =>
    simp only [deleteCommitment]
    split
    · exact List.sublist_cons_self x t
    · exact ih.cons_cons x

theorem keys_putCommitment (cs : List Commitment) (n : Commitment) (h : (cs.map commitKey).Nodup) :
    ((putCommitment cs n).map commitKey).Nodup := by
  induction cs with
  | nil => simp [putCommitment]
  | cons x t ih =>
    simp only [List.map_cons, List.nodup_cons] at h
    simp only [putCommitment]
    split
    · rename_i hx
      simp only [List.map_cons, List.nodup_cons]
      have : commitKey n = commitKey x := by simp [commitKey, hx.1, hx.2]
      rw [this]; exact h
    · rename_i hx
      simp only [List.map_cons, List.nodup_cons]
      refine ⟨?_, ih h.2⟩
      intro hm
      simp only [List.mem_map] at hm
      obtain ⟨c, hc, hk⟩ := hm
      rcases mem_putCommitment hc with rfl | hc'
      · simp only [commitKey, Prod.mk.injEq] at hk
        exact hx ⟨hk.1.symm, hk.2.symm⟩
      · exact h.1 (List.mem_map.mpr ⟨c, hc', hk⟩)

theorem keys_setCommitment (cs : List Commitment) (m : Nat) (a : Addr) (amt : Coins) (h : (cs.map commitKey).Nodup) :
    ((setCommitment cs m a amt).map commitKey).Nodup := by
  unfold setCommitment
  split
  · exact h.sublist ((deleteCommitment_sublist cs m a).map _)
  · exact keys_putCommitment cs _ h

theorem getCommitment_of_mem_nodup {cs : List Commitment} (h : (cs.map commitKey).Nodup) {c : Commitment} (hc : c ∈ cs) :
    getCommitment cs c.market c.account = c.amount := by
  induction cs with
  | nil => simp at hc
  | cons x t ih =>
    simp only [List.map_cons, List.nodup_cons] at h
    simp only [getCommitment]
    rcases List.mem_cons.mp hc with rfl | hc'
    · simp
    · split
      · rename_i hx
        exfalso
        apply h.1
        exact List.mem_map.mpr ⟨c, hc', by simp [commitKey, hx.1, hx.2]⟩
      · exact ih h.2 hc'

theorem getCommitment_deleteCommitment_ne (cs : List Commitment) {m m' : Nat} {a a' : Addr}
    (hne : (m', a') ≠ (m, a)) :
    getCommitment (deleteCommitment cs m a) m' a' = getCommitment cs m' a' := by
  induction cs with
  | nil => simp [deleteCommitment]
  | cons x t ih =>
    simp only [deleteCommitment]
    split
    · rename_i hx
      have : ¬ (x.market = m' ∧ x.account = a') := by
        rintro ⟨h1, h2⟩
        apply hne
        rw [← h1, ← h2, hx.1, hx.2]
      simp [getCommitment, this]
    · simp only [getCommitment, ih]

/-- with distinct keys, deleting a key leaves no entry with that key -/
theorem not_mem_deleteCommitment {cs : List Commitment} (h : (cs.map commitKey).Nodup) (m : Nat) (a : Addr) :
    (m, a) ∉ (deleteCommitment cs m a).map commitKey := by
  induction cs with
  | nil => simp [deleteCommitment]
  | cons x t ih =>
    simp only [List.map_cons, List.nodup_cons] at h
    simp only [deleteCommitment]
    split
    · rename_i hx
      have : commitKey x = (m, a) := by simp [commitKey, hx.1, hx.2]
      rw [← this]; exact h.1
    · rename_i hx
      simp only [List.map_cons, List.mem_cons, not_or]
      refine ⟨?_, ih h.2⟩
      intro heq
      simp only [commitKey, Prod.mk.injEq] at heq
      exact hx ⟨heq.1.symm, heq.2.symm⟩

/-- the stored amount is either empty or the amount of a stored commitment -/
theorem getCommitment_cases (cs : List Commitment) (m : Nat) (a : Addr) :
    getCommitment cs m a = [] ∨ ∃ c ∈ cs, c.account = a ∧ c.amount = getCommitment cs m a := by
  induction cs with
  | nil => simp [getCommitment]
  | cons x t ih =>
    simp only [getCommitment]
    split
    · rename_i hx
      exact Or.inr ⟨x, by simp, hx.2, rfl⟩
    · rcases ih with h | ⟨c, hc, h1, h2⟩
      · exact Or.inl h
      · exact Or.inr ⟨c, List.mem_cons_of_mem _ hc, h1, h2⟩

/-! ### payments -/

def payKey (p : Payment) : Addr × String := (p.source, p.extId)

theorem getPayment_some_key {ps : List Payment} {src : Addr} {ext : String} {p : Payment}
    (h : getPayment ps src ext = some p) : p.source = src ∧ p.extId = ext := by
  induction ps with
  | nil => simp [getPayment] at h
  | cons x t ih =>
    simp only [getPayment] at h
    split at h
    · rename_i hx; injection h with h; subst h; exact hx
    · exact ih h

theorem getPayment_mem {ps : List Payment} {src : Addr} {ext : String} {p : Payment}
    (h : getPayment ps src ext = some p) : p ∈ ps := by
  induction ps with
  | nil => simp [getPayment] at h
  | cons x t ih =>
    simp only [getPayment] at h
    split at h
    · injection h with h; subst h; simp
    · exact List.mem_cons_of_mem _ (ih h)

theorem paysObl_deletePayment {ps : List Payment} {src : Addr} {ext : String} {p : Payment}
    (h : getPayment ps src ext = some p) (a : Addr) (d : Denom) :
    paysObl (deletePayment ps src ext) a d = paysObl ps a d - pcontrib p a d := by
  induction ps with
  | nil => simp [getPayment] at h
  | cons x t ih =>
    simp only [getPayment] at h
    simp only [deletePayment]
    split at h
    · rename_i hx
      injection h with h; subst h
      simp only [hx, and_self, ↓reduceIte, paysObl_cons]; omega
    · rename_i hx
      simp only [hx, ↓reduceIte, paysObl_cons, ih h]; omega

theorem getPayment_deletePayment_ne (ps : List Payment) {src src' : Addr} {ext ext' : String}
    (hne : (src', ext') ≠ (src, ext)) :
    getPayment (deletePayment ps src ext) src' ext' = getPayment ps src' ext' := by
  induction ps with
  | nil => simp [deletePayment]
  | cons x t ih =>
    simp only [deletePayment]
    split
    · rename_i hx
      have : ¬ (x.source = src' ∧ x.extId = ext') := by
        rintro ⟨h1, h2⟩
        apply hne
        rw [← h1, ← h2, hx.1, hx.2]
      simp [getPayment, this]
    · simp only [getPayment, ih]

theorem mem_deletePayment {ps : List Payment} {src : Addr} {ext : String} {p : Payment}
    (h : p ∈ deletePayment ps src ext) : p ∈ ps := by
  induction ps with
  | nil => simp [deletePayment] at h
  | cons x t ih =>
    simp only [deletePayment] at h
    split at h
    · exact List.mem_cons_of_mem _ h
    · rcases List.mem_cons.mp h with rfl | h'
      · simp
      · exact List.mem_cons_of_mem _ (ih h')

theorem deletePayment_sublist (ps : List Payment) (src : Addr) (ext : String) :
    (deletePayment ps src ext).Sublist ps := by
  induction ps with
  | nil => simp [deletePayment]
  | cons x t ih =>
    simp only [deletePayment]
    split
    · exact List.sublist_cons_self x t
    · exact ih.cons_cons x

def storedPContrib (ps : List Payment) (src : Addr) (ext : String) (a : Addr) (d : Denom) : Int :=
  match getPayment ps src ext with
  | some p => pcontrib p a d
  | none => 0

theorem paysObl_setPayment (ps : List Payment) (n : Payment) (a : Addr) (d : Denom) :
    paysObl (setPayment ps n) a d = paysObl ps a d - storedPContrib ps n.source n.extId a d + pcontrib n a d := by
  induction ps with
  | nil => simp [setPayment, storedPContrib, getPayment, paysObl_cons]
  | cons x t ih =>
    simp only [setPayment, storedPContrib, getPayment]
    split
    · simp only [paysObl_cons]; omega
    · simp only [paysObl_cons, ih, storedPContrib]; omega

theorem mem_setPayment {ps : List Payment} {n p : Payment} (h : p ∈ setPayment ps n) : p = n ∨ p ∈ ps := by
  induction ps with
  | nil => simp [setPayment] at h; exact Or.inl h
  | cons x t ih =>
    simp only [setPayment] at h
    split at h
    · rcases List.mem_cons.mp h with rfl | h'
      · exact Or.inl rfl
      · exact Or.inr (List.mem_cons_of_mem _ h')
    · rcases List.mem_cons.mp h with rfl | h'
      · exact Or.inr (by simp)
      · rcases ih h' with h'' | h''
        · exact Or.inl h''
        · exact Or.inr (List.mem_cons_of_mem _ h'')

theorem getPayment_none_key {ps : List Payment} {src : Addr} {ext : String}
    (h : getPayment ps src ext = none) : (src, ext) ∉ ps.map payKey := by
  induction ps with
  | nil => simp
  | cons x t ih =>
    simp only [getPayment] at h
    split at h
    · simp at h
    · rename_i hx
      simp only [List.map_cons, List.mem_cons, not_or]
      refine ⟨?_, ih h⟩
      intro heq
      simp only [payKey, Prod.mk.injEq] at heq
      exact hx ⟨heq.1.symm, heq.2.symm⟩

/-- `setPayment` keeps the keys distinct -/
theorem keys_setPayment (ps : List Payment) (n : Payment) (h : (ps.map payKey).Nodup) :
    ((setPayment ps n).map payKey).Nodup := by
  induction ps with
  | nil => simp [setPayment]
  | cons x t ih =>
    simp only [List.map_cons, List.nodup_cons] at h
    simp only [setPayment]
    split
    · rename_i hx
      simp only [List.map_cons, List.nodup_cons]
      have : payKey n = payKey x := by simp [payKey, hx.1, hx.2]
      rw [this]; exact h
    · rename_i hx
      simp only [List.map_cons, List.nodup_cons]
      refine ⟨?_, ih h.2⟩
      intro hm
      simp only [List.mem_map] at hm
      obtain ⟨p, hp, hk⟩ := hm
      rcases mem_setPayment hp with rfl | hp'
      · simp only [payKey, Prod.mk.injEq] at hk
        exact hx ⟨hk.1.symm, hk.2.symm⟩
      · exact h.1 (List.mem_map.mpr ⟨p, hp', hk⟩)

theorem getPayment_of_mem_nodup {ps : List Payment} (h : (ps.map payKey).Nodup) {p : Payment} (hp : p ∈ ps) :
    getPayment ps p.source p.extId = some p := by
  induction ps with
  | nil => simp at hp
  | cons x t ih =>
    simp only [List.map_cons, List.nodup_cons] at h
    simp only [getPayment]
    rcases List.mem_cons.mp hp with rfl | hp'
    · simp
    · split
      · rename_i hx
        exfalso
        apply h.1
        exact List.mem_map.mpr ⟨p, hp', by simp [payKey, hx.1, hx.2]⟩
      · exact ih h.2 hp'

end PvProofs.Exhold
