/-
Helper lemmas for C17: what one `ProcessTriggers` and one `DetectBlockEvents` do to a well-formed
store (specifications used by the history theorems of `PvProofs.C17`).
-/
import PvProofs.Lemmas.TrigInv

namespace PvProofs.Lemmas.Trig
open PvModel.Trig

/-! ## the dispatcher -/

/-- Reference semantics of a list of actions that all succeed. -/
def applyAll (s : State) : List Action → State
  | [] => s
  | a :: rest => match handleMsg s a with
    | .ok s' => applyAll s' rest
    | .error _ => applyAll s rest

/-- What a block's dispatch leaves behind, as a function of *which triggers succeeded* only:
every executed trigger is dequeued and loses its gas limit; a successful one additionally applies
all of its actions; a failed one applies nothing. -/
def replay (s : State) : List Exec → State
  | [] => s
  | x :: xs =>
    let s1 := removeGasLimit (dequeue s) x.id
    replay (if x.success then applyAll s1 x.actions else s1) xs

theorem handleMsgs_some (oog : Nat → Bool) : ∀ (acts : List Action) (s c : State) (i : Nat),
    (handleMsgs oog s acts i).2 = some c →
    c = applyAll s acts ∧ (handleMsgs oog s acts i).1 = acts.map (fun _ => Outcome.ok) ∧
    c.bal = applySends s.bal acts
  | [], s, c, i, h => by simp only [handleMsgs] at h; cases h; exact ⟨rfl, rfl, rfl⟩
  | a :: rest, s, c, i, h => by
    simp only [handleMsgs] at h ⊢
    split at h; · cases h
    next hoog =>
    simp only [hoog]
    split at h
    · next s' hs =>
      obtain ⟨h1, h2, h3⟩ := handleMsgs_some oog rest s' c (i + 1) h
      refine ⟨by simp only [applyAll, hs]; exact h1, by simp [h2], ?_⟩
      rw [h3]
      cases a with
      | send f t amt =>
        change bankSend s f t amt = .ok s' at hs
        unfold bankSend at hs
        split at hs; · cases hs
        split at hs; · cases hs
        split at hs; · cases hs
        cases hs; rfl
      | kill auth id =>
        obtain ⟨_, _, t, _, _, e⟩ := destroyTrigger_ok (show destroyTrigger s auth id = .ok s' from hs)
        subst e; rfl
      | boom => cases hs
    · cases h
    · cases h

theorem handleMsgs_none (oog : Nat → Bool) : ∀ (acts : List Action) (s : State) (i : Nat),
    (handleMsgs oog s acts i).2 = none →
    ∃ pre last, (handleMsgs oog s acts i).1 = pre ++ [last] ∧ last ≠ Outcome.ok ∧
      (∀ o ∈ pre, o = Outcome.ok) ∧ pre.length < acts.length
  | [], s, i, h => by simp [handleMsgs] at h
  | a :: rest, s, i, h => by
    simp only [handleMsgs] at h ⊢
    split
    · exact ⟨[], .oog, rfl, by decide, by simp, by simp⟩
    · next hoog =>
      simp only [hoog] at h
      split
      · next s' hs =>
        simp only [hs] at h
        obtain ⟨pre, last, h1, h2, h3, h4⟩ := handleMsgs_none oog rest s' (i + 1) h
        exact ⟨.ok :: pre, last, by simp [h1], h2, by simpa using h3, by simp; omega⟩
      · exact ⟨[], .panic, rfl, by decide, by simp, by simp⟩
      · exact ⟨[], .err, rfl, by decide, by simp, by simp⟩

/-- `runActions` is all-or-nothing. -/
theorem runActions_spec (s : State) (acts : List Action) (oog : Nat → Bool) :
    let r := runActions s acts oog
    (r.1 = true ∧ r.2.2 = applyAll s acts ∧ r.2.1 = acts.map (fun _ => Outcome.ok) ∧
       r.2.2.bal = applySends s.bal acts) ∨
    (r.1 = false ∧ r.2.2 = s ∧ ∃ pre last, r.2.1 = pre ++ [last] ∧ last ≠ Outcome.ok ∧
       (∀ o ∈ pre, o = Outcome.ok) ∧ pre.length < acts.length) := by
  intro r
  show _ ∨ _
  have hr : r = runActions s acts oog := rfl
  unfold runActions at hr
  split at hr
  · next os c hc =>
    have h2 : (handleMsgs oog s acts 0).2 = some c := by rw [hc]
    obtain ⟨h1, h3, h4⟩ := handleMsgs_some oog acts s c 0 h2
    rw [hc] at h3
    left; rw [hr]; exact ⟨rfl, h1, h3, h4⟩
  · next os hc =>
    have h2 : (handleMsgs oog s acts 0).2 = none := by rw [hc]
    have := handleMsgs_none oog acts s 0 h2
    rw [hc] at this
    right; rw [hr]; exact ⟨rfl, rfl, this⟩

/-- One `ProcessTriggers` on a well-formed store: it never panics; it executes a prefix of the
queue; at most `n` triggers whose gas limits (the stored ones) fit the remaining block gas; the
store stays well formed; nothing is registered; the result is `replay` of the executed list. -/
theorem processLoop_spec (cost : Nat → Nat → Nat) : ∀ (n gc : Nat) (s : State), WF s →
    ∃ s' xs, processLoop cost n gc s = some (s', xs) ∧ WF s' ∧
      qList s = (qList s).take xs.length ++ qList s' ∧
      xs.map (·.id) = ((qList s).take xs.length).map (·.trigger.id) ∧
      xs.map (·.actions) = ((qList s).take xs.length).map (·.trigger.actions) ∧
      xs.length ≤ (qList s).length ∧
      s'.nextId = s.nextId ∧ (∀ id, s'.triggers id = s.triggers id ∨ s'.triggers id = none) ∧
      xs.length ≤ n ∧ (xs ≠ [] → gc + (xs.map (·.gas)).sum ≤ MaximumQueueGas) ∧
      (∀ x ∈ xs, s.gasLimits x.id = some x.gas) ∧
      s' = replay s xs ∧ s'.bal = expectedBal s.bal xs ∧
      (s.qLen ≠ 0 → n ≠ 0 → gc = 0 → xs ≠ [])
  | 0, gc, s, hw => ⟨s, [], rfl, hw, by simp, rfl, rfl, by simp, rfl, fun _ => Or.inl rfl, by simp,
      by simp, by simp, rfl, rfl, by simp⟩
  | n + 1, gc, s, hw => by
    unfold processLoop
    by_cases he : queueIsEmpty s = true
    · simp only [he, if_true]
      have : s.qLen = 0 := by simpa [queueIsEmpty] using he
      exact ⟨s, [], rfl, hw, by simp, rfl, rfl, by simp, rfl, fun _ => Or.inl rfl, by simp, by simp,
        by simp, rfl, rfl, by simp [this]⟩
    · simp only [he]
      have hn : s.qLen ≠ 0 := by simpa [queueIsEmpty] using he
      obtain ⟨item, hq, _⟩ := qList_head s hw.qlen hn
      simp only [getQueueItem, hq, Bool.false_eq_true, if_false]
      obtain ⟨hw1, hl, hnext, htrig, hbal⟩ := WF_dequeue hw item hq hn
      have hmem : item ∈ qList s := by rw [hl]; exact List.mem_cons_self
      have hgas : (s.gasLimits item.trigger.id).isSome := by
        rw [hw.gas]; right; exact List.mem_map.2 ⟨item, hmem, rfl⟩
      obtain ⟨g, hg⟩ := Option.isSome_iff_exists.1 hgas
      have hgcap := hw.gasCap _ _ hg
      simp only [getGasLimit, hg]
      by_cases hcap : g + gc > MaximumQueueGas
      · simp only [hcap, if_true]
        refine ⟨s, [], rfl, hw, by simp, rfl, rfl, by simp, rfl, fun _ => Or.inl rfl, by simp, by simp,
          by simp, rfl, rfl, ?_⟩
        intro _ _ hgc; subst hgc
        simp only [MaximumQueueGas, MaximumTriggerGas] at hcap hgcap; omega
      · simp only [hcap, if_false]
        have hra := WF_runActions hw1 item.trigger.actions (gasOog g (cost item.trigger.id))
        have hspec := runActions_spec (removeGasLimit (dequeue s) item.trigger.id) item.trigger.actions
          (gasOog g (cost item.trigger.id))
        generalize hr : runActions (removeGasLimit (dequeue s) item.trigger.id) item.trigger.actions
          (gasOog g (cost item.trigger.id)) = r at hra hspec
        obtain ⟨s', rest, hp, hw', hql, hids, hacts, hlen, hnx, htr, hln, hsum, hgl, hrep, hbl, _⟩ :=
          processLoop_spec cost n (gc + g) r.2.2 hra.1
        rw [hp]
        have hq2 : qList r.2.2 = qList (removeGasLimit (dequeue s) item.trigger.id) := hra.2.qList
        have hnotreg : s.triggers item.trigger.id = none := (hw.q item hmem).1
        refine ⟨s', _ :: rest, rfl, hw', ?_, ?_, ?_, ?_, ?_, ?_, by simp; omega, ?_, ?_, ?_, ?_, by simp⟩
        · rw [hl]; simp only [List.length_cons, List.take_succ_cons, List.cons_append, List.cons.injEq,
            true_and]
          rw [← hq2]; exact hql
        · rw [hl]; simp only [List.map_cons, List.length_cons, List.take_succ_cons, List.cons.injEq,
            true_and]
          rw [← hq2]; exact hids
        · rw [hl]; simp only [List.map_cons, List.length_cons, List.take_succ_cons, List.cons.injEq,
            true_and]
          rw [← hq2]; exact hacts
        · rw [hl]; simp only [List.length_cons]; rw [← hq2]; omega
        · rw [hnx, hra.2.nextId]; exact hnext
        · intro id
          rcases htr id with h | h
          · rcases hra.2.trig id with h' | h'
            · left; rw [h, h']; rfl
            · right; rw [h, h']
          · exact Or.inr h
        · intro _
          simp only [List.map_cons, List.sum_cons]
          by_cases hre : rest = []
          · subst hre; simp; omega
          · have := hsum hre; omega
        · intro x hx
          rcases List.mem_cons.1 hx with e | hx
          · subst e; exact hg
          · have := hgl x hx
            -- the id of a later executed trigger is still queued after the first dequeue
            have hxq : x.id ∈ qIds (removeGasLimit (dequeue s) item.trigger.id) := by
              have : x.id ∈ rest.map (·.id) := List.mem_map.2 ⟨x, hx, rfl⟩
              rw [hids, hq2] at this
              obtain ⟨y, hy, e⟩ := List.mem_map.1 this
              exact List.mem_map.2 ⟨y, List.mem_of_mem_take hy, e⟩
            have hne : x.id ≠ item.trigger.id := by
              have hnd := hw.qNodup
              rw [qIds_cons_of_qList hl, List.nodup_cons] at hnd
              intro e; rw [e] at hxq; exact hnd.1 hxq
            have hxn : (removeGasLimit (dequeue s) item.trigger.id).triggers x.id = none := by
              obtain ⟨y, hy, e⟩ := List.mem_map.1 hxq
              rw [← e]; exact (hw1.q y hy).1
            rw [hra.2.gas x.id hxn] at this
            change (if x.id = item.trigger.id then none else s.gasLimits x.id) = some x.gas at this
            rwa [if_neg hne] at this
        · rw [hrep]
          simp only [replay]
          rcases hspec with ⟨h1, h2, _, _⟩ | ⟨h1, h2, _⟩
          · simp [h1, h2]
          · simp [h1, h2]
        · rw [hbl]
          simp only [expectedBal]
          rcases hspec with ⟨h1, _, _, h4⟩ | ⟨h1, h2, _⟩
          · simp only [h1, if_true]; rw [h4]; rfl
          · simp only [h1, h2]; rfl

/-! ## the detector -/

theorem matchUntil_spec {s : State} (hw : WF s) (m term : Trigger → Option Bool) :
    ∀ (ls : List Listener) (r : List Trigger), matchUntil s m term ls = some r →
    (r.map (·.id)).Sublist (ls.map (·.id)) ∧ ∀ t ∈ r, s.triggers t.id = some t ∧ m t = some true
  | [], r, h => by simp only [matchUntil] at h; cases h; simp
  | l :: ls, r, h => by
    simp only [matchUntil, getTrigger] at h
    split at h; · cases h
    next t ht =>
    split at h
    · next hit stop hm hterm =>
      have hid := (hw.trig _ _ ht).1
      split at h
      · next rest hrest =>
        cases h
        have ih : (rest.map (·.id)).Sublist (ls.map (·.id)) ∧
            ∀ t ∈ rest, s.triggers t.id = some t ∧ m t = some true := by
          split at hrest
          · cases hrest; simp
          · exact matchUntil_spec hw m term ls rest hrest
        cases hit with
        | true =>
          simp only [if_true, List.map_cons, List.mem_cons]
          refine ⟨by rw [hid]; exact ih.1.cons_cons _, ?_⟩
          rintro t' (e | ht')
          · subst e; exact ⟨by rw [hid]; exact ht, hm⟩
          · exact ih.2 t' ht'
        | false =>
          simp only [Bool.false_eq_true, if_false, List.map_cons]
          exact ⟨ih.1.cons _, ih.2⟩
      · cases h
    · cases h

theorem txBucket_spec {s : State} (hw : WF s) (ev : AbciEvent) :
    ∀ (ls : List Listener) (seen : List Nat) (r : List Trigger) (seen' : List Nat),
    txBucket s ev seen ls = some (r, seen') →
    (r.map (·.id)).Nodup ∧ (∀ i ∈ seen, i ∈ seen') ∧
    ∀ t ∈ r, t.id ∉ seen ∧ t.id ∈ seen' ∧ s.triggers t.id = some t ∧
      ∃ n a, t.event = .tx n a ∧ txMatches n a ev = true
  | [], seen, r, seen', h => by simp only [txBucket] at h; cases h; simp
  | l :: ls, seen, r, seen', h => by
    simp only [txBucket, getTrigger] at h
    split at h; · cases h
    next t ht =>
    have hid := (hw.trig _ _ ht).1
    split at h
    · exact txBucket_spec hw ev ls seen r seen' h
    · next hseen =>
      have hseen' : t.id ∉ seen := by simpa using hseen
      split at h
      · next name attrs hev =>
        split at h
        · next rest seen2 hrest =>
          cases h
          obtain ⟨ih1, ih2, ih3⟩ := txBucket_spec hw ev ls (t.id :: seen) rest seen' hrest
          have hsub : ∀ i ∈ seen, i ∈ seen' := fun i hi => ih2 i (List.mem_cons_of_mem _ hi)
          by_cases hm : txMatches name attrs ev = true
          · simp only [hm, if_true, List.map_cons, List.nodup_cons, List.mem_cons]
            refine ⟨⟨?_, ih1⟩, hsub, ?_⟩
            · intro hmem
              obtain ⟨t', ht', e⟩ := List.mem_map.1 hmem
              exact (ih3 t' ht').1 (by rw [e]; exact List.mem_cons_self)
            · rintro t' (e | ht')
              · subst e
                exact ⟨hseen', ih2 _ List.mem_cons_self, by rw [hid]; exact ht, name, attrs, hev, hm⟩
              · obtain ⟨a, b, c, d⟩ := ih3 t' ht'
                exact ⟨fun h => a (List.mem_cons_of_mem _ h), b, c, d⟩
          · simp only [hm, Bool.false_eq_true, if_false]
            refine ⟨ih1, hsub, ?_⟩
            intro t' ht'
            obtain ⟨a, b, c, d⟩ := ih3 t' ht'
            exact ⟨fun h => a (List.mem_cons_of_mem _ h), b, c, d⟩
        · cases h
      · cases h

theorem detectTx_spec {s : State} (hw : WF s) :
    ∀ (evs : List AbciEvent) (seen : List Nat) (r : List Trigger),
    detectTransactionEvents s seen evs = some r →
    (r.map (·.id)).Nodup ∧ ∀ t ∈ r, t.id ∉ seen ∧ s.triggers t.id = some t ∧
      ∃ n a, t.event = .tx n a ∧ ∃ ev ∈ evs, txMatches n a ev = true
  | [], seen, r, h => by simp only [detectTransactionEvents] at h; cases h; simp
  | ev :: evs, seen, r, h => by
    simp only [detectTransactionEvents] at h
    split at h; · cases h
    next ts seen' hts =>
    split at h
    · next rest hrest =>
      cases h
      obtain ⟨a1, a2, a3⟩ := txBucket_spec hw ev _ seen ts seen' hts
      obtain ⟨b1, b2⟩ := detectTx_spec hw evs seen' rest hrest
      refine ⟨?_, ?_⟩
      · rw [List.map_append]
        refine List.nodup_append.2 ⟨a1, b1, ?_⟩
        intro x hx y hy e
        obtain ⟨t1, ht1, e1⟩ := List.mem_map.1 hx
        obtain ⟨t2, ht2, e2⟩ := List.mem_map.1 hy
        exact (b2 t2 ht2).1 (by rw [e2, ← e, ← e1]; exact (a3 t1 ht1).2.1)
      · intro t ht
        rcases List.mem_append.1 ht with ht | ht
        · obtain ⟨c1, _, c3, n, a, c4, c5⟩ := a3 t ht
          exact ⟨c1, c3, n, a, c4, ev, List.mem_cons_self, c5⟩
        · obtain ⟨c1, c3, n, a, c4, ev', c5, c6⟩ := b2 t ht
          exact ⟨fun h => c1 (a2 _ h), c3, n, a, c4, ev', List.mem_cons_of_mem _ c5, c6⟩
    · cases h

theorem bucket_nodup {s : State} (hw : WF s) (name : String) : ((bucket s name).map (·.id)).Nodup :=
  hw.lisNodup.sublist ((List.filter_sublist (l := s.listeners)).map _)

theorem txMatches_conditionMet {n : String} {a : List (String × String)} {evs : List AbciEvent}
    {h tm : Nat} (hm : ∃ ev ∈ evs, txMatches n a ev = true) : conditionMet (.tx n a) evs h tm = true := by
  obtain ⟨ev, hev, hm⟩ := hm
  simp only [conditionMet, List.any_eq_true]
  refine ⟨ev, hev, ?_⟩
  simp only [txMatches, attrMatches, Bool.and_eq_true, beq_iff_eq, List.all_eq_true, List.any_eq_true,
    Bool.or_eq_true] at hm ⊢
  refine ⟨hm.1.symm, fun x hx => ?_⟩
  obtain ⟨o, ho, h1, h2⟩ := hm.2 x hx
  exact ⟨o, ho, h1.symm, h2.imp id Eq.symm⟩

/-- The triggers `DetectBlockEvents` picks: pairwise distinct, registered, and each one's documented
condition is met by this block. -/
theorem detectAll_spec {s : State} (hw : WF s) {evs : List AbciEvent} {h tm : Nat} {ts : List Trigger}
    (hd : detectAll s evs h tm = some ts) :
    (ts.map (·.id)).Nodup ∧ ∀ t ∈ ts, s.triggers t.id = some t ∧ conditionMet t.event evs h tm = true := by
  unfold detectAll at hd
  split at hd
  · next a b c ha hb hc =>
    cases hd
    obtain ⟨a1, a2⟩ := detectTx_spec hw evs [] a ha
    obtain ⟨b1, b2⟩ := matchUntil_spec hw _ _ _ b hb
    obtain ⟨c1, c2⟩ := matchUntil_spec hw _ _ _ c hc
    have bn : (b.map (·.id)).Nodup := (bucket_nodup hw _).sublist b1
    have cn : (c.map (·.id)).Nodup := (bucket_nodup hw _).sublist c1
    have kindA : ∀ t ∈ a, ∃ n at', t.event = .tx n at' := fun t ht => by
      obtain ⟨_, _, n, x, e, _⟩ := a2 t ht; exact ⟨n, x, e⟩
    have kindB : ∀ t ∈ b, ∃ x, t.event = .height x ∧ x ≤ h := fun t ht => by
      have := (b2 t ht).2
      unfold heightMatch at this
      split at this
      · next x e => exact ⟨x, e, by simpa using this⟩
      · cases this
    have kindC : ∀ t ∈ c, ∃ x, t.event = .time x ∧ x ≤ tm := fun t ht => by
      have := (c2 t ht).2
      unfold timeMatch at this
      split at this
      · next x e => refine ⟨x, e, ?_⟩; have : tm = x ∨ tm > x := by simpa using this
                    omega
      · cases this
    have same : ∀ {t1 t2 : Trigger}, s.triggers t1.id = some t1 → s.triggers t2.id = some t2 →
        t1.id = t2.id → t1 = t2 := fun h1 h2 e => by rw [e, h2] at h1; exact (Option.some.inj h1).symm
    refine ⟨?_, ?_⟩
    · rw [List.map_append, List.map_append]
      refine List.nodup_append.2 ⟨List.nodup_append.2 ⟨a1, bn, ?_⟩, cn, ?_⟩
      · intro x hx y hy e
        obtain ⟨t1, ht1, e1⟩ := List.mem_map.1 hx
        obtain ⟨t2, ht2, e2⟩ := List.mem_map.1 hy
        have := same (a2 t1 ht1).2.1 (b2 t2 ht2).1 (by rw [e1, e2, e])
        subst this
        obtain ⟨n, x', e3⟩ := kindA t1 ht1
        obtain ⟨x'', e4, _⟩ := kindB t1 ht2
        rw [e3] at e4; cases e4
      · intro x hx y hy e
        obtain ⟨t2, ht2, e2⟩ := List.mem_map.1 hy
        rcases List.mem_append.1 hx with hx | hx
        · obtain ⟨t1, ht1, e1⟩ := List.mem_map.1 hx
          have := same (a2 t1 ht1).2.1 (c2 t2 ht2).1 (by rw [e1, e2, e])
          subst this
          obtain ⟨n, x', e3⟩ := kindA t1 ht1
          obtain ⟨x'', e4, _⟩ := kindC t1 ht2
          rw [e3] at e4; cases e4
        · obtain ⟨t1, ht1, e1⟩ := List.mem_map.1 hx
          have := same (b2 t1 ht1).1 (c2 t2 ht2).1 (by rw [e1, e2, e])
          subst this
          obtain ⟨x', e3, _⟩ := kindB t1 ht1
          obtain ⟨x'', e4, _⟩ := kindC t1 ht2
          rw [e3] at e4; cases e4
    · intro t ht
      rcases List.mem_append.1 ht with ht | ht
      · rcases List.mem_append.1 ht with ht | ht
        · obtain ⟨_, r, n, x, e, hm⟩ := a2 t ht
          exact ⟨r, by rw [e]; exact txMatches_conditionMet hm⟩
        · obtain ⟨x, e, hx⟩ := kindB t ht
          exact ⟨(b2 t ht).1, by rw [e]; simpa [conditionMet] using hx⟩
      · obtain ⟨x, e, hx⟩ := kindC t ht
        exact ⟨(c2 t ht).1, by rw [e]; simpa [conditionMet] using hx⟩
  · cases hd

/-- the unregister-and-queue loop over pairwise distinct registered triggers -/
theorem queueDetected_spec (height time : Nat) : ∀ (ts : List Trigger) (s : State), WF s →
    (ts.map (·.id)).Nodup → (∀ t ∈ ts, s.triggers t.id = some t) →
    let s' := queueDetected height time s ts
    WF s' ∧ qList s' = qList s ++ ts.map (fun t => ⟨t, time, height⟩) ∧ s'.nextId = s.nextId ∧
      (∀ id, s'.triggers id = if id ∈ ts.map (·.id) then none else s.triggers id) ∧
      s'.bal = s.bal ∧ s'.gasLimits = s.gasLimits
  | [], s, hw, _, _ => by simp [queueDetected, hw]
  | t :: ts, s, hw, hnd, hreg => by
    intro s'
    obtain ⟨hw1, hl1, hn1, ht1, hb1, hg1⟩ :=
      WF_queueDetected_step hw t (hreg t List.mem_cons_self) height time
    simp only [List.map_cons, List.nodup_cons] at hnd
    have hreg' : ∀ t' ∈ ts, (queueTrigger (unregisterTrigger s t) t height time).triggers t'.id = some t' := by
      intro t' ht'
      rw [ht1]
      have : t'.id ≠ t.id := fun e => hnd.1 (List.mem_map.2 ⟨t', ht', e⟩)
      rw [if_neg this]; exact hreg t' (List.mem_cons_of_mem _ ht')
    obtain ⟨hw2, hl2, hn2, ht2, hb2, hg2⟩ := queueDetected_spec height time ts _ hw1 hnd.2 hreg'
    refine ⟨hw2, ?_, hn2.trans hn1, ?_, hb2.trans hb1, hg2.trans hg1⟩
    · show qList (queueDetected height time _ ts) = _
      rw [hl2, hl1]; simp
    · intro id
      show (queueDetected height time _ ts).triggers id = _
      rw [ht2, ht1]
      simp only [List.map_cons, List.mem_cons]
      by_cases h1 : id ∈ ts.map (·.id)
      · simp [h1]
      · by_cases h2 : id = t.id
        · simp [h2]
        · simp [h1, h2]

end PvProofs.Lemmas.Trig
