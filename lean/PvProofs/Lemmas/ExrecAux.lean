/-
Helper lemmas for C13 used directly by the property theorems of `PvProofs/C13.lean`.
-/
import PvProofs.Lemmas.ExrecRun
import PvProofs.Lemmas.ExrecPaging
import PvProofs.Lemmas.ExrecScan
import Mathlib.Data.List.Perm.Subperm
import Mathlib.Data.List.Nodup

namespace PvProofs.Exrec
open PvModel.Exrec

/-- one step of a history: invariant kept, counter grows by at most one -/
theorem inv_step {st : State} {op : Op} (hinv : Inv st) (hb : (getLastOrderID st.kv).toNat + 1 < 2 ^ 64) :
    Inv (step st op) ∧ (getLastOrderID (step st op).kv).toNat ≤ (getLastOrderID st.kv).toNat + 1 ∧
      (getLastOrderID st.kv).toNat ≤ (getLastOrderID (step st op).kv).toNat := by
  unfold step
  cases h : apply st op with
  | none => exact ⟨hinv, Nat.le_succ _, Nat.le_refl _⟩
  | some pr =>
    obtain ⟨st', r⟩ := pr
    obtain ⟨hi, hr⟩ := apply_inv hinv hb h
    show Inv st' ∧ (getLastOrderID st'.kv).toNat ≤ (getLastOrderID st.kv).toNat + 1 ∧
      (getLastOrderID st.kv).toNat ≤ (getLastOrderID st'.kv).toNat
    refine ⟨hi, ?_⟩
    have h1 : (getLastOrderID st.kv + 1).toNat = (getLastOrderID st.kv).toNat + 1 := by
      rw [UInt64.toNat_add]
      have : (1 : UInt64).toNat = 1 := rfl
      rw [this]; omega
    cases r with
    | orderId id =>
      obtain ⟨rfl, h2⟩ := hr
      rw [h2, h1]; omega
    | none => simp only [ResOK] at hr; rw [hr]; omega
    | marketId m => simp only [ResOK] at hr; rw [hr]; omega

theorem lastOrderID_init : getLastOrderID init.kv = 0 := rfl

/-- the (id, type byte) pairs a scan yields, traced back to the scanned entries -/
theorem mem_iterateOrderIndexPreFix {s : Store} {pre : Bytes} {id : UInt64} {b : Nat} :
    (id, b) ∈ iterateOrderIndexPreFix s pre ↔
      ∃ e ∈ prefixStore s pre, e.2 = .tbyte b ∧ parseIndexKeySuffixOrderID e.1 = some id := by
  unfold iterateOrderIndexPreFix
  rw [List.mem_filterMap]
  constructor
  · rintro ⟨e, he, hf⟩
    refine ⟨e, he, ?_⟩
    split at hf
    · next b' id' hv hp => cases hf; exact ⟨hv, hp⟩
    · cases hf
  · rintro ⟨e, he, hv, hp⟩
    exact ⟨e, he, by rw [hv, hp]⟩

/-- every entry a scan of an order-index prefix meets is an index entry of a live order -/
theorem scan_entry_live {s : Store} (hinv : IndexInv s) {pre : Bytes} {e : Entry} (he : e ∈ prefixStore s pre)
    (hidx : isOrderIndexKey (pre ++ e.1) = true) :
    ∃ o, s.get (keyOrder o.id) = some (.order o) ∧ (pre ++ e.1, e.2) ∈ orderIndexEntries o := by
  have hh := (indexInvF_iff.mp hinv).1
  obtain ⟨id, o, ho, hm⟩ := hh.no_dangling _ _ hidx ((mem_prefixStore s pre e).mp he)
  have := hh.record_id ho
  subst this
  exact ⟨o, ho, hm⟩

/-- each lookup lists an order at most once: the ids a scan of an order-index prefix yields are
pairwise different -/
theorem lookup_ids_nodup_preFix {s : Store} (hinv : IndexInv s) (pre : Bytes)
    (hidx : ∀ t, isOrderIndexKey (pre ++ t) = true) (hpre : pre.head? ≠ some 9) :
    ((iterateOrderIndexPreFix s pre).map (·.1)).Nodup := by
  unfold iterateOrderIndexPreFix
  rw [List.Nodup, List.pairwise_map]
  have hs := sorted_prefixStore s pre
  have hs' : (prefixStore s pre).Pairwise (fun a b => a ∈ prefixStore s pre ∧ b ∈ prefixStore s pre ∧ a.1 ≠ b.1) := by
    have : (prefixStore s pre).Pairwise (fun a b => a.1 ≠ b.1) :=
      hs.imp (fun hlt e => by rw [e, bytesLt_irrefl] at hlt; cases hlt)
    exact List.Pairwise.and_mem.mp this |>.imp (fun h => h)
  refine List.Pairwise.filterMap _ ?_ hs'
  intro a a' ⟨ha, ha', hne⟩ x hx x' hx' hxx
  -- both entries belong to live orders and yield the same id: the same key
  have key_of : ∀ (e : Entry) (y : UInt64 × Nat), e ∈ prefixStore s pre →
      (match e.2, parseIndexKeySuffixOrderID e.1 with
        | .tbyte b, some id => some (id, b)
        | _, _ => none) = some y →
      ∃ o, s.get (keyOrder o.id) = some (.order o) ∧ (pre ++ e.1, e.2) ∈ orderIndexEntries o ∧ y.1 = o.id := by
    intro e y he hy
    obtain ⟨o, ho, hm⟩ := scan_entry_live hinv he (hidx _)
    refine ⟨o, ho, hm, ?_⟩
    split at hy
    · next b id hv hp =>
      cases hy
      simp only
      rcases mem_orderIndexEntries.mp hm with hq | hq | hq | ⟨_, hq⟩
      · simp only [Prod.mk.injEq] at hq
        have : parseIndexKeySuffixOrderID (pre ++ e.1) = some o.id := by
          rw [hq.1]; exact parseIndexKeySuffixOrderID_append (3 :: u32Bz o.market) o.id
        exact parse_suffix_eq hp this
      · simp only [Prod.mk.injEq] at hq
        have : parseIndexKeySuffixOrderID (pre ++ e.1) = some o.id := by
          rw [hq.1]; exact parseIndexKeySuffixOrderID_append (4 :: lengthPrefix o.owner) o.id
        exact parse_suffix_eq hp this
      · simp only [Prod.mk.injEq] at hq
        have : parseIndexKeySuffixOrderID (pre ++ e.1) = some o.id := by
          rw [hq.1]; exact parseIndexKeySuffixOrderID_append (5 :: o.assetDenom) o.id
        exact parse_suffix_eq hp this
      · exfalso
        simp only [Prod.mk.injEq] at hq
        have := congrArg List.head? hq.1
        cases pre with
        | nil => exact absurd (hidx []) (by simp [isOrderIndexKey])
        | cons p0 pr => simp [idxMarketExternalIDToOrder] at this; exact hpre (by simp [this])
    · cases hy
  obtain ⟨o, ho, hm, hi⟩ := key_of a x ha hx
  obtain ⟨o', ho', hm', hi'⟩ := key_of a' x' ha' hx'
  have hoo : o.id = o'.id := by rw [← hi, ← hi', hxx]
  have heq : o = o' := by
    rw [hoo] at ho; rw [ho] at ho'; cases ho'; rfl
  subst heq
  -- same order, same index family (same prefix head): same key
  apply hne
  obtain ⟨p0, pr, rfl⟩ : ∃ p0 pr, pre = p0 :: pr := by
    cases pre with
    | nil => exact absurd (hidx []) (by simp [isOrderIndexKey])
    | cons p0 pr => exact ⟨p0, pr, rfl⟩
  have hkey : (p0 :: pr) ++ a.1 = (p0 :: pr) ++ a'.1 := by
    rcases mem_orderIndexEntries.mp hm with hq | hq | hq | ⟨_, hq⟩ <;>
    rcases mem_orderIndexEntries.mp hm' with hq' | hq' | hq' | ⟨_, hq'⟩ <;>
    simp only [Prod.mk.injEq] at hq hq' <;>
    first
    | (rw [hq.1, hq'.1]; done)
    | (exfalso
       have h1 := hq.1
       have h2 := hq'.1
       simp only [idxMarketToOrder, idxAddressToOrder, idxAssetToOrder, idxMarketExternalIDToOrder,
         List.cons_append, List.cons.injEq] at h1 h2
       omega)
  exact List.append_cancel_left hkey

/-- the current scan is the historical one restricted to the entries with an 8-byte suffix -/
theorem mem_iterateOrderIndex {s : Store} {pre : Bytes} {id : UInt64} {b : Nat} :
    (id, b) ∈ iterateOrderIndex s pre ↔
      ∃ e ∈ prefixStore s pre, e.1.length = 8 ∧ e.2 = .tbyte b ∧ parseIndexKeySuffixOrderID e.1 = some id := by
  unfold iterateOrderIndex
  rw [List.mem_filterMap]
  constructor
  · rintro ⟨e, he, hf⟩
    obtain ⟨he1, he2⟩ := List.mem_filter.mp he
    refine ⟨e, he1, by simpa using he2, ?_⟩
    split at hf
    · next b' id' hv hp => cases hf; exact ⟨hv, hp⟩
    · cases hf
  · rintro ⟨e, he, h8, hv, hp⟩
    exact ⟨e, List.mem_filter.mpr ⟨he, by simpa using h8⟩, by rw [hv, hp]⟩

theorem lookup_ids_nodup {s : Store} (hinv : IndexInv s) (pre : Bytes)
    (hidx : ∀ t, isOrderIndexKey (pre ++ t) = true) (hpre : pre.head? ≠ some 9) :
    ((iterateOrderIndex s pre).map (·.1)).Nodup := by
  refine List.Nodup.sublist ?_ (lookup_ids_nodup_preFix hinv pre hidx hpre)
  unfold iterateOrderIndex iterateOrderIndexPreFix
  exact (List.Sublist.filterMap _ (List.filter_sublist)).map _

theorem firstIter_length_le (ps : List Entry) (rev : Bool) (after : UInt64) : (firstIter ps rev after).length ≤ ps.length := by
  unfold firstIter iter
  split_ifs
  · rw [List.length_reverse]; exact List.length_filter_le _ _
  · exact List.length_filter_le _ _

theorem sdkKeyLoop_all (limit : Nat) : ∀ (L : List Entry) (n : Nat) (acc : List Entry),
    sdkKeyLoop (fun _ => true) limit L n acc = keyLoop (fun _ => true) limit L n acc
  | [], _, _ => rfl
  | e :: r, n, acc => by
    unfold sdkKeyLoop keyLoop
    by_cases h : n = limit
    · simp [h]
    · simp only [h, ↓reduceIte]
      exact sdkKeyLoop_all limit r (n + 1) (acc ++ [e])

/-- the loop either stops at an id that is not known, or every id it looked at is known -/
theorem nextMarketIDLoop_spec (s : Store) : ∀ (fuel : Nat) (m : UInt32),
    s.has (keyKnownMarketID (nextMarketIDLoop s fuel m)) = false ∨
    ∀ i, i < fuel → s.has (keyKnownMarketID (m + UInt32.ofNat i)) = true
  | 0, m => Or.inr (fun i hi => absurd hi (Nat.not_lt_zero i))
  | fuel + 1, m => by
    unfold nextMarketIDLoop
    by_cases h : s.has (keyKnownMarketID m) = true
    · rw [if_pos h]
      rcases nextMarketIDLoop_spec s fuel (m + 1) with h' | h'
      · exact Or.inl h'
      · refine Or.inr (fun i hi => ?_)
        cases i with
        | zero => simpa using h
        | succ j =>
          have := h' j (by omega)
          have e : m + 1 + UInt32.ofNat j = m + UInt32.ofNat (j + 1) := by
            apply UInt32.toNat_inj.mp
            simp only [UInt32.toNat_add, UInt32.toNat_ofNat', UInt32.toNat_one]
            omega
          rw [← e]; exact this
    · rw [if_neg h]
      exact Or.inl (by simpa using h)

end PvProofs.Exrec
