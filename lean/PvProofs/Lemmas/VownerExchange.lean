/-
Helper lemmas for C09: the exchange route (ask order on a scope token, its hold, FillAsks,
CancelOrder).
-/
import PvProofs.Lemmas.VownerMsgs

namespace PvProofs.VownerL
open PvModel PvModel.Ledger PvModel.Vowner

/-- moving an amount of ONE other denom does not touch the token of `d` -/
theorem holderIs_move_other {l : Ledger} {a b : Addr} {c : Denom} {n : Int} {d : Denom} {o : Option Addr}
    (hne : ¬ c = d) (h : HolderIs l d o) : HolderIs (l.move a b [(c, n)]) d o := by
  refine ⟨?_, fun x => ?_⟩
  · rw [supply_move]; exact h.1
  · rw [bal_move]; simp [Coins.amountOf_cons, hne, h.2 x]

theorem priceDenom_not_scope : isScopeDenom priceDenom = false := by decide

theorem findOrder_some {s : State} {oid : Nat} {o : Order} (h : findOrder s oid = some o) :
    o ∈ s.orders ∧ o.id = oid := by
  unfold findOrder at h
  exact ⟨List.mem_of_find?_eq_some h, by simpa using List.find?_some h⟩

/-- what a successful MsgCreateAsk does: nothing moves; the seller could SPEND the token (it holds
it and it is not on hold for another order); the order and the hold are recorded -/
theorem createAsk_spec {s s' : State} {seller : Addr} {asset : Denom} {price : Nat}
    (h : createAsk s seller asset price = .ok s') :
    s'.ledger = s.ledger ∧ s'.scopes = s.scopes ∧ s'.grants = s.grants ∧
    isScopeDenom asset = true ∧ seller ≠ "" ∧ spendable s seller [asset] = true ∧
    s'.orders = s.orders ++ [⟨s.lastOrder + 1, seller, asset, price⟩] ∧
    s'.holds = (seller, asset) :: s.holds := by
  unfold createAsk at h
  split at h
  · simp at h
  · rename_i hvalid
    simp only [Bool.or_eq_true, decide_eq_true_eq, not_or, Bool.not_eq_true', Bool.not_eq_false] at hvalid
    split at h
    · simp at h
    · rename_i hsp
      simp at h; subst h
      exact ⟨rfl, rfl, rfl, by simpa using hvalid.2, hvalid.1.1, by simpa using hsp, rfl, rfl⟩

/-- what a successful MsgCancelOrder does: nothing moves; the signer is the order's seller -/
theorem cancelOrder_spec {s s' : State} {signer : Addr} {oid : Nat}
    (h : cancelOrder s signer oid = .ok s') :
    s'.ledger = s.ledger ∧ s'.scopes = s.scopes ∧ s'.grants = s.grants ∧
    ∃ o, findOrder s oid = some o ∧ signer = o.seller ∧
      s'.orders = s.orders.filter (·.id ≠ oid) ∧ s'.holds = s.holds.erase (o.seller, o.asset) := by
  unfold cancelOrder at h
  split at h
  · simp at h
  · cases ho : findOrder s oid with
    | none => rw [ho] at h; simp at h
    | some o =>
      rw [ho] at h; simp only at h
      split at h
      · simp at h
      · rename_i hs
        simp only [Except.ok.injEq] at h; subst h
        exact ⟨rfl, rfl, rfl, o, rfl, by simpa using hs, rfl, rfl⟩

/-- a bank send does not look at the holds of anybody but through `spendable`; with a hold list
replaced, a successful send still yields the same ledger move -/
theorem hasScope_of_scopes {s s' : State} (h : s'.scopes = s.scopes) (d : ScopeId) : hasScope s' d = hasScope s d :=
  hasScope_congr h d

/-- **fill_step** — a successful MsgFillAsks of order `oid` by `buyer`: the order existed, the buyer
is not its seller and not a marker; exactly the order's asset token moves, from the seller (who
held it) to the buyer; the invariant is kept; the step is a `GoodStep` of kind `fill oid`. -/
theorem fill_step {s s' : State} {buyer : Addr} {oid price : Nat} (hinv : Inv s)
    (h : fillAsk s buyer oid price = .ok s') :
    Inv s' ∧ GoodStep s (.fill oid) [buyer] s' ∧ (∀ d, supply s'.ledger d = supply s.ledger d) ∧
    s'.grants = s.grants ∧ s'.scopes = s.scopes ∧
    ∃ o, findOrder s oid = some o ∧ o.seller ≠ buyer ∧ o.price = price ∧ findMarker s buyer = none ∧
      (isScopeDenom o.asset = true → HolderIs s.ledger o.asset (some o.seller)) ∧
      (∀ d, isScopeDenom d = true → ∀ o0, HolderIs s.ledger d o0 →
        HolderIs s'.ledger d (if d = o.asset then some buyer else o0)) ∧
      s'.orders = s.orders.filter (·.id ≠ oid) ∧ s'.holds = s.holds.erase (o.seller, o.asset) := by
  unfold fillAsk at h
  split at h
  · simp at h
  · rename_i hvalid
    simp only [Bool.or_eq_true, decide_eq_true_eq, not_or] at hvalid
    have hbuyer : buyer ≠ "" := hvalid.1.1
    cases hfo : findOrder s oid with
    | none => rw [hfo] at h; simp at h
    | some o =>
      rw [hfo] at h; simp only at h
      split at h
      · simp at h
      · rename_i hself
        split at h
        · simp at h
        · rename_i hprice
          split at h
          · simp at h
          · cases hsc : sendCoins { s with holds := s.holds.erase (o.seller, o.asset) } [] o.seller buyer [o.asset] with
            | error e => rw [hsc] at h; simp at h
            | ok s2 =>
              rw [hsc] at h; simp only at h
              split at h
              · simp at h
              · split at h
                · simp at h
                · split at h
                  · simp at h
                  · rename_i hwd
                    split at h
                    · simp at h
                    · simp only [Except.ok.injEq] at h
                      obtain ⟨hf, _, _, hs2⟩ := sendCoins_ok hsc
                      have hfr := sendCoins_frame hsc
                      -- the buyer pays out of its own account without transfer agents: it is not a marker
                      have hwd' : withdrawOk s [] buyer = true := by
                        have : withdrawOk s2 [] buyer = true := by simpa using hwd
                        rw [← this]; exact (withdrawOk_congr hfr.markers _ _).symm
                      have hnm : findMarker s buyer = none := by
                        unfold withdrawOk at hwd'
                        cases hm : findMarker s buyer with
                        | none => rfl
                        | some m => rw [hm] at hwd'; simp at hwd'
                      have hmove : ∀ d, isScopeDenom d = true → ∀ o0, HolderIs s.ledger d o0 →
                          (d = o.asset → o0 = some o.seller) ∧
                          HolderIs s'.ledger d (if d = o.asset then some buyer else o0) := by
                        intro d hdd o0 ho0
                        have hne : ¬ priceDenom = d := fun e => by
                          rw [← e, priceDenom_not_scope] at hdd; cases hdd
                        obtain ⟨hsrc, hfin⟩ := sendCoins_holder (nodup_single o.asset) hsc (d := d) (o := o0) ho0
                        subst h
                        simp only [List.mem_singleton] at hsrc hfin
                        exact ⟨hsrc, holderIs_move_other hne hfin⟩
                      have hscopes : s'.scopes = s.scopes := by subst h; exact hfr.scopes
                      refine ⟨?_, ?_, ?_, ?_, hscopes, o, rfl, hself, by simpa using hprice, hnm, ?_, ?_, ?_, ?_⟩
                      · intro d hdd
                        obtain ⟨o0, ho0, hne0, hsc0⟩ := hinv d hdd
                        obtain ⟨hsrc, hfin⟩ := hmove d hdd o0 ho0
                        by_cases hd : d = o.asset
                        · subst hd
                          rw [if_pos rfl] at hfin
                          refine ⟨some buyer, hfin, fun e => hbuyer (by injection e), fun _ => ?_⟩
                          rw [hasScope_congr hscopes]
                          exact hsc0 (by rw [hsrc rfl]; rfl)
                        · simp only [hd, if_false] at hfin
                          exact ⟨o0, hfin, hne0, fun hso => by rw [hasScope_congr hscopes]; exact hsc0 hso⟩
                      · intro d hdd o0 o' ho0 ho' hne
                        obtain ⟨hsrc, hfin⟩ := hmove d hdd o0 ho0
                        by_cases hd : d = o.asset
                        · subst hd
                          rw [if_pos rfl] at hfin
                          have : o' = some buyer := holderIs_unique ho' hfin
                          subst this
                          have := hsrc rfl; subst this
                          refine ⟨fun x hx => ?_, fun x hx => ?_⟩
                          · injection hx with hx; subst hx
                            exact ⟨o, (findOrder_some hfo).1, (findOrder_some hfo).2, rfl⟩
                          · injection hx with hx; subst hx
                            intro m hm; rw [hnm] at hm; cases hm
                        · simp only [hd, if_false] at hfin
                          exact absurd (holderIs_unique hfin ho') hne
                      · intro d
                        subst h; subst hs2
                        simp [supply_move]
                      · subst h; exact hfr.grants
                      · intro hsd
                        obtain ⟨o0, ho0, _, _⟩ := hinv o.asset hsd
                        have := (hmove o.asset hsd o0 ho0).1 rfl
                        rw [this] at ho0; exact ho0
                      · intro d hdd o0 ho0
                        exact (hmove d hdd o0 ho0).2
                      · subst h; subst hs2; rfl
                      · subst h; subst hs2; rfl

end PvProofs.VownerL
