/-
Helper lemmas for C17: the trigger's gas meter.  All actions of a trigger run on ONE meter of the
stored (prepaid) limit, so what the completed actions consume together stays within that limit, and
a trigger whose actions together need more fails as a whole.
-/
import PvProofs.Lemmas.TrigMisc

namespace PvProofs.Lemmas.Trig
open PvModel.Trig

theorem prefixCost_succ (cost : Nat → Nat) (n : Nat) :
    prefixCost cost (n + 1) = prefixCost cost n + cost n := rfl

theorem gasOog_false {limit : Nat} {cost : Nat → Nat} {i : Nat} (h : ¬ gasOog limit cost i = true) :
    prefixCost cost i + cost i ≤ limit := by
  unfold gasOog at h
  rw [prefixCost_succ] at h
  exact Nat.le_of_not_lt (fun hlt => h (decide_eq_true hlt))

/-- On the shared meter: started with `prefixCost cost i ≤ limit` consumed, the actions that run to
their end (everything but an action cut off by the meter) keep the consumption within the limit. -/
theorem handleMsgs_gas (limit : Nat) (cost : Nat → Nat) : ∀ (acts : List Action) (s : State) (i : Nat),
    prefixCost cost i ≤ limit →
    prefixCost cost i + completedCost cost (handleMsgs (gasOog limit cost) s acts i).1 i ≤ limit
  | [], s, i, h => by simpa [handleMsgs, completedCost] using h
  | a :: rest, s, i, h => by
    simp only [handleMsgs]
    split
    · simpa [completedCost] using h
    · next hoog =>
      have hle := gasOog_false hoog
      split
      · next s' hs =>
        have := handleMsgs_gas limit cost rest s' (i + 1) (by rw [prefixCost_succ]; exact hle)
        rw [prefixCost_succ] at this
        simp only [completedCost, reduceCtorEq, if_false]
        omega
      · simp only [completedCost, reduceCtorEq, if_false]; omega
      · simp only [completedCost, reduceCtorEq, if_false]; omega

/-- If all actions succeeded, all of them together fit the limit. -/
theorem handleMsgs_some_gas (limit : Nat) (cost : Nat → Nat) : ∀ (acts : List Action) (s c : State) (i : Nat),
    prefixCost cost i ≤ limit → (handleMsgs (gasOog limit cost) s acts i).2 = some c →
    prefixCost cost (i + acts.length) ≤ limit
  | [], s, c, i, h, _ => by simpa using h
  | a :: rest, s, c, i, h, hs => by
    simp only [handleMsgs] at hs
    split at hs; · cases hs
    next hoog =>
    have hle := gasOog_false hoog
    split at hs
    · next s' _ =>
      have := handleMsgs_some_gas limit cost rest s' c (i + 1) (by rw [prefixCost_succ]; exact hle) hs
      simpa [Nat.add_assoc, Nat.add_comm 1] using this
    · cases hs
    · cases hs

/-- `runActions` on a meter of `limit`: the completed actions consumed at most `limit`; success means
all actions together fit. -/
theorem runActions_gas (s : State) (acts : List Action) (limit : Nat) (cost : Nat → Nat) :
    completedCost cost (runActions s acts (gasOog limit cost)).2.1 0 ≤ limit ∧
    ((runActions s acts (gasOog limit cost)).1 = true → prefixCost cost acts.length ≤ limit) := by
  have h1 := handleMsgs_gas limit cost acts s 0 (by simp [prefixCost])
  have h2 := fun c => handleMsgs_some_gas limit cost acts s c 0 (by simp [prefixCost])
  simp only [prefixCost, Nat.zero_add] at h1 h2
  unfold runActions
  split
  · next os c hc =>
    rw [hc] at h1
    exact ⟨h1, fun _ => h2 c (by rw [hc])⟩
  · next os hc =>
    rw [hc] at h1
    exact ⟨h1, fun h => by cases h⟩

/-- Every trigger a BeginBlock runs, on any store: its completed actions consumed at most the gas
limit it was run with, and it succeeded only if all its actions together fit that limit. -/
theorem processLoop_gas (cost : Nat → Nat → Nat) : ∀ (n gc : Nat) (s s' : State) (xs : List Exec),
    processLoop cost n gc s = some (s', xs) →
    ∀ x ∈ xs, completedCost (cost x.id) x.outcomes 0 ≤ x.gas ∧
      (x.success = true → prefixCost (cost x.id) x.actions.length ≤ x.gas)
  | 0, gc, s, s', xs, h => by simp only [processLoop] at h; cases h; simp
  | n + 1, gc, s, s', xs, h => by
    unfold processLoop at h
    split at h; · cases h; simp
    split at h; · cases h
    dsimp only at h
    split at h; · cases h
    next g hg =>
    split at h; · cases h; simp
    next hcap =>
    split at h
    · next s2 rest hp =>
      have ih := processLoop_gas cost n (gc + g) _ s2 rest hp
      cases h
      intro x hx
      rcases List.mem_cons.1 hx with e | hx
      · subst e
        exact runActions_gas _ _ g (cost _)
      · exact ih x hx
    · cases h

end PvProofs.Lemmas.Trig
