/-
Helper lemmas for C01: the filled-order lists (`zipFilled`, `populateFilled`), the seller fee
(`askFeesToPay`), the exchange's share (`exchangeSplit`).
-/
import PvProofs.Lemmas.SettlePlan
import PvProofs.C19

namespace PvProofs.Settle
open PvModel PvModel.Settle PvModel.Coins PvModel.Ledger

theorem sumIdx_neg (f : Nat → Order → Int) (i : Nat) (os : List Order) :
    sumIdx (fun k o => - f k o) i os = - sumIdx f i os := by
  induction os generalizing i with
  | nil => simp [sumIdx]
  | cons o rest ih => simp only [sumIdx, ih]; omega

theorem sumIdx_map (g : Order → Int) (i : Nat) (os : List Order) :
    sumIdx (fun _ o => g o) i os = (os.map g).sum := by
  induction os generalizing i with
  | nil => simp [sumIdx]
  | cons o rest ih => simp [sumIdx, ih]

theorem sumIdx_le {f g : Nat → Order → Int} {i : Nat} {os : List Order}
    (h : ∀ k o, os[k]? = some o → f (i + k) o ≤ g (i + k) o) : sumIdx f i os ≤ sumIdx g i os := by
  induction os generalizing i with
  | nil => simp [sumIdx]
  | cons o rest ih =>
    simp only [sumIdx]
    have h0 := h 0 o (by simp)
    simp only [Nat.add_zero] at h0
    have := @ih (i + 1) (fun k o' hk => by
      have := h (k + 1) o' (by simpa using hk)
      rwa [show i + (k + 1) = i + 1 + k by omega] at this)
    omega

/-! ### zipFilled -/

theorem zipFilled_mem {os : List Order} {applied : Nat → Int} {fees : List Coins} {i : Nat} {fo : FilledOrder}
    (h : fo ∈ zipFilled os applied fees i) :
    ∃ k o, os[k]? = some o ∧ fo.order = o ∧ fo.actualPrice = applied (i + k) ∧ fees[k]? = some fo.actualFees := by
  induction os generalizing fees i with
  | nil => simp [zipFilled] at h
  | cons o rest ih =>
    cases fees with
    | nil => simp [zipFilled] at h
    | cons f fs =>
      simp only [zipFilled, List.mem_cons] at h
      rcases h with rfl | h
      · exact ⟨0, o, by simp, rfl, rfl, by simp⟩
      · obtain ⟨k, o', h1, h2, h3, h4⟩ := ih h
        exact ⟨k + 1, o', by simpa using h1, h2, by rw [h3]; congr 1; omega, by simpa using h4⟩

theorem zipFilled_map_order (os : List Order) (applied : Nat → Int) (fees : List Coins) (i : Nat)
    (hl : fees.length = os.length) : (zipFilled os applied fees i).map (·.order) = os := by
  induction os generalizing fees i with
  | nil => simp [zipFilled]
  | cons o rest ih =>
    cases fees with
    | nil => simp at hl
    | cons f fs =>
      simp only [List.length_cons, Nat.add_right_cancel_iff] at hl
      simp [zipFilled, ih fs (i + 1) hl]

/-! ### populateFilled: moving the partial order out does not change any sum -/

theorem filter_length_le_one {α β : Type} [DecidableEq β] (f : α → β) (v : β) (l : List α) (h : (l.map f).Nodup) :
    (l.filter (fun x => f x = v)).length ≤ 1 := by
  induction l with
  | nil => simp
  | cons a t ih =>
    simp only [List.map_cons, List.nodup_cons] at h
    rw [List.filter_cons]
    by_cases hv : f a = v
    · simp only [hv, decide_true, if_true, List.length_cons]
      have : t.filter (fun x => f x = v) = [] := by
        rw [List.filter_eq_nil_iff]
        intro x hx hxv
        simp only [decide_eq_true_eq] at hxv
        exact h.1 (by rw [hv, ← hxv]; exact List.mem_map_of_mem hx)
      simp [this]
    · simp only [hv, decide_false, Bool.false_eq_true, if_false]
      exact ih h.2

theorem getLast?_toList_of_length_le_one {α : Type} (l : List α) (h : l.length ≤ 1) : l.getLast?.toList = l := by
  match l with
  | [] => rfl
  | [a] => rfl
  | _ :: _ :: _ => simp at h

theorem sum_filter_split {α : Type} (l : List α) (p : α → Bool) (g : α → Int) :
    ((l.filter (fun x => !p x)).map g).sum + ((l.filter p).map g).sum = (l.map g).sum := by
  induction l with
  | nil => simp
  | cons a t ih =>
    rw [List.filter_cons, List.filter_cons]
    by_cases hp : p a <;> simp [hp] <;> omega

/-- `populateFilled` only reorders: the fully filled orders followed by the partially filled one are
the same orders (so every sum over them is the same), provided order ids are distinct. -/
theorem populateFilled_sum (fos : List FilledOrder) (left : Option Order) (ff : List FilledOrder)
    (pf : Option FilledOrder) (h : (ff, pf) = populateFilled fos left)
    (hn : (fos.map (·.order.id)).Nodup) (g : FilledOrder → Int) :
    ((ff ++ pf.toList).map g).sum = (fos.map g).sum := by
  unfold populateFilled at h
  cases left with
  | none =>
    simp only [Prod.mk.injEq] at h
    obtain ⟨rfl, rfl⟩ := h
    simp
  | some l =>
    simp only [Prod.mk.injEq] at h
    obtain ⟨rfl, rfl⟩ := h
    rw [getLast?_toList_of_length_le_one _ (filter_length_le_one (·.order.id) l.id fos hn)]
    have := sum_filter_split fos (fun f => decide (f.order.id = l.id)) g
    have e : fos.filter (fun f => decide (f.order.id ≠ l.id)) = fos.filter (fun f => !decide (f.order.id = l.id)) := by
      congr 1; funext f; simp
    simp only [List.map_append, List.sum_append]
    rw [← this, e]

/-! ### the seller's fees -/

/-- `FeesToPay` of ask `k`: its flat fee plus (if the market has a ratio) the ratio fee of what it
receives. -/
theorem askFeesToPay_spec {r : Option Ratio} {applied : Nat → Int} {i : Nat} {os : List Order} {fs : List Coins}
    (h : askFeesToPay r applied i os = .ok fs) :
    ∀ k o, os[k]? = some o →
      match r with
      | none => fs[k]? = some o.fees
      | some r' => ∃ amt, ratioFee r' o.priceDenom (applied (i + k)) = .ok (r'.feeDenom, amt) ∧
          fs[k]? = some (o.fees ++ [(r'.feeDenom, amt)]) := by
  induction os generalizing i fs with
  | nil => intro k o hk; simp at hk
  | cons o rest ih =>
    intro k o' hk
    simp only [askFeesToPay] at h
    split at h
    · split at h; · simp at h
      rename_i fs' hrec
      simp only [Except.ok.injEq] at h; subst h
      cases k with
      | zero => simp at hk; subst hk; simp
      | succ k =>
        have := ih hrec k o' (by simpa using hk)
        simpa using this
    · rename_i r'
      split at h; · simp at h
      rename_i fee hfee
      split at h; · simp at h
      rename_i fs' hrec
      simp only [Except.ok.injEq] at h; subst h
      cases k with
      | zero =>
        simp at hk; subst hk
        have hd : fee.1 = r'.feeDenom := by
          unfold ratioFee at hfee
          split at hfee; · simp at hfee
          split at hfee <;> simp at hfee
          rw [← hfee]
        refine ⟨fee.2, ?_, ?_⟩
        · simp only [Nat.add_zero]; rw [hfee, ← hd]
        · simp [← hd]
      | succ k =>
        have := ih hrec k o' (by simpa using hk)
        simp only at this
        obtain ⟨amt, h1, h2⟩ := this
        exact ⟨amt, by rw [show i + (k + 1) = i + 1 + k by omega]; exact h1, by simpa using h2⟩

/-- the ratio fee is `⌈applied·fee/price⌉` in the ratio's fee denom -/
theorem ratioFee_is_ceil {r : Ratio} {pd : Denom} {applied amt : Int} {fd : Denom}
    (h : ratioFee r pd applied = .ok (fd, amt)) (ha : 0 ≤ applied) (hrp : 0 < r.priceAmt) (hrf : 0 ≤ r.feeAmt) :
    fd = r.feeDenom ∧ r.priceDenom = pd ∧ Fees.IsCeilDiv (applied * r.feeAmt) r.priceAmt amt := by
  unfold ratioFee at h
  split at h; · simp at h
  rename_i hd
  simp only [ne_eq, Decidable.not_not] at hd
  split at h
  · simp at h
  · simp at h
  · rename_i amt' rounded happ
    simp only [Except.ok.injEq, Prod.mk.injEq] at h
    obtain ⟨rfl, rfl⟩ := h
    refine ⟨rfl, hd, ?_⟩
    by_cases hfit : fits256 (Fees.ceilDiv (applied * r.feeAmt) r.priceAmt) = true
    · obtain ⟨a, rr, hok, hceil, _, _⟩ := PvProofs.C19.applyLoosely_is_ceil ha hrf hrp hfit
      rw [hok] at happ
      simp only [Except.ok.injEq, Prod.mk.injEq] at happ
      rw [← happ.1]; exact hceil
    · have : fits256 (Fees.ceilDiv (applied * r.feeAmt) r.priceAmt) = false := by simpa using hfit
      obtain ⟨e, he⟩ := (PvProofs.C19.applyLoosely_fails_iff ha hrf hrp).mpr this
      rw [he] at happ; cases happ

end PvProofs.Settle
