/-
C05 helper lemmas: every successful transaction-level operation satisfies `Post` at its denom.
-/
import PvProofs.Lemmas.MkrSupPost

namespace PvProofs.MkrSupL
open PvModel PvModel.MkrSup PvModel.Ledger PvProofs.LedgerSum

theorem status_le_destroyed (a : Status) : a ≤ .destroyed := by
  cases a <;> decide

theorem keeps_of_bank (s : State) (b : Bank) (d : Denom) : KeepsAlive s { s with bank := b } d := by
  intro m m' hm hm' hd
  have : s.find d = some m' := hm'
  rw [hm] at this; cases this; exact hd

theorem keeps_of_status {s s' : State} {d : Denom}
    (h : ∀ m', s'.find d = some m' → m'.status ≠ .destroyed) : KeepsAlive s s' d :=
  fun _ m' _ hm' hd => absurd hd (h m' hm')

theorem addMarkerAccount_ok {s s' : State} {m : Marker} (h : addMarkerAccount s m = .ok s') :
    s' = s.setMarker m ∧ s.find m.denom = none := by
  simp only [addMarkerAccount, bind_ok, check_ok, pure_ok] at h
  obtain ⟨_, _, _, hn, _, _, rfl⟩ := h
  exact ⟨rfl, by simpa using hn⟩

theorem addMarker_post {s s' : State} {r : AddReq} (h : addMarker s r = .ok s') : Post s s' r.denom := by
  simp only [addMarker, bind_ok, check_ok, pure_ok] at h
  obtain ⟨_, _, _, _, _, _, _, _, s1, hs1, h⟩ := h
  generalize (if r.manager ≠ "" then r.manager else if r.status ≠ Status.active then r.sender else "") = mgr at h hs1
  generalize (r.gov || !decide (r.sender = GOV) && s.enableGov) = ag at h hs1
  obtain ⟨rfl, hnone⟩ := addMarkerAccount_ok hs1
  have hmono : ∀ (m' : Marker) m, s.find r.denom = some m → m.status ≤ m'.status := by
    intro m' m hm
    have : s.find r.denom = none := hnone
    rw [this] at hm; cases hm
  have habs : ∀ m, s.find r.denom = some m → m.status = .destroyed := by
    intro m hm
    have : s.find r.denom = none := hnone
    rw [this] at hm; cases hm
  by_cases hact : (newMarkerAccount r mgr r.status ag).status = .active
  · rw [if_pos hact] at h
    simp only [bind_ok, pure_ok] at h
    obtain ⟨b, hb, rfl⟩ := h
    have hb' : adjustCirculation s.bank r.denom r.amt = .ok b := hb
    exact Post.of_set_bank rfl (hmono _) (fun d' hd' => adjust_supply_ne hb' hd') (adjust_nonneg hb') (adjust_cons hb')
      (fun _ _ _ => (adjust_supply hb').symm) (fun _ => Or.inl habs)
  · rw [if_neg hact] at h
    simp only [pure_ok] at h
    subst h
    exact Post.of_set rfl (hmono _) (fun _ ha _ => absurd ha hact) (fun _ => Or.inl habs)

theorem finalizeMarker_post {s s' : State} {c : Addr} {d : Denom} (h : finalizeMarker s c d = .ok s') :
    Post s s' d := by
  simp only [finalizeMarker, bind_ok, check_ok, pure_ok] at h
  obtain ⟨m, hm, _, _, _, hst, _, _, _, _, _, _, rfl⟩ := h
  have hm' := getMarker_ok hm
  have hst' : m.status = .proposed := by simpa using hst
  have hle : m.status ≤ Status.finalized := by rw [hst']; decide
  refine Post.of_set (m' := m.setStatus .finalized) (show m.denom = d from find_denom hm') ?_ ?_ ?_
  · intro m0 hm0
    rw [hm'] at hm0; cases hm0
    exact hle
  · intro _ ha _
    simp [Marker.setStatus] at ha
  · intro hdes
    simp [Marker.setStatus] at hdes

theorem finalizeMarker_status {s s' : State} {c : Addr} {d : Denom} (h : finalizeMarker s c d = .ok s') :
    ∀ m', s'.find d = some m' → m'.status ≠ .destroyed := by
  simp only [finalizeMarker, bind_ok, check_ok, pure_ok] at h
  obtain ⟨m, hm, _, _, _, hst, _, _, _, _, _, _, rfl⟩ := h
  have hd : m.denom = d := find_denom (getMarker_ok hm)
  intro m' hm'
  have : (s.setMarker (m.setStatus .finalized)).find d = some (m.setStatus .finalized) := by
    rw [← hd]; exact find_setMarker_self s (m.setStatus .finalized)
  rw [this] at hm'; cases hm'
  simp [Marker.setStatus]

theorem activateMarker_post {s s' : State} {c : Addr} {d : Denom} (h : activateMarker s c d = .ok s') :
    Post s s' d := by
  simp only [activateMarker, bind_ok, check_ok, pure_ok] at h
  obtain ⟨m, hm, _, _, _, hst, _, _, b, hb, _, _, rfl⟩ := h
  have hm' := getMarker_ok hm
  have hst' : m.status = .finalized := by simpa using hst
  have hle : m.status ≤ Status.active := by rw [hst']; decide
  refine Post.of_set_bank (m' := m.setStatus .active) (show m.denom = d from find_denom hm') ?_ (fun d' hd' => adjust_supply_ne hb hd') (adjust_nonneg hb) (adjust_cons hb) ?_ ?_
  · intro m0 hm0
    rw [hm'] at hm0; cases hm0
    exact hle
  · intro _ _ _
    exact (adjust_supply hb).symm
  · intro hdes
    simp [Marker.setStatus] at hdes

theorem activateMarker_status {s s' : State} {c : Addr} {d : Denom} (h : activateMarker s c d = .ok s') :
    ∀ m', s'.find d = some m' → m'.status ≠ .destroyed := by
  simp only [activateMarker, bind_ok, check_ok, pure_ok] at h
  obtain ⟨m, hm, _, _, _, hst, _, _, b, hb, _, _, rfl⟩ := h
  have hd : m.denom = d := find_denom (getMarker_ok hm)
  intro m' hm'
  have : (s.setMarker (m.setStatus .active)).find d = some (m.setStatus .active) := by
    rw [← hd]; exact find_setMarker_self s (m.setStatus .active)
  have hm'' : (s.setMarker (m.setStatus .active)).find d = some m' := hm'
  rw [this] at hm''; cases hm''
  simp [Marker.setStatus]

theorem addFinalizeActivate_post {s s' : State} {r : AddReq} (h : addFinalizeActivate s r = .ok s') :
    Post s s' r.denom := by
  simp only [addFinalizeActivate, bind_ok, check_ok, pure_ok] at h
  obtain ⟨_, _, _, _, _, _, _, _, s1, hs1, s2, hs2, h⟩ := h
  obtain ⟨rfl, hnone⟩ := addMarkerAccount_ok hs1
  have h1 : Post s (s.setMarker (newMarkerAccount r r.manager .proposed (r.gov || s.enableGov))) r.denom :=
    Post.of_set rfl (fun m hm => by
        have : s.find r.denom = none := hnone
        rw [this] at hm; cases hm)
      (fun _ ha _ => by simp [newMarkerAccount] at ha)
      (fun hdes => by simp [newMarkerAccount] at hdes)
  exact (h1.trans (finalizeMarker_post hs2) (Or.inl (keeps_of_status (finalizeMarker_status hs2)))).trans
    (activateMarker_post h) (Or.inl (keeps_of_status (activateMarker_status h)))

theorem mintCoin_post {s s' : State} {c : Addr} {d : Denom} {n : Int} (h : mintCoin s c d n = .ok s') :
    Post s s' d := by
  simp only [mintCoin, bind_ok, check_ok, pure_ok] at h
  obtain ⟨_, _, m, hm, _, _, h⟩ := h
  have hm' := getMarker_ok hm
  have hd := find_denom hm'
  split at h
  · rename_i hst
    simp only [bind_ok, pure_ok] at h
    obtain ⟨_, _, rfl⟩ := h
    refine Post.of_set hd (fun m0 hm0 => by rw [hm'] at hm0; cases hm0; exact status_le_refl _) ?_ ?_
    · intro _ ha _
      rcases hst with hst | hst <;> (rw [hst] at ha; cases ha)
    · intro hdes
      rcases hst with hst | hst <;> (rw [hst] at hdes; cases hdes)
  · split at h
    · cases h
    · subst hd
      exact (increaseSupply_spec hm' h).1

theorem burnCoin_post {s s' : State} {c : Addr} {d : Denom} {n : Int} (h : burnCoin s c d n = .ok s') :
    Post s s' d := by
  simp only [burnCoin, bind_ok, check_ok, pure_ok] at h
  obtain ⟨_, _, m, hm, _, _, h⟩ := h
  have hm' := getMarker_ok hm
  have hd := find_denom hm'
  split at h
  · rename_i hst
    simp only [bind_ok, check_ok, pure_ok] at h
    obtain ⟨_, _, _, _, rfl⟩ := h
    refine Post.of_set hd (fun m0 hm0 => by rw [hm'] at hm0; cases hm0; exact status_le_refl _) ?_ ?_
    · intro _ ha _
      rcases hst with hst | hst <;> (rw [hst] at ha; cases ha)
    · intro hdes
      rcases hst with hst | hst <;> (rw [hst] at hdes; cases hdes)
  · split at h
    · cases h
    · subst hd
      exact (decreaseSupply_spec hm' h).1

theorem withdrawCoins_post {s s' : State} {c t : Addr} {d : Denom} {cs : Coins}
    (h : withdrawCoins s c t d cs = .ok s') : Post s s' d := by
  simp only [withdrawCoins, bind_ok, check_ok, pure_ok] at h
  obtain ⟨_, _, m, _, _, _, _, _, _, _, _, _, b, hb, rfl⟩ := h
  exact Post.of_move (send_supply hb) (send_nonneg hb) (send_cons hb)

theorem transferCoin_post {s s' : State} {a f t : Addr} {d : Denom} {n : Int}
    (h : transferCoin s a f t d n = .ok s') : Post s s' d := by
  simp only [transferCoin, bind_ok, check_ok, pure_ok] at h
  obtain ⟨_, _, m, _, _, _, _, _, _, _, _, _, _, _, _, _, _, _, b, hb, rfl⟩ := h
  exact Post.of_move (send_supply hb) (send_nonneg hb) (send_cons hb)

theorem cancelMarker_post {s s' : State} {c : Addr} {d : Denom} (h : cancelMarker s c d = .ok s') :
    Post s s' d := by
  simp only [cancelMarker, bind_ok, check_ok, pure_ok] at h
  obtain ⟨m, hm, h⟩ := h
  have hm' := getMarker_ok hm
  have hd := find_denom hm'
  have key : ∀ (hle : m.status ≤ .cancelled), Post s (s.setMarker (m.setStatus .cancelled)) d := by
    intro hle
    refine Post.of_set hd (fun m0 hm0 => by rw [hm'] at hm0; cases hm0; exact hle) ?_ ?_
    · intro _ ha _
      simp [Marker.setStatus] at ha
    · intro hdes
      simp [Marker.setStatus] at hdes
  split at h
  · rename_i hst
    simp only [bind_ok, check_ok, pure_ok] at h
    obtain ⟨_, _, _, _, _, _, rfl⟩ := h
    exact key (by rw [hst]; decide)
  · rename_i hst
    simp only [bind_ok, check_ok, pure_ok] at h
    obtain ⟨_, _, _, _, _, _, rfl⟩ := h
    exact key (by rw [hst]; decide)
  · rename_i hst
    simp only [bind_ok, check_ok, pure_ok] at h
    obtain ⟨_, _, _, _, rfl⟩ := h
    exact key (by rw [hst]; decide)
  · simp only [pure_ok] at h
    subst h
    exact Post.refl s d
  · cases h

theorem deleteMarker_post {s s' : State} {c : Addr} {d : Denom} (h : deleteMarker s c d = .ok s') :
    Post s s' d := by
  simp only [deleteMarker, bind_ok, check_ok, pure_ok] at h
  obtain ⟨m, hm, _, _, _, _, _, hesc, s1, hs1, _, _, m2, hm2, _, _, rfl⟩ := h
  have hm' := getMarker_ok hm
  have hd := find_denom hm'
  subst hd
  have hesc' : Escrowed s m.denom := by
    unfold Escrowed
    have : ¬ (0 < s.bank.supply m.denom - s.bank.bal (acct m.denom) m.denom) := by simpa using hesc
    left; omega
  have h1 := (decreaseSupply_spec hm' hs1).1
  have hm2' := getMarker_ok hm2
  refine h1.trans (Post.of_set (m' := m2.setStatus .destroyed) (show m2.denom = m.denom from find_denom hm2') (fun m0 _ => status_le_destroyed _) ?_ ?_) (Or.inr hesc')
  · intro _ ha _
    simp [Marker.setStatus] at ha
  · intro _
    right
    -- after the burn the supply is zero and the escrow balance is `bal - total`
    have hs := (decreaseSupply_spec hm' hs1).2.2.1
    unfold Escrowed
    right; omega

theorem addAccess_post {s s' : State} {c : Addr} {d : Denom} {a : Addr} {ps : List Access}
    (h : addAccess s c d a ps = .ok s') : Post s s' d := by
  simp only [addAccess, bind_ok, check_ok, pure_ok] at h
  obtain ⟨m, hm, _, _, _, _, rfl⟩ := h
  have hm' := getMarker_ok hm
  exact Post.of_set_same (m' := m.grantAccess a ps) hm' (show m.denom = d from find_denom hm') rfl rfl rfl

theorem removeAccess_post {s s' : State} {c : Addr} {d : Denom} {a : Addr}
    (h : removeAccess s c d a = .ok s') : Post s s' d := by
  simp only [removeAccess, bind_ok, check_ok, pure_ok] at h
  obtain ⟨m, hm, _, _, _, _, rfl⟩ := h
  have hm' := getMarker_ok hm
  exact Post.of_set_same (m' := m.revokeAccess a) hm' (show m.denom = d from find_denom hm') rfl rfl rfl

theorem govSupplyIncrease_post {s s' : State} {au : Addr} {d : Denom} {n : Int} {t : Addr}
    (h : govSupplyIncrease s au d n t = .ok s') : Post s s' d := by
  simp only [govSupplyIncrease, bind_ok, check_ok, pure_ok] at h
  obtain ⟨_, _, _, _, m, hm, h⟩ := h
  have hm' := (govMarker_ok hm).1
  have hd := find_denom hm'
  split at h
  · rename_i hst
    simp only [bind_ok, pure_ok] at h
    obtain ⟨_, _, rfl⟩ := h
    refine Post.of_set hd (fun m0 hm0 => by rw [hm'] at hm0; cases hm0; exact status_le_refl _) ?_ ?_
    · intro _ ha _
      rcases hst with hst | hst <;> (rw [hst] at ha; cases ha)
    · intro hdes
      rcases hst with hst | hst <;> (rw [hst] at hdes; cases hdes)
  · split at h
    · cases h
    · simp only [bind_ok, pure_ok] at h
      obtain ⟨s1, hs1, h⟩ := h
      subst hd
      have h1 := (increaseSupply_spec hm' hs1).1
      split at h
      · simp only [bind_ok, pure_ok] at h
        obtain ⟨b, hb, rfl⟩ := h
        exact h1.trans (Post.of_move (send_supply hb) (send_nonneg hb) (send_cons hb)) (Or.inl (keeps_of_bank _ _ _))
      · simp only [pure_ok] at h
        subst h
        exact h1

theorem govSupplyDecrease_post {s s' : State} {au : Addr} {d : Denom} {n : Int}
    (h : govSupplyDecrease s au d n = .ok s') : Post s s' d := by
  simp only [govSupplyDecrease, bind_ok, check_ok, pure_ok] at h
  obtain ⟨_, _, _, _, m, hm, h⟩ := h
  have hm' := (govMarker_ok hm).1
  have hd := find_denom hm'
  subst hd
  exact (decreaseSupply_spec hm' h).1

theorem govChangeStatus_post {s s' : State} {au : Addr} {d : Denom} {st : Status}
    (h : govChangeStatus s au d st = .ok s') : Post s s' d := by
  simp only [govChangeStatus, bind_ok, check_ok, pure_ok] at h
  obtain ⟨_, _, m, hm, _, _, _, hle, b1, hb1, b2, hb2, _, _, rfl⟩ := h
  have hm' := (govMarker_ok hm).1
  have hd := find_denom hm'
  have hle' : m.status ≤ st := by
    have : ¬ (st < m.status) := by simpa using hle
    rw [status_lt_iff] at this
    rw [status_le_iff]; omega
  have hmono : ∀ m0, s.find d = some m0 → m0.status ≤ (m.setStatus st).status := by
    intro m0 hm0
    rw [hm'] at hm0; cases hm0
    exact hle'
  by_cases hact : st = .active
  · subst hact
    simp only [if_true] at hb1
    simp only [show ¬ (Status.active = Status.destroyed) by decide, if_false, pure_ok] at hb2
    subst hb2
    exact Post.of_set_bank hd hmono (fun d' hd' => adjust_supply_ne hb1 hd') (adjust_nonneg hb1) (adjust_cons hb1)
      (fun _ _ _ => (adjust_supply hb1).symm) (fun hdes => by simp [Marker.setStatus] at hdes)
  · simp only [hact, if_false, pure_ok] at hb1
    subst hb1
    have hna : (m.setStatus st).status ≠ .active := by simpa [Marker.setStatus] using hact
    by_cases hdes : st = .destroyed
    · subst hdes
      simp only [if_true, bind_ok, check_ok] at hb2
      obtain ⟨_, _, hb2⟩ := hb2
      refine Post.of_set_bank hd hmono (fun d' hd' => adjust_supply_ne hb2 hd') (adjust_nonneg hb2) (adjust_cons hb2)
        (fun _ ha _ => absurd ha hna) (fun _ => ?_)
      -- `AdjustCirculation(…, 0)` succeeded: the marker account held the whole supply (or it was ≤ 0)
      right; unfold Escrowed
      rw [adjust_def] at hb2
      split at hb2
      · right; omega
      · split at hb2
        · split at hb2
          · cases hb2
          · left; omega
        · right; omega
    · simp only [hdes, if_false, pure_ok] at hb2
      subst hb2
      exact Post.of_set hd hmono (fun _ ha _ => absurd ha hna)
        (fun hdes' => absurd (by simpa [Marker.setStatus] using hdes') hdes)

theorem govWithdrawEscrow_post {s s' : State} {au : Addr} {d : Denom} {t : Addr} {cs : Coins}
    (h : govWithdrawEscrow s au d t cs = .ok s') : Post s s' d := by
  simp only [govWithdrawEscrow, bind_ok, check_ok, pure_ok] at h
  obtain ⟨_, _, _, _, _, _, b, hb, rfl⟩ := h
  exact Post.of_move (send_supply hb) (send_nonneg hb) (send_cons hb)

theorem govSetAdministrator_post {s s' : State} {au : Addr} {d : Denom} {a : Addr} {ps : List Access}
    (h : govSetAdministrator s au d a ps = .ok s') : Post s s' d := by
  simp only [govSetAdministrator, bind_ok, check_ok, pure_ok] at h
  obtain ⟨_, _, m, hm, _, _, rfl⟩ := h
  have hm' := (govMarker_ok hm).1
  exact Post.of_set_same (m' := m.grantAccess a ps) hm' (show m.denom = d from find_denom hm') rfl rfl rfl

theorem govRemoveAdministrator_post {s s' : State} {au : Addr} {d : Denom} {a : Addr}
    (h : govRemoveAdministrator s au d a = .ok s') : Post s s' d := by
  simp only [govRemoveAdministrator, bind_ok, check_ok, pure_ok] at h
  obtain ⟨_, _, m, hm, _, _, rfl⟩ := h
  have hm' := (govMarker_ok hm).1
  exact Post.of_set_same (m' := m.revokeAccess a) hm' (show m.denom = d from find_denom hm') rfl rfl rfl

theorem updateParams_post {s s' : State} {au : Addr} {mx mts : Int} {eg : Bool} (d : Denom)
    (h : updateParams s au mx mts eg = .ok s') : Post s s' d := by
  simp only [updateParams, bind_ok, check_ok, pure_ok] at h
  obtain ⟨_, _, rfl⟩ := h
  exact ⟨fun _ _ => rfl, fun _ _ => rfl, id, id, id, fun m hm => ⟨m, hm, status_le_refl _⟩, id,
    fun m m' hm hm' hd => by
      have : s.find d = some m' := hm'
      rw [hm] at this; cases this; exact Or.inl hd⟩

theorem bankSend_post {s s' : State} {f t : Addr} {d : Denom} {n : Int}
    (h : bankSend s f t d n = .ok s') : Post s s' d := by
  simp only [bankSend, bind_ok, check_ok, pure_ok] at h
  obtain ⟨_, _, _, _, b, hb, _, _, rfl⟩ := h
  exact Post.of_move (send_supply hb) (send_nonneg hb) (send_cons hb)

theorem foreignMint_post {s s' : State} {t : Addr} {d : Denom} {n : Int}
    (henv : ∀ m, s.find d = some m → ¬ (m.status = .active ∧ m.fixed = true))
    (h : foreignMint s t d n = .ok s') : Post s s' d := by
  simp only [foreignMint, bind_ok, check_ok, pure_ok] at h
  obtain ⟨_, hn, rfl⟩ := h
  have hn' : 0 ≤ n := by simpa using hn
  refine Post.of_bank ?_ ?_ (fun hc => consistent_mintTo hc _ _) (fun _ m hm ha hf => absurd ⟨ha, hf⟩ (henv m hm))
  · intro d' hd'
    have : ¬ (d = d') := fun e => hd' e.symm
    simp [this]
  · intro hnn a d'
    have := hnn a d'
    simp only [Bank.bal_mintTo, Coins.amountOf_cons, Coins.amountOf_nil]
    split
    · split <;> omega
    · omega

theorem govDepositBurn_post {s s' : State} {f : Addr} {d : Denom} {n : Int}
    (henv : ∀ m, s.find d = some m → ¬ (m.status = .active ∧ m.fixed = true))
    (h : govDepositBurn s f d n = .ok s') : Post s s' d := by
  simp only [govDepositBurn, bind_ok, check_ok, pure_ok] at h
  obtain ⟨_, _, _, hfunds, _, _, rfl⟩ := h
  have hfunds' : n ≤ s.bank.bal f d := by simpa using hfunds
  refine Post.of_bank ?_ ?_ (fun hc => consistent_burnFrom hc _ _) (fun _ m hm ha hf => absurd ⟨ha, hf⟩ (henv m hm))
  · intro d' hd'
    have : ¬ (d = d') := fun e => hd' e.symm
    simp [this]
  · intro hnn a d'
    have := hnn a d'
    simp only [Bank.bal_burnFrom, Coins.amountOf_cons, Coins.amountOf_nil]
    by_cases h1 : f = a
    · by_cases h2 : d = d'
      · subst h1; subst h2; simp; omega
      · simp [h2]; exact this
    · simp [h1]; exact this

end PvProofs.MkrSupL
