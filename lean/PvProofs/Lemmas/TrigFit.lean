/-
Helper lemmas for C17: `ProcessTriggers` runs EXACTLY as many queue heads as fit the per-block caps
(`fitCount` of `TrigSpec`, the function behind the checker's `fail:stopped_early`).
-/
import PvProofs.Lemmas.TrigPrepaid

namespace PvProofs.Lemmas.Trig
open PvModel.Trig

/-- `fitCount` reads the store only through the gas limits of the listed ids -/
theorem fitCount_congr (s s' : State) : ∀ (ids : List Nat) (n gas : Nat),
    (∀ id ∈ ids, s'.gasLimits id = s.gasLimits id) → fitCount s' ids n gas = fitCount s ids n gas
  | [], _, _, _ => rfl
  | id :: rest, n, gas, h => by
    have ih := fun n g => fitCount_congr s s' rest n g (fun i hi => h i (List.mem_cons_of_mem _ hi))
    simp only [fitCount, h id List.mem_cons_self, ih]

theorem fitCount_le (s : State) : ∀ (ids : List Nat) (n gas : Nat), fitCount s ids n gas ≤ n
  | [], _, _ => by simp [fitCount]
  | id :: rest, n, gas => by
    unfold fitCount
    split
    · omega
    · simp only
      split
      · omega
      · have := fitCount_le s rest (n - 1) (gas + (s.gasLimits id).getD 0); omega

/-- On a well-formed store the loop of `ProcessTriggers` runs exactly `fitCount` triggers: it does
not stop while the next queue head still fits the count cap and the gas cap. -/
theorem processLoop_fit (cost : Nat → Nat → Nat) : ∀ (n gc : Nat) (s : State), WF s →
    ∀ (s' : State) (xs : List Exec), processLoop cost n gc s = some (s', xs) →
    xs.length = fitCount s (qIds s) n gc
  | 0, gc, s, _, s', xs, h => by
    simp only [processLoop] at h; cases h
    cases qIds s <;> simp [fitCount]
  | n + 1, gc, s, hw, s', xs, h => by
    unfold processLoop at h
    by_cases he : queueIsEmpty s = true
    · simp only [he, if_true] at h; cases h
      have h0 : s.qLen = 0 := by simpa [queueIsEmpty] using he
      have : qList s = [] := List.eq_nil_of_length_eq_zero (by rw [hw.qlen, h0])
      simp [qIds, this, fitCount]
    · simp only [he] at h
      have hn : s.qLen ≠ 0 := by simpa [queueIsEmpty] using he
      obtain ⟨item, hq, _⟩ := qList_head s hw.qlen hn
      simp only [getQueueItem, hq, Bool.false_eq_true, if_false] at h
      obtain ⟨hw1, hl, _, _, _⟩ := WF_dequeue hw item hq hn
      have hids : qIds s = item.trigger.id :: qIds (removeGasLimit (dequeue s) item.trigger.id) :=
        qIds_cons_of_qList hl
      have hmem : item ∈ qList s := by rw [hl]; exact List.mem_cons_self
      have hgas : (s.gasLimits item.trigger.id).isSome := by
        rw [hw.gas]; right; exact List.mem_map.2 ⟨item, hmem, rfl⟩
      obtain ⟨g, hg⟩ := Option.isSome_iff_exists.1 hgas
      simp only [getGasLimit, hg] at h
      by_cases hcap : g + gc > MaximumQueueGas
      · simp only [hcap, if_true] at h; cases h
        rw [hids]; simp [fitCount, hg, hcap]
      · simp only [hcap, if_false] at h
        have hra := WF_runActions hw1 item.trigger.actions (gasOog g (cost item.trigger.id))
        generalize runActions (removeGasLimit (dequeue s) item.trigger.id) item.trigger.actions
          (gasOog g (cost item.trigger.id)) = r at hra h
        cases hp : processLoop cost n (gc + g) r.2.2 with
        | none => rw [hp] at h; cases h
        | some p =>
          obtain ⟨s2, rest⟩ := p
          have ih := processLoop_fit cost n (gc + g) r.2.2 hra.1 s2 rest hp
          rw [hp] at h; cases h
          have hnd := hw.qNodup
          rw [hids, List.nodup_cons] at hnd
          have hcg : fitCount r.2.2 (qIds r.2.2) n (gc + g) =
              fitCount s (qIds (removeGasLimit (dequeue s) item.trigger.id)) n (gc + g) := by
            rw [hra.2.qIds]
            refine fitCount_congr s r.2.2 _ n (gc + g) (fun id hid => ?_)
            have hnone : (removeGasLimit (dequeue s) item.trigger.id).triggers id = none := by
              obtain ⟨y, hy, e⟩ := List.mem_map.1 hid
              rw [← e]; exact (hw1.q y hy).1
            rw [hra.2.gas id hnone]
            show (if id = item.trigger.id then none else s.gasLimits id) = s.gasLimits id
            rw [if_neg (fun (e : id = item.trigger.id) => hnd.1 (e ▸ hid))]
          rw [hids]
          simp only [List.length_cons, fitCount, hg, Option.getD_some, hcap, if_false,
            Nat.add_one_ne_zero, Nat.add_sub_cancel]
          rw [ih, hcg]; omega

/-- What `fitCount` means, without its recursion: counting stops only at the end of the queue, at the
count cap, or at a head whose gas limit no longer fits on top of what the counted ones reserve. -/
theorem fitCount_stop (s : State) : ∀ (ids : List Nat) (n gas : Nat),
    fitCount s ids n gas = ids.length ∨ fitCount s ids n gas = n ∨
    ∃ id, ids[fitCount s ids n gas]? = some id ∧
      (s.gasLimits id).getD 0 + (gas + ((ids.take (fitCount s ids n gas)).map
        fun i => (s.gasLimits i).getD 0).sum) > MaximumQueueGas
  | [], _, _ => by simp [fitCount]
  | id :: rest, n, gas => by
    by_cases hn : n = 0
    · right; left; simp [fitCount, hn]
    · by_cases hcap : (s.gasLimits id).getD 0 + gas > MaximumQueueGas
      · right; right
        have : fitCount s (id :: rest) n gas = 0 := by simp [fitCount, hn, hcap]
        rw [this]; exact ⟨id, rfl, by simpa using hcap⟩
      · have hk : fitCount s (id :: rest) n gas =
            1 + fitCount s rest (n - 1) (gas + (s.gasLimits id).getD 0) := by
          simp [fitCount, hn, hcap]
        rw [hk]
        rcases fitCount_stop s rest (n - 1) (gas + (s.gasLimits id).getD 0) with h | h | ⟨i, h1, h2⟩
        · left; rw [h]; simp; omega
        · right; left; rw [h]; omega
        · right; right
          refine ⟨i, by rw [Nat.add_comm 1, List.getElem?_cons_succ]; exact h1, ?_⟩
          rw [Nat.add_comm 1, List.take_succ_cons, List.map_cons, List.sum_cons]
          omega

theorem runActions_outcomes_le (s : State) (acts : List Action) (oog : Nat → Bool) :
    (runActions s acts oog).2.1.length ≤ acts.length := by
  rcases runActions_spec s acts oog with ⟨_, _, c, _⟩ | ⟨_, _, pre, last, c, _, _, d⟩
  · rw [c, List.length_map]; exact Nat.le_refl _
  · rw [c, List.length_append, List.length_singleton]; omega

/-- every executed trigger started at most as many action handlers as it has actions -/
theorem processLoop_outcomes_le (cost : Nat → Nat → Nat) : ∀ (n gc : Nat) (s s' : State) (xs : List Exec),
    processLoop cost n gc s = some (s', xs) → ∀ x ∈ xs, x.outcomes.length ≤ x.actions.length
  | 0, gc, s, s', xs, h => by simp only [processLoop] at h; cases h; simp
  | n + 1, gc, s, s', xs, h => by
    unfold processLoop at h
    split at h; · cases h; simp
    split at h; · cases h
    dsimp only at h
    split at h; · cases h
    next g hg =>
    split at h; · cases h; simp
    split at h
    · next s2 rest hp =>
      have ih := processLoop_outcomes_le cost n (gc + g) _ s2 rest hp
      cases h
      intro x hx
      rcases List.mem_cons.1 hx with e | hx
      · subst e
        exact runActions_outcomes_le _ _ _
      · exact ih x hx
    · cases h

theorem sum_map_le_sum_map {α : Type} (f g : α → Nat) : ∀ (l : List α), (∀ x ∈ l, f x ≤ g x) →
    (l.map f).sum ≤ (l.map g).sum
  | [], _ => by simp
  | a :: l, h => by
    simp only [List.map_cons, List.sum_cons]
    have := h a List.mem_cons_self
    have := sum_map_le_sum_map f g l (fun x hx => h x (List.mem_cons_of_mem _ hx))
    omega

theorem sum_map_le_length {α : Type} (f : α → Nat) : ∀ (l : List α), (∀ x ∈ l, f x ≤ 1) →
    (l.map f).sum ≤ l.length
  | [], _ => by simp
  | a :: l, h => by
    simp only [List.map_cons, List.sum_cons, List.length_cons]
    have := h a List.mem_cons_self
    have := sum_map_le_length f l (fun x hx => h x (List.mem_cons_of_mem _ hx))
    omega

/-! ### the id counter: only a create transaction advances it, and it registers the id it takes -/

theorem nextId_step {s : State} (hw : WF s) (op : Op) :
    (step s op).1.nextId = s.nextId ∨
    ((step s op).1.nextId = s.nextId + 1 ∧ ((step s op).1.triggers s.nextId).isSome = true) := by
  cases op with
  | fund a amt => exact Or.inl rfl
  | pay f t amt =>
    simp only [step]
    split
    · next s' hs => obtain ⟨b, hb⟩ := bankSend_ok hs; subst hb; exact Or.inl rfl
    · exact Or.inl rfl
  | create m rem hh tm =>
    simp only [step]
    split
    · next s' id g hc =>
      obtain ⟨_, _, _, _, _, owner, rest, _, hs⟩ := createTrigger_ok hc
      subst hs
      exact Or.inr ⟨rfl, by simp [setGasLimit, setEventListener, setTrigger]⟩
    · exact Or.inl rfl
  | destroy auth id =>
    simp only [step]
    split
    · next s' hd => exact Or.inl (WF_destroyTrigger hw hd).2.nextId
    · exact Or.inl rfl
  | beginBlock cost =>
    simp only [step, processTriggers]
    obtain ⟨s', xs, hp, _, _, _, _, _, hnx, _⟩ := processLoop_spec cost MaximumActions 0 s hw
    rw [hp]; exact Or.inl hnx
  | endBlock evs hh tm =>
    simp only [step, detectBlockEvents]
    split
    · next s' ts hd =>
      split at hd
      · next ts' hda =>
        cases hd
        obtain ⟨hnd, hreg⟩ := detectAll_spec hw hda
        obtain ⟨_, _, hnx, _⟩ := queueDetected_spec hh tm ts s hw hnd (fun t ht => (hreg t ht).1)
        exact Or.inl hnx
      · cases hd
    · exact Or.inl rfl

/-- An unborn id is still unborn or has just been registered (waiting) after one operation: it
cannot appear in the queue or be gone without having been waiting first. -/
theorem place_unborn_step {s : State} (hw : WF s) (op : Op) (id : Nat) (h : place s id = .unborn) :
    place (step s op).1 id = .unborn ∨ place (step s op).1 id = .waiting := by
  have hw' := WF_step hw op
  have hm := Mono_step hw op
  have hreg : registered s id = false := by
    unfold place at h; split at h
    · cases h
    · simpa using ‹¬ registered s id = true›
  have hque : queued s id = false := by
    unfold place at h; rw [hreg] at h; simp only [Bool.false_eq_true, if_false] at h
    split at h
    · cases h
    · simpa using ‹¬ queued s id = true›
  have hrange : ¬ (1 ≤ id ∧ id < s.nextId) := by
    unfold place at h; rw [hreg, hque] at h; simp only [Bool.false_eq_true, if_false] at h
    split at h
    · cases h
    · assumption
  by_cases hr' : registered (step s op).1 id = true
  · right; simp [place, hr']
  · left
    have hq' : ¬ queued (step s op).1 id = true := by
      intro hq
      rcases hm.que id (by simpa [queued] using hq) with e | e
      · simp [queued, e] at hque
      · simp [registered, e] at hreg
    unfold place
    rw [if_neg hr', if_neg hq']
    rw [if_neg]
    rintro ⟨h1, h2⟩
    rcases nextId_step hw op with e | ⟨e, hsome⟩
    · rw [e] at h2; exact hrange ⟨h1, h2⟩
    · rw [e] at h2
      have : id = s.nextId := by
        have : ¬ id < s.nextId := fun hlt => hrange ⟨h1, hlt⟩
        omega
      subst this
      exact hr' hsome

end PvProofs.Lemmas.Trig
