/-
Helper lemmas for C01: the price allocation loops (`firstPassAsk`, `firstPass`, `drain`,
`leftoverLoop`): index ranges of what they record.
-/
import PvProofs.Lemmas.SettleLedger
namespace PvProofs.Settle
open PvModel PvModel.Settle PvModel.Coins

theorem firstPassAsk_range {a : Nat} {p : Int} {b : Nat} {bids : List Int} {t : List Tr} {b' : Nat} {r : List Int}
    (h : firstPassAsk a p b bids = .ok (t, b', r)) :
    InRange t a 1 b bids.length ∧ b ≤ b' ∧ b' + r.length = b + bids.length := by
  induction bids generalizing p b t b' r with
  | nil =>
    simp only [firstPassAsk] at h
    split at h; · simp at h
    simp only [Except.ok.injEq, Prod.mk.injEq] at h
    obtain ⟨rfl, rfl, rfl⟩ := h
    exact ⟨by intro e he; simp at he, by omega, by simp⟩
  | cons l rest ih =>
    simp only [firstPassAsk] at h
    split at h
    · split at h
      · split at h; · simp at h
        rename_i t' b'' r' hrec
        simp only [Except.ok.injEq, Prod.mk.injEq] at h
        obtain ⟨rfl, rfl, rfl⟩ := h
        obtain ⟨i1, i2, i3⟩ := ih hrec
        refine ⟨?_, by omega, by simp at *; omega⟩
        intro e he
        simp only [List.mem_cons] at he
        rcases he with rfl | he
        · simp
        · obtain ⟨x1, x2, x3, x4⟩ := i1 e he
          simp only [List.length_cons]
          exact ⟨x1, x2, by omega, by omega⟩
      · simp only [Except.ok.injEq, Prod.mk.injEq] at h
        obtain ⟨rfl, rfl, rfl⟩ := h
        refine ⟨?_, by omega, by simp⟩
        intro e he; simp at he; subst he; simp
    · simp only [Except.ok.injEq, Prod.mk.injEq] at h
      obtain ⟨rfl, rfl, rfl⟩ := h
      exact ⟨by intro e he; simp at he, by omega, by simp⟩

theorem firstPass_range {a : Nat} {ps : List Int} {b : Nat} {bids : List Int} {t : List Tr} {b' : Nat} {r : List Int}
    (h : firstPass a ps b bids = .ok (t, b', r)) :
    InRange t a ps.length b bids.length ∧ b ≤ b' ∧ b' + r.length = b + bids.length := by
  induction ps generalizing a b bids t b' r with
  | nil =>
    simp only [firstPass, Except.ok.injEq, Prod.mk.injEq] at h
    obtain ⟨rfl, rfl, rfl⟩ := h
    exact ⟨by intro e he; simp at he, by omega, rfl⟩
  | cons p ps ih =>
    simp only [firstPass] at h
    split at h; · simp at h
    rename_i t1 b1 r1 h1
    split at h; · simp at h
    rename_i t2 b2 r2 h2
    simp only [Except.ok.injEq, Prod.mk.injEq] at h
    obtain ⟨rfl, rfl, rfl⟩ := h
    obtain ⟨i1, i2, i3⟩ := firstPassAsk_range h1
    obtain ⟨j1, j2, j3⟩ := ih h2
    refine ⟨?_, by omega, by omega⟩
    apply InRange.append
    · exact i1.mono (by omega) (by simp) (by omega) (by omega)
    · exact j1.mono (by omega) (by simp; omega) (by omega) (by omega)

theorem drain_range {a : Nat} {add : Int} {b : Nat} {bids : List Int} {t : List Tr} {add' : Int} {b' : Nat} {r : List Int}
    (h : drain a add b bids = (t, add', b', r)) :
    InRange t a 1 b bids.length ∧ b ≤ b' ∧ b' + r.length = b + bids.length := by
  induction bids generalizing add b t add' b' r with
  | nil =>
    simp only [drain, Prod.mk.injEq] at h
    obtain ⟨rfl, rfl, rfl, rfl⟩ := h
    exact ⟨by intro e he; simp at he, by omega, rfl⟩
  | cons l rest ih =>
    simp only [drain] at h
    split at h
    · generalize hd : drain a (add - l) (b + 1) rest = res at h
      obtain ⟨t', add'', b'', r'⟩ := res
      simp only [Prod.mk.injEq] at h
      obtain ⟨rfl, rfl, rfl, rfl⟩ := h
      obtain ⟨i1, i2, i3⟩ := ih hd
      refine ⟨?_, by omega, by simp at *; omega⟩
      intro e he
      simp only [List.mem_cons] at he
      rcases he with rfl | he
      · simp
      · obtain ⟨x1, x2, x3, x4⟩ := i1 e he
        simp only [List.length_cons]
        exact ⟨x1, x2, by omega, by omega⟩
    · simp only [Prod.mk.injEq] at h
      obtain ⟨rfl, rfl, rfl, rfl⟩ := h
      exact ⟨by intro e he; simp at he, by omega, rfl⟩

/-- what one round of the leftover loop does to the indices -/
theorem leftoverStep_range {TL TA : Int} {af : List Int} {s s' : LoopSt} {t : List Tr}
    (hn : 0 < af.length) (hnxt : s.nxt ≤ af.length)
    (h : leftoverStep TL TA af s = .ok (t, s')) :
    InRange t 0 af.length s.b s.bids.length ∧ s'.nxt ≤ af.length ∧ s.b ≤ s'.b ∧
      s'.b + s'.bids.length = s.b + s.bids.length := by
  have ha : (if s.nxt = af.length then 0 else s.nxt) < af.length := by split <;> omega
  simp only [leftoverStep] at h
  generalize (if s.nxt = af.length then 0 else s.nxt) = a at h ha
  generalize (if s.nxt = af.length then false else s.fp) = fp' at h
  split at h; · simp at h
  split at h; · simp at h
  rename_i prod hprod
  split at h; · simp at h
  split at h
  · simp only [Except.ok.injEq, Prod.mk.injEq] at h
    obtain ⟨rfl, rfl⟩ := h
    exact ⟨by intro e he; simp at he, by simp; omega, by simp, by simp⟩
  · split at h
    · rename_i t1 add' b' hd
      obtain ⟨i1, i2, i3⟩ := drain_range hd
      simp only [Except.ok.injEq, Prod.mk.injEq] at h
      obtain ⟨rfl, rfl⟩ := h
      exact ⟨i1.mono (by omega) (by omega) (by omega) (by omega), by simp; omega, by simpa using i2, by simpa using i3⟩
    · rename_i t1 add' b' l rest hd
      obtain ⟨i1, i2, i3⟩ := drain_range hd
      have r1 : InRange t1 0 af.length s.b s.bids.length := i1.mono (by omega) (by omega) (by omega) (by omega)
      simp only [List.length_cons] at i3
      split at h
      · simp only [Except.ok.injEq, Prod.mk.injEq] at h
        obtain ⟨rfl, rfl⟩ := h
        refine ⟨r1.append ?_, by simp; omega, ?_, ?_⟩
        · intro e he; simp at he; subst he; simp; omega
        · show s.b ≤ (if l - add' = 0 then b' + 1 else b'); split <;> omega
        · show (if l - add' = 0 then b' + 1 else b') + (if l - add' = 0 then rest else (l - add') :: rest).length = _
          split <;> (try simp only [List.length_cons]) <;> omega
      · simp only [Except.ok.injEq, Prod.mk.injEq] at h
        obtain ⟨rfl, rfl⟩ := h
        exact ⟨r1, by simp; omega, by simpa using i2, by simpa using i3⟩

theorem leftoverLoop_range {TL TA : Int} {af : List Int} {fuel : Nat} {s : LoopSt} {t : List Tr}
    (hn : 0 < af.length) (hnxt : s.nxt ≤ af.length)
    (h : leftoverLoop TL TA af fuel s = .ok t) :
    InRange t 0 af.length s.b s.bids.length := by
  induction fuel generalizing s t with
  | zero =>
    simp only [leftoverLoop] at h
    split at h
    · simp only [Except.ok.injEq] at h; subst h; intro e he; simp at he
    · simp at h
  | succ fuel ih =>
    simp only [leftoverLoop] at h
    split at h
    · simp only [Except.ok.injEq] at h; subst h; intro e he; simp at he
    split at h; · simp at h
    rename_i t1 s' hstep
    split at h; · simp at h
    rename_i t2 hrec
    simp only [Except.ok.injEq] at h; subst h
    obtain ⟨i1, i2, i3, i4⟩ := leftoverStep_range hn hnxt hstep
    exact i1.append ((ih i2 hrec).mono (by omega) (by omega) (by omega) (by omega))

/-- every distribution `allocatePrice` records is between an existing ask and an existing bid -/
theorem allocatePrice_range {ap bp af : List Int} {t : List Tr} (hn : 0 < ap.length) (haf : af.length = ap.length)
    (h : allocatePrice ap bp af = .ok t) : InRange t 0 ap.length 0 bp.length := by
  simp only [allocatePrice] at h
  split at h; · simp at h
  split at h; · simp at h
  rename_i t1 b bids h1
  obtain ⟨i1, i2, i3⟩ := firstPass_range h1
  split at h
  · simp only [Except.ok.injEq] at h; subst h; exact i1
  · split at h; · simp at h
    rename_i t2 h2
    simp only [Except.ok.injEq] at h; subst h
    have := leftoverLoop_range (by omega) (by simp) h2
    rw [haf] at this
    exact i1.append (this.mono (by omega) (by omega) (by omega) (by simp at *; omega))

end PvProofs.Settle
