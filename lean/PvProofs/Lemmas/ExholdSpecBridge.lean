/-
C02 helper lemmas: the model's sums are the declarative sums of `PvModel.ExholdSpec`.
-/
import PvProofs.Lemmas.ExholdMarket
import PvModel.ExholdSpec

namespace PvProofs.C02
open PvModel PvModel.Exhold PvProofs.Exhold

/-- `GetHoldAmount` (ask: assets + flat fee unless it is paid from the price; bid: price + fees)
is the documented reserved amount, per denom. -/
theorem holdAmt_eq_reserved (o : Order) (d : Denom) : Coins.amountOf (holdAmt o) d = Spec.orderReserved o d := by
  rw [amountOf_holdAmt]
  unfold Spec.orderReserved Spec.coinAt coinAt
  cases o.isAsk <;> cases o.fees.head? <;> rfl

theorem sumOver_orders (os : List Order) (a : Addr) (d : Denom) :
    ordersObl os a d = Spec.sumOver os (fun o => if o.owner = a then Spec.orderReserved o d else 0) := by
  induction os with
  | nil => rfl
  | cons o t ih => simp only [ordersObl, Spec.sumOver, ih, holdAmt_eq_reserved]

theorem sumOver_commits (cs : List Commitment) (a : Addr) (d : Denom) :
    commitsObl cs a d = Spec.sumOver cs (fun c => if c.account = a then Spec.commitmentReserved c d else 0) := by
  induction cs with
  | nil => rfl
  | cons c t ih => simp only [commitsObl, Spec.sumOver, ih, Spec.commitmentReserved]

theorem sumOver_pays (ps : List Payment) (a : Addr) (d : Denom) :
    paysObl ps a d = Spec.sumOver ps (fun p => if p.source = a then Spec.paymentReserved p d else 0) := by
  induction ps with
  | nil => rfl
  | cons p t ih => simp only [paysObl, Spec.sumOver, ih, Spec.paymentReserved]

theorem contrib_spec (o : Order) (a : Addr) (d : Denom) :
    contrib o a d = if o.owner = a then Spec.orderReserved o d else 0 := by
  simp only [contrib, holdAmt_eq_reserved]


end PvProofs.C02
