/-
C02 helper lemmas: what a LIST of release entries (`MarketReleaseCommitments`) and a commitment
settlement (`MarketCommitmentSettle`) do to the holds, item by item.
-/
import PvProofs.Lemmas.ExholdClose

namespace PvProofs.Exhold
open PvModel PvModel.Exhold

/-! ### the commitment store: lookups after a write -/

theorem getCommitment_putCommitment_self (cs : List Commitment) (m : Nat) (a : Addr) (amt : Coins) :
    getCommitment (putCommitment cs ⟨m, a, amt⟩) m a = amt := by
  induction cs with
  | nil => simp [putCommitment, getCommitment]
  | cons x t ih =>
    simp only [putCommitment]
    split
    · simp [getCommitment]
    · rename_i hx
      simp only [getCommitment]
      rw [if_neg hx]
      exact ih

theorem getCommitment_putCommitment_ne (cs : List Commitment) {m m' : Nat} {a a' : Addr} (amt : Coins)
    (hne : (m', a') ≠ (m, a)) :
    getCommitment (putCommitment cs ⟨m, a, amt⟩) m' a' = getCommitment cs m' a' := by
  have hn : ¬ (m = m' ∧ a = a') := fun h => hne (by rw [h.1, h.2])
  induction cs with
  | nil => simp [putCommitment, getCommitment, hn]
  | cons x t ih =>
    simp only [putCommitment]
    split
    · rename_i hx
      have hx' : ¬ (x.market = m' ∧ x.account = a') := by
        rintro ⟨h1, h2⟩
        exact hn ⟨by rw [← hx.1, h1], by rw [← hx.2, h2]⟩
      simp only [getCommitment, hn, hx', ↓reduceIte]
    · simp only [getCommitment, ih]

theorem getCommitment_none_of_not_mem {cs : List Commitment} {m : Nat} {a : Addr}
    (h : (m, a) ∉ cs.map commitKey) : getCommitment cs m a = [] := by
  induction cs with
  | nil => rfl
  | cons x t ih =>
    simp only [List.map_cons, List.mem_cons, not_or] at h
    simp only [getCommitment]
    split
    · rename_i hx
      exact absurd (by simp [commitKey, hx.1, hx.2]) h.1
    · exact ih h.2

theorem getCommitment_deleteCommitment_self {cs : List Commitment} (h : (cs.map commitKey).Nodup) (m : Nat) (a : Addr) :
    getCommitment (deleteCommitment cs m a) m a = [] :=
  getCommitment_none_of_not_mem (not_mem_deleteCommitment h m a)

/-- after `setCommitmentAmount` the stored amount is the written one, per denom -/
theorem amountOf_getCommitment_setCommitment_self {cs : List Commitment} (h : (cs.map commitKey).Nodup)
    (m : Nat) (a : Addr) (amt : Coins) (d : Denom) :
    Coins.amountOf (getCommitment (setCommitment cs m a amt) m a) d = Coins.amountOf amt d := by
  unfold setCommitment
  split
  · rename_i hz
    rw [getCommitment_deleteCommitment_self h, allZero_amountOf hz]; rfl
  · rw [getCommitment_putCommitment_self]

theorem getCommitment_setCommitment_ne (cs : List Commitment) {m m' : Nat} {a a' : Addr} (amt : Coins)
    (hne : (m', a') ≠ (m, a)) :
    getCommitment (setCommitment cs m a amt) m' a' = getCommitment cs m' a' := by
  unfold setCommitment
  split
  · exact getCommitment_deleteCommitment_ne cs hne
  · exact getCommitment_putCommitment_ne cs amt hne

/-! ### one `ReleaseCommitment`: what is written back -/

theorem releaseCommitment_records {s s' : State} {m : Nat} {a : Addr} {amount : Coins}
    (h : releaseCommitment s m a amount = .ok s') :
    allZero (getCommitment s.commitments m a) = false ∧
    s'.commitments = setCommitment s.commitments m a
      (if allZero amount then [] else norm (Coins.sub (getCommitment s.commitments m a) amount)) := by
  unfold releaseCommitment at h
  split at h
  · simp at h
  · simp only at h
    split at h
    · simp at h
    · rename_i hcur
      refine ⟨by simpa using hcur, ?_⟩
      split at h
      · rename_i hnz
        split at h
        · simp at h
        · split at h
          · simp at h
          · rename_i s1 hs1
            injection h with h
            obtain ⟨h', e1, _, _⟩ := releaseHoldTx_eq hs1
            subst e1; subst h
            have : allZero amount = false := by simpa using hnz
            simp [this]
      · rename_i hnz
        split at h
        · simp at h
        · rename_i s1 hs1
          injection h with h
          obtain ⟨h', e1, _, _⟩ := releaseHoldTx_eq hs1
          subst e1; subst h
          have : allZero amount = true := by simpa using hnz
          simp [this]

/-! ### a list of release entries -/

/-- total of denom `d` that the entries of a message name for account `a` (an account may be
named by several entries) -/
def entriesAt (es : List (Addr × Coins)) (a : Addr) (d : Denom) : Int :=
  match es with
  | [] => 0
  | e :: rest => (if e.1 = a then Coins.amountOf e.2 d else 0) + entriesAt rest a d

/-- one of the entries for `a` has a zero amount (= "release everything") -/
def anyZeroFor (es : List (Addr × Coins)) (a : Addr) : Bool := es.any fun e => e.1 = a && allZero e.2

/-- what the entries release for `a` when `cur` is committed: all of it if an entry says so,
else the amounts named -/
def relZ (cur : Int) (es : List (Addr × Coins)) (a : Addr) (d : Denom) : Int :=
  if anyZeroFor es a then cur else entriesAt es a d

theorem entriesAt_append (l₁ l₂ : List (Addr × Coins)) (a : Addr) (d : Denom) :
    entriesAt (l₁ ++ l₂) a d = entriesAt l₁ a d + entriesAt l₂ a d := by
  induction l₁ with
  | nil => simp [entriesAt]
  | cons e t ih => simp only [List.cons_append, entriesAt, ih]; omega

theorem entriesAt_none {es : List (Addr × Coins)} {a : Addr} (h : ∀ e ∈ es, e.1 ≠ a) (d : Denom) :
    entriesAt es a d = 0 := by
  induction es with
  | nil => rfl
  | cons e t ih =>
    simp only [entriesAt, if_neg (h e (by simp)), ih (fun e' he' => h e' (by simp [he']))]
    rfl

theorem anyZeroFor_none {es : List (Addr × Coins)} {a : Addr} (h : ∀ e ∈ es, e.1 ≠ a) :
    anyZeroFor es a = false := by
  simp only [anyZeroFor, List.any_eq_false, Bool.and_eq_true, decide_eq_true_eq, not_and]
  intro e he h1
  exact absurd h1 (h e he)

/-- nothing committed ⇒ an accepted entry list does not name the account -/
theorem releaseCommitments_not_named {s s' : State} {m : Nat} {es : List (Addr × Coins)} {a : Addr}
    (h : releaseCommitments s m es = .ok s') (hz : allZero (getCommitment s.commitments m a) = true) :
    ∀ e ∈ es, e.1 ≠ a := by
  induction es generalizing s with
  | nil => intro e he; simp at he
  | cons x t ih =>
    obtain ⟨b, amt⟩ := x
    simp only [releaseCommitments] at h
    split at h
    · simp at h
    · rename_i s1 hs1
      obtain ⟨hnz, hc⟩ := releaseCommitment_records hs1
      have hba : b ≠ a := by
        intro hba; subst hba; rw [hz] at hnz; simp at hnz
      have hz1 : allZero (getCommitment s1.commitments m a) = true := by
        rw [hc, getCommitment_setCommitment_ne]
        · exact hz
        · intro heq; simp only [Prod.mk.injEq] at heq; exact hba heq.2.symm
      intro e he
      rcases List.mem_cons.mp he with rfl | he'
      · exact hba
      · exact ih h hz1 e he'

/-- **A list of release entries, exactly**: every account's hold falls by everything it had
committed to the market if one of its entries has a zero amount, else by the sum of the amounts
its entries name; what stays committed is the rest; other markets' commitments are untouched. -/
theorem releaseCommitments_delta {s s' : State} {m : Nat} {es : List (Addr × Coins)} (hi : Inv s)
    (h : releaseCommitments s m es = .ok s') (a : Addr) (d : Denom) :
    hold s' a d = hold s a d - relZ (Coins.amountOf (getCommitment s.commitments m a) d) es a d ∧
    Coins.amountOf (getCommitment s'.commitments m a) d =
      Coins.amountOf (getCommitment s.commitments m a) d
        - relZ (Coins.amountOf (getCommitment s.commitments m a) d) es a d ∧
    (∀ m' a', m' ≠ m → getCommitment s'.commitments m' a' = getCommitment s.commitments m' a') := by
  induction es generalizing s with
  | nil =>
    simp only [releaseCommitments] at h; injection h with h; subst h
    simp [relZ, anyZeroFor, entriesAt]
  | cons x t ih =>
    obtain ⟨b, amt⟩ := x
    simp only [releaseCommitments] at h
    split at h
    · simp at h
    · rename_i s1 hs1
      obtain ⟨hi1, hh1⟩ := releaseCommitment_inv hi hs1
      obtain ⟨hnz, hc⟩ := releaseCommitment_records hs1
      obtain ⟨ih1, ih2, ih3⟩ := ih hi1 h
      have hoth : ∀ m' a', m' ≠ m → getCommitment s'.commitments m' a' = getCommitment s.commitments m' a' := by
        intro m' a' hne
        rw [ih3 m' a' hne, hc, getCommitment_setCommitment_ne]
        intro heq; simp only [Prod.mk.injEq] at heq; exact hne heq.1
      by_cases hba : b = a
      · subst hba
        by_cases hz : allZero amt = true
        · -- release everything: nothing is left, no later entry may name the account
          have hc' : s1.commitments = deleteCommitment s.commitments m b := by
            rw [hc, if_pos hz]; simp [setCommitment, allZero]
          have hz1 : allZero (getCommitment s1.commitments m b) = true := by
            rw [hc', getCommitment_deleteCommitment_self hi.wf.ckeys]; rfl
          have hnn := releaseCommitments_not_named h hz1
          have hrel : ∀ c, relZ c t b d = 0 := fun c => by
            simp only [relZ, anyZeroFor_none hnn, entriesAt_none hnn]; rfl
          have hcur1 : Coins.amountOf (getCommitment s1.commitments m b) d = 0 := allZero_amountOf hz1 d
          have hra : releasedAmount s m b amt = getCommitment s.commitments m b := by
            simp [releasedAmount, hz]
          have hrz : relZ (Coins.amountOf (getCommitment s.commitments m b) d) ((b, amt) :: t) b d
              = Coins.amountOf (getCommitment s.commitments m b) d := by
            simp [relZ, anyZeroFor, hz]
          rw [hrel] at ih1 ih2
          have := hh1 b d
          rw [hra] at this
          simp only [↓reduceIte] at this
          refine ⟨by rw [hrz]; omega, by rw [hrz]; omega, hoth⟩
        · have hz' : allZero amt = false := by simpa using hz
          have hra : releasedAmount s m b amt = amt := by simp [releasedAmount, hz']
          have hcur1 : Coins.amountOf (getCommitment s1.commitments m b) d
              = Coins.amountOf (getCommitment s.commitments m b) d - Coins.amountOf amt d := by
            rw [hc, amountOf_getCommitment_setCommitment_self hi.wf.ckeys]
            simp [hz']
          have hrz : ∀ c, relZ c ((b, amt) :: t) b d = Coins.amountOf amt d + relZ (c - Coins.amountOf amt d) t b d := by
            intro c
            have hany : anyZeroFor ((b, amt) :: t) b = anyZeroFor t b := by
              simp [anyZeroFor, hz']
            simp only [relZ, hany, entriesAt, ↓reduceIte]
            cases anyZeroFor t b <;> simp <;> omega
          have := hh1 b d
          rw [hra] at this
          simp only [↓reduceIte] at this
          rw [hcur1] at ih1 ih2
          refine ⟨by rw [hrz]; omega, by rw [hrz]; omega, hoth⟩
      · have hcur1 : getCommitment s1.commitments m a = getCommitment s.commitments m a := by
          rw [hc, getCommitment_setCommitment_ne]
          intro heq; simp only [Prod.mk.injEq] at heq; exact hba heq.2.symm
        have hrz : ∀ c, relZ c ((b, amt) :: t) a d = relZ c t a d := by
          intro c
          have hany : anyZeroFor ((b, amt) :: t) a = anyZeroFor t a := by
            simp [anyZeroFor, hba]
          simp only [relZ, hany, entriesAt, if_neg hba]
          cases anyZeroFor t a <;> simp
        have := hh1 a d
        simp only [if_neg hba] at this
        rw [hcur1] at ih1 ih2
        refine ⟨by rw [hrz]; omega, by rw [hrz]; omega, hoth⟩


/-! ### validated coins: zero amount = empty amount -/

theorem allZero_eq_isEmpty_of_valid {cs : Coins} (h : isValidCoins cs = true) : allZero cs = cs.isEmpty := by
  cases cs with
  | nil => rfl
  | cons c t =>
    simp only [isValidCoins, Bool.and_eq_true, List.all_cons, decide_eq_true_eq] at h
    have : c.2 ≠ 0 := by have := h.1.1.1; omega
    simp [allZero, this]

/-! ### commitment settlement, item by item -/

/-- entries that name a positive amount (what `ValidateBasic` demands of inputs, outputs, fees) -/
def EntriesPos (es : List (Addr × Coins)) : Prop :=
  ∀ e ∈ es, EntriesNonneg e.2 ∧ ∃ d, 0 < Coins.amountOf e.2 d

theorem entriesPos_of_valid {es : List (Addr × Coins)}
    (h : ∀ e ∈ es, isValidCoins e.2 = true ∧ e.2.isEmpty = false) : EntriesPos es := by
  intro e he
  obtain ⟨hv, hne⟩ := h e he
  refine ⟨isValidCoins_nonneg hv, ?_⟩
  cases hcs : e.2 with
  | nil => rw [hcs] at hne; simp at hne
  | cons c t =>
    rw [hcs] at hv
    have hpos : 0 < c.2 := by
      simp only [isValidCoins, Bool.and_eq_true, List.all_cons, decide_eq_true_eq] at hv
      exact hv.1.1.1
    have := entry_le_amountOf (isValidCoins_nonneg hv) (c := c) (by simp)
    exact ⟨c.1, by omega⟩

theorem entriesPos_not_zero {es : List (Addr × Coins)} (h : EntriesPos es) (a : Addr) : anyZeroFor es a = false := by
  simp only [anyZeroFor, List.any_eq_false, Bool.and_eq_true, decide_eq_true_eq, not_and]
  intro e he _ hz
  obtain ⟨_, d, hd⟩ := h e he
  rw [allZero_amountOf hz d] at hd
  omega

theorem simplify_pos {es : List (Addr × Coins)} (h : EntriesPos es) : EntriesPos (simplify es) := by
  unfold simplify
  suffices H : ∀ (acc : List (Addr × Coins)), EntriesPos acc → EntriesPos (es.foldl (fun acc e =>
      if acc.any (·.1 = e.1) then acc.map fun x => if x.1 = e.1 then (x.1, norm (x.2 ++ e.2)) else x
      else acc ++ [(e.1, norm e.2)]) acc) from H [] (fun e he => by simp at he)
  induction es with
  | nil => intro acc hacc; simpa using hacc
  | cons e t ih =>
    intro acc hacc
    simp only [List.foldl_cons]
    apply ih (fun e' he' => h e' (by simp [he']))
    obtain ⟨hen, de, hde⟩ := h e (by simp)
    split
    · intro x hx
      simp only [List.mem_map] at hx
      obtain ⟨y, hy, rfl⟩ := hx
      split
      · refine ⟨entriesNonneg_norm (entriesNonneg_append (hacc y hy).1 hen), de, ?_⟩
        have := amountOf_nonneg (hacc y hy).1 de
        simp only [amountOf_norm, Coins.amountOf_append]
        omega
      · exact hacc y hy
    · intro x hx
      rcases List.mem_append.mp hx with hx' | hx'
      · exact hacc x hx'
      · simp at hx'; subst hx'
        exact ⟨entriesNonneg_norm hen, de, by simpa using hde⟩

theorem entriesAt_mapUpd (acc : List (Addr × Coins)) (e : Addr × Coins) (hn : (acc.map (·.1)).Nodup)
    (a : Addr) (d : Denom) :
    entriesAt (acc.map fun x => if x.1 = e.1 then (x.1, norm (x.2 ++ e.2)) else x) a d =
      entriesAt acc a d +
        (if e.1 ∈ acc.map (·.1) then (if e.1 = a then Coins.amountOf e.2 d else 0) else 0) := by
  induction acc with
  | nil => simp [entriesAt]
  | cons x t ih =>
    simp only [List.map_cons, List.nodup_cons] at hn
    have iht := ih hn.2
    simp only [List.map_cons, entriesAt, iht, List.mem_cons]
    by_cases hx : x.1 = e.1
    · have hnot : e.1 ∉ t.map (·.1) := by rw [← hx]; exact hn.1
      simp only [hx, ↓reduceIte, hnot, true_or, amountOf_norm, Coins.amountOf_append]
      split <;> omega
    · have hx' : ¬ e.1 = x.1 := fun h => hx h.symm
      simp only [hx, ↓reduceIte, hx', false_or]
      omega

theorem keys_mapUpd (acc : List (Addr × Coins)) (e : Addr × Coins) :
    (acc.map fun x => if x.1 = e.1 then (x.1, norm (x.2 ++ e.2)) else x).map (·.1) = acc.map (·.1) := by
  induction acc with
  | nil => rfl
  | cons x t ih =>
    simp only [List.map_cons, ih]
    split <;> rfl

/-- `SimplifyAccountAmounts` keeps what every account is named for, per denom -/
theorem entriesAt_simplify (es : List (Addr × Coins)) (a : Addr) (d : Denom) :
    entriesAt (simplify es) a d = entriesAt es a d := by
  unfold simplify
  suffices H : ∀ (acc : List (Addr × Coins)), (acc.map (·.1)).Nodup →
      entriesAt (es.foldl (fun acc e =>
        if acc.any (·.1 = e.1) then acc.map fun x => if x.1 = e.1 then (x.1, norm (x.2 ++ e.2)) else x
        else acc ++ [(e.1, norm e.2)]) acc) a d = entriesAt acc a d + entriesAt es a d by
    have := H [] (by simp)
    simpa [entriesAt] using this
  induction es with
  | nil => intro acc _; simp [entriesAt]
  | cons e t ih =>
    intro acc hn
    simp only [List.foldl_cons]
    by_cases hany : acc.any (·.1 = e.1) = true
    · have hmem : e.1 ∈ acc.map (·.1) := by
        simp only [List.any_eq_true, decide_eq_true_eq] at hany
        obtain ⟨x, hx, hxe⟩ := hany
        exact List.mem_map.mpr ⟨x, hx, hxe⟩
      rw [if_pos hany, ih _ (by rw [keys_mapUpd]; exact hn), entriesAt_mapUpd acc e hn, if_pos hmem]
      simp only [entriesAt]
      omega
    · have hnot : e.1 ∉ acc.map (·.1) := by
        intro hm
        apply hany
        obtain ⟨x, hx, hxe⟩ := List.mem_map.mp hm
        simp only [List.any_eq_true, decide_eq_true_eq]
        exact ⟨x, hx, hxe⟩
      rw [if_neg hany, ih _ (by
        rw [List.map_append, List.nodup_append]
        refine ⟨hn, by simp, ?_⟩
        intro x hx y hy
        simp at hy; subst hy
        intro hxy; subst hxy; exact hnot hx), entriesAt_append]
      simp only [entriesAt, amountOf_norm]
      omega

theorem debitAll_hold {s s' : State} {es : List (Addr × Coins)} (h : debitAll s es = some s') : s'.hold = s.hold := by
  induction es generalizing s with
  | nil => simp only [debitAll] at h; injection h with h; subst h; rfl
  | cons x t ih =>
    obtain ⟨a, cs⟩ := x
    simp only [debitAll] at h
    split at h
    · have := ih h
      exact this
    · simp at h

theorem creditAll_hold (s : State) (es : List (Addr × Coins)) : (creditAll s es).hold = s.hold := by
  induction es generalizing s with
  | nil => rfl
  | cons x t ih =>
    obtain ⟨a, cs⟩ := x
    simp only [creditAll]
    have := ih { s with bank := Ledger.credit s.bank a cs }
    exact this

theorem sendAllTo_hold {s s' : State} {dst : Addr} {es : List (Addr × Coins)} (h : sendAllTo s dst es = some s') :
    s'.hold = s.hold := by
  induction es generalizing s with
  | nil => simp only [sendAllTo] at h; injection h with h; subst h; rfl
  | cons x t ih =>
    obtain ⟨a, cs⟩ := x
    simp only [sendAllTo] at h
    split at h
    · simp at h
    · rename_i s1 hs1
      obtain ⟨k', e1, _⟩ := sendCoins_eq hs1
      rw [ih h, e1]

/-- re-committing the outputs raises every account's hold by what the outputs name for it -/
theorem commitAll_delta {s s' : State} {m : Nat} {es : List (Addr × Coins)} (hi : Inv s) (hg : EntriesGood es)
    (h : commitAll s m es = .ok s') (a : Addr) (d : Denom) : hold s' a d = hold s a d + entriesAt es a d := by
  induction es generalizing s with
  | nil => simp only [commitAll] at h; injection h with h; subst h; simp [entriesAt]
  | cons x t ih =>
    obtain ⟨b, cs⟩ := x
    simp only [commitAll] at h
    split at h
    · simp at h
    · rename_i s1 hs1
      obtain ⟨hi1, hh1⟩ := addCommitmentCore_inv hi (hg (b, cs) (by simp)).1 hs1
      rw [ih hi1 (fun e he => hg e (by simp [he])) h, hh1 a d]
      simp only [entriesAt]
      omega

/-- **`MarketCommitmentSettle`, item by item**: every account's hold falls by what the inputs and
the fees name for it and rises by what the outputs name for it. -/
theorem settleCommitments_delta {s s' : State} {admin : Addr} {m : Nat} {ins outs fees : List (Addr × Coins)}
    (hi : Inv s) (h : settleCommitments s admin m ins outs fees = .ok s') (a : Addr) (d : Denom) :
    hold s' a d = hold s a d - entriesAt ins a d - entriesAt fees a d + entriesAt outs a d := by
  unfold settleCommitments at h
  split at h
  · simp at h
  · rename_i hv
    split at h
    · simp at h
    · simp only at h
      split at h
      · simp at h
      · rename_i s1 hs1
        split at h
        · simp at h
        · rename_i s2 hs2
          split at h
          · simp at h
          · rename_i s3 hs3
            have h4 : ∀ e ∈ ins ++ outs ++ fees, isValidCoins e.2 = true ∧ e.2.isEmpty = false := by
              simp only [not_or] at hv
              have h4 : ((ins ++ outs ++ fees).all fun e => isValidCoins e.2 && !e.2.isEmpty) = true := by
                have := hv.2.2.2.1
                simpa using this
              simp only [List.all_eq_true, Bool.and_eq_true, Bool.not_eq_true'] at h4
              exact h4
            have hall : ∀ e ∈ ins ++ outs ++ fees, EntriesNonneg e.2 := fun e he => isValidCoins_nonneg (h4 e he).1
            have hpi : EntriesPos ins := entriesPos_of_valid (fun e he => h4 e (by simp [he]))
            have hpf : EntriesPos fees := entriesPos_of_valid (fun e he => h4 e (by simp [he]))
            have hgi := simplify_good (es := ins) (fun e he => hall e (by simp [he]))
            have hgo := simplify_good (es := outs) (fun e he => hall e (by simp [he]))
            have hgf := simplify_good (es := fees) (fun e he => hall e (by simp [he]))
            have hpos : EntriesPos (simplify (simplify ins ++ simplify fees)) := by
              apply simplify_pos
              intro e he
              rcases List.mem_append.mp he with h1 | h1
              · exact simplify_pos hpi e h1
              · exact simplify_pos hpf e h1
            have hi1 := releaseCommitments_inv hi hs1
            have hi2 := debitAll_inv hi1 hgi hs2
            have hi3 := sendAllTo_inv (creditAll_inv hi2 hgo) hgf hs3
            have hd1 := (releaseCommitments_delta hi hs1 a d).1
            have hd4 := commitAll_delta hi3 hgo h a d
            have h12 : hold s3 a d = hold s1 a d := by
              simp only [hold, sendAllTo_hold hs3, creditAll_hold, debitAll_hold hs2]
            rw [hd4, h12, hd1]
            simp only [relZ, entriesPos_not_zero hpos a, Bool.false_eq_true, ↓reduceIte, entriesAt_simplify,
              entriesAt_append]
            omega


/-! ### which records a fill / a payment cancellation removes -/

theorem fillBidsOrders_getOrders {s : State} {seller : Addr} {m : Nat} {ids : List Nat} {total : Coins}
    {flat cfee : Option Coin} {bids : List Order} (h : fillBidsOrders s seller m ids total flat cfee = .ok bids) :
    getOrders s m ids false seller = .ok bids := by
  unfold fillBidsOrders at h
  split at h
  · simp at h
  · split at h
    · simp at h
    · split at h
      · simp at h
      · split at h
        · simp at h
        · split at h
          · simp at h
          · split at h
            · simp at h
            · rename_i bids' hb
              split at h
              · simp at h
              · injection h with h; subst h; exact hb

theorem fillAsksOrders_getOrders {s : State} {buyer : Addr} {m : Nat} {ids : List Nat} {total : Coin}
    {fees : Coins} {cfee : Option Coin} {asks : List Order} (h : fillAsksOrders s buyer m ids total fees cfee = .ok asks) :
    getOrders s m ids true buyer = .ok asks := by
  unfold fillAsksOrders at h
  split at h
  · simp at h
  · split at h
    · simp at h
    · split at h
      · simp at h
      · split at h
        · simp at h
        · split at h
          · simp at h
          · split at h
            · simp at h
            · rename_i asks' ha
              split at h
              · simp at h
              · injection h with h; subst h; exact ha

/-- every order a lookup returns is of the requested side and market, and not the caller's -/
theorem getOrders_side {s : State} {m : Nat} {ids : List Nat} {ask : Bool} {no : Addr} {os : List Order}
    (h : getOrders s m ids ask no = .ok os) : ∀ o ∈ os, o.isAsk = ask ∧ o.market = m ∧ o.owner ≠ no := by
  induction ids generalizing os with
  | nil => simp only [getOrders] at h; injection h with h; subst h; simp
  | cons id t ih =>
    simp only [getOrders] at h
    split at h
    · simp at h
    · rename_i o hg
      split at h
      · simp at h
      · rename_i h1
        split at h
        · simp at h
        · rename_i h2
          split at h
          · simp at h
          · rename_i h3
            split at h
            · simp at h
            · rename_i os' hos'
              injection h with h; subst h
              intro x hx
              rcases List.mem_cons.mp hx with rfl | hx'
              · exact ⟨by simpa using h1, by simpa using h2, h3⟩
              · exact ih hos' x hx'

/-- the records of a user fill: exactly the listed orders are deleted -/
theorem fill_orders_deleted {s s' : State} {os : List Order} {moves : List (Addr × Coins)} (hi : Inv s)
    (hp : PlanOk s.orders { full := os, part := none })
    (h : closeSettlement s { full := os, part := none } moves = .ok s') :
    (∀ o ∈ os, getOrder s'.orders o.id = none) ∧
    (∀ id, id ∉ os.map (·.id) → getOrder s'.orders id = getOrder s.orders id) := by
  obtain ⟨_, _, hord⟩ := closeSettlement_inv hi hp h
  simp only at hord
  constructor
  · intro o ho
    rw [hord]
    exact getOrder_deleteAll_mem hi.wf.idsNodup (List.mem_map.mpr ⟨o, ho, rfl⟩)
  · intro id hid
    rw [hord]
    exact getOrder_deleteAll_not_mem _ _ hid

theorem getPayment_deletePayment_self {ps : List Payment} (h : (ps.map payKey).Nodup) (src : Addr) (ext : String) :
    getPayment (deletePayment ps src ext) src ext = none := by
  induction ps with
  | nil => simp [deletePayment, getPayment]
  | cons x t ih =>
    simp only [List.map_cons, List.nodup_cons] at h
    simp only [deletePayment]
    split
    · rename_i hx
      cases hg : getPayment t src ext with
      | none => rfl
      | some q =>
        exfalso
        apply h.1
        have hk := getPayment_some_key hg
        exact List.mem_map.mpr ⟨q, getPayment_mem hg, by simp [payKey, hk.1, hk.2, hx.1, hx.2]⟩
    · rename_i hx
      simp only [getPayment, if_neg hx]
      exact ih h.2

/-- the records of `deletePaymentsAndReleaseHolds`: exactly the listed payments are gone -/
theorem deletePaymentsAndReleaseHolds_records {s s' : State} {ps : List Payment} (hi : Inv s)
    (hk : (ps.map payKey).Nodup) (hg : ∀ p ∈ ps, getPayment s.payments p.source p.extId = some p)
    (h : deletePaymentsAndReleaseHolds s ps = some s') :
    (∀ p ∈ ps, getPayment s'.payments p.source p.extId = none) ∧
    (∀ src ext, (src, ext) ∉ ps.map payKey → getPayment s'.payments src ext = getPayment s.payments src ext) ∧
    s'.orders = s.orders ∧ s'.commitments = s.commitments := by
  induction ps generalizing s with
  | nil =>
    simp only [deletePaymentsAndReleaseHolds] at h
    injection h with h; subst h
    exact ⟨fun p hp => by simp at hp, fun _ _ _ => rfl, rfl, rfl⟩
  | cons p t ih =>
    simp only [deletePaymentsAndReleaseHolds] at h
    split at h
    · simp at h
    · rename_i s1 hs1
      simp only [List.map_cons, List.nodup_cons] at hk
      obtain ⟨hi1, _, hp1, _⟩ := deletePaymentAndReleaseHold_inv hi (hg p (by simp)) hs1
      have hoc : s1.orders = s.orders ∧ s1.commitments = s.commitments := by
        unfold deletePaymentAndReleaseHold at hs1
        obtain ⟨h', e1, _, _⟩ := releaseHoldTx_eq hs1
        rw [e1]; exact ⟨rfl, rfl⟩
      obtain ⟨ih1, ih2, ih3, ih4⟩ := ih hi1 hk.2 (by
        intro q hq
        rw [hp1, getPayment_deletePayment_ne]
        · exact hg q (by simp [hq])
        · intro heq
          apply hk.1
          exact List.mem_map.mpr ⟨q, hq, by simpa [payKey] using heq⟩) h
      refine ⟨?_, ?_, by rw [ih3, hoc.1], by rw [ih4, hoc.2]⟩
      · intro q hq
        rcases List.mem_cons.mp hq with rfl | hq'
        · rw [ih2 _ _ hk.1, hp1]
          exact getPayment_deletePayment_self hi.wf.keys _ _
        · exact ih1 q hq'
      · intro src ext hne
        simp only [List.map_cons, List.mem_cons, not_or] at hne
        rw [ih2 src ext hne.2, hp1, getPayment_deletePayment_ne]
        exact hne.1

/-! ### genesis: outside the record keys nothing is owed; a validated hold genesis is non-negative -/

theorem ordersObl_zero_off_keys {os : List Order} {a : Addr} {d : Denom}
    (h : ∀ o ∈ os, o.owner = a → d ∉ Coins.denoms (holdAmt o)) : ordersObl os a d = 0 := by
  induction os with
  | nil => rfl
  | cons o t ih =>
    rw [ordersObl_cons, ih (fun o' ho' => h o' (by simp [ho']))]
    unfold contrib
    split
    · rename_i ho
      rw [amountOf_eq_zero_of_not_mem (h o (by simp) ho)]; rfl
    · rfl

theorem commitsObl_zero_off_keys {cs : List Commitment} {a : Addr} {d : Denom}
    (h : ∀ c ∈ cs, c.account = a → d ∉ Coins.denoms c.amount) : commitsObl cs a d = 0 := by
  induction cs with
  | nil => rfl
  | cons c t ih =>
    rw [commitsObl_cons, ih (fun c' hc' => h c' (by simp [hc']))]
    split
    · rename_i hc
      rw [amountOf_eq_zero_of_not_mem (h c (by simp) hc)]; rfl
    · rfl

theorem paysObl_zero_off_keys {ps : List Payment} {a : Addr} {d : Denom}
    (h : ∀ p ∈ ps, p.source = a → d ∉ Coins.denoms p.sourceAmt) : paysObl ps a d = 0 := by
  induction ps with
  | nil => rfl
  | cons p t ih =>
    rw [paysObl_cons, ih (fun p' hp' => h p' (by simp [hp']))]
    unfold pcontrib
    split
    · rename_i hp
      rw [amountOf_eq_zero_of_not_mem (h p (by simp) hp)]; rfl
    · rfl

/-- an (account, denom) that no record mentions owes nothing -/
theorem obligations_zero_off_keys {s : State} {a : Addr} {d : Denom} (h : (a, d) ∉ recordKeys s) :
    obligations s a d = 0 := by
  simp only [recordKeys, List.mem_append, List.mem_flatten, List.mem_map, not_or, not_exists, not_and] at h
  obtain ⟨⟨h1, h2⟩, h3⟩ := h
  have e1 : ordersObl s.orders a d = 0 := ordersObl_zero_off_keys (fun o ho hoa hd => by
    obtain ⟨c, hc, hcd⟩ := List.mem_map.mp hd
    refine h1 _ ⟨o, ho, rfl⟩ ?_
    exact List.mem_map.mpr ⟨c, hc, by rw [hoa, ← hcd]⟩)
  have e2 : commitsObl s.commitments a d = 0 := commitsObl_zero_off_keys (fun c hc hca hd => by
    obtain ⟨x, hx, hxd⟩ := List.mem_map.mp hd
    refine h2 _ ⟨c, hc, rfl⟩ ?_
    exact List.mem_map.mpr ⟨x, hx, by rw [hca, ← hxd]⟩)
  have e3 : paysObl s.payments a d = 0 := paysObl_zero_off_keys (fun p hp hpa hd => by
    obtain ⟨x, hx, hxd⟩ := List.mem_map.mp hd
    refine h3 _ ⟨p, hp, rfl⟩ ?_
    exact List.mem_map.mpr ⟨x, hx, by rw [hpa, ← hxd]⟩)
  simp only [obligations, e1, e2, e3]; rfl

theorem genesisHold_nonneg {hs : List (Addr × Coins)} (h : ∀ e ∈ hs, EntriesNonneg e.2) (a : Addr) (d : Denom) :
    0 ≤ Ledger.bal (genesisHoldLedger hs) a d := by
  induction hs with
  | nil => simp [genesisHoldLedger]
  | cons e t ih =>
    obtain ⟨b, cs⟩ := e
    simp only [genesisHoldLedger, Ledger.bal_append, Ledger.bal_entries]
    have := ih (fun e' he' => h e' (by simp [he']))
    have : 0 ≤ Coins.amountOf cs d := amountOf_nonneg (h (b, cs) (by simp)) d
    split <;> omega

end PvProofs.Exhold
