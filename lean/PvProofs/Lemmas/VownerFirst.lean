/-
Helper lemmas for C09: who may give a scope its FIRST value owner (token minted: holder none → some).
Only WriteScope can; on an existing scope the write's party validation applies in full.
-/
import PvProofs.Lemmas.VownerEffects

namespace PvProofs.VownerL
open PvModel PvModel.Ledger PvModel.Vowner

/-- `p` signs the message or has an authz grant in force, for this message type, to a signer -/
def SignsOrGrants (s : State) (signers : List Addr) (mt : MsgType) (p : Addr) : Prop :=
  p ∈ signers ∨ ∃ g ∈ s.grants, g.granter = p ∧ g.grantee ∈ signers ∧ g.mt = mt

/-- the parties of the existing scope `e` whose agreement a write needs: all of them on a plain
scope, the required (non-optional) ones on a `require_party_rollup` scope — each signs or has
granted a signer -/
def PartiesAgree (s : State) (e : Scope) (signers : List Addr) : Prop :=
  ∀ p ∈ e.owners, (e.rollup = false ∨ p.optional = false) → SignsOrGrants s signers .write p.addr

theorem signsOrGrants_of_keyIn {s : State} {signers : List Addr} {mt : MsgType} {p : Addr}
    (h : p ∈ signers ∨ ∃ ge ∈ signers, KeyIn s.grants ge p mt) : SignsOrGrants s signers mt p := by
  rcases h with h | ⟨ge, hge, g, hg, h1, h2, h3⟩
  · exact Or.inl h
  · exact Or.inr ⟨g, hg, h2, by rw [h1]; exact hge, h3⟩

theorem associateRequired_consent {pre : List Grant} {signers : List Addr} {mt : MsgType}
    {ds ds' : List PartyDetails} {a a' : Auth} (hw : AuthWf pre a)
    (h : associateRequired signers mt a ds = .ok (a', ds')) :
    ∀ p ∈ ds, p.optional = false → p.signer ≠ "" ∨ ∃ ge ∈ signers, KeyIn pre ge p.addr mt := by
  induction ds generalizing a a' ds' with
  | nil => intro p hp; simp at hp
  | cons q rest ih =>
    unfold associateRequired at h
    intro p hp hopt
    split at h
    · rename_i hc
      cases hr : associateRequired signers mt a rest with
      | error e => rw [hr] at h; simp at h
      | ok r =>
        rcases List.mem_cons.mp hp with rfl | hp'
        · simp only [hopt, Bool.false_or, decide_eq_true_eq] at hc
          exact Or.inl hc
        · exact ih hw hr p hp' hopt
    · split at h
      · rename_i a1 g hf
        obtain ⟨hw1, hr1⟩ := findAuthzGrantee_spec hw hf
        cases hr : associateRequired signers mt a1 rest with
        | error e => rw [hr] at h; simp at h
        | ok r =>
          rcases List.mem_cons.mp hp with rfl | hp'
          · obtain ⟨m, k⟩ := hr1 g rfl
            exact Or.inr ⟨g, m, k⟩
          · exact ih hw1 hr p hp' hopt
      · simp at h

/-- what the party validation of a roll-up scope establishes about its required parties -/
theorem validateAllRequiredPartiesSigned_consent {pre : List Grant} {signers : List Addr} {mt : MsgType}
    {parties : List Party} {a a' : Auth} {used : List Addr} (hw : AuthWf pre a)
    (h : validateAllRequiredPartiesSigned a signers mt parties = .ok (a', used)) :
    ∀ p ∈ parties, p.optional = false → p.addr ∈ signers ∨ ∃ ge ∈ signers, KeyIn pre ge p.addr mt := by
  unfold validateAllRequiredPartiesSigned at h
  cases hr : associateRequired signers mt a (associateSigners signers parties) with
  | error e => rw [hr] at h; simp at h
  | ok r =>
    intro p hp hopt
    have hmem : (⟨p.addr, p.optional, if signers.contains p.addr then p.addr else ""⟩ : PartyDetails)
        ∈ associateSigners signers parties := by
      unfold associateSigners
      exact List.mem_map.mpr ⟨p, hp, rfl⟩
    rcases associateRequired_consent hw hr _ hmem hopt with h1 | h1
    · left
      simp only at h1
      by_cases hc : signers.contains p.addr = true
      · simpa using hc
      · simp at h1; exact h1.1
    · exact Or.inr h1

/-- a write that names a value owner for an existing scope WITHOUT one is never "only a change of
value owner": the scope's parties are validated -/
theorem writeParties_first {s : State} {e : Scope} {owners : List Party} {rollup : Bool}
    {signers : List Addr} {vo : Addr} {r : Auth × List Addr} (hvo : vo ≠ "")
    (h : writeParties s (some e) owners rollup signers "" vo = .ok r) : PartiesAgree s e signers := by
  obtain ⟨a, used⟩ := r
  simp only [writeParties, Option.isSome_some, ne_eq, not_true_eq_false, decide_false, Bool.and_false,
    Bool.false_and, Bool.false_eq_true, if_false] at h
  split at h
  · simp at h
  · intro p hp hreq
    by_cases hru : e.rollup = true
    · simp only [hru, Bool.not_true, Bool.false_eq_true, if_false] at h
      have hopt : p.optional = false := by
        rcases hreq with h1 | h1
        · rw [hru] at h1; cases h1
        · exact h1
      exact signsOrGrants_of_keyIn (validateAllRequiredPartiesSigned_consent (authWf_init _) h p hp hopt)
    · have hru' : e.rollup = false := by simpa using hru
      simp only [hru', Bool.not_false, if_true] at h
      have hne : ¬ ("" = vo) := fun e => hvo e.symm
      simp only [hne, decide_false, Bool.and_false, Bool.not_false, if_true] at h
      exact signsOrGrants_of_keyIn
        (validateAllRequiredSigned_consent (authWf_init _) h p.addr (List.mem_map.mpr ⟨p, hp, rfl⟩))

theorem validateWriteScope_first {s : State} {id : ScopeId} {owners : List Party} {rollup : Bool} {vo : Addr}
    {signers : List Addr} {r : Auth × List Addr} (hnone : HolderIs s.ledger id none) (hvo : vo ≠ "")
    (h : validateWriteScope s id owners rollup vo signers = .ok r) :
    signers ≠ [] ∧ ∀ e, findScope s id = some e → PartiesAgree s e signers := by
  unfold validateWriteScope at h
  split at h
  · simp at h
  · rename_i hvalid
    have hsg : signers ≠ [] := by intro e; subst e; simp at hvalid
    refine ⟨hsg, fun e he => ?_⟩
    have hev : writeExistingVO s id (findScope s id) vo = .ok none := by
      unfold writeExistingVO
      rw [denomOwner_of_holderIs hnone]; simp
    rw [hev] at h; simp only at h
    cases hp : writeParties s (findScope s id) owners rollup signers ((none : Option Addr).getD "") vo with
    | error er => rw [hp] at h; simp at h
    | ok r1 =>
      rw [he] at hp
      exact writeParties_first hvo hp

/-- DeleteScope touches no other scope's token -/
theorem delete_effect {s s' : State} {id : ScopeId} {signers : List Addr}
    (hinv : Inv s) (h : deleteScope s id signers = .ok s') :
    ∀ d, d ≠ id → ∀ o, HolderIs s.ledger d o → HolderIs s'.ledger d o := by
  unfold deleteScope at h
  cases hv : validateDeleteScope s id signers with
  | error e => rw [hv] at h; simp at h
  | ok r =>
    obtain ⟨a, agents⟩ := r
    rw [hv] at h; simp only at h
    unfold removeScope at h
    split at h
    · simp at h; subst h; exact fun d _ o ho => ho
    · cases hsv : setScopeValueOwner { s with grants := a.grants } agents id "" with
      | error e => rw [hsv] at h; simp at h
      | ok s2 =>
        rw [hsv] at h; simp at h; subst h
        exact (setScopeValueOwner_spec (s := { s with grants := a.grants }) hinv.allHeld
          (validateDeleteScope_scopeDenom hv) hsv).2.1

end PvProofs.VownerL
