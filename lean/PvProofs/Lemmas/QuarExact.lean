/-
Helper lemmas for C07 (deepening round): exact effect of `qadd`, per-receiver record totals of
every operation, transfers under the context bypass, `Simplify`, the chain invariant.
-/
import PvProofs.Lemmas.QuarHist

namespace PvProofs.QuarL
open PvModel PvModel.Quar

/-! ### qadd -/

/-- a successful `qadd` is the (bypassed) transfer payer → holder followed by `AddQuarantinedCoins` -/
theorem qadd_facts {s s' : State} {to : Addr} {froms : List Addr} {amt : Coins} {payer : Addr} {rel : Coins}
    (inv : StoreInv s) (h : exec s (.qadd to froms amt payer) = .ok (s', rel)) :
    AddQ { s with bank := Ledger.move s.bank payer s.holder amt } s' amt to froms ∧ coinsValid amt = true ∧ rel = [] := by
  simp only [exec, qAdd] at h
  cases hv : (froms.isEmpty || !coinsValid amt)
  · simp only [hv, Bool.false_eq_true, if_false] at h
    cases hb : bankTransfers s true [⟨payer, s.holder, amt⟩] with
    | error e => simp [hb, Except.map] at h
    | ok s1 =>
      simp only [hb] at h
      cases hq : addQuarantinedCoins s1 amt to froms with
      | error e => simp [hq, Except.map] at h
      | ok s2 =>
        simp only [hq, Except.map, Except.ok.injEq, Prod.mk.injEq] at h
        obtain ⟨rfl, rfl⟩ := h
        obtain ⟨rfl, _, _⟩ := bankTransfers_bypass_ok hb
        have hvv : coinsValid amt = true := by
          simp only [Bool.or_eq_false_iff, Bool.not_eq_false'] at hv; exact hv.2
        exact ⟨addQuarantinedCoins_ok (inv_with_bank inv _) (coinsValid_nonneg hvv) hq, hvv, rfl⟩
  · simp [hv, Except.map] at h

theorem coinsAt_congr {s s' : State} {k : Addr × Suffix}
    (h : (kvGet s'.recs k).map (·.coins) = (kvGet s.recs k).map (·.coins)) : coinsAt s' k.1 k.2 = coinsAt s k.1 k.2 := by
  unfold coinsAt
  cases h1 : kvGet s'.recs (k.1, k.2) <;> cases h2 : kvGet s.recs (k.1, k.2) <;>
    simp_all

/-! ### per receiver -/

/-- a successful operation changes the total on record for receiver `t` by exactly what it
quarantines for `t` minus what `t`'s own accept releases -/
theorem exec_outFor {s s' : State} {op : Op} {rel : Coins} (inv : StoreInv s) (h : exec s op = .ok (s', rel))
    (t : Addr) (d : Denom) :
    outstandingFor s' t d = outstandingFor s t d + op.quarantinedFor s t d - op.ownRelease s t d := by
  cases op with
  | optIn a =>
    simp only [exec, Except.ok.injEq, Prod.mk.injEq] at h
    obtain ⟨rfl, _⟩ := h
    simp [(setOptIn_only s a).outstandingFor, Op.quarantinedFor, Op.ownRelease]
  | optOut a =>
    simp only [exec, Except.ok.injEq, Prod.mk.injEq] at h
    obtain ⟨rfl, _⟩ := h
    simp [(setOptOut_only s a).outstandingFor, Op.quarantinedFor, Op.ownRelease]
  | auto to ups =>
    simp only [exec] at h
    split at h
    · cases h
    · simp only [Except.ok.injEq, Prod.mk.injEq] at h
      obtain ⟨rfl, _⟩ := h
      simp [(setAutoResponses_only to ups s).outstandingFor, Op.quarantinedFor, Op.ownRelease]
  | send f t' c =>
    have T := exec_transfer inv h (by simp [Op.xfers])
    rw [T.outFor]; simp [Op.quarantinedFor, Op.ownRelease]
  | msend f outs =>
    by_cases ho : outs = []
    · subst ho; simp [exec, msgMultiSend, Except.map] at h
    · have T := exec_transfer inv h (by simpa [Op.xfers] using ho)
      rw [T.outFor]; simp [Op.quarantinedFor, Op.ownRelease]
  | iosend ins t' =>
    by_cases ho : ins = []
    · subst ho; simp [exec, ioSend, Except.map] at h
    · have T := exec_transfer inv h (by simpa [Op.xfers] using ho)
      rw [T.outFor]; simp [Op.quarantinedFor, Op.ownRelease]
  | bsend f t' c =>
    simp only [exec, bypassSend] at h
    cases hv : coinsValid c
    · simp [hv, Except.map] at h
    · simp only [hv, Bool.not_true, Bool.false_eq_true, if_false] at h
      cases hb : bankTransfers s true [⟨f, t', c⟩] with
      | error e => simp [hb, Except.map] at h
      | ok s1 =>
        simp only [hb, Except.map, Except.ok.injEq, Prod.mk.injEq] at h
        obtain ⟨rfl, _⟩ := h
        obtain ⟨rfl, _, _⟩ := bankTransfers_bypass_ok hb
        simp [outstandingFor, Op.quarantinedFor, Op.ownRelease]
  | accept to froms perm =>
    obtain ⟨s1, A, O⟩ := accept_facts inv h
    rw [O.outstandingFor, A.outFor, relSum_eq_expReleased inv to froms]
    simp only [Op.quarantinedFor, Op.ownRelease]
    split
    · rename_i e; subst e; omega
    · omega
  | decline to froms perm =>
    simp only [exec, msgDecline] at h
    cases hf : froms.isEmpty
    · simp only [hf, Bool.false_eq_true, if_false, Except.map, Except.ok.injEq, Prod.mk.injEq] at h
      obtain ⟨rfl, _⟩ := h
      have D := declineQuarantinedFunds_ok inv to froms
      split
      · rw [(setAutoResponses_only to _ _).outstandingFor, D.outFor]; simp [Op.quarantinedFor, Op.ownRelease]
      · rw [D.outFor]; simp [Op.quarantinedFor, Op.ownRelease]
    · simp [hf, Except.map] at h
  | qadd to froms amt payer =>
    obtain ⟨Q, _, _⟩ := qadd_facts inv h
    rw [Q.outFor]
    simp only [Op.quarantinedFor, Op.ownRelease]
    show outstandingFor s t d + _ = _
    omega

/-! ### transfers under the context bypass, any number of inputs / outputs -/

theorem applyRestrictions_bypass (xs : List Xfer) :
    ∀ (s s' : State) (outs : List (Addr × Coins)), applyRestrictions s true xs = .ok (s', outs) →
      s' = s ∧ outs = xs.map fun x => (x.to, x.amt) := by
  induction xs with
  | nil =>
    intro s s' outs h
    simp only [applyRestrictions, Except.ok.injEq, Prod.mk.injEq] at h
    exact ⟨h.1.symm, h.2.symm⟩
  | cons x rest ih =>
    intro s s' outs h
    unfold applyRestrictions at h
    cases hr : restrictionChain s true x.from_ x.to x.amt with
    | error e => simp [hr] at h
    | ok p =>
      obtain ⟨s1, dest⟩ := p
      simp only [hr] at h
      obtain ⟨_, hsr⟩ := restrictionChain_ok hr
      simp only [sendRestrictionFn, if_true, Except.ok.injEq, Prod.mk.injEq] at hsr
      obtain ⟨rfl, rfl⟩ := hsr
      cases hrest : applyRestrictions s true rest with
      | error e => simp [hrest] at h
      | ok q =>
        obtain ⟨s2, outs2⟩ := q
        simp only [hrest, Except.ok.injEq, Prod.mk.injEq] at h
        obtain ⟨rfl, rfl⟩ := h
        obtain ⟨rfl, rfl⟩ := ih _ _ _ hrest
        exact ⟨rfl, rfl⟩

theorem creditSum_map_to (xs : List Xfer) (a : Addr) (d : Denom) :
    creditSum (xs.map fun x => (x.to, x.amt)) a d = receivedBy xs a d := by
  induction xs with
  | nil => rfl
  | cons x rest ih => simp only [List.map_cons, creditSum, receivedBy, ih]

theorem debitSum_eq_sentBy (xs : List Xfer) (a : Addr) (d : Denom) : debitSum xs a d = sentBy xs a d := by
  induction xs with
  | nil => rfl
  | cons x rest ih => simp only [debitSum, sentBy, ih]

/-! ### who is credited by the sends -/

theorem acceptedCredit_congr {s s' : State} (h : s'.auto = s.auto) (xs : List Xfer) (a : Addr) (d : Denom) :
    acceptedCredit s' xs a d = acceptedCredit s xs a d := by
  induction xs with
  | nil => rfl
  | cons x rest ih => simp only [acceptedCredit, getAutoResponse_congr h, ih]

/-- an opted-in account (not the holder) gets, out of the transfers `xs` not sent by the holder,
exactly those from senders it has on auto-accept -/
theorem expDelta_opted_in (s : State) (xs : List Xfer) (a : Addr) (d : Denom) (ha : a ≠ s.holder)
    (hq : isQuarantinedAddr s a = true) (hf : ∀ x ∈ xs, x.from_ ≠ s.holder) :
    expDelta s xs a d = acceptedCredit s xs a d - sentBy xs a d := by
  induction xs with
  | nil => simp [expDelta, acceptedCredit, sentBy]
  | cons x rest ih =>
    have h1 := hf x (List.mem_cons_self ..)
    have := ih (fun y hy => hf y (List.mem_cons_of_mem _ hy))
    simp only [expDelta, acceptedCredit, sentBy, this]
    have hd : (destOf s x = a) ↔ (x.to = a ∧ getAutoResponse s a x.from_ = .accept) := by
      unfold destOf
      by_cases hto : x.to = a
      · subst hto
        by_cases hacc : getAutoResponse s x.to x.from_ = .accept
        · simp [quarantines, hacc]
        · simp [quarantines, hq, hacc, h1, Ne.symm ha]
      · by_cases hqq : quarantines s x.from_ x.to = true
        · simp [hqq, hto, Ne.symm ha]
        · have hqf : quarantines s x.from_ x.to = false := by simpa using hqq
          simp [hqf, hto]
    by_cases hc : x.to = a ∧ getAutoResponse s a x.from_ = .accept
    · rw [if_pos (hd.mpr hc), if_pos hc]; omega
    · rw [if_neg (fun e => hc (hd.mp e)), if_neg hc]; omega

/-! ### `Simplify` -/

theorem sfxLt_total : ∀ (x y : Suffix), sfxLt x y = false → x ≠ y → sfxLt y x = true := by
  intro x
  induction x with
  | nil =>
    intro y h hne
    cases y with
    | nil => exact absurd rfl hne
    | cons b bs => simp [sfxLt] at h
  | cons a as ih =>
    intro y h hne
    cases y with
    | nil => rfl
    | cons b bs =>
      simp only [sfxLt, Bool.or_eq_false_iff, decide_eq_false_iff_not, Bool.and_eq_false_iff] at h
      simp only [sfxLt, Bool.or_eq_true, decide_eq_true_eq, Bool.and_eq_true]
      by_cases hab : a = b
      · subst hab
        right
        refine ⟨rfl, ih bs ?_ (fun e => hne (by rw [e]))⟩
        rcases h.2 with h2 | h2
        · exact absurd rfl h2
        · exact h2
      · left
        apply Classical.byContradiction
        intro hba
        exact hab (String.le_antisymm (String.not_lt.mp hba) (String.not_lt.mp h.1))

theorem strictSorted_cons {x : Suffix} {l : List Suffix} (h : strictSorted l = true)
    (hx : ∀ y, l.head? = some y → sfxLt x y = true) : strictSorted (x :: l) = true := by
  cases l with
  | nil => rfl
  | cons y ys => simp [strictSorted, hx y rfl, h]

theorem strictSorted_tail {x : Suffix} {l : List Suffix} (h : strictSorted (x :: l) = true) : strictSorted l = true := by
  cases l with
  | nil => rfl
  | cons y ys => simp only [strictSorted, Bool.and_eq_true] at h; exact h.2

theorem strictSorted_insertSorted (x : Suffix) : ∀ (l : List Suffix), strictSorted l = true → x ∉ l →
    strictSorted (insertSorted x l) = true ∧
      ∀ y, (insertSorted x l).head? = some y → y = x ∨ l.head? = some y := by
  intro l
  induction l with
  | nil => intro _ _; exact ⟨rfl, fun y hy => Or.inl (by simpa [insertSorted] using hy.symm)⟩
  | cons y ys ih =>
    intro hs hx
    have hxy : x ≠ y := fun e => hx (e ▸ List.mem_cons_self ..)
    have hxys : x ∉ ys := fun e => hx (List.mem_cons_of_mem _ e)
    unfold insertSorted
    cases hlt : sfxLt x y
    · simp only [Bool.false_eq_true, if_false]
      obtain ⟨h1, h2⟩ := ih (strictSorted_tail hs) hxys
      refine ⟨strictSorted_cons h1 ?_, fun z hz => Or.inr (by simpa using hz)⟩
      intro z hz
      rcases h2 z hz with rfl | hz'
      · exact sfxLt_total _ _ hlt hxy
      · cases ys with
        | nil => simp at hz'
        | cons w ws =>
          simp only [List.head?_cons, Option.some.injEq] at hz'
          subst hz'
          simp only [strictSorted, Bool.and_eq_true] at hs
          exact hs.1
    · simp only [if_true]
      exact ⟨by simp [strictSorted, hlt, hs], fun z hz => Or.inl (by simpa using hz.symm)⟩

theorem strictSorted_insertSfx (x : Suffix) (l : List Suffix) (h : strictSorted l = true) :
    strictSorted (insertSfx x l) = true := by
  unfold insertSfx
  split
  · exact h
  · rename_i hc
    exact (strictSorted_insertSorted x l h (by simpa using hc)).1

theorem strictSorted_simplify (rm l : List Suffix) : strictSorted (simplify rm l) = true := by
  unfold simplify
  induction (l.filter fun x => !rm.contains x) with
  | nil => rfl
  | cons x t ih => exact strictSorted_insertSfx x _ ih

/-! ### a strictly sorted list is determined by its members -/

theorem sfxLt_irrefl : ∀ x : Suffix, sfxLt x x = false := by
  intro x
  induction x with
  | nil => rfl
  | cons a as ih => simp [sfxLt, ih, String.lt_irrefl]

theorem sfxLt_trans : ∀ (x y z : Suffix), sfxLt x y = true → sfxLt y z = true → sfxLt x z = true := by
  intro x
  induction x with
  | nil =>
    intro y z h1 h2
    cases y with
    | nil => simp [sfxLt] at h1
    | cons b bs =>
      cases z with
      | nil => simp [sfxLt] at h2
      | cons c cs => rfl
  | cons a as ih =>
    intro y z h1 h2
    cases y with
    | nil => simp [sfxLt] at h1
    | cons b bs =>
      cases z with
      | nil => simp [sfxLt] at h2
      | cons c cs =>
        simp only [sfxLt, Bool.or_eq_true, decide_eq_true_eq, Bool.and_eq_true] at h1 h2 ⊢
        rcases h1 with h1 | ⟨rfl, h1⟩
        · rcases h2 with h2 | ⟨rfl, _⟩
          · exact Or.inl (String.lt_trans h1 h2)
          · exact Or.inl h1
        · rcases h2 with h2 | ⟨rfl, h2⟩
          · exact Or.inl h2
          · exact Or.inr ⟨rfl, ih bs cs h1 h2⟩

theorem strictSorted_head_lt : ∀ (l : List Suffix) (x : Suffix), strictSorted (x :: l) = true →
    ∀ y ∈ l, sfxLt x y = true := by
  intro l
  induction l with
  | nil => intro x _ y hy; simp at hy
  | cons z t ih =>
    intro x h y hy
    simp only [strictSorted, Bool.and_eq_true] at h
    rcases List.mem_cons.mp hy with rfl | hy
    · exact h.1
    · exact sfxLt_trans _ _ _ h.1 (ih z h.2 y hy)

/-- a strictly sorted list is determined by its members -/
theorem strictSorted_ext : ∀ (l1 l2 : List Suffix), strictSorted l1 = true → strictSorted l2 = true →
    (∀ x, x ∈ l1 ↔ x ∈ l2) → l1 = l2 := by
  intro l1
  induction l1 with
  | nil =>
    intro l2 _ _ hm
    cases l2 with
    | nil => rfl
    | cons b t => exact absurd ((hm b).mpr (List.mem_cons_self ..)) (by simp)
  | cons a t1 ih =>
    intro l2 h1 h2 hm
    cases l2 with
    | nil => exact absurd ((hm a).mp (List.mem_cons_self ..)) (by simp)
    | cons b t2 =>
      have hlt1 := strictSorted_head_lt t1 a h1
      have hlt2 := strictSorted_head_lt t2 b h2
      have hab : a = b := by
        rcases List.mem_cons.mp ((hm a).mp (List.mem_cons_self ..)) with e | ha
        · exact e
        · rcases List.mem_cons.mp ((hm b).mpr (List.mem_cons_self ..)) with e | hb
          · exact e.symm
          · have := sfxLt_trans _ _ _ (hlt1 b hb) (hlt2 a ha)
            rw [sfxLt_irrefl] at this
            cases this
      subst hab
      congr 1
      apply ih t2 (strictSorted_tail h1) (strictSorted_tail h2)
      intro x
      constructor
      · intro hx
        rcases List.mem_cons.mp ((hm x).mp (List.mem_cons_of_mem _ hx)) with e | hx2
        · subst e
          have := hlt1 x hx
          rw [sfxLt_irrefl] at this
          cases this
        · exact hx2
      · intro hx
        rcases List.mem_cons.mp ((hm x).mpr (List.mem_cons_of_mem _ hx)) with e | hx1
        · subst e
          have := hlt2 x hx
          rw [sfxLt_irrefl] at this
          cases this
        · exact hx1

/-! ### the chain invariant -/

theorem amountOf_eq_zero_of_not_mem {c : Coins} {d : Denom} (h : d ∉ Coins.denoms c) : Coins.amountOf c d = 0 := by
  induction c with
  | nil => rfl
  | cons p t ih =>
    obtain ⟨d', x⟩ := p
    simp only [Coins.denoms, List.map_cons, List.mem_cons, not_or] at h
    have := ih (by simpa [Coins.denoms] using h.2)
    simp only [Coins.amountOf_cons, this]
    rw [if_neg (fun e => h.1 e.symm)]; rfl

theorem sumRecs_eq_zero_of_not_mem {l : List ((Addr × Suffix) × Record)} {d : Denom}
    (h : d ∉ l.flatMap fun e => Coins.denoms e.2.coins) : sumRecs l d = 0 := by
  induction l with
  | nil => rfl
  | cons e t ih =>
    obtain ⟨k, r⟩ := e
    simp only [List.flatMap_cons, List.mem_append, not_or] at h
    simp only [sumRecs, ih h.2, amountOf_eq_zero_of_not_mem h.1]; rfl

end PvProofs.QuarL
