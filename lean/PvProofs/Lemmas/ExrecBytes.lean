/-
Helper lemmas for C13: the byte-lexicographic order is a strict total order; filtering a
strictly sorted list by a bound cuts it at that bound.
-/
import PvModel.ExrecSpec

namespace PvProofs.Exrec
open PvModel.Exrec

theorem bytesLt_irrefl : ∀ a : Bytes, bytesLt a a = false
  | [] => rfl
  | x :: r => by simp [bytesLt, bytesLt_irrefl r]

theorem bytesLt_trans : ∀ {a b c : Bytes}, bytesLt a b = true → bytesLt b c = true → bytesLt a c = true
  | [], [], _, h, _ => by simp [bytesLt] at h
  | [], _ :: _, [], _, h => by simp [bytesLt] at h
  | [], _ :: _, _ :: _, _, _ => rfl
  | _ :: _, [], _, h, _ => by simp [bytesLt] at h
  | _ :: _, _ :: _, [], _, h => by simp [bytesLt] at h
  | x :: a, y :: b, z :: c, h1, h2 => by
    simp only [bytesLt, Bool.or_eq_true, decide_eq_true_eq, Bool.and_eq_true] at h1 h2 ⊢
    rcases h1 with h1 | ⟨e1, h1⟩ <;> rcases h2 with h2 | ⟨e2, h2⟩
    · left; omega
    · left; omega
    · left; omega
    · right; exact ⟨by omega, bytesLt_trans h1 h2⟩

theorem bytesLt_asymm : ∀ {a b : Bytes}, bytesLt a b = true → bytesLt b a = false
  | [], [], h => by simp [bytesLt] at h
  | [], _ :: _, _ => rfl
  | _ :: _, [], h => by simp [bytesLt] at h
  | x :: a, y :: b, h => by
    simp only [bytesLt, Bool.or_eq_true, decide_eq_true_eq, Bool.and_eq_true] at h
    simp only [bytesLt, Bool.or_eq_false_iff, decide_eq_false_iff_not, Bool.and_eq_false_imp, decide_eq_true_eq]
    rcases h with h | ⟨e, h⟩
    · exact ⟨by omega, fun e => by omega⟩
    · exact ⟨by omega, fun _ => bytesLt_asymm h⟩

theorem bytesLt_trichotomy : ∀ a b : Bytes, bytesLt a b = true ∨ a = b ∨ bytesLt b a = true
  | [], [] => Or.inr (Or.inl rfl)
  | [], _ :: _ => Or.inl rfl
  | _ :: _, [] => Or.inr (Or.inr rfl)
  | x :: a, y :: b => by
    simp only [bytesLt, Bool.or_eq_true, decide_eq_true_eq, Bool.and_eq_true, List.cons.injEq]
    rcases Nat.lt_trichotomy x y with h | h | h
    · left; left; exact h
    · rcases bytesLt_trichotomy a b with h' | h' | h'
      · left; right; exact ⟨h, h'⟩
      · right; left; exact ⟨h, h'⟩
      · right; right; right; exact ⟨h.symm, h'⟩
    · right; right; left; exact h

theorem bytesLe_refl (a : Bytes) : bytesLe a a = true := by simp [bytesLe, bytesLt_irrefl]

theorem bytesLe_of_lt {a b : Bytes} (h : bytesLt a b = true) : bytesLe a b = true := by
  simp [bytesLe, bytesLt_asymm h]

theorem bytesLe_iff {a b : Bytes} : bytesLe a b = true ↔ a = b ∨ bytesLt a b = true := by
  constructor
  · intro h
    simp only [bytesLe, Bool.not_eq_true'] at h
    rcases bytesLt_trichotomy a b with h' | h' | h'
    · exact Or.inr h'
    · exact Or.inl h'
    · rw [h] at h'; cases h'
  · rintro (rfl | h)
    · exact bytesLe_refl _
    · exact bytesLe_of_lt h

theorem bytesLe_trans {a b c : Bytes} (h1 : bytesLe a b = true) (h2 : bytesLe b c = true) : bytesLe a c = true := by
  rcases bytesLe_iff.mp h1 with rfl | h1
  · exact h2
  · rcases bytesLe_iff.mp h2 with rfl | h2
    · exact bytesLe_of_lt h1
    · exact bytesLe_of_lt (bytesLt_trans h1 h2)

theorem bytesLe_total (a b : Bytes) : (bytesLe a b || bytesLe b a) = true := by
  rcases bytesLt_trichotomy a b with h | rfl | h
  · simp [bytesLe_of_lt h]
  · simp [bytesLe_refl]
  · simp [bytesLe_of_lt h]

theorem bytesLt_of_lt_of_le {a b c : Bytes} (h1 : bytesLt a b = true) (h2 : bytesLe b c = true) : bytesLt a c = true := by
  rcases bytesLe_iff.mp h2 with rfl | h2
  · exact h1
  · exact bytesLt_trans h1 h2

theorem bytesLt_of_le_of_lt {a b c : Bytes} (h1 : bytesLe a b = true) (h2 : bytesLt b c = true) : bytesLt a c = true := by
  rcases bytesLe_iff.mp h1 with rfl | h1
  · exact h2
  · exact bytesLt_trans h1 h2

theorem not_bytesLe_of_lt {a b : Bytes} (h : bytesLt a b = true) : bytesLe b a = false := by
  simp [bytesLe, h]

/-- strictly ascending keys -/
def Sorted (l : List Entry) : Prop := l.Pairwise (fun a b => bytesLt a.1 b.1 = true)

theorem Sorted.filter {l : List Entry} (h : Sorted l) (p : Entry → Bool) : Sorted (l.filter p) :=
  List.Pairwise.filter p h

theorem Sorted.split {pre post : List Entry} {x : Entry} (h : Sorted (pre ++ x :: post)) :
    (∀ a ∈ pre, bytesLt a.1 x.1 = true) ∧ (∀ b ∈ post, bytesLt x.1 b.1 = true) := by
  unfold Sorted at h
  rw [List.pairwise_append] at h
  obtain ⟨_, h2, h3⟩ := h
  rw [List.pairwise_cons] at h2
  exact ⟨fun a ha => h3 a ha x (List.mem_cons_self ..), h2.1⟩

/-- keeping the entries `≥ x` of a sorted list that contains `x` keeps `x` and what follows -/
theorem filter_ge_of_sorted {pre post : List Entry} {x : Entry} (h : Sorted (pre ++ x :: post)) :
    (pre ++ x :: post).filter (fun e => bytesLe x.1 e.1) = x :: post := by
  obtain ⟨h1, h2⟩ := h.split
  rw [List.filter_append, List.filter_cons, if_pos (bytesLe_refl _)]
  have : pre.filter (fun e => bytesLe x.1 e.1) = [] := by
    rw [List.filter_eq_nil_iff]
    intro a ha
    simp [not_bytesLe_of_lt (h1 a ha)]
  rw [this, List.nil_append]
  congr 1
  rw [List.filter_eq_self]
  intro b hb
  exact bytesLe_of_lt (h2 b hb)

/-- keeping the entries `< x` keeps what precedes `x` -/
theorem filter_lt_of_sorted {pre post : List Entry} {x : Entry} (h : Sorted (pre ++ x :: post)) :
    (pre ++ x :: post).filter (fun e => bytesLt e.1 x.1) = pre := by
  obtain ⟨h1, h2⟩ := h.split
  rw [List.filter_append, List.filter_cons, if_neg (by simp [bytesLt_irrefl])]
  have : post.filter (fun e => bytesLt e.1 x.1) = [] := by
    rw [List.filter_eq_nil_iff]
    intro b hb
    simp [bytesLt_asymm (h2 b hb)]
  rw [this, List.append_nil, List.filter_eq_self]
  exact h1


/-! ### big-endian ids: byte order = numeric order -/

def beVal : Bytes → Nat
  | [] => 0
  | b :: r => b * 256 ^ r.length + beVal r

theorem beVal_lt : ∀ (r : Bytes), (∀ x ∈ r, x < 256) → beVal r < 256 ^ r.length
  | [], _ => by simp [beVal]
  | b :: r, h => by
    have hb : b < 256 := h b (List.mem_cons_self ..)
    have hr := beVal_lt r (fun x hx => h x (List.mem_cons_of_mem _ hx))
    simp only [beVal, List.length_cons, Nat.pow_succ]
    have : b * 256 ^ r.length ≤ 255 * 256 ^ r.length := Nat.mul_le_mul_right _ (by omega)
    omega

theorem bytesLt_iff_beVal : ∀ (a b : Bytes), a.length = b.length → (∀ x ∈ a, x < 256) → (∀ x ∈ b, x < 256) →
    (bytesLt a b = true ↔ beVal a < beVal b)
  | [], [], _, _, _ => by simp [bytesLt, beVal]
  | [], _ :: _, h, _, _ => by simp at h
  | _ :: _, [], h, _, _ => by simp at h
  | x :: a, y :: b, hlen, ha, hb => by
    have hlen' : a.length = b.length := by simpa using hlen
    have ih := bytesLt_iff_beVal a b hlen' (fun z hz => ha z (List.mem_cons_of_mem _ hz))
      (fun z hz => hb z (List.mem_cons_of_mem _ hz))
    have va := beVal_lt a (fun z hz => ha z (List.mem_cons_of_mem _ hz))
    have vb := beVal_lt b (fun z hz => hb z (List.mem_cons_of_mem _ hz))
    simp only [bytesLt, Bool.or_eq_true, decide_eq_true_eq, Bool.and_eq_true, beVal]
    rw [ih, hlen']
    rw [hlen'] at va
    generalize 256 ^ b.length = P at va vb
    generalize beVal a = p at va
    generalize beVal b = q at vb
    rcases Nat.lt_trichotomy x y with h | h | h
    · have : (x + 1) * P ≤ y * P := Nat.mul_le_mul_right _ h
      have e : (x + 1) * P = x * P + P := by rw [Nat.add_mul, Nat.one_mul]
      constructor
      · intro _; omega
      · intro _; exact Or.inl h
    · subst h
      constructor
      · rintro (h | ⟨_, h⟩)
        · omega
        · omega
      · intro h; exact Or.inr ⟨rfl, by omega⟩
    · have : (y + 1) * P ≤ x * P := Nat.mul_le_mul_right _ h
      have e : (y + 1) * P = y * P + P := by rw [Nat.add_mul, Nat.one_mul]
      constructor
      · rintro (h' | ⟨h', _⟩) <;> omega
      · intro _; omega

theorem u64Bz_lt_256 (n : UInt64) : ∀ x ∈ u64Bz n, x < 256 := by
  intro x hx
  simp only [u64Bz, List.mem_cons, List.not_mem_nil, or_false] at hx
  omega

theorem beVal_u64Bz (n : UInt64) : beVal (u64Bz n) = n.toNat := by
  have := UInt64.toNat_lt n
  simp only [u64Bz, beVal, List.length_cons, List.length_nil, Nat.reducePow, Nat.reduceAdd]
  omega

theorem u64Bz_lt_iff (a b : UInt64) : bytesLt (u64Bz a) (u64Bz b) = true ↔ a < b := by
  have h := bytesLt_iff_beVal (u64Bz a) (u64Bz b) (by simp [u64Bz]) (u64Bz_lt_256 a) (u64Bz_lt_256 b)
  rw [h, beVal_u64Bz, beVal_u64Bz, UInt64.lt_iff_toNat_lt]

theorem u64Bz_le_iff (a b : UInt64) : bytesLe (u64Bz a) (u64Bz b) = true ↔ a ≤ b := by
  unfold bytesLe
  rw [Bool.not_eq_true', ← Bool.not_eq_true, u64Bz_lt_iff, UInt64.le_iff_toNat_le, UInt64.lt_iff_toNat_lt]
  omega

end PvProofs.Exrec
