/-
Helper lemmas for C16: association lists, the store primitives of `PvModel.Attr`
(which field each one touches, how counters / record counts / queue membership change).
-/
import PvModel.AttrSpec

set_option linter.unusedSimpArgs false

namespace PvProofs.Lemmas.AttrStore
open PvModel.Attr

/-! ### association lists -/

theorem kvGet_erase {α β} [DecidableEq α] (l : List (α × β)) (k k' : α) :
    kvGet (kvErase l k) k' = if k = k' then none else kvGet l k' := by
  induction l with
  | nil => simp [kvErase, kvGet]
  | cons p t ih =>
    obtain ⟨a, b⟩ := p
    unfold kvErase at ih ⊢
    by_cases h : a = k
    · subst h
      by_cases h2 : a = k'
      · subst h2; simpa [List.filter_cons, kvGet] using ih
      · simp [List.filter_cons, kvGet, h2] at ih ⊢; exact ih
    · by_cases h2 : k = k'
      · subst h2; simp [List.filter_cons, h, kvGet] at ih ⊢; exact ih
      · simp [List.filter_cons, h, kvGet, h2] at ih ⊢; rw [ih]

theorem kvGet_set {α β} [DecidableEq α] (l : List (α × β)) (k k' : α) (v : β) :
    kvGet (kvSet l k v) k' = if k = k' then some v else kvGet l k' := by
  unfold kvSet
  by_cases h : k = k'
  · simp [kvGet, h]
  · simp [kvGet, h, kvGet_erase]

theorem kvGet_some_mem {α β} [DecidableEq α] (l : List (α × β)) (k : α) (v : β) :
    kvGet l k = some v → (k, v) ∈ l := by
  induction l with
  | nil => simp [kvGet]
  | cons p t ih =>
    obtain ⟨a, b⟩ := p
    by_cases h : a = k
    · subst h; simp [kvGet]; intro hb; left; exact hb.symm
    · simp [kvGet, h]; intro hv; right; exact ih hv

/-! ### which field each primitive touches -/

@[simp] theorem setRec_recs (s : State) (a : Attribute) :
    (setRec s a).recs = a :: s.recs.filter (fun r => decide (r.key ≠ a.key)) := rfl
@[simp] theorem setRec_names (s : State) (a : Attribute) : (setRec s a).names = s.names := rfl
@[simp] theorem setRec_cnt (s : State) (a : Attribute) : (setRec s a).cnt = s.cnt := rfl
@[simp] theorem setRec_queue (s : State) (a : Attribute) : (setRec s a).queue = s.queue := rfl
@[simp] theorem setRec_now (s : State) (a : Attribute) : (setRec s a).now = s.now := rfl
@[simp] theorem setRec_accts (s : State) (a : Attribute) : (setRec s a).accts = s.accts := rfl

@[simp] theorem delRec_recs (s : State) (k : Key) :
    (delRec s k).recs = s.recs.filter (fun r => decide (r.key ≠ k)) := rfl
@[simp] theorem delRec_names (s : State) (k : Key) : (delRec s k).names = s.names := rfl
@[simp] theorem delRec_cnt (s : State) (k : Key) : (delRec s k).cnt = s.cnt := rfl
@[simp] theorem delRec_queue (s : State) (k : Key) : (delRec s k).queue = s.queue := rfl
@[simp] theorem delRec_now (s : State) (k : Key) : (delRec s k).now = s.now := rfl
@[simp] theorem delRec_accts (s : State) (k : Key) : (delRec s k).accts = s.accts := rfl

@[simp] theorem inc_recs (s : State) (n a : String) : (incAttrNameAddressLookup s n a).recs = s.recs := rfl
@[simp] theorem inc_names (s : State) (n a : String) : (incAttrNameAddressLookup s n a).names = s.names := rfl
@[simp] theorem inc_queue (s : State) (n a : String) : (incAttrNameAddressLookup s n a).queue = s.queue := rfl
@[simp] theorem inc_now (s : State) (n a : String) : (incAttrNameAddressLookup s n a).now = s.now := rfl
@[simp] theorem inc_accts (s : State) (n a : String) : (incAttrNameAddressLookup s n a).accts = s.accts := rfl

@[simp] theorem dec_recs (s : State) (n a : String) : (decAttrNameAddressLookup s n a).recs = s.recs := by
  unfold decAttrNameAddressLookup; split; rfl; split <;> rfl
@[simp] theorem dec_names (s : State) (n a : String) : (decAttrNameAddressLookup s n a).names = s.names := by
  unfold decAttrNameAddressLookup; split; rfl; split <;> rfl
@[simp] theorem dec_queue (s : State) (n a : String) : (decAttrNameAddressLookup s n a).queue = s.queue := by
  unfold decAttrNameAddressLookup; split; rfl; split <;> rfl
@[simp] theorem dec_now (s : State) (n a : String) : (decAttrNameAddressLookup s n a).now = s.now := by
  unfold decAttrNameAddressLookup; split; rfl; split <;> rfl
@[simp] theorem dec_accts (s : State) (n a : String) : (decAttrNameAddressLookup s n a).accts = s.accts := by
  unfold decAttrNameAddressLookup; split; rfl; split <;> rfl

@[simp] theorem addExp_recs (s : State) (a : Attribute) : (addAttributeExpireLookup s a).recs = s.recs := by
  unfold addAttributeExpireLookup; split <;> rfl
@[simp] theorem addExp_names (s : State) (a : Attribute) : (addAttributeExpireLookup s a).names = s.names := by
  unfold addAttributeExpireLookup; split <;> rfl
@[simp] theorem addExp_cnt (s : State) (a : Attribute) : (addAttributeExpireLookup s a).cnt = s.cnt := by
  unfold addAttributeExpireLookup; split <;> rfl
@[simp] theorem addExp_now (s : State) (a : Attribute) : (addAttributeExpireLookup s a).now = s.now := by
  unfold addAttributeExpireLookup; split <;> rfl
@[simp] theorem addExp_accts (s : State) (a : Attribute) : (addAttributeExpireLookup s a).accts = s.accts := by
  unfold addAttributeExpireLookup; split <;> rfl

@[simp] theorem delExp_recs (s : State) (a : Attribute) : (deleteAttributeExpireLookup s a).recs = s.recs := by
  unfold deleteAttributeExpireLookup; split <;> rfl
@[simp] theorem delExp_names (s : State) (a : Attribute) : (deleteAttributeExpireLookup s a).names = s.names := by
  unfold deleteAttributeExpireLookup; split <;> rfl
@[simp] theorem delExp_cnt (s : State) (a : Attribute) : (deleteAttributeExpireLookup s a).cnt = s.cnt := by
  unfold deleteAttributeExpireLookup; split <;> rfl
@[simp] theorem delExp_now (s : State) (a : Attribute) : (deleteAttributeExpireLookup s a).now = s.now := by
  unfold deleteAttributeExpireLookup; split <;> rfl
@[simp] theorem delExp_accts (s : State) (a : Attribute) : (deleteAttributeExpireLookup s a).accts = s.accts := by
  unfold deleteAttributeExpireLookup; split <;> rfl

/-! ### `getCnt` only reads `cnt`; `count` only reads `recs` -/

theorem getCnt_congr {s t : State} (h : s.cnt = t.cnt) (n a : String) : getCnt s n a = getCnt t n a := by
  unfold getCnt; rw [h]

theorem count_congr {s t : State} (h : s.recs = t.recs) (n a : String) : count s n a = count t n a := by
  unfold count; rw [h]

theorem getCnt_inc (s : State) (n a n' a' : String) :
    getCnt (incAttrNameAddressLookup s n a) n' a' =
      if (n, a) = (n', a') then getCnt s n a + 1 else getCnt s n' a' := by
  unfold incAttrNameAddressLookup
  simp only [getCnt, kvGet_set]
  split <;> simp_all

theorem getCnt_dec (s : State) (n a n' a' : String) :
    getCnt (decAttrNameAddressLookup s n a) n' a' =
      if (n, a) = (n', a') then getCnt s n a - 1 else getCnt s n' a' := by
  unfold decAttrNameAddressLookup
  cases hg : kvGet s.cnt (n, a) with
  | none =>
    simp only []
    split
    · rename_i h
      obtain ⟨h1, h2⟩ := Prod.mk.inj h
      subst h1; subst h2; simp [getCnt, hg]
    · rfl
  | some v =>
    simp only []
    by_cases hv : v ≤ 1
    · simp only [hv, if_true, getCnt, kvGet_erase]
      by_cases h : (n, a) = (n', a')
      · obtain ⟨h1, h2⟩ := Prod.mk.inj h
        subst h1; subst h2; simp [hg]; omega
      · simp [h]
    · simp only [hv, if_false, getCnt, kvGet_set]
      by_cases h : (n, a) = (n', a')
      · obtain ⟨h1, h2⟩ := Prod.mk.inj h
        subst h1; subst h2; simp [hg]
      · simp [h]

/-- A positive counter puts the address in the lookup. -/
theorem mem_accounts_of_getCnt_pos (s : State) (n a : String) (h : 0 < getCnt s n a) :
    a ∈ accountsByAttribute s n := by
  unfold getCnt at h
  cases hg : kvGet s.cnt (n, a) with
  | none => simp [hg] at h
  | some v =>
    have hm := kvGet_some_mem _ _ _ hg
    unfold accountsByAttribute
    simp only [List.mem_map, List.mem_filter]
    exact ⟨((n, a), v), ⟨hm, by simp⟩, rfl⟩

/-! ### record counts under filters -/

theorem length_filter_filter_le {α} (p q : α → Bool) (l : List α) :
    ((l.filter q).filter p).length ≤ (l.filter p).length := by
  induction l with
  | nil => simp
  | cons x t ih =>
    by_cases hq : q x <;> by_cases hp : p x <;> simp [List.filter_cons, hq, hp] at ih ⊢ <;> omega

theorem length_filter_filter_lt {α} (p q : α → Bool) (l : List α) (x : α) (hx : x ∈ l)
    (hp : p x = true) (hq : q x = false) :
    ((l.filter q).filter p).length + 1 ≤ (l.filter p).length := by
  induction l with
  | nil => simp at hx
  | cons y t ih =>
    rcases List.mem_cons.mp hx with h | h
    · subst h
      have := length_filter_filter_le p q t
      simp [List.filter_cons, hq, hp] at this ⊢; omega
    · have := ih h
      by_cases hq' : q y <;> by_cases hp' : p y <;> simp [List.filter_cons, hq', hp'] at this ⊢ <;> omega

theorem count_delRec_le (s : State) (k : Key) (n a : String) : count (delRec s k) n a ≤ count s n a := by
  unfold count; simp only [delRec_recs]; exact length_filter_filter_le _ _ _

theorem count_delRec_lt (s : State) (r : Attribute) (hr : r ∈ s.recs) :
    count (delRec s r.key) r.name r.addr + 1 ≤ count s r.name r.addr := by
  unfold count; simp only [delRec_recs]
  exact length_filter_filter_lt _ _ _ r hr (by simp) (by simp)

theorem count_setRec_le (s : State) (a : Attribute) (n x : String) :
    count (setRec s a) n x ≤ count s n x + (if (a.name, a.addr) = (n, x) then 1 else 0) := by
  unfold count; simp only [setRec_recs]
  have := length_filter_filter_le (fun r => decide (r.name = n) && decide (r.addr = x))
    (fun r => decide (r.key ≠ a.key)) s.recs
  by_cases h : a.name = n ∧ a.addr = x
  · obtain ⟨h1, h2⟩ := h
    simp [List.filter_cons, h1, h2] at this ⊢; omega
  · have h' : ¬ (a.name = n ∧ a.addr = x) := h
    by_cases h1 : a.name = n
    · have h2 : a.addr ≠ x := fun e => h ⟨h1, e⟩
      simp [List.filter_cons, h1, h2] at this ⊢; omega
    · simp [List.filter_cons, h1] at this ⊢; omega

/-! ### keys -/

theorem key_eq_iff (a b : Attribute) :
    a.key = b.key ↔ a.addr = b.addr ∧ a.name = b.name ∧ a.value = b.value := by
  unfold Attribute.key; simp [Prod.ext_iff]

/-- Distinct keys: the record list is a KV store. -/
def KeysUnique (l : List Attribute) : Prop := l.Pairwise (fun a b => a.key ≠ b.key)

theorem KeysUnique.eq_of_key {l : List Attribute} (h : KeysUnique l) {a b : Attribute}
    (ha : a ∈ l) (hb : b ∈ l) (hk : a.key = b.key) : a = b := by
  induction l with
  | nil => simp at ha
  | cons x t ih =>
    unfold KeysUnique at h
    rw [List.pairwise_cons] at h
    rcases List.mem_cons.mp ha with ha' | ha' <;> rcases List.mem_cons.mp hb with hb' | hb'
    · rw [ha', hb']
    · subst ha'; exact absurd hk (h.1 b hb')
    · subst hb'; exact absurd hk.symm (h.1 a ha')
    · exact ih h.2 ha' hb'

theorem KeysUnique.filter {l : List Attribute} (h : KeysUnique l) (p : Attribute → Bool) :
    KeysUnique (l.filter p) := List.Pairwise.filter p h

theorem KeysUnique.set {l : List Attribute} (h : KeysUnique l) (a : Attribute) :
    KeysUnique (a :: l.filter (fun r => decide (r.key ≠ a.key))) := by
  unfold KeysUnique
  rw [List.pairwise_cons]
  refine ⟨?_, h.filter _⟩
  intro b hb
  simp only [List.mem_filter, decide_eq_true_eq] at hb
  exact fun e => hb.2 e.symm

theorem getAttr_some {s : State} {k : Key} {a : Attribute} (h : getAttr s k = some a) :
    a ∈ s.recs ∧ a.key = k := by
  unfold getAttr at h
  have h1 := List.mem_of_find?_eq_some h
  have h2 := List.find?_some h
  exact ⟨h1, by simpa using h2⟩

theorem getAttr_none {s : State} {k : Key} (h : getAttr s k = none) :
    ∀ r ∈ s.recs, r.key ≠ k := by
  unfold getAttr at h
  intro r hr
  have := List.find?_eq_none.mp h r hr
  simpa using this

theorem hasKey_iff (s : State) (k : Key) : hasKey s k = true ↔ ∃ r ∈ s.recs, r.key = k := by
  unfold hasKey
  simp only [List.any_eq_true, decide_eq_true_eq]

end PvProofs.Lemmas.AttrStore
