/-
Helper lemmas for C07: induction over operation lists, the facts of a successful accept,
genesis export/import.
-/
import PvProofs.Lemmas.QuarRelease

namespace PvProofs.QuarL
open PvModel PvModel.Quar

/-! ### plumbing: `step` / `run` -/

theorem step_eq (s : State) (op : Op) :
    (∃ s' rel, exec s op = .ok (s', rel) ∧ step s op = s') ∨ ((∃ e, exec s op = .error e) ∧ step s op = s) := by
  unfold step
  cases h : exec s op with
  | error e => exact Or.inr ⟨⟨e, rfl⟩, rfl⟩
  | ok p => exact Or.inl ⟨p.1, p.2, rfl, rfl⟩

/-- A generic induction principle over operation lists: a relation between the start state
and the current state that is reflexive, transitive and established by every successful
operation on a state satisfying the store invariant holds for the whole run. -/
theorem run_induction (R : State → State → Prop) (hrefl : ∀ s, R s s)
    (htrans : ∀ a b c, R a b → R b c → R a c)
    (P : State → Op → Prop)
    (hstep : ∀ (s s' : State) (op : Op) (rel : Coins), StoreInv s → P s op → exec s op = .ok (s', rel) → R s s' ∧ StoreInv s')
    (hP : ∀ (s s' : State) (op' : Op), R s s' → P s op' → P s' op') :
    ∀ (ops : List Op) (s : State), StoreInv s → (∀ op ∈ ops, P s op) → R s (run s ops) ∧ StoreInv (run s ops) := by
  intro ops
  induction ops with
  | nil => intro s inv _; exact ⟨hrefl s, inv⟩
  | cons op rest ih =>
    intro s inv hall
    show R s (run (step s op) rest) ∧ StoreInv (run (step s op) rest)
    rcases step_eq s op with ⟨s', rel, he, hs⟩ | ⟨_, hs⟩
    · rw [hs]
      obtain ⟨hR, inv'⟩ := hstep s s' op rel inv (hall op (List.mem_cons_self ..)) he
      have := ih s' inv' (fun o ho => hP s s' o hR (hall o (List.mem_cons_of_mem _ ho)))
      exact ⟨htrans _ _ _ hR this.1, this.2⟩
    · rw [hs]
      exact ih s inv (fun o ho => hall o (List.mem_cons_of_mem _ ho))

/-- the snapshot-level facts of a successful accept -/
theorem accept_facts {s s' : State} {to : Addr} {froms : List Addr} {perm : Bool} {rel : Coins} (inv : StoreInv s)
    (h : exec s (.accept to froms perm) = .ok (s', rel)) :
    ∃ s1, Accepted s s1 to froms (getQuarantineRecords s to froms) [] rel ∧ OnlySettings s1 s' := by
  simp only [exec, msgAccept] at h
  cases hf : froms.isEmpty
  · simp only [hf, Bool.false_eq_true, if_false] at h
    cases ha : acceptQuarantinedFunds s to froms with
    | error e => simp [ha] at h
    | ok p =>
      obtain ⟨s1, rel1⟩ := p
      simp only [ha, Except.ok.injEq, Prod.mk.injEq] at h
      obtain ⟨rfl, rfl⟩ := h
      refine ⟨s1, acceptLoop_ok to froms _ s s1 [] rel1 inv (getQuarantineRecords_snapshot inv to froms) ha, ?_⟩
      split
      · exact setAutoResponses_only to _ s1
      · exact OnlySettings.refl s1
  · simp [hf] at h

/-- importing funds whose keys are new and pairwise different adds exactly their coins -/
theorem initGenesisFunds_total (d : Denom) :
    ∀ (l : List GenFunds) (s : State), StoreInv s →
      (l.map fun g => (g.to, createRecordSuffix g.unacc)).Nodup →
      (∀ g ∈ l, kvGet s.recs (g.to, createRecordSuffix g.unacc) = none) →
      (∀ g ∈ l, g.unacc ≠ []) → (∀ g ∈ l, ∀ d, 0 ≤ Coins.amountOf g.coins d) →
      outstanding (initGenesisFundsPreFix s l) d = outstanding s d + genTotal l d := by
  intro l
  induction l with
  | nil => intro s _ _ _ _ _; simp [initGenesisFundsPreFix, genTotal]
  | cons g rest ih =>
    intro s inv hnd hnone hne hnn
    simp only [List.map_cons, List.nodup_cons] at hnd
    have hkey : keyOf (⟨g.unacc, [], g.coins, g.declined⟩ : Record) = createRecordSuffix g.unacc := by
      simp [keyOf, Record.getAllFromAddrs]
    have hfa : (⟨g.unacc, [], g.coins, g.declined⟩ : Record).isFullyAccepted = false := by
      have := hne g (List.mem_cons_self ..)
      cases hu : g.unacc with
      | nil => exact absurd hu this
      | cons a t => simp [Record.isFullyAccepted]
    unfold initGenesisFundsPreFix
    rw [ih _ (inv_setQR inv _ _ (hnn g (List.mem_cons_self ..))) hnd.2 ?_
      (fun x hx => hne x (List.mem_cons_of_mem _ hx)) (fun x hx => hnn x (List.mem_cons_of_mem _ hx))]
    · rw [outstanding_setQR, hkey, hfa]
      have : coinsAt s g.to (createRecordSuffix g.unacc) = [] := by
        unfold coinsAt; rw [hnone g (List.mem_cons_self ..)]
      rw [this]
      simp only [genTotal, Coins.amountOf_nil, Bool.false_eq_true, if_false]
      omega
    · intro x hx
      rw [setQR_get_ne, hnone x (List.mem_cons_of_mem _ hx)]
      rw [hkey]
      intro e
      exact hnd.1 (e ▸ List.mem_map.mpr ⟨x, hx, rfl⟩)

theorem genTotal_perm (d : Denom) {l₁ l₂ : List GenFunds} (h : l₁.Perm l₂) : genTotal l₁ d = genTotal l₂ d := by
  induction h with
  | nil => rfl
  | cons x _ ih => simp [genTotal, ih]
  | swap x y l => simp [genTotal]; omega
  | trans _ _ ih1 ih2 => exact ih1.trans ih2

theorem regenesis_ok_eq {s s' : State} {order : List GenFunds → List GenFunds} (h : regenesisPreFix s order = .ok s') :
    s' = initGenesisFundsPreFix { s with recs := [], index := [] } (order (exportGenesis s)) := by
  unfold regenesisPreFix regenesisWith at h
  simp only at h
  split at h
  · injection h with h; exact h.symm
  · cases h

end PvProofs.QuarL
