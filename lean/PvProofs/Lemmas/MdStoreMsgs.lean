/-
Helper lemmas for C14: every message-level operation of the metadata store model preserves
`Inv`, and — with a `RemoveScope` that leaves no session of the deleted scope (the current
one) — also `SessionsHaveScope`.
-/
import PvProofs.Lemmas.MdStoreOps

namespace PvProofs.MdLemmas
open PvModel.MdStore

variable {B : Addr → Addr}

/-- keep only the accepted branches of an unfolded handler -/
local macro "ok_branches" hr:ident : tactic =>
  `(tactic| ((repeat' split at $hr:ident) <;> first | cases $hr:ident | skip))

theorem hasScope_of_khas {st : State} {id : UUID} (h : khas (·.id) st.scopes id = true) :
    ∃ sc ∈ st.scopes, sc.id = id := khas_iff.mp h

theorem hasScope_of_vo {st : State} (h : Inv B st) {id : UUID}
    (hv : (getScopeValueOwner st id).isNone = false) : ∃ sc ∈ st.scopes, sc.id = id := by
  simp only [getScopeValueOwner, Option.isNone_map] at hv
  cases hg : kget (·.1) st.valueOwners id with
  | none => simp [hg] at hv
  | some p =>
    obtain ⟨hp, hk⟩ := kget_some hg
    obtain ⟨sc, hsc, e⟩ := h.voScope p hp
    exact ⟨sc, hsc, e.trans hk⟩

/-! ### `Inv` is preserved by every operation -/

theorem writeScopeSpecification_inv {st st' : State} (h : Inv B st) {sp : ScopeSpec}
    (hr : writeScopeSpecification B st sp = .ok st') : Inv B st' := by
  simp only [writeScopeSpecification] at hr
  ok_branches hr
  exact setScopeSpecification_inv h sp

theorem deleteScopeSpecification_inv {st st' : State} (h : Inv B st) {id : UUID}
    (hr : deleteScopeSpecification B st id = .ok st') : Inv B st' := by
  simp only [deleteScopeSpecification] at hr
  split at hr
  · cases hr
  · exact removeScopeSpecification_inv h id hr

theorem writeContractSpecification_inv {st st' : State} (h : Inv B st) {sp : ContractSpec}
    (hr : writeContractSpecification B st sp = .ok st') : Inv B st' := by
  simp only [writeContractSpecification] at hr
  ok_branches hr
  exact setContractSpecification_inv h sp

theorem deleteContractSpecification_inv {st st' : State} (h : Inv B st) {id : UUID}
    (hr : deleteContractSpecification B st id = .ok st') : Inv B st' := by
  simp only [deleteContractSpecification] at hr
  split at hr
  · cases hr
  · exact removeContractSpecification_inv
      (recordSpecs_inv h _ (nodup_filter (key := fun r : RecordSpec => r.id) _ h.keys.2.2.2.2.2.1)) id hr

theorem addContractSpecToScopeSpec_inv {st st' : State} (h : Inv B st) {c p : UUID}
    (hr : addContractSpecToScopeSpec B st c p = .ok st') : Inv B st' := by
  simp only [addContractSpecToScopeSpec] at hr
  ok_branches hr
  exact setScopeSpecification_inv h _

theorem deleteContractSpecFromScopeSpec_inv {st st' : State} (h : Inv B st) {c p : UUID}
    (hr : deleteContractSpecFromScopeSpec B st c p = .ok st') : Inv B st' := by
  simp only [deleteContractSpecFromScopeSpec] at hr
  ok_branches hr
  exact setScopeSpecification_inv h _

theorem writeRecordSpecification_inv {st st' : State} (h : Inv B st) (H : String → NameKey) {c : UUID} {n : String}
    (hr : writeRecordSpecification H st c n = .ok st') : Inv B st' := by
  simp only [writeRecordSpecification] at hr
  ok_branches hr
  all_goals
    exact recordSpecs_inv h _ (nodup_kput (key := fun r : RecordSpec => r.id) _ h.keys.2.2.2.2.2.1)

theorem deleteRecordSpecification_inv {st st' : State} (h : Inv B st) (H : String → NameKey) {c : UUID} {n : String}
    (hr : deleteRecordSpecification H st c n = .ok st') : Inv B st' := by
  simp only [deleteRecordSpecification, removeRecordSpecification] at hr
  ok_branches hr
  exact recordSpecs_inv h _ (nodup_kdel (key := fun r : RecordSpec => r.id) _ h.keys.2.2.2.2.2.1)

theorem writeScope_inv {st st' : State} (h : Inv B st) {sc : Scope} {vo : String} {m : Nat}
    (hr : writeScope B st sc vo m = .ok st') : Inv B st' := by
  simp only [writeScope] at hr
  ok_branches hr
  all_goals first
    | exact setScope_pending sc vo (pending_setNav (inv_pending h sc.id) "usd")
    | exact setScope_inv h sc vo

theorem deleteScopeWith_inv (rm : State → UUID → State)
    (hrm : ∀ st id sc, PvModel.MdStore.Inv B st → kget (·.id) st.scopes id = some sc →
      PvModel.MdStore.Inv B (removeNetAssetValues (rm st id) id))
    {st st' : State} (h : Inv B st) {id : UUID} (hr : deleteScopeWith rm st id = .ok st') : Inv B st' := by
  simp only [deleteScopeWith] at hr
  split at hr
  · cases hr
  · rename_i hk
    cases hr
    have hk' : khas (fun x : Scope => x.id) st.scopes id = true := by simpa using hk
    obtain ⟨sc, hsc⟩ := Option.isSome_iff_exists.mp (kget_isSome_iff.mpr (khas_iff.mp hk'))
    exact hrm st id sc h hsc

theorem addScopeDataAccess_inv {st st' : State} (h : Inv B st) {id : UUID} {a : List Addr}
    (hr : addScopeDataAccess B st id a = .ok st') : Inv B st' := by
  simp only [addScopeDataAccess] at hr
  ok_branches hr
  exact setScope_inv h _ _

theorem deleteScopeDataAccess_inv {st st' : State} (h : Inv B st) {id : UUID} {a : List Addr}
    (hr : deleteScopeDataAccess B st id a = .ok st') : Inv B st' := by
  simp only [deleteScopeDataAccess] at hr
  ok_branches hr
  exact setScope_inv h _ _

theorem addScopeOwner_inv {st st' : State} (h : Inv B st) {id : UUID} {a : List Addr}
    (hr : addScopeOwner B st id a = .ok st') : Inv B st' := by
  simp only [addScopeOwner] at hr
  ok_branches hr
  exact setScope_inv h _ _

theorem deleteScopeOwner_inv {st st' : State} (h : Inv B st) {id : UUID} {a : List Addr}
    (hr : deleteScopeOwner B st id a = .ok st') : Inv B st' := by
  simp only [deleteScopeOwner] at hr
  ok_branches hr
  exact setScope_inv h _ _

theorem updateValueOwners_inv {st st' : State} (h : Inv B st) {ids : List UUID} {a : Addr}
    (hr : updateValueOwners B st ids a = .ok st') : Inv B st' := by
  simp only [updateValueOwners] at hr
  ok_branches hr
  rename_i hnone _
  simp only [List.any_eq_true, not_exists, not_and, Bool.not_eq_true] at hnone
  exact setScopeValueOwners_inv h ids (B a) (fun id hid => hasScope_of_vo h (hnone id hid))

theorem migrateValueOwner_inv {st st' : State} (h : Inv B st) {a b : Addr}
    (hr : migrateValueOwner B st a b = .ok st') : Inv B st' := by
  simp only [migrateValueOwner] at hr
  ok_branches hr
  apply setScopeValueOwners_inv h
  intro id hid
  obtain ⟨p, hp, rfl⟩ := List.mem_map.mp hid
  exact h.voScope p (List.mem_filter.mp hp).1

theorem writeSession_inv {st st' : State} (h : Inv B st) {x : Session}
    (hr : writeSession st x = .ok st') : Inv B st' := by
  simp only [writeSession] at hr
  ok_branches hr
  all_goals exact setSession_inv h x

theorem writeRecord_inv {st st' : State} (h : Inv B st) (H : String → NameKey) {sid : SessionId} {n : String}
    {g : Option RecSpecId} (hr : writeRecord H st sid n g = .ok st') : Inv B st' := by
  simp only [writeRecord] at hr
  ok_branches hr
  all_goals
    have hsess : ∃ x ∈ st.sessions, x.id = sid :=
      ⟨_, kget_some ‹kget (fun x => x.id) st.sessions sid = some _›⟩
    have hscope : ∃ sc ∈ st.scopes, sc.id = sid.scope := by
      have : khas (fun x => x.id) st.scopes sid.scope = true := by
        have := ‹¬(!khas (fun x => x.id) st.scopes sid.scope) = true›
        simpa using this
      exact khas_iff.mp this
    first
      | exact removeSession_inv (setRecord_inv h _ hsess hscope rfl) _
      | exact setRecord_inv h _ hsess hscope rfl

theorem deleteRecord_inv {st st' : State} (h : Inv B st) (H : String → NameKey) {s : UUID} {n : String}
    (hr : deleteRecord H st s n = .ok st') : Inv B st' := by
  simp only [deleteRecord] at hr
  ok_branches hr
  exact removeRecord_inv h _

theorem addNetAssetValues_inv {st st' : State} (h : Inv B st) {id : UUID}
    (hr : addNetAssetValues st id = .ok st') : Inv B st' := by
  simp only [addNetAssetValues] at hr
  split at hr
  · cases hr
  · rename_i hk
    cases hr
    have hk' : khas (fun x : Scope => x.id) st.scopes id = true := by simpa using hk
    exact setNetAssetValue_inv h id "usd" (khas_iff.mp hk')

/-- every operation preserves `Inv`, for any `RemoveScope` whose `DeleteScope` does -/
theorem applyOpWith_inv (rm : State → UUID → State)
    (hrm : ∀ st id sc, PvModel.MdStore.Inv B st → kget (·.id) st.scopes id = some sc →
      PvModel.MdStore.Inv B (removeNetAssetValues (rm st id) id))
    (H : String → NameKey) {st st' : State} (h : Inv B st) (op : Op)
    (hr : applyOpWith B rm H st op = .ok st') : Inv B st' := by
  cases op <;> simp only [applyOpWith] at hr
  case writeScopeSpec => exact writeScopeSpecification_inv h hr
  case deleteScopeSpec => exact deleteScopeSpecification_inv h hr
  case writeContractSpec => exact writeContractSpecification_inv h hr
  case deleteContractSpec => exact deleteContractSpecification_inv h hr
  case addCSpecToScopeSpec => exact addContractSpecToScopeSpec_inv h hr
  case delCSpecFromScopeSpec => exact deleteContractSpecFromScopeSpec_inv h hr
  case writeRecordSpec => exact writeRecordSpecification_inv h H hr
  case deleteRecordSpec => exact deleteRecordSpecification_inv h H hr
  case writeScope => exact writeScope_inv h hr
  case deleteScope => exact deleteScopeWith_inv rm hrm h hr
  case addDataAccess => exact addScopeDataAccess_inv h hr
  case delDataAccess => exact deleteScopeDataAccess_inv h hr
  case addOwners => exact addScopeOwner_inv h hr
  case delOwners => exact deleteScopeOwner_inv h hr
  case updateValueOwners => exact updateValueOwners_inv h hr
  case migrateValueOwner => exact migrateValueOwner_inv h hr
  case writeSession => exact writeSession_inv h hr
  case writeRecord => exact writeRecord_inv h H hr
  case deleteRecord => exact deleteRecord_inv h H hr
  case addNav => exact addNetAssetValues_inv h hr
  case keeperRemoveSession => cases hr; exact removeSession_inv h _

/-! ### `SessionsHaveScope` is preserved by every operation, given a `RemoveScope` that preserves it -/

theorem applyOpWith_shs (rm : State → UUID → State)
    (hrm : ∀ st id sc, PvModel.MdStore.Inv B st → SessionsHaveScope st → kget (·.id) st.scopes id = some sc →
      SessionsHaveScope (removeNetAssetValues (rm st id) id))
    (H : String → NameKey) {st st' : State} (h : PvModel.MdStore.Inv B st) (hs : SessionsHaveScope st) (op : Op)
    (hr : applyOpWith B rm H st op = .ok st') : SessionsHaveScope st' := by
  cases op <;> simp only [applyOpWith] at hr
  case writeScopeSpec =>
    simp only [writeScopeSpecification] at hr
    ok_branches hr
    exact hs
  case deleteScopeSpec =>
    simp only [deleteScopeSpecification, removeScopeSpecification] at hr
    ok_branches hr
    exact hs
  case writeContractSpec =>
    simp only [writeContractSpecification] at hr
    ok_branches hr
    exact hs
  case deleteContractSpec =>
    simp only [deleteContractSpecification, removeContractSpecification] at hr
    ok_branches hr
    exact hs
  case addCSpecToScopeSpec =>
    simp only [addContractSpecToScopeSpec] at hr
    ok_branches hr
    exact hs
  case delCSpecFromScopeSpec =>
    simp only [deleteContractSpecFromScopeSpec] at hr
    ok_branches hr
    exact hs
  case writeRecordSpec =>
    simp only [writeRecordSpecification] at hr
    ok_branches hr
    all_goals exact hs
  case deleteRecordSpec =>
    simp only [deleteRecordSpecification, removeRecordSpecification] at hr
    ok_branches hr
    exact hs
  case writeScope sc vo m =>
    simp only [writeScope] at hr
    ok_branches hr
    all_goals first
      | exact setScope_sessionsHaveScope (st := setNetAssetValue st sc.id "usd") hs sc vo
      | exact setScope_sessionsHaveScope hs sc vo
  case deleteScope id =>
    simp only [deleteScopeWith] at hr
    split at hr
    · cases hr
    · rename_i hk
      cases hr
      have hk' : khas (fun x : Scope => x.id) st.scopes id = true := by simpa using hk
      obtain ⟨sc, hsc⟩ := Option.isSome_iff_exists.mp (kget_isSome_iff.mpr (khas_iff.mp hk'))
      exact hrm st id sc h hs hsc
  case addDataAccess =>
    simp only [addScopeDataAccess] at hr
    ok_branches hr
    exact setScope_sessionsHaveScope hs _ _
  case delDataAccess =>
    simp only [deleteScopeDataAccess] at hr
    ok_branches hr
    exact setScope_sessionsHaveScope hs _ _
  case addOwners =>
    simp only [addScopeOwner] at hr
    ok_branches hr
    exact setScope_sessionsHaveScope hs _ _
  case delOwners =>
    simp only [deleteScopeOwner] at hr
    ok_branches hr
    exact setScope_sessionsHaveScope hs _ _
  case updateValueOwners ids a =>
    simp only [updateValueOwners] at hr
    ok_branches hr
    obtain ⟨h1, h2⟩ := setScopeValueOwners_frame st ids (B a)
    intro x hx
    rw [h1] at hx
    rw [h2]
    exact hs x hx
  case migrateValueOwner a b =>
    simp only [migrateValueOwner] at hr
    ok_branches hr
    obtain ⟨h1, h2⟩ := setScopeValueOwners_frame st
      ((st.valueOwners.filter (fun p => p.2 = B a)).map (·.1)) (B b)
    intro x hx
    rw [h1] at hx
    rw [h2]
    exact hs x hx
  case writeSession x =>
    simp only [writeSession] at hr
    ok_branches hr
    all_goals
      exact setSession_sessionsHaveScope hs x
        ⟨_, kget_some ‹kget (fun x => x.id) st.scopes x.id.scope = some _›⟩
  case writeRecord sid n g =>
    simp only [writeRecord] at hr
    ok_branches hr
    all_goals first
      | exact removeSession_sessionsHaveScope (st := setRecord st _) hs _
      | exact hs
  case deleteRecord =>
    simp only [deleteRecord] at hr
    ok_branches hr
    exact removeRecord_sessionsHaveScope hs _
  case addNav =>
    simp only [addNetAssetValues] at hr
    ok_branches hr
    exact hs
  case keeperRemoveSession => cases hr; exact removeSession_sessionsHaveScope hs _

/-! ### the current `removeScope` (with the repair ab8bb51a7): record walk, then the remaining sessions -/

theorem filterSessions_inv {s : State} (h : PvModel.MdStore.Inv B s) (id : UUID)
    (hno : ∀ r ∈ s.records, r.id.scope ≠ id) :
    PvModel.MdStore.Inv B { s with sessions := s.sessions.filter (fun x => x.id.scope ≠ id) } :=
  { h with
    keys := by
      obtain ⟨h1, h2, h3, h4, h5, h6, h7⟩ := h.keys
      exact ⟨h1, nodup_filter (key := fun x : Session => x.id) _ h2, h3, h4, h5, h6, h7⟩
    recSession := by
      intro r hr
      obtain ⟨y, hy, hyr⟩ := h.recSession r hr
      refine ⟨y, List.mem_filter.mpr ⟨hy, ?_⟩, hyr⟩
      have : y.id.scope ≠ id := by rw [hyr, h.recInScope r hr]; exact hno r hr
      simpa using this }

theorem deleteScope_spec {st : State} (h : PvModel.MdStore.Inv B st) (id : UUID) (sc : Scope)
    (hsc : kget (·.id) st.scopes id = some sc) :
    PvModel.MdStore.Inv B (removeNetAssetValues (removeScope B st id) id) ∧
    ScopeGone (removeNetAssetValues (removeScope B st id) id) id ∧
    (SessionsHaveScope st → SessionsHaveScope (removeNetAssetValues (removeScope B st id) id)) := by
  obtain ⟨hinv, hgone, hsess, hrec, hscopes⟩ := deleteScopePreFix_spec h id sc hsc
  have w := afterWalk_spec h id
  rw [removeScope_eq hsc]
  have hno : ∀ r ∈ (removeNetAssetValues (removeScopePreFix B st id) id).records, r.id.scope ≠ id := hgone.2.1
  have hI := filterSessions_inv hinv id hno
  refine ⟨hI, ⟨?_, ?_⟩, ?_⟩
  · obtain ⟨g1, g2, g3, g4, g5, g6⟩ := hgone
    exact ⟨g1, g2, g3, g4, g5, g6⟩
  · intro x hx
    have := (List.mem_filter.mp hx).2
    simpa using this
  · intro hs x hx
    obtain ⟨hx1, hx2⟩ := List.mem_filter.mp hx
    have hx2' : x.id.scope ≠ id := by simpa using hx2
    have hx3 : x ∈ st.sessions := by
      have : x ∈ (removeNetAssetValues (removeScopePreFix B st id) id).sessions := hx1
      rw [hsess] at this
      exact w.sessSub x this
    obtain ⟨y, hy, hyr⟩ := hs x hx3
    have : ∃ s ∈ kdel (fun s : Scope => s.id) id st.scopes, s.id = x.id.scope :=
      exists_key_kdel.mpr ⟨hx2', y, hy, hyr⟩
    rw [← hscopes] at this
    exact this

end PvProofs.MdLemmas
