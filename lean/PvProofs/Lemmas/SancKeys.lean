/-
Helper lemmas for the key-layout theorems of C06: big-endian encoding is order preserving
and injective; lexicographic comparison ignores a common prefix.
-/
import PvModel.SancKeys

namespace PvProofs.SancKeys
open PvModel.SancKeys

theorem lt_iff_digits (B n m : Nat) (hB : 0 < B) :
    n < m ↔ n / B < m / B ∨ (n / B = m / B ∧ n % B < m % B) := by
  have hn := Nat.div_add_mod n B
  have hm := Nat.div_add_mod m B
  have rn := Nat.mod_lt n hB
  have rm := Nat.mod_lt m hB
  constructor
  · intro h
    by_cases h1 : n / B < m / B
    · exact Or.inl h1
    · by_cases h2 : n / B = m / B
      · right; refine ⟨h2, ?_⟩; rw [h2] at hn; omega
      · exfalso
        have h3 : m / B + 1 ≤ n / B := by omega
        have h4 := Nat.mul_le_mul_left B h3
        rw [Nat.mul_add, Nat.mul_one] at h4
        omega
  · rintro (h1 | ⟨h2, h3⟩)
    · have h4 := Nat.mul_le_mul_left B (show n / B + 1 ≤ m / B from h1)
      rw [Nat.mul_add, Nat.mul_one] at h4
      omega
    · rw [h2] at hn; omega

theorem be_lt_iff (k : Nat) : ∀ (n m : Nat), n < 256 ^ k → m < 256 ^ k →
    (lexLt (be k n) (be k m) = true ↔ n < m) := by
  induction k with
  | zero => intro n m hn hm; simp at hn hm; subst hn; subst hm; simp [be, lexLt]
  | succ k ih =>
    intro n m hn hm
    have hB : 0 < 256 ^ k := Nat.pow_pos (by decide)
    have qn : n / 256 ^ k < 256 := by
      rw [Nat.div_lt_iff_lt_mul hB]; rw [Nat.pow_succ] at hn; rw [Nat.mul_comm]; exact hn
    have qm : m / 256 ^ k < 256 := by
      rw [Nat.div_lt_iff_lt_mul hB]; rw [Nat.pow_succ] at hm; rw [Nat.mul_comm]; exact hm
    have := ih (n % 256 ^ k) (m % 256 ^ k) (Nat.mod_lt _ hB) (Nat.mod_lt _ hB)
    simp only [be, lexLt, Bool.or_eq_true, Bool.and_eq_true, decide_eq_true_eq, beq_iff_eq, this,
      Nat.mod_eq_of_lt qn, Nat.mod_eq_of_lt qm]
    exact (lt_iff_digits _ n m hB).symm

theorem be_length (k n : Nat) : (be k n).length = k := by
  induction k generalizing n with
  | zero => rfl
  | succ k ih => simp [be, ih]

theorem lexLt_irrefl (x : Bytes) : lexLt x x = false := by
  induction x with
  | nil => rfl
  | cons a r ih => simp [lexLt, ih]

theorem be_injective (k n m : Nat) (hn : n < 256 ^ k) (hm : m < 256 ^ k) (h : be k n = be k m) : n = m := by
  rcases Nat.lt_trichotomy n m with h1 | h1 | h1
  · have := (be_lt_iff k n m hn hm).2 h1
    rw [h, lexLt_irrefl] at this; cases this
  · exact h1
  · have := (be_lt_iff k m n hm hn).2 h1
    rw [h, lexLt_irrefl] at this; cases this

theorem lexLt_append_left (x y z : Bytes) : lexLt (x ++ y) (x ++ z) = lexLt y z := by
  induction x with
  | nil => rfl
  | cons a r ih => simp [lexLt, ih]

theorem pow64 : (256 : Nat) ^ 8 = 2 ^ 64 := by decide

end PvProofs.SancKeys
