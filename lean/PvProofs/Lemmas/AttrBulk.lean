/-
C16 — many add messages: (1) a transaction of accepted adds by one signer (op line `bulk`), the
facts the checker `verdictBulk` evaluates; (2) `manyAdds`: `n` adds with `n` different values
and one expiration reach a state with `n` expired attributes (any `n`, in particular more than
the sweep's cap).
-/
import PvProofs.Lemmas.AttrStep

set_option linter.unusedSimpArgs false
set_option linter.unusedVariables false

namespace PvProofs.Lemmas.AttrBulk
open PvModel.Attr PvProofs.Lemmas.AttrStore PvProofs.Lemmas.AttrInv PvProofs.Lemmas.AttrSweep
  PvProofs.Lemmas.AttrStep

/-! ### a chain of accepted adds -/

inductive AddChain (sg : String) : State → List Attribute → State → Prop
  | nil (s : State) : AddChain sg s [] s
  | cons {s s1 s' : State} {a : Attribute} {rest : List Attribute} :
      step s (.add sg a) = .ok s1 → AddChain sg s1 rest s' → AddChain sg s (a :: rest) s'

theorem addChain_facts {sg : String} {s s' : State} {attrs : List Attribute}
    (h : AddChain sg s attrs s') (hi : Inv s) :
    (∀ a ∈ attrs, resolvesTo s a.name sg = true) ∧ Inv s' ∧
      (∀ r' ∈ s'.recs, r' ∈ s.recs ∨ r' ∈ attrs) ∧
      (∀ r ∈ s.recs, ∃ r' ∈ s'.recs, r'.key = r.key) ∧ s'.names = s.names := by
  induction h with
  | nil s => exact ⟨by simp, hi, fun r h => Or.inl h, fun r h => ⟨r, h, rfl⟩, rfl⟩
  | @cons s s1 s' a rest hstep _ ih =>
    have hi1 := step_inv hi hstep
    obtain ⟨_, hres, hput⟩ := add_ok hstep
    obtain ⟨h1, h2, h3, h4, h5⟩ := ih hi1
    have hn : s1.names = s.names := by rw [hput]; simp
    refine ⟨?_, h2, ?_, ?_, by rw [h5, hn]⟩
    · intro x hx
      rcases List.mem_cons.mp hx with e | e
      · rw [e]; exact hres
      · rw [← resolvesTo_congr hn]; exact h1 x e
    · intro r' hr'
      rcases h3 r' hr' with e | e
      · rw [hput, put_recs] at e
        rcases List.mem_cons.mp e with e1 | e1
        · right; rw [e1]; exact List.mem_cons_self
        · left; exact (List.mem_filter.mp e1).1
      · right; exact List.mem_cons_of_mem _ e
    · intro r hr
      have : ∃ r1 ∈ s1.recs, r1.key = r.key := by
        rw [hput, put_recs]
        by_cases hk : r.key = a.key
        · exact ⟨a, List.mem_cons_self, hk.symm⟩
        · exact ⟨r, List.mem_cons_of_mem _ (List.mem_filter.mpr ⟨hr, by simpa using hk⟩), rfl⟩
      obtain ⟨r1, hr1, hk1⟩ := this
      obtain ⟨r', hr', hk'⟩ := h4 r1 hr1
      exact ⟨r', hr', by rw [hk', hk1]⟩

/-! ### `n` adds with different values -/

theorem nthValue_ne_empty (i : Nat) : (nthValue i).isEmpty = false := by
  cases h : (nthValue i).isEmpty with
  | false => rfl
  | true =>
    have := String.isEmpty_iff.mp h
    unfold nthValue at this
    rw [String.ofList_eq_empty_iff] at this
    simp [List.replicate_succ] at this

/-- `nthValue i` has no white space around it: `strings.TrimSpace` leaves it as it is. -/
theorem trimSpace_nthValue (i : Nat) : trimSpace (nthValue i) = nthValue i := by
  have hd : ∀ n, (List.replicate (n + 1) 'v').dropWhile isSpace = List.replicate (n + 1) 'v' := by
    intro n
    rw [List.replicate_succ, List.dropWhile_cons]
    have : isSpace 'v' = false := by decide
    simp [this]
  unfold trimSpace nthValue
  rw [String.toList_ofList, hd, List.reverse_replicate, hd, List.reverse_replicate]

theorem nthValue_inj {i j : Nat} (h : nthValue i = nthValue j) : i = j := by
  unfold nthValue at h
  have := congrArg List.length (String.ofList_inj.mp h)
  simpa using this

theorem run_append (s : State) (a b : List Op) : run s (a ++ b) = run (run s a) b := by
  unfold run; rw [List.foldl_append]

theorem manyAdds_succ (sg addr name : String) (e n : Nat) :
    manyAdds sg addr name e (n + 1) =
      manyAdds sg addr name e n ++ [.add sg ⟨addr, name, nthValue n, .string, some e⟩] := by
  unfold manyAdds
  rw [List.range_succ, List.map_append]; rfl

/-- After `n` adds of `manyAdds` from an empty attribute store: `n` attributes, all with
expiration `e`, their values `nthValue i` for `i < n`; block time, accounts and names untouched. -/
theorem manyAdds_state {s0 : State} {sg addr name : String} {e : Nat} (h0 : Init s0)
    (hnow : s0.now ≤ e) (hacct : s0.accts.contains sg = true) (hres : resolvesTo s0 name sg = true)
    (hname : name.isEmpty = false) (haddr : addr.isEmpty = false) (n : Nat) :
    let s := run s0 (manyAdds sg addr name e n)
    s.now = s0.now ∧ s.accts = s0.accts ∧ s.names = s0.names ∧ s.recs.length = n ∧
      (∀ r ∈ s.recs, r.exp = some e ∧ r.addr = addr ∧ r.name = name ∧ ∃ i, i < n ∧ r.value = nthValue i) := by
  induction n with
  | zero =>
    show _ ∧ _ ∧ _ ∧ _ ∧ _
    have e0 : run s0 (manyAdds sg addr name e 0) = s0 := rfl
    rw [e0]
    refine ⟨rfl, rfl, rfl, by rw [h0.1]; rfl, ?_⟩
    intro r hr; rw [h0.1] at hr; cases hr
  | succ n ih =>
    obtain ⟨i1, i2, i3, i4, i5⟩ := ih
    rw [manyAdds_succ, run_append]
    generalize run s0 (manyAdds sg addr name e n) = s at i1 i2 i3 i4 i5
    have hstep : step s (.add sg ⟨addr, name, nthValue n, .string, some e⟩) =
        .ok (put s ⟨addr, name, nthValue n, .string, some e⟩) := by
      have hv : validateExpirationDate s ⟨addr, name, nthValue n, .string, some e⟩ = true := by
        simp [validateExpirationDate, i1, hnow]
      have hb : validateBasic ⟨addr, name, nthValue n, .string, some e⟩ = true := by
        simp [validateBasic, isValidValueForType, hname, haddr, nthValue_ne_empty, trimSpace_nthValue]
      have hr : resolvesTo s name sg = true := by rw [resolvesTo_congr i3]; exact hres
      simp only [step, setAttribute, hv, hb, i2, hacct, hr, Bool.not_true, Bool.false_eq_true, if_false]
      rfl
    have hfresh : ∀ r ∈ s.recs, r.key ≠ (⟨addr, name, nthValue n, .string, some e⟩ : Attribute).key := by
      intro r hr hk
      obtain ⟨_, _, _, i, hi, hvv⟩ := i5 r hr
      have : r.value = nthValue n := by
        have := (key_eq_iff r _).mp hk
        exact this.2.2
      rw [hvv] at this
      have := nthValue_inj this
      omega
    have hrecs : (put s ⟨addr, name, nthValue n, .string, some e⟩).recs =
        ⟨addr, name, nthValue n, .string, some e⟩ :: s.recs := by
      rw [put_recs, List.filter_eq_self.mpr]
      intro r hr
      simpa using hfresh r hr
    show _ ∧ _ ∧ _ ∧ _ ∧ _
    simp only [run, List.foldl_cons, List.foldl_nil, apply, hstep]
    refine ⟨by simp [i1], by simp [i2], by simp [i3], by rw [hrecs]; simp [i4], ?_⟩
    intro r hr
    rw [hrecs] at hr
    rcases List.mem_cons.mp hr with e1 | e1
    · rw [e1]; exact ⟨rfl, rfl, rfl, n, by omega, rfl⟩
    · obtain ⟨a1, a2, a3, i, hi, hvv⟩ := i5 r e1
      exact ⟨a1, a2, a3, i, by omega, hvv⟩

theorem manyAdds_expiredCount {s0 : State} {sg addr name : String} {e t : Nat} (h0 : Init s0)
    (hnow : s0.now ≤ e) (het : e < t) (hacct : s0.accts.contains sg = true)
    (hres : resolvesTo s0 name sg = true) (hname : name.isEmpty = false) (haddr : addr.isEmpty = false)
    (n : Nat) : expiredCount (run s0 (manyAdds sg addr name e n)) t = n := by
  obtain ⟨_, _, _, h4, h5⟩ := manyAdds_state h0 hnow hacct hres hname haddr n
  unfold expiredCount
  rw [List.filter_eq_self.mpr, h4]
  intro r hr
  unfold isExpired
  rw [(h5 r hr).1]
  simpa using het

end PvProofs.Lemmas.AttrBulk
