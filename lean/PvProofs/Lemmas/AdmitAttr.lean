/-
Helper lemmas for C20: splitting and joining names at dots.
-/
import PvModel.AdmitSpec
import Mathlib.Tactic.SplitIfs

namespace PvProofs.AdmitL
open PvModel PvModel.Admit

theorem splitDots_ne_nil (s : List Char) : splitDots s ≠ [] := by
  cases s with
  | nil => simp [splitDots]
  | cons c cs =>
    unfold splitDots
    by_cases h : c = '.'
    · simp [h]
    · simp only [h, if_false]
      split <;> simp

theorem splitDots_append_dot (a b : List Char) :
    splitDots (a ++ '.' :: b) = splitDots a ++ splitDots b := by
  induction a with
  | nil => simp [splitDots]
  | cons c a ih =>
    by_cases h : c = '.'
    · simp [splitDots, h, ih]
    · have hne := splitDots_ne_nil a
      simp only [List.cons_append, splitDots, h, if_false, ih]
      cases hs : splitDots a with
      | nil => exact absurd hs hne
      | cons s rest => simp

theorem splitDots_dotfree {s : List Char} (h : '.' ∉ s) : splitDots s = [s] := by
  induction s with
  | nil => simp [splitDots]
  | cons c cs ih =>
    simp only [List.mem_cons, not_or] at h
    have hc : ¬ c = '.' := fun e => h.1 e.symm
    simp [splitDots, hc, ih h.2]

theorem splitDots_joinDots {segs : List (List Char)} (hne : segs ≠ [])
    (hd : ∀ s ∈ segs, '.' ∉ s) : splitDots (joinDots segs) = segs := by
  induction segs with
  | nil => exact absurd rfl hne
  | cons s rest ih =>
    cases rest with
    | nil => simpa [joinDots] using splitDots_dotfree (hd s List.mem_cons_self)
    | cons t rest =>
      have h1 := splitDots_dotfree (hd s List.mem_cons_self)
      have h2 := ih (by simp) (fun x hx => hd x (List.mem_cons_of_mem _ hx))
      simp only [joinDots]
      rw [splitDots_append_dot, h1, h2]
      rfl

theorem joinDots_append {a b : List (List Char)} (ha : a ≠ []) (hb : b ≠ []) :
    joinDots (a ++ b) = joinDots a ++ '.' :: joinDots b := by
  induction a with
  | nil => exact absurd rfl ha
  | cons s rest ih =>
    cases rest with
    | nil =>
      cases b with
      | nil => exact absurd rfl hb
      | cons t b => simp [joinDots]
    | cons t rest =>
      have := ih (by simp)
      simp only [List.cons_append, joinDots] at this ⊢
      rw [this]
      simp

theorem joinDots_ne_nil {segs : List (List Char)} (hne : segs ≠ []) (hs : ∀ s ∈ segs, s ≠ []) :
    joinDots segs ≠ [] := by
  cases segs with
  | nil => exact absurd rfl hne
  | cons s rest =>
    have := hs s List.mem_cons_self
    cases rest with
    | nil => simpa [joinDots] using this
    | cons t rest => simp [joinDots, this]

/-! ### `strings.Join(strings.Split(s, "."), ".") = s` and the segments of a split -/

theorem joinDots_splitDots (s : List Char) : joinDots (splitDots s) = s := by
  induction s with
  | nil => simp [splitDots, joinDots]
  | cons c cs ih =>
    have hne := splitDots_ne_nil cs
    by_cases h : c = '.'
    · simp only [splitDots, h, if_true]
      cases hs : splitDots cs with
      | nil => exact absurd hs hne
      | cons t rest => rw [hs] at ih; simp [joinDots, ih]
    · simp only [splitDots, h, if_false]
      cases hs : splitDots cs with
      | nil => exact absurd hs hne
      | cons t rest =>
        rw [hs] at ih
        cases rest with
        | nil => simpa [joinDots] using ih
        | cons u rest => simp only [joinDots] at ih ⊢; simp [ih]

theorem splitDots_dotfree_segs (s : List Char) : ∀ seg ∈ splitDots s, '.' ∉ seg := by
  induction s with
  | nil => simp [splitDots]
  | cons c cs ih =>
    have hne := splitDots_ne_nil cs
    by_cases h : c = '.'
    · simp only [splitDots, h, if_true]
      intro seg hseg
      rcases List.mem_cons.1 hseg with rfl | hseg
      · simp
      · exact ih seg hseg
    · simp only [splitDots, h, if_false]
      cases hs : splitDots cs with
      | nil => exact absurd hs hne
      | cons t rest =>
        rw [hs] at ih
        intro seg hseg
        rcases List.mem_cons.1 hseg with rfl | hseg
        · simp only [List.mem_cons, not_or]
          exact ⟨fun e => h e.symm, ih t List.mem_cons_self⟩
        · exact ih seg (List.mem_cons_of_mem _ hseg)

/-! ### ASCII lower-casing (`Char.toLower`) -/

theorem toLower_val (c : Char) :
    c.toLower.val.toNat =
      if 65 ≤ c.val.toNat ∧ c.val.toNat ≤ 90 then c.val.toNat + 32 else c.val.toNat := by
  have e1 : 'A'.val.toNat = 65 := by decide
  have e2 : 'Z'.val.toNat = 90 := by decide
  unfold Char.toLower
  split
  · rename_i h
    have h1 := UInt32.le_iff_toNat_le.1 h.1
    have h2 := UInt32.le_iff_toNat_le.1 h.2
    have e3 : ('a'.val - 'A'.val).toNat = 32 := by decide
    rw [e1] at h1; rw [e2] at h2
    simp only [UInt32.toNat_add, e3]
    rw [if_pos ⟨h1, h2⟩]
    omega
  · rename_i h
    have : ¬ (65 ≤ c.val.toNat ∧ c.val.toNat ≤ 90) := by
      intro ⟨a, b⟩
      exact h ⟨UInt32.le_iff_toNat_le.2 (by rw [e1]; exact a), UInt32.le_iff_toNat_le.2 (by rw [e2]; exact b)⟩
    rw [if_neg this]

theorem char_eq_of_toNat {c d : Char} (h : c.val.toNat = d.val.toNat) : c = d :=
  Char.ext (UInt32.toNat_inj.1 h)

theorem toLower_toLower (c : Char) : c.toLower.toLower = c.toLower := by
  apply char_eq_of_toNat
  rw [toLower_val c.toLower, toLower_val c]
  split_ifs <;> omega

/-- lower-casing neither makes nor removes a character below `A` (space, dot, star, digits) -/
theorem toLower_eq_small {c t : Char} (ht : t.val.toNat < 65) : c.toLower = t ↔ c = t := by
  constructor
  · intro h
    apply char_eq_of_toNat
    have := congrArg (fun x => x.val.toNat) h
    simp only [toLower_val] at this
    split_ifs at this <;> omega
  · rintro rfl
    apply char_eq_of_toNat
    rw [toLower_val]
    split_ifs <;> omega

theorem toLower_eq_space (c : Char) : c.toLower = ' ' ↔ c = ' ' := toLower_eq_small (by decide)
theorem toLower_eq_dot (c : Char) : c.toLower = '.' ↔ c = '.' := toLower_eq_small (by decide)

/-! ### Trimming -/

def isSp (c : Char) : Bool := decide (c = ' ')

theorem trimSpaces_eq (s : List Char) :
    trimSpaces s = ((s.dropWhile isSp).reverse.dropWhile isSp).reverse := rfl

theorem dropWhile_dropWhile {α} (p : α → Bool) (l : List α) :
    (l.dropWhile p).dropWhile p = l.dropWhile p := by
  induction l with
  | nil => rfl
  | cons a l ih =>
    by_cases h : p a = true
    · simp [List.dropWhile, h, ih]
    · simp [List.dropWhile, h]

/-- dropping from the end keeps a list whose head stays -/
theorem dropWhile_revDrop {α} (p : α → Bool) (l : List α) (h : l.dropWhile p = l) :
    ((l.reverse.dropWhile p).reverse).dropWhile p = (l.reverse.dropWhile p).reverse := by
  have hsplit : l = (l.reverse.dropWhile p).reverse ++ (l.reverse.takeWhile p).reverse := by
    have := congrArg List.reverse (List.takeWhile_append_dropWhile (p := p) (l := l.reverse))
    rw [List.reverse_append, List.reverse_reverse] at this
    exact this.symm
  generalize (l.reverse.dropWhile p).reverse = X at hsplit ⊢
  generalize (l.reverse.takeWhile p).reverse = T at hsplit
  cases X with
  | nil => rfl
  | cons x X' =>
    subst hsplit
    by_cases hx : p x = true
    · exfalso
      have hlen := congrArg List.length h
      simp only [List.cons_append, List.dropWhile_cons, hx, if_true, List.length_cons] at hlen
      have := (List.dropWhile_sublist p (l := X' ++ T)).length_le
      omega
    · simp [List.dropWhile, hx]

theorem trimSpaces_idem (s : List Char) : trimSpaces (trimSpaces s) = trimSpaces s := by
  simp only [trimSpaces_eq]
  have h1 := dropWhile_revDrop isSp (s.dropWhile isSp) (dropWhile_dropWhile _ _)
  rw [h1, List.reverse_reverse, dropWhile_dropWhile]

theorem isSp_comp_toLower : (isSp ∘ Char.toLower) = isSp := by
  funext c
  simp only [Function.comp, isSp]
  rw [decide_eq_decide]
  exact toLower_eq_space c

theorem trimSpaces_map_toLower (s : List Char) :
    trimSpaces (s.map Char.toLower) = (trimSpaces s).map Char.toLower := by
  simp only [trimSpaces_eq, List.dropWhile_map, isSp_comp_toLower, ← List.map_reverse]

theorem trimSpaces_sublist_mem {s : List Char} {c : Char} (h : c ∈ trimSpaces s) : c ∈ s := by
  rw [trimSpaces_eq, List.mem_reverse] at h
  have := (List.dropWhile_sublist isSp).mem h
  rw [List.mem_reverse] at this
  exact (List.dropWhile_sublist isSp).mem this

/-! ### `NormalizeName`: per segment, trim and lower-case -/

/-- what `NormalizeName` does to one segment -/
def normSeg (seg : List Char) : List Char := (trimSpaces seg).map Char.toLower

theorem normalizeNameL_eq (s : List Char) :
    normalizeNameL s = joinDots ((splitDots s).map normSeg) := rfl

theorem normSeg_idem (seg : List Char) : normSeg (normSeg seg) = normSeg seg := by
  unfold normSeg
  rw [trimSpaces_map_toLower, trimSpaces_idem, List.map_map]
  apply List.map_congr_left
  intro c _
  exact toLower_toLower c

theorem normSeg_dotfree {seg : List Char} (h : '.' ∉ seg) : '.' ∉ normSeg seg := by
  unfold normSeg
  intro hm
  obtain ⟨c, hc, he⟩ := List.mem_map.1 hm
  rw [(toLower_eq_dot c).1 he] at hc
  exact h (trimSpaces_sublist_mem hc)

/-- **The segments of a normalised name are the normalised segments of the name.** -/
theorem splitDots_normalizeNameL (s : List Char) :
    splitDots (normalizeNameL s) = (splitDots s).map normSeg := by
  rw [normalizeNameL_eq]
  apply splitDots_joinDots
  · simpa using splitDots_ne_nil s
  · intro seg hseg
    obtain ⟨t, ht, rfl⟩ := List.mem_map.1 hseg
    exact normSeg_dotfree (splitDots_dotfree_segs s t ht)

theorem normalizeNameL_idem (s : List Char) : normalizeNameL (normalizeNameL s) = normalizeNameL s := by
  rw [normalizeNameL_eq (normalizeNameL s), splitDots_normalizeNameL, List.map_map, normalizeNameL_eq]
  congr 1
  apply List.map_congr_left
  intro seg _
  exact normSeg_idem seg

end PvProofs.AdmitL
