/-
Helper lemmas for C20: splitting and joining names at dots.
-/
import PvModel.AdmitSpec

namespace PvProofs.AdmitL
open PvModel PvModel.Admit

theorem splitDots_ne_nil (s : List Char) : splitDots s ≠ [] := by
  cases s with
  | nil => simp [splitDots]
  | cons c cs =>
    unfold splitDots
    by_cases h : c = '.'
    · simp [h]
    · simp only [h, if_false]
      split <;> simp

theorem splitDots_append_dot (a b : List Char) :
    splitDots (a ++ '.' :: b) = splitDots a ++ splitDots b := by
  induction a with
  | nil => simp [splitDots]
  | cons c a ih =>
    by_cases h : c = '.'
    · simp [splitDots, h, ih]
    · have hne := splitDots_ne_nil a
      simp only [List.cons_append, splitDots, h, if_false, ih]
      cases hs : splitDots a with
      | nil => exact absurd hs hne
      | cons s rest => simp

theorem splitDots_dotfree {s : List Char} (h : '.' ∉ s) : splitDots s = [s] := by
  induction s with
  | nil => simp [splitDots]
  | cons c cs ih =>
    simp only [List.mem_cons, not_or] at h
    have hc : ¬ c = '.' := fun e => h.1 e.symm
    simp [splitDots, hc, ih h.2]

theorem splitDots_joinDots {segs : List (List Char)} (hne : segs ≠ [])
    (hd : ∀ s ∈ segs, '.' ∉ s) : splitDots (joinDots segs) = segs := by
  induction segs with
  | nil => exact absurd rfl hne
  | cons s rest ih =>
    cases rest with
    | nil => simpa [joinDots] using splitDots_dotfree (hd s List.mem_cons_self)
    | cons t rest =>
      have h1 := splitDots_dotfree (hd s List.mem_cons_self)
      have h2 := ih (by simp) (fun x hx => hd x (List.mem_cons_of_mem _ hx))
      simp only [joinDots]
      rw [splitDots_append_dot, h1, h2]
      rfl

theorem joinDots_append {a b : List (List Char)} (ha : a ≠ []) (hb : b ≠ []) :
    joinDots (a ++ b) = joinDots a ++ '.' :: joinDots b := by
  induction a with
  | nil => exact absurd rfl ha
  | cons s rest ih =>
    cases rest with
    | nil =>
      cases b with
      | nil => exact absurd rfl hb
      | cons t b => simp [joinDots]
    | cons t rest =>
      have := ih (by simp)
      simp only [List.cons_append, joinDots] at this ⊢
      rw [this]
      simp

theorem joinDots_ne_nil {segs : List (List Char)} (hne : segs ≠ []) (hs : ∀ s ∈ segs, s ≠ []) :
    joinDots segs ≠ [] := by
  cases segs with
  | nil => exact absurd rfl hne
  | cons s rest =>
    have := hs s List.mem_cons_self
    cases rest with
    | nil => simpa [joinDots] using this
    | cons t rest => simp [joinDots, this]

end PvProofs.AdmitL
