/-
Helper lemmas about `PvModel.Coins`: `nonneg` / `isZero` (defined over the denoms that are
mentioned) speak about every denom.
-/
import PvModel.Coins

namespace PvProofs.Lemmas
open PvModel PvModel.Coins

theorem amountOf_eq_zero_of_not_mem (a : Coins) (d : Denom) (h : d ∉ denoms a) : amountOf a d = 0 := by
  induction a with
  | nil => rfl
  | cons hd t ih =>
    obtain ⟨d', x⟩ := hd
    simp only [denoms, List.map_cons, List.mem_cons, not_or] at h
    simp only [amountOf_cons]
    have : amountOf t d = 0 := ih (by simpa [denoms] using h.2)
    have hne : ¬ d' = d := fun e => h.1 e.symm
    simp [hne, this]

theorem nonneg_iff (a : Coins) : nonneg a = true ↔ ∀ d, 0 ≤ amountOf a d := by
  constructor
  · intro h d
    by_cases hd : d ∈ denoms a
    · simp only [nonneg, List.all_eq_true, decide_eq_true_eq] at h
      exact h d hd
    · rw [amountOf_eq_zero_of_not_mem a d hd]; exact Int.le_refl 0
  · intro h
    simp only [nonneg, List.all_eq_true, decide_eq_true_eq]
    intro d _
    exact h d

theorem isZero_iff (a : Coins) : isZero a = true ↔ ∀ d, amountOf a d = 0 := by
  constructor
  · intro h d
    by_cases hd : d ∈ denoms a
    · simp only [isZero, List.all_eq_true, decide_eq_true_eq] at h
      exact h d hd
    · exact amountOf_eq_zero_of_not_mem a d hd
  · intro h
    simp only [isZero, List.all_eq_true, decide_eq_true_eq]
    intro d _
    exact h d

theorem amountOf_single (d' : Denom) (x : Int) (d : Denom) :
    amountOf [(d', x)] d = if d' = d then x else 0 := by
  simp [amountOf]

end PvProofs.Lemmas
