/-
Helper lemmas for C13: whole listings at the gRPC level.  `followKeys` / `followOffsets` (any `limit`,
0 = default page size) reduce to `collectByKey` / `collectByOffset` with the effective limit; the
orders a paged index lookup returns, put together, are `specOrders`.
-/
import PvProofs.Lemmas.ExrecDump
import PvProofs.C13

namespace PvProofs.Exrec
open PvModel.Exrec PvProofs.C13

section
variable (hit : Entry → Bool)

theorem effLimit_pos (limit : Nat) : 1 ≤ effLimit limit := by
  unfold effLimit defaultLimit
  split <;> omega

theorem effLimit_of_ne {limit : Nat} (h : limit ≠ 0) : effLimit limit = limit := by
  unfold effLimit; rw [if_neg h]

/-- `limit = 0` is `limit = 100` with the total counted (orders.go:317-321) -/
theorem fpao_limit0 (ps : List Entry) (key : Option Bytes) (offset : Nat) (ct rev : Bool) (after : UInt64) :
    filteredPaginateAfterOrder ps { key := key, offset := offset, limit := 0, countTotal := ct, reverse := rev } after hit =
    filteredPaginateAfterOrder ps { key := key, offset := offset, limit := 100, countTotal := true, reverse := rev } after hit := by
  unfold filteredPaginateAfterOrder
  simp [defaultLimit]

/-- a request at a non-empty key does not look at `countTotal` -/
theorem fpao_key_ct (ps : List Entry) (k : Bytes) (hk : k ≠ []) (limit : Nat) (ct rev : Bool) (after : UInt64) :
    filteredPaginateAfterOrder ps { key := some k, limit := limit, countTotal := ct, reverse := rev } after hit =
    filteredPaginateAfterOrder ps { key := some k, limit := limit, countTotal := false, reverse := rev } after hit := by
  unfold filteredPaginateAfterOrder
  have hke : ¬ (some k = none ∨ some k = some []) := by
    rintro (h | h)
    · cases h
    · exact hk (Option.some.inj h)
  simp [hk]

/-- a request with `limit` and the request with the effective limit return the same page and the
same `next_key` (they may differ in the reported total) -/
theorem fpao_agree (ps : List Entry) (key : Option Bytes) (offset : Nat)
    (hkey : key = none ∨ (offset = 0 ∧ ∃ b r, key = some (b :: r))) (limit : Nat) (rev : Bool) (after : UInt64) :
    (∃ e, filteredPaginateAfterOrder ps { key := key, offset := offset, limit := limit, reverse := rev } after hit = .error e ∧
      filteredPaginateAfterOrder ps { key := key, offset := offset, limit := effLimit limit, reverse := rev } after hit = .error e) ∨
    (∃ acc nk t1 t2,
      filteredPaginateAfterOrder ps { key := key, offset := offset, limit := limit, reverse := rev } after hit =
        .ok (acc, { nextKey := nk, total := t1 }) ∧
      filteredPaginateAfterOrder ps { key := key, offset := offset, limit := effLimit limit, reverse := rev } after hit =
        .ok (acc, { nextKey := nk, total := t2 })) := by
  have same : ∀ (r : Except PErr (List Entry × PageResp)),
      (∃ e, r = .error e ∧ r = .error e) ∨
      (∃ acc nk t1 t2, r = .ok (acc, { nextKey := nk, total := t1 }) ∧ r = .ok (acc, { nextKey := nk, total := t2 })) := by
    intro r
    cases r with
    | error e => exact Or.inl ⟨e, rfl, rfl⟩
    | ok pr =>
      obtain ⟨acc, nk, t⟩ := pr
      exact Or.inr ⟨acc, nk, t, t, rfl, rfl⟩
  by_cases hl : limit = 0
  · subst hl
    have he : effLimit 0 = 100 := rfl
    rw [he]
    rcases hkey with rfl | ⟨rfl, b, r, rfl⟩
    · right
      have h1 := fpao_limit0 hit ps none offset false rev after
      have h2 := page_without_key hit ps offset 100 true rev after (by omega)
      have h3 := page_without_key hit ps offset 100 false rev after (by omega)
      exact ⟨_, _, _, _, h1.trans h2, h3⟩
    · have h1 := fpao_limit0 hit ps (some (b :: r)) 0 false rev after
      have h2 := fpao_key_ct hit ps (b :: r) (by simp) 100 true rev after
      rw [show ({ key := some (b :: r), offset := 0, limit := 0, reverse := rev } : PageReq) =
        { key := some (b :: r), offset := 0, limit := 0, countTotal := false, reverse := rev } from rfl, h1]
      rw [show ({ key := some (b :: r), offset := 0, limit := 100, countTotal := true, reverse := rev } : PageReq) =
        { key := some (b :: r), limit := 100, countTotal := true, reverse := rev } from rfl, h2]
      exact same _
  · rw [effLimit_of_ne hl]
    exact same _

/-- following `next_key` with any `limit` (0 = default) is following it with the effective limit -/
theorem followKeys_eq_collect (ps : List Entry) (limit : Nat) (rev : Bool) (after : UInt64) :
    ∀ (fuel : Nat) (key : Option Bytes), (key = none ∨ ∃ b r, key = some (b :: r)) →
      followKeys (fun req => filteredPaginateAfterOrder ps req after hit) limit rev fuel key =
        collectByKey ps (effLimit limit) rev after hit fuel key := by
  intro fuel
  induction fuel with
  | zero => intro key _; rfl
  | succ fuel ih =>
    intro key hkey
    have hk' : key = none ∨ ((0 : Nat) = 0 ∧ ∃ b r, key = some (b :: r)) := hkey.imp id (fun h => ⟨rfl, h⟩)
    unfold followKeys collectByKey
    rcases fpao_agree hit ps key 0 hk' limit rev after with ⟨e, h1, h2⟩ | ⟨acc, nk, t1, t2, h1, h2⟩
    · simp only [h1, h2]
    · simp only [h1, h2]
      cases nk with
      | none => rfl
      | some k =>
        cases k with
        | nil => rfl
        | cons b r =>
          simp only; rw [ih (some (b :: r)) (Or.inr ⟨b, r, rfl⟩)]
          cases collectByKey ps (effLimit limit) rev after hit fuel (some (b :: r)) <;> rfl

/-- advancing `offset` by the effective limit, any `limit` -/
theorem followOffsets_eq_collect (ps : List Entry) (limit : Nat) (rev : Bool) (after : UInt64) :
    ∀ (fuel offset : Nat),
      followOffsets (fun req => filteredPaginateAfterOrder ps req after hit) limit rev fuel offset =
        collectByOffset ps (effLimit limit) rev after hit fuel offset := by
  intro fuel
  induction fuel with
  | zero => intro _; rfl
  | succ fuel ih =>
    intro offset
    unfold followOffsets collectByOffset
    rcases fpao_agree hit ps none offset (Or.inl rfl) limit rev after with ⟨e, h1, h2⟩ | ⟨acc, nk, t1, t2, h1, h2⟩
    · simp only [h1, h2]
    · simp only [h1, h2]
      cases nk with
      | none => rfl
      | some k =>
        cases k with
        | nil => rfl
        | cons b r =>
          simp only; rw [ih]
          cases collectByOffset ps (effLimit limit) rev after hit fuel (offset + effLimit limit) <;> rfl

end

/-! ### mapping the items of every page -/

/-- what a query handler does with the accumulated entries of one page -/
def mapPage {α β : Type} (f : List α → List β) (r : Except PErr (List α × PageResp)) : Except PErr (List β × PageResp) :=
  match r with
  | .error e => .error e
  | .ok (acc, resp) => .ok (f acc, resp)

def mapAll {α β : Type} (f : List α → List β) (r : Except PErr (List α)) : Except PErr (List β) :=
  match r with
  | .error e => .error e
  | .ok acc => .ok (f acc)

theorem followKeys_map {α β : Type} (page : PageReq → Except PErr (List α × PageResp)) (f : List α → List β)
    (hf : ∀ a b, f (a ++ b) = f a ++ f b) (limit : Nat) (rev : Bool) :
    ∀ (fuel : Nat) (key : Option Bytes),
      followKeys (fun req => mapPage f (page req)) limit rev fuel key = mapAll f (followKeys page limit rev fuel key) := by
  intro fuel
  induction fuel with
  | zero => intro _; rfl
  | succ fuel ih =>
    intro key
    unfold followKeys
    cases hp : page { key := key, limit := limit, reverse := rev } with
    | error e => simp only [mapPage, mapAll]
    | ok pr =>
      obtain ⟨acc, nk, t⟩ := pr
      simp only [mapPage]
      cases nk with
      | none => rfl
      | some k =>
        cases k with
        | nil => rfl
        | cons b r =>
          simp only
          have ih' := ih (some (b :: r))
          simp only [mapPage] at ih'
          rw [ih']
          cases followKeys page limit rev fuel (some (b :: r)) with
          | error e => rfl
          | ok rest => simp only [mapAll, hf]

theorem followOffsets_map {α β : Type} (page : PageReq → Except PErr (List α × PageResp)) (f : List α → List β)
    (hf : ∀ a b, f (a ++ b) = f a ++ f b) (limit : Nat) (rev : Bool) :
    ∀ (fuel offset : Nat),
      followOffsets (fun req => mapPage f (page req)) limit rev fuel offset =
        mapAll f (followOffsets page limit rev fuel offset) := by
  intro fuel
  induction fuel with
  | zero => intro _; rfl
  | succ fuel ih =>
    intro offset
    unfold followOffsets
    cases hp : page { offset := offset, limit := limit, reverse := rev } with
    | error e => simp only [mapPage, mapAll]
    | ok pr =>
      obtain ⟨acc, nk, t⟩ := pr
      simp only [mapPage]
      cases nk with
      | none => rfl
      | some k =>
        cases k with
        | nil => rfl
        | cons b r =>
          simp only
          have ih' := ih (offset + effLimit limit)
          simp only [mapPage] at ih'
          rw [ih']
          cases followOffsets page limit rev fuel (offset + effLimit limit) with
          | error e => rfl
          | ok rest => simp only [mapAll, hf]

/-! ### the entries of an order index, as orders -/

/-- the order an index entry stands for (`getPageOfOrdersFromIndex` orders.go:263-277) -/
def toOrder (s : Store) (e : Entry) : Option Order := (parseIndexKeySuffixOrderID e.1).bind (getOrderFromStore s)

def toOrders (s : Store) (acc : List Entry) : List Order := acc.filterMap (toOrder s)

theorem toOrders_append (s : Store) (a b : List Entry) : toOrders s (a ++ b) = toOrders s a ++ toOrders s b := by
  unfold toOrders; rw [List.filterMap_append]

theorem getPage_eq {s : Store} {pre : Bytes} {req : PageReq} {ty : String} {filter : Option Nat} {after : UInt64}
    (hty : parseOrderType ty = some filter) :
    getPageOfOrdersFromIndex s pre req ty after =
      mapPage (toOrders s) (filteredPaginateAfterOrder (prefixStore s pre) req after (indexHit filter)) := by
  unfold getPageOfOrdersFromIndex mapPage
  rw [hty]
  simp only
  cases filteredPaginateAfterOrder (prefixStore s pre) req after (indexHit filter) with
  | error e => rfl
  | ok pr => obtain ⟨acc, resp⟩ := pr; rfl

/-- an entry of the index of lookup `l` with exactly 8 bytes after the prefix is the entry of a live
order that `l` matches — and conversely (the by-asset case NEEDS the length: the key has no terminator) -/
theorem scan_hit_iff {s : Store} (hinv : IndexInv s) (l : OrderLookup) (hl : l ≠ .all) (e : Entry) :
    (e ∈ prefixStore s l.prefixOf ∧ e.1.length = 8) ↔
      ∃ o, s.get (keyOrder o.id) = some (.order o) ∧ l.matches o = true ∧ e = (u64Bz o.id, .tbyte o.tb) := by
  have hh := (indexInvF_iff.mp hinv).1
  cases l with
  | all => exact absurd rfl hl
  | market m =>
    constructor
    · rintro ⟨he, _⟩
      obtain ⟨o, ho, hm⟩ := scan_entry_live hinv he rfl
      rcases mem_orderIndexEntries.mp hm with hq | hq | hq | ⟨_, hq⟩ <;>
        simp [OrderLookup.prefixOf, prefixMarketToOrder, idxMarketToOrder, idxAddressToOrder, idxAssetToOrder,
          idxMarketExternalIDToOrder] at hq
      obtain ⟨hk, hv⟩ := hq
      have hkk := u32_append_inj hk
      exact ⟨o, ho, by simp [OrderLookup.matches, hkk.1], Prod.ext hkk.2 hv⟩
    · rintro ⟨o, ho, hm, rfl⟩
      simp only [OrderLookup.matches, decide_eq_true_eq] at hm
      subst hm
      refine ⟨?_, u64Bz_length _⟩
      rw [mem_prefixStore]
      exact hh.indexed o.id o ho _ (mem_orderIndexEntries.mpr (Or.inl rfl))
  | owner a =>
    constructor
    · rintro ⟨he, _⟩
      obtain ⟨o, ho, hm⟩ := scan_entry_live hinv he rfl
      rcases mem_orderIndexEntries.mp hm with hq | hq | hq | ⟨_, hq⟩ <;>
        simp [OrderLookup.prefixOf, prefixAddressToOrder, idxMarketToOrder, idxAddressToOrder, idxAssetToOrder,
          idxMarketExternalIDToOrder] at hq
      obtain ⟨hk, hv⟩ := hq
      have hkk := lengthPrefix_append_inj hk
      exact ⟨o, ho, by simp [OrderLookup.matches, hkk.1], Prod.ext hkk.2 hv⟩
    · rintro ⟨o, ho, hm, rfl⟩
      simp only [OrderLookup.matches, decide_eq_true_eq] at hm
      subst hm
      refine ⟨?_, u64Bz_length _⟩
      rw [mem_prefixStore]
      exact hh.indexed o.id o ho _ (mem_orderIndexEntries.mpr (Or.inr (Or.inl rfl)))
  | asset d =>
    constructor
    · rintro ⟨he, h8⟩
      obtain ⟨o, ho, hm⟩ := scan_entry_live hinv he rfl
      rcases mem_orderIndexEntries.mp hm with hq | hq | hq | ⟨_, hq⟩ <;>
        simp [OrderLookup.prefixOf, prefixAssetToOrder, idxMarketToOrder, idxAddressToOrder, idxAssetToOrder,
          idxMarketExternalIDToOrder] at hq
      obtain ⟨hk, hv⟩ := hq
      have hkk := List.append_inj' hk (by rw [h8, u64Bz_length])
      exact ⟨o, ho, by simp [OrderLookup.matches, hkk.1], Prod.ext hkk.2 hv⟩
    · rintro ⟨o, ho, hm, rfl⟩
      simp only [OrderLookup.matches, decide_eq_true_eq] at hm
      subst hm
      refine ⟨?_, u64Bz_length _⟩
      rw [mem_prefixStore]
      exact hh.indexed o.id o ho _ (mem_orderIndexEntries.mpr (Or.inr (Or.inr (Or.inl rfl))))

theorem indexHit_entry (filter : Option Nat) (id : UInt64) (tb : Nat) :
    indexHit filter (u64Bz id, .tbyte tb) = true ↔ ∀ b, filter = some b → tb = b := by
  unfold indexHit indexHitPreFix
  simp only [parseIndexKeySuffixOrderID_u64Bz, Option.isSome_some, Bool.and_true, u64Bz_length, decide_true,
    Bool.true_and]
  cases filter with
  | none => simp
  | some b => simp

theorem indexHit_length {filter : Option Nat} {e : Entry} (h : indexHit filter e = true) : e.1.length = 8 := by
  unfold indexHit at h
  simp only [Bool.and_eq_true, decide_eq_true_eq] at h
  exact h.1

theorem toOrder_entry {s : Store} {o : Order} (ho : s.get (keyOrder o.id) = some (.order o)) (v : Val) :
    toOrder s (u64Bz o.id, v) = some o := by
  unfold toOrder
  simp only [parseIndexKeySuffixOrderID_u64Bz, Option.bind_some]
  exact getOrderFromStore_of_get ho rfl

/-! ### `sortById` -/

theorem mem_insertById (o x : Order) : ∀ (l : List Order), x ∈ insertById o l ↔ x = o ∨ x ∈ l
  | [] => by simp [insertById]
  | y :: r => by
    unfold insertById
    split_ifs
    · simp
    · rw [List.mem_cons, mem_insertById o x r, List.mem_cons]
      constructor
      · rintro (h | h | h)
        · exact Or.inr (Or.inl h)
        · exact Or.inl h
        · exact Or.inr (Or.inr h)
      · rintro (h | h | h)
        · exact Or.inr (Or.inl h)
        · exact Or.inl h
        · exact Or.inr (Or.inr h)

theorem mem_sortById (x : Order) : ∀ (l : List Order), x ∈ sortById l ↔ x ∈ l
  | [] => by simp [sortById]
  | y :: r => by
    show x ∈ insertById y (sortById r) ↔ _
    rw [mem_insertById, mem_sortById x r, List.mem_cons]

theorem pairwise_insertById (o : Order) : ∀ (l : List Order), l.Pairwise (fun a b => a.id < b.id) →
    (∀ x ∈ l, x.id ≠ o.id) → (insertById o l).Pairwise (fun a b => a.id < b.id)
  | [], _, _ => by simp [insertById]
  | y :: r, hs, hne => by
    unfold insertById
    have hy := List.pairwise_cons.mp hs
    have hyo : y.id.toNat ≠ o.id.toNat := fun e => hne y (List.mem_cons_self ..) (UInt64.toNat_inj.mp e)
    split_ifs with h
    · rw [UInt64.le_iff_toNat_le] at h
      refine List.pairwise_cons.mpr ⟨fun b hb => ?_, hs⟩
      rw [UInt64.lt_iff_toNat_lt]
      rcases List.mem_cons.mp hb with rfl | hb
      · omega
      · have := hy.1 b hb
        rw [UInt64.lt_iff_toNat_lt] at this
        omega
    · rw [UInt64.le_iff_toNat_le] at h
      refine List.pairwise_cons.mpr ⟨fun b hb => ?_, pairwise_insertById o r hy.2
        (fun x hx => hne x (List.mem_cons_of_mem _ hx))⟩
      rcases (mem_insertById o b r).mp hb with rfl | hb
      · rw [UInt64.lt_iff_toNat_lt]; omega
      · exact hy.1 b hb

theorem pairwise_sortById : ∀ (l : List Order), l.Pairwise (fun a b => a.id ≠ b.id) →
    (sortById l).Pairwise (fun a b => a.id < b.id)
  | [], _ => by simp [sortById]
  | y :: r, h => by
    have hy := List.pairwise_cons.mp h
    show (insertById y (sortById r)).Pairwise _
    exact pairwise_insertById y _ (pairwise_sortById r hy.2)
      (fun x hx => fun e => hy.1 x ((mem_sortById x r).mp hx) e.symm)

/-! ### the listing of an index is `specOrders` -/

/-- no order record carries the id MaxUint64 (so "after `after_order_id`" has its plain meaning for every
`after_order_id`; true as long as fewer than 2^64 − 1 orders were created) -/
def NoMaxId (s : Store) : Prop := ∀ id v, s.get (keyOrder id) = some v → id ≠ 18446744073709551615

theorem mem_specOrders {s : Store} (hinv : IndexInv s) (hnd : KeysNodup s) (l : OrderLookup) (ty : Option Nat)
    (after : UInt64) (o : Order) :
    o ∈ specOrders s l ty after false ↔
      s.get (keyOrder o.id) = some (.order o) ∧ l.matches o = true ∧ (∀ b, ty = some b → o.tb = b) ∧
        (after = 0 ∨ after < o.id) := by
  unfold specOrders
  simp only [Bool.false_eq_true, ↓reduceIte, mem_sortById, List.mem_filter, mem_orderRecords_iff hinv hnd,
    Bool.and_eq_true, Bool.or_eq_true, decide_eq_true_eq]
  cases ty with
  | none => simp [and_assoc]
  | some b => simp [and_assoc]

theorem specOrders_rev (s : Store) (l : OrderLookup) (ty : Option Nat) (after : UInt64) :
    specOrders s l ty after true = (specOrders s l ty after false).reverse := by
  unfold specOrders; simp

theorem specOrders_pairwise {s : Store} (hinv : IndexInv s) (hnd : KeysNodup s) (l : OrderLookup) (ty : Option Nat)
    (after : UInt64) : (specOrders s l ty after false).Pairwise (fun a b => a.id < b.id) := by
  unfold specOrders
  simp only [Bool.false_eq_true, ↓reduceIte]
  exact pairwise_sortById _ ((orderRecords_ids_pairwise hinv hnd).filter _)

/-- a hit of the index of `l` is the entry of a live matching order, and stands for that order -/
theorem hit_entry_order {s : Store} (hinv : IndexInv s) (l : OrderLookup) (hl : l ≠ .all) {filter : Option Nat}
    {e : Entry} (he : e ∈ prefixStore s l.prefixOf) (hh : indexHit filter e = true) :
    ∃ o, s.get (keyOrder o.id) = some (.order o) ∧ l.matches o = true ∧ e = (u64Bz o.id, .tbyte o.tb) ∧
      toOrder s e = some o ∧ (∀ b, filter = some b → o.tb = b) := by
  obtain ⟨o, ho, hm, rfl⟩ := (scan_hit_iff hinv l hl e).mp ⟨he, indexHit_length hh⟩
  exact ⟨o, ho, hm, rfl, toOrder_entry ho _, (indexHit_entry filter o.id o.tb).mp hh⟩

/-- **the hits of the index of `l` in iteration order, as orders, are `specOrders`** -/
theorem listing_eq_spec {s : Store} (hinv : IndexInv s) (hnd : KeysNodup s) (hmax : NoMaxId s) (l : OrderLookup)
    (hl : l ≠ .all) (filter : Option Nat) (after : UInt64) (rev : Bool) :
    toOrders s ((firstIter (prefixStore s l.prefixOf) rev after).filter (indexHit filter)) =
      specOrders s l filter after rev := by
  -- the reverse listing is the forward one reversed
  have hfwd : toOrders s ((firstIter (prefixStore s l.prefixOf) false after).filter (indexHit filter)) =
      specOrders s l filter after false := by
    have hs := sorted_prefixStore s l.prefixOf
    have hsub : ∀ e ∈ (firstIter (prefixStore s l.prefixOf) false after).filter (indexHit filter),
        e ∈ prefixStore s l.prefixOf ∧ indexHit filter e = true := by
      intro e he
      obtain ⟨h1, h2⟩ := List.mem_filter.mp he
      unfold firstIter iter at h1
      simp only [Bool.false_eq_true, ↓reduceIte] at h1
      exact ⟨(List.mem_filter.mp h1).1, h2⟩
    refine eq_of_pairwise_of_mem_iff (fun a b : Order => a.id < b.id) ?_ ?_ _ _ ?_
      (specOrders_pairwise hinv hnd l filter after) (fun o => ?_)
    · intro a b h1 h2
      rw [UInt64.lt_iff_toNat_lt] at h1 h2; omega
    · intro a h
      rw [UInt64.lt_iff_toNat_lt] at h; omega
    · -- ascending ids: ascending keys of 8 id bytes
      have hsE : Sorted ((firstIter (prefixStore s l.prefixOf) false after).filter (indexHit filter)) :=
        ((firstIter_sorted _ hs after).1.filter _)
      unfold toOrders
      refine List.Pairwise.filterMap _ ?_ (List.Pairwise.and_mem.mp hsE)
      intro a a' ⟨ha, ha', hlt⟩ o ho o' ho'
      obtain ⟨oa, _, _, rfl, hoa, _⟩ := hit_entry_order hinv l hl (hsub a ha).1 (hsub a ha).2
      obtain ⟨ob, _, _, rfl, hob, _⟩ := hit_entry_order hinv l hl (hsub a' ha').1 (hsub a' ha').2
      rw [hoa] at ho; rw [hob] at ho'
      cases ho; cases ho'
      exact (u64Bz_lt_iff _ _).mp hlt
    · rw [mem_specOrders hinv hnd]
      unfold toOrders
      rw [List.mem_filterMap]
      constructor
      · rintro ⟨e, he, hto⟩
        obtain ⟨h1, h2⟩ := List.mem_filter.mp he
        obtain ⟨o', ho', hm', rfl, hto', hty'⟩ := hit_entry_order hinv l hl (hsub e he).1 h2
        rw [hto'] at hto; cases hto
        have := (after_bound_exact _ false after _ o.id rfl (hmax _ _ ho')).mp h1
        exact ⟨ho', hm', hty', this.2⟩
      · rintro ⟨ho, hm, hty, ha⟩
        have hps := ((scan_hit_iff hinv l hl (u64Bz o.id, .tbyte o.tb)).mpr ⟨o, ho, hm, rfl⟩).1
        refine ⟨(u64Bz o.id, .tbyte o.tb), List.mem_filter.mpr
          ⟨(after_bound_exact _ false after _ o.id rfl (hmax _ _ ho)).mpr ⟨hps, ha⟩,
            (indexHit_entry filter o.id o.tb).mpr hty⟩, toOrder_entry ho _⟩
  cases rev with
  | false => exact hfwd
  | true =>
    rw [specOrders_rev, ← hfwd]
    unfold toOrders firstIter
    simp only [↓reduceIte, Bool.false_eq_true, List.filter_reverse, List.filterMap_reverse]

end PvProofs.Exrec
