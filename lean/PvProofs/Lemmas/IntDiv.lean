/-
Helper lemmas on truncated/floor division used by several property files.
-/
import PvModel.IntMath
import PvModel.FeesSpec
import Mathlib.Tactic.Linarith
import Mathlib.Tactic.Ring

namespace PvProofs
open PvModel PvModel.Fees

theorem tdiv_tmod_nonneg {a b : Int} (ha : 0 ≤ a) (hb : 0 < b) :
    a.tdiv b = a / b ∧ a.tmod b = a % b := by
  constructor
  · exact Int.tdiv_eq_ediv_of_nonneg ha
  · exact Int.tmod_eq_emod_of_nonneg ha

/-- Euclid: `b * (a / b) + a % b = a`, with `0 ≤ a % b < b`. -/
theorem ediv_facts (a : Int) {b : Int} (hb : 0 < b) :
    b * (a / b) + a % b = a ∧ 0 ≤ a % b ∧ a % b < b := by
  refine ⟨?_, Int.emod_nonneg a (by omega), Int.emod_lt_of_pos a hb⟩
  have := Int.emod_add_mul_ediv a b
  linarith

theorem floorDiv_isFloor (a : Int) {b : Int} (hb : 0 < b) : IsFloorDiv a b (a / b) := by
  obtain ⟨h1, h2, h3⟩ := ediv_facts a hb
  unfold IsFloorDiv
  constructor
  · linarith
  · have : b * (a / b + 1) = b * (a / b) + b := by ring
    linarith

theorem isFloorDiv_unique {a b r r' : Int} (hb : 0 < b)
    (h : IsFloorDiv a b r) (h' : IsFloorDiv a b r') : r = r' := by
  unfold IsFloorDiv at *
  obtain ⟨h1, h2⟩ := h
  obtain ⟨h3, h4⟩ := h'
  have e1 : b * r < b * (r' + 1) := by linarith
  have e2 : b * r' < b * (r + 1) := by linarith
  have := Int.lt_of_mul_lt_mul_left e1 (by omega)
  have := Int.lt_of_mul_lt_mul_left e2 (by omega)
  omega

theorem isCeilDiv_unique {a b r r' : Int} (hb : 0 < b)
    (h : IsCeilDiv a b r) (h' : IsCeilDiv a b r') : r = r' := by
  unfold IsCeilDiv at *
  obtain ⟨h1, h2⟩ := h
  obtain ⟨h3, h4⟩ := h'
  have e1 : b * (r - 1) < b * r' := by linarith
  have e2 : b * (r' - 1) < b * r := by linarith
  have := Int.lt_of_mul_lt_mul_left e1 (by omega)
  have := Int.lt_of_mul_lt_mul_left e2 (by omega)
  omega

/-- Ceilings are monotone in the numerator. -/
theorem isCeilDiv_mono {a a' b r r' : Int} (hb : 0 < b) (haa : a ≤ a')
    (h : IsCeilDiv a b r) (h' : IsCeilDiv a' b r') : r ≤ r' := by
  unfold IsCeilDiv at *
  obtain ⟨h1, h2⟩ := h
  obtain ⟨h3, h4⟩ := h'
  have e1 : b * (r - 1) < b * r' := by linarith
  have := Int.lt_of_mul_lt_mul_left e1 (by omega)
  omega

theorem isCeilDiv_nonneg {a b r : Int} (hb : 0 < b) (ha : 0 ≤ a) (h : IsCeilDiv a b r) : 0 ≤ r := by
  unfold IsCeilDiv at h
  obtain ⟨_, h2⟩ := h
  by_contra hn
  have hr : r ≤ -1 := by omega
  have : b * r ≤ b * (-1) := Int.mul_le_mul_of_nonneg_left hr (by omega)
  linarith

theorem ceilDiv_isCeil (a : Int) {b : Int} (hb : 0 < b) : IsCeilDiv a b (ceilDiv a b) := by
  unfold ceilDiv IsCeilDiv
  obtain ⟨h1, h2, h3⟩ := ediv_facts (a + b - 1) hb
  constructor
  · have : b * ((a + b - 1) / b - 1) = b * ((a + b - 1) / b) - b := by ring
    linarith
  · linarith

/-- What the Go rounding idiom (`QuoRem`, then `+1` if a remainder is left) computes for
non-negative numerators: the ceiling. -/
theorem tdiv_roundup_isCeil {a b : Int} (ha : 0 ≤ a) (hb : 0 < b) :
    IsCeilDiv a b (if a.tmod b ≠ 0 then a.tdiv b + 1 else a.tdiv b) := by
  obtain ⟨e1, e2⟩ := tdiv_tmod_nonneg ha hb
  rw [e1, e2]
  obtain ⟨h1, h2, h3⟩ := ediv_facts a hb
  unfold IsCeilDiv
  split
  · rename_i hne
    constructor
    · have : b * (a / b + 1 - 1) = b * (a / b) := by ring
      rw [this]; omega
    · have : b * (a / b + 1) = b * (a / b) + b := by ring
      linarith
  · rename_i heq
    have heq : a % b = 0 := by simpa using heq
    constructor
    · have : b * (a / b - 1) = b * (a / b) - b := by ring
      linarith
    · linarith

theorem quoIntRoundUp_nonneg_eq {a b : Int} (ha : 0 ≤ a) (hb : 0 < b) :
    quoIntRoundUp a b = (if a.tmod b ≠ 0 then a.tdiv b + 1 else a.tdiv b) := by
  unfold quoIntRoundUp
  obtain ⟨e1, e2⟩ := tdiv_tmod_nonneg ha hb
  have hq : 0 ≤ a / b := Int.ediv_nonneg ha (by omega)
  simp only [e1, e2]
  by_cases hr : a % b = 0
  · simp [hr]
  · simp only [ne_eq, hr, not_false_eq_true, if_true]
    have hapos : 0 < a := by
      rcases Int.lt_or_eq_of_le ha with h | h
      · exact h
      · subst h; simp at hr
    have hs : a.sign * b.sign = 1 := by
      rw [Int.sign_eq_one_of_pos hapos, Int.sign_eq_one_of_pos hb]; rfl
    rw [hs]
    have : ¬ (a / b < 0 ∨ a / b = 0 ∧ (1 : Int) < 0) := by omega
    simp only [this, if_false]

theorem quoIntRoundUp_isCeil {a b : Int} (ha : 0 ≤ a) (hb : 0 < b) :
    IsCeilDiv a b (quoIntRoundUp a b) := by
  rw [quoIntRoundUp_nonneg_eq ha hb]
  exact tdiv_roundup_isCeil ha hb

theorem quoIntRoundUp_eq_ceilDiv {a b : Int} (ha : 0 ≤ a) (hb : 0 < b) :
    quoIntRoundUp a b = ceilDiv a b :=
  isCeilDiv_unique hb (quoIntRoundUp_isCeil ha hb) (ceilDiv_isCeil a hb)

end PvProofs
