/-
Helper lemmas for C15: `Keeper.InitGenesis` (what it stores, that it establishes the store
invariant) and the "stored addresses are canonical" invariant.
-/
import PvProofs.Lemmas.NameHandlers

namespace PvModel.Name
open KV

variable {κ : Type} [DecidableEq κ] (cfg : Cfg κ)

/-- every stored record carries a canonical address spelling -/
def CanonStored (st : State κ) : Prop := ∀ k r, get st.recs k = some r → cfg.canon r.addr = r.addr

theorem canonStored_init : CanonStored cfg ({} : State κ) := by
  intro k r h; simp at h

theorem initGenesis_cons_ok {st st' : State κ} {b : Record} {rest : List Record}
    (h : initGenesis cfg st (b :: rest) = .ok st') :
    cfg.addrOk b.addr = true ∧ ∃ st1, setNameRecord cfg st b.name (cfg.canon b.addr) b.restricted = .ok st1 ∧
      initGenesis cfg st1 rest = .ok st' := by
  simp only [initGenesis] at h
  split at h
  · cases h
  · rename_i hok
    split at h
    · cases h
    · rename_i st1 h1
      exact ⟨by simpa using hok, st1, h1, h⟩

/-- `InitGenesis` establishes the store invariant -/
theorem inv_initGenesis (gs : List Record) :
    ∀ (st st' : State κ), Inv cfg st → initGenesis cfg st gs = .ok st' → Inv cfg st' := by
  induction gs with
  | nil => intro st st' hI h; simp [initGenesis] at h; subst h; exact hI
  | cons b rest ih =>
    intro st st' hI h
    obtain ⟨-, st1, h1, h2⟩ := initGenesis_cons_ok cfg h
    exact ih _ _ (inv_setNameRecord cfg hI h1) h2

/-- what `InitGenesis` does to the record store: it never touches a record that is already there;
every record it adds stems from a binding of the genesis file (normalized name, CANONICAL
spelling of the binding's address, the binding's restriction); every binding is stored. -/
theorem initGenesis_effect (gs : List Record) :
    ∀ (st st' : State κ), initGenesis cfg st gs = .ok st' →
      (∀ k e, get st.recs k = some e → get st'.recs k = some e) ∧
      (∀ k r, get st'.recs k = some r → get st.recs k = some r ∨
        ∃ b ∈ gs, cfg.addrOk b.addr = true ∧ normalize cfg b.name = .ok r.name ∧
          r.addr = cfg.canon b.addr ∧ r.restricted = b.restricted) ∧
      (∀ b ∈ gs, ∃ n k, normalize cfg b.name = .ok n ∧ getNameKeyPrefix cfg n = .ok k ∧
        get st'.recs k = some ⟨n, cfg.canon b.addr, b.restricted⟩) := by
  induction gs with
  | nil =>
    intro st st' h
    simp [initGenesis] at h
    subst h
    exact ⟨fun _ _ h => h, fun _ _ h => Or.inl h, by simp⟩
  | cons b rest ih =>
    intro st st' h
    obtain ⟨hok, st1, h1, h2⟩ := initGenesis_cons_ok cfg h
    obtain ⟨n, k1, hn, hk1, hfree, rfl⟩ := setNameRecord_ok cfg h1
    obtain ⟨ihA, ihB, ihC⟩ := ih _ _ h2
    refine ⟨?_, ?_, ?_⟩
    · intro k e hg
      apply ihA
      by_cases hk : k = k1
      · subst hk; rw [hfree] at hg; cases hg
      · simpa [get_set_ne _ _ hk] using hg
    · intro k r hg
      rcases ihB k r hg with h3 | ⟨b', hb', hrest⟩
      · by_cases hk : k = k1
        · subst hk
          simp only [get_set_self, Option.some.injEq] at h3
          subst h3
          exact Or.inr ⟨b, by simp, hok, hn, rfl, rfl⟩
        · rw [get_set_ne _ _ hk] at h3; exact Or.inl h3
      · exact Or.inr ⟨b', List.mem_cons_of_mem _ hb', hrest⟩
    · intro b' hb'
      rcases List.mem_cons.mp hb' with rfl | hb'
      · exact ⟨n, k1, hn, hk1, ihA k1 _ (by simp [get_set_self])⟩
      · exact ihC b' hb'

/-- after `InitGenesis` every stored address is canonical, whatever spelling the file used -/
theorem canonStored_initGenesis (hC : ∀ a, cfg.canon (cfg.canon a) = cfg.canon a)
    {gs : List Record} {st st' : State κ} (hS : CanonStored cfg st)
    (h : initGenesis cfg st gs = .ok st') : CanonStored cfg st' := by
  intro k r hg
  rcases (initGenesis_effect cfg gs st st' h).2.1 k r hg with h1 | ⟨b, -, -, -, ha, -⟩
  · exact hS k r h1
  · rw [ha, hC]

end PvModel.Name
