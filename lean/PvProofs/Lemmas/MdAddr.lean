/-
Helper lemmas for the MetadataAddress codec (C14): byte slicing of `type ‖ primary ‖ tail`.
-/
import PvModel.MdAddrSpec

namespace PvProofs.MdAddrLemmas
open PvModel.MdAddr

theorem ofByte_byte (k : Kind) : Kind.ofByte? k.byte = some k := by cases k <;> rfl

theorem byte_of_ofByte {b : UInt8} {k : Kind} (h : Kind.ofByte? b = some k) : k.byte = b := by
  unfold Kind.ofByte? at h
  split at h
  · cases h; simp [Kind.byte, *]
  split at h
  · cases h; simp [Kind.byte, *]
  split at h
  · cases h; simp [Kind.byte, *]
  split at h
  · cases h; simp [Kind.byte, *]
  split at h
  · cases h; simp [Kind.byte, *]
  split at h
  · cases h; simp [Kind.byte, *]
  · cases h

theorem byte_injective {k k' : Kind} (h : k.byte = k'.byte) : k = k' := by
  have := ofByte_byte k
  rw [h, ofByte_byte] at this
  exact (Option.some.inj this).symm

theorem mem_all (k : Kind) : k ∈ Kind.all := by cases k <;> simp [Kind.all]

theorem len_eq (k : Kind) : k.len = 17 + k.tailLen := by cases k <;> rfl

theorem tailLen_cases (k : Kind) : k.tailLen = 0 ∨ k.tailLen = 16 := by cases k <;> simp [Kind.tailLen, Kind.len]

theorem length_toBytes {p : Parts} (h : p.WF) : p.toBytes.length = p.kind.len := by
  simp [Parts.toBytes, h.1, h.2, len_eq]; omega

theorem slice1_17_cons (b : UInt8) {u : Bytes} (t : Bytes) (h : u.length = 16) :
    slice1_17 (b :: (u ++ t)) = u := by
  simp [slice1_17, h]

theorem slice17_33_cons (b : UInt8) {u t : Bytes} (hu : u.length = 16) (ht : t.length = 16) :
    slice17_33 (b :: (u ++ t)) = t := by
  have : (b :: (u ++ t)).drop 17 = t := by
    simp [hu]
  simp only [slice17_33, this]
  exact List.take_of_length_le (by omega)

theorem isTypeOneOf_cons (k : Kind) (r : Bytes) (ks : List Kind) :
    isTypeOneOf (k.byte :: r) ks = decide (k ∈ ks) := by
  simp only [isTypeOneOf]
  induction ks with
  | nil => simp
  | cons a l ih =>
    simp only [List.any_cons, List.mem_cons, ih]
    by_cases h : a = k
    · subst h; simp
    · have : ¬ a.byte = k.byte := fun e => h (byte_injective e)
      have h' : ¬ k = a := fun e => h e.symm
      simp [this, h']

end PvProofs.MdAddrLemmas
