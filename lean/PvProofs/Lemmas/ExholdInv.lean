/-
C02 helper lemmas: the invariant and how the hold keeper / bank primitives act on it.
-/
import PvProofs.Lemmas.ExholdStore

namespace PvProofs.Exhold
open PvModel PvModel.Exhold

/-- amounts of an order are non-negative (what `Order.Validate` / `Split` guarantee) -/
def OrderWF (o : Order) : Prop := 0 ≤ o.assets.2 ∧ 0 ≤ o.price.2 ∧ EntriesNonneg o.fees

/-- well-formedness of the stored records -/
structure WF (s : State) : Prop where
  orders : ∀ o ∈ s.orders, OrderWF o
  ids : ∀ o ∈ s.orders, o.id ≤ s.lastOrderId
  idsNodup : (s.orders.map (·.id)).Nodup
  commits : ∀ c ∈ s.commitments, EntriesNonneg c.amount
  ckeys : (s.commitments.map commitKey).Nodup
  pays : ∀ p ∈ s.payments, isValidCoins p.sourceAmt = true ∧ isValidCoins p.targetAmt = true
  keys : (s.payments.map payKey).Nodup

/-- holds equal obligations, for every account and denom -/
def HoldsMatch (s : State) : Prop := ∀ a d, hold s a d = obligations s a d
/-- holds never exceed balances -/
def HoldsCovered (s : State) : Prop := ∀ a d, hold s a d ≤ bal s a d

structure Inv (s : State) : Prop where
  holdsMatch : HoldsMatch s
  covered : HoldsCovered s
  wf : WF s

theorem holdAmt_entriesNonneg {o : Order} (h : OrderWF o) : EntriesNonneg (holdAmt o) := by
  obtain ⟨ha, hp, hf⟩ := h
  have hs : EntriesNonneg [o.assets] := by intro c hc; simp at hc; subst hc; exact ha
  unfold holdAmt
  split
  · split
    · rename_i fee hfee
      have hfm : fee ∈ o.fees := by
        cases hl : o.fees with
        | nil => simp [hl] at hfee
        | cons x t => simp [hl] at hfee; subst hfee; simp
      split
      · exact entriesNonneg_addCoin (hf fee hfm) hs
      · exact hs
    · exact hs
  · exact entriesNonneg_addCoin hp hf

theorem holdAmt_nodup {o : Order} (h : o.isAsk = false → nodupDenoms o.fees = true) : nodupDenoms (holdAmt o) = true := by
  have hs : nodupDenoms [o.assets] = true := by simp [nodupDenoms, Coins.denoms]
  unfold holdAmt
  split
  · split
    · split
      · exact nodup_addCoin _ _ hs
      · exact hs
    · exact hs
  · rename_i hask
    exact nodup_addCoin _ _ (h (by simpa using hask))

/-- the id plays no role in the amount to hold -/
theorem holdAmt_withId (o : Order) (id : Nat) : holdAmt { o with id := id } = holdAmt o := rfl

theorem contrib_nonneg {o : Order} (h : OrderWF o) (a : Addr) (d : Denom) : 0 ≤ contrib o a d := by
  unfold contrib
  split
  · exact amountOf_nonneg (holdAmt_entriesNonneg h) d
  · omega

theorem ordersObl_nonneg {os : List Order} (h : ∀ o ∈ os, OrderWF o) (a : Addr) (d : Denom) : 0 ≤ ordersObl os a d := by
  induction os with
  | nil => simp
  | cons o t ih =>
    rw [ordersObl_cons]
    have := contrib_nonneg (h o (by simp)) a d
    have := ih (fun o ho => h o (by simp [ho]))
    omega

theorem commitsObl_nonneg {cs : List Commitment} (h : ∀ c ∈ cs, EntriesNonneg c.amount) (a : Addr) (d : Denom) :
    0 ≤ commitsObl cs a d := by
  induction cs with
  | nil => simp
  | cons c t ih =>
    rw [commitsObl_cons]
    have := amountOf_nonneg (h c (by simp)) d
    have := ih (fun c hc => h c (by simp [hc]))
    split <;> omega

theorem paysObl_nonneg {ps : List Payment} (h : ∀ p ∈ ps, EntriesNonneg p.sourceAmt) (a : Addr) (d : Denom) :
    0 ≤ paysObl ps a d := by
  induction ps with
  | nil => simp
  | cons p t ih =>
    rw [paysObl_cons]
    have := amountOf_nonneg (h p (by simp)) d
    have := ih (fun p hp => h p (by simp [hp]))
    unfold pcontrib
    split <;> omega

theorem contrib_le_ordersObl {os : List Order} (h : ∀ o ∈ os, OrderWF o) {id : Nat} {o : Order}
    (hg : getOrder os id = some o) (a : Addr) (d : Denom) : contrib o a d ≤ ordersObl os a d := by
  have h1 := ordersObl_deleteOrder hg a d
  have h2 := ordersObl_nonneg (os := deleteOrder os id) (fun o ho => h o (mem_deleteOrder ho)) a d
  omega

theorem commit_le_commitsObl {cs : List Commitment} (h : ∀ c ∈ cs, EntriesNonneg c.amount) (m : Nat) (a : Addr) (d : Denom) :
    Coins.amountOf (getCommitment cs m a) d ≤ commitsObl cs a d := by
  have h1 := commitsObl_deleteCommitment cs m a a d
  have h2 := commitsObl_nonneg (cs := deleteCommitment cs m a) (fun c hc => h c (mem_deleteCommitment hc)) a d
  simp at h1
  omega

theorem pcontrib_le_paysObl {ps : List Payment} (h : ∀ p ∈ ps, EntriesNonneg p.sourceAmt) {src : Addr} {ext : String}
    {p : Payment} (hg : getPayment ps src ext = some p) (a : Addr) (d : Denom) : pcontrib p a d ≤ paysObl ps a d := by
  have h1 := paysObl_deletePayment hg a d
  have h2 := paysObl_nonneg (ps := deletePayment ps src ext) (fun p hp => h p (mem_deletePayment hp)) a d
  omega

theorem getCommitment_nonneg {cs : List Commitment} (h : ∀ c ∈ cs, EntriesNonneg c.amount) (m : Nat) (a : Addr) :
    EntriesNonneg (getCommitment cs m a) := by
  rcases getCommitment_cases cs m a with h0 | ⟨c, hc, _, h2⟩
  · rw [h0]; intro c hc; simp at hc
  · rw [← h2]; exact h c hc

/-! ### hold keeper -/

theorem addHold_eq {s s' : State} {a : Addr} {funds : Coins} (h : addHold s a funds = some s') :
    ∃ h', s' = { s with hold := h' } ∧
      ∀ b e, Ledger.bal h' b e = hold s b e + (if a = b then Coins.amountOf funds e else 0) := by
  unfold addHold at h
  split at h
  · rename_i hz
    injection h with h; subst h
    exact ⟨s.hold, rfl, fun b e => by simp [hold, allZero_amountOf hz]⟩
  · split at h
    · injection h with h; subst h
      exact ⟨_, rfl, fun b e => by simp [hold]⟩
    · simp at h

theorem addHold_covered {s s' : State} {a : Addr} {funds : Coins} (h : addHold s a funds = some s')
    (hc : HoldsCovered s) (hn : nodupDenoms funds = true) : HoldsCovered s' := by
  unfold addHold at h
  split at h
  · injection h with h; subst h; exact hc
  · rename_i hz
    split at h
    · rename_i hv
      injection h with h; subst h
      simp only [validateNewHold, hz, Bool.false_eq_true, ↓reduceIte] at hv
      split at hv
      · simp at hv
      · simp only [List.all_eq_true, Bool.or_eq_true, decide_eq_true_eq] at hv
        intro b e
        have hsp : ∀ e, 0 ≤ spendable s a e := fun e => by have := hc a e; simp [spendable]; omega
        have hle := amountOf_le_of_nodup hn (spendable s a)
          (fun c hcm => by rcases hv c hcm with h0 | h1
                           · rw [h0]; exact hsp c.1
                           · exact h1) e (hsp e)
        have := hc b e
        simp only [hold, bal, spendable, Ledger.bal_append, Ledger.bal_entries] at *
        split <;> rename_i hab
        · subst hab; omega
        · omega
    · simp at h

theorem releaseHold_ok_eq {s : State} {a : Addr} {funds : Coins} (hok : (releaseHold s a funds).2 = true) :
    ∃ h', (releaseHold s a funds).1 = { s with hold := h' } ∧
      (∀ b e, Ledger.bal h' b e = hold s b e - (if a = b then Coins.amountOf funds e else 0)) ∧
      EntriesNonneg funds := by
  unfold releaseHold at hok ⊢
  split
  · rename_i hz
    refine ⟨s.hold, rfl, fun b e => by simp [hold, allZero_amountOf hz], ?_⟩
    intro c hc
    simp only [allZero, List.all_eq_true, decide_eq_true_eq] at hz
    rw [hz c hc]; omega
  · rename_i hz
    simp only [hz, Bool.false_eq_true, ↓reduceIte] at hok
    split
    · rename_i hneg; simp [hneg] at hok
    · rename_i hneg
      simp only [hneg, Bool.false_eq_true, ↓reduceIte] at hok
      refine ⟨_, rfl, fun b e => ?_, anyNegative_false (by simpa using hneg)⟩
      simpa [hold] using releaseLoop_ok s.hold a funds hok b e

theorem releaseHoldTx_eq {s s' : State} {a : Addr} {funds : Coins} (h : releaseHoldTx s a funds = some s') :
    ∃ h', s' = { s with hold := h' } ∧
      (∀ b e, Ledger.bal h' b e = hold s b e - (if a = b then Coins.amountOf funds e else 0)) ∧
      EntriesNonneg funds := by
  unfold releaseHoldTx at h
  simp only at h
  split at h
  · rename_i hok
    injection h with h
    obtain ⟨h', e1, e2, e3⟩ := releaseHold_ok_eq hok
    exact ⟨h', by rw [← h, e1], e2, e3⟩
  · simp at h

/-- a release of covered, non-negative funds cannot fail -/
theorem releaseHold_never_fails (s : State) (a : Addr) (funds : Coins) (hn : EntriesNonneg funds)
    (hc : ∀ e, Coins.amountOf funds e ≤ hold s a e) : (releaseHold s a funds).2 = true := by
  unfold releaseHold
  split
  · rfl
  · split
    · rename_i hneg
      exfalso
      simp only [anyNegative, List.any_eq_true, decide_eq_true_eq] at hneg
      obtain ⟨c, hc1, hc2⟩ := hneg
      have := hn c hc1
      omega
    · exact releaseLoop_never_fails s.hold a funds hn hc

theorem releaseHoldTx_never_fails (s : State) (a : Addr) (funds : Coins) (hn : EntriesNonneg funds)
    (hc : ∀ e, Coins.amountOf funds e ≤ hold s a e) : ∃ s', releaseHoldTx s a funds = some s' := by
  unfold releaseHoldTx
  simp only [releaseHold_never_fails s a funds hn hc, ↓reduceIte]
  exact ⟨_, rfl⟩

/-! ### bank -/

theorem sendCoins_eq {s s' : State} {f t : Addr} {coins : Coins} (h : sendCoins s f t coins = some s') :
    ∃ k', s' = { s with bank := k' } ∧
      (∀ b e, Ledger.bal k' b e = bal s b e - (if f = b then Coins.amountOf coins e else 0)
                                    + (if t = b then Coins.amountOf coins e else 0)) := by
  unfold sendCoins at h
  split at h
  · simp at h
  · split at h
    · injection h with h; subst h
      exact ⟨_, rfl, fun b e => by simp [bal, Ledger.bal_move]⟩
    · simp at h

theorem sendCoins_covered {s s' : State} {f t : Addr} {coins : Coins} (h : sendCoins s f t coins = some s')
    (hc : HoldsCovered s) (hn : nodupDenoms coins = true) : HoldsCovered s' := by
  unfold sendCoins at h
  split at h
  · simp at h
  · rename_i hneg
    split at h
    · rename_i hsp
      injection h with h; subst h
      have hnn := anyNegative_false (by simpa using hneg)
      simp only [canSpend, List.all_eq_true, decide_eq_true_eq] at hsp
      intro b e
      have hsp0 : ∀ e, 0 ≤ spendable s f e := fun e => by have := hc f e; simp [spendable]; omega
      have hle := amountOf_le_of_nodup hn (spendable s f) hsp e (hsp0 e)
      have hge := amountOf_nonneg hnn e
      have := hc b e
      simp only [hold, bal, spendable, Ledger.bal_move] at *
      by_cases h1 : f = b <;> by_cases h2 : t = b <;> simp [h1, h2] <;> (try subst h1) <;> (try subst h2) <;> omega
    · simp at h

theorem collectFee_eq {s s' : State} {m : Nat} {p : Addr} {fee : Option Coin} (h : collectFee s m p fee = some s') :
    ∃ k', s' = { s with bank := k' } ∧ (HoldsCovered s → HoldsCovered s') := by
  unfold collectFee at h
  split at h
  · injection h with h; subst h; exact ⟨s.bank, rfl, id⟩
  · split at h
    · injection h with h; subst h; exact ⟨s.bank, rfl, id⟩
    · obtain ⟨k', e1, _⟩ := sendCoins_eq h
      exact ⟨k', e1, fun hc => sendCoins_covered h hc (by simp [nodupDenoms, Coins.denoms])⟩

/-- obligations only read the three record lists -/
theorem WF.paysNonneg {s : State} (h : WF s) : ∀ p ∈ s.payments, EntriesNonneg p.sourceAmt :=
  fun p hp => isValidCoins_nonneg (h.pays p hp).1

theorem covered_of_hold_le {s s' : State} (hc : HoldsCovered s) (hb : s'.bank = s.bank)
    (hle : ∀ b e, hold s' b e ≤ hold s b e) : HoldsCovered s' := by
  intro b e
  have := hc b e
  have := hle b e
  simp only [bal, hb] at *
  omega

theorem WF.of_subset {s s' : State} (hw : WF s) (ho : s'.orders.Sublist s.orders)
    (hl : s.lastOrderId ≤ s'.lastOrderId) (hcm : s'.commitments.Sublist s.commitments)
    (hp : s'.payments.Sublist s.payments) : WF s' where
  orders := fun o h => hw.orders o (ho.subset h)
  ids := fun o h => Nat.le_trans (hw.ids o (ho.subset h)) hl
  idsNodup := hw.idsNodup.sublist (ho.map _)
  commits := fun c h => hw.commits c (hcm.subset h)
  ckeys := hw.ckeys.sublist (hcm.map _)
  pays := fun p h => hw.pays p (hp.subset h)
  keys := hw.keys.sublist (hp.map payKey)

theorem obligations_congr {s s' : State} (h1 : s'.orders = s.orders) (h2 : s'.commitments = s.commitments)
    (h3 : s'.payments = s.payments) (a : Addr) (d : Denom) : obligations s' a d = obligations s a d := by
  simp [obligations, h1, h2, h3]

end PvProofs.Exhold
