/-
C02 helper lemmas: every operation of the model preserves the invariant and changes the hold by
exactly the reserved amount of the item it handles (part 1: orders, commitments, payments, bank).
-/
import PvProofs.Lemmas.ExholdInv

namespace PvProofs.Exhold
open PvModel PvModel.Exhold

theorem validate_wf {o : Order} (hv : o.validate = true) : OrderWF o ∧ nodupDenoms (holdAmt o) = true := by
  simp only [Order.validate, validCoin, Bool.and_eq_true, decide_eq_true_eq] at hv
  obtain ⟨⟨⟨⟨_, hp⟩, ha⟩, _⟩, hf⟩ := hv
  refine ⟨⟨by omega, by omega, ?_⟩, holdAmt_nodup (fun hask => ?_)⟩
  · split at hf
    · simp only [Bool.and_eq_true, List.all_eq_true, decide_eq_true_eq] at hf
      intro c hc
      have := hf.2 c hc
      simp only [validCoin, decide_eq_true_eq] at this
      omega
    · exact isValidCoins_nonneg hf
  · simp only [hask, Bool.false_eq_true, ↓reduceIte] at hf
    exact isValidCoins_nodup hf

theorem getOrder_none_of_ids {os : List Order} {n id : Nat} (h : ∀ o ∈ os, o.id ≤ n) (hid : n < id) :
    getOrder os id = none := by
  cases hg : getOrder os id with
  | none => rfl
  | some o =>
    have := h o (getOrder_mem hg)
    have := getOrder_some_id hg
    omega

/-! ### orders -/

theorem storeOrder_inv {s s' : State} {o : Order} {fee : Option Coin} {id : Nat} (hi : Inv s)
    (hv : o.validate = true) (h : storeOrder s o fee = .ok (s', id)) :
    Inv s' ∧ id = s.lastOrderId + 1 ∧ ∀ b e, hold s' b e = hold s b e + contrib o b e := by
  unfold storeOrder at h
  split at h
  · simp at h
  · rename_i s1 hs1
    split at h
    · simp at h
    · rename_i s3 hs3
      obtain ⟨k', e1, hcov1⟩ := collectFee_eq hs1
      subst e1
      simp only [Except.ok.injEq, Prod.mk.injEq] at h
      obtain ⟨h1, h2⟩ := h
      subst h1; subst h2
      obtain ⟨hwf, hnd⟩ := validate_wf hv
      have hcov3 := addHold_covered hs3 (hcov1 hi.covered) (by rw [holdAmt_withId]; exact hnd)
      obtain ⟨h', e3, hh⟩ := addHold_eq hs3
      have hnone : getOrder s.orders (s.lastOrderId + 1) = none := getOrder_none_of_ids hi.wf.ids (by omega)
      have hhold : ∀ b e, hold s3 b e = hold s b e + contrib o b e := by
        intro b e
        have := hh b e
        rw [e3]
        simp only [hold, contrib, holdAmt_withId] at this ⊢
        rw [this]
      refine ⟨⟨?_, hcov3, ?_⟩, rfl, hhold⟩
      · intro b e
        rw [hhold b e, hi.holdsMatch b e, e3]
        simp only [obligations, ordersObl_setOrder, storedContrib, hnone]
        simp only [contrib, holdAmt_withId]
        split <;> omega
      · rw [e3]
        constructor
        · intro x hx
          rcases mem_setOrder hx with rfl | hx'
          · exact hwf
          · exact hi.wf.orders x hx'
        · intro x hx
          rcases mem_setOrder hx with rfl | hx'
          · simp
          · have := hi.wf.ids x hx'; simp; omega
        · show ((setOrder s.orders _).map (·.id)).Nodup
          rw [ids_setOrder_none (by simpa using hnone)]
          have hnot := getOrder_none_not_mem hnone
          rw [List.nodup_append]
          refine ⟨hi.wf.idsNodup, by simp, ?_⟩
          intro a ha b hb
          simp at hb; subst hb
          intro heq; subst heq
          exact hnot ha
        · exact hi.wf.commits
        · exact hi.wf.ckeys
        · exact hi.wf.pays
        · exact hi.wf.keys

theorem admitOrder_validate {s : State} {o : Order} {fee : Option Coin} (h : admitOrder s o fee = .ok ()) :
    o.validate = true := by
  unfold admitOrder at h
  split at h
  · simp at h
  · rename_i hv; simpa using hv

theorem createOrder_inv {s s' : State} {o : Order} {fee : Option Coin} {id : Nat} (hi : Inv s)
    (h : createOrder s o fee = .ok (s', id)) :
    Inv s' ∧ id = s.lastOrderId + 1 ∧ ∀ b e, hold s' b e = hold s b e + contrib o b e := by
  unfold createOrder at h
  split at h
  · simp at h
  · rename_i hadm
    exact storeOrder_inv hi (admitOrder_validate hadm) h

theorem cancelOrder_inv {s s' : State} {id : Nat} {signer : Addr} (hi : Inv s)
    (h : cancelOrder s id signer = .ok s') :
    ∃ o, getOrder s.orders id = some o ∧ Inv s' ∧ ∀ b e, hold s' b e = hold s b e - contrib o b e := by
  unfold cancelOrder at h
  split at h
  · simp at h
  · rename_i o hg
    split at h
    · simp at h
    · split at h
      · simp at h
      · rename_i s1 hs1
        injection h with h
        obtain ⟨h', e1, hh, hnn⟩ := releaseHoldTx_eq hs1
        have hhold : ∀ b e, hold s' b e = hold s b e - contrib o b e := by
          intro b e
          rw [← h, e1]
          simp only [hold, contrib] at *
          rw [hh b e]
        refine ⟨o, hg, ⟨?_, ?_, ?_⟩, hhold⟩
        · intro b e
          rw [hhold, hi.holdsMatch b e, ← h, e1]
          simp only [obligations, ordersObl_deleteOrder hg]
          omega
        · apply covered_of_hold_le hi.covered (by rw [← h, e1])
          intro b e
          rw [hhold]
          have := amountOf_nonneg hnn e
          simp only [contrib]; split <;> omega
        · rw [← h, e1]
          exact hi.wf.of_subset (deleteOrder_sublist _ _) (Nat.le_refl _) (List.Sublist.refl _) (List.Sublist.refl _)

/-- under the invariant the owner's cancellation can not fail: the hold is never short -/
theorem cancelOrder_by_owner_succeeds {s : State} {id : Nat} {o : Order} (hi : Inv s)
    (hg : getOrder s.orders id = some o) : ∃ s', cancelOrder s id o.owner = .ok s' := by
  unfold cancelOrder
  simp only [hg, ne_eq, not_true_eq_false, decide_false, Bool.false_and, Bool.false_eq_true, ↓reduceIte]
  obtain ⟨s1, hs1⟩ := releaseHoldTx_never_fails s o.owner (holdAmt o)
    (holdAmt_entriesNonneg (hi.wf.orders o (getOrder_mem hg)))
    (fun e => by
      rw [hi.holdsMatch o.owner e]
      have h1 := contrib_le_ordersObl hi.wf.orders hg o.owner e
      have h2 := commitsObl_nonneg hi.wf.commits o.owner e
      have h3 := paysObl_nonneg hi.wf.paysNonneg o.owner e
      simp only [contrib, ↓reduceIte] at h1
      simp only [obligations]; omega)
  rw [hs1]
  exact ⟨_, rfl⟩

/-! ### commitments -/

theorem addCommitmentCore_inv {s s' : State} {m : Nat} {a : Addr} {amount : Coins} (hi : Inv s)
    (hn : nodupDenoms amount = true) (h : addCommitmentCore s m a amount = .ok s') :
    Inv s' ∧ ∀ b e, hold s' b e = hold s b e + (if a = b then Coins.amountOf amount e else 0) := by
  unfold addCommitmentCore at h
  split at h
  · rename_i hz
    injection h with h; subst h
    exact ⟨hi, fun b e => by simp [allZero_amountOf hz]⟩
  · split at h
    · simp at h
    · rename_i hneg
      split at h
      · simp at h
      · rename_i s1 hs1
        injection h with h
        have hcov := addHold_covered hs1 hi.covered hn
        obtain ⟨h', e1, hh⟩ := addHold_eq hs1
        have hhold : ∀ b e, hold s' b e = hold s b e + (if a = b then Coins.amountOf amount e else 0) := by
          intro b e
          rw [← h, e1]
          simp only [hold] at *
          rw [hh b e]
        refine ⟨⟨?_, ?_, ?_⟩, hhold⟩
        · intro b e
          rw [hhold, hi.holdsMatch b e, ← h, e1]
          simp only [obligations, commitsObl_setCommitment, amountOf_norm, Coins.amountOf_append]
          split <;> omega
        · intro b e
          have := hcov b e
          rw [← h]
          simpa [hold, bal] using this
        · rw [← h, e1]
          constructor
          · exact hi.wf.orders
          · exact hi.wf.ids
          · exact hi.wf.idsNodup
          · intro c hc
            dsimp only at hc
            rcases mem_setCommitment hc with rfl | hc'
            · exact entriesNonneg_norm (entriesNonneg_append (getCommitment_nonneg hi.wf.commits m a)
                (anyNegative_false (by simpa using hneg)))
            · exact hi.wf.commits c hc'
          · first | exact keys_setCommitment _ _ _ _ hi.wf.ckeys | (dsimp only; exact keys_setCommitment _ _ _ _ hi.wf.ckeys)
          · exact hi.wf.pays
          · exact hi.wf.keys

theorem commitFunds_inv {s s' : State} {m : Nat} {a : Addr} {amount : Coins} {fee : Option Coin} (hi : Inv s)
    (h : commitFunds s a m amount fee = .ok s') :
    Inv s' ∧ ∀ b e, hold s' b e = hold s b e + (if a = b then Coins.amountOf amount e else 0) := by
  unfold commitFunds at h
  split at h
  · simp at h
  · rename_i hv
    split at h
    · simp at h
    · split at h
      · simp at h
      · rename_i s1 hs1
        split at h
        · simp at h
        · split at h
          · simp at h
          · obtain ⟨k', e1, hcov⟩ := collectFee_eq hs1
            have hi1 : Inv s1 := by
              rw [e1]
              exact ⟨hi.holdsMatch, by rw [← e1]; exact hcov hi.covered,
                ⟨hi.wf.orders, hi.wf.ids, hi.wf.idsNodup, hi.wf.commits, hi.wf.ckeys, hi.wf.pays, hi.wf.keys⟩⟩
            have hnd : nodupDenoms amount = true := by
              simp only [not_or, Bool.not_eq_true', Bool.not_eq_false'] at hv
              exact isValidCoins_nodup (by simpa using hv.2.2)
            obtain ⟨hi2, hh2⟩ := addCommitmentCore_inv hi1 hnd h
            refine ⟨hi2, fun b e => ?_⟩
            rw [hh2, e1]
            rfl

/-- the amount a `ReleaseCommitment` call releases: all of it when no amount is given -/
def releasedAmount (s : State) (m : Nat) (a : Addr) (amount : Coins) : Coins :=
  if allZero amount then getCommitment s.commitments m a else amount

theorem releaseCommitment_inv {s s' : State} {m : Nat} {a : Addr} {amount : Coins} (hi : Inv s)
    (h : releaseCommitment s m a amount = .ok s') :
    Inv s' ∧ ∀ b e, hold s' b e = hold s b e - (if a = b then Coins.amountOf (releasedAmount s m a amount) e else 0) := by
  unfold releaseCommitment at h
  split at h
  · simp at h
  · simp only at h
    split at h
    · simp at h
    · split at h
      · rename_i hnz
        split at h
        · simp at h
        · rename_i hneg
          split at h
          · simp at h
          · rename_i s1 hs1
            injection h with h
            obtain ⟨h', e1, hh, hnn⟩ := releaseHoldTx_eq hs1
            have hra : releasedAmount s m a amount = amount := by
              simp only [releasedAmount]; simp only [Bool.not_eq_true'] at hnz; simp [hnz]
            have hhold : ∀ b e, hold s' b e = hold s b e - (if a = b then Coins.amountOf amount e else 0) := by
              intro b e
              rw [← h, e1]
              simp only [hold] at *
              rw [hh b e]
            rw [hra]
            refine ⟨⟨?_, ?_, ?_⟩, hhold⟩
            · intro b e
              rw [hhold, hi.holdsMatch b e, ← h, e1]
              simp only [obligations, commitsObl_setCommitment, amountOf_norm, Coins.amountOf_sub]
              split <;> omega
            · apply covered_of_hold_le hi.covered (by rw [← h, e1])
              intro b e
              rw [hhold]
              have := amountOf_nonneg hnn e
              split <;> omega
            · rw [← h, e1]
              constructor
              · exact hi.wf.orders
              · exact hi.wf.ids
              · exact hi.wf.idsNodup
              · intro c hc
                dsimp only at hc
                rcases mem_setCommitment hc with rfl | hc'
                · exact anyNegative_false (by simpa using hneg)
                · exact hi.wf.commits c hc'
              · first | exact keys_setCommitment _ _ _ _ hi.wf.ckeys | (dsimp only; exact keys_setCommitment _ _ _ _ hi.wf.ckeys)
              · exact hi.wf.pays
              · exact hi.wf.keys
      · rename_i hnz
        split at h
        · simp at h
        · rename_i s1 hs1
          injection h with h
          obtain ⟨h', e1, hh, hnn⟩ := releaseHoldTx_eq hs1
          have hz : allZero amount = true := by simpa using hnz
          have hra : releasedAmount s m a amount = getCommitment s.commitments m a := by
            simp [releasedAmount, hz]
          have hhold : ∀ b e, hold s' b e
                = hold s b e - (if a = b then Coins.amountOf (getCommitment s.commitments m a) e else 0) := by
            intro b e
            rw [← h, e1]
            simp only [hold] at *
            rw [hh b e]
          rw [hra]
          refine ⟨⟨?_, ?_, ?_⟩, hhold⟩
          · intro b e
            rw [hhold, hi.holdsMatch b e, ← h, e1]
            simp only [obligations, commitsObl_setCommitment, Coins.amountOf_nil]
            split <;> omega
          · apply covered_of_hold_le hi.covered (by rw [← h, e1])
            intro b e
            rw [hhold]
            have := amountOf_nonneg hnn e
            split <;> omega
          · rw [← h, e1]
            constructor
            · exact hi.wf.orders
            · exact hi.wf.ids
            · exact hi.wf.idsNodup
            · intro c hc
              dsimp only at hc
              rcases mem_setCommitment hc with rfl | hc'
              · intro x hx; simp at hx
              · exact hi.wf.commits c hc'
            · first | exact keys_setCommitment _ _ _ _ hi.wf.ckeys | (dsimp only; exact keys_setCommitment _ _ _ _ hi.wf.ckeys)
            · exact hi.wf.pays
            · exact hi.wf.keys

theorem releaseCommitments_inv {s s' : State} {m : Nat} {entries : List (Addr × Coins)} (hi : Inv s)
    (h : releaseCommitments s m entries = .ok s') : Inv s' := by
  induction entries generalizing s with
  | nil => simp only [releaseCommitments] at h; injection h with h; subst h; exact hi
  | cons x t ih =>
    obtain ⟨a, amt⟩ := x
    simp only [releaseCommitments] at h
    split at h
    · simp at h
    · rename_i s1 hs1
      exact ih (releaseCommitment_inv hi hs1).1 h

theorem marketReleaseCommitments_inv {s s' : State} {admin : Addr} {m : Nat} {entries : List (Addr × Coins)}
    (hi : Inv s) (h : marketReleaseCommitments s admin m entries = .ok s') : Inv s' := by
  unfold marketReleaseCommitments at h
  split at h
  · simp at h
  · split at h
    · simp at h
    · exact releaseCommitments_inv hi h

/-! ### payments -/

theorem createPayment_inv {s s' : State} {p : Payment} (hi : Inv s) (h : createPayment s p = .ok s') :
    Inv s' ∧ ∀ b e, hold s' b e = hold s b e + pcontrib p b e := by
  unfold createPayment at h
  split at h
  · simp at h
  · rename_i hv
    split at h
    · simp at h
    · rename_i hex
      simp only at h
      split at h
      · simp at h
      · rename_i s2 hs2
        injection h with h; subst h
        have hv' : isValidCoins p.sourceAmt = true ∧ isValidCoins p.targetAmt = true := by
          have hv2 : p.validate = true := by simpa using hv
          simp only [Payment.validate, Bool.and_eq_true] at hv2
          exact hv2.1
        have hnone : getPayment s.payments p.source p.extId = none := by
          cases hg : getPayment s.payments p.source p.extId with
          | none => rfl
          | some x => simp [hg] at hex
        have hcov := addHold_covered (s := { s with payments := setPayment s.payments p }) hs2 hi.covered
          (isValidCoins_nodup hv'.1)
        obtain ⟨h', e1, hh⟩ := addHold_eq hs2
        have hhold : ∀ b e, hold s2 b e = hold s b e + pcontrib p b e := by
          intro b e
          rw [e1]
          simp only [hold, pcontrib] at *
          rw [hh b e]
        refine ⟨⟨?_, hcov, ?_⟩, hhold⟩
        · intro b e
          rw [hhold, hi.holdsMatch b e, e1]
          simp only [obligations, paysObl_setPayment, storedPContrib, hnone]
          omega
        · rw [e1]
          constructor
          · exact hi.wf.orders
          · exact hi.wf.ids
          · exact hi.wf.idsNodup
          · exact hi.wf.commits
          · exact hi.wf.ckeys
          · intro x hx
            rcases mem_setPayment hx with rfl | hx'
            · exact hv'
            · exact hi.wf.pays x hx'
          · exact keys_setPayment _ _ hi.wf.keys

theorem deletePaymentAndReleaseHold_inv {s s' : State} {p : Payment} (hi : Inv s)
    (hg : getPayment s.payments p.source p.extId = some p) (h : deletePaymentAndReleaseHold s p = some s') :
    Inv s' ∧ (∀ b e, hold s' b e = hold s b e - pcontrib p b e) ∧
      s'.payments = deletePayment s.payments p.source p.extId ∧ s'.bank = s.bank := by
  unfold deletePaymentAndReleaseHold at h
  obtain ⟨h', e1, hh, hnn⟩ := releaseHoldTx_eq h
  have hhold : ∀ b e, hold s' b e = hold s b e - pcontrib p b e := by
    intro b e
    rw [e1]
    simp only [hold, pcontrib] at *
    rw [hh b e]
  refine ⟨⟨?_, ?_, ?_⟩, hhold, by rw [e1], by rw [e1]⟩
  · intro b e
    rw [hhold, hi.holdsMatch b e, e1]
    simp only [obligations, paysObl_deletePayment hg]
    omega
  · apply covered_of_hold_le hi.covered (by rw [e1])
    intro b e
    rw [hhold]
    have := amountOf_nonneg hnn e
    simp only [pcontrib]; split <;> omega
  · rw [e1]
    exact hi.wf.of_subset (List.Sublist.refl _) (Nat.le_refl _) (List.Sublist.refl _) (deletePayment_sublist _ _ _)

theorem sendCoins_inv {s s' : State} {f t : Addr} {coins : Coins} (hi : Inv s) (hn : nodupDenoms coins = true)
    (h : sendCoins s f t coins = some s') : Inv s' ∧ ∀ b e, hold s' b e = hold s b e := by
  have hcov := sendCoins_covered h hi.covered hn
  obtain ⟨k', e1, _⟩ := sendCoins_eq h
  subst e1
  exact ⟨⟨hi.holdsMatch, hcov, ⟨hi.wf.orders, hi.wf.ids, hi.wf.idsNodup, hi.wf.commits, hi.wf.ckeys, hi.wf.pays, hi.wf.keys⟩⟩, fun _ _ => rfl⟩

theorem acceptPayment_inv {s s' : State} {p : Payment} (hi : Inv s) (h : acceptPayment s p = .ok s') :
    ∃ ex, getPayment s.payments p.source p.extId = some ex ∧ Inv s' ∧
      ∀ b e, hold s' b e = hold s b e - pcontrib ex b e := by
  unfold acceptPayment at h
  split at h
  · simp at h
  · split at h
    · simp at h
    · split at h
      · simp at h
      · rename_i ex hg
        split at h
        · simp at h
        · split at h
          · simp at h
          · split at h
            · simp at h
            · split at h
              · simp at h
              · rename_i s1 hs1
                have hkey := getPayment_some_key hg
                have hg' : getPayment s.payments ex.source ex.extId = some ex := by rw [hkey.1, hkey.2]; exact hg
                obtain ⟨hi1, hh1, _, _⟩ := deletePaymentAndReleaseHold_inv hi hg' hs1
                have hvalid := hi.wf.pays ex (getPayment_mem hg)
                simp only at h
                split at h
                · simp at h
                · rename_i s2 hs2
                  have hi2 : Inv s2 ∧ ∀ b e, hold s2 b e = hold s1 b e := by
                    split at hs2
                    · injection hs2 with hs2; subst hs2; exact ⟨hi1, fun _ _ => rfl⟩
                    · exact sendCoins_inv hi1 (isValidCoins_nodup hvalid.1) hs2
                  split at h
                  · simp at h
                  · rename_i s3 hs3
                    injection h with h; subst h
                    have hi3 : Inv s3 ∧ ∀ b e, hold s3 b e = hold s2 b e := by
                      split at hs3
                      · injection hs3 with hs3; subst hs3; exact ⟨hi2.1, fun _ _ => rfl⟩
                      · exact sendCoins_inv hi2.1 (isValidCoins_nodup hvalid.2) hs3
                    exact ⟨ex, hg, hi3.1, fun b e => by rw [hi3.2, hi2.2, hh1]⟩

theorem rejectPayment_inv {s s' : State} {t src : Addr} {ext : String} (hi : Inv s)
    (h : rejectPayment s t src ext = .ok s') :
    ∃ ex, getPayment s.payments src ext = some ex ∧ Inv s' ∧ ∀ b e, hold s' b e = hold s b e - pcontrib ex b e := by
  unfold rejectPayment at h
  split at h
  · simp at h
  · rename_i ex hg
    split at h
    · simp at h
    · split at h
      · simp at h
      · split at h
        · simp at h
        · rename_i s1 hs1
          injection h with h; subst h
          have hkey := getPayment_some_key hg
          have hg' : getPayment s.payments ex.source ex.extId = some ex := by rw [hkey.1, hkey.2]; exact hg
          obtain ⟨hi1, hh1, _, _⟩ := deletePaymentAndReleaseHold_inv hi hg' hs1
          exact ⟨ex, hg, hi1, hh1⟩

theorem deletePaymentsAndReleaseHolds_inv {s s' : State} {ps : List Payment} (hi : Inv s)
    (hk : (ps.map payKey).Nodup) (hg : ∀ p ∈ ps, getPayment s.payments p.source p.extId = some p)
    (h : deletePaymentsAndReleaseHolds s ps = some s') :
    Inv s' ∧ ∀ b e, hold s' b e = hold s b e - paysObl ps b e := by
  induction ps generalizing s with
  | nil =>
    simp only [deletePaymentsAndReleaseHolds] at h
    injection h with h; subst h
    exact ⟨hi, fun b e => by simp⟩
  | cons p t ih =>
    simp only [deletePaymentsAndReleaseHolds] at h
    split at h
    · simp at h
    · rename_i s1 hs1
      simp only [List.map_cons, List.nodup_cons] at hk
      obtain ⟨hi1, hh1, hp1, _⟩ := deletePaymentAndReleaseHold_inv hi (hg p (by simp)) hs1
      have := ih hi1 hk.2 (by
        intro q hq
        rw [hp1, getPayment_deletePayment_ne]
        · exact hg q (by simp [hq])
        · intro heq
          apply hk.1
          exact List.mem_map.mpr ⟨q, hq, by simpa [payKey] using heq⟩) h
      refine ⟨this.1, fun b e => ?_⟩
      rw [this.2, hh1, paysObl_cons]; omega

theorem paysObl_append (l1 l2 : List Payment) (b : Addr) (e : Denom) :
    paysObl (l1 ++ l2) b e = paysObl l1 b e + paysObl l2 b e := by
  induction l1 with
  | nil => simp
  | cons p t ih => simp only [List.cons_append, paysObl_cons, ih]; omega

/-- a filter that is the disjoint union of two others sums to the sum of the two -/
theorem paysObl_filter_split (ps : List Payment) (P Q R : Payment → Bool)
    (h : ∀ p ∈ ps, P p = (Q p || R p) ∧ (Q p && R p) = false) (b : Addr) (e : Denom) :
    paysObl (ps.filter P) b e = paysObl (ps.filter Q) b e + paysObl (ps.filter R) b e := by
  induction ps with
  | nil => simp
  | cons p t ih =>
    have ht := ih (fun q hq => h q (List.mem_cons_of_mem _ hq))
    obtain ⟨h1, h2⟩ := h p (by simp)
    simp only [List.filter_cons, h1]
    cases hq : Q p <;> cases hr : R p <;> simp_all [paysObl_cons] <;> omega

theorem paysObl_filter_congr (ps : List Payment) (P Q : Payment → Bool) (h : ∀ p ∈ ps, P p = Q p)
    (b : Addr) (e : Denom) : paysObl (ps.filter P) b e = paysObl (ps.filter Q) b e := by
  rw [List.filter_congr h]

/-- The loop of `RejectPayments`: what it collects are stored payments to the target of the listed
(not yet seen) accounts, no payment twice, and their source amounts add up to those of every
stored payment to the target of a listed, not yet seen account. -/
theorem collectRejected_spec {ps : List Payment} {t : Addr} {srcs seen : List Addr} {l : List Payment}
    (hk : (ps.map payKey).Nodup) (h : collectRejected ps t srcs seen = some l) :
    (∀ p ∈ l, p ∈ ps ∧ p.source ∉ seen) ∧ (l.map payKey).Nodup ∧
    ∀ b e, paysObl l b e =
      paysObl (ps.filter fun p => decide (p.target = t) && (srcs.contains p.source && !seen.contains p.source)) b e := by
  induction srcs generalizing seen l with
  | nil =>
    simp only [collectRejected] at h
    injection h with h; subst h
    refine ⟨by simp, by simp, fun b e => ?_⟩
    have : (ps.filter fun p => decide (p.target = t) && (([] : List Addr).contains p.source && !seen.contains p.source)) = [] := by
      simp
    rw [this]
  | cons src rest ih =>
    simp only [collectRejected] at h
    split at h
    · rename_i hseen
      have hm : src ∈ seen := by simpa using hseen
      obtain ⟨h1, h2, h3⟩ := ih h
      refine ⟨h1, h2, fun b e => ?_⟩
      rw [h3]
      apply paysObl_filter_congr
      intro p _
      by_cases hp : p.source = src
      · simp [hp, hm]
      · simp [hp]
    · rename_i hseen
      simp only [Bool.not_eq_true] at hseen
      split at h
      · simp at h
      · split at h
        · simp at h
        · rename_i l' hl'
          injection h with h; subst h
          obtain ⟨h1, h2, h3⟩ := ih hl'
          have hsp : ∀ p ∈ paymentsForTargetAndSource ps t src, p ∈ ps ∧ p.source = src := by
            intro p hp
            simp only [paymentsForTargetAndSource, List.mem_filter, decide_eq_true_eq] at hp
            exact ⟨hp.1, hp.2.2⟩
          refine ⟨?_, ?_, fun b e => ?_⟩
          · intro p hp
            rcases List.mem_append.mp hp with hp | hp
            · obtain ⟨hm, hs⟩ := hsp p hp
              refine ⟨hm, ?_⟩
              rw [hs]
              intro hc
              have : seen.contains src = true := by simpa using hc
              rw [this] at hseen; cases hseen
            · obtain ⟨hm, hs⟩ := h1 p hp
              exact ⟨hm, fun hc => hs (List.mem_cons_of_mem _ hc)⟩
          · rw [List.map_append]
            refine List.nodup_append.mpr ⟨?_, h2, ?_⟩
            · exact hk.sublist (List.Sublist.map payKey List.filter_sublist)
            · intro x hx y hy hxy
              obtain ⟨p, hp, rfl⟩ := List.mem_map.mp hx
              obtain ⟨q, hq, rfl⟩ := List.mem_map.mp hy
              have hps := (hsp p hp).2
              have hqs := (h1 q hq).2
              apply hqs
              have : q.source = p.source := by
                have := congrArg Prod.fst hxy
                simpa [payKey] using this.symm
              rw [this, hps]; simp
          · have hm : src ∉ seen := by
              intro hc
              have : seen.contains src = true := by simpa using hc
              rw [this] at hseen; cases hseen
            have hsplit := paysObl_filter_split ps
              (fun p => decide (p.target = t) && ((src :: rest).contains p.source && !seen.contains p.source))
              (fun p => decide (p.target = t ∧ p.source = src))
              (fun p => decide (p.target = t) && (rest.contains p.source && !(src :: seen).contains p.source))
              (by
                intro p _
                by_cases hp : p.source = src
                · simp [hp, hm]
                · simp [hp]) b e
            rw [paysObl_append, h3, hsplit]
            rfl

theorem rejectPayments_inv {s s' : State} {t : Addr} {srcs : List Spelled} (hi : Inv s)
    (h : rejectPayments s t srcs = .ok s') :
    Inv s' ∧ ∀ b e, hold s' b e = hold s b e -
      paysObl (s.payments.filter fun p => p.target = t ∧ (srcs.map (·.acct)).contains p.source) b e := by
  unfold rejectPayments at h
  split at h
  · simp at h
  · split at h
    · simp at h
    · rename_i ps hps
      split at h
      · simp at h
      · rename_i s1 hs1
        injection h with h; subst h
        obtain ⟨h1, h2, h3⟩ := collectRejected_spec hi.wf.keys hps
        obtain ⟨hinv, hh⟩ := deletePaymentsAndReleaseHolds_inv hi h2
          (fun p hp => getPayment_of_mem_nodup hi.wf.keys (h1 p hp).1) hs1
        refine ⟨hinv, fun b e => ?_⟩
        rw [hh, h3]
        congr 2
        apply List.filter_congr
        intro p _
        simp

theorem lookupPayments_spec {ps : List Payment} {src : Addr} {exts : List String} {l : List Payment}
    (h : lookupPayments ps src exts = some l) :
    l.map payKey = exts.map (fun e => (src, e)) ∧ ∀ p ∈ l, getPayment ps p.source p.extId = some p := by
  induction exts generalizing l with
  | nil => simp only [lookupPayments] at h; injection h with h; subst h; simp
  | cons e t ih =>
    simp only [lookupPayments] at h
    split at h
    · simp at h
    · rename_i p hp
      split at h
      · simp at h
      · rename_i l' hl'
        injection h with h; subst h
        have hk := getPayment_some_key hp
        obtain ⟨h1, h2⟩ := ih hl'
        refine ⟨by simp [payKey, hk.1, hk.2, h1], ?_⟩
        intro q hq
        rcases List.mem_cons.mp hq with rfl | hq'
        · rw [hk.1, hk.2]; exact hp
        · exact h2 q hq'

theorem nodup_map_pair {α β : Type} (a : α) {l : List β} (h : l.Nodup) : (l.map fun e => (a, e)).Nodup := by
  induction l with
  | nil => simp
  | cons x t ih =>
    simp only [List.nodup_cons] at h
    simp only [List.map_cons, List.nodup_cons, List.mem_map, Prod.mk.injEq, true_and, exists_eq_right]
    exact ⟨h.1, ih h.2⟩

theorem cancelPayments_inv {s s' : State} {src : Addr} {exts : List String} (hi : Inv s)
    (h : cancelPayments s src exts = .ok s') :
    ∃ found, lookupPayments s.payments src exts = some found ∧ Inv s' ∧
      ∀ b e, hold s' b e = hold s b e - paysObl found b e := by
  unfold cancelPayments at h
  split at h
  · simp at h
  · rename_i hv
    split at h
    · simp at h
    · rename_i found hf
      split at h
      · simp at h
      · rename_i s1 hs1
        injection h with h; subst h
        obtain ⟨hk, hg⟩ := lookupPayments_spec hf
        have hnd : exts.Nodup := by
          simp only [not_or, Bool.not_eq_true', Bool.not_eq_false'] at hv
          simpa using hv.2
        refine ⟨found, hf, deletePaymentsAndReleaseHolds_inv hi ?_ hg hs1⟩
        rw [hk]
        exact nodup_map_pair src hnd

theorem updatePaymentTarget_inv {s s' : State} {src : Addr} {ext : String} {nt : Addr} (hi : Inv s)
    (h : updatePaymentTarget s src ext nt = .ok s') : Inv s' ∧ ∀ b e, hold s' b e = hold s b e := by
  unfold updatePaymentTarget at h
  split at h
  · simp at h
  · rename_i ex hg
    split at h
    · simp at h
    · injection h with h; subst h
      have hk := getPayment_some_key hg
      have hg' : getPayment s.payments ex.source ex.extId = some ex := by rw [hk.1, hk.2]; exact hg
      refine ⟨⟨?_, hi.covered, ?_⟩, fun _ _ => rfl⟩
      · intro b e
        have := hi.holdsMatch b e
        simp only [hold, obligations, paysObl_setPayment, storedPContrib, hg', pcontrib] at this ⊢
        omega
      · constructor
        · exact hi.wf.orders
        · exact hi.wf.ids
        · exact hi.wf.idsNodup
        · exact hi.wf.commits
        · exact hi.wf.ckeys
        · intro x hx
          rcases mem_setPayment hx with rfl | hx'
          · exact hi.wf.pays ex (getPayment_mem hg)
          · exact hi.wf.pays x hx'
        · exact keys_setPayment _ _ hi.wf.keys

theorem bankSend_inv {s s' : State} {f t : Addr} {coins : Coins} (hi : Inv s) (h : bankSend s f t coins = .ok s') :
    Inv s' ∧ ∀ b e, hold s' b e = hold s b e := by
  unfold bankSend at h
  split at h
  · simp at h
  · rename_i hv
    split at h
    · simp at h
    · rename_i s1 hs1
      injection h with h; subst h
      simp only [not_or, Bool.not_eq_true', Bool.not_eq_false'] at hv
      exact sendCoins_inv hi (isValidCoins_nodup (by simpa using hv.1)) hs1

/-- bank `DelegateCoins` applies the same availability test and the same move as `SendCoins`. -/
theorem delegateCoins_eq_sendCoins (s : State) (f p : Addr) (amt : Coins) :
    delegateCoins s f p amt = sendCoins s f p amt := rfl

theorem stakeDelegate_inv {s s' : State} {f : Addr} {coin : Coin} (hi : Inv s) (h : stakeDelegate s f coin = .ok s') :
    Inv s' ∧ ∀ b e, hold s' b e = hold s b e := by
  unfold stakeDelegate at h
  split at h
  · simp at h
  · split at h
    · simp at h
    · split at h
      · simp at h
      · rename_i s1 hs1
        injection h with h; subst h
        rw [delegateCoins_eq_sendCoins] at hs1
        exact sendCoins_inv hi (by simp [nodupDenoms, Coins.denoms]) hs1

end PvProofs.Exhold
