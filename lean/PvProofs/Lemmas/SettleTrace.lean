/-
Helper lemmas for C01: what the allocation loops put into the traces (index ranges, positivity),
what the per-order loops (`splitOrderFulfillments`, `validateSide`, `recordSide`, …) establish.
-/
import PvProofs.Lemmas.SettleBasic

namespace PvProofs.Settle
open PvModel PvModel.Settle PvModel.Coins

/-- every entry of a trace refers to asks `[a, a+na)` and bids `[b, b+nb)` -/
def InRange (t : List Tr) (a na b nb : Nat) : Prop :=
  ∀ e ∈ t, a ≤ e.ask ∧ e.ask < a + na ∧ b ≤ e.bid ∧ e.bid < b + nb

theorem InRange.mono {t : List Tr} {a na b nb a' na' b' nb' : Nat} (h : InRange t a na b nb)
    (h1 : a' ≤ a) (h2 : a + na ≤ a' + na') (h3 : b' ≤ b) (h4 : b + nb ≤ b' + nb') :
    InRange t a' na' b' nb' := by
  intro e he
  obtain ⟨x1, x2, x3, x4⟩ := h e he
  exact ⟨by omega, by omega, by omega, by omega⟩

theorem InRange.append {t u : List Tr} {a na b nb : Nat} (h : InRange t a na b nb) (h' : InRange u a na b nb) :
    InRange (t ++ u) a na b nb := by
  intro e he
  rcases List.mem_append.mp he with h1 | h1
  · exact h e h1
  · exact h' e h1

/-! ### allocateAssets -/

theorem fillAsk_spec {a : Nat} {x : Int} {b : Nat} {ys : List Int} {t : List Tr} {b' : Nat} {r : List Int}
    (h : fillAsk a x b ys = .ok (t, b', r)) :
    InRange t a 1 b ys.length ∧ (∀ e ∈ t, 0 < e.amt) ∧ b ≤ b' ∧ b' + r.length = b + ys.length := by
  induction ys generalizing x b t b' r with
  | nil =>
    simp only [fillAsk, Except.ok.injEq, Prod.mk.injEq] at h
    obtain ⟨rfl, rfl, rfl⟩ := h
    exact ⟨by intro e he; simp at he, by intro e he; simp at he, by omega, by simp⟩
  | cons y ys ih =>
    simp only [fillAsk] at h
    split at h; · simp at h
    rename_i hpos
    split at h
    · simp only [Except.ok.injEq, Prod.mk.injEq] at h
      obtain ⟨rfl, rfl, rfl⟩ := h
      refine ⟨?_, ?_, by omega, by simp⟩
      · intro e he; simp at he; subst he; simp
      · intro e he; simp at he; subst he; simp; omega
    · split at h
      · split at h; · simp at h
        rename_i t' b'' r' hrec
        simp only [Except.ok.injEq, Prod.mk.injEq] at h
        obtain ⟨rfl, rfl, rfl⟩ := h
        obtain ⟨i1, i2, i3, i4⟩ := ih hrec
        refine ⟨?_, ?_, by omega, by simp at *; omega⟩
        · intro e he
          simp only [List.mem_cons] at he
          rcases he with rfl | he
          · simp
          · obtain ⟨x1, x2, x3, x4⟩ := i1 e he
            simp only [List.length_cons]
            exact ⟨x1, x2, by omega, by omega⟩
        · intro e he
          simp only [List.mem_cons] at he
          rcases he with rfl | he
          · simp; omega
          · exact i2 e he
      · simp only [Except.ok.injEq, Prod.mk.injEq] at h
        obtain ⟨rfl, rfl, rfl⟩ := h
        refine ⟨?_, ?_, by omega, by simp; omega⟩
        · intro e he; simp at he; subst he; simp
        · intro e he; simp at he; subst he; simp; omega

theorem allocateAssets_spec {a : Nat} {xs : List Int} {b : Nat} {ys : List Int} {t : List Tr}
    (h : allocateAssets a xs b ys = .ok t) :
    InRange t a xs.length b ys.length ∧ (∀ e ∈ t, 0 < e.amt) := by
  induction xs generalizing a b ys t with
  | nil =>
    simp only [allocateAssets, Except.ok.injEq] at h
    subst h
    exact ⟨by intro e he; simp at he, by intro e he; simp at he⟩
  | cons x xs ih =>
    simp only [allocateAssets] at h
    split at h; · simp at h
    rename_i t1 b1 r1 h1
    split at h; · simp at h
    rename_i t2 h2
    simp only [Except.ok.injEq] at h
    subst h
    obtain ⟨i1, i2, i3, i4⟩ := fillAsk_spec h1
    obtain ⟨j1, j2⟩ := ih h2
    refine ⟨?_, ?_⟩
    · apply InRange.append
      · exact i1.mono (by omega) (by simp) (by omega) (by omega)
      · exact j1.mono (by omega) (by simp; omega) (by omega) (by omega)
    · intro e he
      rcases List.mem_append.mp he with h' | h'
      · exact i2 e h'
      · exact j2 e h'

/-! ### splitOrderFulfillments -/

/-- `splitOrderFulfillments` either changes nothing (every order filled in full), or splits exactly
the last order, and only if no other order has been split before. -/
theorem splitOrderFulfillments_spec {filled : Nat → Int} {i : Nat} {os os' : List Order} {left left' : Option Order}
    (h : splitOrderFulfillments filled i os left = .ok (os', left')) :
    (os' = os ∧ left' = left ∧ ∀ k o, os[k]? = some o → o.assets = filled (i + k)) ∨
    (∃ init o f u, os = init ++ [o] ∧ os' = init ++ [f] ∧ left = none ∧ left' = some u ∧
      o.split (filled (i + init.length)) = .ok (f, u) ∧
      ∀ k o, init[k]? = some o → o.assets = filled (i + k)) := by
  induction os generalizing i os' left' with
  | nil =>
    simp only [splitOrderFulfillments, Except.ok.injEq, Prod.mk.injEq] at h
    obtain ⟨rfl, rfl⟩ := h
    left; exact ⟨rfl, rfl, by intro k o hk; simp at hk⟩
  | cons o rest ih =>
    simp only [splitOrderFulfillments] at h
    split at h; · simp at h
    split at h
    · split at h; · simp at h
      rename_i hlast
      split at h; · simp at h
      rename_i hleft
      split at h; · simp at h
      rename_i f u hs
      simp only [Except.ok.injEq, Prod.mk.injEq] at h
      obtain ⟨rfl, rfl⟩ := h
      have hr : rest = [] := by simpa using hlast
      have hl : left = none := by
        cases left with
        | none => rfl
        | some _ => simp at hleft
      subst hr
      right
      exact ⟨[], o, f, u, rfl, rfl, hl, rfl, by simpa using hs, by intro k o hk; simp at hk⟩
    · rename_i hfull
      simp only [ne_eq, Decidable.not_not] at hfull
      split at h; · simp at h
      rename_i r l hrec
      simp only [Except.ok.injEq, Prod.mk.injEq] at h
      obtain ⟨rfl, rfl⟩ := h
      rcases ih hrec with ⟨e1, e2, e3⟩ | ⟨init, o', f, u, e1, e2, e3, e4, e5, e6⟩
      · left
        refine ⟨by rw [e1], e2, ?_⟩
        intro k o' hk
        cases k with
        | zero => simp at hk; subst hk; simp; omega
        | succ k =>
          simp at hk
          have := e3 k o' hk
          rw [this]; congr 1; omega
      · right
        refine ⟨o :: init, o', f, u, by simp [e1], by simp [e2], e3, e4, ?_, ?_⟩
        · rw [← e5]; congr 2; simp; omega
        · intro k o'' hk
          cases k with
          | zero => simp at hk; subst hk; simp; omega
          | succ k =>
            simp at hk
            have := e6 k o'' hk
            rw [this]; congr 1; omega

/-! ### validateSide -/

theorem validateSide_ok {isAsk : Bool} {applied filled : Nat → Int} {i : Nat} {os : List Order}
    (h : validateSide isAsk applied filled i os = .ok ()) :
    ∀ k o, os[k]? = some o →
      (isAsk = true → o.price ≤ applied (i + k)) ∧ (isAsk = false → o.price = applied (i + k)) ∧
      o.assets = filled (i + k) := by
  induction os generalizing i with
  | nil => intro k o hk; simp at hk
  | cons o rest ih =>
    simp only [validateSide] at h
    split at h; · simp at h
    rename_i c1
    split at h; · simp at h
    rename_i c2
    split at h; · simp at h
    rename_i c3
    intro k o' hk
    cases k with
    | zero =>
      simp at hk; subst hk
      simp only [Nat.add_zero]
      refine ⟨fun hA => ?_, fun hB => ?_, by simpa using c3⟩
      · simp [hA] at c1; exact c1
      · simp [hB] at c2; exact c2
    | succ k =>
      simp at hk
      have := ih h k o' hk
      rw [show i + (k + 1) = i + 1 + k by omega]
      exact this

end PvProofs.Settle
