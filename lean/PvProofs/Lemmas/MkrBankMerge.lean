/-
Helper lemmas for the merged (`sdk.Coins.Add`) form of InputOutputCoinsProv — C04.
`Coins.canon` (sorted, one entry per denom, zeros dropped) of positive coins is a valid `sdk.Coins` with the
same amounts; the per-address merged maps carry the per-address totals.
-/
import PvProofs.Lemmas.MkrBank

namespace PvProofs.MkrBankLemmas
open PvModel PvModel.MkrSend PvModel.MkrSend.Bank

/-! ### the order on denoms -/

theorem str_lt_of_ne_of_not_lt {a b : String} (hne : a ≠ b) (h : ¬ a < b) : b < a := by
  have h1 : b ≤ a := Decidable.byContradiction fun hc => h (String.not_le.mp hc)
  refine Decidable.byContradiction fun hc => ?_
  have h2 : a ≤ b := Decidable.byContradiction fun hc' => hc (String.not_le.mp hc')
  exact hne (String.le_antisymm h2 h1)

/-! ### `Coins.canon` -/

def AllPos (l : Coins) : Prop := ∀ c ∈ l, 0 < c.2

theorem amountOf_insertCanon (d : Denom) (x : Int) (l : Coins) (d' : Denom) :
    Coins.amountOf (Coins.insertCanon d x l) d' = (if d = d' then x else 0) + Coins.amountOf l d' := by
  induction l with
  | nil => simp [Coins.insertCanon]
  | cons h t ih =>
    obtain ⟨d0, y⟩ := h
    simp only [Coins.insertCanon]
    by_cases h1 : d = d0
    · subst h1
      simp only [if_true, Coins.amountOf_cons]
      split <;> omega
    · simp only [h1, if_false]
      by_cases h2 : d < d0
      · simp only [h2, if_true, Coins.amountOf_cons]
      · simp only [h2, if_false, Coins.amountOf_cons, ih]
        omega

theorem mem_insertCanon (d : Denom) (x : Int) (l : Coins) (p : Denom × Int)
    (hp : p ∈ Coins.insertCanon d x l) : p.1 = d ∨ ∃ q ∈ l, q.1 = p.1 := by
  induction l with
  | nil =>
    simp only [Coins.insertCanon, List.mem_singleton] at hp
    left; rw [hp]
  | cons h t ih =>
    obtain ⟨d0, y⟩ := h
    simp only [Coins.insertCanon] at hp
    by_cases h1 : d = d0
    · simp only [h1, if_true, List.mem_cons] at hp
      rcases hp with rfl | hp
      · left; exact h1.symm
      · right; exact ⟨p, List.mem_cons_of_mem _ hp, rfl⟩
    · simp only [h1, if_false] at hp
      by_cases h2 : d < d0
      · simp only [h2, if_true, List.mem_cons] at hp
        rcases hp with rfl | rfl | hp
        · left; rfl
        · right; exact ⟨(d0, y), by simp, rfl⟩
        · right; exact ⟨p, by simp [hp], rfl⟩
      · simp only [h2, if_false, List.mem_cons] at hp
        rcases hp with rfl | hp
        · right; exact ⟨(d0, y), by simp, rfl⟩
        · rcases ih hp with h | ⟨q, hq, hqe⟩
          · left; exact h
          · right; exact ⟨q, List.mem_cons_of_mem _ hq, hqe⟩

theorem asc_insertCanon (d : Denom) (x : Int) (l : Coins) (h : Spec.DenomsAscending l) :
    Spec.DenomsAscending (Coins.insertCanon d x l) := by
  unfold Spec.DenomsAscending at *
  induction l with
  | nil => simp [Coins.insertCanon]
  | cons hd t ih =>
    obtain ⟨d0, y⟩ := hd
    obtain ⟨h0, ht⟩ := List.pairwise_cons.mp h
    simp only [Coins.insertCanon]
    by_cases h1 : d = d0
    · simp only [h1, if_true]
      exact List.pairwise_cons.mpr ⟨h0, ht⟩
    · simp only [h1, if_false]
      by_cases h2 : d < d0
      · simp only [h2, if_true]
        refine List.pairwise_cons.mpr ⟨?_, h⟩
        intro q hq
        rcases List.mem_cons.mp hq with rfl | hq
        · exact h2
        · exact String.lt_trans h2 (h0 q hq)
      · simp only [h2, if_false]
        have hlt : d0 < d := str_lt_of_ne_of_not_lt h1 h2
        refine List.pairwise_cons.mpr ⟨?_, ih ht⟩
        intro q hq
        rcases mem_insertCanon d x t q hq with hqd | ⟨r, hr, hre⟩
        · show d0 < q.1
          rw [hqd]; exact hlt
        · show d0 < q.1
          rw [← hre]; exact h0 r hr

theorem pos_insertCanon (d : Denom) (x : Int) (l : Coins) (hx : 0 < x) (h : AllPos l) :
    AllPos (Coins.insertCanon d x l) := by
  induction l with
  | nil =>
    intro c hc
    simp only [Coins.insertCanon, List.mem_singleton] at hc
    rw [hc]; exact hx
  | cons hd t ih =>
    obtain ⟨d0, y⟩ := hd
    have hy : 0 < y := h (d0, y) (by simp)
    have ht : AllPos t := fun c hc => h c (List.mem_cons_of_mem _ hc)
    intro c hc
    simp only [Coins.insertCanon] at hc
    by_cases h1 : d = d0
    · simp only [h1, if_true, List.mem_cons] at hc
      rcases hc with rfl | hc
      · show 0 < x + y; omega
      · exact ht c hc
    · simp only [h1, if_false] at hc
      by_cases h2 : d < d0
      · simp only [h2, if_true, List.mem_cons] at hc
        rcases hc with rfl | rfl | hc
        · exact hx
        · exact hy
        · exact ht c hc
      · simp only [h2, if_false, List.mem_cons] at hc
        rcases hc with rfl | hc
        · exact hy
        · exact ih ht c hc

/-- the fold of `Coins.canon`, with the accumulator explicit -/
def canonFold (a acc : Coins) : Coins := a.foldl (fun acc (p : Denom × Int) => Coins.insertCanon p.1 p.2 acc) acc

theorem canon_eq (a : Coins) : Coins.canon a = (canonFold a []).filter fun p => Decidable.decide (p.2 ≠ 0) := rfl

theorem amountOf_canonFold (a acc : Coins) (d : Denom) :
    Coins.amountOf (canonFold a acc) d = Coins.amountOf acc d + Coins.amountOf a d := by
  unfold canonFold
  induction a generalizing acc with
  | nil => simp
  | cons h t ih =>
    obtain ⟨d0, y⟩ := h
    simp only [List.foldl_cons, ih, amountOf_insertCanon, Coins.amountOf_cons]
    omega

theorem asc_canonFold (a acc : Coins) (h : Spec.DenomsAscending acc) : Spec.DenomsAscending (canonFold a acc) := by
  unfold canonFold
  induction a generalizing acc with
  | nil => simpa using h
  | cons hd t ih => exact ih _ (asc_insertCanon _ _ _ h)

theorem pos_canonFold (a acc : Coins) (ha : AllPos a) (h : AllPos acc) : AllPos (canonFold a acc) := by
  unfold canonFold
  induction a generalizing acc with
  | nil => simpa using h
  | cons hd t ih =>
    exact ih _ (fun c hc => ha c (List.mem_cons_of_mem _ hc))
      (pos_insertCanon _ _ _ (ha hd (by simp)) h)

theorem amountOf_filter_ne_zero (l : Coins) (d : Denom) :
    Coins.amountOf (l.filter fun p => Decidable.decide (p.2 ≠ 0)) d = Coins.amountOf l d := by
  induction l with
  | nil => simp
  | cons h t ih =>
    obtain ⟨d0, y⟩ := h
    by_cases hy : y = 0
    · have e : (Decidable.decide ((d0, y).2 ≠ 0)) = false := by simp [hy]
      rw [List.filter_cons_of_neg (by rw [e]; exact Bool.false_ne_true), ih]
      simp [hy]
    · have e : (Decidable.decide ((d0, y).2 ≠ 0)) = true := by simp [hy]
      rw [List.filter_cons_of_pos (p := fun p : Denom × Int => Decidable.decide (p.2 ≠ 0)) e]
      simp only [Coins.amountOf_cons, ih]

/-- canonicalising does not change any denom's amount -/
theorem amountOf_canon (a : Coins) (d : Denom) : Coins.amountOf (Coins.canon a) d = Coins.amountOf a d := by
  rw [canon_eq, amountOf_filter_ne_zero, amountOf_canonFold]; simp

/-- **`sdk.Coins.Add` of positive coins is a valid `sdk.Coins`.** -/
theorem isValid_canon (a : Coins) (ha : AllPos a) : isValid (Coins.canon a) = true := by
  rw [canon_eq]
  apply isValid_of
  · have h := asc_canonFold a [] (by simp [Spec.DenomsAscending])
    unfold Spec.DenomsAscending at *
    exact h.sublist List.filter_sublist
  · intro c hc
    exact pos_canonFold a [] ha (by intro c hc; cases hc) c (List.mem_filter.mp hc).1

theorem allPos_of_isValid {a : Coins} (h : isValid a = true) : AllPos a := (isValid_imp a h).2

theorem allPos_append {a b : Coins} (ha : AllPos a) (hb : AllPos b) : AllPos (a ++ b) := by
  intro c hc
  rcases List.mem_append.mp hc with h | h
  · exact ha c h
  · exact hb c h

/-! ### coins with pairwise different denoms: membership vs `amountOf` -/

theorem amountOf_eq_zero_of_not_mem (l : Coins) (d : Denom) (h : d ∉ Coins.denoms l) : Coins.amountOf l d = 0 := by
  induction l with
  | nil => simp
  | cons hd t ih =>
    obtain ⟨d0, y⟩ := hd
    simp only [Coins.denoms, List.map_cons, List.mem_cons, not_or] at h
    have : ¬ d0 = d := fun e => h.1 e.symm
    simp only [Coins.amountOf_cons, this, if_false, Int.zero_add]
    exact ih h.2

theorem amountOf_of_mem (l : Coins) (hn : l.Pairwise fun x y => x.1 ≠ y.1) (c : Denom × Int) (hc : c ∈ l) :
    Coins.amountOf l c.1 = c.2 := by
  induction l with
  | nil => cases hc
  | cons hd t ih =>
    obtain ⟨d0, y⟩ := hd
    obtain ⟨h0, ht⟩ := List.pairwise_cons.mp hn
    rcases List.mem_cons.mp hc with h | hc
    · subst h
      have : d0 ∉ Coins.denoms t := by
        intro hm
        obtain ⟨q, hq, hqe⟩ := List.mem_map.mp hm
        exact h0 q hq hqe.symm
      simp [amountOf_eq_zero_of_not_mem t _ this]
    · have hne : ¬ d0 = c.1 := fun e => h0 c hc e
      simp only [Coins.amountOf_cons, hne, if_false, Int.zero_add]
      exact ih ht hc

theorem mem_of_amountOf_ne_zero (l : Coins) (d : Denom) (h : Coins.amountOf l d ≠ 0) : d ∈ Coins.denoms l := by
  exact Decidable.byContradiction fun hc => h (amountOf_eq_zero_of_not_mem l d hc)

theorem amountOf_pos_of_mem_denoms (l : Coins) (hp : AllPos l) (d : Denom) (h : d ∈ Coins.denoms l) :
    0 < Coins.amountOf l d := by
  have hnn : ∀ (t : Coins), AllPos t → 0 ≤ Coins.amountOf t d := by
    intro t ht
    induction t with
    | nil => simp
    | cons hd t ih =>
      obtain ⟨d0, y⟩ := hd
      have hy : 0 < y := ht (d0, y) (by simp)
      have := ih fun c hc => ht c (List.mem_cons_of_mem _ hc)
      simp only [Coins.amountOf_cons]
      split <;> omega
  induction l with
  | nil => cases h
  | cons hd t ih =>
    obtain ⟨d0, y⟩ := hd
    have hy : 0 < y := hp (d0, y) (by simp)
    have hpt : AllPos t := fun c hc => hp c (List.mem_cons_of_mem _ hc)
    simp only [Coins.denoms, List.map_cons, List.mem_cons] at h
    simp only [Coins.amountOf_cons]
    rcases h with rfl | h
    · have := hnn t hpt
      simp; omega
    · have := ih hpt h
      split <;> omega

/-- **The funds test on the merged coins is the funds test of the model** (per denom present, merged
amount against balance − locked), for positive coins `mine` merged into `m`. -/
theorem fundsSuffice_merged (w : World) (l : Ledger) (a : Addr) (mine m : Coins)
    (hm : isValid m = true) (hamt : ∀ d, Coins.amountOf m d = Coins.amountOf mine d) (hp : AllPos mine) :
    fundsSuffice w l a m =
      (Coins.denoms mine).all fun d =>
        Decidable.decide (Coins.amountOf mine d ≤ l.bal a d - w.locked a d) := by
  obtain ⟨hasc, _⟩ := isValid_imp m hm
  have hne := ascending_ne hasc
  rw [Bool.eq_iff_iff]
  unfold fundsSuffice
  simp only [List.all_eq_true, decide_eq_true_eq]
  constructor
  · intro h d hd
    have hpos := amountOf_pos_of_mem_denoms mine hp d hd
    have hmem : d ∈ Coins.denoms m := mem_of_amountOf_ne_zero m d (by rw [hamt]; omega)
    obtain ⟨c, hc, hcd⟩ := List.mem_map.mp hmem
    have := h c hc
    have hx := amountOf_of_mem m hne c hc
    rw [← hamt d, ← hcd, hx]
    exact this
  · intro h c hc
    have hx := amountOf_of_mem m hne c hc
    have hpos : 0 < c.2 := (isValid_imp m hm).2 c hc
    have hmem : c.1 ∈ Coins.denoms mine := mem_of_amountOf_ne_zero mine c.1 (by rw [← hamt, hx]; omega)
    have := h c.1 hmem
    rw [← hamt, hx] at this
    exact this

/-! ### the merged maps (`inputAmounts`/`outputAmounts` with their key order) -/

def keys (m : List (Addr × Coins)) : List Addr := m.map (·.1)

theorem keys_addAmount (a : Addr) (c : Coins) (m : List (Addr × Coins)) :
    keys (addAmount a c m) = if a ∈ keys m then keys m else keys m ++ [a] := by
  induction m with
  | nil => simp [addAmount, keys]
  | cons h t ih =>
    obtain ⟨b, x⟩ := h
    unfold keys at ih ⊢
    by_cases hb : b = a
    · simp [addAmount, hb]
    · have hab : ¬ a = b := fun e => hb e.symm
      simp only [addAmount, hb, if_false, List.map_cons, ih, List.mem_cons, hab, false_or]
      split <;> simp

theorem mem_keys_addAmount (a b : Addr) (c : Coins) (m : List (Addr × Coins)) :
    b ∈ keys (addAmount a c m) ↔ b = a ∨ b ∈ keys m := by
  rw [keys_addAmount]
  split
  · constructor
    · intro h; exact Or.inr h
    · rintro (rfl | h)
      · assumption
      · exact h
  · simp only [List.mem_append, List.mem_singleton]
    constructor
    · rintro (h | h)
      · exact Or.inr h
      · exact Or.inl h
    · rintro (h | h)
      · exact Or.inr h
      · exact Or.inl h

theorem nodup_keys_addAmount (a : Addr) (c : Coins) (m : List (Addr × Coins)) (h : (keys m).Nodup) :
    (keys (addAmount a c m)).Nodup := by
  rw [keys_addAmount]
  split
  · exact h
  · rename_i hn
    rw [List.nodup_append]
    refine ⟨h, by simp, ?_⟩
    intro x hx y hy
    simp only [List.mem_singleton] at hy
    rw [hy]
    intro e
    exact hn (e ▸ hx)

theorem valid_addAmount (a : Addr) (c : Coins) (hc : AllPos c) (m : List (Addr × Coins))
    (h : ∀ p ∈ m, isValid p.2 = true) : ∀ p ∈ addAmount a c m, isValid p.2 = true := by
  induction m with
  | nil =>
    intro p hp
    simp only [addAmount, List.mem_singleton] at hp
    rw [hp]
    exact isValid_canon _ (allPos_append (by intro c hc; cases hc) hc)
  | cons hd t ih =>
    obtain ⟨b, x⟩ := hd
    have hx : isValid x = true := h (b, x) (by simp)
    have ht : ∀ p ∈ t, isValid p.2 = true := fun p hp => h p (List.mem_cons_of_mem _ hp)
    intro p hp
    by_cases hb : b = a
    · simp only [addAmount, hb, if_true, List.mem_cons] at hp
      rcases hp with rfl | hp
      · exact isValid_canon _ (allPos_append (allPos_of_isValid hx) hc)
      · exact ht p hp
    · simp only [addAmount, hb, if_false, List.mem_cons] at hp
      rcases hp with rfl | hp
      · exact hx
      · exact ih ht p hp

theorem creditTotal_addAmount (a : Addr) (c : Coins) (m : List (Addr × Coins)) (b : Addr) (d : Denom) :
    creditTotal (addAmount a c m) b d = (if a = b then Coins.amountOf c d else 0) + creditTotal m b d := by
  induction m with
  | nil => simp [addAmount, creditTotal, coinsAdd, amountOf_canon]
  | cons hd t ih =>
    obtain ⟨k, x⟩ := hd
    by_cases hk : k = a
    · subst hk
      simp only [addAmount, if_true, creditTotal, coinsAdd, amountOf_canon, Coins.amountOf_append]
      split <;> omega
    · simp only [addAmount, hk, if_false, creditTotal, ih]
      omega

/-- all coins of a map, for the supply -/
def allCoins (m : List (Addr × Coins)) : Coins := m.flatMap (·.2)

theorem allCoins_addAmount (a : Addr) (c : Coins) (m : List (Addr × Coins)) (d : Denom) :
    Coins.amountOf (allCoins (addAmount a c m)) d = Coins.amountOf c d + Coins.amountOf (allCoins m) d := by
  unfold allCoins
  induction m with
  | nil => simp [addAmount, coinsAdd, amountOf_canon]
  | cons hd t ih =>
    obtain ⟨k, x⟩ := hd
    by_cases hk : k = a
    · simp only [addAmount, hk, if_true, List.flatMap_cons, Coins.amountOf_append, coinsAdd, amountOf_canon]
      omega
    · simp only [addAmount, hk, if_false, List.flatMap_cons, Coins.amountOf_append, ih]
      omega

theorem creditTotal_append (xs ys : List (Addr × Coins)) (a : Addr) (d : Denom) :
    creditTotal (xs ++ ys) a d = creditTotal xs a d + creditTotal ys a d := by
  induction xs with
  | nil => simp [creditTotal]
  | cons h t ih => obtain ⟨b, x⟩ := h; simp only [List.cons_append, creditTotal, ih]; omega

/-- what the fold keeps: distinct keys, valid entries, the keys and the totals of what was merged in -/
theorem mergeFold (xs : List (Addr × Coins)) (hx : ∀ p ∈ xs, AllPos p.2) :
    ∀ acc : List (Addr × Coins), (keys acc).Nodup → (∀ p ∈ acc, isValid p.2 = true) →
    let m := xs.foldl (fun acc p => addAmount p.1 p.2 acc) acc
    (keys m).Nodup ∧ (∀ p ∈ m, isValid p.2 = true) ∧
    (∀ a, a ∈ keys m ↔ a ∈ keys acc ∨ a ∈ keys xs) ∧
    (∀ a d, creditTotal m a d = creditTotal acc a d + creditTotal xs a d) ∧
    (∀ d, Coins.amountOf (allCoins m) d = Coins.amountOf (allCoins acc) d + Coins.amountOf (allCoins xs) d) := by
  induction xs with
  | nil =>
    intro acc hn hv
    refine ⟨hn, hv, ?_, ?_, ?_⟩
    · intro a; simp [keys]
    · intro a d; simp [creditTotal]
    · intro d; simp [allCoins]
  | cons h t ih =>
    intro acc hn hv
    obtain ⟨a, c⟩ := h
    have hc : AllPos c := hx (a, c) (by simp)
    have := ih (fun p hp => hx p (List.mem_cons_of_mem _ hp)) (addAmount a c acc)
      (nodup_keys_addAmount a c acc hn) (valid_addAmount a c hc acc hv)
    obtain ⟨h1, h2, h3, h4, h5⟩ := this
    simp only [List.foldl_cons]
    refine ⟨h1, h2, ?_, ?_, ?_⟩
    · intro b
      rw [h3 b, mem_keys_addAmount]
      simp only [keys, List.map_cons, List.mem_cons]
      constructor
      · rintro ((h | h) | h)
        · exact Or.inr (Or.inl h)
        · exact Or.inl h
        · exact Or.inr (Or.inr h)
      · rintro (h | h | h)
        · exact Or.inl (Or.inr h)
        · exact Or.inl (Or.inl h)
        · exact Or.inr h
    · intro b d
      rw [h4 b d, creditTotal_addAmount]
      simp only [creditTotal]
      omega
    · intro d
      rw [h5 d, allCoins_addAmount]
      simp only [allCoins, List.flatMap_cons, Coins.amountOf_append]
      omega

theorem mergeAmounts_spec (xs : List (Addr × Coins)) (hx : ∀ p ∈ xs, AllPos p.2) :
    (keys (mergeAmounts xs)).Nodup ∧ (∀ p ∈ mergeAmounts xs, isValid p.2 = true) ∧
    (∀ a, a ∈ keys (mergeAmounts xs) ↔ a ∈ keys xs) ∧
    (∀ a d, creditTotal (mergeAmounts xs) a d = creditTotal xs a d) ∧
    (∀ d, Coins.amountOf (allCoins (mergeAmounts xs)) d = Coins.amountOf (allCoins xs) d) := by
  have := mergeFold xs hx [] (by simp [keys]) (by intro p hp; cases hp)
  obtain ⟨h1, h2, h3, h4, h5⟩ := this
  refine ⟨h1, h2, ?_, ?_, ?_⟩
  · intro a; rw [mergeAmounts, h3 a]; simp [keys]
  · intro a d; rw [mergeAmounts, h4 a d]; simp [creditTotal]
  · intro d; rw [mergeAmounts, h5 d]; simp [allCoins]

/-- with distinct keys the total of a key is its entry -/
theorem creditTotal_of_mem (m : List (Addr × Coins)) (hn : (keys m).Nodup) (p : Addr × Coins) (hp : p ∈ m)
    (d : Denom) : creditTotal m p.1 d = Coins.amountOf p.2 d := by
  induction m with
  | nil => cases hp
  | cons h t ih =>
    obtain ⟨b, x⟩ := h
    simp only [keys, List.map_cons, List.nodup_cons] at hn
    have hzero : ∀ (t' : List (Addr × Coins)) (a : Addr), a ∉ t'.map (·.1) → creditTotal t' a d = 0 := by
      intro t' a ha
      induction t' with
      | nil => rfl
      | cons h' t'' ih' =>
        obtain ⟨k, y⟩ := h'
        simp only [List.map_cons, List.mem_cons, not_or] at ha
        have : ¬ k = a := fun e => ha.1 e.symm
        simp only [creditTotal, this, if_false, Int.zero_add]
        exact ih' ha.2
    rcases List.mem_cons.mp hp with h | h
    · subst h
      simp only [creditTotal, if_true]
      rw [hzero t _ hn.1]; omega
    · have hne : ¬ b = p.1 := by
        intro e
        exact hn.1 (e ▸ List.mem_map.mpr ⟨p, h, rfl⟩)
      simp only [creditTotal, hne, if_false, Int.zero_add]
      exact ih hn.2 h

/-! ### the merged debit and credit phases, closed forms -/

theorem fundsSuffice_debit_other (w : World) (l : Ledger) (a b : Addr) (x amt : Coins) (hab : ¬ a = b) :
    fundsSuffice w (l.debit a x) b amt = fundsSuffice w l b amt := by
  unfold fundsSuffice
  simp [Ledger.bal_debit, hab]

theorem debitMerged_spec (w : World) : ∀ (m : List (Addr × Coins)) (l : Ledger),
    (keys m).Nodup → (∀ p ∈ m, isValid p.2 = true) →
    (debitMerged w l m = .error .funds ∧ ¬ ∀ p ∈ m, fundsSuffice w l p.1 p.2 = true) ∨
    (∃ l', debitMerged w l m = .ok l' ∧ (∀ p ∈ m, fundsSuffice w l p.1 p.2 = true) ∧
      (∀ a d, l'.bal a d = l.bal a d - creditTotal m a d) ∧
      (∀ d, l'.supply d = l.supply d - Coins.amountOf (allCoins m) d))
  | [], l, _, _ => Or.inr ⟨l, rfl, by simp, by simp [creditTotal], by simp [allCoins]⟩
  | (a, amt) :: rest, l, hn, hv => by
    simp only [keys, List.map_cons, List.nodup_cons] at hn
    have hamt : isValid amt = true := hv (a, amt) (by simp)
    have hvr : ∀ p ∈ rest, isValid p.2 = true := fun p hp => hv p (List.mem_cons_of_mem _ hp)
    have hrest : ∀ p ∈ rest, fundsSuffice w (l.debit a amt) p.1 p.2 = fundsSuffice w l p.1 p.2 := by
      intro p hp
      apply fundsSuffice_debit_other
      intro e
      exact hn.1 (e ▸ List.mem_map.mpr ⟨p, hp, rfl⟩)
    unfold debitMerged
    rw [subUnlockedCoins_eq]
    simp only [hamt, if_true]
    by_cases hf : fundsSuffice w l a amt = true
    · simp only [hf, if_true]
      rcases debitMerged_spec w rest (l.debit a amt) hn.2 hvr with ⟨he, hnot⟩ | ⟨l', hok, hall, hbal, hsup⟩
      · left
        refine ⟨he, ?_⟩
        intro hall
        apply hnot
        intro p hp
        rw [hrest p hp]
        exact hall p (List.mem_cons_of_mem _ hp)
      · right
        refine ⟨l', hok, ?_, ?_, ?_⟩
        · intro p hp
          rcases List.mem_cons.mp hp with h | h
          · rw [h]; exact hf
          · rw [← hrest p h]; exact hall p h
        · intro b d
          rw [hbal b d, Ledger.bal_debit]
          simp only [creditTotal]
          omega
        · intro d
          rw [hsup d, Ledger.supply_debit]
          simp only [allCoins, List.flatMap_cons, Coins.amountOf_append]
          omega
    · left
      simp only [hf, Bool.false_eq_true, if_false, true_and]
      intro hall
      exact hf (hall (a, amt) (by simp))

theorem creditMerged_spec : ∀ (m : List (Addr × Coins)) (l : Ledger), (∀ p ∈ m, isValid p.2 = true) →
    ∃ l', creditMerged l m = .ok l' ∧ (∀ a d, l'.bal a d = l.bal a d + creditTotal m a d) ∧
      (∀ d, l'.supply d = l.supply d + Coins.amountOf (allCoins m) d)
  | [], l, _ => ⟨l, rfl, by simp [creditTotal], by simp [allCoins]⟩
  | (a, amt) :: rest, l, hv => by
    have hamt : isValid amt = true := hv (a, amt) (by simp)
    obtain ⟨l', hok, hbal, hsup⟩ := creditMerged_spec rest (l.credit a amt) fun p hp => hv p (List.mem_cons_of_mem _ hp)
    refine ⟨l', ?_, ?_, ?_⟩
    · unfold creditMerged
      simp only [addCoins, hamt, Bool.not_true, Bool.false_eq_true, if_false]
      exact hok
    · intro b d
      rw [hbal b d, Ledger.bal_credit]
      simp only [creditTotal]
      omega
    · intro d
      rw [hsup d, Ledger.supply_credit]
      simp only [allCoins, List.flatMap_cons, Coins.amountOf_append]
      omega

/-! ### the model's debit phase, closed form -/

/-- the (unmerged) coins address `a` pays -/
def mineOf (ins : List IO) (a : Addr) : Coins := sumCoins (ins.filter fun j => j.addr = a)

/-- the model's test for one paying address -/
def fundedAt (w : World) (l : Ledger) (ins : List IO) (a : Addr) : Bool :=
  (Coins.denoms (mineOf ins a)).all fun d =>
    Decidable.decide (Coins.amountOf (mineOf ins a) d ≤ l.bal a d - w.locked a d)

theorem mineOf_cons_self (i : IO) (rest : List IO) :
    mineOf (i :: rest) i.addr = i.coins ++ sumCoins (rest.filter fun j => j.addr = i.addr) := by
  simp [mineOf, sumCoins, List.filter_cons]

theorem mineOf_filter_other (i : IO) (rest : List IO) (a : Addr) (ha : ¬ a = i.addr) :
    mineOf (rest.filter fun j => ¬ j.addr = i.addr) a = mineOf (i :: rest) a := by
  have hia : ¬ i.addr = a := fun e => ha e.symm
  unfold mineOf
  rw [List.filter_filter, List.filter_cons]
  simp only [hia, decide_false, Bool.false_eq_true, if_false]
  congr 1
  apply List.filter_congr
  intro x _
  by_cases hx : x.addr = a
  · simp [hx, ha]
  · simp [hx]

theorem fundedAt_step (w : World) (l : Ledger) (i : IO) (rest : List IO) (mine : Coins) (a : Addr)
    (ha : ¬ a = i.addr) :
    fundedAt w (l.debit i.addr mine) (rest.filter fun j => ¬ j.addr = i.addr) a = fundedAt w l (i :: rest) a := by
  have hia : ¬ i.addr = a := fun e => ha e.symm
  unfold fundedAt
  rw [mineOf_filter_other i rest a ha]
  simp [Ledger.bal_debit, hia]

theorem debitPhaseAux_err (w : World) : ∀ (n : Nat) (ins : List IO) (l : Ledger) (e : Err),
    debitPhaseAux w n l ins = .error e → e = .funds
  | 0, _, _, e, h => by simp [debitPhaseAux] at h
  | _ + 1, [], _, e, h => by simp [debitPhaseAux] at h
  | n + 1, i :: rest, l, e, h => by
    simp only [debitPhaseAux] at h
    split_ifs at h
    · exact debitPhaseAux_err w n _ _ e h
    · cases h; rfl

theorem debitPhaseAux_ok_iff (w : World) : ∀ (n : Nat) (ins : List IO) (l : Ledger), ins.length ≤ n →
    ((∃ l1, debitPhaseAux w n l ins = .ok l1) ↔ ∀ i ∈ ins, fundedAt w l ins i.addr = true)
  | 0, ins, l, hn => by
    have : ins = [] := List.length_eq_zero_iff.mp (Nat.le_zero.mp hn)
    subst this
    simp [debitPhaseAux]
  | n + 1, [], l, _ => by simp [debitPhaseAux]
  | n + 1, i :: rest, l, hn => by
    have hlen : (rest.filter fun j => ¬ j.addr = i.addr).length ≤ n :=
      Nat.le_trans (List.length_filter_le _ _) (Nat.le_of_succ_le_succ hn)
    have hcond : ((Coins.denoms (i.coins ++ sumCoins (rest.filter fun j => j.addr = i.addr))).all fun d =>
        Decidable.decide (Coins.amountOf (i.coins ++ sumCoins (rest.filter fun j => j.addr = i.addr)) d
          ≤ l.bal i.addr d - w.locked i.addr d)) = fundedAt w l (i :: rest) i.addr := by
      unfold fundedAt; rw [mineOf_cons_self]
    simp only [debitPhaseAux]
    rw [hcond]
    by_cases hf : fundedAt w l (i :: rest) i.addr = true
    · rw [if_pos hf, debitPhaseAux_ok_iff w n _ _ hlen]
      constructor
      · intro h j hj
        rcases List.mem_cons.mp hj with rfl | hjr
        · exact hf
        · by_cases hja : j.addr = i.addr
          · rw [hja]; exact hf
          · rw [← fundedAt_step w l i rest _ j.addr hja]
            exact h j (List.mem_filter.mpr ⟨hjr, by simpa using hja⟩)
      · intro h j hj
        obtain ⟨hjr, hja⟩ := List.mem_filter.mp hj
        have hja' : ¬ j.addr = i.addr := by simpa using hja
        rw [fundedAt_step w l i rest _ j.addr hja']
        exact h j (List.mem_cons_of_mem _ hjr)
    · rw [if_neg hf]
      constructor
      · rintro ⟨l1, h⟩; cases h
      · intro h; exact absurd (h i (by simp)) hf

/-- the inputs as (address, coins) pairs -/
def inPairs (ins : List IO) : List (Addr × Coins) := ins.map fun i => (i.addr, i.coins)

theorem creditTotal_inPairs (ins : List IO) (a : Addr) (d : Denom) :
    creditTotal (inPairs ins) a d = inTotal ins a d := by
  induction ins with
  | nil => rfl
  | cons i rest ih => simp only [inPairs, List.map_cons, creditTotal, inTotal] at *; rw [ih]

theorem allCoins_inPairs (ins : List IO) : allCoins (inPairs ins) = sumCoins ins := by
  simp [allCoins, inPairs, sumCoins, List.flatMap_map]

theorem keys_inPairs (ins : List IO) : keys (inPairs ins) = ins.map (·.addr) := by
  simp [keys, inPairs]

theorem allPos_mineOf (ins : List IO) (h : ∀ i ∈ ins, AllPos i.coins) (a : Addr) : AllPos (mineOf ins a) := by
  intro c hc
  simp only [mineOf, sumCoins, List.mem_flatMap, List.mem_filter] at hc
  obtain ⟨i, ⟨hi, _⟩, hci⟩ := hc
  exact h i hi c hci

/-- **The Go-shaped debit phase tests exactly what the model's tests**: every merged entry is covered by
its address' spendable balance iff the model's per-address test holds for every input. -/
theorem merged_funded_iff (w : World) (l : Ledger) (ins : List IO) (hpos : ∀ i ∈ ins, AllPos i.coins) :
    (∀ p ∈ mergeAmounts (inPairs ins), fundsSuffice w l p.1 p.2 = true) ↔
      ∀ i ∈ ins, fundedAt w l ins i.addr = true := by
  have hx : ∀ p ∈ inPairs ins, AllPos p.2 := by
    intro p hp
    obtain ⟨i, hi, rfl⟩ := List.mem_map.mp hp
    exact hpos i hi
  obtain ⟨hn, hv, hk, ht, _⟩ := mergeAmounts_spec (inPairs ins) hx
  have hentry : ∀ p ∈ mergeAmounts (inPairs ins),
      fundsSuffice w l p.1 p.2 = fundedAt w l ins p.1 := by
    intro p hp
    unfold fundedAt
    apply fundsSuffice_merged w l p.1 (mineOf ins p.1) p.2 (hv p hp) _ (allPos_mineOf ins hpos p.1)
    intro d
    rw [← creditTotal_of_mem _ hn p hp d, ht, creditTotal_inPairs, mineOf, amountOf_sumCoins_filter]
  constructor
  · intro h i hi
    have hmem : i.addr ∈ keys (mergeAmounts (inPairs ins)) := by
      rw [hk, keys_inPairs]; exact List.mem_map.mpr ⟨i, hi, rfl⟩
    obtain ⟨p, hp, hpe⟩ := List.mem_map.mp hmem
    rw [← hpe, ← hentry p hp]
    exact h p hp
  · intro h p hp
    have hmem : p.1 ∈ keys (mergeAmounts (inPairs ins)) := List.mem_map.mpr ⟨p, hp, rfl⟩
    rw [hk, keys_inPairs] at hmem
    obtain ⟨i, hi, hie⟩ := List.mem_map.mp hmem
    rw [hentry p hp, ← hie]
    exact h i hi

end PvProofs.MkrBankLemmas
