/-
C05 helper lemmas: `Post s s' d` summarises what one successful marker operation on denom `d`
may do to the state; one lemma per Go function establishes it.
-/
import PvProofs.Lemmas.MkrSupBasic

namespace PvProofs.MkrSupL
open PvModel PvModel.MkrSup PvModel.Ledger PvProofs.LedgerSum

/-- the marker's own account holds at least the whole bank supply of its denom (with
non-negative balances the second disjunct means that no coin of the denom exists at all) -/
def Escrowed (s : State) (d : Denom) : Prop :=
  s.bank.supply d ≤ s.bank.bal (acct d) d ∨ s.bank.supply d ≤ 0

/-- the step does not move an existing marker of `d` into `destroyed` -/
def KeepsAlive (s s' : State) (d : Denom) : Prop :=
  ∀ m m', s.find d = some m → s'.find d = some m' → m'.status = .destroyed → m.status = .destroyed

/-- Summary of a successful operation that works on the marker of denom `d`. -/
structure Post (s s' : State) (d : Denom) : Prop where
  find_ne : ∀ d', d' ≠ d → s'.find d' = s.find d'
  supply_ne : ∀ d', d' ≠ d → s'.bank.supply d' = s.bank.supply d'
  wf : WF s → WF s'
  nonneg : NonNeg s.bank → NonNeg s'.bank
  cons : Consistent s.bank → Consistent s'.bank
  mono : ∀ m, s.find d = some m → ∃ m', s'.find d = some m' ∧ m.status ≤ m'.status
  inv : SupplyInvAt s d → SupplyInvAt s' d
  destroyed : ∀ m m', s.find d = some m → s'.find d = some m' → m'.status = .destroyed →
    m.status = .destroyed ∨ Escrowed s d

theorem Post.refl (s : State) (d : Denom) : Post s s d :=
  ⟨fun _ _ => rfl, fun _ _ => rfl, id, id, id, fun m hm => ⟨m, hm, status_le_refl _⟩, id,
    fun m m' hm hm' hd => by rw [hm] at hm'; cases hm'; exact Or.inl hd⟩

theorem Post.trans {s s1 s2 : State} {d : Denom} (h1 : Post s s1 d) (h2 : Post s1 s2 d)
    (hk : KeepsAlive s1 s2 d ∨ Escrowed s d) : Post s s2 d where
  find_ne d' hd := (h2.find_ne d' hd).trans (h1.find_ne d' hd)
  supply_ne d' hd := (h2.supply_ne d' hd).trans (h1.supply_ne d' hd)
  wf h := h2.wf (h1.wf h)
  nonneg h := h2.nonneg (h1.nonneg h)
  cons h := h2.cons (h1.cons h)
  mono m hm := by
    obtain ⟨m1, hm1, hle1⟩ := h1.mono m hm
    obtain ⟨m2, hm2, hle2⟩ := h2.mono m1 hm1
    exact ⟨m2, hm2, status_le_trans hle1 hle2⟩
  inv h := h2.inv (h1.inv h)
  destroyed m m2 hm hm2 hd := by
    rcases hk with hk | hk
    · obtain ⟨m1, hm1, _⟩ := h1.mono m hm
      exact h1.destroyed m m1 hm hm1 (hk m1 m2 hm1 hm2 hd)
    · exact Or.inr hk

/-- set the record of `d` and replace the bank -/
theorem Post.of_set_bank {s : State} {m' : Marker} {b : Bank} {d : Denom}
    (hd : m'.denom = d)
    (hmono : ∀ m, s.find d = some m → m.status ≤ m'.status)
    (hframe : ∀ d', d' ≠ d → b.supply d' = s.bank.supply d')
    (hnn : NonNeg s.bank → NonNeg b)
    (hcs : Consistent s.bank → Consistent b)
    (hinv : SupplyInvAt s d → m'.status = .active → m'.fixed = true → m'.supply = b.supply d)
    (hdes : m'.status = .destroyed → (∀ m, s.find d = some m → m.status = .destroyed) ∨ Escrowed s d) :
    Post s { (s.setMarker m') with bank := b } d where
  find_ne d' hd' := by
    show (s.setMarker m').find d' = s.find d'
    exact find_setMarker_ne s m' (by rw [hd]; exact hd')
  supply_ne := hframe
  wf h := wf_setMarker h m'
  nonneg := hnn
  cons := hcs
  mono m hm := ⟨m', by show (s.setMarker m').find d = some m'; rw [← hd]; exact find_setMarker_self s m', hmono m hm⟩
  inv hi m hm ha hf := by
    have : (s.setMarker m').find d = some m' := by rw [← hd]; exact find_setMarker_self s m'
    have hm' : (s.setMarker m').find d = some m := hm
    rw [this] at hm'
    cases hm'
    exact hinv hi ha hf
  destroyed m m2 hm hm2 hd2 := by
    have : (s.setMarker m').find d = some m' := by rw [← hd]; exact find_setMarker_self s m'
    have hm2' : (s.setMarker m').find d = some m2 := hm2
    rw [this] at hm2'
    cases hm2'
    rcases hdes hd2 with h | h
    · exact Or.inl (h m hm)
    · exact Or.inr h

/-- replace the bank only -/
theorem Post.of_bank {s : State} {b : Bank} {d : Denom}
    (hframe : ∀ d', d' ≠ d → b.supply d' = s.bank.supply d')
    (hnn : NonNeg s.bank → NonNeg b)
    (hcs : Consistent s.bank → Consistent b)
    (hinv : SupplyInvAt s d → ∀ m, s.find d = some m → m.status = .active → m.fixed = true →
      m.supply = b.supply d) :
    Post s { s with bank := b } d where
  find_ne _ _ := rfl
  supply_ne := hframe
  wf h := h
  nonneg := hnn
  cons := hcs
  mono m hm := ⟨m, hm, status_le_refl _⟩
  inv hi m hm ha hf := hinv hi m hm ha hf
  destroyed m m' hm hm' hd := by
    have hm'' : s.find d = some m' := hm'
    rw [hm] at hm''; cases hm''; exact Or.inl hd

/-- set the record of `d`, bank untouched -/
theorem Post.of_set {s : State} {m' : Marker} {d : Denom}
    (hd : m'.denom = d)
    (hmono : ∀ m, s.find d = some m → m.status ≤ m'.status)
    (hinv : SupplyInvAt s d → m'.status = .active → m'.fixed = true → m'.supply = s.bank.supply d)
    (hdes : m'.status = .destroyed → (∀ m, s.find d = some m → m.status = .destroyed) ∨ Escrowed s d) :
    Post s (s.setMarker m') d :=
  Post.of_set_bank (b := s.bank) hd hmono (fun _ _ => rfl) id id hinv hdes

/-- replace the record by one with the same status, supply and fixed flag -/
theorem Post.of_set_same {s : State} {m m' : Marker} {d : Denom} (hm : s.find d = some m)
    (hd : m'.denom = d) (hs : m'.status = m.status) (hsup : m'.supply = m.supply)
    (hf : m'.fixed = m.fixed) : Post s (s.setMarker m') d :=
  Post.of_set hd (fun m0 hm0 => by rw [hm] at hm0; cases hm0; rw [hs]; exact status_le_refl _)
    (fun hi ha hfx => by rw [hsup]; exact hi m hm (hs ▸ ha) (hf ▸ hfx))
    (fun hdes => Or.inl (fun m0 hm0 => by rw [hm] at hm0; cases hm0; rw [← hs]; exact hdes))

/-- a bank change that leaves every supply unchanged -/
theorem Post.of_move {s : State} {b : Bank} {d : Denom}
    (hsup : ∀ d', b.supply d' = s.bank.supply d') (hnn : NonNeg s.bank → NonNeg b)
    (hcs : Consistent s.bank → Consistent b) :
    Post s { s with bank := b } d :=
  Post.of_bank (fun d' _ => hsup d') hnn hcs (fun hi m hm ha hf => by rw [hsup]; exact hi m hm ha hf)

theorem getMarker_ok {s : State} {d : Denom} {m : Marker} (h : getMarkerByDenom s d = .ok m) :
    s.find d = some m := by
  unfold getMarkerByDenom at h
  split at h
  · cases h; assumption
  · cases h

theorem govMarker_ok {s : State} {d : Denom} {m : Marker} (h : govMarker s d = .ok m) :
    s.find d = some m ∧ m.gov = true := by
  simp only [govMarker, bind_ok, check_ok, pure_ok] at h
  obtain ⟨m0, hm0, _, hg, rfl⟩ := h
  exact ⟨getMarker_ok hm0, hg⟩

/-! ### IncreaseSupply / DecreaseSupply -/

/-- effect of a bank change on balances: only `a0`'s balance of `d0` moves, by `delta` -/
def BalDelta (b b' : Bank) (a0 : Addr) (d0 : Denom) (delta : Int) : Prop :=
  ∀ a d', b'.bal a d' = b.bal a d' + (if a0 = a ∧ d0 = d' then delta else 0)

theorem increaseSupply_spec {s s' : State} {m : Marker} {n : Int}
    (hm : s.find m.denom = some m) (h : increaseSupply s m n = .ok s') :
    Post s s' m.denom ∧ s.bank.supply m.denom + n ≤ s.maxSupply ∧
      s'.bank.supply m.denom = s.bank.supply m.denom + n ∧
      BalDelta s.bank s'.bank (acct m.denom) m.denom n := by
  simp only [increaseSupply, bind_ok, check_ok, pure_ok] at h
  obtain ⟨_, _, _, hmax, s1, hs1, b, hb, rfl⟩ := h
  have hmax' : s.bank.supply m.denom + n ≤ s.maxSupply := by simpa using hmax
  by_cases hf : m.fixed = true
  · simp only [hf, if_true, bind_ok, pure_ok] at hs1
    obtain ⟨_, _, rfl⟩ := hs1
    have hb' : adjustCirculation s.bank m.denom (s.bank.supply m.denom + n) = .ok b := hb
    refine ⟨?_, hmax', adjust_supply hb', ?_⟩
    · exact Post.of_set_bank rfl
        (fun m0 hm0 => by rw [hm] at hm0; cases hm0; exact status_le_refl _)
        (fun d' hd' => adjust_supply_ne hb' hd') (adjust_nonneg hb') (adjust_cons hb')
        (fun _ _ _ => (adjust_supply hb').symm)
        (fun hdes => Or.inl (fun m0 hm0 => by rw [hm] at hm0; cases hm0; exact hdes))
    · intro a d'
      have := adjust_bal hb' a d'
      show b.bal a d' = _
      rw [this]; split <;> omega
  · simp only [hf, Bool.false_eq_true, if_false, pure_ok] at hs1
    subst hs1
    refine ⟨?_, hmax', adjust_supply hb, ?_⟩
    · exact Post.of_bank (fun d' hd' => adjust_supply_ne hb hd') (adjust_nonneg hb) (adjust_cons hb)
        (fun _ m0 hm0 _ hfx => by rw [hm] at hm0; cases hm0; exact absurd hfx hf)
    · intro a d'
      have := adjust_bal hb a d'
      show b.bal a d' = _
      rw [this]; split <;> omega

theorem decreaseSupply_spec {s s' : State} {m : Marker} {n : Int}
    (hm : s.find m.denom = some m) (h : decreaseSupply s m n = .ok s') :
    Post s s' m.denom ∧ n ≤ s.bank.bal (acct m.denom) m.denom ∧
      s'.bank.supply m.denom = s.bank.supply m.denom - n ∧
      BalDelta s.bank s'.bank (acct m.denom) m.denom (-n) := by
  simp only [decreaseSupply, bind_ok, check_ok, pure_ok] at h
  obtain ⟨_, _, _, hesc, s1, hs1, h⟩ := h
  have hesc' : n ≤ s.bank.bal (acct m.denom) m.denom := by simpa using hesc
  by_cases hf : m.fixed = true
  · simp only [hf, if_true, bind_ok, pure_ok] at hs1
    obtain ⟨_, _, rfl⟩ := hs1
    split at h
    · rename_i b hb
      cases h
      have hb' : adjustCirculation s.bank m.denom (s.bank.supply m.denom - n) = .ok b := hb
      refine ⟨?_, hesc', adjust_supply hb', ?_⟩
      · exact Post.of_set_bank rfl
          (fun m0 hm0 => by rw [hm] at hm0; cases hm0; exact status_le_refl _)
          (fun d' hd' => adjust_supply_ne hb' hd') (adjust_nonneg hb') (adjust_cons hb')
          (fun _ _ _ => (adjust_supply hb').symm)
          (fun hdes => Or.inl (fun m0 hm0 => by rw [hm] at hm0; cases hm0; exact hdes))
      · intro a d'
        have := adjust_bal hb' a d'
        show b.bal a d' = _
        rw [this]; split <;> omega
    · cases h
  · simp only [hf, Bool.false_eq_true, if_false, pure_ok] at hs1
    subst hs1
    split at h
    · rename_i b hb
      cases h
      refine ⟨?_, hesc', adjust_supply hb, ?_⟩
      · exact Post.of_bank (fun d' hd' => adjust_supply_ne hb hd') (adjust_nonneg hb) (adjust_cons hb)
          (fun _ m0 hm0 _ hfx => by rw [hm] at hm0; cases hm0; exact absurd hfx hf)
      · intro a d'
        have := adjust_bal hb a d'
        show b.bal a d' = _
        rw [this]; split <;> omega
    · cases h

end PvProofs.MkrSupL
