/-
Helper lemmas for C09: what the dump (`observe`) shows of an invariant state, and the bridge from
the propositional authorisation conditions to the executable checker of `PvModel/VownerSpec.lean`.
-/
import PvProofs.Lemmas.VownerOps

namespace PvProofs.VownerL
open PvModel PvModel.Ledger PvModel.Vowner

theorem observeScope_of_inv {s : State} (hinv : Inv s) (id : ScopeId) :
    ∃ o, HolderIs s.ledger id o ∧ holderOf (observeScope s id) = o ∧
      tokenClause (observeScope s id) = none ∧
      (observeScope s id).supply = (if o.isSome then 1 else 0) ∧
      (observeScope s id).holders = holderList o := by
  obtain ⟨o, ho, hne, hsc⟩ := hinv id
  refine ⟨o, ho, ?_, ?_, ho.1, holdersOf_of_holderIs ho⟩
  · unfold holderOf observeScope
    simp only [holdersOf_of_holderIs ho]
    cases o <;> rfl
  · unfold tokenClause supplyOk holdersOk voOk scopeOk queriesOk holderOf observeScope
    simp only [holdersOf_of_holderIs ho, denomOwner_of_holderIs ho, ho.1]
    cases o with
    | none => simp [holderList]
    | some x => simp [holderList, hsc rfl]

theorem find_observe {s : State} {ids : List ScopeId} {id : ScopeId} (h : id ∈ ids) :
    (ids.map (observeScope s)).find? (fun o => o.id = id) = some (observeScope s id) := by
  induction ids with
  | nil => simp at h
  | cons x t ih =>
    simp only [List.map_cons, List.find?_cons]
    by_cases hx : x = id
    · subst hx; simp [observeScope]
    · have : (observeScope s x).id = x := rfl
      rw [this]
      simp only [hx, decide_false]
      rcases List.mem_cons.mp h with h1 | h1
      · exact absurd h1.symm hx
      · exact ih h1

theorem preHolder_observe {s : State} (hinv : Inv s) {ids : List ScopeId} {id : ScopeId} (h : id ∈ ids)
    {o : Option Addr} (ho : HolderIs s.ledger id o) : preHolder (observe s ids) id = o := by
  unfold preHolder observe
  simp only [find_observe h, Option.bind_some]
  obtain ⟨o1, ho1, h1, _⟩ := observeScope_of_inv hinv id
  rw [h1]; exact holderIs_unique ho1 ho

theorem authorises_of_consents {s : State} {ids : List ScopeId} {st : StepInfo} {h : Addr}
    (hc : Consents s st.kind st.signers h) : authorises (observe s ids) st h = true := by
  unfold authorises
  cases hk : st.kind with
  | send => rw [hk] at hc; simp only [Consents] at hc; simp [hc]
  | env => rw [hk] at hc; exact absurd hc (by simp [Consents])
  | mwithdraw =>
    rw [hk] at hc
    obtain ⟨m, hm, x, hx, h1⟩ := hc
    have : (observe s ids).markers.find? (fun m => m.addr = h) = some m := hm
    simp only [this, List.any_eq_true]
    exact ⟨x, hx, h1⟩
  | msg mt =>
    rw [hk] at hc
    simp only [Bool.or_eq_true]
    rcases hc with h1 | ⟨g, hg, h1, h2, h3⟩ | ⟨m, hm, x, hx, h1⟩
    · exact Or.inl (Or.inl (by simpa using h1))
    · refine Or.inl (Or.inr ?_)
      simp only [observe, List.any_eq_true]
      exact ⟨g, hg, by simp [h1, h2, h3]⟩
    · refine Or.inr ?_
      have : (observe s ids).markers.find? (fun m => m.addr = h) = some m := hm
      rw [this]
      simp only [List.any_eq_true]
      exact ⟨x, hx, h1⟩

theorem depositAuthorised_of {s : State} {ids : List ScopeId} {st : StepInfo} {h : Addr}
    (hc : DepositP s st.signers h) : depositAuthorised (observe s ids) st h = true := by
  unfold depositAuthorised
  cases hm : (observe s ids).markers.find? (fun m => m.addr = h) with
  | none => rfl
  | some m =>
    simp only [Bool.or_eq_true, Bool.not_eq_true']
    cases hr : m.restricted with
    | false => exact Or.inl rfl
    | true =>
      obtain ⟨x, hx, h1⟩ := hc m hm hr
      exact Or.inr (List.any_eq_true.mpr ⟨x, hx, h1⟩)

theorem tokens_ok {s : State} (hinv : Inv s) (ids : List ScopeId) :
    (observe s ids).scopes.findSome? tokenClause = none := by
  unfold observe
  simp only [List.findSome?_eq_none_iff, List.mem_map]
  rintro o ⟨id, _, rfl⟩
  obtain ⟨_, _, _, h, _⟩ := observeScope_of_inv hinv id
  exact h

end PvProofs.VownerL
