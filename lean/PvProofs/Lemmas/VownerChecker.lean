/-
Helper lemmas for C09: what the dump (`observe`) shows of an invariant state, and the bridge from
the propositional authorisation conditions to the executable checker of `PvModel/VownerSpec.lean`.
-/
import PvProofs.Lemmas.VownerEffects

namespace PvProofs.VownerL
open PvModel PvModel.Ledger PvModel.Vowner

/-! ### the two queries on a well-formed token -/

/-- the `Scope` query's value owner: the token's holder when the scope record exists -/
theorem queryScopeValueOwner_of_holderIs {s : State} {id : ScopeId} {o : Option Addr}
    (ho : HolderIs s.ledger id o) :
    queryScopeValueOwner s id = if hasScope s id = true then o.getD "" else "" := by
  unfold queryScopeValueOwner
  rw [← findScope_isSome, denomOwner_of_holderIs ho]
  cases findScope s id with
  | none => rfl
  | some e => cases o <;> rfl

/-- the `ValueOwnership` query of account `a` lists scope `id` exactly when `a` holds its token -/
theorem mem_queryValueOwnership {s : State} {id : ScopeId} {o : Option Addr} (ho : HolderIs s.ledger id o)
    (hsd : isScopeDenom id = true) (a : Addr) : id ∈ queryValueOwnership s a ↔ o = some a :=
  mem_scopesForValueOwner ho hsd

theorem listedBy_of_holderIs {s : State} {id : ScopeId} {o : Option Addr} (ho : HolderIs s.ledger id o)
    (hsd : isScopeDenom id = true) : listedBy s id = (holderList o).map (·.1) := by
  unfold listedBy
  have hp : ∀ a, (queryValueOwnership s a).contains id = true ↔ o = some a := fun a => by
    rw [List.contains_iff_mem]; exact mem_queryValueOwnership ho hsd a
  cases o with
  | none =>
    simp only [holderList, List.map_nil]
    apply List.filter_eq_nil_iff.mpr
    intro a _ hc
    exact absurd ((hp a).mp hc) (by simp)
  | some x =>
    have hx : bal s.ledger x id = 1 := by have := ho.2 x; simpa using this
    rw [← List.filterMap_eq_filter]
    simp only [holderList, List.map_cons, List.map_nil]
    apply filterMap_single (nodup_dedup _) (x := x)
    · exact mem_dedup.mpr (bal_ne_zero_mem (by rw [hx]; decide))
    · have := (mem_queryValueOwnership ho hsd x).mpr rfl
      simp [Option.guard, this]
    · intro y hy
      have : ¬ id ∈ queryValueOwnership s y := fun hc => by
        have := (mem_queryValueOwnership ho hsd y).mp hc; injection this with this; exact hy this.symm
      simp [Option.guard, this]

theorem observeScope_of_inv {s : State} (hinv : Inv s) (id : ScopeId) (hsd : isScopeDenom id = true) :
    ∃ o, HolderIs s.ledger id o ∧ holderOf (observeScope s id) = o ∧
      tokenClause (observeScope s id) = none ∧
      (observeScope s id).supply = (if o.isSome then 1 else 0) ∧
      (observeScope s id).holders = holderList o := by
  obtain ⟨o, ho, hne, hsc⟩ := hinv id hsd
  refine ⟨o, ho, ?_, ?_, ho.1, holdersOf_of_holderIs ho⟩
  · unfold holderOf observeScope
    simp only [holdersOf_of_holderIs ho]
    cases o <;> rfl
  · unfold tokenClause supplyOk holdersOk voOk scopeOk queriesOk holderOf observeScope
    simp only [holdersOf_of_holderIs ho, denomOwner_of_holderIs ho, ho.1,
      queryScopeValueOwner_of_holderIs ho, listedBy_of_holderIs ho hsd]
    cases o with
    | none => simp [holderList]
    | some x => simp [holderList, hsc rfl]

theorem find_observe {s : State} {ids : List ScopeId} {id : ScopeId} (h : id ∈ ids) :
    (ids.map (observeScope s)).find? (fun o => o.id = id) = some (observeScope s id) := by
  induction ids with
  | nil => simp at h
  | cons x t ih =>
    simp only [List.map_cons, List.find?_cons]
    by_cases hx : x = id
    · subst hx; simp [observeScope]
    · have : (observeScope s x).id = x := rfl
      rw [this]
      simp only [hx, decide_false]
      rcases List.mem_cons.mp h with h1 | h1
      · exact absurd h1.symm hx
      · exact ih h1

theorem preHolder_observe {s : State} (hinv : Inv s) {ids : List ScopeId} {id : ScopeId} (h : id ∈ ids)
    (hsd : isScopeDenom id = true)
    {o : Option Addr} (ho : HolderIs s.ledger id o) : preHolder (observe s ids) id = o := by
  unfold preHolder observe
  simp only [find_observe h, Option.bind_some]
  obtain ⟨o1, ho1, h1, _⟩ := observeScope_of_inv hinv id hsd
  rw [h1]; exact holderIs_unique ho1 ho

theorem authorises_of_consents {s : State} {ids : List ScopeId} {st : StepInfo} {h : Addr}
    (hc : Consents s st.kind st.signers h) : authorises (observe s ids) st h = true := by
  unfold authorises
  cases hk : st.kind with
  | send => rw [hk] at hc; simp only [Consents] at hc; simp [hc]
  | env => rw [hk] at hc; exact absurd hc (by simp [Consents])
  | fill oid =>
    rw [hk] at hc
    obtain ⟨o, ho, h1, h2⟩ := hc
    simp only [observe, List.any_eq_true]
    exact ⟨o, ho, by simp [h1, h2]⟩
  | mwithdraw =>
    rw [hk] at hc
    obtain ⟨m, hm, x, hx, h1⟩ := hc
    have : (observe s ids).markers.find? (fun m => m.addr = h) = some m := hm
    simp only [this, List.any_eq_true]
    exact ⟨x, hx, h1⟩
  | msg mt =>
    rw [hk] at hc
    simp only [Bool.or_eq_true]
    rcases hc with h1 | ⟨g, hg, h1, h2, h3⟩ | ⟨m, hm, x, hx, h1⟩
    · exact Or.inl (Or.inl (by simpa using h1))
    · refine Or.inl (Or.inr ?_)
      simp only [observe, List.any_eq_true]
      exact ⟨g, hg, by simp [h1, h2, h3]⟩
    · refine Or.inr ?_
      have : (observe s ids).markers.find? (fun m => m.addr = h) = some m := hm
      rw [this]
      simp only [List.any_eq_true]
      exact ⟨x, hx, h1⟩

theorem depositAuthorised_of {s : State} {ids : List ScopeId} {st : StepInfo} {h : Addr}
    (hc : DepositP s st.signers h) : depositAuthorised (observe s ids) st h = true := by
  unfold depositAuthorised
  cases hm : (observe s ids).markers.find? (fun m => m.addr = h) with
  | none => rfl
  | some m =>
    simp only [Bool.or_eq_true, Bool.not_eq_true']
    cases hr : m.restricted with
    | false => exact Or.inl rfl
    | true =>
      obtain ⟨x, hx, h1⟩ := hc m hm hr
      exact Or.inr (List.any_eq_true.mpr ⟨x, hx, h1⟩)

theorem tokens_ok {s : State} (hinv : Inv s) (ids : List ScopeId) (hids : ∀ id ∈ ids, isScopeDenom id = true) :
    (observe s ids).scopes.findSome? tokenClause = none := by
  unfold observe
  simp only [List.findSome?_eq_none_iff, List.mem_map]
  rintro o ⟨id, hid, rfl⟩
  obtain ⟨_, _, _, h, _⟩ := observeScope_of_inv hinv id (hids id hid)
  exact h

end PvProofs.VownerL
