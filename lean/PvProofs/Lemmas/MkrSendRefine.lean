/-
C04 helper lemmas, second layer: every block of the model's `SendRestrictionFn` refines the
corresponding flowchart of the specification (`*_eq_spec`), the shape of the allow set
(`nonBypass_allow_iff`, `validateSendDenom_restricted_allow`, `checkFromMarker_split`), and the
permission-rewriting machinery behind "only deposit / withdraw / transfer rights matter".
-/
import PvProofs.Lemmas.MkrSend
import Mathlib.Tactic.SplitIfs

namespace PvProofs.MkrSendLemmas
open PvModel PvModel.MkrSend

theorem getMarkerIgnoreErr_eq (cfg : Cfg) (a : Addr) : getMarkerIgnoreErr cfg a = Spec.markerAt cfg a := by
  unfold getMarkerIgnoreErr getMarker Spec.markerAt
  cases cfg.acct a <;> rfl

theorem agents_guard (l : List Addr) (f : Addr → Bool) :
    (Decidable.decide (l.length > 0) && l.any f) = l.any f := by
  cases l <;> simp

theorem validateSendDenom_eq_spec (cfg : Cfg) (d : Denom) :
    Spec.decisionFlow (validateSendDenom cfg (getMarkerIgnoreErr cfg cfg.toAddr) d)
      = Spec.validateSendDenom cfg d := by
  unfold validateSendDenom Spec.validateSendDenom Spec.vsd_isdm Spec.markerOf
  simp only [getMarkerIgnoreErr_eq]
  cases hacct : cfg.acct (cfg.markerAddr d) with
  | none => simp [Spec.markerAt, hacct, Spec.decisionFlow]
  | other => simp [Spec.markerAt, hacct, Spec.decisionFlow]
  | marker m =>
    have hmo : Spec.markerAt cfg (cfg.markerAddr d) = some m := by simp [Spec.markerAt, hacct]
    rw [hmo]
    simp only [validateSendDenomMarker]
    have hfm := findMissing_length_ne_zero cfg m cfg.toAddr
    simp only [atLeastOne_eq, agents_guard, hasAccess_eq, isSendDeny, isReqAttrBypassAddr,
      Spec.vsd_isma, Spec.vsd_qisrc, Spec.vsd_qistofc, Spec.vsd_ista, Spec.vsd_qisdeny, Spec.vsd_qhastrans,
      Spec.vsd_qisdep, Spec.vsd_qmhasattr, Spec.vsd_qissbp, Spec.vsd_qisrbp, Spec.vsd_qrhasattr,
      List.contains_eq_mem, List.length_eq_zero_iff]
    by_cases h1 : m.status = MStatus.active
    case neg => simp [h1, Spec.decisionFlow, Spec.reasonNode, deny]
    by_cases h2 : m.mtype = MType.restricted
    case neg => simp [h1, h2, Spec.decisionFlow, allow]
    by_cases h3 : cfg.toAddr = cfg.feeCollectorAddr
    case pos => simp [h1, h2, h3, Spec.decisionFlow, Spec.reasonNode, deny]
    by_cases h4 : (cfg.agents.any fun a => Spec.hasAccess m a Access.transfer) = true
    case pos => simp [h1, h2, h3, h4, Spec.decisionFlow, allow]
    by_cases h5 : cfg.fromAddr ∈ m.deny
    case pos => simp [h1, h2, h3, h4, h5, Spec.decisionFlow, Spec.reasonNode, deny]
    by_cases h6 : Spec.hasAccess m cfg.fromAddr Access.transfer = true
    case pos => simp [h1, h2, h3, h4, h5, h6, Spec.decisionFlow, allow]
    by_cases h7 : (Spec.markerAt cfg cfg.toAddr).isSome = true
    case pos => simp [h1, h2, h3, h4, h5, h6, h7, Spec.decisionFlow, Spec.reasonNode, deny]
    by_cases h8 : m.reqAttrs = []
    case pos =>
      by_cases h9 : cfg.fromAddr ∈ cfg.reqAttrBypass <;>
        simp [h1, h2, h3, h4, h5, h6, h7, h8, h9, Spec.decisionFlow, Spec.reasonNode, allow, deny]
    by_cases h10 : cfg.toAddr ∈ cfg.reqAttrBypass
    case pos => simp [h1, h2, h3, h4, h5, h6, h7, h8, h10, Spec.decisionFlow, allow]
    by_cases h11 : Spec.hasRequiredAttributes cfg m cfg.toAddr = true
    · have : ¬ (findMissingAttributes m.reqAttrs (cfg.attrs cfg.toAddr)).length ≠ 0 := by
        intro hc; rw [hfm.mp hc] at h11; cases h11
      simp [h1, h2, h3, h4, h5, h6, h7, h8, h10, h11, this, Spec.decisionFlow, allow]
    · have h11' : Spec.hasRequiredAttributes cfg m cfg.toAddr = false := by simpa using h11
      have := hfm.mpr h11'
      simp [h1, h2, h3, h4, h5, h6, h7, h8, h10, h11', this, Spec.decisionFlow, Spec.reasonNode, deny]

theorem checkOwnDenom_eq_spec (fm : Marker) (amt : Coins) (hs : Spec.DenomsAscending amt) :
    Spec.decisionFlow (checkOwnDenom fm amt) =
      (if Spec.csm_isasm amt fm then (if Spec.csm_issma fm then Spec.Flow.ok else Spec.Flow.denied .issma)
       else Spec.Flow.ok) := by
  unfold checkOwnDenom Spec.csm_isasm Spec.csm_issma
  have hfind := find_nonzero_iff amt hs fm.denom
  by_cases hst : fm.status = MStatus.active
  · simp [hst, Spec.decisionFlow, allow]
  · simp only [ne_eq, hst, not_false_eq_true, if_true, decide_false, Bool.false_eq_true, if_false]
    cases hf : find amt fm.denom with
    | none =>
      have : ¬ Coins.amountOf amt fm.denom ≠ 0 := fun hc => by
        obtain ⟨a, ha, _⟩ := hfind.mpr hc
        rw [hf] at ha; cases ha
      simp [this, Spec.decisionFlow]
    | some a =>
      by_cases ha : a = 0
      · have : ¬ Coins.amountOf amt fm.denom ≠ 0 := fun hc => by
          obtain ⟨a', ha', hne⟩ := hfind.mpr hc
          rw [hf] at ha'; cases ha'; exact hne ha
        simp [ha, this, Spec.decisionFlow, allow]
      · have : Coins.amountOf amt fm.denom ≠ 0 := hfind.mp ⟨a, hf, ha⟩
        simp [ha, this, Spec.decisionFlow, Spec.reasonNode, deny]

theorem checkFromMarker_eq_spec (cfg : Cfg) (amt : Coins) (hs : Spec.DenomsAscending amt) :
    Spec.decisionFlow (checkFromMarker cfg amt) = Spec.checkSenderMarker cfg amt := by
  unfold checkFromMarker Spec.checkSenderMarker Spec.csm_issm
  rw [getMarkerIgnoreErr_eq]
  cases Spec.markerAt cfg cfg.fromAddr with
  | none => rfl
  | some fm =>
    simp only [← checkOwnDenom_eq_spec fm amt hs]
    unfold checkWithdraw
    simp only [validateAtLeastOne_eq, Spec.csm_isfg, Spec.csm_istaw]
    by_cases hfg : cfg.feeGrant = true
    · simp [hfg, allow]
    · by_cases hag : cfg.agents = []
      · simp [hfg, hag, Spec.decisionFlow, Spec.reasonNode, deny]
      · have hlen : ¬ cfg.agents.length = 0 := fun h => hag (List.length_eq_zero_iff.mp h)
        by_cases hw : (cfg.agents.any fun a => Spec.hasAccess fm a Access.withdraw) = true
        · simp [hfg, hlen, hw, allow]
        · simp [hfg, hlen, hw, Spec.decisionFlow, Spec.reasonNode, deny]

theorem checkToMarker_eq_spec (cfg : Cfg) :
    Spec.decisionFlow (checkToMarker cfg (getMarkerIgnoreErr cfg cfg.toAddr)) = Spec.checkReceiverMarker cfg := by
  unfold checkToMarker Spec.checkReceiverMarker Spec.crm_issm
  rw [getMarkerIgnoreErr_eq]
  cases Spec.markerAt cfg cfg.toAddr with
  | none => rfl
  | some tm =>
    by_cases ht : tm.mtype = MType.restricted
    · simp only [ht, if_true, validateAtLeastOne_eq, hasAccess_eq, Spec.crm_haveta, Spec.crm_istad, Spec.crm_isrd]
      by_cases hag : cfg.agents = []
      · by_cases hd : Spec.hasAccess tm cfg.fromAddr Access.deposit = true
        · simp [hag, hd, Spec.decisionFlow, allow]
        · simp [hag, hd, Spec.decisionFlow, Spec.reasonNode, deny]
      · have hlen : cfg.agents.length > 0 := List.length_pos_iff.mpr hag
        by_cases hd : (cfg.agents.any fun a => Spec.hasAccess tm a Access.deposit) = true
        · simp [hag, hlen, hd, Spec.decisionFlow, allow]
        · simp [hag, hlen, hd, Spec.decisionFlow, Spec.reasonNode, deny]
    · simp [ht, Spec.decisionFlow, allow]

theorem bypassDenom_none {cfg : Cfg} {d : Denom} (h : cfg.acct (cfg.markerAddr d) = Acct.none) :
    bypassFeeCollectorDenom cfg d = allow ∧ Spec.isRestrictedCoin cfg d = false := by
  simp [bypassFeeCollectorDenom, getMarkerIgnoreErr, getMarker, Spec.isRestrictedCoin, Spec.markerOf, Spec.markerAt, h]

theorem bypassDenom_other {cfg : Cfg} {d : Denom} (h : cfg.acct (cfg.markerAddr d) = Acct.other) :
    bypassFeeCollectorDenom cfg d = allow ∧ Spec.isRestrictedCoin cfg d = false := by
  simp [bypassFeeCollectorDenom, getMarkerIgnoreErr, getMarker, Spec.isRestrictedCoin, Spec.markerOf, Spec.markerAt, h]

theorem bypassDenom_marker {cfg : Cfg} {d : Denom} {m : Marker} (h : cfg.acct (cfg.markerAddr d) = Acct.marker m) :
    bypassFeeCollectorDenom cfg d = (if m.mtype = MType.restricted then deny .fcBypass else allow) ∧
      Spec.isRestrictedCoin cfg d = Decidable.decide (m.mtype = MType.restricted) := by
  simp [bypassFeeCollectorDenom, getMarkerIgnoreErr, getMarker, Spec.isRestrictedCoin, Spec.markerOf, Spec.markerAt, h]

theorem bypassLoop_eq_spec (cfg : Cfg) (amt : Coins) :
    Spec.decisionFlow (forCoins (bypassFeeCollectorDenom cfg) amt) =
      if Spec.qrc cfg amt then Spec.Flow.denied .qrc else Spec.Flow.ok := by
  induction amt with
  | nil => rfl
  | cons c t ih =>
    obtain ⟨d, a⟩ := c
    have ih' := ih
    simp only [Spec.qrc] at ih' ⊢
    simp only [forCoins, List.any_cons]
    rcases hacct : cfg.acct (cfg.markerAddr d) with _ | _ | m
    · obtain ⟨h1, h2⟩ := bypassDenom_none hacct
      simp only [h1, h2, allow, Bool.false_or]; exact ih'
    · obtain ⟨h1, h2⟩ := bypassDenom_other hacct
      simp only [h1, h2, allow, Bool.false_or]; exact ih'
    · obtain ⟨h1, h2⟩ := bypassDenom_marker hacct
      simp only [h1, h2]
      by_cases hr : m.mtype = MType.restricted
      · simp [hr, Spec.decisionFlow, Spec.reasonNode, deny]
      · simp only [hr, decide_false, Bool.false_or, if_false, allow]; exact ih'

theorem onBypassPath_eq (cfg : Cfg) : onBypassPath cfg = Spec.qhasbp cfg := by
  unfold onBypassPath Spec.qhasbp
  by_cases h1 : cfg.fromAddr = cfg.markerModuleAddr <;>
    by_cases h2 : cfg.fromAddr = cfg.ibcTransferModuleAddr <;> cases cfg.bypass <;> simp [h1, h2]

/-- Shape of the non-bypass branch: sender block, receiver block, denom loop, all must pass. -/
theorem nonBypass_allow_iff (cfg : Cfg) (amt : Coins) (hb : onBypassPath cfg = false) :
    decide cfg amt = allow ↔
      checkFromMarker cfg amt = allow ∧
      checkToMarker cfg (getMarkerIgnoreErr cfg cfg.toAddr) = allow ∧
      forCoins (validateSendDenom cfg (getMarkerIgnoreErr cfg cfg.toAddr)) amt = allow := by
  unfold MkrSend.decide sendRestrictionFn
  simp only [hb, Bool.false_eq_true, if_false]
  cases h1 : checkFromMarker cfg amt with
  | error e => simp [allow]
  | ok u =>
    cases h2 : checkToMarker cfg (getMarkerIgnoreErr cfg cfg.toAddr) with
    | error e => simp [allow]
    | ok v => cases u; cases v; simp [allow]

/-! ### per-denom facts used by the corollaries -/

theorem validateSendDenom_other {cfg : Cfg} {tm : Option Marker} {d : Denom}
    (h : cfg.acct (cfg.markerAddr d) = Acct.other) : validateSendDenom cfg tm d = allow := by
  simp [validateSendDenom, getMarkerIgnoreErr, getMarker, h]

theorem validateSendDenom_none {cfg : Cfg} {tm : Option Marker} {d : Denom}
    (h : cfg.acct (cfg.markerAddr d) = Acct.none) : validateSendDenom cfg tm d = allow := by
  simp [validateSendDenom, getMarkerIgnoreErr, getMarker, h]

/-- A restricted marker's coin passes `validateSendDenom` only if the marker is active, the receiver is
not the fee collector, and either an agent has transfer, or the sender is not on the deny list and has
transfer itself, or (receiver not a marker) the required-attribute route applies. -/
theorem validateSendDenom_restricted_allow {cfg : Cfg} {tm : Option Marker} {d : Denom} {m : Marker}
    (h : cfg.acct (cfg.markerAddr d) = Acct.marker m) (hr : m.mtype = MType.restricted)
    (ha : validateSendDenom cfg tm d = allow) :
    m.status = MStatus.active ∧ cfg.toAddr ≠ cfg.feeCollectorAddr ∧
    ((∃ a ∈ cfg.agents, Spec.hasAccess m a .transfer = true) ∨
     (cfg.fromAddr ∉ m.deny ∧
       (Spec.hasAccess m cfg.fromAddr .transfer = true ∨
        (tm = none ∧
          ((m.reqAttrs = [] ∧ cfg.fromAddr ∈ cfg.reqAttrBypass) ∨
           (m.reqAttrs ≠ [] ∧ (cfg.toAddr ∈ cfg.reqAttrBypass ∨
              Spec.hasRequiredAttributes cfg m cfg.toAddr = true))))))) := by
  have hfm := findMissing_length_ne_zero cfg m cfg.toAddr
  simp only [validateSendDenom, validateSendDenomMarker, getMarkerIgnoreErr, getMarker, h, atLeastOne_eq,
    agents_guard, hasAccess_eq, isSendDeny,
    isReqAttrBypassAddr, List.contains_eq_mem, List.length_eq_zero_iff] at ha
  by_cases h1 : m.status = MStatus.active
  case neg => simp [h1, allow, deny] at ha
  by_cases h3 : cfg.toAddr = cfg.feeCollectorAddr
  case pos => simp [h1, hr, h3, allow, deny] at ha
  refine ⟨h1, h3, ?_⟩
  by_cases h4 : (cfg.agents.any fun a => Spec.hasAccess m a Access.transfer) = true
  case pos =>
    left
    obtain ⟨a, ha1, ha2⟩ := List.any_eq_true.mp h4
    exact ⟨a, ha1, ha2⟩
  right
  by_cases h5 : cfg.fromAddr ∈ m.deny
  case pos => simp [h1, hr, h3, h4, h5, allow, deny] at ha
  refine ⟨h5, ?_⟩
  by_cases h6 : Spec.hasAccess m cfg.fromAddr Access.transfer = true
  case pos => exact Or.inl h6
  right
  cases tm with
  | some t => simp [h1, hr, h3, h4, h5, h6, allow, deny] at ha
  | none =>
    refine ⟨rfl, ?_⟩
    by_cases h8 : m.reqAttrs = []
    · left
      by_cases h9 : cfg.fromAddr ∈ cfg.reqAttrBypass
      · exact ⟨h8, h9⟩
      · simp [h1, hr, h3, h4, h5, h6, h8, h9, allow, deny] at ha
    · right
      refine ⟨h8, ?_⟩
      by_cases h10 : cfg.toAddr ∈ cfg.reqAttrBypass
      · exact Or.inl h10
      · right
        by_cases h11 : Spec.hasRequiredAttributes cfg m cfg.toAddr = true
        · exact h11
        · have h11' : Spec.hasRequiredAttributes cfg m cfg.toAddr = false := by simpa using h11
          have := hfm.mpr h11'
          simp [h1, hr, h3, h4, h5, h6, h8, h10, this, allow, deny] at ha

theorem checkOwnDenom_allow_iff (fm : Marker) (amt : Coins) (hs : Spec.DenomsAscending amt) :
    checkOwnDenom fm amt = allow ↔ (Coins.amountOf amt fm.denom ≠ 0 → fm.status = MStatus.active) := by
  have h := checkOwnDenom_eq_spec fm amt hs
  simp only [Spec.csm_isasm, Spec.csm_issma] at h
  by_cases hown : Coins.amountOf amt fm.denom ≠ 0
  · by_cases hst : fm.status = MStatus.active
    · simp only [hst, decide_true, if_true] at h
      cases hc : checkOwnDenom fm amt with
      | ok u => cases u; simp [allow, hst]
      | error e => rw [hc] at h; simp [Spec.decisionFlow] at h
    · simp only [hst, decide_false, Bool.false_eq_true, if_false] at h
      cases hc : checkOwnDenom fm amt with
      | ok u => rw [hc] at h; simp [Spec.decisionFlow] at h; exact absurd h hown
      | error e => simp [allow, hown, hst]
  · simp only [hown, decide_false, Bool.false_eq_true, if_false] at h
    cases hc : checkOwnDenom fm amt with
    | ok u => cases u; simp [allow, hown]
    | error e => rw [hc] at h; simp [Spec.decisionFlow] at h

theorem ascending_singleton (c : Denom × Int) : Spec.DenomsAscending [c] := by
  simp [Spec.DenomsAscending]

theorem ascending_nil : Spec.DenomsAscending [] := by
  simp [Spec.DenomsAscending]

theorem checkFromMarker_split (cfg : Cfg) (amt : Coins) (hs : Spec.DenomsAscending amt) :
    checkFromMarker cfg amt = allow ↔
      checkFromMarker cfg [] = allow ∧ ∀ c ∈ amt, checkFromMarker cfg [c] = allow := by
  unfold checkFromMarker
  cases getMarkerIgnoreErr cfg cfg.fromAddr with
  | none => simp
  | some fm =>
    cases hw : checkWithdraw cfg fm with
    | error e => simp [hw, allow]
    | ok u =>
      simp only [hw, checkOwnDenom_allow_iff fm amt hs, checkOwnDenom_allow_iff fm [] ascending_nil]
      have hsing : ∀ c : Denom × Int, checkOwnDenom fm [c] = allow ↔
          (Coins.amountOf [c] fm.denom ≠ 0 → fm.status = MStatus.active) :=
        fun c => checkOwnDenom_allow_iff fm [c] (ascending_singleton c)
      simp only [hsing, amountOf_ne_zero_iff amt hs]
      constructor
      · intro h
        refine ⟨by simp, fun c hc hne => h ⟨c, hc, ?_⟩⟩
        obtain ⟨d, a⟩ := c
        by_cases hd : d = fm.denom
        · simpa [hd] using hne
        · simp [hd] at hne
      · rintro ⟨_, h⟩ ⟨c, hc, hd, hne⟩
        apply h c hc
        obtain ⟨d, a⟩ := c
        simp only at hd hne
        simp [hd, hne]

/-! ### the code before ed45788f3 differs only where a foreign account sits at a denom's marker address -/

theorem forCoins_congr (f g : Denom → Decision) (cs : Coins) (h : ∀ c ∈ cs, f c.1 = g c.1) :
    forCoins f cs = forCoins g cs := by
  induction cs with
  | nil => rfl
  | cons c t ih =>
    obtain ⟨d, a⟩ := c
    have hd := h (d, a) (by simp)
    simp only at hd
    simp only [forCoins, hd, ih fun c hc => h c (by simp [hc])]

theorem validateSendDenomPreFix_eq {cfg : Cfg} {tm : Option Marker} {d : Denom}
    (h : (cfg.acct (cfg.markerAddr d)).isOther = false) :
    validateSendDenomPreFix cfg tm d = validateSendDenom cfg tm d := by
  unfold validateSendDenomPreFix validateSendDenom getMarkerIgnoreErr getMarker
  cases hacct : cfg.acct (cfg.markerAddr d) with
  | none => rfl
  | other => simp [hacct, Acct.isOther] at h
  | marker m => rfl

theorem bypassDenomPreFix_eq {cfg : Cfg} {d : Denom}
    (h : (cfg.acct (cfg.markerAddr d)).isOther = false) :
    bypassFeeCollectorDenomPreFix cfg d = bypassFeeCollectorDenom cfg d := by
  unfold bypassFeeCollectorDenomPreFix bypassFeeCollectorDenom getMarkerIgnoreErr getMarker
  cases hacct : cfg.acct (cfg.markerAddr d) with
  | none => rfl
  | other => simp [hacct, Acct.isOther] at h
  | marker m => rfl

/-! ### rewriting permission lists -/

/-- Rewrite every grant's permission list: `f markerDenom grantee perms`. -/
def mapPermsMarker (f : Denom → Addr → List Access → List Access) (m : Marker) : Marker :=
  { m with access := m.access.map fun g => { g with perms := f m.denom g.addr g.perms } }

def mapPermsAcct (f : Denom → Addr → List Access → List Access) : Acct → Acct
  | .marker m => .marker (mapPermsMarker f m)
  | a => a

def mapPermsCfg (f : Denom → Addr → List Access → List Access) (cfg : Cfg) : Cfg :=
  { cfg with acct := fun a => mapPermsAcct f (cfg.acct a) }

/-- The three rights the send restriction consults. -/
def Relevant (r : Access) : Prop := r = .deposit ∨ r = .withdraw ∨ r = .transfer

/-- `f` leaves the three consulted rights of every grant as they are. -/
def KeepsRelevant (f : Denom → Addr → List Access → List Access) : Prop :=
  ∀ d a l r, Relevant r → (r ∈ f d a l ↔ r ∈ l)

theorem hasAccess_mapPerms {f} (hf : KeepsRelevant f) (m : Marker) (a : Addr) (r : Access) (hr : Relevant r) :
    (mapPermsMarker f m).hasAccess a r = m.hasAccess a r := by
  unfold Marker.hasAccess mapPermsMarker Grant.hasAccess
  simp only [List.any_map]
  congr 1; funext g
  simp only [Function.comp]
  by_cases hg : g.addr = ""
  · simp [hg]
  · have := hf m.denom g.addr g.perms r hr
    simp [hg, this]

theorem atLeastOne_mapPerms {f} (hf : KeepsRelevant f) (m : Marker) (l : List Addr) (r : Access) (hr : Relevant r) :
    atLeastOneAddrHasAccess (mapPermsMarker f m) l r = atLeastOneAddrHasAccess m l r := by
  unfold atLeastOneAddrHasAccess
  congr 1; funext a; exact hasAccess_mapPerms hf m a r hr

theorem validateAtLeastOne_mapPerms {f} (hf : KeepsRelevant f) (m : Marker) (l : List Addr) (r : Access)
    (hr : Relevant r) :
    validateAtLeastOneAddrHasAccess (mapPermsMarker f m) l r = validateAtLeastOneAddrHasAccess m l r := by
  rw [validateAtLeastOne_eq, validateAtLeastOne_eq, ← atLeastOne_eq, ← atLeastOne_eq]
  exact atLeastOne_mapPerms hf m l r hr

theorem getMarker_mapPerms (f) (cfg : Cfg) (a : Addr) :
    getMarker (mapPermsCfg f cfg) a =
      (match getMarker cfg a with
       | .ok m => .ok (m.map (mapPermsMarker f))
       | .error e => .error e) := by
  cases h : cfg.acct a <;> simp [getMarker, mapPermsCfg, mapPermsAcct, h]

theorem getMarkerIgnoreErr_mapPerms (f) (cfg : Cfg) (a : Addr) :
    getMarkerIgnoreErr (mapPermsCfg f cfg) a = (getMarkerIgnoreErr cfg a).map (mapPermsMarker f) := by
  unfold getMarkerIgnoreErr
  rw [getMarker_mapPerms]
  cases getMarker cfg a <;> rfl

theorem validateSendDenomMarker_mapPerms {f} (hf : KeepsRelevant f) (cfg : Cfg) (tm : Option Marker) (m : Marker) :
    validateSendDenomMarker (mapPermsCfg f cfg) (tm.map (mapPermsMarker f)) (mapPermsMarker f m)
      = validateSendDenomMarker cfg tm m := by
  have h1 := atLeastOne_mapPerms hf m cfg.agents .transfer (Or.inr (Or.inr rfl))
  have h2 := hasAccess_mapPerms hf m cfg.fromAddr .transfer (Or.inr (Or.inr rfl))
  have h3 : (tm.map (mapPermsMarker f)).isSome = tm.isSome := by cases tm <;> rfl
  unfold validateSendDenomMarker
  show (if (mapPermsMarker f m).status ≠ MStatus.active then _ else _) = _
  simp only [mapPermsCfg, isReqAttrBypassAddr, isSendDeny] at *
  simp only [h1, h2, h3]
  rfl

theorem validateSendDenom_mapPerms {f} (hf : KeepsRelevant f) (cfg : Cfg) (tm : Option Marker) (d : Denom) :
    validateSendDenom (mapPermsCfg f cfg) (tm.map (mapPermsMarker f)) d = validateSendDenom cfg tm d := by
  unfold validateSendDenom
  rw [getMarkerIgnoreErr_mapPerms]
  have hcfg : (mapPermsCfg f cfg).markerAddr = cfg.markerAddr := rfl
  rw [hcfg]
  cases getMarkerIgnoreErr cfg (cfg.markerAddr d) with
  | none => rfl
  | some m =>
    simp only [Option.map_some]
    exact validateSendDenomMarker_mapPerms hf cfg tm m

theorem checkFromMarker_mapPerms {f} (hf : KeepsRelevant f) (cfg : Cfg) (amt : Coins) :
    checkFromMarker (mapPermsCfg f cfg) amt = checkFromMarker cfg amt := by
  unfold checkFromMarker
  rw [getMarkerIgnoreErr_mapPerms]
  have hfrom : (mapPermsCfg f cfg).fromAddr = cfg.fromAddr := rfl
  rw [hfrom]
  cases getMarkerIgnoreErr cfg cfg.fromAddr with
  | none => rfl
  | some fm =>
    simp only [Option.map_some]
    have hw : checkWithdraw (mapPermsCfg f cfg) (mapPermsMarker f fm) = checkWithdraw cfg fm := by
      unfold checkWithdraw
      have := validateAtLeastOne_mapPerms hf fm cfg.agents .withdraw (Or.inr (Or.inl rfl))
      simp only [mapPermsCfg] at *
      simp only [this]
    rw [hw]
    rfl

theorem checkToMarker_mapPerms {f} (hf : KeepsRelevant f) (cfg : Cfg) (tm : Option Marker) :
    checkToMarker (mapPermsCfg f cfg) (tm.map (mapPermsMarker f)) = checkToMarker cfg tm := by
  unfold checkToMarker
  cases tm with
  | none => rfl
  | some m =>
    simp only [Option.map_some]
    have h1 := validateAtLeastOne_mapPerms hf m cfg.agents .deposit (Or.inl rfl)
    have h2 := hasAccess_mapPerms hf m cfg.fromAddr .deposit (Or.inl rfl)
    show (if (mapPermsMarker f m).mtype = MType.restricted then _ else _) = _
    simp only [mapPermsCfg] at *
    simp only [h1, h2]
    rfl

theorem bypassDenom_mapPerms (f) (cfg : Cfg) (d : Denom) :
    bypassFeeCollectorDenom (mapPermsCfg f cfg) d = bypassFeeCollectorDenom cfg d := by
  unfold bypassFeeCollectorDenom
  rw [getMarkerIgnoreErr_mapPerms]
  have hcfg : (mapPermsCfg f cfg).markerAddr = cfg.markerAddr := rfl
  rw [hcfg]
  cases getMarkerIgnoreErr cfg (cfg.markerAddr d) <;> rfl

end PvProofs.MkrSendLemmas
