/-
C16 — the store invariants and their preservation by every keeper function of the model.
-/
import PvProofs.Lemmas.AttrStore

set_option linter.unusedSimpArgs false
set_option linter.unusedVariables false

namespace PvProofs.Lemmas.AttrInv
open PvModel.Attr PvProofs.Lemmas.AttrStore

/-- The counter of `(name, addr)` is at least the number of records under it. -/
def CntGe (s : State) : Prop := ∀ n a, count s n a ≤ getCnt s n a
/-- Every stored attribute is under a bound name. -/
def Bound (s : State) : Prop := ∀ r ∈ s.recs, nameExists s r.name = true
/-- Every stored expiration has its queue entry. -/
def QueueComplete (s : State) : Prop := ∀ r ∈ s.recs, ∀ e, r.exp = some e → (e, r.key) ∈ s.queue

structure Inv (s : State) : Prop where
  keys : KeysUnique s.recs
  cntGe : CntGe s
  bound : Bound s
  queueComplete : QueueComplete s

/-! ### queue membership -/

theorem mem_addExp (s : State) (a : Attribute) (q : Nat × Key) :
    q ∈ (addAttributeExpireLookup s a).queue ↔ (q ∈ s.queue ∨ ∃ e, a.exp = some e ∧ q = (e, a.key)) := by
  unfold addAttributeExpireLookup
  cases h : a.exp with
  | none => simp
  | some e =>
    simp only [List.mem_cons, List.mem_filter, decide_eq_true_eq]
    by_cases hq : q = (e, a.key)
    · simp [hq]
    · simp [hq]

theorem mem_delExp (s : State) (a : Attribute) (q : Nat × Key) :
    q ∈ (deleteAttributeExpireLookup s a).queue ↔ (q ∈ s.queue ∧ ∀ e, a.exp = some e → q ≠ (e, a.key)) := by
  unfold deleteAttributeExpireLookup
  cases h : a.exp with
  | none => simp
  | some e => simp [List.mem_filter]

/-! ### `put` = the three writes of `SetAttribute` -/

def put (s : State) (a : Attribute) : State :=
  addAttributeExpireLookup (incAttrNameAddressLookup (setRec s a) a.name a.addr) a

@[simp] theorem put_recs (s : State) (a : Attribute) :
    (put s a).recs = a :: s.recs.filter (fun r => decide (r.key ≠ a.key)) := by simp [put]
@[simp] theorem put_names (s : State) (a : Attribute) : (put s a).names = s.names := by simp [put]
@[simp] theorem put_now (s : State) (a : Attribute) : (put s a).now = s.now := by simp [put]
@[simp] theorem put_accts (s : State) (a : Attribute) : (put s a).accts = s.accts := by simp [put]

theorem nameExists_congr {s t : State} (h : s.names = t.names) (n : String) :
    nameExists s n = nameExists t n := by unfold nameExists getRecordByName; rw [h]

theorem resolvesTo_congr {s t : State} (h : s.names = t.names) (n a : String) :
    resolvesTo s n a = resolvesTo t n a := by unfold resolvesTo getRecordByName; rw [h]

theorem nameExists_of_resolvesTo {s : State} {n a : String} (h : resolvesTo s n a = true) :
    nameExists s n = true := by
  unfold resolvesTo at h; unfold nameExists
  simp at h; simp [h]

theorem getCnt_put (s : State) (a : Attribute) (n x : String) :
    getCnt (put s a) n x = getCnt s n x + (if (a.name, a.addr) = (n, x) then 1 else 0) := by
  have h1 : getCnt (put s a) n x = getCnt (incAttrNameAddressLookup (setRec s a) a.name a.addr) n x :=
    getCnt_congr (by simp [put]) n x
  rw [h1, getCnt_inc]
  have h2 : ∀ n x, getCnt (setRec s a) n x = getCnt s n x := fun n x => getCnt_congr rfl n x
  by_cases h : (a.name, a.addr) = (n, x)
  · obtain ⟨e1, e2⟩ := Prod.mk.inj h
    subst e1; subst e2; simp [h2]
  · simp [h, h2]

theorem put_inv {s : State} (a : Attribute) (hi : Inv s) (hn : nameExists s a.name = true) :
    Inv (put s a) := by
  refine ⟨?_, ?_, ?_, ?_⟩
  · rw [put_recs]; exact hi.keys.set a
  · intro n x
    rw [getCnt_put]
    have h1 : count (put s a) n x = count (setRec s a) n x := count_congr (by simp [put]) n x
    have h2 := count_setRec_le s a n x
    have h3 := hi.cntGe n x
    omega
  · intro r hr
    rw [nameExists_congr (put_names s a)]
    rw [put_recs] at hr
    rcases List.mem_cons.mp hr with h | h
    · subst h; exact hn
    · exact hi.bound r (List.mem_filter.mp h).1
  · intro r hr e he
    unfold put
    rw [mem_addExp]
    rw [put_recs] at hr
    rcases List.mem_cons.mp hr with h | h
    · subst h; right; exact ⟨e, he, rfl⟩
    · left
      have : (e, r.key) ∈ s.queue := hi.queueComplete r (List.mem_filter.mp h).1 e he
      simpa using this

/-! ### `deleteOne` = the three writes that remove one attribute -/

@[simp] theorem deleteOne_recs (s : State) (a : Attribute) :
    (deleteOne s a).recs = s.recs.filter (fun r => decide (r.key ≠ a.key)) := by simp [deleteOne]
@[simp] theorem deleteOne_names (s : State) (a : Attribute) : (deleteOne s a).names = s.names := by
  simp [deleteOne]
@[simp] theorem deleteOne_now (s : State) (a : Attribute) : (deleteOne s a).now = s.now := by
  simp [deleteOne]
@[simp] theorem deleteOne_accts (s : State) (a : Attribute) : (deleteOne s a).accts = s.accts := by
  simp [deleteOne]

theorem getCnt_deleteOne (s : State) (a : Attribute) (n x : String) :
    getCnt (deleteOne s a) n x = if (a.name, a.addr) = (n, x) then getCnt s a.name a.addr - 1 else getCnt s n x := by
  have h1 : getCnt (deleteOne s a) n x = getCnt (decAttrNameAddressLookup (delRec s a.key) a.name a.addr) n x :=
    getCnt_congr (by simp [deleteOne]) n x
  rw [h1, getCnt_dec]
  have h2 : ∀ n x, getCnt (delRec s a.key) n x = getCnt s n x := fun n x => getCnt_congr rfl n x
  simp [h2]

theorem deleteOne_cntGe {s : State} {a : Attribute} (ha : a ∈ s.recs) (h : CntGe s) : CntGe (deleteOne s a) := by
  intro n x
  rw [getCnt_deleteOne]
  have h1 : count (deleteOne s a) n x = count (delRec s a.key) n x := count_congr (by simp) n x
  rw [h1]
  by_cases hk : (a.name, a.addr) = (n, x)
  · obtain ⟨e1, e2⟩ := Prod.mk.inj hk
    subst e1; subst e2
    have := count_delRec_lt s a ha
    have := h a.name a.addr
    simp; omega
  · have := count_delRec_le s a.key n x
    have := h n x
    simp [hk]; omega

theorem deleteOne_queueComplete {s : State} (a : Attribute) (h : QueueComplete s) :
    QueueComplete (deleteOne s a) := by
  intro r hr e he
  rw [deleteOne_recs] at hr
  obtain ⟨hr1, hr2⟩ := List.mem_filter.mp hr
  simp only [decide_eq_true_eq] at hr2
  unfold deleteOne
  rw [mem_delExp]
  refine ⟨by simpa using h r hr1 e he, ?_⟩
  intro e' _ heq
  exact hr2 (Prod.mk.inj heq).2

theorem deleteOne_inv {s : State} {a : Attribute} (ha : a ∈ s.recs) (hi : Inv s) : Inv (deleteOne s a) := by
  refine ⟨?_, deleteOne_cntGe ha hi.cntGe, ?_, deleteOne_queueComplete a hi.queueComplete⟩
  · rw [deleteOne_recs]; exact hi.keys.filter _
  · intro r hr
    rw [nameExists_congr (deleteOne_names s a)]
    rw [deleteOne_recs] at hr
    exact hi.bound r (List.mem_filter.mp hr).1

/-- Folding `deleteOne` over stored attributes with distinct keys keeps the invariants. -/
theorem foldl_deleteOne_inv (l : List Attribute) :
    ∀ s : State, (∀ a ∈ l, a ∈ s.recs) → KeysUnique l → Inv s → Inv (l.foldl deleteOne s) := by
  induction l with
  | nil => intro s _ _ h; exact h
  | cons a t ih =>
    intro s hm hk hi
    simp only [List.foldl_cons]
    unfold KeysUnique at hk
    rw [List.pairwise_cons] at hk
    apply ih
    · intro b hb
      rw [deleteOne_recs]
      refine List.mem_filter.mpr ⟨hm b (List.mem_cons_of_mem _ hb), ?_⟩
      simp only [decide_eq_true_eq]
      exact fun e => hk.1 b hb e.symm
    · exact hk.2
    · exact deleteOne_inv (hm a List.mem_cons_self) hi

theorem foldl_deleteOne_recs (l : List Attribute) :
    ∀ (s : State) (r : Attribute), r ∈ (l.foldl deleteOne s).recs ↔ (r ∈ s.recs ∧ ∀ a ∈ l, r.key ≠ a.key) := by
  induction l with
  | nil => intro s r; simp
  | cons a t ih =>
    intro s r
    simp only [List.foldl_cons]
    rw [ih, deleteOne_recs]
    simp only [List.mem_filter, decide_eq_true_eq, List.mem_cons, forall_eq_or_imp]
    constructor
    · rintro ⟨⟨h1, h2⟩, h3⟩; exact ⟨h1, h2, h3⟩
    · rintro ⟨h1, h2, h3⟩; exact ⟨⟨h1, h2⟩, h3⟩

theorem foldl_deleteOne_names (l : List Attribute) :
    ∀ s : State, (l.foldl deleteOne s).names = s.names := by
  induction l with
  | nil => intro s; rfl
  | cons a t ih => intro s; simp only [List.foldl_cons]; rw [ih]; simp

/-! ### `PurgeAttribute` -/

@[simp] theorem purgeOne_recs (n x : String) (s : State) (k : Key) :
    (purgeOne n x s k).recs = s.recs.filter (fun r => decide (r.key ≠ k)) := by simp [purgeOne]
@[simp] theorem purgeOne_names (n x : String) (s : State) (k : Key) : (purgeOne n x s k).names = s.names := by
  simp [purgeOne]
@[simp] theorem purgeOne_queue (n x : String) (s : State) (k : Key) : (purgeOne n x s k).queue = s.queue := by
  simp [purgeOne]

theorem foldl_purgeOne_recs (n x : String) (ks : List Key) :
    ∀ (s : State) (r : Attribute), r ∈ (ks.foldl (purgeOne n x) s).recs ↔ (r ∈ s.recs ∧ r.key ∉ ks) := by
  induction ks with
  | nil => intro s r; simp
  | cons k t ih =>
    intro s r
    simp only [List.foldl_cons]
    rw [ih, purgeOne_recs]
    simp only [List.mem_filter, decide_eq_true_eq, List.mem_cons, not_or]
    constructor
    · rintro ⟨⟨h1, h2⟩, h3⟩; exact ⟨h1, h2, h3⟩
    · rintro ⟨h1, h2, h3⟩; exact ⟨⟨h1, h2⟩, h3⟩

theorem foldl_purgeOne_names (n x : String) (ks : List Key) :
    ∀ s : State, (ks.foldl (purgeOne n x) s).names = s.names := by
  induction ks with
  | nil => intro s; rfl
  | cons a t ih => intro s; simp only [List.foldl_cons]; rw [ih]; simp

theorem foldl_purgeOne_queue (n x : String) (ks : List Key) :
    ∀ s : State, (ks.foldl (purgeOne n x) s).queue = s.queue := by
  induction ks with
  | nil => intro s; rfl
  | cons a t ih => intro s; simp only [List.foldl_cons]; rw [ih]; simp

theorem purgeOne_cntGe {n x : String} {s : State} {k : Key}
    (hk : ∃ r ∈ s.recs, r.key = k ∧ r.name = n ∧ r.addr = x) (h : CntGe s) : CntGe (purgeOne n x s k) := by
  obtain ⟨r, hr, rfl, rfl, rfl⟩ := hk
  intro n' x'
  unfold purgeOne
  rw [getCnt_dec]
  have h2 : ∀ n x, getCnt (delRec s r.key) n x = getCnt s n x := fun n x => getCnt_congr rfl n x
  have h1 : count (decAttrNameAddressLookup (delRec s r.key) r.name r.addr) n' x' = count (delRec s r.key) n' x' :=
    count_congr (by simp) n' x'
  rw [h1]
  by_cases hk : (r.name, r.addr) = (n', x')
  · obtain ⟨e1, e2⟩ := Prod.mk.inj hk
    subst e1; subst e2
    have := count_delRec_lt s r hr
    have := h r.name r.addr
    simp [h2]; omega
  · have := count_delRec_le s r.key n' x'
    have := h n' x'
    simp [hk, h2]; omega

theorem foldl_purgeOne_cntGe (n x : String) (ks : List Key) :
    ∀ s : State, (∀ k ∈ ks, ∃ r ∈ s.recs, r.key = k ∧ r.name = n ∧ r.addr = x) → ks.Nodup →
      CntGe s → CntGe (ks.foldl (purgeOne n x) s) := by
  induction ks with
  | nil => intro s _ _ h; exact h
  | cons k t ih =>
    intro s hm hnd h
    simp only [List.foldl_cons]
    rw [List.nodup_cons] at hnd
    apply ih
    · intro k' hk'
      obtain ⟨r, hr, e1, e2, e3⟩ := hm k' (List.mem_cons_of_mem _ hk')
      refine ⟨r, ?_, e1, e2, e3⟩
      rw [purgeOne_recs]
      refine List.mem_filter.mpr ⟨hr, ?_⟩
      simp only [decide_eq_true_eq]
      intro e; rw [e1] at e; rw [e] at hk'; exact hnd.1 hk'
    · exact hnd.2
    · exact purgeOne_cntGe (hm k List.mem_cons_self) h

theorem keys_nodup_of_unique {l : List Attribute} (h : KeysUnique l) : (l.map Attribute.key).Nodup := by
  unfold KeysUnique at h
  unfold List.Nodup
  rw [List.pairwise_map]
  exact h

theorem purgeAcct_recs (n : String) (s : State) (x : String) (r : Attribute) :
    r ∈ (purgeAcct n s x).recs ↔ (r ∈ s.recs ∧ ¬ (r.addr = x ∧ r.name = n)) := by
  unfold purgeAcct
  rw [foldl_purgeOne_recs]
  unfold getAddrAttributesKeysByName
  simp only [List.mem_map, List.mem_filter, Bool.and_eq_true, decide_eq_true_eq, not_exists, not_and]
  constructor
  · rintro ⟨h1, h2⟩
    refine ⟨h1, ?_⟩
    intro hx hn
    exact h2 r ⟨h1, hx, hn⟩ rfl
  · rintro ⟨h1, h2⟩
    refine ⟨h1, ?_⟩
    rintro r0 ⟨_, hx, hn⟩ hk
    rw [key_eq_iff] at hk
    exact h2 (hk.1 ▸ hx) (hk.2.1 ▸ hn)

theorem purgeAcct_names (n : String) (s : State) (x : String) : (purgeAcct n s x).names = s.names := by
  unfold purgeAcct; rw [foldl_purgeOne_names]

theorem purgeAcct_queue (n : String) (s : State) (x : String) : (purgeAcct n s x).queue = s.queue := by
  unfold purgeAcct; rw [foldl_purgeOne_queue]

theorem purgeAcct_cntGe (n : String) {s : State} (x : String) (hk : KeysUnique s.recs) (h : CntGe s) :
    CntGe (purgeAcct n s x) := by
  unfold purgeAcct
  apply foldl_purgeOne_cntGe
  · intro k hk'
    unfold getAddrAttributesKeysByName at hk'
    simp only [List.mem_map, List.mem_filter, Bool.and_eq_true, decide_eq_true_eq] at hk'
    obtain ⟨r, ⟨hr, hx, hn⟩, rfl⟩ := hk'
    exact ⟨r, hr, rfl, hn, hx⟩
  · unfold getAddrAttributesKeysByName
    exact keys_nodup_of_unique (hk.filter _)
  · exact h

theorem sublist_keysUnique {l l' : List Attribute} (h : KeysUnique l) (hs : l'.Sublist l) : KeysUnique l' :=
  List.Pairwise.sublist hs h

/-- The record list after purging one account is a filter of the old one. -/
theorem purgeAcct_recs_eq (n : String) (s : State) (x : String) :
    ∃ p : Attribute → Bool, (purgeAcct n s x).recs = s.recs.filter p := by
  unfold purgeAcct
  generalize getAddrAttributesKeysByName s x n = ks
  induction ks generalizing s with
  | nil => exact ⟨fun _ => true, (List.filter_eq_self.mpr (by simp)).symm⟩
  | cons k t ih =>
    simp only [List.foldl_cons]
    obtain ⟨p, hp⟩ := ih (purgeOne n x s k)
    refine ⟨fun r => decide (r.key ≠ k) && p r, ?_⟩
    rw [hp, purgeOne_recs, List.filter_filter]
    congr 1
    funext r
    exact Bool.and_comm _ _

/-- One account step of the purge keeps key-uniqueness, counters, queue-completeness. -/
structure Inv3 (s : State) : Prop where
  keys : KeysUnique s.recs
  cntGe : CntGe s
  queueComplete : QueueComplete s

theorem purgeAcct_inv3 (n : String) {s : State} (x : String) (hi : Inv3 s) : Inv3 (purgeAcct n s x) := by
  refine ⟨?_, purgeAcct_cntGe n x hi.keys hi.cntGe, ?_⟩
  · obtain ⟨p, hp⟩ := purgeAcct_recs_eq n s x
    rw [hp]; exact hi.keys.filter p
  · intro r hr e he
    rw [purgeAcct_queue]
    exact hi.queueComplete r ((purgeAcct_recs n s x r).mp hr).1 e he

theorem foldl_purgeAcct_inv3 (n : String) (xs : List String) :
    ∀ s : State, Inv3 s → Inv3 (xs.foldl (purgeAcct n) s) := by
  induction xs with
  | nil => intro s h; exact h
  | cons x t ih => intro s h; simp only [List.foldl_cons]; exact ih _ (purgeAcct_inv3 n x h)

theorem foldl_purgeAcct_recs (n : String) (xs : List String) :
    ∀ (s : State) (r : Attribute),
      r ∈ (xs.foldl (purgeAcct n) s).recs ↔ (r ∈ s.recs ∧ ¬ (r.addr ∈ xs ∧ r.name = n)) := by
  induction xs with
  | nil => intro s r; simp
  | cons x t ih =>
    intro s r
    simp only [List.foldl_cons]
    rw [ih, purgeAcct_recs]
    simp only [List.mem_cons]
    constructor
    · rintro ⟨⟨h1, h2⟩, h3⟩
      refine ⟨h1, ?_⟩
      rintro ⟨h4 | h4, h5⟩
      · exact h2 ⟨h4, h5⟩
      · exact h3 ⟨h4, h5⟩
    · rintro ⟨h1, h2⟩
      exact ⟨⟨h1, fun h => h2 ⟨Or.inl h.1, h.2⟩⟩, fun h => h2 ⟨Or.inr h.1, h.2⟩⟩

theorem foldl_purgeAcct_names (n : String) (xs : List String) :
    ∀ s : State, (xs.foldl (purgeAcct n) s).names = s.names := by
  induction xs with
  | nil => intro s; rfl
  | cons x t ih => intro s; simp only [List.foldl_cons]; rw [ih, purgeAcct_names]

theorem foldl_purgeAcct_queue (n : String) (xs : List String) :
    ∀ s : State, (xs.foldl (purgeAcct n) s).queue = s.queue := by
  induction xs with
  | nil => intro s; rfl
  | cons x t ih => intro s; simp only [List.foldl_cons]; rw [ih, purgeAcct_queue]

/-- Lookup completeness (a consequence of `CntGe`): the holder of a record is listed. -/
theorem holder_listed {s : State} (h : CntGe s) {r : Attribute} (hr : r ∈ s.recs) :
    r.addr ∈ accountsByAttribute s r.name := by
  apply mem_accounts_of_getCnt_pos
  have h1 := h r.name r.addr
  have h2 : 0 < count s r.name r.addr := by
    unfold count
    apply List.length_pos_of_mem (a := r)
    exact List.mem_filter.mpr ⟨hr, by simp⟩
  omega

/-- After the purge loop of `PurgeAttribute` no record under the name is left
(this needs the lookup to be complete). -/
theorem purge_complete {s : State} (n : String) (h : CntGe s) (r : Attribute)
    (hr : r ∈ ((accountsByAttribute s n).foldl (purgeAcct n) s).recs) : r ∈ s.recs ∧ r.name ≠ n := by
  rw [foldl_purgeAcct_recs] at hr
  refine ⟨hr.1, ?_⟩
  intro hn
  subst hn
  exact hr.2 ⟨holder_listed h hr.1, rfl⟩

/-! ### the sweep step before commit f2249cacd (the repaired step is either this one or a pure
queue deletion, see `AttrSweep`) -/

theorem expireOnePreFix_recs (s : State) (q : Nat × Key) (r : Attribute) :
    r ∈ (expireOnePreFix s q).recs ↔ (r ∈ s.recs ∧ r.key ≠ q.2) := by
  unfold expireOnePreFix
  cases h : getAttr s q.2 with
  | none =>
    simp only []
    constructor
    · intro hr; exact ⟨hr, getAttr_none h r hr⟩
    · intro hr; exact hr.1
  | some a => simp [List.mem_filter]

theorem expireOnePreFix_recs_eq (s : State) (q : Nat × Key) :
    ∃ p : Attribute → Bool, (expireOnePreFix s q).recs = s.recs.filter p := by
  unfold expireOnePreFix
  cases h : getAttr s q.2 with
  | none => exact ⟨fun _ => true, (List.filter_eq_self.mpr (by simp)).symm⟩
  | some a => exact ⟨fun r => decide (r.key ≠ q.2), by simp⟩

theorem expireOnePreFix_names (s : State) (q : Nat × Key) : (expireOnePreFix s q).names = s.names := by
  unfold expireOnePreFix
  cases h : getAttr s q.2 <;> simp

theorem expireOnePreFix_now (s : State) (q : Nat × Key) : (expireOnePreFix s q).now = s.now := by
  unfold expireOnePreFix
  cases h : getAttr s q.2 <;> simp

theorem expireOnePreFix_queue (s : State) (q q' : Nat × Key) :
    q' ∈ (expireOnePreFix s q).queue ↔ (q' ∈ s.queue ∧ q' ≠ q) := by
  unfold expireOnePreFix
  cases h : getAttr s q.2 <;> simp [List.mem_filter]

theorem expireOnePreFix_some_cnt {s : State} {q : Nat × Key} {a : Attribute} (h : getAttr s q.2 = some a) :
    (expireOnePreFix s q).cnt = (decAttrNameAddressLookup (delRec s q.2) a.name a.addr).cnt := by
  unfold expireOnePreFix; rw [h]

theorem expireOnePreFix_some_recs {s : State} {q : Nat × Key} {a : Attribute} (h : getAttr s q.2 = some a) :
    (expireOnePreFix s q).recs = (delRec s q.2).recs := by
  unfold expireOnePreFix; rw [h]; simp

theorem expireOnePreFix_none {s : State} {q : Nat × Key} (h : getAttr s q.2 = none) :
    (expireOnePreFix s q).cnt = s.cnt ∧ (expireOnePreFix s q).recs = s.recs := by
  unfold expireOnePreFix; rw [h]; exact ⟨rfl, rfl⟩

theorem expireOnePreFix_cntGe {s : State} (q : Nat × Key) (h : CntGe s) : CntGe (expireOnePreFix s q) := by
  cases hg : getAttr s q.2 with
  | none =>
    intro n x
    obtain ⟨e1, e2⟩ := expireOnePreFix_none hg
    rw [count_congr e2, getCnt_congr e1]
    exact h n x
  | some a =>
    obtain ⟨ha, hk⟩ := getAttr_some hg
    intro n x
    have hd := deleteOne_cntGe ha h n x
    rw [getCnt_deleteOne] at hd
    have hc : count (deleteOne s a) n x = count (delRec s a.key) n x := count_congr (by simp) n x
    rw [hc] at hd
    rw [count_congr (expireOnePreFix_some_recs hg), getCnt_congr (expireOnePreFix_some_cnt hg), ← hk, getCnt_dec]
    have h2 : ∀ n x, getCnt (delRec s a.key) n x = getCnt s n x := fun n x => getCnt_congr rfl n x
    simp only [h2]
    exact hd

theorem expireOnePreFix_inv {s : State} (q : Nat × Key) (hi : Inv s) : Inv (expireOnePreFix s q) := by
  refine ⟨?_, expireOnePreFix_cntGe q hi.cntGe, ?_, ?_⟩
  · obtain ⟨p, hp⟩ := expireOnePreFix_recs_eq s q
    rw [hp]; exact hi.keys.filter p
  · intro r hr
    rw [nameExists_congr (expireOnePreFix_names s q)]
    exact hi.bound r ((expireOnePreFix_recs s q r).mp hr).1
  · intro r hr e he
    obtain ⟨hr1, hr2⟩ := (expireOnePreFix_recs s q r).mp hr
    rw [expireOnePreFix_queue]
    refine ⟨hi.queueComplete r hr1 e he, ?_⟩
    intro heq
    exact hr2 (by rw [← heq])

end PvProofs.Lemmas.AttrInv
