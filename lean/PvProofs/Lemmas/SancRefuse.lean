/-
Helper lemmas for C06, the converse of the debit refusal: which function of the model can answer
`err:sanctioned`, and on whose account.  Every such answer comes out of the send restriction
inside `sendCoins` / `delegateCoins` / `inputOutputCoins` (or the same test in front of a
settlement), and names the account the coins were to leave.
-/
import PvProofs.Lemmas.SancBal

namespace PvProofs.Sanc
open PvModel PvModel.Sanc PvModel.Sanc.Spec

theorem sendCoins_sanctioned {s : State} {f t : Addr} {amt : Coins}
    (h : sendCoins s f t amt = .error .sanctioned) : isSanctionedAddr s.cfg s.st f = true := by
  unfold sendCoins at h
  split_ifs at h with h1 h2
  · cases h
  · exact h2

theorem sendCoins_error {s : State} {f t : Addr} {amt : Coins} {e : Err}
    (h : sendCoins s f t amt = .error e) :
    (e = .funds ∧ hasFunds s.ledger f amt = false) ∨ (e = .sanctioned ∧ isSanctionedAddr s.cfg s.st f = true) := by
  unfold sendCoins at h
  split_ifs at h with h1 h2
  · simp only [Except.error.injEq] at h
    exact Or.inl ⟨h.symm, by simpa using h1⟩
  · simp only [Except.error.injEq] at h
    exact Or.inr ⟨h.symm, h2⟩

/-- an unsanctioned, funded account can send -/
theorem sendCoins_succeeds {s : State} {f t : Addr} {amt : Coins}
    (hf : isSanctionedAddr s.cfg s.st f = false) (hfunds : hasFunds s.ledger f amt = true) :
    sendCoins s f t amt = .ok { s with ledger := s.ledger.move f t amt } := by
  unfold sendCoins; simp [hf, hfunds]

/-- the account the refunds come out of is the gov module account; when that is protected, a
refund never fails for a sanction — whoever the depositors are -/
theorem refundAll_not_sanctioned {ds : List (Addr × Coins)} {s : State}
    (hg : s.cfg.govAcct ∈ s.cfg.unsanctionable) : refundAll s ds ≠ .error .sanctioned := by
  induction ds generalizing s with
  | nil => simp [refundAll]
  | cons x rest ih =>
    obtain ⟨w, v⟩ := x
    intro h
    simp only [refundAll] at h
    cases h1 : sendCoins s s.cfg.govAcct w v with
    | error e =>
      simp only [h1, Except.error.injEq] at h
      subst h
      have := sendCoins_sanctioned h1
      unfold isSanctionedAddr at this
      simp [hg] at this
    | ok s1 =>
      simp only [h1] at h
      obtain ⟨rfl, _⟩ := sendCoins_ok h1
      exact ih (s := { s with ledger := s.ledger.move s.cfg.govAcct w v }) hg h

theorem chargeDeposits_not_sanctioned {ds : List (Addr × Coins)} {s : State} {ch : Coins}
    (hg : s.cfg.govAcct ∈ s.cfg.unsanctionable) : chargeDeposits s ch ds ≠ .error .sanctioned := by
  induction ds generalizing s ch with
  | nil => simp [chargeDeposits]
  | cons x rest ih =>
    obtain ⟨w, v⟩ := x
    intro h
    simp only [chargeDeposits] at h
    split_ifs at h with h0
    · exact ih hg h
    · cases h1 : sendCoins s s.cfg.govAcct w (remainingPart s.cfg v) with
      | error e =>
        simp only [h1, Except.error.injEq] at h
        subst h
        have := sendCoins_sanctioned h1
        unfold isSanctionedAddr at this
        simp [hg] at this
      | ok s1 =>
        simp only [h1] at h
        obtain ⟨rfl, _⟩ := sendCoins_ok h1
        exact ih (s := { s with ledger := s.ledger.move s.cfg.govAcct w (remainingPart s.cfg v) }) hg h

theorem settle_not_sanctioned {s : State} {burn : Bool} {ds : List (Addr × Coins)}
    (hg : s.cfg.govAcct ∈ s.cfg.unsanctionable) : settle s burn ds ≠ .error .sanctioned := by
  unfold settle
  split_ifs
  · simp
  · exact refundAll_not_sanctioned hg

theorem expireOne_cfg {s s' : State} {id : Nat} (hs : expireOne s id = .ok s') : s'.cfg = s.cfg := by
  unfold expireOne at hs
  cases hg : getProp s.props id with
  | none => simp only [hg, Except.ok.injEq] at hs; subst hs; rfl
  | some p =>
    simp only [hg] at hs
    cases hse : settle { s with props := delProp s.props id } s.cfg.burnPrevote p.deposits with
    | error e => simp [hse] at hs
    | ok s2 =>
      simp only [hse] at hs
      obtain ⟨l, rfl⟩ := settle_ok hse
      simp only [getProp_delProp] at hs
      have hh : proposalGovHook s.cfg s.st none id = .ok (deleteGovPropTempEntries s.st id) := rfl
      simp only [hh, Except.ok.injEq] at hs
      subst hs
      rfl

theorem expireOne_not_sanctioned {s : State} {id : Nat} (hg : s.cfg.govAcct ∈ s.cfg.unsanctionable) :
    expireOne s id ≠ .error .sanctioned := by
  intro h
  unfold expireOne at h
  cases hgp : getProp s.props id with
  | none => simp [hgp] at h
  | some p =>
    simp only [hgp] at h
    cases hse : settle { s with props := delProp s.props id } s.cfg.burnPrevote p.deposits with
    | error e =>
      simp only [hse, Except.error.injEq] at h
      subst h
      exact settle_not_sanctioned (s := { s with props := delProp s.props id }) hg hse
    | ok s2 =>
      simp only [hse] at h
      obtain ⟨l, rfl⟩ := settle_ok hse
      simp only [getProp_delProp] at h
      have hh : proposalGovHook s.cfg s.st none id = .ok (deleteGovPropTempEntries s.st id) := rfl
      simp [hh] at h

theorem settleTally_ledger {s s1 : State} {p : Proposal} (h1 : settleTally s p = .ok s1) :
    ∃ l, s1 = { s with ledger := l } := by
  unfold settleTally at h1
  split_ifs at h1
  · simp only [Except.ok.injEq] at h1; exact ⟨s.ledger, h1.symm⟩
  · exact settle_ok h1

theorem tallyOne_cfg {s s' : State} {id : Nat} (hs : tallyOne s id = .ok s') : s'.cfg = s.cfg := by
  unfold tallyOne at hs
  cases hg : getProp s.props id with
  | none => simp only [hg, Except.ok.injEq] at hs; subst hs; rfl
  | some p =>
    simp only [hg] at hs
    cases hse : settleTally s p with
    | error e => simp [hse] at hs
    | ok s1 =>
      simp only [hse] at hs
      obtain ⟨l, rfl⟩ := settleTally_ledger hse
      simp only at hs
      cases hh : proposalGovHook s.cfg (tallyOutcome s.cfg s.st p (tally s.cfg p.vote).1).2
          (some (tallyOutcome s.cfg s.st p (tally s.cfg p.vote).1).1) id with
      | ok st => simp only [hh, Except.ok.injEq] at hs; subst hs; rfl
      | error e =>
        have := hook_error hh
        subst this
        simp [hh] at hs

theorem tallyOne_not_sanctioned {s : State} {id : Nat} (hg : s.cfg.govAcct ∈ s.cfg.unsanctionable) :
    tallyOne s id ≠ .error .sanctioned := by
  intro h
  unfold tallyOne at h
  cases hgp : getProp s.props id with
  | none => simp [hgp] at h
  | some p =>
    simp only [hgp] at h
    cases hse : settleTally s p with
    | error e =>
      simp only [hse, Except.error.injEq] at h
      subst h
      unfold settleTally at hse
      split_ifs at hse
      exact settle_not_sanctioned hg hse
    | ok s1 =>
      simp only [hse] at h
      cases hh : proposalGovHook s1.cfg (tallyOutcome s1.cfg s1.st p (tally s.cfg p.vote).1).2
          (some (tallyOutcome s1.cfg s1.st p (tally s.cfg p.vote).1).1) id with
      | ok st => simp [hh] at h
      | error e =>
        have := hook_error hh
        subst this
        simp [hh] at h

theorem foldR_not_sanctioned {α : Type} {f : State → α → R State} (c : Cfg)
    (hc : ∀ s x s', s.cfg = c → f s x = .ok s' → s'.cfg = c)
    (he : ∀ s x, s.cfg = c → f s x ≠ .error .sanctioned)
    (xs : List α) {s : State} (h : s.cfg = c) : foldR f s xs ≠ .error .sanctioned := by
  induction xs generalizing s with
  | nil => simp [foldR]
  | cons x rest ih =>
    intro hf
    simp only [foldR] at hf
    cases hx : f s x with
    | error e =>
      simp only [hx, Except.error.injEq] at hf
      subst hf
      exact he s x h hx
    | ok s1 =>
      simp only [hx] at hf
      exact ih (hc s x s1 h hx) hf

theorem foldR_cfg {α : Type} {f : State → α → R State} (c : Cfg)
    (hc : ∀ s x s', s.cfg = c → f s x = .ok s' → s'.cfg = c)
    (xs : List α) {s s' : State} (h : s.cfg = c) (hs : foldR f s xs = .ok s') : s'.cfg = c := by
  induction xs generalizing s with
  | nil => simp only [foldR, Except.ok.injEq] at hs; subst hs; exact h
  | cons x rest ih =>
    simp only [foldR] at hs
    cases hx : f s x with
    | error e => simp [hx] at hs
    | ok s1 =>
      simp only [hx] at hs
      exact ih (hc s x s1 h hx) hs

theorem endBlocker_not_sanctioned {s : State} (hg : s.cfg.govAcct ∈ s.cfg.unsanctionable) :
    endBlocker s ≠ .error .sanctioned := by
  intro h
  unfold endBlocker at h
  have c1 : ∀ (t : State) (x : Nat) (t' : State), t.cfg = s.cfg → expireOne t x = .ok t' → t'.cfg = s.cfg :=
    fun t x t' ht hx => (expireOne_cfg hx).trans ht
  have c2 : ∀ (t : State) (x : Nat) (t' : State), t.cfg = s.cfg → tallyOne t x = .ok t' → t'.cfg = s.cfg :=
    fun t x t' ht hx => (tallyOne_cfg hx).trans ht
  cases h1 : foldR expireOne s (inactiveIds s) with
  | error e =>
    simp only [h1, Except.error.injEq] at h
    subst h
    exact foldR_not_sanctioned s.cfg c1 (fun t x ht => expireOne_not_sanctioned (by rw [ht]; exact hg)) _ rfl h1
  | ok s1 =>
    simp only [h1] at h
    have hs1 := foldR_cfg s.cfg c1 _ rfl h1
    exact foldR_not_sanctioned s.cfg c2 (fun t x ht => tallyOne_not_sanctioned (by rw [ht]; exact hg)) _ hs1 h

theorem addDeposit_sanctioned {s : State} {id : Nat} {who : Addr} {amt : Coins}
    (h : addDeposit s id who amt = .error .sanctioned) : isSanctionedAddr s.cfg s.st who = true := by
  unfold addDeposit at h
  cases hg : getProp s.props id with
  | none => simp [hg] at h
  | some p =>
    simp only [hg] at h
    split_ifs at h with h1 h2 h3
    all_goals try (cases h)
    cases hsend : sendCoins s who s.cfg.govAcct amt with
    | error e =>
      simp only [hsend, Except.error.injEq] at h
      subst h
      exact sendCoins_sanctioned hsend
    | ok s1 =>
      simp only [hsend] at h
      cases hh : proposalGovHook s1.cfg s1.st (some (depositedProp s.cfg s.now p who amt)) id with
      | ok st => simp [hh] at h
      | error e =>
        have := hook_error hh
        subst this
        simp [hh] at h

theorem validateMsgs_not_sanctioned {msgs : List PMsg} : validateMsgs msgs ≠ .error .sanctioned := by
  induction msgs with
  | nil => simp [validateMsgs]
  | cons m rest ih =>
    simp only [validateMsgs]
    split_ifs
    · simp
    · simp
    · exact ih

theorem submitProposal_sanctioned {s : State} {who : Addr} {msgs : List PMsg} {initial : Coins} {exp : Bool}
    (p1 : allPos s.st.sancMin = true) (p2 : allPos s.st.unsancMin = true)
    (h : submitProposal s who msgs initial exp = .error .sanctioned) : isSanctionedAddr s.cfg s.st who = true := by
  unfold submitProposal at h
  split_ifs at h with h1 h2 h3
  all_goals try (cases h)
  cases hv : validateMsgs msgs with
  | error e =>
    simp only [hv, Except.error.injEq] at h
    subst h
    exact absurd hv validateMsgs_not_sanctioned
  | ok u =>
    cases u
    simp only [hv] at h
    -- the hook at submission sees a zero total deposit: it leaves the store as it is
    have hh : proposalGovHook s.cfg s.st (some (newProposal s who msgs exp)) s.nextId = .ok s.st :=
      hookMsgs_zero msgs p1 p2
    simp only [hh] at h
    exact addDeposit_sanctioned (s := { s with props := s.props ++ [newProposal s who msgs exp], nextId := s.nextId + 1 }) h

theorem sanctionLoop_error {c : Cfg} {addrs perm : List Addr} {e : Err}
    (h : sanctionLoop c perm addrs = .error e) : e = .unsanctionable := by
  induction addrs generalizing perm with
  | nil => simp [sanctionLoop] at h
  | cons a rest ih =>
    simp only [sanctionLoop] at h
    split_ifs at h
    · simp only [Except.error.injEq] at h; exact h.symm
    · exact ih h

theorem msgSanction_not_sanctioned {c : Cfg} {st : Store} {m : PMsg} :
    msgSanction c st m ≠ .error .sanctioned := by
  intro h
  unfold msgSanction at h
  split_ifs at h
  all_goals try (cases h)
  unfold sanctionAddresses at h
  cases hl : sanctionLoop c st.perm m.addrs with
  | error e =>
    have := sanctionLoop_error hl
    subst this
    simp [hl] at h
  | ok perm => simp [hl] at h

theorem cancelProposal_not_sanctioned {s : State} {who : Addr} {id : Nat}
    (hg : s.cfg.govAcct ∈ s.cfg.unsanctionable) : cancelProposal s who id ≠ .error .sanctioned := by
  intro h
  unfold cancelProposal at h
  cases hgp : getProp s.props id with
  | none => simp [hgp] at h
  | some p =>
    simp only [hgp] at h
    split_ifs at h
    all_goals try (cases h)
    cases hc : chargeDeposits s [] p.deposits with
    | error e =>
      simp only [hc, Except.error.injEq] at h
      subst h
      exact chargeDeposits_not_sanctioned hg hc
    | ok r =>
      obtain ⟨s1, ch⟩ := r
      simp [hc] at h

theorem transferAuth_not_sanctioned {s : State} {m : Marker} {admin frm : Addr} {d : Denom} {x : Int} :
    transferAuth s m admin frm d x ≠ .error .sanctioned := by
  intro h
  unfold transferAuth at h
  split_ifs at h
  all_goals try (cases h)
  unfold authzHandler at h
  cases hgr : findGrant s.grants admin frm with
  | none => simp [hgr] at h
  | some g =>
    simp only [hgr] at h
    split_ifs at h
    all_goals try (cases h)

theorem transferAuth_frame {s s1 : State} {m : Marker} {admin frm : Addr} {d : Denom} {x : Int}
    (h : transferAuth s m admin frm d x = .ok s1) : ∃ g, s1 = { s with grants := g } := by
  unfold transferAuth at h
  split_ifs at h
  · simp only [Except.ok.injEq] at h; exact ⟨s.grants, h.symm⟩
  · unfold authzHandler at h
    cases hgr : findGrant s.grants admin frm with
    | none => simp [hgr] at h
    | some g =>
      simp only [hgr] at h
      split_ifs at h <;> simp only [Except.ok.injEq] at h <;> exact ⟨_, h.symm⟩
  · simp only [Except.ok.injEq] at h; exact ⟨s.grants, h.symm⟩

theorem transferCoin_sanctioned {s : State} {admin frm to : Addr} {d : Denom} {x : Int}
    (h : transferCoin s admin frm to d x = .error .sanctioned) : isSanctionedAddr s.cfg s.st frm = true := by
  unfold transferCoin at h
  cases hm : getMarkerByDenom s.cfg d with
  | none => simp [hm] at h
  | some m =>
    simp only [hm] at h
    cases hmid : transferAuth s m admin frm d x with
    | error e =>
      simp only [hmid] at h
      split_ifs at h
      all_goals try (cases h)
      exact absurd hmid transferAuth_not_sanctioned
    | ok s1 =>
      simp only [hmid] at h
      obtain ⟨g, rfl⟩ := transferAuth_frame hmid
      split_ifs at h
      all_goals try (cases h)
      exact sendCoins_sanctioned (s := { s with grants := g }) h

theorem sendIfAny_frame {s s1 : State} {f t : Addr} {amt : Coins} (h : sendIfAny s f t amt = .ok s1) :
    s1.cfg = s.cfg ∧ s1.st = s.st := by
  unfold sendIfAny at h
  split_ifs at h
  · simp only [Except.ok.injEq] at h; subst h; exact ⟨rfl, rfl⟩
  · obtain ⟨rfl, _⟩ := sendCoins_ok h; exact ⟨rfl, rfl⟩

theorem sendIfAny_sanctioned {s : State} {f t : Addr} {amt : Coins} (h : sendIfAny s f t amt = .error .sanctioned) :
    amt.isEmpty = false ∧ isSanctionedAddr s.cfg s.st f = true := by
  unfold sendIfAny at h
  split_ifs at h with h0
  exact ⟨by simpa using h0, sendCoins_sanctioned h⟩

/-- **Converse of the debit refusal.**  An operation answered `err:sanctioned` names a sanctioned
account among those it debits (`Spec.debited`) — or it is a marker transfer of amount zero out of
a sanctioned account (the bank applies the send restriction also to an empty amount; nothing is
debited, so `debited` is empty there). -/
theorem applyOp_sanctioned {s : State} {op : Op} (hg : s.cfg.govAcct ∈ s.cfg.unsanctionable)
    (p1 : allPos s.st.sancMin = true) (p2 : allPos s.st.unsancMin = true)
    (h : applyOp s op = .error .sanctioned) :
    (∃ a ∈ debited s.cfg op, isSanctionedAddr s.cfg s.st a = true) ∨
      (∃ admin frm to d, op = .mxfer admin frm to d 0 ∧ isSanctionedAddr s.cfg s.st frm = true) := by
  cases op with
  | submit who msgs initial exp =>
    exact Or.inl ⟨who, by simp [debited], submitProposal_sanctioned p1 p2 h⟩
  | deposit who id amt =>
    simp only [applyOp] at h
    split_ifs at h
    · cases h
    · exact Or.inl ⟨who, by simp [debited], addDeposit_sanctioned h⟩
  | vote id v =>
    simp only [applyOp, addVote] at h
    cases hgp : getProp s.props id with
    | none => simp [hgp] at h
    | some p =>
      simp only [hgp] at h
      split_ifs at h
      cases h
  | cancel who id => exact absurd h (cancelProposal_not_sanctioned hg)
  | block dt =>
    simp only [applyOp] at h
    cases he : endBlocker s with
    | ok s1 => simp [he] at h
    | error e =>
      simp only [he, Except.error.injEq] at h
      subst h
      exact absurd he (endBlocker_not_sanctioned hg)
  | params a b =>
    simp only [applyOp, updateParams] at h
    split_ifs at h
    cases h
  | send f t amt =>
    simp only [applyOp] at h
    split_ifs at h
    · cases h
    · exact Or.inl ⟨f, by simp [debited], sendCoins_sanctioned h⟩
  | msend f ts amt =>
    simp only [applyOp, inputOutputCoins] at h
    split_ifs at h with h1 h2 h3 h4
    all_goals try (cases h)
    exact Or.inl ⟨f, by simp [debited], h4⟩
  | delegate who amt =>
    simp only [applyOp, delegateCoins] at h
    split_ifs at h with h1 h2 h3
    all_goals try (cases h)
    exact Or.inl ⟨who, by simp [debited], h3⟩
  | tomod who amt =>
    simp only [applyOp] at h
    split_ifs at h
    · cases h
    · exact Or.inl ⟨who, by simp [debited], sendCoins_sanctioned h⟩
  | msg m =>
    simp only [applyOp] at h
    cases hm : msgSanction s.cfg s.st m with
    | ok st => simp [hm] at h
    | error e =>
      simp only [hm, Except.error.injEq] at h
      subst h
      exact absurd hm msgSanction_not_sanctioned
  | fund who amt =>
    simp only [applyOp] at h
    split_ifs at h
    cases h
  | grant a b lim =>
    simp only [applyOp, grantTransfer] at h
    split_ifs at h
    all_goals try (cases h)
  | mxfer admin frm to d x =>
    simp only [applyOp] at h
    split_ifs at h with hv
    · cases h
    · have hs := transferCoin_sanctioned h
      by_cases hx : 0 < x
      · exact Or.inl ⟨frm, by simp [debited, hx], hs⟩
      · have : x = 0 := by
          have : ¬ x < 0 := fun hx => hv (Or.inr (Or.inr (Or.inr hx)))
          omega
        subst this
        exact Or.inr ⟨admin, frm, to, d, rfl, hs⟩
  | mwd admin to d amt =>
    simp only [applyOp] at h
    split_ifs at h
    · cases h
    · unfold withdrawCoins at h
      cases hm : getMarkerByDenom s.cfg d with
      | none => simp [hm] at h
      | some m =>
        simp only [hm] at h
        split_ifs at h
        all_goals try (cases h)
        exact Or.inl ⟨m.addr, by simp [debited, hm], sendCoins_sanctioned h⟩
  | mktwd admin to amt =>
    simp only [applyOp] at h
    split_ifs at h
    · cases h
    · unfold withdrawMarketFunds at h
      split_ifs at h
      all_goals try (cases h)
      exact Or.inl ⟨s.cfg.market, by simp [debited], sendCoins_sanctioned h⟩
  | pay src tgt sAmt tAmt =>
    simp only [applyOp] at h
    split_ifs at h
    · cases h
    · unfold acceptPayment at h
      split_ifs at h
      · cases h
      · cases hmid : sendIfAny s src tgt sAmt with
        | error e =>
          simp only [hmid, Except.error.injEq] at h
          subst h
          obtain ⟨k1, k2⟩ := sendIfAny_sanctioned hmid
          exact Or.inl ⟨src, by simp [debited, k1], k2⟩
        | ok s1 =>
          simp only [hmid] at h
          obtain ⟨k1, k2⟩ := sendIfAny_sanctioned h
          obtain ⟨f1, f2⟩ := sendIfAny_frame hmid
          rw [f1, f2] at k2
          exact Or.inl ⟨tgt, by simp [debited, k1], k2⟩
  | settle seller buyer assets price =>
    simp only [applyOp] at h
    split_ifs at h
    · cases h
    · unfold settleOrders at h
      split_ifs at h with h1 h2 h3 h4
      all_goals try (cases h)
      cases hx : isSanctionedAddr s.cfg s.st seller with
      | true => exact Or.inl ⟨seller, by simp [debited], hx⟩
      | false =>
        cases hy : isSanctionedAddr s.cfg s.st buyer with
        | true => exact Or.inl ⟨buyer, by simp [debited], hy⟩
        | false => simp [hx, hy] at h3

/-! ### when the gov hook cannot panic -/

/-- no `MsgSanction` of the proposal names a protected account -/
@[reducible] def NoProtectedSanction (c : Cfg) (msgs : List PMsg) : Prop :=
  ∀ m ∈ msgs, m.isSanction = true → ∀ x ∈ m.addrs, x ∉ c.unsanctionable

theorem addTempEntries_succeeds {c : Cfg} {v : Bool} {id : Nat} {addrs : List Addr} (st : Store)
    (h : v = true → ∀ x ∈ addrs, x ∉ c.unsanctionable) : ∃ st', addTempEntries c v id st addrs = .ok st' := by
  induction addrs generalizing st with
  | nil => exact ⟨st, rfl⟩
  | cons a rest ih =>
    simp only [addTempEntries]
    have hn : ¬(v = true ∧ a ∈ c.unsanctionable) := fun hh => h hh.1 a List.mem_cons_self hh.2
    simp only [hn, if_false]
    exact ih _ (fun hv x hx => h hv x (List.mem_cons_of_mem _ hx))

theorem hookMsgs_succeeds {c : Cfg} {total : Coins} {id : Nat} {msgs : List PMsg} (st : Store)
    (h : NoProtectedSanction c msgs) : ∃ st', hookMsgs c total id st msgs = .ok st' := by
  induction msgs generalizing st with
  | nil => exact ⟨st, rfl⟩
  | cons m rest ih =>
    have hm : ∃ st1, hookMsg c total id st m = .ok st1 := by
      unfold hookMsg
      split_ifs
      · obtain ⟨st1, h1⟩ := addTempEntries_succeeds (c := c) (v := m.isSanction) (id := id) st
          (fun hv x hx => h m List.mem_cons_self hv x hx)
        exact ⟨st1, by rw [h1]⟩
      · exact ⟨st, rfl⟩
    obtain ⟨st1, h1⟩ := hm
    simp only [hookMsgs, h1]
    exact ih st1 (fun m' hm' => h m' (List.mem_cons_of_mem _ hm'))

theorem hook_succeeds {c : Cfg} {p : Proposal} {id : Nat} (st : Store) (h : NoProtectedSanction c p.msgs) :
    ∃ st', proposalGovHook c st (some p) id = .ok st' := by
  unfold proposalGovHook
  cases hst : p.status <;> simp only [hst]
  · exact hookMsgs_succeeds st h
  · exact hookMsgs_succeeds st h
  · exact ⟨_, rfl⟩
  · exact ⟨_, rfl⟩
  · exact ⟨_, rfl⟩

/-- an unsanctioned, funded depositor's deposit on a proposal in its deposit or voting period, of
accepted denoms and above the floor, is accepted (provided the proposal does not try to sanction
a protected account, which makes the hook panic for everybody) -/
theorem addDeposit_succeeds {s : State} {id : Nat} {who : Addr} {amt : Coins} {p : Proposal}
    (hp : getProp s.props id = some p) (hact : p.active = true)
    (hden : acceptedDenoms s.cfg amt = true) (hr : ratioMet (depMinFor s.cfg p.expedited) amt = true)
    (hprot : NoProtectedSanction s.cfg p.msgs)
    (hu : isSanctionedAddr s.cfg s.st who = false) (hfunds : hasFunds s.ledger who amt = true) :
    ∃ s', addDeposit s id who amt = .ok s' ∧ s'.ledger = s.ledger.move who s.cfg.govAcct amt ∧
      s'.nextId = s.nextId ∧ s'.cfg = s.cfg := by
  unfold addDeposit
  simp only [hp, hact, hden, hr, Bool.not_true, Bool.false_eq_true, if_false, sendCoins_succeeds hu hfunds]
  have hm : (depositedProp s.cfg s.now p who amt).msgs = p.msgs := (depositedProp_spec s.cfg s.now p who amt).2.1
  obtain ⟨st', h'⟩ := hook_succeeds (c := s.cfg) (p := depositedProp s.cfg s.now p who amt) (id := id) s.st
    (by rw [hm]; exact hprot)
  simp only [h']
  exact ⟨_, rfl, rfl, rfl, rfl⟩

theorem getProp_append_new {ps : List Proposal} {p : Proposal} (h : ∀ q ∈ ps, q.id ≠ p.id) :
    getProp (ps ++ [p]) p.id = some p := by
  unfold getProp
  rw [List.find?_append]
  have : ps.find? (fun q => decide (q.id = p.id)) = none :=
    List.find?_eq_none.2 (fun q hq => by simpa using h q hq)
  simp [this]

theorem submitProposal_succeeds {s : State} {who : Addr} {msgs : List PMsg} {initial : Coins} {exp : Bool}
    (hi : Inv s) (hcv : coinsValid initial = true) (hcov : Coins.covers initial (initMinFor s.cfg exp) = true)
    (hden : acceptedDenoms s.cfg initial = true) (hval : validateMsgs msgs = .ok ())
    (hr : ratioMet (depMinFor s.cfg exp) initial = true) (hprot : NoProtectedSanction s.cfg msgs)
    (hu : isSanctionedAddr s.cfg s.st who = false) (hfunds : hasFunds s.ledger who initial = true) :
    ∃ s', submitProposal s who msgs initial exp = .ok s' ∧ s'.ledger = s.ledger.move who s.cfg.govAcct initial ∧
      s'.nextId = s.nextId + 1 := by
  unfold submitProposal
  have hh : proposalGovHook s.cfg s.st (some (newProposal s who msgs exp)) s.nextId = .ok s.st :=
    hookMsgs_zero msgs hi.store.sancPos hi.store.unsancPos
  simp only [hcv, hcov, hden, hval, hh, Bool.not_true, Bool.false_eq_true, if_false]
  have hg : getProp (s.props ++ [newProposal s who msgs exp]) s.nextId = some (newProposal s who msgs exp) :=
    getProp_append_new (p := newProposal s who msgs exp) (fun q hq => Nat.ne_of_lt (hi.idsLt q hq))
  obtain ⟨s', h1, h2, h3, _⟩ := addDeposit_succeeds
    (s := { s with props := s.props ++ [newProposal s who msgs exp], nextId := s.nextId + 1 })
    (id := s.nextId) (who := who) (amt := initial) hg rfl hden hr hprot hu hfunds
  exact ⟨s', h1, h2, h3⟩

/-! ### credits -/

theorem foldl_move_bal {tos : List Addr} {l : Ledger} {f a : Addr} {amt : Coins} (hne : a ≠ f) (d : Denom) :
    (tos.foldl (fun l to => l.move f to amt) l).bal a d = l.bal a d + (tos.count a : Int) * Coins.amountOf amt d := by
  induction tos generalizing l with
  | nil => simp
  | cons t rest ih =>
    simp only [List.foldl_cons]
    rw [ih, Ledger.bal_move]
    have hf : ¬ f = a := fun h => hne h.symm
    simp only [hf, if_false]
    generalize Coins.amountOf amt d = X
    by_cases h : t = a
    · subst h
      simp only [if_true, List.count_cons_self, Int.natCast_add, Int.add_mul]
      omega
    · have h' : (t == a) = false := by simpa using h
      simp only [h, if_false, List.count_cons, h']
      simp

/-- a refund of deposits fails only for lack of funds in the gov account — never because of who
the depositors are (the gov account being protected) -/
theorem refundAll_error {ds : List (Addr × Coins)} {s : State} {e : Err}
    (hg : s.cfg.govAcct ∈ s.cfg.unsanctionable) (h : refundAll s ds = .error e) : e = .funds := by
  induction ds generalizing s with
  | nil => simp [refundAll] at h
  | cons x rest ih =>
    obtain ⟨w, v⟩ := x
    simp only [refundAll] at h
    cases h1 : sendCoins s s.cfg.govAcct w v with
    | error e1 =>
      simp only [h1, Except.error.injEq] at h
      subst h
      rcases sendCoins_error h1 with ⟨k, _⟩ | ⟨_, k⟩
      · exact k
      · unfold isSanctionedAddr at k
        simp [hg] at k
    | ok s1 =>
      simp only [h1] at h
      obtain ⟨rfl, _⟩ := sendCoins_ok h1
      exact ih (s := { s with ledger := s.ledger.move s.cfg.govAcct w v }) hg h

theorem chargeDeposits_error {ds : List (Addr × Coins)} {s : State} {ch : Coins} {e : Err}
    (hg : s.cfg.govAcct ∈ s.cfg.unsanctionable) (h : chargeDeposits s ch ds = .error e) : e = .funds := by
  induction ds generalizing s ch with
  | nil => simp [chargeDeposits] at h
  | cons x rest ih =>
    obtain ⟨w, v⟩ := x
    simp only [chargeDeposits] at h
    split_ifs at h with h0
    · exact ih hg h
    · cases h1 : sendCoins s s.cfg.govAcct w (remainingPart s.cfg v) with
      | error e1 =>
        simp only [h1, Except.error.injEq] at h
        subst h
        rcases sendCoins_error h1 with ⟨k, _⟩ | ⟨_, k⟩
        · exact k
        · unfold isSanctionedAddr at k
          simp [hg] at k
      | ok s1 =>
        simp only [h1] at h
        obtain ⟨rfl, _⟩ := sendCoins_ok h1
        exact ih (s := { s with ledger := s.ledger.move s.cfg.govAcct w (remainingPart s.cfg v) }) hg h

/-- … and when it goes through every depositor, sanctioned or not, has exactly its deposits back -/
theorem refundAll_credit {ds : List (Addr × Coins)} {s s' : State} {a : Addr} (hs : refundAll s ds = .ok s')
    (hne : a ≠ s.cfg.govAcct) (d : Denom) : s'.ledger.bal a d = s.ledger.bal a d + owed a d ds := by
  induction ds generalizing s with
  | nil => simp only [refundAll, Except.ok.injEq] at hs; subst hs; simp [owed]
  | cons x rest ih =>
    obtain ⟨w, v⟩ := x
    simp only [refundAll] at hs
    cases h1 : sendCoins s s.cfg.govAcct w v with
    | error e => simp [h1] at hs
    | ok s1 =>
      simp only [h1] at hs
      obtain ⟨rfl, _⟩ := sendCoins_ok h1
      rw [ih (s := { s with ledger := s.ledger.move s.cfg.govAcct w v }) hs hne]
      simp only [Ledger.bal_move, owed]
      have hf : ¬ s.cfg.govAcct = a := fun h => hne h.symm
      simp only [hf, if_false]
      omega

end PvProofs.Sanc
