/-
Helper lemmas for C15: what each keeper function does to the two halves of the name store when it
succeeds ("effect" lemmas), and the store invariant they preserve.
-/
import PvProofs.Lemmas.NameKV
import PvProofs.Lemmas.NameStrings

namespace PvModel.Name
open KV

variable {κ : Type} [DecidableEq κ] (cfg : Cfg κ)

/-- The invariant of the name store. -/
structure Inv (st : State κ) : Prop where
  recsNodup : (Keys st.recs).Nodup
  idxNodup : (Keys st.idx).Nodup
  /-- the address index holds, under `(a, k)`, exactly a copy of the record stored under `k`
  when that record's address is `a` -/
  idxExact : ∀ a k r, get st.idx (a, k) = some r ↔ (get st.recs k = some r ∧ r.addr = a)
  /-- every record sits under the key derived from its own name -/
  keyed : ∀ k r, get st.recs k = some r → getNameKeyPrefix cfg r.name = .ok k
  /-- stored names are outputs of `Keeper.Normalize`: valid, normalized, within the limits -/
  normd : ∀ k r, get st.recs k = some r → normalize cfg r.name = .ok r.name

/-- stored names are lower-case -/
theorem Inv.lower {st : State κ} (hI : Inv cfg st) : ∀ k r, get st.recs k = some r → NoUpper r.name :=
  fun k r h => noUpper_of_normalize cfg (hI.normd k r h)

theorem inv_init : Inv cfg ({} : State κ) :=
  ⟨List.nodup_nil, List.nodup_nil, by intro a k r; simp, by intro k r h; simp at h, by intro k r h; simp at h⟩

/-! ### the names of the stored records -/

omit [DecidableEq κ] in
theorem mem_storedNames_iff {st : State κ} {n : Bytes} :
    n ∈ storedNames st ↔ ∃ k r, (k, r) ∈ st.recs ∧ r.name = n := by
  unfold storedNames allRecords
  simp only [List.mem_map]
  constructor
  · rintro ⟨r, ⟨⟨k, r'⟩, hm, rfl⟩, rfl⟩; exact ⟨k, r', hm, rfl⟩
  · rintro ⟨k, r, hm, rfl⟩; exact ⟨r, ⟨(k, r), hm, rfl⟩, rfl⟩

theorem KV.get_some_mem {ν : Type} {m : List (κ × ν)} {k : κ} {v : ν} (h : get m k = some v) :
    (k, v) ∈ m := by
  induction m with
  | nil => simp at h
  | cons e m ih =>
    obtain ⟨k', v'⟩ := e
    rw [get_cons] at h
    split at h
    · rename_i hk; cases h; subst hk; exact List.mem_cons_self ..
    · exact List.mem_cons_of_mem _ (ih h)

theorem mem_storedNames_of_get {st : State κ} {k : κ} {r : Record} (h : get st.recs k = some r) :
    r.name ∈ storedNames st :=
  mem_storedNames_iff.mpr ⟨k, r, KV.get_some_mem h, rfl⟩

theorem mem_storedNames {st : State κ} (hI : Inv cfg st) {n : Bytes} (h : n ∈ storedNames st) :
    ∃ k r, get st.recs k = some r ∧ r.name = n := by
  obtain ⟨k, r, hm, hn⟩ := mem_storedNames_iff.mp h
  exact ⟨k, r, (mem_iff_get hI.recsNodup k r).mp hm, hn⟩

/-! ### effect lemmas -/

theorem getRecordByName_eq {st : State κ} {name : Bytes} {k : κ}
    (hk : getNameKeyPrefix cfg name = .ok k) : getRecordByName cfg st name = get st.recs k := by
  simp [getRecordByName, hk]

theorem getRecordByName_some {st : State κ} {name : Bytes} {r : Record}
    (h : getRecordByName cfg st name = some r) :
    ∃ k, getNameKeyPrefix cfg name = .ok k ∧ get st.recs k = some r := by
  unfold getRecordByName at h
  split at h
  · rename_i k hk; exact ⟨k, hk, h⟩
  · cases h

theorem nameExists_eq {st : State κ} {name : Bytes} {k : κ}
    (hk : getNameKeyPrefix cfg name = .ok k) : nameExists cfg st name = (get st.recs k).isSome := by
  simp [nameExists, hk, has]

theorem addRecord_ok {st st' : State κ} {name : Bytes} {addr : Addr} {restrict m : Bool}
    (h : addRecord cfg st name addr restrict m = .ok st') :
    ∃ k, getNameKeyPrefix cfg name = .ok k ∧ (m = false → get st.recs k = none) ∧
      st' = { recs := set st.recs k ⟨name, addr, restrict⟩,
              idx := set st.idx (addr, k) ⟨name, addr, restrict⟩ } := by
  unfold addRecord at h
  split at h
  · cases h
  · rename_i key hk
    split at h
    · cases h
    · rename_i hc
      refine ⟨key, hk, ?_, ?_⟩
      · intro hm
        subst hm
        cases hg : get st.recs key with
        | none => rfl
        | some v => simp [has, hg] at hc
      · cases h; rfl

theorem setNameRecord_ok {st st' : State κ} {name : Bytes} {addr : Addr} {restrict : Bool}
    (h : setNameRecord cfg st name addr restrict = .ok st') :
    ∃ n k, normalize cfg name = .ok n ∧ getNameKeyPrefix cfg n = .ok k ∧ get st.recs k = none ∧
      st' = { recs := set st.recs k ⟨n, addr, restrict⟩,
              idx := set st.idx (addr, k) ⟨n, addr, restrict⟩ } := by
  unfold setNameRecord at h
  split at h
  · cases h
  · rename_i n hn
    obtain ⟨k, hk, hfree, rfl⟩ := addRecord_ok cfg h
    exact ⟨n, k, hn, hk, hfree rfl, rfl⟩

/-- the address index after `UpdateNameRecord` removed the previous owner's entry -/
def idxWithoutOld (st : State κ) (k : κ) (addr : Addr) : List ((Addr × κ) × Record) :=
  match get st.recs k with
  | some e => if e.addr ≠ addr then del st.idx (e.addr, k) else st.idx
  | none => st.idx

theorem updateNameRecord_ok {st st' : State κ} {name : Bytes} {addr : Addr} {restrict : Bool}
    (h : updateNameRecord cfg st name addr restrict = .ok st') :
    ∃ n k, normalize cfg name = .ok n ∧ getNameKeyPrefix cfg n = .ok k ∧
      st' = { recs := set st.recs k ⟨n, addr, restrict⟩,
              idx := set (idxWithoutOld st k addr) (addr, k) ⟨n, addr, restrict⟩ } := by
  unfold updateNameRecord at h
  split at h
  · cases h
  · rename_i n hn
    split at h
    · rename_i existing hex
      obtain ⟨k0, hk0, hg0⟩ := getRecordByName_some cfg hex
      split at h
      · rename_i hne
        split at h
        · cases h
        · split at h
          · cases h
          · rename_i key hkey
            obtain ⟨k, hk, -, rfl⟩ := addRecord_ok cfg h
            have e1 : key = k := by rw [hkey] at hk; cases hk; rfl
            have e0 : k0 = k := by rw [hk0] at hk; cases hk; rfl
            subst e1; subst e0
            exact ⟨n, _, hn, hk, by simp [idxWithoutOld, hg0, hne]⟩
      · rename_i heq
        obtain ⟨k, hk, -, rfl⟩ := addRecord_ok cfg h
        have e0 : k0 = k := by rw [hk0] at hk; cases hk; rfl
        subst e0
        exact ⟨n, _, hn, hk, by simp [idxWithoutOld, hg0, heq]⟩
    · rename_i hex
      obtain ⟨k, hk, -, rfl⟩ := addRecord_ok cfg h
      have hg : get st.recs k = none := by rw [getRecordByName_eq cfg hk] at hex; exact hex
      exact ⟨n, k, hn, hk, by simp [idxWithoutOld, hg]⟩

theorem deleteRecord_ok {st st' : State κ} {name : Bytes}
    (h : deleteRecord cfg st name = .ok st') :
    ∃ k rec, getNameKeyPrefix cfg name = .ok k ∧ get st.recs k = some rec ∧
      st' = { recs := del st.recs k, idx := del st.idx (rec.addr, k) } := by
  unfold deleteRecord at h
  split at h
  · cases h
  · rename_i record hrec
    obtain ⟨k0, hk0, hg0⟩ := getRecordByName_some cfg hrec
    split at h
    · cases h
    · split at h
      · cases h
      · rename_i key hkey
        have e0 : k0 = key := by rw [hk0] at hkey; cases hkey; rfl
        subst e0
        cases h
        exact ⟨k0, record, hk0, hg0, rfl⟩

/-! ### invariant preservation -/

theorem inv_set {st : State κ} (hI : Inv cfg st) {name : Bytes} {addr : Addr} {restrict : Bool}
    {k : κ} (hk : getNameKeyPrefix cfg name = .ok k) (hlow : normalize cfg name = .ok name)
    (idx0 : List ((Addr × κ) × Record))
    (hnd : (Keys idx0).Nodup)
    (hsame : ∀ a k', k' ≠ k → get idx0 (a, k') = get st.idx (a, k'))
    (hclear : ∀ a, a ≠ addr → get idx0 (a, k) = none) :
    Inv cfg { recs := set st.recs k ⟨name, addr, restrict⟩,
              idx := set idx0 (addr, k) ⟨name, addr, restrict⟩ } := by
  refine ⟨keys_set_nodup hI.recsNodup _ _, keys_set_nodup hnd _ _, ?_, ?_, ?_⟩
  · intro a k' r
    by_cases hk' : k' = k
    · subst hk'
      by_cases ha : a = addr
      · subst ha
        simp only [get_set_self, Option.some.injEq]
        constructor
        · intro h; subst h; exact ⟨rfl, rfl⟩
        · intro h; exact h.1
      · have hne : (a, k') ≠ (addr, k') := fun e => ha (Prod.mk.inj e).1
        simp only [get_set_ne _ _ hne, hclear a ha, get_set_self, Option.some.injEq]
        constructor
        · intro h; cases h
        · rintro ⟨h, h2⟩; subst h; exact absurd h2.symm ha
    · have hne : (a, k') ≠ (addr, k) := fun e => hk' (Prod.mk.inj e).2
      simp only [get_set_ne _ _ hne, get_set_ne _ _ hk', hsame a k' hk']
      exact hI.idxExact a k' r
  · intro k' r h
    by_cases hk' : k' = k
    · subst hk'
      simp only [get_set_self, Option.some.injEq] at h
      subst h; exact hk
    · rw [get_set_ne _ _ hk'] at h
      exact hI.keyed k' r h
  · intro k' r h
    by_cases hk' : k' = k
    · subst hk'
      simp only [get_set_self, Option.some.injEq] at h
      subst h; exact hlow
    · rw [get_set_ne _ _ hk'] at h
      exact hI.normd k' r h

theorem inv_setNameRecord {st st' : State κ} (hI : Inv cfg st) {name : Bytes} {addr : Addr}
    {restrict : Bool} (h : setNameRecord cfg st name addr restrict = .ok st') : Inv cfg st' := by
  obtain ⟨n, k, hn, hk, hfree, rfl⟩ := setNameRecord_ok cfg h
  refine inv_set cfg hI hk (normalize_idem cfg hn) st.idx hI.idxNodup (fun _ _ _ => rfl) ?_
  intro a _
  cases hg : get st.idx (a, k) with
  | none => rfl
  | some r => have := ((hI.idxExact a k r).mp hg).1; rw [hfree] at this; cases this

theorem inv_updateNameRecord {st st' : State κ} (hI : Inv cfg st) {name : Bytes} {addr : Addr}
    {restrict : Bool} (h : updateNameRecord cfg st name addr restrict = .ok st') : Inv cfg st' := by
  obtain ⟨n, k, hn, hk, rfl⟩ := updateNameRecord_ok cfg h
  refine inv_set cfg hI hk (normalize_idem cfg hn) _ ?_ ?_ ?_
  · unfold idxWithoutOld; split
    · split
      · exact keys_del_nodup hI.idxNodup _
      · exact hI.idxNodup
    · exact hI.idxNodup
  · intro a k' hk'
    unfold idxWithoutOld; split
    · split
      · exact get_del_ne _ (fun e => hk' (Prod.mk.inj e).2)
      · rfl
    · rfl
  · intro a ha
    unfold idxWithoutOld
    split
    · rename_i e he
      split
      · rename_i hne
        by_cases hae : a = e.addr
        · subst hae; exact get_del_self _ _
        · rw [get_del_ne _ (fun h => hae (Prod.mk.inj h).1)]
          cases hg : get st.idx (a, k) with
          | none => rfl
          | some r =>
            have := (hI.idxExact a k r).mp hg
            rw [he] at this
            obtain ⟨h1, h2⟩ := this
            cases h1; exact absurd h2.symm hae
      · rename_i heq
        have heq : e.addr = addr := by simpa using heq
        cases hg : get st.idx (a, k) with
        | none => rfl
        | some r =>
          have := (hI.idxExact a k r).mp hg
          rw [he] at this
          obtain ⟨h1, h2⟩ := this
          cases h1; exact absurd (h2.symm.trans heq) ha
    · rename_i he
      cases hg : get st.idx (a, k) with
      | none => rfl
      | some r => have := ((hI.idxExact a k r).mp hg).1; rw [he] at this; cases this

theorem inv_del {st : State κ} (hI : Inv cfg st) {k : κ} {rec : Record}
    (hg : get st.recs k = some rec) :
    Inv cfg { recs := del st.recs k, idx := del st.idx (rec.addr, k) } := by
  refine ⟨keys_del_nodup hI.recsNodup _, keys_del_nodup hI.idxNodup _, ?_, ?_, ?_⟩
  · intro a k' r
    by_cases hk' : k' = k
    · subst hk'
      simp only [get_del_self, false_and, iff_false, reduceCtorEq]
      by_cases ha : a = rec.addr
      · subst ha; simp [get_del_self]
      · rw [get_del_ne _ (fun h => ha (Prod.mk.inj h).1)]
        intro h
        have := (hI.idxExact a k' r).mp h
        rw [hg] at this
        obtain ⟨h1, h2⟩ := this
        cases h1; exact ha h2.symm
    · rw [get_del_ne _ (fun h => hk' (Prod.mk.inj h).2), get_del_ne _ hk']
      exact hI.idxExact a k' r
  · intro k' r h
    by_cases hk' : k' = k
    · subst hk'; rw [get_del_self] at h; cases h
    · rw [get_del_ne _ hk'] at h; exact hI.keyed k' r h
  · intro k' r h
    by_cases hk' : k' = k
    · subst hk'; rw [get_del_self] at h; cases h
    · rw [get_del_ne _ hk'] at h; exact hI.normd k' r h

theorem inv_deleteRecord {st st' : State κ} (hI : Inv cfg st) {name : Bytes}
    (h : deleteRecord cfg st name = .ok st') : Inv cfg st' := by
  obtain ⟨k, rec, -, hg, rfl⟩ := deleteRecord_ok cfg h
  exact inv_del cfg hI hg

theorem inv_createRootLoop (addr : Addr) (restricted : Bool) (segs : List Bytes) :
    ∀ (n : Bytes) (st st' : State κ), Inv cfg st →
      createRootLoop cfg addr restricted segs n st = .ok st' → Inv cfg st' := by
  induction segs with
  | nil => intro n st st' hI h; simp [createRootLoop] at h; subst h; exact hI
  | cons seg rest ih =>
    intro n st st' hI h
    simp only [createRootLoop] at h
    split at h
    · split at h
      · cases h
      · rename_i st1 h1
        exact ih _ _ _ (inv_setNameRecord cfg hI h1) h
    · exact ih _ _ _ hI h

end PvModel.Name
