/-
C16 — what the lookup counter IS in general: the number of records plus an offset `f` that only
the overwriting writes change (`Off f`: count + f = counter, for every (name, account)).
Generalises `AttrExact` (`CntEq` = `Off 0`): every removal (delete, purge, expiry, the removal
half of an update) takes one record AND one counter unit, so the offset never shrinks.
-/
import PvProofs.Lemmas.AttrExact

set_option linter.unusedSimpArgs false
set_option linter.unusedVariables false

namespace PvProofs.Lemmas.AttrExcess
open PvModel.Attr PvProofs.Lemmas.AttrStore PvProofs.Lemmas.AttrInv PvProofs.Lemmas.AttrSweep
  PvProofs.Lemmas.AttrStep PvProofs.Lemmas.AttrExact

/-- counter = records + `f`, for every (name, account). -/
def Off (f : String → String → Nat) (s : State) : Prop := ∀ n a, count s n a + f n a = getCnt s n a

theorem Off.congr {f g : String → String → Nat} {s : State} (h : Off f s) (e : ∀ n a, f n a = g n a) :
    Off g s := by
  intro n a; rw [← e n a]; exact h n a

theorem put_off_fresh {f} {s : State} {a : Attribute} (hf : ∀ r ∈ s.recs, r.key ≠ a.key) (h : Off f s) :
    Off f (put s a) := by
  intro n x
  rw [getCnt_put]
  have h1 : count (put s a) n x = count (setRec s a) n x := count_congr (by simp [put]) n x
  rw [h1, count_setRec_eq, count_delRec_absent hf]
  have := h n x
  omega

/-- Storing over an existing record: the record count stays, the counter goes up. -/
theorem put_off_over {f} {s : State} {a r : Attribute} (hk : KeysUnique s.recs) (hr : r ∈ s.recs)
    (hkey : r.key = a.key) (h : Off f s) :
    Off (fun n x => f n x + (if (a.name, a.addr) = (n, x) then 1 else 0)) (put s a) := by
  intro n x
  rw [getCnt_put]
  have h1 : count (put s a) n x = count (setRec s a) n x := count_congr (by simp [put]) n x
  rw [h1, count_setRec_eq, ← hkey]
  have h2 := count_delRec_exact hk hr n x
  obtain ⟨e1, e2, _⟩ := (key_eq_iff r a).mp hkey
  rw [e1, e2] at h2
  have := h n x
  simp only at *
  omega

theorem deleteOne_off {f} {s : State} {a : Attribute} (hk : KeysUnique s.recs) (ha : a ∈ s.recs) (h : Off f s) :
    Off f (deleteOne s a) := by
  intro n x
  rw [getCnt_deleteOne]
  have h1 : count (deleteOne s a) n x = count (delRec s a.key) n x := count_congr (by simp) n x
  rw [h1]
  have h2 := count_delRec_exact hk ha n x
  by_cases hm : (a.name, a.addr) = (n, x)
  · obtain ⟨e1, e2⟩ := Prod.mk.inj hm
    subst e1; subst e2
    have := h a.name a.addr
    simp at h2 ⊢; omega
  · have := h n x
    simp [hm] at h2 ⊢; omega

theorem foldl_deleteOne_off {f} (l : List Attribute) :
    ∀ s : State, (∀ a ∈ l, a ∈ s.recs) → KeysUnique l → Inv s → Off f s → Off f (l.foldl deleteOne s) := by
  induction l with
  | nil => intro s _ _ _ h; exact h
  | cons a t ih =>
    intro s hm hk hi h
    simp only [List.foldl_cons]
    unfold KeysUnique at hk
    rw [List.pairwise_cons] at hk
    apply ih
    · intro b hb
      rw [deleteOne_recs]
      refine List.mem_filter.mpr ⟨hm b (List.mem_cons_of_mem _ hb), ?_⟩
      simp only [decide_eq_true_eq]
      exact fun e => hk.1 b hb e.symm
    · exact hk.2
    · exact deleteOne_inv (hm a List.mem_cons_self) hi
    · exact deleteOne_off hi.keys (hm a List.mem_cons_self) h

theorem reexp_off {f} {s : State} {cur : Attribute} (e : Option Nat) (hk : KeysUnique s.recs) (hc : cur ∈ s.recs)
    (h : Off f s) : Off f (reexp s cur e) := by
  have hkey : ({ cur with exp := e } : Attribute).key = cur.key := rfl
  intro n x
  have h1 : count (reexp s cur e) n x = count (setRec s { cur with exp := e }) n x :=
    count_congr (by simp [reexp]) n x
  have h2 : getCnt (reexp s cur e) n x = getCnt s n x := getCnt_congr (by simp [reexp]) n x
  rw [h1, h2, count_setRec_eq, hkey]
  have h3 := count_delRec_exact hk hc n x
  have := h n x
  have e1 : ({ cur with exp := e } : Attribute).name = cur.name := rfl
  have e2 : ({ cur with exp := e } : Attribute).addr = cur.addr := rfl
  rw [e1, e2]
  omega

theorem purgeOne_off {f} {n x : String} {s : State} {k : Key} (hu : KeysUnique s.recs)
    (hk : ∃ r ∈ s.recs, r.key = k ∧ r.name = n ∧ r.addr = x) (h : Off f s) : Off f (purgeOne n x s k) := by
  obtain ⟨r, hr, rfl, rfl, rfl⟩ := hk
  intro n' x'
  unfold purgeOne
  rw [getCnt_dec]
  have h2 : ∀ n x, getCnt (delRec s r.key) n x = getCnt s n x := fun n x => getCnt_congr rfl n x
  have h1 : count (decAttrNameAddressLookup (delRec s r.key) r.name r.addr) n' x' = count (delRec s r.key) n' x' :=
    count_congr (by simp) n' x'
  rw [h1]
  have h3 := count_delRec_exact hu hr n' x'
  by_cases hm : (r.name, r.addr) = (n', x')
  · obtain ⟨e1, e2⟩ := Prod.mk.inj hm
    subst e1; subst e2
    have := h r.name r.addr
    simp [h2] at h3 ⊢; omega
  · have := h n' x'
    simp [hm, h2] at h3 ⊢; omega

theorem foldl_purgeOne_off {f} (n x : String) (ks : List Key) :
    ∀ s : State, (∀ k ∈ ks, ∃ r ∈ s.recs, r.key = k ∧ r.name = n ∧ r.addr = x) → ks.Nodup →
      KeysUnique s.recs → Off f s → Off f (ks.foldl (purgeOne n x) s) := by
  induction ks with
  | nil => intro s _ _ _ h; exact h
  | cons k t ih =>
    intro s hm hnd hu h
    simp only [List.foldl_cons]
    rw [List.nodup_cons] at hnd
    apply ih
    · intro k' hk'
      obtain ⟨r, hr, e1, e2, e3⟩ := hm k' (List.mem_cons_of_mem _ hk')
      refine ⟨r, ?_, e1, e2, e3⟩
      rw [purgeOne_recs]
      refine List.mem_filter.mpr ⟨hr, ?_⟩
      simp only [decide_eq_true_eq]
      intro e; rw [e1] at e; rw [e] at hk'; exact hnd.1 hk'
    · exact hnd.2
    · rw [purgeOne_recs]; exact hu.filter _
    · exact purgeOne_off hu (hm k List.mem_cons_self) h

theorem purgeAcct_off {f} (n : String) {s : State} (x : String) (hk : KeysUnique s.recs) (h : Off f s) :
    Off f (purgeAcct n s x) := by
  unfold purgeAcct
  apply foldl_purgeOne_off
  · intro k hk'
    unfold getAddrAttributesKeysByName at hk'
    simp only [List.mem_map, List.mem_filter, Bool.and_eq_true, decide_eq_true_eq] at hk'
    obtain ⟨r, ⟨hr, hx, hn⟩, rfl⟩ := hk'
    exact ⟨r, hr, rfl, hn, hx⟩
  · unfold getAddrAttributesKeysByName
    exact keys_nodup_of_unique (hk.filter _)
  · exact hk
  · exact h

theorem foldl_purgeAcct_off {f} (n : String) (xs : List String) :
    ∀ s : State, Inv3 s → Off f s → Off f (xs.foldl (purgeAcct n) s) := by
  induction xs with
  | nil => intro s _ h; exact h
  | cons x t ih =>
    intro s hi h
    simp only [List.foldl_cons]
    exact ih _ (purgeAcct_inv3 n x hi) (purgeAcct_off n x hi.keys h)

theorem expireOnePreFix_off {f} {s : State} (q : Nat × Key) (hk : KeysUnique s.recs) (h : Off f s) :
    Off f (expireOnePreFix s q) := by
  cases hg : getAttr s q.2 with
  | none =>
    intro n x
    obtain ⟨e1, e2⟩ := expireOnePreFix_none hg
    rw [count_congr e2, getCnt_congr e1]
    exact h n x
  | some a =>
    obtain ⟨ha, hka⟩ := getAttr_some hg
    intro n x
    have hd := deleteOne_off hk ha h n x
    rw [getCnt_deleteOne] at hd
    have hc : count (deleteOne s a) n x = count (delRec s a.key) n x := count_congr (by simp) n x
    rw [hc] at hd
    rw [count_congr (expireOnePreFix_some_recs hg), getCnt_congr (expireOnePreFix_some_cnt hg), ← hka, getCnt_dec]
    have h2 : ∀ n x, getCnt (delRec s a.key) n x = getCnt s n x := fun n x => getCnt_congr rfl n x
    simp only [h2]
    exact hd

theorem expireOne_off {f} {s : State} (q : Nat × Key) (hk : KeysUnique s.recs) (h : Off f s) :
    Off f (expireOne s q) := by
  rcases expireOne_cases s q with ⟨a, _, _, he⟩ | ⟨_, he⟩
  · rw [he]; exact expireOnePreFix_off q hk h
  · rw [he]; exact h

theorem foldl_expireOne_off {f} (l : List (Nat × Key)) :
    ∀ s : State, Inv s → Off f s → Off f (l.foldl expireOne s) := by
  induction l with
  | nil => intro s _ h; exact h
  | cons q t ih =>
    intro s hi h
    simp only [List.foldl_cons]
    exact ih _ (expireOne_inv q hi) (expireOne_off q hi.keys h)

/-- One accepted message: the offset grows by `overwriteOf s op` — by one under the (name, account)
of an `add` onto a stored key / an `update` onto another stored value, by nothing otherwise. -/
theorem step_off {f} {s s' : State} {op : Op} (hi : Inv s) (hc : Off f s) (h : step s op = .ok s') :
    Off (fun n x => f n x + overwriteOf s op n x) s' := by
  cases op with
  | add sg a =>
    obtain ⟨_, _, rfl⟩ := add_ok h
    cases hh : hasKey s a.key with
    | false =>
      refine (put_off_fresh ?_ hc).congr (fun n x => by simp [overwriteOf, hh])
      intro r hr hk
      have : hasKey s a.key = true := (hasKey_iff s a.key).mpr ⟨r, hr, hk⟩
      rw [hh] at this; cases this
    | true =>
      obtain ⟨r, hr, hk⟩ := (hasKey_iff s a.key).mp hh
      refine (put_off_over hi.keys hr hk hc).congr (fun n x => by simp [overwriteOf, hh])
  | update sg addr name ov ot nv nt =>
    obtain ⟨_, cur, hcur, hck, _, rfl⟩ := update_ok h
    have hd := deleteOne_off hi.keys hcur hc
    have hkd : KeysUnique (deleteOne s cur).recs := by rw [deleteOne_recs]; exact hi.keys.filter _
    by_cases hov : hasKey s (addr, name, nv) = true ∧ nv ≠ ov
    · obtain ⟨r, hr, hk⟩ := (hasKey_iff s _).mp hov.1
      have hr' : r ∈ (deleteOne s cur).recs := by
        rw [deleteOne_recs]
        refine List.mem_filter.mpr ⟨hr, ?_⟩
        simp only [decide_eq_true_eq]
        intro e
        rw [hk, hck] at e
        exact hov.2 (by simpa using e)
      refine (put_off_over (a := ⟨addr, name, nv, nt, none⟩) hkd hr' hk hd).congr (fun n x => ?_)
      simp [overwriteOf, hov.1, hov.2]
    · refine (put_off_fresh (a := ⟨addr, name, nv, nt, none⟩) ?_ hd).congr (fun n x => ?_)
      · intro r hr hk
        rw [deleteOne_recs] at hr
        obtain ⟨hr1, hr2⟩ := List.mem_filter.mp hr
        simp only [decide_eq_true_eq] at hr2
        apply hov
        refine ⟨(hasKey_iff s _).mpr ⟨r, hr1, hk⟩, ?_⟩
        intro e
        subst e
        apply hr2
        rw [hk, hck]; rfl
      · have : ¬ (hasKey s (addr, name, nv) = true ∧ nv ≠ ov) := hov
        simp only [overwriteOf]
        split
        · rename_i hx; exact absurd hx.2 this
        · rfl
  | updateExp sg addr name v e =>
    obtain ⟨_, cur, hcur, _, rfl⟩ := updateExp_ok h
    exact (reexp_off e hi.keys hcur hc).congr (fun n x => by simp [overwriteOf])
  | delete sg addr name =>
    obtain ⟨_, _, rfl⟩ := delete_ok h
    exact (foldl_deleteOne_off _ s (fun a ha => (toDelete_mem ha).1) (hi.keys.filter _) hi hc).congr
      (fun n x => by simp [overwriteOf])
  | deleteDistinct sg addr name v =>
    obtain ⟨_, _, rfl⟩ := deleteDistinct_ok h
    exact (foldl_deleteOne_off _ s (fun a ha => (toDelete_mem ha).1) (hi.keys.filter _) hi hc).congr
      (fun n x => by simp [overwriteOf])
  | bind name owner =>
    obtain ⟨_, rfl⟩ := bind_ok h
    exact Off.congr (s := { s with names := kvSet s.names name owner }) hc (fun n x => by simp [overwriteOf])
  | transfer au name owner =>
    obtain ⟨_, rfl⟩ := transfer_ok h
    exact Off.congr (s := { s with names := kvSet s.names name owner }) hc (fun n x => by simp [overwriteOf])
  | deleteName sg name =>
    obtain ⟨_, rfl⟩ := deleteName_ok h
    have h3 : Inv3 (unbind s name) := ⟨hi.keys, hi.cntGe, hi.queueComplete⟩
    exact (foldl_purgeAcct_off name _ _ h3 hc).congr (fun n x => by simp [overwriteOf])
  | beginBlock t =>
    obtain ⟨l, _, rfl⟩ := begin_fold h
    have hi0 : Inv { s with now := t } := ⟨hi.keys, hi.cntGe, hi.bound, hi.queueComplete⟩
    have hc0 : Off f { s with now := t } := hc
    exact (foldl_expireOne_off l _ hi0 hc0).congr (fun n x => by simp [overwriteOf])

theorem run_off (ops : List Op) : ∀ (f : String → String → Nat) (s : State), Inv s → Off f s →
    Off (fun n x => f n x + overwrites s ops n x) (run s ops) := by
  induction ops with
  | nil => intro f s _ h; exact h.congr (fun n x => by simp [overwrites])
  | cons op rest ih =>
    intro f s hi hc
    show Off _ (run (apply s op) rest)
    cases h : step s op with
    | error e =>
      have ha : apply s op = s := by unfold apply; rw [h]
      rw [ha]
      refine (ih f s hi hc).congr (fun n x => ?_)
      simp [overwrites, h, ha]
    | ok s' =>
      have ha : apply s op = s' := by unfold apply; rw [h]
      rw [ha]
      refine (ih _ s' (step_inv hi h) (step_off hi hc h)).congr (fun n x => ?_)
      simp [overwrites, h, ha, Nat.add_assoc]

end PvProofs.Lemmas.AttrExcess
