/-
The continuous vesting schedule only releases: `GetVestingCoins` is non-increasing in the block
time (LegacyDec arithmetic with banker's rounding, `PvModel.Lock.vestedContinuous`).
-/
import PvModel.Lock
import Mathlib.Tactic.Ring
import Mathlib.Tactic.Linarith

namespace PvProofs.Lemmas.Lock
open PvModel PvModel.Lock

theorem chop_mono {a b : Int} (h : a ≤ b) : chop a ≤ chop b := by
  unfold chop precision
  simp only
  split_ifs <;> omega

theorem chop_nonneg {a : Int} (h : 0 ≤ a) : 0 ≤ chop a := by
  unfold chop precision
  simp only
  split_ifs <;> omega

theorem chop_mul_precision (k : Int) : chop (k * precision) = k := by
  unfold chop precision
  simp only
  split_ifs <;> omega

theorem chop_le {a k : Int} (h : a ≤ k * precision) : chop a ≤ k := by
  have := chop_mono h
  rwa [chop_mul_precision] at this

theorem precision_pos : 0 < precision := by unfold precision; omega

/-- the vesting scalar `x / y` as a LegacyDec -/
def scalar (x y : Int) : Int := chop ((x * precision * (precision * precision)) / (y * precision))

theorem vestedContinuous_eq (o x y : Int) : vestedContinuous o x y = chop (chop ((o * precision) * scalar x y)) := rfl

theorem scalar_mono {x x' y : Int} (hy : 0 < y) (h : x ≤ x') : scalar x y ≤ scalar x' y := by
  unfold scalar
  apply chop_mono
  have hp := precision_pos
  apply Int.ediv_le_ediv (Int.mul_pos hy hp)
  have h3 : 0 ≤ precision * (precision * precision) := by positivity
  nlinarith [Int.mul_le_mul_of_nonneg_right h h3]

theorem scalar_nonneg {x y : Int} (hx : 0 ≤ x) (hy : 0 < y) : 0 ≤ scalar x y := by
  unfold scalar
  apply chop_nonneg
  have hp := precision_pos
  apply Int.ediv_nonneg
  · positivity
  · positivity

theorem scalar_le_one {x y : Int} (hy : 0 < y) (h : x ≤ y) : scalar x y ≤ precision := by
  unfold scalar
  apply chop_le
  have hp := precision_pos
  apply Int.ediv_le_of_le_mul (Int.mul_pos hy hp)
  have h3 : 0 ≤ precision * (precision * precision) := by positivity
  nlinarith [Int.mul_le_mul_of_nonneg_right h h3]

theorem vestedContinuous_mono {o x x' y : Int} (ho : 0 ≤ o) (hy : 0 < y) (h : x ≤ x') :
    vestedContinuous o x y ≤ vestedContinuous o x' y := by
  rw [vestedContinuous_eq, vestedContinuous_eq]
  apply chop_mono; apply chop_mono
  have hp := precision_pos
  exact Int.mul_le_mul_of_nonneg_left (scalar_mono hy h) (by positivity)

theorem vestedContinuous_nonneg {o x y : Int} (ho : 0 ≤ o) (hx : 0 ≤ x) (hy : 0 < y) :
    0 ≤ vestedContinuous o x y := by
  rw [vestedContinuous_eq]
  apply chop_nonneg; apply chop_nonneg
  have hp := precision_pos
  have := scalar_nonneg hx hy
  positivity

theorem vestedContinuous_le {o x y : Int} (ho : 0 ≤ o) (hy : 0 < y) (h : x ≤ y) :
    vestedContinuous o x y ≤ o := by
  rw [vestedContinuous_eq]
  apply chop_le; apply chop_le
  have hp := precision_pos
  exact Int.mul_le_mul_of_nonneg_left (scalar_le_one hy h) (by positivity)

/-- continuous vesting only releases -/
theorem continuous_vesting_antitone (ov : Coins) (st e t t' : Int) (d : Denom) (h : t ≤ t') (hse : st < e)
    (hov : 0 ≤ Coins.amountOf ov d) :
    (Sched.continuous ov st e).vesting t' d ≤ (Sched.continuous ov st e).vesting t d := by
  simp only [Sched.vesting]
  have hy : 0 < e - st := by omega
  split_ifs with h1 h2 h3 h4 h5 h6
  all_goals first
    | omega
    | (have := vestedContinuous_nonneg (x := t' - st) hov (by omega) hy; omega)
    | (have := vestedContinuous_le (x := t - st) hov hy (by omega); omega)
    | (have := vestedContinuous_mono (x := t - st) (x' := t' - st) hov hy (by omega); omega)

end PvProofs.Lemmas.Lock
