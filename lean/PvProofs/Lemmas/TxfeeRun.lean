/-
C08 helper lemmas: exact effect of the ante handler and of the end-of-transaction sweep.
-/
import PvProofs.Lemmas.TxfeeMeter

namespace PvProofs.TxfeeL
open PvModel PvModel.Txfee

theorem ite_eq_comm {α : Type} [DecidableEq α] (x y : α) (p q : Int) :
    (if x = y then p else q) = (if y = x then p else q) := by
  by_cases h : x = y
  · subst h; rfl
  · have : ¬ y = x := fun e => h e.symm
    simp [h, this]

theorem getFeePayer_src {tx : Tx} {a a' : Allow} {fee : Coins} {src : Addr}
    (h : getFeePayerUsingFeeGrant tx a fee = .ok (src, a')) : src = tx.from := by
  unfold getFeePayerUsingFeeGrant at h
  unfold Tx.from
  split at h
  · rename_i hg; cases h; simp [hg]
  · rename_i g hg
    split at h
    · cases h
    · cases h; simp [hg]

/-- `checkDeductBaseFee`: exactly the base fee moves from the paying account to the collector. -/
theorem checkDeduct_spec {cfg : Cfg} {tx : Tx} {s s1 : St} {m : Meter}
    (h : checkDeductBaseFee cfg tx s = .ok (s1, m)) :
    m.used = [] ∧ (∀ d, Coins.amountOf m.base d = Coins.amountOf (baseFee cfg.floor tx.gas) d) ∧
    s1.seq = s.seq ∧
    (∀ a d, s1.ledger.bal a d = s.ledger.bal a d +
      feeDeltaOnFailure cfg.collector tx.from (baseFee cfg.floor tx.gas) a d) ∧
    (∀ d, s1.ledger.supply d = s.ledger.supply d) ∧
    getFeePayerUsingFeeGrant tx s.allow (baseFee cfg.floor tx.gas) = .ok (tx.from, s1.allow) := by
  unfold checkDeductBaseFee at h
  dsimp only at h
  split at h
  · cases h
  · split at h
    · cases h
    · rename_i src allow' hg
      have hsrc := getFeePayer_src hg
      subst hsrc
      split at h
      · cases h
      · split at h
        · split at h
          · cases h
          · rename_i l hs
            cases h
            refine ⟨rfl, fun _ => rfl, rfl, ?_, fun d => sendCoins_supply hs d, hg⟩
            intro a d
            rw [sendCoins_bal hs a d]
            unfold feeDeltaOnFailure
            rw [ite_eq_comm a tx.from, ite_eq_comm a cfg.collector]
            split_ifs <;> omega
        · rename_i hz
          have hz' : ∀ d, Coins.amountOf (baseFee cfg.floor tx.gas) d = 0 := isZero_iff.mp (by simpa using hz)
          cases h
          refine ⟨rfl, fun d => by simp [hz' d], rfl, ?_, fun _ => rfl, hg⟩
          intro a d
          unfold feeDeltaOnFailure
          simp [hz' d]

/-- The ante chain (either mode): base fee moved, sequence incremented, nothing else. -/
theorem ante_spec {cfg : Cfg} {tx : Tx} {chk : Bool} {s s1 : St} {m : Meter}
    (h : anteHandle cfg tx chk s = .ok (s1, m)) :
    m.used = [] ∧ (∀ d, Coins.amountOf m.base d = Coins.amountOf (baseFee cfg.floor tx.gas) d) ∧
    s1.seq = s.seq + 1 ∧
    (∀ a d, s1.ledger.bal a d = s.ledger.bal a d +
      feeDeltaOnFailure cfg.collector tx.from (baseFee cfg.floor tx.gas) a d) ∧
    (∀ d, s1.ledger.supply d = s.ledger.supply d) ∧
    getFeePayerUsingFeeGrant tx s.allow (baseFee cfg.floor tx.gas) = .ok (tx.from, s1.allow) := by
  unfold anteHandle at h
  cases hcd : checkDeductBaseFee cfg tx s with
  | error e => simp only [hcd] at h; split_ifs at h
  | ok p =>
    obtain ⟨s0, m0⟩ := p
    simp only [hcd] at h
    obtain ⟨h1, h2, h3, h4, h5, h6⟩ := checkDeduct_spec hcd
    split_ifs at h <;> (cases h; exact ⟨h1, h2, by simp [h3], h4, h5, h6⟩)

/-- `MsgFeeInvoker.Invoke` on a meter that accounts for `is`: the paying account loses
declared − base, every recipient gets what it is owed, the collector the rest; what was
incurred never exceeds declared − base. -/
theorem invoke_spec {cfg : Cfg} {tx : Tx} {m : Meter} {s s' : St} {is : List Incurred}
    (hc : cfg.collector ≠ "") (hA : Acct m.used is) (h : invoke cfg tx m s = .ok s') :
    (∀ a d, s'.ledger.bal a d = s.ledger.bal a d
        - (if tx.from = a then Coins.amountOf tx.fee d - Coins.amountOf m.base d else 0)
        + (if a = "" then 0 else owedTo a d is)
        + (if a = cfg.collector then Coins.amountOf tx.fee d - Coins.amountOf m.base d - owedRecipients d is else 0)) ∧
    (∀ d, totalIncurred d is ≤ Coins.amountOf tx.fee d - Coins.amountOf m.base d) ∧
    (∀ d, s'.ledger.supply d = s.ledger.supply d) ∧
    s'.seq = s.seq ∧
    getFeePayerUsingFeeGrant tx s.allow (Coins.sub tx.fee m.base) = .ok (tx.from, s'.allow) := by
  unfold invoke at h
  dsimp only at h
  split_ifs at h with hch
  · -- charged branch
    split at h
    · cases h
    · rename_i src allow' hg
      have hsrc := getFeePayer_src hg
      subst hsrc
      split at h
      · cases h
      · rename_i l hd
        cases h
        obtain ⟨d1, d2, d3⟩ := deduct_spec hd
        have hcons : ∀ d, distTotal d m.distributions = totalIncurred d is := by
          intro d; unfold Meter.distributions; rw [distTotal_distOf, hA.total d]
        have hkey0 : ∀ d, distKey "" d m.distributions = totalIncurred d is - owedRecipients d is := by
          intro d
          have e1 := distTotal_split d m.distributions
          have e2 : distNonEmpty d m.distributions = owedRecipients d is := by
            unfold Meter.distributions; rw [distNonEmpty_distOf, hA.nonEmpty d]
          have := hcons d; omega
        refine ⟨?_, ?_, d3, rfl, hg⟩
        · intro a d
          rw [d1 a d, distTo_eq _ _ _ hc, hcons d, hkey0 d]
          simp only [Coins.amountOf_sub]
          by_cases ha : a = ""
          · subst ha
            have : ¬ "" = cfg.collector := fun e => hc e.symm
            have h2 : ¬ cfg.collector = "" := hc
            simp [this, h2]
          · have hk : distKey a d m.distributions = owedTo a d is := by
              unfold Meter.distributions; rw [distKey_distOf, hA.recip a d ha]
            rw [hk]
            by_cases hac : a = cfg.collector
            · subst hac; simp [ha]; omega
            · have : ¬ cfg.collector = a := fun e => hac e.symm
              simp [ha, hac, this]
        · intro d; have := d2 d; rw [hcons d] at this; simpa using this
  · -- nothing to charge: declared = base and nothing consumed
    split at h
    · cases h
    · rename_i src allow' hg
      have hsrc := getFeePayer_src hg
      subst hsrc
      cases h
      have hz : (∀ d, Coins.amountOf (Coins.sub tx.fee m.base) d = 0) ∧ (∀ d, Coins.amountOf m.feeConsumed d = 0) := by
        have : (Coins.sub tx.fee m.base).isZero = true ∧ m.feeConsumed.isZero = true := by
          simpa [not_or] using hch
        exact ⟨isZero_iff.mp this.1, isZero_iff.mp this.2⟩
      obtain ⟨hu, hcz⟩ := hz
      have htot : ∀ d, totalIncurred d is = 0 := fun d => by rw [← hA.total d]; exact hcz d
      have hkey : ∀ a d, usedKey a d m.used = 0 := fun a d => usedKey_zero_of_total_zero hA.nn d (hcz d) a
      have hne : ∀ d, owedRecipients d is = 0 := by
        intro d
        have e1 := distTotal_split d (distOf m.used)
        rw [distTotal_distOf, distKey_distOf, distNonEmpty_distOf, hkey "" d, hA.nonEmpty d] at e1
        have := hcz d
        unfold Meter.feeConsumed at this
        omega
      refine ⟨?_, ?_, fun _ => rfl, rfl, hg⟩
      · intro a d
        have hu' := hu d
        simp only [Coins.amountOf_sub] at hu'
        have ho : (if a = "" then 0 else owedTo a d is) = 0 := by
          by_cases ha : a = ""
          · simp [ha]
          · simp [ha, ← hA.recip a d ha, hkey a d]
        rw [ho, hne d]
        show s.ledger.bal a d = _
        split_ifs <;> omega
      · intro d
        have hu' := hu d
        simp only [Coins.amountOf_sub] at hu'
        rw [htot d]; omega

/-! ### the base-fee deduction never answers "insufficient fee" -/

theorem useGranted_err_ne_fee {a : Allow} {fee : Coins} {e : Err} (h : useGrantedFees a fee = .error e) : e ≠ .fee := by
  unfold useGrantedFees at h
  split at h
  · cases h; decide
  · cases h
  · dsimp only at h
    split_ifs at h <;> cases h <;> decide

theorem checkDeduct_err_ne_fee {cfg : Cfg} {tx : Tx} {s : St} {e : Err}
    (h : checkDeductBaseFee cfg tx s = .error e) : e ≠ .fee := by
  unfold checkDeductBaseFee at h
  dsimp only at h
  split at h
  · cases h; decide
  · split at h
    · rename_i e' hg
      cases h
      unfold getFeePayerUsingFeeGrant at hg
      split at hg
      · cases hg
      · split at hg
        · rename_i e'' hu; cases hg; exact useGranted_err_ne_fee hu
        · cases hg
    · split_ifs at h
      · cases h; decide
      · split at h
        · cases h; decide
        · cases h

/-! ### mempool mode vs block mode of the ante chain -/

/-- The mempool-mode ante chain is the block-mode chain plus the fee sufficiency test: whatever
passes the former passes the latter ON THE SAME STATE (unless the ante handler runs out of gas in
the block — observed). -/
theorem ante_check_ok_imp_deliver_ok {cfg : Cfg} {tx : Tx} {s : St} {p : St × Meter}
    (hC : anteHandle cfg tx true s = .ok p) (hg : tx.oogAnte = false) :
    ∃ q, anteHandle cfg tx false s = .ok q := by
  unfold anteHandle at hC ⊢
  simp only [hg, Bool.false_eq_true, if_false, false_and] at hC ⊢
  split_ifs at hC ⊢ <;>
  (cases hcd : checkDeductBaseFee cfg tx s with
   | error e' => simp [hcd] at hC
   | ok q => first | exact ⟨_, rfl⟩ | simp [hcd] at hC)

theorem not_rejected_of_ante_ok {cfg : Cfg} {tx : Tx} {s : St} {q : St × Meter}
    (hq : anteHandle cfg tx false s = .ok q) : ∀ e, (deliverTx cfg tx s).outcome ≠ .rejected e := by
  intro e hrej
  unfold deliverTx at hrej
  simp only [hq] at hrej
  split_ifs at hrej
  split at hrej
  · simp at hrej
  · split at hrej <;> simp at hrej

end PvProofs.TxfeeL
