/-
Helper lemmas for C14: scope deletion, specification writes/removals and the value-owner
operations preserve `Inv`; every message-level operation preserves `Inv`.
-/
import PvProofs.Lemmas.MdStoreInv

namespace PvProofs.MdLemmas
open PvModel.MdStore

variable {B : Addr → Addr}

/-! ### scope deletion -/

theorem setScopeValueOwner_empty_inv {st : State} (h : Inv B st) (id : UUID) :
    Inv B (setScopeValueOwner B st id "") ∧ (∀ p ∈ (setScopeValueOwner B st id "").valueOwners, p.1 ≠ id) := by
  simp only [setScopeValueOwner, if_true]
  cases hg : getScopeValueOwner st id with
  | none =>
    refine ⟨h, ?_⟩
    simp only [getScopeValueOwner, Option.map_eq_none_iff] at hg
    exact kget_none hg
  | some a =>
    refine ⟨?_, fun p hp => (mem_kdel.mp hp).2⟩
    exact
    { h with
      keys := by
        obtain ⟨h1, h2, h3, h4, h5, h6, h7⟩ := h.keys
        exact ⟨h1, h2, h3, h4, h5, h6, nodup_kdel (key := fun p : UUID × Addr => p.1) id h7⟩
      voScope := fun p hp => h.voScope p (mem_kdel.mp hp).1 }

theorem setScopeValueOwner_empty_same (st : State) (id : UUID) :
    SameButSessRec st { setScopeValueOwner B st id "" with valueOwners := st.valueOwners } ∧
    (setScopeValueOwner B st id "").sessions = st.sessions ∧
    (setScopeValueOwner B st id "").records = st.records := by
  simp only [setScopeValueOwner, if_true]
  cases getScopeValueOwner st id <;>
    exact ⟨⟨rfl, rfl, rfl, rfl, rfl, rfl, rfl, rfl, rfl, rfl, rfl, fun _ h => h⟩, rfl, rfl⟩

/-- The state after the value-owner burn and the record walk of `RemoveScope st id`. -/
def afterWalk (B : Addr → Addr) (st : State) (id : UUID) : State :=
  let st1 := setScopeValueOwner B st id ""
  removeRecords st1 (st1.records.filter (fun r => r.id.scope = id))

theorem removeScopePreFix_eq {st : State} {id : UUID} {sc : Scope} (h : kget (·.id) st.scopes id = some sc) :
    removeScopePreFix B st id =
      { indexScope B (afterWalk B st id) none (some sc) with scopes := kdel (·.id) id (afterWalk B st id).scopes } := by
  simp only [removeScopePreFix, h]
  rfl

theorem removeScope_eq {st : State} {id : UUID} {sc : Scope} (h : kget (·.id) st.scopes id = some sc) :
    removeScope B st id =
      { removeScopePreFix B st id with sessions := (removeScopePreFix B st id).sessions.filter (fun x => x.id.scope ≠ id) } := by
  simp only [removeScope, removeScopePreFix, h]
  rfl

structure AfterWalk (B : Addr → Addr) (st : State) (id : UUID) (w : State) : Prop where
  inv : Inv B w
  scopes : w.scopes = st.scopes
  scopeSpecs : w.scopeSpecs = st.scopeSpecs
  contractSpecs : w.contractSpecs = st.contractSpecs
  recordSpecs : w.recordSpecs = st.recordSpecs
  idxAddrScope : w.idxAddrScope = st.idxAddrScope
  idxSpecScope : w.idxSpecScope = st.idxSpecScope
  idxAddrScopeSpec : w.idxAddrScopeSpec = st.idxAddrScopeSpec
  idxCSpecScopeSpec : w.idxCSpecScopeSpec = st.idxCSpecScopeSpec
  idxAddrCSpec : w.idxAddrCSpec = st.idxAddrCSpec
  navs : w.navs = st.navs
  voNoId : ∀ p ∈ w.valueOwners, p.1 ≠ id
  voSub : ∀ p ∈ w.valueOwners, p ∈ st.valueOwners
  sessSub : ∀ x ∈ w.sessions, x ∈ st.sessions
  recSub : ∀ r ∈ w.records, r ∈ st.records
  recNoId : ∀ r ∈ w.records, r.id.scope ≠ id
  recKept : ∀ r ∈ st.records, r.id.scope ≠ id → r ∈ w.records

theorem afterWalk_spec {st : State} (h : Inv B st) (id : UUID) : AfterWalk B st id (afterWalk B st id) := by
  obtain ⟨h1, hvo⟩ := setScopeValueOwner_empty_inv h id
  obtain ⟨hs1, hsess1, hrec1⟩ := setScopeValueOwner_empty_same st id
  have hw := removeRecords_same (setScopeValueOwner B st id "")
    ((setScopeValueOwner B st id "").records.filter (fun r => r.id.scope = id))
  have hrr := removeRecords_records (setScopeValueOwner B st id "")
    ((setScopeValueOwner B st id "").records.filter (fun r => r.id.scope = id))
  have hsub : ∀ p ∈ (setScopeValueOwner B st id "").valueOwners, p ∈ st.valueOwners := by
    simp only [setScopeValueOwner, if_true]
    cases getScopeValueOwner st id with
    | none => exact fun _ hp => hp
    | some a => exact fun p hp => (mem_kdel.mp hp).1
  exact
  { inv := removeRecords_inv h1 _
    scopes := hw.scopes.trans hs1.scopes
    scopeSpecs := hw.scopeSpecs.trans hs1.scopeSpecs
    contractSpecs := hw.contractSpecs.trans hs1.contractSpecs
    recordSpecs := hw.recordSpecs.trans hs1.recordSpecs
    idxAddrScope := hw.idxAddrScope.trans hs1.idxAddrScope
    idxSpecScope := hw.idxSpecScope.trans hs1.idxSpecScope
    idxAddrScopeSpec := hw.idxAddrScopeSpec.trans hs1.idxAddrScopeSpec
    idxCSpecScopeSpec := hw.idxCSpecScopeSpec.trans hs1.idxCSpecScopeSpec
    idxAddrCSpec := hw.idxAddrCSpec.trans hs1.idxAddrCSpec
    navs := hw.navs.trans hs1.navs
    voNoId := by
      intro p hp
      have : p ∈ (setScopeValueOwner B st id "").valueOwners := by
        have := hw.valueOwners; unfold afterWalk at hp; rw [this] at hp; exact hp
      exact hvo p this
    voSub := by
      intro p hp
      have : p ∈ (setScopeValueOwner B st id "").valueOwners := by
        have := hw.valueOwners; unfold afterWalk at hp; rw [this] at hp; exact hp
      exact hsub p this
    sessSub := by
      intro x hx
      have := hw.sessSub x hx
      rw [hsess1] at this; exact this
    recSub := by
      intro r hr
      have := ((hrr r).mp hr).1
      rw [hrec1] at this; exact this
    recNoId := by
      intro r hr e
      obtain ⟨hin, hno⟩ := (hrr r).mp hr
      exact hno r (List.mem_filter.mpr ⟨hin, by simpa using e⟩) rfl
    recKept := by
      intro r hr hne
      refine (hrr r).mpr ⟨by rw [hrec1]; exact hr, ?_⟩
      intro q hq e
      have hq' := (List.mem_filter.mp hq).2
      simp only [decide_eq_true_eq] at hq'
      exact hne (by rw [e]; exact hq') }

/-- the session has a record left, or it is gone -/
def Done (st : State) (s : SessionId) : Prop :=
  (∃ q ∈ st.records, q.session = s) ∨ (∀ x ∈ st.sessions, x.id ≠ s)

theorem removeRecord_done {st : State} {rid : RecordId} {r : Record}
    (h : kget (·.id) st.records rid = some r) : Done (removeRecord st rid) r.session := by
  simp only [removeRecord, h, removeSession]
  split
  · rename_i hc
    simp only [Bool.or_eq_true, Bool.not_eq_true'] at hc
    rcases hc with hc | hc
    · right
      intro x hx e
      exact (khas_false_iff.mp hc) x hx e
    · left
      simp only [sessionHasRecords, List.any_eq_true, decide_eq_true_eq] at hc
      obtain ⟨q, hq, _, hqs⟩ := hc
      exact ⟨q, hq, hqs⟩
  · right
    intro x hx
    exact (mem_kdel.mp hx).2

theorem removeRecords_cons (st : State) (a : Record) (t : List Record) :
    removeRecords st (a :: t) = removeRecords (removeRecord st a.id) t := rfl

theorem removeRecords_done : ∀ (recs : List Record) (st : State),
    (st.records.map (·.id)).Nodup → (recs.map (·.id)).Nodup → (∀ q ∈ recs, q ∈ st.records) →
    ∀ q ∈ recs, Done (removeRecords st recs) q.session := by
  intro recs
  induction recs with
  | nil => intro _ _ _ _ q hq; cases hq
  | cons a t ih =>
    intro st hn hnr hmem q hq
    have hka : kget (·.id) st.records a.id = some a := kget_of_mem hn (hmem a (List.mem_cons_self ..))
    have hrec1 := removeRecord_records st a.id
    have hn1 : ((removeRecord st a.id).records.map (·.id)).Nodup := by
      rw [hrec1]; exact nodup_kdel _ hn
    simp only [List.map_cons, List.nodup_cons, List.mem_map, not_exists, not_and] at hnr
    have hmem1 : ∀ p ∈ t, p ∈ (removeRecord st a.id).records := by
      intro p hp
      rw [hrec1]
      exact mem_kdel.mpr ⟨hmem p (List.mem_cons_of_mem _ hp), hnr.1 p hp⟩
    rw [removeRecords_cons]
    rcases List.mem_cons.mp hq with rfl | hqt
    · rcases removeRecord_done hka with ⟨q', hq', hs⟩ | hgone
      · by_cases hfin : q' ∈ (removeRecords (removeRecord st q.id) t).records
        · exact Or.inl ⟨q', hfin, hs⟩
        · have hnot := (removeRecords_records (removeRecord st q.id) t q').not.mp hfin
          simp only [not_and, not_forall, Decidable.not_not] at hnot
          obtain ⟨p, hp, hpe⟩ := hnot hq'
          have : q' = p := kget_unique (key := fun r : Record => r.id) hn1 hq' (hmem1 p hp) hpe
          subst this
          have := ih _ hn1 hnr.2 hmem1 q' hp
          rw [hs] at this
          exact this
      · right
        intro x hx
        exact hgone x ((removeRecords_same _ t).sessSub x hx)
    · exact ih _ hn1 hnr.2 hmem1 q hqt

/-- after the record walk of `RemoveScope st id`, a session that held a record of that scope is gone -/
theorem afterWalk_session_gone {st : State} (h : Inv B st) (id : UUID) (r : Record) (hr : r ∈ st.records)
    (hrs : r.id.scope = id) (x : Session) (hx : x ∈ (afterWalk B st id).sessions) (e : x.id = r.session) :
    False := by
  have w := afterWalk_spec h id
  obtain ⟨h1, _⟩ := setScopeValueOwner_empty_inv h id
  obtain ⟨_, _, hrec1⟩ := setScopeValueOwner_empty_same st id
  have hmemr : r ∈ (setScopeValueOwner B st id "").records.filter (fun r => r.id.scope = id) :=
    List.mem_filter.mpr ⟨by rw [hrec1]; exact hr, by simpa using hrs⟩
  have hd := removeRecords_done _ (setScopeValueOwner B st id "") h1.keys.2.2.1
    (nodup_filter (key := fun r : Record => r.id) _ h1.keys.2.2.1)
    (fun q hq => (List.mem_filter.mp hq).1) r hmemr
  rcases hd with ⟨q, hq, hqs⟩ | hgone
  · have : q.id.scope = id := by
      rw [← w.inv.recInScope q hq, hqs, h.recInScope r hr]; exact hrs
    exact w.recNoId q hq this
  · exact hgone x hx e

/-- HISTORICAL `RemoveScope` (before ab8bb51a7; also the first part of the current one):
`DeleteScope` preserves `Inv`, and nothing about the scope is left except, possibly, sessions. -/
theorem deleteScopePreFix_spec {st : State} (h : Inv B st) (id : UUID) (sc : Scope)
    (hsc : kget (·.id) st.scopes id = some sc) :
    Inv B (removeNetAssetValues (removeScopePreFix B st id) id) ∧
    ScopeGoneExceptSessions (removeNetAssetValues (removeScopePreFix B st id) id) id ∧
    (removeNetAssetValues (removeScopePreFix B st id) id).sessions = (afterWalk B st id).sessions ∧
    (removeNetAssetValues (removeScopePreFix B st id) id).records = (afterWalk B st id).records ∧
    (removeNetAssetValues (removeScopePreFix B st id) id).scopes = kdel (·.id) id st.scopes := by
  have w := afterWalk_spec h id
  rw [removeScopePreFix_eq hsc]
  have hscw : kget (·.id) (afterWalk B st id).scopes id = some sc := by rw [w.scopes]; exact hsc
  have hA : AddrScopeExact B (removeNetAssetValues
      { indexScope B (afterWalk B st id) none (some sc) with scopes := kdel (·.id) id (afterWalk B st id).scopes } id) := by
    have := idxExact_kdel (key := fun s : Scope => s.id) (vals := Scope.accts B) w.inv.keys.1 w.inv.addrScope id sc hscw
      (scopeIndexAddrs B sc) (mem_scopeIndexAddrs sc)
    have e : sc.id = id := (kget_some hsc).2
    simpa [AddrScopeExact, removeNetAssetValues, indexScope, optAddrs, e] using this
  have hS : SpecScopeExact (removeNetAssetValues
      { indexScope B (afterWalk B st id) none (some sc) with scopes := kdel (·.id) id (afterWalk B st id).scopes } id) := by
    have := idxExact_kdel (key := fun s : Scope => s.id) (vals := fun s : Scope => [s.spec]) w.inv.keys.1
      w.inv.specScope id sc hscw [sc.spec] (by intro b; simp)
    have e : sc.id = id := (kget_some hsc).2
    simpa [SpecScopeExact, removeNetAssetValues, indexScope, optSpec, e] using this
  have hscope : ∀ k, k ≠ id → (∃ s ∈ st.scopes, s.id = k) →
      ∃ s ∈ kdel (·.id) id (afterWalk B st id).scopes, s.id = k := by
    intro k hk hex
    rw [w.scopes]
    exact exists_key_kdel.mpr ⟨hk, hex⟩
  refine ⟨?_, ?_, rfl, rfl, by simp only [removeNetAssetValues]; rw [w.scopes]⟩
  · exact
    { keys := by
        obtain ⟨h1, h2, h3, h4, h5, h6, h7⟩ := w.inv.keys
        exact ⟨nodup_kdel id h1, h2, h3, h4, h5, h6, h7⟩
      recSession := w.inv.recSession
      recScope := by
        intro r hr
        exact hscope _ (w.recNoId r hr) (h.recScope r (w.recSub r hr))
      recInScope := w.inv.recInScope
      addrScope := hA
      specScope := hS
      ownerScopeSpec := w.inv.ownerScopeSpec
      cspecScopeSpec := w.inv.cspecScopeSpec
      ownerCSpec := w.inv.ownerCSpec
      voScope := by
        intro p hp
        exact hscope _ (w.voNoId p hp) (h.voScope p (w.voSub p hp))
      navScope := by
        intro p hp
        have hp' : p ∈ (afterWalk B st id).navs ∧ p.1 ≠ id := by
          simpa [removeNetAssetValues, indexScope] using hp
        rw [w.navs] at hp'
        exact hscope _ hp'.2 (h.navScope p hp'.1) }
  · refine ⟨?_, ?_, ?_, ?_, ?_, ?_⟩
    · intro s hs
      exact (mem_kdel.mp hs).2
    · exact w.recNoId
    · exact idx_no_entry_after_del (key := fun s : Scope => s.id) (vals := Scope.accts B) hA
    · exact idx_no_entry_after_del (key := fun s : Scope => s.id) (vals := fun s : Scope => [s.spec]) hS
    · exact w.voNoId
    · intro p hp
      have hp' : p ∈ (afterWalk B st id).navs ∧ p.1 ≠ id := by
        simpa [removeNetAssetValues, indexScope] using hp
      exact hp'.2

/-! ### specifications -/

theorem optOwnersP_kget {st : State} {id : UUID} (b : Addr) :
    b ∈ (optOwnersP (kget (·.id) st.scopeSpecs id)).map B ↔
      ∃ o, kget (·.id) st.scopeSpecs id = some o ∧ b ∈ o.owners.map B := by
  cases kget (·.id) st.scopeSpecs id <;> simp [optOwnersP]

theorem optCSpecs_kget {st : State} {id : UUID} (b : UUID) :
    b ∈ optCSpecs (kget (·.id) st.scopeSpecs id) ↔
      ∃ o, kget (·.id) st.scopeSpecs id = some o ∧ b ∈ o.cspecs := by
  cases kget (·.id) st.scopeSpecs id <;> simp [optCSpecs]

theorem optOwnersC_kget {st : State} {id : UUID} (b : Addr) :
    b ∈ (optOwnersC (kget (·.id) st.contractSpecs id)).map B ↔
      ∃ o, kget (·.id) st.contractSpecs id = some o ∧ b ∈ o.owners.map B := by
  cases kget (·.id) st.contractSpecs id <;> simp [optOwnersC]

theorem setScopeSpecification_inv {st : State} (h : Inv B st) (sp : ScopeSpec) :
    Inv B (setScopeSpecification B st sp) where
  keys := by
    obtain ⟨h1, h2, h3, h4, h5, h6, h7⟩ := h.keys
    exact ⟨h1, h2, h3, nodup_kput sp h4, h5, h6, h7⟩
  recSession := h.recSession
  recScope := h.recScope
  recInScope := h.recInScope
  addrScope := h.addrScope
  specScope := h.specScope
  ownerScopeSpec := by
    have := idxExact_kput (key := fun s : ScopeSpec => s.id) (vals := fun s : ScopeSpec => s.owners.map B)
      h.keys.2.2.2.1 h.ownerScopeSpec sp (sp.owners.map B) ((optOwnersP (kget (·.id) st.scopeSpecs sp.id)).map B)
      (fun _ => Iff.rfl) (fun b => optOwnersP_kget b)
    exact this
  cspecScopeSpec := by
    have := idxExact_kput (key := fun s : ScopeSpec => s.id) (vals := fun s : ScopeSpec => s.cspecs)
      h.keys.2.2.2.1 h.cspecScopeSpec sp sp.cspecs (optCSpecs (kget (·.id) st.scopeSpecs sp.id))
      (fun _ => Iff.rfl) (fun b => optCSpecs_kget b)
    exact this
  ownerCSpec := h.ownerCSpec
  voScope := h.voScope
  navScope := h.navScope

theorem removeScopeSpecification_inv {st st' : State} (h : Inv B st) (id : UUID)
    (hr : removeScopeSpecification B st id = .ok st') : Inv B st' := by
  unfold removeScopeSpecification at hr
  split at hr
  · cases hr
  · split at hr
    · cases hr
    · rename_i sp hsp
      cases hr
      have e : sp.id = id := (kget_some hsp).2
      exact
      { keys := by
          obtain ⟨h1, h2, h3, h4, h5, h6, h7⟩ := h.keys
          exact ⟨h1, h2, h3, nodup_kdel id h4, h5, h6, h7⟩
        recSession := h.recSession
        recScope := h.recScope
        recInScope := h.recInScope
        addrScope := h.addrScope
        specScope := h.specScope
        ownerScopeSpec := by
          have := idxExact_kdel (key := fun s : ScopeSpec => s.id) (vals := fun s : ScopeSpec => s.owners.map B)
            h.keys.2.2.2.1 h.ownerScopeSpec id sp hsp (sp.owners.map B) (fun _ => Iff.rfl)
          simpa [OwnerScopeSpecExact, indexScopeSpecification, optOwnersP, e] using this
        cspecScopeSpec := by
          have := idxExact_kdel (key := fun s : ScopeSpec => s.id) (vals := fun s : ScopeSpec => s.cspecs)
            h.keys.2.2.2.1 h.cspecScopeSpec id sp hsp sp.cspecs (fun _ => Iff.rfl)
          simpa [CSpecScopeSpecExact, indexScopeSpecification, optCSpecs, e] using this
        ownerCSpec := h.ownerCSpec
        voScope := h.voScope
        navScope := h.navScope }

theorem setContractSpecification_inv {st : State} (h : Inv B st) (sp : ContractSpec) :
    Inv B (setContractSpecification B st sp) where
  keys := by
    obtain ⟨h1, h2, h3, h4, h5, h6, h7⟩ := h.keys
    exact ⟨h1, h2, h3, h4, nodup_kput sp h5, h6, h7⟩
  recSession := h.recSession
  recScope := h.recScope
  recInScope := h.recInScope
  addrScope := h.addrScope
  specScope := h.specScope
  ownerScopeSpec := h.ownerScopeSpec
  cspecScopeSpec := h.cspecScopeSpec
  ownerCSpec := by
    have := idxExact_kput (key := fun s : ContractSpec => s.id) (vals := fun s : ContractSpec => s.owners.map B)
      h.keys.2.2.2.2.1 h.ownerCSpec sp (sp.owners.map B) ((optOwnersC (kget (·.id) st.contractSpecs sp.id)).map B)
      (fun _ => Iff.rfl) (fun b => optOwnersC_kget b)
    exact this
  voScope := h.voScope
  navScope := h.navScope

theorem removeContractSpecification_inv {st st' : State} (h : Inv B st) (id : UUID)
    (hr : removeContractSpecification B st id = .ok st') : Inv B st' := by
  unfold removeContractSpecification at hr
  split at hr
  · cases hr
  · split at hr
    · cases hr
    · rename_i sp hsp
      cases hr
      have e : sp.id = id := (kget_some hsp).2
      exact
      { keys := by
          obtain ⟨h1, h2, h3, h4, h5, h6, h7⟩ := h.keys
          exact ⟨h1, h2, h3, h4, nodup_kdel id h5, h6, h7⟩
        recSession := h.recSession
        recScope := h.recScope
        recInScope := h.recInScope
        addrScope := h.addrScope
        specScope := h.specScope
        ownerScopeSpec := h.ownerScopeSpec
        cspecScopeSpec := h.cspecScopeSpec
        ownerCSpec := by
          have := idxExact_kdel (key := fun s : ContractSpec => s.id) (vals := fun s : ContractSpec => s.owners.map B)
            h.keys.2.2.2.2.1 h.ownerCSpec id sp hsp (sp.owners.map B) (fun _ => Iff.rfl)
          simpa [OwnerCSpecExact, indexContractSpecification, optOwnersC, e] using this
        voScope := h.voScope
        navScope := h.navScope }

/-- any change of the record-specification list that keeps keys unique -/
theorem recordSpecs_inv {st : State} (h : Inv B st) (l : List RecordSpec) (hl : (l.map (·.id)).Nodup) :
    Inv B { st with recordSpecs := l } :=
  { h with
    keys := by
      obtain ⟨h1, h2, h3, h4, h5, _, h7⟩ := h.keys
      exact ⟨h1, h2, h3, h4, h5, hl, h7⟩ }

/-! ### value owners and net asset values -/

theorem setScopeValueOwners_inv {st : State} (h : Inv B st) (ids : List UUID) (a : Addr)
    (hids : ∀ id ∈ ids, ∃ sc ∈ st.scopes, sc.id = id) : Inv B (setScopeValueOwners st ids a) := by
  unfold setScopeValueOwners
  induction ids generalizing st with
  | nil => exact h
  | cons id t ih =>
    simp only [List.foldl_cons]
    apply ih
    · exact
      { h with
        keys := by
          obtain ⟨h1, h2, h3, h4, h5, h6, h7⟩ := h.keys
          exact ⟨h1, h2, h3, h4, h5, h6, nodup_kput (key := fun p : UUID × Addr => p.1) (id, a) h7⟩
        voScope := by
          intro p hp
          rcases mem_kput.mp hp with rfl | ⟨hp', _⟩
          · exact hids id (List.mem_cons_self ..)
          · exact h.voScope p hp' }
    · intro i hi
      exact hids i (List.mem_cons_of_mem _ hi)

theorem setScopeValueOwners_frame (st : State) (ids : List UUID) (a : Addr) :
    (setScopeValueOwners st ids a).sessions = st.sessions ∧ (setScopeValueOwners st ids a).scopes = st.scopes := by
  unfold setScopeValueOwners
  induction ids generalizing st with
  | nil => exact ⟨rfl, rfl⟩
  | cons id t ih =>
    simp only [List.foldl_cons]
    obtain ⟨h1, h2⟩ := ih { st with valueOwners := kput (·.1) (id, a) st.valueOwners }
    exact ⟨h1, h2⟩

theorem setNetAssetValue_inv {st : State} (h : Inv B st) (id : UUID) (d : String)
    (hid : ∃ sc ∈ st.scopes, sc.id = id) : Inv B (setNetAssetValue st id d) :=
  { h with
    navScope := by
      intro p hp
      rcases mem_iset.mp hp with rfl | hp'
      · exact hid
      · exact h.navScope p hp' }

end PvProofs.MdLemmas
