/-
Helper lemmas for C06: the invariant `Inv` of the whole model state and its preservation by
every gov / sanction / bank operation of a history.
-/
import PvProofs.Lemmas.SancInv

namespace PvProofs.Sanc
open PvModel PvModel.Sanc PvModel.Sanc.Spec

/-- every coin of a (merged) deposit record is non-negative -/
def EntriesNonneg (cs : Coins) : Prop := ∀ c ∈ cs, 0 ≤ c.2

theorem entriesNonneg_of_allPos {cs : Coins} (h : allPos cs = true) : EntriesNonneg cs := by
  intro c hc
  simp only [allPos, List.all_eq_true, decide_eq_true_eq] at h
  exact Int.le_of_lt (h c hc)

theorem addCoin_nonneg {d : Denom} {x : Int} (hx : 0 ≤ x) {cs : Coins} (h : EntriesNonneg cs) :
    EntriesNonneg (addCoin d x cs) := by
  induction cs with
  | nil => intro c hc; simp [addCoin] at hc; subst hc; exact hx
  | cons y rest ih =>
    obtain ⟨d', v⟩ := y
    have hv : 0 ≤ v := h (d', v) List.mem_cons_self
    have hr : EntriesNonneg rest := fun c hc => h c (List.mem_cons_of_mem _ hc)
    intro c hc
    simp only [addCoin] at hc
    split_ifs at hc
    · rcases List.mem_cons.1 hc with rfl | hc
      · show 0 ≤ v + x; omega
      · exact hr c hc
    · rcases List.mem_cons.1 hc with rfl | hc
      · exact hv
      · exact ih hr c hc

theorem mergeCoins_nonneg {b : Coins} (hb : EntriesNonneg b) {a : Coins} (ha : EntriesNonneg a) :
    EntriesNonneg (mergeCoins a b) := by
  induction b generalizing a with
  | nil => exact ha
  | cons y rest ih =>
    obtain ⟨d, x⟩ := y
    simp only [mergeCoins]
    exact ih (fun c hc => hb c (List.mem_cons_of_mem _ hc)) (addCoin_nonneg (hb (d, x) List.mem_cons_self) ha)

/-- What every reachable state satisfies. -/
structure Inv (s : State) : Prop where
  store : StoreOK s.cfg s.st
  idsLt : ∀ p ∈ s.props, p.id < s.nextId
  idsNodup : (s.props.map (·.id)).Nodup
  msgsOk : ∀ p ∈ s.props, ∀ m ∈ p.msgs, ∀ a ∈ m.addrs, a ≠ ""
  live : ∀ e ∈ s.st.temp, LiveIn s.props s.cancelled e
  cancelledOk : ∀ id ∈ s.cancelled, id < s.nextId ∧ ∀ p ∈ s.props, p.id ≠ id
  depositsNonneg : ∀ p ∈ s.props, ∀ x ∈ p.deposits, EntriesNonneg x.2

theorem inv_init (c : Cfg) : Inv (init c) where
  store := storeOK_init c
  idsLt := by intro p hp; cases hp
  idsNodup := by simp [init]
  msgsOk := by intro p hp; cases hp
  live := by intro e he; cases he
  cancelledOk := by intro id hid; cases hid
  depositsNonneg := by intro p hp; cases hp

theorem inv_ledger {s : State} (l : Ledger) (h : Inv s) : Inv { s with ledger := l } :=
  ⟨h.1, h.2, h.3, h.4, h.5, h.6, h.7⟩

/-! ### ledger-only functions -/

theorem sendCoins_ok {s s' : State} {f t : Addr} {amt : Coins} (h : sendCoins s f t amt = .ok s') :
    s' = { s with ledger := s.ledger.move f t amt } ∧ isSanctionedAddr s.cfg s.st f = false := by
  unfold sendCoins at h
  split_ifs at h with h1 h2
  simp only [Except.ok.injEq] at h
  exact ⟨h.symm, by simpa using h2⟩

theorem refundAll_ok {ds : List (Addr × Coins)} {s s' : State} (h : refundAll s ds = .ok s') :
    ∃ l, s' = { s with ledger := l } := by
  induction ds generalizing s with
  | nil => simp only [refundAll, Except.ok.injEq] at h; exact ⟨s.ledger, h.symm⟩
  | cons x rest ih =>
    obtain ⟨d, a⟩ := x
    simp only [refundAll] at h
    cases hs : sendCoins s s.cfg.govAcct d a with
    | error e => simp [hs] at h
    | ok s1 =>
      simp only [hs] at h
      obtain ⟨l, hl⟩ := ih h
      obtain ⟨h1, _⟩ := sendCoins_ok hs
      exact ⟨l, by rw [hl, h1]⟩

theorem chargeDeposits_ok {ds : List (Addr × Coins)} {s s' : State} {ch ch' : Coins}
    (h : chargeDeposits s ch ds = .ok (s', ch')) : ∃ l, s' = { s with ledger := l } := by
  induction ds generalizing s ch with
  | nil =>
    simp only [chargeDeposits, Except.ok.injEq, Prod.mk.injEq] at h
    exact ⟨s.ledger, h.1.symm⟩
  | cons x rest ih =>
    obtain ⟨d, a⟩ := x
    simp only [chargeDeposits] at h
    split_ifs at h with h0
    · exact ih h
    · cases hs : sendCoins s s.cfg.govAcct d (remainingPart s.cfg a) with
      | error e => simp [hs] at h
      | ok s1 =>
        simp only [hs] at h
        obtain ⟨l, hl⟩ := ih h
        obtain ⟨h1, _⟩ := sendCoins_ok hs
        exact ⟨l, by rw [hl, h1]⟩

theorem settle_ok {s s' : State} {burn : Bool} {ds : List (Addr × Coins)} (h : settle s burn ds = .ok s') :
    ∃ l, s' = { s with ledger := l } := by
  unfold settle at h
  split_ifs at h
  · simp only [Except.ok.injEq] at h
    exact ⟨_, h.symm⟩
  · exact refundAll_ok h

/-! ### proposals after a deposit / after the tally -/

theorem addDep_nonneg {ds : List (Addr × Coins)} {who : Addr} {a : Coins} (ha : EntriesNonneg a)
    (h : ∀ x ∈ ds, EntriesNonneg x.2) : ∀ x ∈ addDep ds who a, EntriesNonneg x.2 := by
  induction ds with
  | nil =>
    intro x hx
    simp [addDep] at hx
    subst hx
    exact mergeCoins_nonneg ha (fun c hc => by cases hc)
  | cons y rest ih =>
    obtain ⟨w, v⟩ := y
    intro x hx
    simp only [addDep] at hx
    have hv : EntriesNonneg v := h (w, v) List.mem_cons_self
    split_ifs at hx
    · rcases List.mem_cons.1 hx with rfl | hx
      · exact mergeCoins_nonneg ha hv
      · exact h x (List.mem_cons_of_mem _ hx)
    · rcases List.mem_cons.1 hx with rfl | hx
      · exact hv
      · exact ih (fun z hz => h z (List.mem_cons_of_mem _ hz)) x hx

theorem depositedProp_spec (c : Cfg) (now : Nat) (p : Proposal) (who : Addr) (a : Coins) :
    (depositedProp c now p who a).id = p.id ∧ (depositedProp c now p who a).msgs = p.msgs ∧
      (p.active = true → (depositedProp c now p who a).active = true) ∧
      (depositedProp c now p who a).deposits = addDep p.deposits who a := by
  unfold depositedProp
  simp only
  split_ifs with h
  · refine ⟨rfl, rfl, fun _ => rfl, rfl⟩
  · exact ⟨rfl, rfl, fun h => h, rfl⟩

theorem allAddrs_of_msgs {p q : Proposal} (h : q.msgs = p.msgs) : q.allAddrs = p.allAddrs := by
  unfold Proposal.allAddrs; rw [h]

/-- the three shapes of the outcome of a tally -/
theorem tallyOutcome_spec {c : Cfg} {st : Store} (p : Proposal) (passes : Bool) (h : StoreOK c st) :
    let o := tallyOutcome c st p passes
    o.1.id = p.id ∧ o.1.msgs = p.msgs ∧ (∀ x ∈ o.1.deposits, x ∈ p.deposits) ∧ StoreOK c o.2 ∧
      ((o.1.status = .passed ∧ ∀ e ∈ o.2.temp, e ∈ st.temp ∧ ¬(e.addr ≠ "" ∧ e.addr ∈ p.allAddrs)) ∨
       ((o.1.status = .failed ∨ o.1.status = .rejected) ∧ o.2 = st) ∨
       (o.1.status = p.status ∧ o.2 = st)) := by
  cases passes with
  | true =>
    cases he : execMsgs c st p.msgs with
    | ok st' =>
      obtain ⟨k1, k2⟩ := execMsgs_ok h he
      simp only [tallyOutcome, he]
      refine ⟨rfl, rfl, ?_, k1, Or.inl ⟨rfl, k2⟩⟩
      intro x hx; simp at hx
    | error e =>
      simp only [tallyOutcome, he]
      refine ⟨rfl, rfl, ?_, h, Or.inr (Or.inl ⟨Or.inl rfl, rfl⟩)⟩
      intro x hx; simp at hx
  | false =>
    cases hexp : p.expedited with
    | true =>
      simp only [tallyOutcome, hexp]
      refine ⟨rfl, rfl, ?_, h, Or.inr (Or.inr ⟨rfl, rfl⟩)⟩
      intro x hx; simpa using hx
    | false =>
      simp only [tallyOutcome, hexp]
      refine ⟨rfl, rfl, ?_, h, Or.inr (Or.inl ⟨Or.inr rfl, rfl⟩)⟩
      intro x hx; simp at hx

/-! ### gov functions keep the invariant -/

theorem addDeposit_inv {s s' : State} {id : Nat} {who : Addr} {amt : Coins} (h : Inv s)
    (hpos : allPos amt = true) (hs : addDeposit s id who amt = .ok s') : Inv s' ∧ s'.cfg = s.cfg ∧ s'.cancelled = s.cancelled := by
  unfold addDeposit at hs
  cases hg : getProp s.props id with
  | none => simp [hg] at hs
  | some p =>
    simp only [hg] at hs
    split_ifs at hs with h1 h2 h3
    cases hsend : sendCoins s who s.cfg.govAcct amt with
    | error e => simp [hsend] at hs
    | ok s1 =>
      simp only [hsend] at hs
      obtain ⟨hs1, _⟩ := sendCoins_ok hsend
      subst hs1
      simp only at hs
      obtain ⟨hp, hpid⟩ := getProp_some hg
      have hact : p.active = true := by simpa using h1
      obtain ⟨d1, d2, d3, d4⟩ := depositedProp_spec s.cfg s.now p who amt
      generalize depositedProp s.cfg s.now p who amt = p2 at hs d1 d2 d3 d4
      cases hh : proposalGovHook s.cfg s.st (some p2) id with
      | error e => simp [hh] at hs
      | ok st =>
        simp only [hh, Except.ok.injEq] at hs
        subst hs
        have hmsgs : ∀ m ∈ p2.msgs, ∀ a ∈ m.addrs, a ≠ "" := d2 ▸ h.msgsOk p hp
        obtain ⟨k1, _, k3, _⟩ := hook_ok h.store (fun q hq => by cases hq; exact hmsgs) hh
        refine ⟨⟨k1, ?_, ?_, ?_, ?_, ?_, ?_⟩, rfl, rfl⟩
        · intro q hq
          rcases mem_setProp hq with rfl | ⟨hq, _⟩
          · rw [d1]; exact h.idsLt p hp
          · exact h.idsLt q hq
        · show ((setProp s.props p2).map (·.id)).Nodup
          rw [map_id_setProp]; exact h.idsNodup
        · intro q hq
          rcases mem_setProp hq with rfl | ⟨hq, _⟩
          · exact hmsgs
          · exact h.msgsOk q hq
        · intro e he
          rcases k3 e he with he | ⟨hid, q, hq, hqa, hqm⟩
          · exact live_setProp_same (h.live e he) h.idsNodup hp d1 (allAddrs_of_msgs d2) d3
          · have hq' : p2 = q := Option.some.inj hq
            subst hq'
            exact live_new hp d1 hqa (by omega) hqm
        · intro i hi
          refine ⟨(h.cancelledOk i hi).1, ?_⟩
          intro q hq
          rcases mem_setProp hq with rfl | ⟨hq, _⟩
          · rw [d1]; exact (h.cancelledOk i hi).2 p hp
          · exact (h.cancelledOk i hi).2 q hq
        · intro q hq
          rcases mem_setProp hq with rfl | ⟨hq, _⟩
          · rw [d4]; exact addDep_nonneg (entriesNonneg_of_allPos hpos) (h.depositsNonneg p hp)
          · exact h.depositsNonneg q hq

theorem validateMsgs_ok {msgs : List PMsg} (h : validateMsgs msgs = .ok ()) :
    ∀ m ∈ msgs, (∀ a ∈ m.addrs, a ≠ "") ∧ m.authOk = true := by
  induction msgs with
  | nil => intro m hm; cases hm
  | cons x rest ih =>
    simp only [validateMsgs] at h
    split_ifs at h with h1 h2
    intro m hm
    rcases List.mem_cons.1 hm with rfl | hm
    · refine ⟨?_, by simpa using h2⟩
      intro a ha hempty
      exact h1 (List.any_eq_true.2 ⟨a, ha, by simpa using hempty⟩)
    · exact ih h m hm

theorem submitProposal_inv {s s' : State} {who : Addr} {msgs : List PMsg} {initial : Coins} {exp : Bool}
    (h : Inv s) (hs : submitProposal s who msgs initial exp = .ok s') :
    Inv s' ∧ s'.cfg = s.cfg ∧ s'.cancelled = s.cancelled := by
  unfold submitProposal at hs
  split_ifs at hs with h1 h2 h3
  cases hv : validateMsgs msgs with
  | error e => simp [hv] at hs
  | ok u =>
    cases u
    simp only [hv] at hs
    have hid : (newProposal s who msgs exp).id = s.nextId := rfl
    have hm : (newProposal s who msgs exp).msgs = msgs := rfl
    have hact : (newProposal s who msgs exp).active = true := rfl
    have hdep : (newProposal s who msgs exp).deposits = [] := rfl
    generalize newProposal s who msgs exp = p0 at hs hid hm hact hdep
    cases hh : proposalGovHook s.cfg s.st (some p0) s.nextId with
    | error e => simp [hh] at hs
    | ok st =>
      simp only [hh] at hs
      have hmsgs : ∀ m ∈ p0.msgs, ∀ a ∈ m.addrs, a ≠ "" := fun m hmm => (validateMsgs_ok hv m (hm ▸ hmm)).1
      obtain ⟨k1, _, k3, _⟩ := hook_ok h.store (fun q hq => by cases hq; exact hmsgs) hh
      have hmid : Inv { s with props := s.props ++ [p0], nextId := s.nextId + 1, st := st } := by
        refine ⟨k1, ?_, ?_, ?_, ?_, ?_, ?_⟩
        · intro q hq
          rcases List.mem_append.1 hq with hq | hq
          · exact Nat.lt_succ_of_lt (h.idsLt q hq)
          · simp only [List.mem_singleton] at hq; rw [hq]; show p0.id < s.nextId + 1; omega
        · show ((s.props ++ [p0]).map (·.id)).Nodup
          rw [List.map_append, List.nodup_append]
          refine ⟨h.idsNodup, by simp, ?_⟩
          intro a ha b hb
          simp only [List.map_cons, List.map_nil, List.mem_singleton] at hb
          obtain ⟨q, hq, rfl⟩ := List.mem_map.1 ha
          have := h.idsLt q hq
          omega
        · intro q hq
          rcases List.mem_append.1 hq with hq | hq
          · exact h.msgsOk q hq
          · simp only [List.mem_singleton] at hq; rw [hq]; exact hmsgs
        · intro e he
          rcases k3 e he with he | ⟨hid', q, hq, hqa, hqm⟩
          · exact live_append p0 (h.live e he)
          · have hq' : p0 = q := Option.some.inj hq
            subst hq'
            exact Or.inl ⟨p0, List.mem_append_right _ (List.mem_singleton.2 rfl), by omega, hqa, hqm⟩
        · intro i hi
          refine ⟨Nat.lt_succ_of_lt (h.cancelledOk i hi).1, ?_⟩
          intro q hq
          rcases List.mem_append.1 hq with hq | hq
          · exact (h.cancelledOk i hi).2 q hq
          · simp only [List.mem_singleton] at hq; rw [hq]
            have := (h.cancelledOk i hi).1
            omega
        · intro q hq
          rcases List.mem_append.1 hq with hq | hq
          · exact h.depositsNonneg q hq
          · simp only [List.mem_singleton] at hq; rw [hq, hdep]; intro x hx; cases hx
      have hpos : allPos initial = true := by
        have : coinsValid initial = true := by simpa using h1
        simp only [coinsValid, Bool.and_eq_true] at this
        exact this.1
      have := addDeposit_inv hmid hpos hs
      exact this

theorem addVote_inv {s s' : State} {id : Nat} {v : Vote} (h : Inv s) (hs : addVote s id v = .ok s') :
    Inv s' ∧ s'.cfg = s.cfg ∧ s'.cancelled = s.cancelled := by
  unfold addVote at hs
  cases hg : getProp s.props id with
  | none => simp [hg] at hs
  | some p =>
    simp only [hg] at hs
    split_ifs at hs with h1
    simp only [Except.ok.injEq] at hs
    subst hs
    obtain ⟨hp, _⟩ := getProp_some hg
    refine ⟨⟨h.store, ?_, ?_, ?_, ?_, ?_, ?_⟩, rfl, rfl⟩
    · intro q hq
      rcases mem_setProp hq with rfl | ⟨hq, _⟩
      · exact h.idsLt p hp
      · exact h.idsLt q hq
    · show ((setProp s.props _).map (·.id)).Nodup
      rw [map_id_setProp]; exact h.idsNodup
    · intro q hq
      rcases mem_setProp hq with rfl | ⟨hq, _⟩
      · exact h.msgsOk p hp
      · exact h.msgsOk q hq
    · intro e he
      exact live_setProp_same (h.live e he) h.idsNodup hp rfl rfl (fun x => x)
    · intro i hi
      refine ⟨(h.cancelledOk i hi).1, ?_⟩
      intro q hq
      rcases mem_setProp hq with rfl | ⟨hq, _⟩
      · exact (h.cancelledOk i hi).2 p hp
      · exact (h.cancelledOk i hi).2 q hq
    · intro q hq
      rcases mem_setProp hq with rfl | ⟨hq, _⟩
      · exact h.depositsNonneg p hp
      · exact h.depositsNonneg q hq

/-- `CancelProposal` never touches the sanction store. -/
theorem cancelProposal_ok {s s' : State} {who : Addr} {id : Nat} (hs : cancelProposal s who id = .ok s') :
    ∃ p l, getProp s.props id = some p ∧ p.active = true ∧
      s' = { s with ledger := l, props := delProp s.props id, cancelled := id :: s.cancelled } := by
  unfold cancelProposal at hs
  cases hg : getProp s.props id with
  | none => simp [hg] at hs
  | some p =>
    simp only [hg] at hs
    split_ifs at hs with h1 h2 h3
    cases hc : chargeDeposits s [] p.deposits with
    | error e => simp [hc] at hs
    | ok r =>
      obtain ⟨s1, ch⟩ := r
      simp only [hc, Except.ok.injEq] at hs
      obtain ⟨l, hl⟩ := chargeDeposits_ok hc
      subst hl
      refine ⟨p, ?_, rfl, by simpa using h2, ?_⟩
      · exact (if Coins.isZero ch then ({ s with ledger := l } : State) else burnFromGov { s with ledger := l } ch).ledger
      · rw [← hs]
        split_ifs <;> rfl

theorem cancelProposal_inv {s s' : State} {who : Addr} {id : Nat} (h : Inv s)
    (hs : cancelProposal s who id = .ok s') : Inv s' ∧ s'.cfg = s.cfg := by
  obtain ⟨p, l, hg, _, rfl⟩ := cancelProposal_ok hs
  obtain ⟨hp, hpid⟩ := getProp_some hg
  refine ⟨⟨h.store, ?_, nodup_delProp h.idsNodup id, ?_, ?_, ?_, ?_⟩, rfl⟩
  · intro q hq; exact h.idsLt q (mem_delProp.1 hq).1
  · intro q hq; exact h.msgsOk q (mem_delProp.1 hq).1
  · intro e he; exact live_delProp_cancel (h.live e he)
  · intro i hi
    rcases List.mem_cons.1 hi with rfl | hi
    · exact ⟨hpid ▸ h.idsLt p hp, fun q hq => (mem_delProp.1 hq).2⟩
    · exact ⟨(h.cancelledOk i hi).1, fun q hq => (h.cancelledOk i hi).2 q (mem_delProp.1 hq).1⟩
  · intro q hq; exact h.depositsNonneg q (mem_delProp.1 hq).1

theorem expireOne_inv {s s' : State} {id : Nat} (h : Inv s) (hs : expireOne s id = .ok s') :
    Inv s' ∧ s'.cfg = s.cfg ∧ s'.cancelled = s.cancelled := by
  unfold expireOne at hs
  cases hg : getProp s.props id with
  | none => simp only [hg, Except.ok.injEq] at hs; subst hs; exact ⟨h, rfl, rfl⟩
  | some p =>
    simp only [hg] at hs
    cases hse : settle { s with props := delProp s.props id } s.cfg.burnPrevote p.deposits with
    | error e => simp [hse] at hs
    | ok s2 =>
      simp only [hse] at hs
      obtain ⟨l, rfl⟩ := settle_ok hse
      simp only [getProp_delProp] at hs
      have hh : proposalGovHook s.cfg s.st none id = .ok (deleteGovPropTempEntries s.st id) := rfl
      simp only [hh, Except.ok.injEq] at hs
      subst hs
      refine ⟨⟨storeOK_deleteGovProp h.store id, ?_, nodup_delProp h.idsNodup id, ?_, ?_, ?_, ?_⟩, rfl, rfl⟩
      · intro q hq; exact h.idsLt q (mem_delProp.1 hq).1
      · intro q hq; exact h.msgsOk q (mem_delProp.1 hq).1
      · intro e he
        obtain ⟨he0, hne⟩ := (mem_deleteGovProp h.store.mirror).1 he
        exact live_delProp (h.live e he0) hne
      · intro i hi
        exact ⟨(h.cancelledOk i hi).1, fun q hq => (h.cancelledOk i hi).2 q (mem_delProp.1 hq).1⟩
      · intro q hq; exact h.depositsNonneg q (mem_delProp.1 hq).1

theorem active_of_status {p q : Proposal} (h : q.status = p.status) : q.active = p.active := by
  unfold Proposal.active; rw [h]

theorem hookMsgs_error {c : Cfg} {total : Coins} {id : Nat} {msgs : List PMsg} {st : Store} {e : Err}
    (h : hookMsgs c total id st msgs = .error e) : e = .panic := by
  induction msgs generalizing st with
  | nil => simp [hookMsgs] at h
  | cons m rest ih =>
    simp only [hookMsgs] at h
    cases hm : hookMsg c total id st m with
    | ok st1 => simp only [hm] at h; exact ih h
    | error e1 =>
      simp only [hm, Except.error.injEq] at h
      subst h
      unfold hookMsg at hm
      cases ha : addTempEntries c m.isSanction id st m.addrs <;> rw [ha] at hm <;>
        split_ifs at hm <;> simp_all

theorem hook_error {c : Cfg} {st : Store} {prop : Option Proposal} {id : Nat} {e : Err}
    (h : proposalGovHook c st prop id = .error e) : e = .panic := by
  unfold proposalGovHook at h
  cases prop with
  | none => simp at h
  | some p =>
    simp only at h
    cases hst : p.status <;> simp only [hst] at h
    case deposit => exact hookMsgs_error h
    case voting => exact hookMsgs_error h
    all_goals simp at h

theorem tallyOne_inv {s s' : State} {id : Nat} (h : Inv s) (hs : tallyOne s id = .ok s') :
    Inv s' ∧ s'.cfg = s.cfg ∧ s'.cancelled = s.cancelled := by
  unfold tallyOne at hs
  cases hg : getProp s.props id with
  | none => simp only [hg, Except.ok.injEq] at hs; subst hs; exact ⟨h, rfl, rfl⟩
  | some p =>
    simp only [hg] at hs
    obtain ⟨hp, hpid⟩ := getProp_some hg
    have hs1 : ∀ s1, settleTally s p = .ok s1 → ∃ l, s1 = { s with ledger := l } := by
      intro s1 h1
      unfold settleTally at h1
      split_ifs at h1
      · simp only [Except.ok.injEq] at h1; exact ⟨s.ledger, h1.symm⟩
      · exact settle_ok h1
    cases hse : settleTally s p with
    | error e => simp [hse] at hs
    | ok s1 =>
      simp only [hse] at hs
      obtain ⟨l, rfl⟩ := hs1 s1 hse
      simp only at hs
      obtain ⟨o1, o2, o3, o4, o5⟩ := tallyOutcome_spec p (tally s.cfg p.vote).1 h.store
      generalize tallyOutcome s.cfg s.st p (tally s.cfg p.vote).1 = o at hs o1 o2 o3 o4 o5
      obtain ⟨p2, st2⟩ := o
      simp only at hs o1 o2 o3 o4 o5
      have hmsgs : ∀ m ∈ p2.msgs, ∀ a ∈ m.addrs, a ≠ "" := o2 ▸ h.msgsOk p hp
      have hid2 : p2.id = id := o1.trans hpid
      cases hh : proposalGovHook s.cfg st2 (some p2) id with
      | error e =>
        have := hook_error hh
        subst this
        simp [hh] at hs
      | ok st =>
        simp only [hh, Except.ok.injEq] at hs
        subst hs
        obtain ⟨k1, _, k3, k4⟩ := hook_ok o4 (fun q hq => by cases hq; exact hmsgs) hh
        refine ⟨⟨k1, ?_, ?_, ?_, ?_, ?_, ?_⟩, rfl, rfl⟩
        · intro q hq
          rcases mem_setProp hq with rfl | ⟨hq, _⟩
          · rw [o1]; exact h.idsLt p hp
          · exact h.idsLt q hq
        · show ((setProp s.props p2).map (·.id)).Nodup
          rw [map_id_setProp]; exact h.idsNodup
        · intro q hq
          rcases mem_setProp hq with rfl | ⟨hq, _⟩
          · exact hmsgs
          · exact h.msgsOk q hq
        · intro e he
          rcases k3 e he with he2 | ⟨hid, q, hq, hqa, hqm⟩
          · rcases o5 with ⟨hst, hx⟩ | ⟨hst, rfl⟩ | ⟨hst, rfl⟩
            · -- passed: the messages removed every entry of the proposal's addresses
              obtain ⟨he0, hex⟩ := hx e he2
              by_cases hne : e.id = p2.id
              · rcases h.live e he0 with ⟨q, hq, hqid, _, hqm⟩ | hc
                · have : q = p := eq_of_mem_of_id h.idsNodup hq hp (by omega)
                  subst this
                  exact absurd ⟨h.store.nonempty e he0, hqm⟩ hex
                · exact Or.inr hc
              · exact live_setProp_ne (h.live e he0) hne
            · -- failed / rejected: the hook removed every entry of the proposal
              have hne : e.id ≠ p2.id := by
                rw [hid2]
                exact k4 (fun q hq => by cases hq; exact hst.symm) e he
              exact live_setProp_ne (h.live e he2) hne
            · -- still in its voting period (expedited converted to regular)
              exact live_setProp_same (h.live e he2) h.idsNodup hp o1 (allAddrs_of_msgs o2)
                (fun ha => (active_of_status hst).trans ha)
          · have hq' : p2 = q := Option.some.inj hq
            subst hq'
            exact live_new hp o1 hqa (by omega) hqm
        · intro i hi
          refine ⟨(h.cancelledOk i hi).1, ?_⟩
          intro q hq
          rcases mem_setProp hq with rfl | ⟨hq, _⟩
          · rw [o1]; exact (h.cancelledOk i hi).2 p hp
          · exact (h.cancelledOk i hi).2 q hq
        · intro q hq
          rcases mem_setProp hq with rfl | ⟨hq, _⟩
          · intro x hx; exact h.depositsNonneg p hp x (o3 x hx)
          · exact h.depositsNonneg q hq

end PvProofs.Sanc
