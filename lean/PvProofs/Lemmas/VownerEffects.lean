/-
Helper lemmas for C09: the exact effect of each successful message on who holds which token.
-/
import PvProofs.Lemmas.VownerMsgs

namespace PvProofs.VownerL
open PvModel PvModel.Ledger PvModel.Vowner

/-- is `d` among the tokens some listed sender (other than the receiver) sends -/
def movedBy (links : List Link) (to : Addr) (froms : List Addr) (d : ScopeId) : Bool :=
  froms.any fun f => decide (f ≠ to) && (idsOf links f).contains d

theorem sendAll_exact {ag : List Addr} {links : List Link} {to : Addr}
    (hnd : ∀ f, (idsOf links f).Nodup) {froms : List Addr} {s s' : State}
    (h : sendAll ag links to s froms = .ok s') :
    ∀ d o, HolderIs s.ledger d o → HolderIs s'.ledger d (if movedBy links to froms d then some to else o) := by
  induction froms generalizing s with
  | nil => simp [sendAll] at h; subst h; intro d o ho; simpa [movedBy] using ho
  | cons f rest ih =>
    unfold sendAll at h
    intro d o ho
    by_cases hf : f = to
    · rw [if_pos hf] at h
      have := ih h d o ho
      simpa [movedBy, hf] using this
    · rw [if_neg hf] at h
      cases hs : sendCoins s ag f to (idsOf links f) with
      | error e => rw [hs] at h; simp at h
      | ok s1 =>
        rw [hs] at h; simp only at h
        obtain ⟨_, hmid⟩ := sendCoins_holder (hnd f) hs ho
        have := ih h d _ hmid
        by_cases hd : d ∈ idsOf links f
        · simp only [hd, if_true] at this
          have hm : movedBy links to (f :: rest) d = true := by simp [movedBy, hf, hd]
          rw [hm]; simp only [if_true]
          by_cases hr : movedBy links to rest d = true
          · simpa [hr] using this
          · simpa [hr] using this
        · simp only [hd, if_false] at this
          have hm : movedBy links to (f :: rest) d = movedBy links to rest d := by simp [movedBy, hf, hd]
          rw [hm]; exact this

theorem getScopeValueOwners_spec {l : Ledger} {ids : List ScopeId} {links : List Link}
    (h : getScopeValueOwners l ids = .ok links) :
    links.map (·.2) = ids ∧ ∀ lk ∈ links, denomOwner l lk.2 = .ok lk.1 := by
  induction ids generalizing links with
  | nil => simp [getScopeValueOwners] at h; subst h; simp
  | cons id rest ih =>
    unfold getScopeValueOwners at h
    cases hd : denomOwner l id with
    | error e => rw [hd] at h; simp at h
    | ok o =>
      rw [hd] at h; simp only at h
      cases hr : getScopeValueOwners l rest with
      | error e => rw [hr] at h; simp at h
      | ok ls =>
        rw [hr] at h; simp at h; subst h
        obtain ⟨h1, h2⟩ := ih hr
        refine ⟨by simp [h1], fun lk hlk => ?_⟩
        rcases List.mem_cons.mp hlk with rfl | hlk
        · exact hd
        · exact h2 lk hlk

theorem mem_idsOf {links : List Link} {f : Addr} {d : ScopeId} : d ∈ idsOf links f ↔ (some f, d) ∈ links := by
  unfold idsOf
  simp only [List.mem_map, List.mem_filter, decide_eq_true_eq]
  constructor
  · rintro ⟨lk, ⟨hm, h1⟩, h2⟩
    obtain ⟨a, id⟩ := lk
    simp only at h1 h2
    subst h1; subst h2; exact hm
  · intro hm
    exact ⟨(some f, d), ⟨hm, rfl⟩, rfl⟩

theorem movedBy_iff {links : List Link} {to : Addr} {froms : List Addr} {d : ScopeId} :
    movedBy links to froms d = true ↔ ∃ f ∈ froms, f ≠ to ∧ (some f, d) ∈ links := by
  simp [movedBy, List.any_eq_true, mem_idsOf]

/-- what `validateUpdateValueOwners` checked about the links themselves -/
theorem validateUpdateValueOwners_links {s : State} {links : List Link} {proposed : Addr} {signers : List Addr}
    {mt : MsgType} {a : Auth} {agents : List Addr}
    (h : validateUpdateValueOwners s links proposed signers mt = .ok (a, agents)) :
    (∀ lk ∈ links, lk.1 ≠ none ∧ lk.1 ≠ some proposed) := by
  unfold validateUpdateValueOwners at h
  split at h
  · simp at h
  · cases hv : validateForScopes [] links with
    | error e => rw [hv] at h; simp at h
    | ok u =>
      rw [hv] at h; simp only at h
      split at h
      · simp at h
      · rename_i hsame
        intro lk hlk
        refine ⟨(validateForScopes_spec hv).2.2 lk hlk, fun he => hsame ?_⟩
        simp only [List.any_eq_true, decide_eq_true_eq]
        exact ⟨lk, hlk, he⟩

/-- shared by UpdateValueOwners and MigrateValueOwner: exactly the linked tokens move to `vo` -/
theorem moveValueOwners_exact {s s' : State} {links : List Link} {vo : Addr} {signers : List Addr}
    {mt : MsgType} {a : Auth} {agents : List Addr}
    (hv : validateUpdateValueOwners s links vo signers mt = .ok (a, agents))
    (h : setScopeValueOwners { s with grants := a.grants } agents links vo = .ok s') :
    ∀ d o, HolderIs s.ledger d o →
      HolderIs s'.ledger d (if d ∈ links.map (·.2) then some vo else o) := by
  have hlinks := validateUpdateValueOwners_links hv
  unfold setScopeValueOwners at h
  split at h
  · rename_i hemp
    simp at h; subst h
    have : links = [] := by simpa using hemp
    subst this
    intro d o ho; simpa using ho
  · cases hvf : validateForScopes [] links with
    | error e => rw [hvf] at h; simp at h
    | ok u =>
      rw [hvf] at h; simp only at h
      split at h
      · simp at h
      · intro d o ho
        have := sendAll_exact (fun f => idsOf_nodup (validateForScopes_spec hvf).1 f) h d o ho
        have hiff : movedBy links vo (accAddrs links) d = true ↔ d ∈ links.map (·.2) := by
          rw [movedBy_iff]
          constructor
          · rintro ⟨f, _, _, hm⟩
            exact List.mem_map.mpr ⟨(some f, d), hm, rfl⟩
          · intro hm
            obtain ⟨lk, hlk, he⟩ := List.mem_map.mp hm
            obtain ⟨o1, id1⟩ := lk
            simp only at he; subst he
            obtain ⟨hn, hp⟩ := hlinks _ hlk
            cases o1 with
            | none => exact absurd rfl hn
            | some f =>
              refine ⟨f, mem_accAddrs.mpr ⟨_, hlk, rfl⟩, ?_, hlk⟩
              intro e; exact hp (by rw [e])
        by_cases hc : movedBy links vo (accAddrs links) d = true
        · simp only [hc, if_true] at this
          simp only [hiff.mp hc, if_true]; exact this
        · simp only [hc] at this
          have : ¬ d ∈ links.map (·.2) := fun x => hc (hiff.mpr x)
          simp only [this, if_false]
          simpa using ‹HolderIs s'.ledger d (if false = true then some vo else o)›

theorem bal_ne_zero_mem_denom {l : Ledger} {a : Addr} {d : Denom} (h : bal l a d ≠ 0) :
    d ∈ l.map (·.denom) := by
  induction l with
  | nil => simp at h
  | cons e t ih =>
    simp only [bal] at h
    by_cases hc : e.addr = a ∧ e.denom = d
    · simp [hc.2]
    · simp only [hc, if_false, Int.zero_add] at h
      simp [ih h]

/-- under the invariant, the links of `MigrateValueOwner` are exactly the scopes `ex` holds -/
theorem mem_scopesForValueOwner {l : Ledger} {ex : Addr} {d : ScopeId} {o : Option Addr}
    (ho : HolderIs l d o) (hsd : isScopeDenom d = true) :
    d ∈ (scopesForValueOwner l ex).map (·.2) ↔ o = some ex := by
  unfold scopesForValueOwner
  simp only [List.map_map, List.mem_map, List.mem_filter, Function.comp]
  have hb := ho.2 ex
  constructor
  · rintro ⟨d', ⟨_, hne⟩, rfl⟩
    by_cases hc : o = some ex
    · exact hc
    · simp [hc] at hb; simp [hb] at hne
  · intro hc
    have h1 : bal l ex d = 1 := by simpa [hc] using hb
    have hne : bal l ex d ≠ 0 := by rw [h1]; decide
    exact ⟨d, ⟨mem_dedup.mpr (bal_ne_zero_mem_denom hne), by simp [h1, hsd]⟩, rfl⟩

/-- `GetScopesForValueOwner` only ever returns scope denoms -/
theorem scopesForValueOwner_scopeDenom {l : Ledger} {ex : Addr} {d : ScopeId}
    (h : d ∈ (scopesForValueOwner l ex).map (·.2)) : isScopeDenom d = true := by
  unfold scopesForValueOwner at h
  simp only [List.map_map, List.mem_map, List.mem_filter, Function.comp, Bool.and_eq_true] at h
  obtain ⟨d', ⟨_, h1, _⟩, rfl⟩ := h
  exact h1

theorem write_effect {s s' : State} {id : ScopeId} {owners : List Party} {rollup : Bool} {vo : Addr} {signers : List Addr}
    (hinv : Inv s) (h : writeScope s id owners rollup vo signers = .ok s') :
    hasScope s' id = true ∧ (vo ≠ "" → HolderIs s'.ledger id (some vo)) ∧
    (∀ d, d ≠ id → ∀ o, HolderIs s.ledger d o → HolderIs s'.ledger d o) := by
  unfold writeScope at h
  cases hv : validateWriteScope s id owners rollup vo signers with
  | error e => rw [hv] at h; simp at h
  | ok r =>
    obtain ⟨a, agents⟩ := r
    rw [hv] at h; simp only at h
    unfold setScope at h
    by_cases hvo : vo ≠ ""
    · rw [if_pos hvo] at h
      cases hsv : setScopeValueOwner { s with grants := a.grants } agents id vo with
      | error e => rw [hsv] at h; simp at h
      | ok s2 =>
        rw [hsv] at h; simp at h; subst h
        have hsd := validateWriteScope_scopeDenom hv
        obtain ⟨hfr, hother, hid⟩ := setScopeValueOwner_spec (s := { s with grants := a.grants }) hinv.allHeld hsd hsv
        obtain ⟨o, ho, hne, _⟩ := hinv id hsd
        refine ⟨by rw [hasScope_putScope]; simp, fun _ => ?_, hother⟩
        have := (hid o ho hne).1; rwa [optAddr_ne hvo] at this
    · rw [if_neg hvo] at h; simp at h; subst h
      exact ⟨by rw [hasScope_putScope]; simp, fun hc => absurd hc hvo, fun d _ o ho => ho⟩

theorem send_effect {s s' : State} {frm to : Addr} {ids : List ScopeId}
    (hinv : Inv s) (h : bankSend s frm to ids = .ok s') :
    (∀ d ∈ ids, isScopeDenom d = true → HolderIs s.ledger d (some frm)) ∧
    ∀ d o, HolderIs s.ledger d o → HolderIs s'.ledger d (if d ∈ ids then some to else o) := by
  unfold bankSend at h
  split at h
  · simp at h
  · rename_i hvalid
    simp only [Bool.or_eq_true, decide_eq_true_eq, not_or, Bool.not_eq_true', Bool.not_eq_false] at hvalid
    have hnd' : ids.Nodup := nodupB_iff.mp (by simpa using hvalid.2)
    split at h
    · simp at h
    · refine ⟨fun d hd hdd => ?_, fun d o ho => (sendCoins_holder hnd' h ho).2⟩
      obtain ⟨o, ho, _, _⟩ := hinv d hdd
      have := (sendCoins_holder hnd' h ho).1 hd
      rw [this] at ho; exact ho

/-! ### the messages never create or widen an authorization -/

/-- every grant of `s'` goes back to a grant of `s` with the same (grantee, granter, msg type) -/
def GrantsSub (s s' : State) : Prop := ∀ g ∈ s'.grants, KeyIn s.grants g.grantee g.granter g.mt

theorem grantsSub_of_eq {s s' : State} (h : s'.grants = s.grants) : GrantsSub s s' :=
  fun g hg => ⟨g, h ▸ hg, rfl, rfl, rfl⟩

theorem validateDeleteScope_wf {s : State} {id : ScopeId} {signers : List Addr} {a : Auth} {agents : List Addr}
    (h : validateDeleteScope s id signers = .ok (a, agents)) : AuthWf s.grants a := by
  unfold validateDeleteScope at h
  split at h
  · simp at h
  · cases hf : findScope s id with
    | none => rw [hf] at h; simp at h
    | some e =>
      rw [hf] at h; simp only at h
      cases hp : deleteParties s e signers with
      | error er => rw [hp] at h; simp at h
      | ok r =>
        obtain ⟨a1, used1⟩ := r
        rw [hp] at h; simp only at h
        cases hd : denomOwner s.ledger id with
        | error er => rw [hd] at h; simp at h
        | ok vo =>
          rw [hd] at h; simp only at h
          cases hv : validateScopeValueOwnersSigners s a1 vo.toList "" signers .delete with
          | error er => rw [hv] at h; simp at h
          | ok r2 =>
            obtain ⟨a2, ag2, used2⟩ := r2
            rw [hv] at h; simp only at h
            cases hc : validateSmartContractSigners s (used2 ++ used1) .delete a2 true signers with
            | error er => rw [hc] at h; simp at h
            | ok a3 =>
              rw [hc] at h; simp at h
              obtain ⟨rfl, rfl⟩ := h
              have hw1 := deleteParties_wf hp
              exact validateSmartContractSigners_wf (validateScopeValueOwnersSigners_spec hw1 hv).1 hc

theorem validateUpdateValueOwners_wf {s : State} {links : List Link} {proposed : Addr} {signers : List Addr}
    {mt : MsgType} {a : Auth} {agents : List Addr}
    (h : validateUpdateValueOwners s links proposed signers mt = .ok (a, agents)) : AuthWf s.grants a := by
  unfold validateUpdateValueOwners at h
  split at h
  · simp at h
  · cases hv : validateForScopes [] links with
    | error e => rw [hv] at h; simp at h
    | ok u =>
      rw [hv] at h; simp only at h
      split at h
      · simp at h
      · cases hs : validateScopeValueOwnersSigners s { grants := s.grants } (accAddrs links) proposed signers mt with
        | error e => rw [hs] at h; simp at h
        | ok r =>
          obtain ⟨a1, ag1, u1⟩ := r
          rw [hs] at h; simp at h
          obtain ⟨rfl, rfl⟩ := h
          exact (validateScopeValueOwnersSigners_spec (authWf_init _) hs).1

theorem write_grants {s s' : State} {id : ScopeId} {owners : List Party} {rollup : Bool} {vo : Addr} {signers : List Addr}
    (hinv : Inv s) (h : writeScope s id owners rollup vo signers = .ok s') : GrantsSub s s' := by
  unfold writeScope at h
  cases hv : validateWriteScope s id owners rollup vo signers with
  | error e => rw [hv] at h; simp at h
  | ok r =>
    obtain ⟨a, agents⟩ := r
    rw [hv] at h; simp only at h
    have hw := (validateWriteScope_spec hinv hv).2.1
    unfold setScope at h
    by_cases hvo : vo ≠ ""
    · rw [if_pos hvo] at h
      cases hsv : setScopeValueOwner { s with grants := a.grants } agents id vo with
      | error e => rw [hsv] at h; simp at h
      | ok s2 =>
        rw [hsv] at h; simp at h; subst h
        have hfr := (setScopeValueOwner_spec (s := { s with grants := a.grants }) hinv.allHeld (validateWriteScope_scopeDenom hv) hsv).1
        intro g hg
        have : g ∈ a.grants := by have := hfr.grants; simp only [putScope] at hg; rw [this] at hg; exact hg
        exact hw.1 g this
    · rw [if_neg hvo] at h; simp at h; subst h
      intro g hg
      exact hw.1 g hg

theorem delete_grants {s s' : State} {id : ScopeId} {signers : List Addr}
    (hinv : Inv s) (h : deleteScope s id signers = .ok s') : GrantsSub s s' := by
  unfold deleteScope at h
  cases hv : validateDeleteScope s id signers with
  | error e => rw [hv] at h; simp at h
  | ok r =>
    obtain ⟨a, agents⟩ := r
    rw [hv] at h; simp only at h
    have hw := validateDeleteScope_wf hv
    unfold removeScope at h
    split at h
    · simp at h; subst h; intro g hg; exact hw.1 g hg
    · cases hsv : setScopeValueOwner { s with grants := a.grants } agents id "" with
      | error e => rw [hsv] at h; simp at h
      | ok s2 =>
        rw [hsv] at h; simp at h; subst h
        have hfr := (setScopeValueOwner_spec (s := { s with grants := a.grants }) hinv.allHeld (validateDeleteScope_scopeDenom hv) hsv).1
        intro g hg
        have : g ∈ a.grants := by have := hfr.grants; simp only [dropScope] at hg; rw [this] at hg; exact hg
        exact hw.1 g this

theorem moveValueOwners_grants {s s' : State} {links : List Link} {vo : Addr} {signers : List Addr}
    {mt : MsgType} {a : Auth} {agents : List Addr}
    (hv : validateUpdateValueOwners s links vo signers mt = .ok (a, agents))
    (h : setScopeValueOwners { s with grants := a.grants } agents links vo = .ok s') : GrantsSub s s' := by
  have hw := validateUpdateValueOwners_wf hv
  have hfr := (setScopeValueOwners_spec h).1
  intro g hg
  have : g ∈ a.grants := by have := hfr.grants; rw [this] at hg; exact hg
  exact hw.1 g this

end PvProofs.VownerL
