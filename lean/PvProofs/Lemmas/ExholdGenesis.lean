/-
C02 helper lemmas: a validated genesis gives well-formed records.
-/
import PvProofs.Lemmas.ExholdSpecBridge

namespace PvProofs.Exhold
open PvModel PvModel.Exhold

theorem foldl_setOrder_fresh (l acc : List Order) (h : ((acc ++ l).map (·.id)).Nodup) :
    l.foldl setOrder acc = acc ++ l := by
  induction l generalizing acc with
  | nil => simp
  | cons o t ih =>
    simp only [List.foldl_cons]
    have hnot : o.id ∉ acc.map (·.id) := by
      simp only [List.map_append, List.map_cons] at h
      have := (List.nodup_append.mp h).2.2
      intro hm
      exact this _ hm _ (by simp) rfl
    have hset : setOrder acc o = acc ++ [o] := by
      clear ih h
      induction acc with
      | nil => rfl
      | cons x r ihr =>
        simp only [List.map_cons, List.mem_cons, not_or] at hnot
        simp only [setOrder]
        have : x.id ≠ o.id := fun h => hnot.1 h.symm
        simp [this, ihr hnot.2]
    rw [hset, ih (acc ++ [o]) (by simpa using h)]
    simp

theorem le_foldl_max (l : List Order) (m : Nat) :
    m ≤ l.foldl (fun m o => max m o.id) m ∧ ∀ o ∈ l, o.id ≤ l.foldl (fun m o => max m o.id) m := by
  induction l generalizing m with
  | nil => simp
  | cons x t ih =>
    simp only [List.foldl_cons]
    obtain ⟨h1, h2⟩ := ih (max m x.id)
    refine ⟨by omega, ?_⟩
    intro o ho
    rcases List.mem_cons.mp ho with rfl | ho'
    · omega
    · exact h2 o ho'

theorem loadCommitments_nonneg (cs acc : List Commitment) (hc : ∀ c ∈ cs, EntriesNonneg c.amount)
    (ha : ∀ c ∈ acc, EntriesNonneg c.amount) : ∀ c ∈ loadCommitments cs acc, EntriesNonneg c.amount := by
  induction cs generalizing acc with
  | nil => simpa [loadCommitments] using ha
  | cons x t ih =>
    simp only [loadCommitments]
    apply ih _ (fun c h => hc c (by simp [h]))
    intro c hcm
    rcases mem_setCommitment hcm with rfl | h'
    · exact entriesNonneg_norm (entriesNonneg_append (getCommitment_nonneg ha _ _) (hc x (by simp)))
    · exact ha c h'

theorem loadCommitments_keys (cs acc : List Commitment) (ha : (acc.map commitKey).Nodup) :
    ((loadCommitments cs acc).map commitKey).Nodup := by
  induction cs generalizing acc with
  | nil => simpa [loadCommitments] using ha
  | cons x t ih =>
    simp only [loadCommitments]
    exact ih _ (keys_setCommitment _ _ _ _ ha)

theorem loadPayments_spec (ps acc : List Payment) {res : List Payment} (h : loadPayments ps acc = some res)
    (hk : (acc.map payKey).Nodup) :
    (res.map payKey).Nodup ∧ ∀ p ∈ res, p ∈ acc ∨ p ∈ ps := by
  induction ps generalizing acc with
  | nil =>
    simp only [loadPayments] at h
    injection h with h; subst h
    exact ⟨hk, fun p hp => Or.inl hp⟩
  | cons x t ih =>
    simp only [loadPayments] at h
    split at h
    · simp at h
    · obtain ⟨h1, h2⟩ := ih (acc := setPayment acc x) h (keys_setPayment acc x hk)
      refine ⟨h1, fun p hp => ?_⟩
      rcases h2 p hp with h3 | h3
      · rcases mem_setPayment h3 with rfl | h4
        · exact Or.inr (by simp)
        · exact Or.inl h4
      · exact Or.inr (by simp [h3])

/-- the records `InitGenesis` stores from a validated genesis are well-formed -/
theorem initGenesis_wf {s s₀ : State} {g : Genesis} (h : initGenesis s g = .ok s₀) : WF s₀ := by
  unfold initGenesis at h
  simp only at h
  split at h
  · simp at h
  · rename_i hv
    split at h
    · simp at h
    · rename_i hlast
      split at h
      · simp at h
      · rename_i ps hps
        split at h
        · injection h with h
          subst h
          have hv' : g.validate = true := by simpa using hv
          simp only [Genesis.validate, Bool.and_eq_true, List.all_eq_true, decide_eq_true_eq] at hv'
          obtain ⟨⟨⟨hnd, ho⟩, hcm⟩, hpy⟩ := hv'
          have hord : g.orders.foldl setOrder [] = g.orders := by
            have := foldl_setOrder_fresh g.orders [] (by simpa using hnd)
            simpa using this
          obtain ⟨hk, hmem⟩ := loadPayments_spec g.payments [] hps (by simp)
          constructor
          · intro o hom
            simp only [hord] at hom
            exact (validate_wf (ho o hom).2).1
          · intro o hom
            simp only [hord] at hom
            have := (le_foldl_max g.orders 0).2 o hom
            simp only [Nat.not_lt] at hlast
            show o.id ≤ g.lastOrderId
            omega
          · simp only [hord]; exact hnd
          · exact loadCommitments_nonneg g.commitments [] (fun c hc => isValidCoins_nonneg (hcm c hc).2)
              (fun c hc => by simp at hc)
          · exact loadCommitments_keys g.commitments [] (by simp)
          · intro p hp
            rcases hmem p hp with h1 | h1
            · simp at h1
            · have := hpy p h1
              simp only [Payment.validate, Bool.and_eq_true] at this
              exact this.1
          · exact hk
        · simp at h

end PvProofs.Exhold
