/-
Helper lemmas for C17: a stored gas limit never changes after the creating transaction wrote it.
Every operation only REMOVES gas limits or (a create transaction) writes one for a fresh id; so the
limit a BeginBlock runs a trigger with is the one its creating transaction stored and paid.
-/
import PvProofs.Lemmas.TrigGas

namespace PvProofs.Lemmas.Trig
open PvModel.Trig

/-- every gas limit of `s'` is, unchanged, a gas limit of `s` -/
def GasSub (s s' : State) : Prop := ∀ id g, s'.gasLimits id = some g → s.gasLimits id = some g

theorem GasSub.refl (s : State) : GasSub s s := fun _ _ h => h

theorem GasSub.trans {a b c : State} (h1 : GasSub a b) (h2 : GasSub b c) : GasSub a c :=
  fun id g h => h1 id g (h2 id g h)

theorem GasSub_removeGasLimit (s : State) (i : Nat) : GasSub s (removeGasLimit s i) := by
  intro id g h
  change (if id = i then none else s.gasLimits id) = some g at h
  split at h
  · cases h
  · exact h

theorem GasSub_handleMsg {s s' : State} {a : Action} (h : handleMsg s a = .ok s') : GasSub s s' := by
  cases a with
  | send f t amt =>
    obtain ⟨b, hb⟩ := bankSend_ok (show bankSend s f t amt = .ok s' from h)
    subst hb; exact GasSub.refl s
  | kill auth id =>
    obtain ⟨_, _, t, _, _, e⟩ := destroyTrigger_ok (show destroyTrigger s auth id = .ok s' from h)
    subst e
    exact GasSub_removeGasLimit (unregisterTrigger s t) t.id
  | boom => cases h

theorem GasSub_applyAll : ∀ (acts : List Action) (s : State), GasSub s (applyAll s acts)
  | [], s => GasSub.refl s
  | a :: rest, s => by
    simp only [applyAll]
    split
    · next s' hs => exact (GasSub_handleMsg hs).trans (GasSub_applyAll rest s')
    · exact GasSub_applyAll rest s

theorem GasSub_replay : ∀ (xs : List Exec) (s : State), GasSub s (replay s xs)
  | [], s => GasSub.refl s
  | x :: xs, s => by
    simp only [replay]
    have h1 : GasSub s (removeGasLimit (dequeue s) x.id) := GasSub_removeGasLimit (dequeue s) x.id
    split
    · exact (h1.trans (GasSub_applyAll _ _)).trans (GasSub_replay xs _)
    · exact h1.trans (GasSub_replay xs _)

/-- One operation: a gas limit present afterwards was there before, unchanged, or the operation is
the create transaction that returned this very id and limit — the limit is `gasLimitFor` of the
transaction's remaining gas and was charged to it on top of the cost of storing it. -/
theorem gasLimits_step {s : State} (hw : WF s) (op : Op) (id g : Nat)
    (h : (step s op).1.gasLimits id = some g) :
    s.gasLimits id = some g ∨ ∃ m rem hh tm, op = .create m rem hh tm ∧
      (step s op).2 = .created id g ∧ id = s.nextId ∧ g = gasLimitFor rem ∧ g + SetGasLimitCost ≤ rem := by
  cases op with
  | fund a amt => exact Or.inl h
  | pay f t amt =>
    simp only [step] at h
    split at h
    · next s' hs => obtain ⟨b, hb⟩ := bankSend_ok hs; subst hb; exact Or.inl h
    · exact Or.inl h
  | create m rem hh tm =>
    simp only [step] at h ⊢
    split at h
    · next s' id' g' hc =>
      obtain ⟨_, hid, hg, h1, h2, owner, rest, _, hs⟩ := createTrigger_ok hc
      subst hs
      change (if id = s.nextId then some g' else s.gasLimits id) = some g at h
      split at h
      · next e =>
        cases h
        right
        exact ⟨m, rem, hh, tm, rfl, by rw [hid, e], e, hg, by omega⟩
      · exact Or.inl h
    · exact Or.inl h
  | destroy auth id' =>
    simp only [step] at h
    split at h
    · next s' hd =>
      obtain ⟨_, _, t, _, _, e⟩ := destroyTrigger_ok hd
      subst e
      exact Or.inl (GasSub_removeGasLimit (unregisterTrigger s t) t.id id g h)
    · exact Or.inl h
  | beginBlock cost =>
    simp only [step, processTriggers] at h
    obtain ⟨s', xs, hp, _, _, _, _, _, _, _, _, _, _, hrep, _⟩ := processLoop_spec cost MaximumActions 0 s hw
    rw [hp] at h
    left
    subst hrep
    exact GasSub_replay xs s id g h
  | endBlock evs hh tm =>
    simp only [step, detectBlockEvents] at h
    split at h
    · next s' ts hd =>
      split at hd
      · next ts' hda =>
        cases hd
        obtain ⟨hnd, hreg⟩ := detectAll_spec hw hda
        obtain ⟨_, _, _, _, _, hgl⟩ := queueDetected_spec hh tm ts s hw hnd (fun t ht => (hreg t ht).1)
        rw [hgl] at h; exact Or.inl h
      · cases hd
    · exact Or.inl h

/-- Trigger `id` with stored gas limit `g` and action list `acts` was created by the `i`-th
operation of the history: a create transaction that passed `ValidateBasic`, answered `created id g`,
whose remaining gas `rem` determined `g` and paid for it. -/
def Born (ops : List Op) (log : List Out) (id g : Nat) (acts : List Action) : Prop :=
  ∃ (i : Nat) (m : CreateMsg) (rem hh tm : Nat), ops[i]? = some (.create m rem hh tm) ∧
    log[i]? = some (.created id g) ∧
    g = gasLimitFor rem ∧ g + SetGasLimitCost ≤ rem ∧ m.validateBasic = .ok () ∧ acts = m.actions

theorem stored_id_lt {s : State} (hw : WF s) {t : Trigger} (h : stored s t) : t.id < s.nextId := by
  rcases h with h | ⟨q, hq, e⟩
  · exact (hw.trig _ _ h).2.2
  · subst e; exact (hw.q q hq).2.2

theorem gasLimit_id_lt {s : State} (hw : WF s) {id g : Nat} (h : s.gasLimits id = some g) :
    id < s.nextId := by
  have : (s.gasLimits id).isSome = true := by rw [h]; rfl
  rcases (hw.gas id).1 this with h1 | h1
  · obtain ⟨t, ht⟩ := Option.isSome_iff_exists.1 h1
    exact (hw.trig _ _ ht).2.2
  · obtain ⟨x, hx, e⟩ := List.mem_map.1 h1
    have := (hw.q x hx).2.2
    rwa [e] at this

/-- Over any continuation of a well-formed store: a trigger stored at the end together with its gas
limit was either already there with that limit, or was created — trigger and limit by the SAME
create transaction — during the continuation. -/
theorem born_run : ∀ (ops : List Op) (s : State), WF s → ∀ (t : Trigger) (g : Nat),
    stored (run s ops).1 t → (run s ops).1.gasLimits t.id = some g →
    (stored s t ∧ s.gasLimits t.id = some g) ∨ Born ops (run s ops).2 t.id g t.actions
  | [], s, _, t, g, h1, h2 => Or.inl ⟨by simpa [run] using h1, by simpa [run] using h2⟩
  | op :: ops, s, hw, t, g, h1, h2 => by
    simp only [run] at h1 h2 ⊢
    rcases born_run ops (step s op).1 (WF_step hw op) t g h1 h2 with
      ⟨a, b⟩ | ⟨i, m, rem, hh, tm, e1, e2, rest⟩
    · rcases stored_step hw op t a with a' | ⟨m, rem, hh, tm, eop, hv, owner, rest, _, et⟩
      · rcases gasLimits_step hw op t.id g b with b' | ⟨_, _, _, _, _, _, eid, _⟩
        · exact Or.inl ⟨a', b'⟩
        · have := stored_id_lt hw a'; omega
      · rcases gasLimits_step hw op t.id g b with b' | ⟨m', rem', hh', tm', eop', eout, _, eg, hpre⟩
        · have := gasLimit_id_lt hw b'
          rw [et] at this; simp at this
        · right
          rw [eop] at eop'
          cases eop'
          refine ⟨0, m, rem, hh, tm, by simp [eop], by simp [eout], eg, hpre, hv, ?_⟩
          rw [et]
    · right
      exact ⟨i + 1, m, rem, hh, tm, by simpa using e1, by simpa using e2, rest⟩

/-- Two lists mapped to the same ids and the same action lists: every element of the first has a
partner in the second agreeing on both. -/
theorem map_pair_mem {α β γ δ : Type} (f : α → γ) (f' : β → γ) (k : α → δ) (k' : β → δ) :
    ∀ (xs : List α) (ys : List β), xs.map f = ys.map f' → xs.map k = ys.map k' →
    ∀ x ∈ xs, ∃ y ∈ ys, f x = f' y ∧ k x = k' y
  | [], _, _, _, x, hx => by cases hx
  | a :: as, [], h, _, _, _ => by simp at h
  | a :: as, b :: bs, h1, h2, x, hx => by
    simp only [List.map_cons, List.cons.injEq] at h1 h2
    rcases List.mem_cons.1 hx with e | hx
    · subst e; exact ⟨b, List.mem_cons_self, h1.1, h2.1⟩
    · obtain ⟨y, hy, e⟩ := map_pair_mem f f' k k' as bs h1.2 h2.2 x hx
      exact ⟨y, List.mem_cons_of_mem _ hy, e⟩

end PvProofs.Lemmas.Trig
